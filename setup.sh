#!/bin/bash
# Build the framework from files on disk only and warm the Go build cache.
set -e
export GOFLAGS=-mod=mod GOPROXY=off GOSUMDB=off GOTOOLCHAIN=local
cd /verif/tools && mkdir -p /verif/bin && go build -o /verif/bin/vrewrite ./vrewrite
BASE=/dev/shm; [ -w "$BASE" ] || BASE=/var/tmp
SCR=$(mktemp -d "$BASE/verif-setup-XXXXXX"); trap 'rm -rf "$SCR"' EXIT
/verif/tools/build_s.sh "$SCR/s" >/dev/null
[ -x /verif/tools/build_e.sh ] && /verif/tools/build_e.sh "$SCR/e" >/dev/null || true
echo setup ok
