#!/bin/bash
# seed_round.sh <round-dir> <ID> <first-name> <second-name> : import both changes of one seeder
# (<round-dir>/<ID>-out/m1, m2) as <ID>-<first-name>, <ID>-<second-name>.
R="$1"; ID="$2"
python3 /verif/tools/seed_import.py "$R/$ID-out" "$ID" m1 "$3"
python3 /verif/tools/seed_import.py "$R/$ID-out" "$ID" m2 "$4"
