#!/usr/bin/env python3
"""seed_import.py <out-dir> <ID> <mN> [stored-name] : confirm a seeded change independently, run the property's
check against it, and store it under /verif/seeded/<ID>-<mN>/ (only if confirmed)."""
import json, os, re, shutil, subprocess, sys, time
out, pid, mn = sys.argv[1:4]
src = os.path.join(out, mn)
name = sys.argv[4] if len(sys.argv) > 4 else mn   # stored name (round 2: m3, m4)
dst = f"/verif/seeded/{pid}-{name}"
r = subprocess.run(["/verif/tools/confirm_seed.sh", src], capture_output=True, text=True)
line = [l for l in r.stdout.splitlines() if l.startswith("{")]
conf = json.loads(line[-1]) if line else {"confirmed": False, "error": r.stdout[-500:] + r.stderr[-500:]}
if not conf.get("confirmed"):
    print(pid, mn, "NOT CONFIRMED", json.dumps(conf)[:400]); sys.exit(1)
checks = {}
for tier in ["quick"]:
    t0 = time.time()
    c = subprocess.run(["/verif/tools/seedcheck.sh", os.path.join(src, "patch.diff"), pid, tier], capture_output=True, text=True)
    sigs = [(a, b) for a, b in re.findall(r"^\s+\[([^\]]+)\] (.+?): ", c.stdout, re.M) if not a.startswith("unrewritten")]
    checks[tier] = {"exit": c.returncode, "detected": c.returncode == 1, "wall_s": round(time.time() - t0, 1),
                    "reported": [f"{a}: {b}" for a, b in sigs][:6]}
if not checks["quick"]["detected"]:
    checks["first_pass"] = {"quick_detected": False, "note": "missed by the check as it was when the change arrived"}
os.makedirs(dst, exist_ok=True)
for f in os.listdir(src):
    if f.endswith(".log") or f.endswith(".txt"):
        continue
    shutil.copy(os.path.join(src, f), os.path.join(dst, f))
notes = open(os.path.join(src, "NOTES.md")).read() if os.path.exists(os.path.join(src, "NOTES.md")) else ""
meta = {"property": pid, "id": f"{pid}-{name}", "origin": "independent sub-agent given only the property text and a scratch worktree",
        "needs_to_manifest": "see NOTES.md section (b)",
        "confirmed_by": {"cmd": "tools/confirm_seed.sh (scratch worktree: build, unedited suite, demonstration with/without the change)",
                          "suite_new_failures": conf.get("suite_new_failures"), "demo_with_change": conf.get("demo_with_change"),
                          "demo_without_change": conf.get("demo_without_change")},
        "check_results": checks, "repo_head": subprocess.run(["git", "-C", "/repo", "rev-parse", "--short", "HEAD"], capture_output=True, text=True).stdout.strip()}
json.dump(meta, open(os.path.join(dst, "meta.json"), "w"), indent=1)
print(pid, mn, "confirmed; quick detected =", checks["quick"]["detected"], checks["quick"]["reported"][:2])
