#!/bin/bash
# build_s.sh <scratch dir> [-race]: copy /repo's working tree, add shims+harnesses, rewrite, build vh
set -e
export GOFLAGS=-mod=mod GOPROXY=off GOSUMDB=off GOTOOLCHAIN=local
S="$1"; shift
REPO="${VERIF_REPO:-/repo}"
mkdir -p "$S"
rsync -a --delete --exclude .git "$REPO"/ "$S"/
cp -r "${VERIF_HOME:-/verif}"/s/vz "$S"/vz
cp -r "${VERIF_HOME:-/verif}"/s/vh "$S"/vh
cd "$S"
PK=". errors protocol internal/core transport transport/inproc transport/tcp transport/tlstcp transport/ipc transport/ws transport/wss $(ls -d protocol/*/ | sed 's,/$,,' | tr '\n' ' ') $(cd "$S" && find vh -type d | tr '\n' ' ')"
"${VERIF_HOME:-/verif}"/bin/vrewrite "$@" -root "$S" $PK
go build -trimpath -tags verif -o "$S"/vh.bin ./vh/cmd/vh
