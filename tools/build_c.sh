#!/bin/bash
# build_c.sh <scratch dir>: conformance build - UNREWRITTEN mangos + unrewritten harnesses, the
# conformance flavour of vz/vsched (testing/synctest), compiled with go1.26.8 into a test binary.
set -e
export GOFLAGS=-mod=mod GOPROXY=off GOSUMDB=off GOTOOLCHAIN=local
export PATH=/opt/veriftools/go1.26.8/bin:$PATH
S="$1"
REPO="${VERIF_REPO:-/repo}"
H="${VERIF_HOME:-/verif}"
mkdir -p "$S"
rsync -a --delete --exclude .git "$REPO"/ "$S"/
mkdir -p "$S"/vz
cp -r "$H"/s/vz/vexplore "$S"/vz/vexplore
cp -r "$H"/s/vzc/vsched "$S"/vz/vsched
cp -r "$H"/s/vh "$S"/vh
cd "$S"
go version >&2
go test -c -trimpath -tags verif -o "$S"/conform.test ./vh/conform
