#!/bin/bash
# run_all.sh [tier] : run every check once, sequentially; summary on stdout, logs in /dev/shm/verif-all/
T=${1:-quick}
V="$(cd "$(dirname "$0")/.." && pwd)"
IDS="${2:-$(seq -w 1 20)}"
mkdir -p /dev/shm/verif-all
for i in $IDS; do
  id=C$i
  s=$(date +%s)
  timeout 7200 $V/check $id $T > /dev/shm/verif-all/$id.$T.log 2>&1; rc=$?
  echo "$id $T rc=$rc $(( $(date +%s) - s ))s viol=$(grep -c '^VIOLATION' /dev/shm/verif-all/$id.$T.log) known=$(grep -c '^KNOWN-FINDING' /dev/shm/verif-all/$id.$T.log) notes=$(grep -c 'CONFORMANCE-NOTE' /dev/shm/verif-all/$id.$T.log)"
done
