#!/bin/bash
# seedcheck.sh <patch.diff> <ID> [tier] : apply a seeded change to /repo, run the check, undo.
set -u
P="$(readlink -f "$1")"; ID="$2"; TIER="${3:-quick}"
cd /repo || exit 2
git diff --quiet || { echo "repo dirty"; exit 2; }
git apply "$P" || { echo "patch does not apply"; exit 2; }
OUT=$(cd /verif && ./check "$ID" "$TIER" 2>&1); RC=$?
git -C /repo checkout -- . ; git -C /repo clean -fdq
echo "$OUT" | grep -E "^\s+\[|^VIOLATION|INTERNAL" | head -12
echo "seedcheck $ID $(basename "$(dirname "$P")") rc=$RC"
