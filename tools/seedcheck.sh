#!/bin/bash
# seedcheck.sh <patch.diff> <ID> [tier] : run a check against a seeded change.
# The change is applied to a scratch copy of /repo's working tree (VERIF_REPO), which is what the
# check copies and rebuilds from, so /repo itself is never touched and other checks may run meanwhile.
# (Equivalent to: git -C /repo apply <patch>; ./check <ID>; git -C /repo checkout -- .)
set -u
P="$(readlink -f "$1")"; ID="$2"; TIER="${3:-quick}"
SC=$(mktemp -d /dev/shm/seedrepo-XXXXXX)
trap 'rm -rf "$SC"' EXIT
rsync -a --exclude .git /repo/ "$SC"/
(cd "$SC" && git init -q . 2>/dev/null; patch -p1 -s < "$P") || { echo "patch does not apply"; exit 2; }
OUT=$(cd "${SEEDCHECK_VERIF:-/verif}" && VERIF_REPO="$SC" VERIF_EVIDENCE_DIR="$SC/.evidence" ./check "$ID" "$TIER" 2>&1); RC=$?
echo "$OUT" | grep -E "^\s+\[|^VIOLATION|INTERNAL" | head -12
echo "seedcheck $ID $(basename "$(dirname "$P")") rc=$RC"
exit $RC
