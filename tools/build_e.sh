#!/bin/bash
# build_e.sh <scratch dir>: copy /repo's working tree, add the engine E driver (no rewriting), build ve.bin and macat
set -e
export GOFLAGS=-mod=mod GOPROXY=off GOSUMDB=off GOTOOLCHAIN=local
S="$1"
REPO="${VERIF_REPO:-/repo}"
mkdir -p "$S"
rsync -a --delete --exclude .git "$REPO"/ "$S"/
cp -r "${VERIF_HOME:-/verif}"/e "$S"/ve
cd "$S"
go build -trimpath -tags verif -o "$S"/ve.bin ./ve/cmd/ve
go build -trimpath -tags verif -o "$S"/macat.bin ./macat/macat
