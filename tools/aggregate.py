#!/usr/bin/env python3
"""Merge engine part files into /verif/evidence/<ID>.json, apply the known-findings
list, write replay artefacts and print VIOLATION / KNOWN-FINDING lines.
Exit 0 = property held on everything explored (known findings aside),
1 = unlisted violation, 2 = internal error."""
import argparse, fnmatch, hashlib, json, os, re, sys, time

ap = argparse.ArgumentParser()
ap.add_argument('--prop', required=True)
ap.add_argument('--tier', required=True)
ap.add_argument('--parts', nargs='*', default=[])
ap.add_argument('--evidence', required=True)
ap.add_argument('--known', required=True)
ap.add_argument('--replays', required=True)
ap.add_argument('--wall', type=float, default=0.0)
ap.add_argument('--seed', type=int, default=0)
ap.add_argument('--internal', default='')
a = ap.parse_args()

known = []
if os.path.exists(a.known):
    for line in open(a.known):
        line = line.strip()
        m = re.match(r'known:\s+property=(\S+)\s+sig=(\S+)\s*(.*)', line)
        if m:
            known.append((m.group(1), m.group(2), m.group(3)))

def is_known(sig):
    for prop, pat, desc in known:
        if prop != a.prop:
            continue
        if pat == sig or (('*' in pat or '?' in pat) and fnmatch.fnmatchcase(sig, pat)):
            return pat, desc
    return None

internal = a.internal
scen = []
assumptions = []
for pf in a.parts:
    try:
        part = json.load(open(pf))
    except Exception as e:
        internal += f'cannot read part {pf}: {e}\n'
        continue
    if part.get('internal_error'):
        internal += part['internal_error'] + '\n'
    for s in part.get('scenarios') or []:
        s['engine'] = part.get('engine', '?')
        scen.append(s)
    assumptions += part.get('assumptions') or []

# conformance: scenarios of engine C (unrewritten code under testing/synctest) must have explored the same
# histories with the same observations as their engine S namesakes
conf_exec = 0
conf_notes = []
by_name = {s['scenario']: s for s in scen if s.get('engine') == 'S'}
for c in [s for s in scen if s.get('engine') == 'C']:
    m = by_name.get(c['scenario'])
    if m is None:
        conf_notes.append(f"MISMATCH {c['scenario']}: no engine S counterpart")
        continue
    if c.get('violations'):
        for v in c['violations']:
            conf_notes.append(f"MISMATCH {c['scenario']}: unrewritten code under synctest reports {v['sig']}: {(v.get('message') or '')[:300]}")
        continue
    if not (m.get('exhaustive') and c.get('exhaustive')) or m.get('violations'):
        conf_notes.append(f"{c['scenario']}: not compared (incomplete or violating run)")
        continue
    if c.get('executions') != m.get('executions') or sorted(c.get('obs_hashes') or []) != sorted(m.get('obs_hashes') or []):
        conf_notes.append(f"MISMATCH {c['scenario']}: rewritten code explored {m.get('executions')} histories / "
                          f"{len(m.get('obs_hashes') or [])} distinct observations, unrewritten code {c.get('executions')} / {len(c.get('obs_hashes') or [])}")
        continue
    conf_exec += c.get('executions', 0)
    conf_notes.append(f"{c['scenario']}: {c.get('executions')} histories, identical observation sets")
scen = [s for s in scen if s.get('engine') != 'C']

states = transitions = executions = 0
samples = []
exhaustive = True
caps = []
counters = {}
viol_new, viol_known = [], []
os.makedirs(a.replays, exist_ok=True)
for s in scen:
    executions += s.get('executions', 0)
    states += s.get('distinct_outcomes', 0)
    transitions += s.get('transitions', 0)
    if not s.get('exhaustive', False):
        exhaustive = False
        if s.get('cap_hit'):
            caps.append(f"{s['scenario']}: {s['cap_hit']}")
    for k, v in (s.get('counters') or {}).items():
        counters[k] = counters.get(k, 0) + v
    for smp in (s.get('samples') or [])[:1]:
        samples.append({'scenario': s['scenario'], **smp} if isinstance(smp, dict) else {'scenario': s['scenario'], 'case': smp})
    for v in s.get('violations') or []:
        v['scenario'] = s['scenario']
        k = is_known(v['sig'])
        if k:
            viol_known.append((v, k))
        else:
            viol_new.append(v)

lines = []
for v, (pat, desc) in viol_known:
    lines.append(f"KNOWN-FINDING: property={a.prop} sig={v['sig']} {desc}")
seen = set()
for v in viol_new:
    h = hashlib.sha1((v['scenario'] + '|' + v['sig']).encode()).hexdigest()[:10]
    path = os.path.join(a.replays, f"{a.prop}-{h}.json")
    json.dump({'property': a.prop, 'tier': a.tier, 'scenario': v['scenario'], 'sig': v['sig'], 'kind': v.get('kind'),
               'message': v.get('message'), 'choices': v.get('choices'), 'deviations': v.get('deviations'),
               'replays_identical': v.get('replays_identical'), 'trace': v.get('trace'), 'input': v.get('input')},
              open(path, 'w'), indent=1)
    lines.append(f"VIOLATION property={a.prop} replay={path}")
    print(f"  [{v['scenario']}] {v['sig']}: {(v.get('message') or '')[:400]}", file=sys.stderr)

cov = {
    'states': states, 'transitions': transitions,
    'traces_validated_against_impl': executions,
    'histories_replayed_on_unrewritten_code': conf_exec,
    'conformance': conf_notes,
    'samples': samples[:6] or [{'note': 'no sample recorded'}],
    'executions': executions,
    'evaluations': executions,
    'distinct_nontrivial': states,
    'rule': 'every execution is one run of the real (mechanically rewritten or unmodified) mangos code under the explorer; states = distinct end-of-execution observations (sched mode) or distinct (event history, observation) pairs (hist / enum mode); traces_validated_against_impl counts executions because each explored trace is itself executed on the implementation',
    'exhaustive': exhaustive and not internal,
    'caps_hit': caps,
    'vacuity_counters': counters,
    'scenarios': [{k: s.get(k) for k in ('scenario', 'engine', 'mode', 'bound', 'bound_completed', 'executions', 'transitions', 'distinct_outcomes', 'max_steps', 'exhaustive', 'cap_hit', 'wall_s')} for s in scen],
    'known_findings_seen': [v['sig'] for v, _ in viol_known],
}
ev = {
    'property_id': a.prop, 'tier': a.tier, 'seed': a.seed, 'level': 'model_checking',
    'coverage': cov,
    'assumptions': sorted(set(assumptions + [
        'the vrewrite source-to-source transformation and the vz shims preserve the semantics of data-race-free Go code',
        'bounds stated per scenario (deviation bound, history depth, alphabets)'])),
    'wall_s': round(a.wall, 2),
    'violations': len(viol_new),
}
if internal:
    ev['coverage']['internal_error'] = internal[:2000]
os.makedirs(os.path.dirname(a.evidence), exist_ok=True)
tmp = a.evidence + '.tmp'
json.dump(ev, open(tmp, 'w'), indent=1)
os.replace(tmp, a.evidence)
for l in lines:
    print(l)
for n in conf_notes:
    if n.startswith('MISMATCH'):
        # supporting evidence only: the real runtime is not deterministic (map order, goroutine order), so a
        # mismatch is recorded and shown but never decides the verdict
        print('CONFORMANCE-NOTE:', n, file=sys.stderr)
if internal:
    print('INTERNAL ERROR:', internal[:2000], file=sys.stderr)
    # violations that were confirmed (replayed identically) stand on their own: the verdict is 1;
    # a run that has nothing but an internal error is a tool failure
    sys.exit(1 if viol_new else 2)
if states < 1 or transitions < 1:
    print('INTERNAL ERROR: nothing was explored', file=sys.stderr)
    sys.exit(2)
sys.exit(1 if viol_new else 0)
