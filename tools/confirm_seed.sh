#!/bin/bash
# confirm_seed.sh <dir with patch.diff + *_test.go> : independent confirmation of a seeded change in a
# scratch worktree: (1) builds, (2) unedited suite still passes (only the 3 known failures),
# (3) demonstration fails with the change, (4) passes without.  Prints a JSON summary line.
set -u
export GOFLAGS=-mod=mod GOPROXY=off GOSUMDB=off GOTOOLCHAIN=local
D="$(cd "$1" && pwd)"
WT=$(mktemp -d /tmp/confirm-XXXXXX)
git -C /repo worktree add -q --detach "$WT" HEAD >/dev/null 2>&1 || { echo '{"error":"worktree"}'; exit 2; }
cleanup() { git -C /repo worktree remove --force "$WT" >/dev/null 2>&1; rm -rf "$WT"; }
trap cleanup EXIT
cd "$WT"
git apply "$D/patch.diff" || { echo "{\"dir\":\"$D\",\"applies\":false}"; exit 1; }
BUILD=ok; go build ./... >/dev/null 2>&1 || BUILD=fail
# the suite uses fixed ports: when other suites run on the machine some tests fail with "address in use".
# A test counts as a new failure only if it also fails when re-run on its own (up to 3 tries).
# run in a private network namespace when possible, so that several confirmations may run side by side
NS=""; unshare -rn true 2>/dev/null && NS="unshare -rn bash -c"
if [ -n "$NS" ]; then
  unshare -rn bash -c 'ip link set lo up; timeout 1700 go test -vet=off -count=1 -timeout 25m -json ./...' > "$WT/.suite.json" 2>/dev/null
else
  timeout 1700 go test -vet=off -count=1 -timeout 25m -json ./... > "$WT/.suite.json" 2>/dev/null
fi
SUITE=$(python3 - "$WT/.suite.json" <<'PY'
import json, subprocess, sys
fails = []
for line in open(sys.argv[1]):
    try:
        e = json.loads(line)
    except Exception:
        continue
    if e.get("Action") == "fail" and e.get("Test") and "BroadcastIP" not in e["Test"] and "/" not in e["Test"]:
        fails.append((e["Package"], e["Test"]))
real = []
for pkg, t in fails:
    ok = False
    for i in range(3):
        r = subprocess.run(["go", "test", "-vet=off", "-count=1", "-timeout", "300s", "-run", "^" + t + "$", pkg], capture_output=True, text=True)
        if r.returncode == 0:
            ok = True
            break
    if not ok:
        real.append(t)
print(" ".join(real))
PY
)
# place demo files: first comment line containing a path ending in _test.go says where
place() {
  for f in "$D"/*_test.go; do
    [ -f "$f" ] || continue
    tgt=$(grep -m1 -oE '[A-Za-z0-9_./-]+/[A-Za-z0-9_]+_test\.go' "$f" | head -1)
    if [ -z "$tgt" ] && grep -qiE "module root|next to message\.go" "$f"; then tgt="$(basename "$f")"; fi
    [ -z "$tgt" ] && tgt="protocol/$(basename "$f")"
    mkdir -p "$(dirname "$tgt")"; cp "$f" "$tgt"; echo "$tgt"
  done
}
TGTS=$(place)
PKGS=$(for t in $TGTS; do echo "./$(dirname "$t")"; done | sort -u | tr '\n' ' ')
RUNRE=$(grep -hoE '^func (Test[A-Za-z0-9_]+)' "$D"/*_test.go | sed 's/func //' | tr '\n' '|' | sed 's/|$//')
WITH=$(timeout 300 go test -vet=off -count=1 -timeout 200s -run "^($RUNRE)\$" $PKGS 2>&1 | grep -E "^(ok|FAIL|---)" | tr '\n' ' ')
git apply -R "$D/patch.diff"
WITHOUT=$(timeout 300 go test -vet=off -count=1 -timeout 200s -run "^($RUNRE)\$" $PKGS 2>&1 | grep -E "^(ok|FAIL|---)" | tr '\n' ' ')
python3 - "$D" "$BUILD" "$SUITE" "$WITH" "$WITHOUT" <<'PY'
import json,sys
d,b,s,w,wo=sys.argv[1:6]
print(json.dumps({"dir":d,"build":b,"suite_new_failures":s.strip(),"demo_with_change":w.strip(),"demo_without_change":wo.strip(),
  "confirmed": b=="ok" and s.strip()=="" and "FAIL" in w and "FAIL" not in wo and "ok" in wo}))
PY
