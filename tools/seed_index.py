#!/usr/bin/env python3
"""Regenerates /verif/seeded/INDEX.md from the meta.json files."""
import glob, json, os
rows = []
for f in sorted(glob.glob('/verif/seeded/*/meta.json')):
    m = json.load(open(f))
    q = m.get('check_results', {}).get('quick', {})
    first = ''
    notes = os.path.join(os.path.dirname(f), 'NOTES.md')
    if os.path.exists(notes):
        for l in open(notes):
            l = l.strip()
            if l and not l.startswith('#'):
                first = l[:160]
                break
    fp = 'round 1 (DESIGN §8)' if m['id'][-2:] in ('m1', 'm2') else 'missed, check strengthened' if 'first_pass' in m.get('check_results', {}) else ('yes' if q.get('detected') else 'NO')
    rows.append((m['id'], m['property'], fp, 'yes' if q.get('detected') else 'NO', '; '.join(q.get('reported', [])[:2])[:150], first))
with open('/verif/seeded/INDEX.md', 'w') as o:
    o.write('# Seeded property-breaking changes\n\n')
    o.write('Each directory holds `patch.diff` (applies to /repo HEAD named in meta.json), the demonstration test(s), the seeder\'s `NOTES.md` '
            '(what the change is, what it needs to manifest, what was run) and `meta.json` (independent confirmation by `tools/confirm_seed.sh`, '
            'result of the property\'s quick check by `tools/seedcheck.sh`).  All changes compile and keep the unedited suite green.\n\n')
    o.write('| id | property | when it arrived | detected by quick check now | reported as | change (first line of the notes) |\n|---|---|---|---|---|---|\n')
    for r in rows:
        o.write('| ' + ' | '.join(x.replace('|', '/') for x in r) + ' |\n')
    o.write(f'\n{sum(1 for r in rows if r[3]=="yes")} of {len(rows)} detected by the current quick checks; of the changes of rounds 2 onwards (m3 and later) {sum(1 for r in rows if r[2]=="yes")} of {sum(1 for r in rows if not r[2].startswith("round 1"))} were detected by the checks as they were when the change arrived; of the 40 round-1 changes (m1, m2) 23 were (per-change table in DESIGN.md §8).\n')
print(len(rows), 'entries')
