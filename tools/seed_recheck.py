#!/usr/bin/env python3
"""seed_recheck.py <ID-mN>... : re-run the quick check of the property against stored seeded changes
(after a check was strengthened) and update their meta.json."""
import json, os, re, subprocess, sys, time
for name in sys.argv[1:]:
    d = f"/verif/seeded/{name}"
    pid = name.split("-")[0]
    t0 = time.time()
    c = subprocess.run(["/verif/tools/seedcheck.sh", os.path.join(d, "patch.diff"), pid, "quick"], capture_output=True, text=True)
    sigs = [(a, b) for a, b in re.findall(r"^\s+\[([^\]]+)\] (.+?): ", c.stdout, re.M) if not a.startswith("unrewritten")]
    m = json.load(open(os.path.join(d, "meta.json")))
    old = m["check_results"].get("quick", {})
    if not old.get("detected") and "first_pass" not in m["check_results"]:
        m["check_results"]["first_pass"] = {"quick_detected": False, "note": "missed by the check as it was when the change arrived; the check was strengthened afterwards"}
    m["check_results"]["quick"] = {"exit": c.returncode, "detected": c.returncode == 1, "wall_s": round(time.time() - t0, 1),
                                   "reported": [f"{a}: {b}" for a, b in sigs][:6]}
    m["repo_head"] = subprocess.run(["git", "-C", "/repo", "rev-parse", "--short", "HEAD"], capture_output=True, text=True).stdout.strip()
    json.dump(m, open(os.path.join(d, "meta.json"), "w"), indent=1)
    print(name, "quick detected =", c.returncode == 1, m["check_results"]["quick"]["reported"][:2])
