module veriftools

go 1.22.0

toolchain go1.23.5

require golang.org/x/tools v0.29.0
