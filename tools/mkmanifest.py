#!/usr/bin/env python3
"""Generates /verif/MANIFEST.json from the table below (kept in one place so that
claimed / not_applicable stay consistent)."""
import json, subprocess

HOOK_COMMITS = subprocess.run("git -C /repo log --format=%H --grep='^verif hooks' ", shell=True, capture_output=True, text=True).stdout.split()

NOTE_S = ("Trusted base: the vrewrite source rewriter and the vz shim packages (scheduler, channels, sync, time) preserve Go semantics for data-race-free code; "
          "the harness-side virtual transport vt / reference models are correct; results hold only within the stated bounds (deviation bound, history depth, alphabets, 2-3 peers/contexts).")

claimed = {
 # id: (technique, text, design_ref, engines)
 "C03": ("stateless model checking of the rewritten real code: exhaustive event-history enumeration (depth-bounded) against a reference REQ model + deviation-bounded schedule exploration",
         "Every history of Send/Recv/Close/reply-arrival events up to the stated depth on 2 contexts and 2 connections is executed on the real req implementation under the controlled scheduler and compared step by step with a reference model; concurrent Send/Recv/reply scenarios are explored over all schedules up to the deviation bound.",
         "DESIGN.md §6 C03"),
 "C04": ("stateless model checking of the rewritten real code under virtual time: exhaustive event/fault-history enumeration (send, recv, reply, carrier loss, idle loss, connect, clock advance, close) with a transmission-log oracle; schedule exploration with early-timer deviations",
         "Every history up to the stated depth over the event/fault alphabet is executed on the real req implementation with a virtual clock; every transport message written is attributed to a request and must be justified (first transmission, loss of the carrying connection, or a full retry interval since the previous transmission), byte-identical, on one connection, and never after answer/cancel/close; required retransmissions are checked at every quiescence.",
         "DESIGN.md §6 C04"),
 "C05": ("stateless model checking of the rewritten real code: exhaustive event-history enumeration against a reference REP/RESPONDENT routing model (cooked and raw) + deviation-bounded schedule exploration",
         "Every history of request arrivals (routing-header depths and contents, malformed variants) from 2 connections, Recv/Send/Close on 2 contexts and connection loss up to the stated depth runs on the real rep, respondent, xrep and xrespondent code; every reply written to the wire must appear only on the requesting connection with exactly the saved routing header.",
         "DESIGN.md §6 C05"),
 "C06": ("stateless model checking of the rewritten real code: exhaustive enumeration of subscription sets x bodies against a reference prefix matcher, exhaustive subscribe/unsubscribe/publish/recv histories on 2 contexts and 2 publishers, deviation-bounded schedule exploration of unsubscribe vs arrival and of PUB fan-out",
         "All subscription sets of size <= 2 over the 21 byte strings of length <= 2 over {00,'a','b',ff} are checked against every body; every history up to the stated depth is compared with a per-context FIFO reference model (match at arrival, purge on unsubscribe, context independence); PUB/XPUB fan-out to a fast and a slow subscriber is explored over all schedules within the deviation bound.",
         "DESIGN.md §6 C06"),
 "C07": ("stateless model checking of the rewritten real code under virtual time: exhaustive survey/recv/response/clock/close histories against a reference SURVEYOR model + schedule exploration with early-timer deviations",
         "Every history up to the stated depth over {survey, recv, responses with current/stale/foreign/malformed ids from 2 respondents, advance T and T/2, close} on 2 contexts runs on the real surveyor code with a virtual clock; delivery, broadcast completeness, cancellation and prompt protocol-state failure are compared with the model at every quiescence; expiry racing a response and a new survey racing a stale response are explored over all schedules within the deviation bound.",
         "DESIGN.md §6 C07"),
}

not_applicable = {}
ALL = [f"C{i:02d}" for i in range(1, 21)]
for pid in ALL:
    if pid not in claimed:
        not_applicable[pid] = "check not built yet in this round (planned: see DESIGN.md §6); not claimed until it exists and passes on the unchanged tree"

checks = []
for pid, (tech, text, ref) in sorted(claimed.items()):
    checks.append({
        "property_id": pid,
        "quick_cmd": f"./check {pid} quick",
        "thorough_cmd": f"./check {pid} thorough",
        "evidence_file": f"/verif/evidence/{pid}.json",
        "replay_cmd_template": f"./check {pid} quick --replay {{path}}",
        "engine": "S",
        "level_claimed": {"category": "model_checking", "text": text, "design_ref": ref},
        "level_note": NOTE_S,
        "technique": tech,
    })

m = {
 "version": 1,
 "setup_cmd": "./setup.sh",
 "hooks": {
   "guard": "verif",
   "enable": "go build -tags verif (the checks copy /repo's working tree to a scratch directory, rewrite it with tools/vrewrite and build with -tags verif)",
   "baseline_off_cmd": "cd /repo && GOFLAGS=-mod=mod GOPROXY=off GOSUMDB=off go test -vet=off -count=1 -timeout 25m ./...",
   "source_commits": HOOK_COMMITS,
   "add_only": True,
 },
 "engines": [
   {"name": "S", "path": "/verif/s", "serves_properties": sorted(claimed), "kind_free_text": "stateless model checker: source-to-source rewrite of mangos (tools/vrewrite) onto a controlled scheduler with virtual time (s/vz/vsched), deviation-bounded DFS explorer sharded over processes (s/vz/vexplore), harnesses + virtual transport (s/vh)"},
 ],
 "checks": checks,
 "not_applicable": [{"property_id": k, "reason": v} for k, v in sorted(not_applicable.items())],
 "notes": "Single entry point ./check <ID> <quick|thorough>; known findings in known_findings.txt; replay artefacts in replays/.",
}
json.dump(m, open('/verif/MANIFEST.json', 'w'), indent=1)
print("claimed:", sorted(claimed), "n/a:", len(not_applicable))
