#!/usr/bin/env python3
"""Generates /verif/MANIFEST.json from the table below (kept in one place so that
claimed / not_applicable stay consistent)."""
import json, subprocess

HOOK_COMMITS = subprocess.run("git -C /repo log --format=%H --grep='^verif hooks' ", shell=True, capture_output=True, text=True).stdout.split()

NOTE_S = ("Trusted base: the vrewrite source rewriter and the vz shim packages (scheduler, channels, sync, time) preserve Go semantics for data-race-free code; "
          "the harness-side virtual transport vt / reference models are correct; results hold only within the stated bounds (deviation bound, history depth, alphabets, 2-3 peers/contexts).")

NOTE_E = ("Engine E runs the unmodified mangos code under the real Go scheduler and real OS transports: inputs, configurations and operation lists are enumerated exhaustively over the stated finite sets, goroutine schedules and kernel segmentation are not controlled; hang verdicts use generous watchdogs; the harness codecs/reference decoders are trusted.")

claimed = {
 "C16": ("stateless model checking of the rewritten real code over an in-memory network: exhaustive enumeration of hostile handshakes, length fields, truncation points and protocol-level bodies with a reference parser per pattern, plus schedule exploration of a stalled handshake beside a good peer",
         "transport/tcp and transport/conn.go run unmodified in logic over the harness' in-memory net (only the import is redirected): every single-byte deviation of the 8-byte header, every truncation (0..8 bytes then EOF/reset/silence), garbage after a valid header; length fields {-1, min, 0, 1, limit-1, limit, limit+1, 2^31, 2^32, max} x {no, short, exact body} x MaxRecvSize {default, 1, 1024, 0}: delivered iff well-formed and in limit, otherwise dropped at once with zero further bytes read and no allocation of the announced size; every truncation point of a frame; every body of length <= 4 (quick) / 6 (thorough) over {00,01,7f,80,ff} into every receiving socket kind compared with a reference parser; a well-behaved control peer is served throughout; the same on the IPC pipe (vipc). Engine E repeats handshake truncations/stalls, the length-field grid (MaxRecvSize default/1024/1/0), frame truncation, IPC type bytes, WebSocket frame and upgrade abuse (text, fragmented, oversized, unmasked, 2^63 lengths, ping flood, wrong subprotocol) and protocol bodies against real tcp, tls+tcp, ipc, ws, wss sockets with raw hostile peers, each case in a worker subprocess, with a control peer exchanging messages throughout.",
         "DESIGN.md §6 C16"),
 "C20": ("bounded-exhaustive enumeration on the built macat binary (engine E): all 1-byte and all 2-byte bodies, escape alphabet bodies, msgpack length boundaries x formats x receiving patterns with independent decoders; data/file x count x sending pattern; option-conflict grid; duration units",
         "macat is run as a subprocess against harness sockets: every 1-byte body (and every 2-byte body on pull), bodies over the escape alphabet, lengths {0,1,254..257,65534..65537} in raw/ascii/quoted/msgpack on 11 receiving variants, each followed by a sentinel record and decoded by independent decoders; --data/--file bytes arrive exactly --count times unchanged for each sending pattern; every conflicting/missing option combination is rejected without connecting; bare-integer durations mean seconds (lower bound asserted).",
         "DESIGN.md §6 C20"),
 "C11": ("stateless model checking of the rewritten, race-instrumented real code: all two-thread programs of API calls from a 28-operation alphabet on each of the 24 socket kinds, all schedules within the deviation bound, with a vector-clock happens-before race detector fed by the shims and by instrumented field / package-variable accesses",
         "vrewrite -race inserts a read/write notification before every statement that accesses a field of a module-declared struct through a pointer or a package variable; the scheduler keeps vector clocks over locks, channels, conds, once, go, timers, atomics and pools, so an unordered conflicting pair is reported in every execution in which it is unordered, not only when adjacent. For each socket kind every pair of operations (quick: at least one state-changing) from {Send, Recv, peer delivers/drops/connects, SetOption x10, GetOption x4, OpenContext, ctx.Send/Recv/Close, Pipe.Close, Dial, Listen, SetPipeEventHook, Close} runs concurrently against a connected socket; no panic, no deadlock, no race, every call returns an error its contract allows, and the socket still answers and closes afterwards.",
         "DESIGN.md §6 C11"),
 "C17": ("stateless model checking of the rewritten real code with a message-ownership ledger (verif hooks in message.go: shadow reference counts, poison on release, poison check on reuse): exhaustive kind x send-outcome enumeration, retained-message scenarios and deviation-bounded schedule exploration of fan-out over inproc",
         "Every Clone/Free/release/NewMessage of every message is observed by a ledger; per receiving kind the application keeps messages across further traffic of other sizes (buffers of every pool class are released, poisoned and reused) and re-checks, overwrites and frees them; per sending kind the outcomes success/timeout/closed/no-peers/best-effort are provoked and a failed Send must leave the message intact with exactly one owner; an application-cloned message must survive Send; NewMessage/Dup/MakeUnique shapes over the pool-class boundary sizes; PUB, BUS, STAR, SURVEY fan-out over inproc and REQ's retained request under loss/retry/reply histories are explored with the ledger on.",
         "DESIGN.md §6 C17"),
 "C19": ("bounded-exhaustive enumeration of option name x value x object kind x connection state on the unmodified code over all transports (engine E), each case in a worker subprocess with replay confirmation",
         "41 option names (documented, transport specific, arbitrary) x 23 values (wrong types, nil, negative, zero, boundary, huge) on all 24 sockets, 5 context kinds, dialers and listeners of 6 transports and attached pipes, before and after connecting: no panic, no hang, unsupported name => ErrBadOption, wrong type/out of range => ErrBadValue, Get returns what Set accepted, socket options inherited by later dialers/listeners and (where the pattern provides it) contexts, accepted zero durations mean no limit, queue resizes on connected idle/loaded sockets never detach the peer and traffic still flows, unsupported operations and Device misuse give the designated error without side effect (after a refused Device every message a peer sends must still reach the application: a forwarder left running would steal them). Engine S adds: the receive limit set through socket / endpoint before / after start (also lifted again by an accepted zero) is obeyed by the next connection of the real tcp and IPC pipes over the in-memory network.",
         "DESIGN.md §6 C19"),
 "C10": ("stateless model checking of the rewritten real code: deviation-bounded exploration of Close against blocked Send/Recv on all 24 socket kinds and contexts, exhaustive listener/dialer/pipe/hook histories ending in socket Close, each followed by a resource census (threads by creation site, timers, connections, listening addresses, pipe ids, pipe lists); plus exhaustive enumeration on the unmodified code of transport x socket kind x situation-at-Close x role over the six real transports with a goroutine / descriptor / address / pipe-id census in a fresh process per case",
         "For every socket constructor (and context) calls are blocked in Recv and Send, Close runs concurrently and is placed at every scheduling point within the bound: every blocked call returns the closed error, Close returns, later Send/Recv/Dial/Listen/OpenContext/Close fail promptly; histories over listen, async dial (ok/refused), peer connect, hook-close, peer drop, close of listener/dialer/pipe, clock advance end with socket Close, an hour of virtual time and a census that must be empty. Engine E: 6 transports x 13 (24) kinds x {idle, blocked Recv, blocked context Recv, blocked Send, redialling dialer, stalled inbound handshake (pre/post TLS, pre upgrade), peer failed first, stalled outbound handshake} x {listening, dialling}, one process per case: calls unblock with the closed error, later calls fail promptly, no goroutine with a mangos frame, descriptor count back at baseline, addresses re-bindable, raw connections see EOF, no pipe id in use, no late dial attempt.",
         "DESIGN.md §6 C10"),
 "C12": ("stateless model checking of the rewritten real code with a lock-leak monitor: exhaustive enumeration of socket kind x provoked API failure (x second failure) followed by every other API call; configuration-error paths of the real tcp/tls/ipc/ws/wss wrappers run under the same monitor",
         "18 ways of making an API call fail (bad address, unknown scheme, address in use then corrected and retried on the same listener, refused then retried, handshake failure, asynchronous refusals, hook-closed pipe, peer drop, send/receive timeout, protocol state, unsupported operation, bad option/value, closed context/listener/dialer/pipe) on each of the 24 socket kinds, each followed by option calls, OpenContext, a new inbound connection that must attach, a receive and a send that must reach the peer, Dial and Listen; the shim mutex knows its owner, so a call that returns (or a thread that exits) while holding a library mutex, or re-locks one it holds, is reported at once; TLS/WSS Listen without config or certificate and bad-port/bad-path Listen/Dial on the real wrappers are followed by every option call, a retry and Close.",
         "DESIGN.md §6 C12"),
 "C13": ("stateless model checking of the rewritten real core: exhaustive connect / hook-close / peer-drop / app-close histories on listener and dialer side with a recording protocol decorator, id allocator started next to the 31-bit wrap, plus schedule exploration of attach vs drop; plus exhaustive enumeration on the unmodified code over the six real transports of every connect / peer-close / app-close / hook-close / second-peer operation list up to length 3 (4) on listening and dialling side, and of the pipe descriptions (addresses, TLS state, peer credentials) of both ends",
         "A recording decorator around the real xpub / xpair protocols logs AddPipe/RemovePipe, the pipe event hook logs Attaching/Attached/Detached and (as an explored choice) closes the pipe during Attaching or Attached; every history up to the stated depth is executed on the real core; per pipe the event grammar, AddPipe/RemovePipe pairing, id range/uniqueness until the Detached callback returned, and Address/Dialer/Listener/RemoteAddr are checked, and every later connection must still reach Attaching. Engine E: 8 (24) socket kinds x 6 transports x all operation lists, every socket wrapped in a pass-through protocol recorder; pipe descriptions of three connections over two listeners compared on both ends (address cross-match, TLS version / certificate / exported keying material, ipc peer pid/uid/gid).",
         "DESIGN.md §6 C13"),
 "C14": ("stateless model checking of the rewritten real core under virtual time: exhaustive dial-outcome / loss / close histories x (ReconnectTime, MaxReconnectTime, DialAsynch) grid with the jitter draw as an explored choice; Close during an in-flight Dial over all schedules",
         "A scripted virtual dialer returns refused / handshake error / ok / ok-then-rejected; every outcome history up to the stated depth for 7 option settings and every jitter value in {0,0.5,0.999} runs on the real dialer with a virtual clock; each attempt's time stamp must equal the previous failure/loss instant plus a delay the back-off model allows (never below ReconnectTime, capped by MaxReconnectTime, reset after attach), a synchronous first failure is not retried, traffic reaches the new connection and no attempt starts after Close.",
         "DESIGN.md §6 C14"),
 "C18": ("stateless model checking of the rewritten real code under virtual time: exhaustive enumeration of socket kind (24) x deadline {50ms,0,2s} x mode (deadline, best effort, fail-no-peers) x queue/peer state with exact virtual-time oracles",
         "For each of the 24 socket constructors (and contexts where offered) a blocked Recv/Send with deadline d returns the timeout error after exactly d of virtual time (checked 1 ns before and at d), a call that can complete at once returns at the call instant without error, deadline 0 is still blocked after an hour, best-effort sends return at the call instant and never duplicate, fail-no-peers calls fail at the call instant and at the instant the last peer leaves.",
         "DESIGN.md §6 C18"),
 "C08": ("stateless model checking of the rewritten real code: deviation-bounded exploration of all schedules of concurrent senders in small BUS/STAR topologies over the rewritten inproc transport",
         "BUS full meshes of 2-4, a BUS chain (no forwarding by cooked sockets), a raw BUS forwarder with a loop-back device, STAR hubs with 2-3 leaves, a two-level STAR tree and a raw STAR hub: every member sends concurrently, all schedules within the deviation bound are executed on the real code, then every member drains; each must have received exactly the messages of the others that the topology promises, once, unchanged, never its own.",
         "DESIGN.md §6 C08"),
 "C09": ("stateless model checking of the rewritten real code: exhaustive TTL x hop-count grid by raw injection through the virtual transport on all eight receivers, plus deviation-bounded schedule exploration of real device chains over inproc",
         "For rep, xrep, respondent, xrespondent, pair1, xpair1, star, xstar and each TTL (quick: default,1,2,3,254,255; thorough: every 1..255) every hop count 1..TTL+2 is injected followed by an in-limit sentinel: delivered iff hops <= TTL (PAIR1: forwarders <= TTL); TTL option accepts exactly 1..255; REQ x2 through 0-2 real xrep/xreq devices, SURVEYOR through a device to 2 respondents and a PAIR1 forwarder are explored over all schedules within the bound: every reply returns to the client that asked.",
         "DESIGN.md §6 C09"),
 "C02": ("stateless model checking of the rewritten real code: deviation-bounded exploration of all schedules of concurrent senders/receivers over inproc and the virtual transport for every queue-length setting, plus exhaustive connect/drop/take/send histories",
         "PAIR/XPAIR/PAIR1 with two concurrent senders and a receiver over inproc, PAIR under manual back-pressure, PUSH/XPUSH with two or three peers that take one message at a time, PULL/XPULL with two pushers: all schedules within the deviation bound for queue lengths {128,0,1,2}; oracle: permutation of what was sent, each sender's/connection's order kept, no duplicate, no invention, every Send returns while a peer takes; PAIR second-peer refusal and re-acceptance after loss as event histories.",
         "DESIGN.md §6 C02"),
 # id: (technique, text, design_ref, engines)
 "C03": ("stateless model checking of the rewritten real code: exhaustive event-history enumeration (depth-bounded) against a reference REQ model + deviation-bounded schedule exploration",
         "Every history of Send/Recv/Close/reply-arrival events up to the stated depth on 2 contexts and 2 connections is executed on the real req implementation under the controlled scheduler and compared step by step with a reference model; concurrent Send/Recv/reply scenarios are explored over all schedules up to the deviation bound.",
         "DESIGN.md §6 C03"),
 "C04": ("stateless model checking of the rewritten real code under virtual time: exhaustive event/fault-history enumeration (send, recv, reply, carrier loss, idle loss, connect, clock advance, close) with a transmission-log oracle; schedule exploration with early-timer deviations",
         "Every history up to the stated depth over the event/fault alphabet is executed on the real req implementation with a virtual clock; every transport message written is attributed to a request and must be justified (first transmission, loss of the carrying connection, or a full retry interval since the previous transmission), byte-identical, on one connection, and never after answer/cancel/close; required retransmissions are checked at every quiescence.",
         "DESIGN.md §6 C04"),
 "C05": ("stateless model checking of the rewritten real code: exhaustive event-history enumeration against a reference REP/RESPONDENT routing model (cooked and raw) + deviation-bounded schedule exploration",
         "Every history of request arrivals (routing-header depths and contents, malformed variants) from 2 connections, Recv/Send/Close on 2 contexts and connection loss up to the stated depth runs on the real rep, respondent, xrep and xrespondent code; every reply written to the wire must appear only on the requesting connection with exactly the saved routing header.",
         "DESIGN.md §6 C05"),
 "C06": ("stateless model checking of the rewritten real code: exhaustive enumeration of subscription sets x bodies against a reference prefix matcher, exhaustive subscribe/unsubscribe/publish/recv histories on 2 contexts and 2 publishers, deviation-bounded schedule exploration of unsubscribe vs arrival and of PUB fan-out",
         "All subscription sets of size <= 2 over the 21 byte strings of length <= 2 over {00,'a','b',ff} are checked against every body; every history up to the stated depth is compared with a per-context FIFO reference model (match at arrival, purge on unsubscribe, context independence); PUB/XPUB fan-out to a fast and a slow subscriber is explored over all schedules within the deviation bound.",
         "DESIGN.md §6 C06"),
 "C07": ("stateless model checking of the rewritten real code under virtual time: exhaustive survey/recv/response/clock/close histories against a reference SURVEYOR model + schedule exploration with early-timer deviations",
         "Every history up to the stated depth over {survey, recv, responses with current/stale/foreign/malformed ids from 2 respondents, advance T and T/2, close} on 2 contexts runs on the real surveyor code with a virtual clock; delivery, broadcast completeness, cancellation and prompt protocol-state failure are compared with the model at every quiescence; expiry racing a response and a new survey racing a stale response are explored over all schedules within the deviation bound.",
         "DESIGN.md §6 C07"),
}

claimed.update({
 "C01": ("bounded-exhaustive enumeration of message sizes, size sequences and byte values on the unmodified code over all six real transports x 16 socket pairings (engine E)",
         "Every size in the boundary alphabet (0..3, k-6..k+2 around each pool class, the receive limit +-1 with MaxRecvSize 4096 and the 1 MiB default), every length 0..130 (quick) / 0..1100 and beyond (thorough), all ordered pairs/triples of a 12-16 element alphabet back to back on one connection and all 256 fill values are sent with position-dependent content through inproc, ipc, tcp, tls+tcp, ws and wss for 16 cooked/raw pairings in both directions; each receive must equal its send, one for one, followed by a sentinel.",
         "DESIGN.md §6 C01"),
 "C15": ("bounded-exhaustive enumeration against an independent SP/RFC 6455 codec on the unmodified code over real tcp, tls+tcp, ipc, ws, wss sockets (engine E)",
         "For all 12 protocol numbers (24 socket types) and both roles the first 8 bytes mangos writes are compared with the SP header; every single-byte deviation of the peer header (8x255) and every wrong-but-well-formed protocol number must be refused while a following good peer is accepted; frames mangos writes are parsed by an independent codec (8-byte BE length, 0x01 on IPC, header||body) and codec-written frames, split at every prefix position, must be delivered intact; WebSocket subprotocol negotiation and one-binary-frame-per-message are checked with a hand-written RFC 6455 endpoint.",
         "DESIGN.md §6 C15"),
})
ENGINE_OF = {"C01": "S+E", "C10": "S+E", "C13": "S+E", "C15": "S+E", "C16": "S+E", "C19": "S+E", "C20": "E"}
not_applicable = {}
ALL = [f"C{i:02d}" for i in range(1, 21)]
for pid in ALL:
    if pid not in claimed:
        not_applicable[pid] = "check not built yet in this round (planned: see DESIGN.md §6); not claimed until it exists and passes on the unchanged tree"

checks = []
for pid, (tech, text, ref) in sorted(claimed.items()):
    checks.append({
        "property_id": pid,
        "quick_cmd": f"./check {pid} quick",
        "thorough_cmd": f"./check {pid} thorough",
        "evidence_file": f"/verif/evidence/{pid}.json",
        "replay_cmd_template": f"./check {pid} quick --replay {{path}}",
        "engine": ENGINE_OF.get(pid, "S"),
        "level_claimed": {"category": "model_checking", "text": text, "design_ref": ref},
        "level_note": (NOTE_S + " " + NOTE_E) if ENGINE_OF.get(pid) == "S+E" else (NOTE_E if ENGINE_OF.get(pid) == "E" else NOTE_S),
        "technique": tech,
    })

m = {
 "version": 1,
 "setup_cmd": "./setup.sh",
 "hooks": {
   "guard": "verif",
   "enable": "go build -tags verif (the checks copy /repo's working tree to a scratch directory, rewrite it with tools/vrewrite and build with -tags verif)",
   "baseline_off_cmd": "cd /repo && GOFLAGS=-mod=mod GOPROXY=off GOSUMDB=off go test -vet=off -count=1 -timeout 25m ./...",
   "source_commits": HOOK_COMMITS,
   "add_only": True,
 },
 "engines": [
   {"name": "E", "path": "/verif/e", "serves_properties": sorted(p for p in claimed if "E" in ENGINE_OF.get(p, "S")), "kind_free_text": "bounded-exhaustive enumeration driver on the unmodified code (real transports, built macat binary): e/ekit + one package per property"},
   {"name": "S", "path": "/verif/s", "serves_properties": sorted(p for p in claimed if "S" in ENGINE_OF.get(p, "S")), "kind_free_text": "stateless model checker: source-to-source rewrite of mangos (tools/vrewrite) onto a controlled scheduler with virtual time (s/vz/vsched), deviation-bounded DFS explorer sharded over processes (s/vz/vexplore), harnesses + virtual transport (s/vh)"},
 ],
 "checks": checks,
 "not_applicable": [{"property_id": k, "reason": v} for k, v in sorted(not_applicable.items())],
 "notes": "Single entry point ./check <ID> <quick|thorough>; known findings in known_findings.txt; replay artefacts in replays/.",
}
json.dump(m, open('/verif/MANIFEST.json', 'w'), indent=1)
print("claimed:", sorted(claimed), "n/a:", len(not_applicable))
