package main

import (
	"go/ast"

	"golang.org/x/tools/go/ast/astutil"
)

func (r *rewriter) racePrepass() {}

func (r *rewriter) racePost(c *astutil.Cursor, e ast.Expr) {}
