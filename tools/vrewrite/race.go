package main

// Race instrumentation (flag -race): before every statement that reads or writes a field of a
// struct type declared in the module through a pointer (or a package-level variable), calls to
// vsched.RR / vsched.RW are inserted, so that the scheduler's happens-before detector sees the
// access.  Only "pure" access paths (identifier / field / pointer chains) are instrumented, and
// nothing under the right operand of && / ||, inside function literals, or in conditions that
// are re-evaluated (loop conditions): such accesses are skipped, never mis-reported.

import (
	"go/ast"
	"go/token"
	"go/types"
	"strconv"
	"strings"

	"golang.org/x/tools/go/ast/astutil"
)

type access struct {
	path  ast.Expr // fresh copy of the access path (x.f)
	write bool
	site  string
}

var raceAcc = map[ast.Stmt][]access{}

func (r *rewriter) instrumentable() bool {
	p := r.pkg.Path()
	return !strings.Contains(p, "/vh/") && !strings.HasSuffix(p, "/vh") && !strings.Contains(p, "/vz/")
}

func (r *rewriter) racePrepass() {
	if !r.instrumentable() {
		return
	}
	ast.Inspect(r.file, func(n ast.Node) bool {
		var list []ast.Stmt
		switch x := n.(type) {
		case *ast.BlockStmt:
			list = x.List
		case *ast.CaseClause:
			list = x.Body
		case *ast.CommClause:
			list = x.Body
		}
		for _, st := range list {
			if acc := r.stmtAccesses(st); len(acc) > 0 {
				raceAcc[st] = acc
			}
		}
		return true
	})
}

// stmtAccesses lists the instrumentable accesses evaluated unconditionally by st itself.
func (r *rewriter) stmtAccesses(st ast.Stmt) []access {
	var out []access
	add := func(e ast.Expr, write bool) {
		if a, ok := r.mkAccess(e, write); ok {
			out = append(out, a)
		}
	}
	reads := func(e ast.Expr) {
		if e == nil {
			return
		}
		r.collectReads(e, func(x ast.Expr) { add(x, false) })
	}
	lhs := func(e ast.Expr) {
		e = unparen(e)
		switch x := e.(type) {
		case *ast.SelectorExpr:
			add(x, true)
			reads(x.X)
		case *ast.IndexExpr:
			// m[k] = v on a map held in a field mutates the map: a write to the field's object
			if t := r.typeOf(x.X); t != nil {
				if _, ok := t.Underlying().(*types.Map); ok {
					if sel, ok := unparen(x.X).(*ast.SelectorExpr); ok {
						add(sel, true)
						reads(sel.X)
						reads(x.Index)
						return
					}
				}
			}
			reads(x.X)
			reads(x.Index)
		case *ast.StarExpr:
			reads(x.X)
		case *ast.Ident:
			if r.isPkgVar(x) {
				add(x, true)
			}
		}
	}
	switch s := st.(type) {
	case *ast.AssignStmt:
		for _, e := range s.Rhs {
			reads(e)
		}
		for _, e := range s.Lhs {
			if s.Tok == token.DEFINE {
				continue
			}
			lhs(e)
			if s.Tok != token.ASSIGN { // x.f += 1 also reads
				reads(e)
			}
		}
	case *ast.IncDecStmt:
		lhs(s.X)
		reads(s.X)
	case *ast.ExprStmt:
		if call, ok := s.X.(*ast.CallExpr); ok && r.builtin(call.Fun) == "delete" && len(call.Args) == 2 {
			if sel, ok := unparen(call.Args[0]).(*ast.SelectorExpr); ok {
				add(sel, true)
				reads(sel.X)
				reads(call.Args[1])
				break
			}
		}
		reads(s.X)
	case *ast.ReturnStmt:
		for _, e := range s.Results {
			reads(e)
		}
	case *ast.IfStmt:
		if s.Init == nil {
			reads(s.Cond)
		}
	case *ast.SwitchStmt:
		if s.Init == nil && s.Tag != nil {
			reads(s.Tag)
		}
	case *ast.SendStmt:
		reads(s.Chan)
		reads(s.Value)
	case *ast.GoStmt:
		for _, a := range s.Call.Args {
			reads(a)
		}
		if sel, ok := s.Call.Fun.(*ast.SelectorExpr); ok {
			reads(sel.X)
		}
	case *ast.DeferStmt:
		for _, a := range s.Call.Args {
			reads(a)
		}
	case *ast.RangeStmt:
		reads(s.X)
	case *ast.SelectStmt:
		for _, cc := range s.Body.List {
			c := cc.(*ast.CommClause)
			switch cm := c.Comm.(type) {
			case *ast.SendStmt:
				reads(cm.Chan)
				reads(cm.Value)
			case *ast.ExprStmt:
				reads(cm.X)
			case *ast.AssignStmt:
				for _, e := range cm.Rhs {
					reads(e)
				}
			}
		}
	}
	return out
}

// collectReads walks e and reports field selectors / package variables that are evaluated
// unconditionally; it does not descend into function literals, right operands of && and ||,
// or operands of & (address-of is not an access).
func (r *rewriter) collectReads(e ast.Expr, f func(ast.Expr)) {
	switch x := e.(type) {
	case nil:
	case *ast.ParenExpr:
		r.collectReads(x.X, f)
	case *ast.FuncLit:
	case *ast.BinaryExpr:
		r.collectReads(x.X, f)
		if x.Op != token.LAND && x.Op != token.LOR {
			r.collectReads(x.Y, f)
		}
	case *ast.UnaryExpr:
		if x.Op == token.AND {
			// &x.f : only the base path is read
			if sel, ok := unparen(x.X).(*ast.SelectorExpr); ok {
				r.collectReads(sel.X, f)
			}
			return
		}
		r.collectReads(x.X, f)
	case *ast.SelectorExpr:
		if s := r.info.Selections[x]; s != nil && s.Kind() == types.FieldVal {
			f(x)
		}
		if s := r.info.Selections[x]; s != nil {
			r.collectReads(x.X, f)
		}
	case *ast.Ident:
		if r.isPkgVar(x) {
			f(x)
		}
	case *ast.CallExpr:
		if tv, ok := r.info.Types[x.Fun]; !ok || !tv.IsType() {
			if b := r.builtin(x.Fun); b == "" {
				r.collectReads(x.Fun, f)
			}
		}
		for _, a := range x.Args {
			r.collectReads(a, f)
		}
	case *ast.IndexExpr:
		r.collectReads(x.X, f)
		r.collectReads(x.Index, f)
	case *ast.SliceExpr:
		r.collectReads(x.X, f)
		r.collectReads(x.Low, f)
		r.collectReads(x.High, f)
		r.collectReads(x.Max, f)
	case *ast.StarExpr:
		r.collectReads(x.X, f)
	case *ast.TypeAssertExpr:
		r.collectReads(x.X, f)
	case *ast.CompositeLit:
		for _, el := range x.Elts {
			if kv, ok := el.(*ast.KeyValueExpr); ok {
				r.collectReads(kv.Value, f)
			} else {
				r.collectReads(el, f)
			}
		}
	case *ast.KeyValueExpr:
		r.collectReads(x.Value, f)
	}
}

func (r *rewriter) isPkgVar(id *ast.Ident) bool {
	v, ok := r.info.Uses[id].(*types.Var)
	if !ok || v.IsField() || v.Pkg() == nil {
		return false
	}
	if !strings.HasPrefix(v.Pkg().Path(), modPath) || strings.Contains(v.Pkg().Path(), "/vz/") {
		return false
	}
	return v.Parent() == v.Pkg().Scope() && !syncType(v.Type())
}

func syncType(t types.Type) bool {
	// a struct- or array-valued variable/field is only an address computation when it is the base
	// of a further selection or a method call; its components are instrumented individually
	switch t.Underlying().(type) {
	case *types.Struct, *types.Array:
		return true
	}
	s := t.String()
	for _, p := range []string{"sync.Mutex", "sync.RWMutex", "sync.Once", "sync.WaitGroup", "sync.Pool", "sync.Cond", "sync.Map", "atomic."} {
		if strings.Contains(s, p) && !strings.HasPrefix(s, "*") && !strings.HasPrefix(s, "[]") && !strings.HasPrefix(s, "map") {
			return true
		}
	}
	return false
}

// mkAccess validates the access path and returns a fresh copy of it.
func (r *rewriter) mkAccess(e ast.Expr, write bool) (access, bool) {
	switch x := e.(type) {
	case *ast.Ident:
		if !r.isPkgVar(x) {
			return access{}, false
		}
		return access{path: ast.NewIdent(x.Name), write: write, site: r.fname + ":" + x.Name}, true
	case *ast.SelectorExpr:
		sel := r.info.Selections[x]
		if sel == nil || sel.Kind() != types.FieldVal {
			return access{}, false
		}
		fld := sel.Obj().(*types.Var)
		if fld.Pkg() == nil || !strings.HasPrefix(fld.Pkg().Path(), modPath) || strings.Contains(fld.Pkg().Path(), "/vz/") {
			return access{}, false
		}
		if syncType(fld.Type()) {
			return access{}, false
		}
		// the base must be reached through a pointer (shared object) or be a package variable
		bt := r.typeOf(x.X)
		if bt == nil {
			return access{}, false
		}
		if _, isPtr := bt.Underlying().(*types.Pointer); !isPtr {
			root := rootIdent(x.X)
			if root == nil || !r.isPkgVar(root) {
				return access{}, false
			}
		}
		cp, ok := r.clonePath(x)
		if !ok {
			return access{}, false
		}
		recv := types.TypeString(sel.Recv(), func(p *types.Package) string { return p.Name() })
		recv = strings.TrimPrefix(recv, "*")
		return access{path: cp, write: write, site: recv + "." + fld.Name()}, true
	}
	return access{}, false
}

func rootIdent(e ast.Expr) *ast.Ident {
	for {
		switch x := e.(type) {
		case *ast.Ident:
			return x
		case *ast.SelectorExpr:
			e = x.X
		case *ast.ParenExpr:
			e = x.X
		case *ast.StarExpr:
			e = x.X
		default:
			return nil
		}
	}
}

// clonePath copies an identifier / selector / deref chain; anything else is refused.
func (r *rewriter) clonePath(e ast.Expr) (ast.Expr, bool) {
	switch x := e.(type) {
	case *ast.Ident:
		if _, ok := r.info.Uses[x].(*types.Var); !ok {
			if _, ok := r.info.Defs[x].(*types.Var); !ok {
				return nil, false
			}
		}
		return ast.NewIdent(x.Name), true
	case *ast.SelectorExpr:
		if s := r.info.Selections[x]; s == nil || s.Kind() != types.FieldVal {
			// package qualified identifier (pkg.Var) is fine
			if id, ok := x.X.(*ast.Ident); ok {
				if _, isPkg := r.info.Uses[id].(*types.PkgName); isPkg {
					return &ast.SelectorExpr{X: ast.NewIdent(id.Name), Sel: ast.NewIdent(x.Sel.Name)}, true
				}
			}
			return nil, false
		}
		b, ok := r.clonePath(x.X)
		if !ok {
			return nil, false
		}
		return &ast.SelectorExpr{X: b, Sel: ast.NewIdent(x.Sel.Name)}, true
	case *ast.ParenExpr:
		return r.clonePath(x.X)
	case *ast.StarExpr:
		b, ok := r.clonePath(x.X)
		if !ok {
			return nil, false
		}
		return &ast.StarExpr{X: b}, true
	}
	return nil, false
}

func (r *rewriter) racePost(c *astutil.Cursor, e ast.Expr) {}

// raceInsert is called from post for every statement; it inserts the recorded accesses.
func (r *rewriter) raceInsert(c *astutil.Cursor, st ast.Stmt) {
	acc := raceAcc[st]
	if len(acc) == 0 || c.Index() < 0 {
		return
	}
	seen := map[string]bool{}
	for _, a := range acc {
		key := types.ExprString(a.path) + strconv.FormatBool(a.write)
		if seen[key] {
			continue
		}
		seen[key] = true
		fn := "RR"
		if a.write {
			fn = "RW"
		}
		callx := call(r.vs(fn), &ast.UnaryExpr{Op: token.AND, X: a.path}, &ast.BasicLit{Kind: token.STRING, Value: strconv.Quote(a.site)})
		c.InsertBefore(&ast.ExprStmt{X: callx})
	}
}
