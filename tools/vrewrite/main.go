// vrewrite is the source-to-source rewriter that binds the model checker to
// the code: it transforms Go packages in place so that every goroutine start,
// channel operation, select, lock, timer, atomic, random draw and map iteration
// goes through the controlled scheduler (package vz/vsched).
//
// usage: vrewrite [-race] -root <module dir> <pkg dir> ...
//
// Exit status 2 = unsupported construct / type-check failure (never a verdict).
package main

import (
	"bytes"
	"flag"
	"fmt"
	"go/ast"
	"go/build"
	"go/importer"
	"go/parser"
	"go/printer"
	"go/token"
	"go/types"
	"os"
	"path/filepath"
	"sort"
	"strconv"
	"strings"

	"golang.org/x/tools/go/ast/astutil"
)

const modPath = "go.nanomsg.org/mangos/v3"
const vschedPath = modPath + "/vz/vsched"

var importMap = map[string]string{
	"sync":        modPath + "/vz/sync",
	"sync/atomic": modPath + "/vz/atomic",
	"time":        modPath + "/vz/time",
	"math/rand":   modPath + "/vz/mrand",
	"crypto/rand": modPath + "/vz/crand",
}

var raceInstr = flag.Bool("race", false, "instrument struct field and package variable accesses for the HB race detector")
var root = flag.String("root", "", "module root directory")

func fatalf(format string, a ...any) {
	fmt.Fprintf(os.Stderr, "vrewrite: "+format+"\n", a...)
	os.Exit(2)
}

type pkgWork struct {
	dir   string
	files []*ast.File
	names []string
	info  *types.Info
	pkg   *types.Package
	heads map[*ast.File]string
}

func main() {
	flag.Parse()
	if *root == "" || flag.NArg() == 0 {
		fatalf("usage: vrewrite -root dir pkgdir...")
	}
	if err := os.Chdir(*root); err != nil {
		fatalf("%v", err)
	}
	build.Default.BuildTags = append(build.Default.BuildTags, "verif")
	fset := token.NewFileSet()
	imp := importer.ForCompiler(fset, "source", nil)
	var works []*pkgWork
	for _, dir := range flag.Args() {
		bp, err := build.Default.ImportDir(filepath.Join(*root, dir), 0)
		if err != nil {
			if _, ok := err.(*build.NoGoError); ok {
				continue
			}
			fatalf("%s: %v", dir, err)
		}
		w := &pkgWork{dir: dir, heads: map[*ast.File]string{}}
		for _, name := range bp.GoFiles {
			fn := filepath.Join(*root, dir, name)
			src, err := os.ReadFile(fn)
			if err != nil {
				fatalf("%v", err)
			}
			f, err := parser.ParseFile(fset, fn, src, parser.ParseComments)
			if err != nil {
				fatalf("%v", err)
			}
			w.heads[f] = buildHeader(src)
			w.files = append(w.files, f)
			w.names = append(w.names, fn)
		}
		w.info = &types.Info{
			Types:      map[ast.Expr]types.TypeAndValue{},
			Uses:       map[*ast.Ident]types.Object{},
			Defs:       map[*ast.Ident]types.Object{},
			Selections: map[*ast.SelectorExpr]*types.Selection{},
		}
		conf := types.Config{Importer: imp, Error: func(err error) { fatalf("type check %s: %v", dir, err) }}
		ip := modPath
		if dir != "." {
			ip = modPath + "/" + filepath.ToSlash(dir)
		}
		pkg, err := conf.Check(ip, fset, w.files, w.info)
		if err != nil {
			fatalf("type check %s: %v", dir, err)
		}
		w.pkg = pkg
		works = append(works, w)
	}
	// phase 2: rewrite and write back
	nfiles := 0
	for _, w := range works {
		for i, f := range w.files {
			r := &rewriter{fset: fset, info: w.info, file: f, pkg: w.pkg, fname: filepath.Base(w.names[i])}
			r.run()
			var buf bytes.Buffer
			buf.WriteString(w.heads[f])
			f.Comments = nil
			stripDocs(f)
			cfg := printer.Config{Mode: printer.TabIndent, Tabwidth: 8}
			if err := cfg.Fprint(&buf, token.NewFileSet(), f); err != nil {
				fatalf("print %s: %v", w.names[i], err)
			}
			if err := os.WriteFile(w.names[i], buf.Bytes(), 0o644); err != nil {
				fatalf("%v", err)
			}
			nfiles++
		}
	}
	fmt.Printf("vrewrite: %d packages, %d files rewritten\n", len(works), nfiles)
}

// buildHeader keeps the build constraint lines that precede the package clause.
func buildHeader(src []byte) string {
	var out []string
	for _, l := range strings.Split(string(src), "\n") {
		t := strings.TrimSpace(l)
		if strings.HasPrefix(t, "package ") {
			break
		}
		if strings.HasPrefix(t, "//go:build") || strings.HasPrefix(t, "// +build") {
			out = append(out, t)
		}
	}
	if len(out) == 0 {
		return ""
	}
	return strings.Join(out, "\n") + "\n\n"
}

func stripDocs(f *ast.File) {
	f.Doc = nil
	ast.Inspect(f, func(n ast.Node) bool {
		switch x := n.(type) {
		case *ast.GenDecl:
			x.Doc = nil
		case *ast.FuncDecl:
			x.Doc = nil
		case *ast.Field:
			x.Doc, x.Comment = nil, nil
		case *ast.ValueSpec:
			x.Doc, x.Comment = nil, nil
		case *ast.TypeSpec:
			x.Doc, x.Comment = nil, nil
		case *ast.ImportSpec:
			x.Doc, x.Comment = nil, nil
		}
		return true
	})
}

// ---------------------------------------------------------------------------

type goInfo struct {
	constArg []bool
	site     string
}

type rewriter struct {
	fset  *token.FileSet
	info  *types.Info
	file  *ast.File
	pkg   *types.Package
	fname string

	needVsched bool
	seq        int

	skip      map[ast.Node]bool      // comm statements of select clauses (handled by the select rewrite)
	recv2     map[*ast.UnaryExpr]bool
	makeChan  map[*ast.CallExpr]bool
	chanCall  map[*ast.CallExpr]string // close/len/cap on channels
	rangeKind map[*ast.RangeStmt]string
	goInfo    map[*ast.GoStmt]*goInfo
	noteKey   map[*ast.IndexExpr]bool
	genBlock  map[ast.Stmt]bool
	funcName  map[ast.Node]string
	raceR     map[ast.Expr]string // expression -> site (read)
	raceW     map[ast.Expr]string
}

func (r *rewriter) errf(n ast.Node, format string, a ...any) {
	fatalf("%s: %s", r.fset.Position(n.Pos()), fmt.Sprintf(format, a...))
}

func isChan(t types.Type) bool {
	if t == nil {
		return false
	}
	_, ok := t.Underlying().(*types.Chan)
	return ok
}

func (r *rewriter) typeOf(e ast.Expr) types.Type {
	if tv, ok := r.info.Types[e]; ok {
		return tv.Type
	}
	if id, ok := e.(*ast.Ident); ok {
		if o := r.info.Uses[id]; o != nil {
			return o.Type()
		}
		if o := r.info.Defs[id]; o != nil {
			return o.Type()
		}
	}
	return nil
}

func (r *rewriter) builtin(e ast.Expr) string {
	id, ok := e.(*ast.Ident)
	if !ok {
		return ""
	}
	if b, ok := r.info.Uses[id].(*types.Builtin); ok {
		return b.Name()
	}
	return ""
}

func (r *rewriter) vs(name string) ast.Expr {
	r.needVsched = true
	return &ast.SelectorExpr{X: ast.NewIdent("vsched"), Sel: ast.NewIdent(name)}
}

func (r *rewriter) tmp(prefix string) *ast.Ident {
	r.seq++
	return ast.NewIdent(fmt.Sprintf("_v%s%d", prefix, r.seq))
}

func call(fun ast.Expr, args ...ast.Expr) *ast.CallExpr {
	return &ast.CallExpr{Fun: fun, Args: args}
}

func method(x ast.Expr, name string, args ...ast.Expr) *ast.CallExpr {
	return call(&ast.SelectorExpr{X: paren(x), Sel: ast.NewIdent(name)}, args...)
}

func paren(x ast.Expr) ast.Expr {
	switch x.(type) {
	case *ast.Ident, *ast.SelectorExpr, *ast.CallExpr, *ast.IndexExpr, *ast.ParenExpr:
		return x
	}
	return &ast.ParenExpr{X: x}
}

func define(lhs ast.Expr, rhs ast.Expr) *ast.AssignStmt {
	return &ast.AssignStmt{Lhs: []ast.Expr{lhs}, Tok: token.DEFINE, Rhs: []ast.Expr{rhs}}
}

func isBlank(e ast.Expr) bool {
	if e == nil {
		return true
	}
	id, ok := e.(*ast.Ident)
	return ok && id.Name == "_"
}

func (r *rewriter) run() {
	r.skip = map[ast.Node]bool{}
	r.recv2 = map[*ast.UnaryExpr]bool{}
	r.makeChan = map[*ast.CallExpr]bool{}
	r.chanCall = map[*ast.CallExpr]string{}
	r.rangeKind = map[*ast.RangeStmt]string{}
	r.goInfo = map[*ast.GoStmt]*goInfo{}
	r.noteKey = map[*ast.IndexExpr]bool{}
	r.genBlock = map[ast.Stmt]bool{}
	r.raceR = map[ast.Expr]string{}
	r.raceW = map[ast.Expr]string{}

	r.prepass()
	if *raceInstr {
		r.racePrepass()
	}

	astutil.Apply(r.file, nil, r.post)

	// imports
	for _, is := range r.file.Imports {
		p, _ := strconv.Unquote(is.Path.Value)
		if p == "net" && r.pkg.Path() == modPath+"/transport/tcp" {
			// the TCP wrapper runs over the in-memory network of the harness
			is.Path.Value = strconv.Quote(modPath + "/vh/vnet")
			is.Path.ValuePos = token.NoPos
			is.EndPos = token.NoPos
			continue
		}
		if np, ok := importMap[p]; ok {
			is.Path.Value = strconv.Quote(np)
			is.Path.ValuePos = token.NoPos
			is.EndPos = token.NoPos
		}
	}
	if r.needVsched {
		r.fixImportDecl()
	}
}

// fixImportDecl makes sure import specs in the file's decls match f.Imports
// (astutil.AddNamedImport needs position info we no longer have; do it by hand
// if it failed).
func (r *rewriter) fixImportDecl() {
	for _, is := range r.file.Imports {
		if p, _ := strconv.Unquote(is.Path.Value); p == vschedPath {
			return
		}
	}
	spec := &ast.ImportSpec{Name: ast.NewIdent("vsched"), Path: &ast.BasicLit{Kind: token.STRING, Value: strconv.Quote(vschedPath)}}
	gd := &ast.GenDecl{Tok: token.IMPORT, Specs: []ast.Spec{spec}}
	r.file.Decls = append([]ast.Decl{gd}, r.file.Decls...)
	r.file.Imports = append(r.file.Imports, spec)
}

func (r *rewriter) site(n ast.Node) string {
	p := r.fset.Position(n.Pos())
	return fmt.Sprintf("%s:%d", r.fname, p.Line)
}

func (r *rewriter) prepass() {
	var funcStack []string
	_ = funcStack
	ast.Inspect(r.file, func(n ast.Node) bool {
		switch x := n.(type) {
		case *ast.SelectStmt:
			for _, cc := range x.Body.List {
				c := cc.(*ast.CommClause)
				switch s := c.Comm.(type) {
				case nil:
				case *ast.SendStmt:
					r.skip[s] = true
				case *ast.ExprStmt:
					u, ok := unparen(s.X).(*ast.UnaryExpr)
					if !ok || u.Op != token.ARROW {
						r.errf(s, "unsupported select case")
					}
					r.skip[u] = true
				case *ast.AssignStmt:
					if len(s.Rhs) != 1 {
						r.errf(s, "unsupported select case")
					}
					u, ok := unparen(s.Rhs[0]).(*ast.UnaryExpr)
					if !ok || u.Op != token.ARROW {
						r.errf(s, "unsupported select case")
					}
					r.skip[u] = true
				default:
					r.errf(c, "unsupported select case")
				}
			}
		case *ast.AssignStmt:
			if len(x.Lhs) == 2 && len(x.Rhs) == 1 {
				if u, ok := unparen(x.Rhs[0]).(*ast.UnaryExpr); ok && u.Op == token.ARROW {
					r.recv2[u] = true
				}
			}
			for _, l := range x.Lhs {
				if ix, ok := unparen(l).(*ast.IndexExpr); ok {
					if mt, ok := r.typeOf(ix.X).Underlying().(*types.Map); ok && !basicKey(mt.Key()) {
						r.noteKey[ix] = true
					}
				}
			}
		case *ast.ValueSpec:
			if len(x.Names) == 2 && len(x.Values) == 1 {
				if u, ok := unparen(x.Values[0]).(*ast.UnaryExpr); ok && u.Op == token.ARROW {
					r.recv2[u] = true
				}
			}
		case *ast.CallExpr:
			switch r.builtin(x.Fun) {
			case "make":
				if isChan(r.typeOf(x.Args[0])) {
					if _, ok := x.Args[0].(*ast.ChanType); !ok {
						r.errf(x, "make of a named channel type is not supported")
					}
					r.makeChan[x] = true
				}
			case "close":
				r.chanCall[x] = "Close"
			case "len":
				if isChan(r.typeOf(x.Args[0])) {
					r.chanCall[x] = "Len"
				}
			case "cap":
				if isChan(r.typeOf(x.Args[0])) {
					r.chanCall[x] = "Cap"
				}
			}
		case *ast.RangeStmt:
			t := r.typeOf(x.X)
			if t != nil {
				switch t.Underlying().(type) {
				case *types.Chan:
					r.rangeKind[x] = "chan"
				case *types.Map:
					r.rangeKind[x] = "map"
				}
			}
		case *ast.GoStmt:
			gi := &goInfo{site: types.ExprString(x.Call.Fun) + "@" + r.site(x)}
			if _, ok := x.Call.Fun.(*ast.FuncLit); ok {
				gi.site = "func@" + r.site(x)
			}
			if r.builtin(x.Call.Fun) != "" {
				r.errf(x, "go statement calling a builtin is not supported")
			}
			if tv, ok := r.info.Types[x.Call.Fun]; ok && tv.IsType() {
				r.errf(x, "go statement with a conversion is not supported")
			}
			for _, a := range x.Call.Args {
				tv := r.info.Types[a]
				gi.constArg = append(gi.constArg, tv.Value != nil || tv.IsNil())
			}
			r.goInfo[x] = gi
		}
		return true
	})
}

func basicKey(t types.Type) bool {
	b, ok := t.Underlying().(*types.Basic)
	if !ok {
		return false
	}
	return b.Info()&(types.IsInteger|types.IsString) != 0
}

func unparen(e ast.Expr) ast.Expr {
	for {
		p, ok := e.(*ast.ParenExpr)
		if !ok {
			return e
		}
		e = p.X
	}
}

func (r *rewriter) post(c *astutil.Cursor) bool {
	if st, ok := c.Node().(ast.Stmt); ok && *raceInstr {
		r.raceInsert(c, st)
	}
	switch x := c.Node().(type) {
	case *ast.ChanType:
		c.Replace(&ast.StarExpr{X: &ast.IndexExpr{X: r.vs("Chan"), Index: x.Value}})

	case *ast.CallExpr:
		if r.makeChan[x] {
			st, ok := x.Args[0].(*ast.StarExpr)
			if !ok {
				r.errf(x, "internal: make(chan) argument not rewritten")
			}
			elem := st.X.(*ast.IndexExpr).Index
			args := x.Args[1:]
			c.Replace(call(&ast.IndexExpr{X: r.vs("Make"), Index: elem}, args...))
			return true
		}
		if m, ok := r.chanCall[x]; ok {
			c.Replace(method(x.Args[0], m))
			return true
		}
		if rs, ok := r.raceR[x]; ok {
			_ = rs
		}

	case *ast.SendStmt:
		if r.skip[x] {
			return true
		}
		c.Replace(&ast.ExprStmt{X: method(x.Chan, "Send", x.Value)})

	case *ast.UnaryExpr:
		if x.Op != token.ARROW || r.skip[x] {
			return true
		}
		if r.recv2[x] {
			c.Replace(method(x.X, "Recv2"))
		} else {
			c.Replace(method(x.X, "Recv"))
		}

	case *ast.SelectStmt:
		r.rewriteSelect(c, x)

	case *ast.GoStmt:
		r.rewriteGo(c, x)

	case *ast.RangeStmt:
		switch r.rangeKind[x] {
		case "chan":
			r.rewriteRangeChan(c, x)
		case "map":
			r.rewriteRangeMap(c, x)
		}

	case *ast.LabeledStmt:
		if blk, ok := x.Stmt.(*ast.BlockStmt); ok && r.genBlock[blk] {
			last := len(blk.List) - 1
			x.Stmt = blk.List[last]
			blk.List[last] = x
			c.Replace(blk)
		}

	case *ast.IndexExpr:
		if r.noteKey[x] {
			x.Index = call(r.vs("MapNote"), x.Index)
		}
	}
	if e, ok := c.Node().(ast.Expr); ok && *raceInstr {
		r.racePost(c, e)
	}
	return true
}

func (r *rewriter) rewriteSelect(c *astutil.Cursor, x *ast.SelectStmt) {
	sel := r.tmp("s")
	var pre []ast.Stmt
	pre = append(pre, define(sel, call(r.vs("NewSel"))))
	sw := &ast.SwitchStmt{Body: &ast.BlockStmt{}}
	hasDefault := false
	idx := 0
	for _, cc := range x.Body.List {
		cl := cc.(*ast.CommClause)
		if cl.Comm == nil {
			hasDefault = true
			sw.Body.List = append(sw.Body.List, &ast.CaseClause{List: nil, Body: cl.Body})
			continue
		}
		caseNo := &ast.BasicLit{Kind: token.INT, Value: strconv.Itoa(idx)}
		idx++
		body := cl.Body
		switch s := cl.Comm.(type) {
		case *ast.SendStmt:
			pre = append(pre, &ast.ExprStmt{X: call(r.vs("AddSend"), sel, s.Chan, s.Value)})
		case *ast.ExprStmt:
			u := unparen(s.X).(*ast.UnaryExpr)
			pre = append(pre, &ast.ExprStmt{X: call(r.vs("AddRecv"), sel, u.X)})
		case *ast.AssignStmt:
			u := unparen(s.Rhs[0]).(*ast.UnaryExpr)
			res := r.tmp("r")
			pre = append(pre, define(res, call(r.vs("AddRecv"), sel, u.X)))
			var as ast.Stmt
			if len(s.Lhs) == 1 {
				as = &ast.AssignStmt{Lhs: s.Lhs, Tok: s.Tok, Rhs: []ast.Expr{method(res, "Val")}}
			} else {
				as = &ast.AssignStmt{Lhs: s.Lhs, Tok: s.Tok, Rhs: []ast.Expr{method(res, "Get")}}
			}
			// all blank with := is not legal Go; the original would not compile either
			body = append([]ast.Stmt{as}, body...)
		}
		sw.Body.List = append(sw.Body.List, &ast.CaseClause{List: []ast.Expr{caseNo}, Body: body})
	}
	dflt := "false"
	if hasDefault {
		dflt = "true"
	} else {
		// keeps the switch a terminating statement exactly when the select was one
		sw.Body.List = append(sw.Body.List, &ast.CaseClause{List: nil, Body: []ast.Stmt{
			&ast.ExprStmt{X: call(ast.NewIdent("panic"), &ast.BasicLit{Kind: token.STRING, Value: strconv.Quote("vsched: select without default returned -1")})}}})
	}
	sw.Tag = method(sel, "Wait", ast.NewIdent(dflt))
	blk := &ast.BlockStmt{List: append(pre, sw)}
	r.genBlock[blk] = true
	c.Replace(blk)
}

func (r *rewriter) rewriteGo(c *astutil.Cursor, x *ast.GoStmt) {
	gi := r.goInfo[x]
	var pre []ast.Stmt
	fun := x.Call.Fun
	if _, ok := fun.(*ast.FuncLit); !ok {
		f := r.tmp("f")
		pre = append(pre, define(f, fun))
		fun = f
	}
	var args []ast.Expr
	for i, a := range x.Call.Args {
		if gi != nil && i < len(gi.constArg) && gi.constArg[i] {
			args = append(args, a)
			continue
		}
		t := r.tmp("a")
		pre = append(pre, define(t, a))
		args = append(args, t)
	}
	inner := &ast.CallExpr{Fun: fun, Args: args, Ellipsis: x.Call.Ellipsis}
	if x.Call.Ellipsis != token.NoPos {
		inner.Ellipsis = 1
	}
	lit := &ast.FuncLit{Type: &ast.FuncType{Params: &ast.FieldList{}}, Body: &ast.BlockStmt{List: []ast.Stmt{&ast.ExprStmt{X: inner}}}}
	site := "go"
	if gi != nil {
		site = gi.site
	}
	goCall := &ast.ExprStmt{X: call(r.vs("Go"), &ast.BasicLit{Kind: token.STRING, Value: strconv.Quote(site)}, lit)}
	if len(pre) == 0 {
		c.Replace(goCall)
		return
	}
	c.Replace(&ast.BlockStmt{List: append(pre, goCall)})
}

func (r *rewriter) rewriteRangeChan(c *astutil.Cursor, x *ast.RangeStmt) {
	ch := r.tmp("c")
	ok := r.tmp("ok")
	var recv ast.Stmt
	switch {
	case isBlank(x.Key):
		recv = &ast.AssignStmt{Lhs: []ast.Expr{ast.NewIdent("_"), ok}, Tok: token.DEFINE, Rhs: []ast.Expr{method(ch, "Recv2")}}
	case x.Tok == token.DEFINE:
		recv = &ast.AssignStmt{Lhs: []ast.Expr{x.Key, ok}, Tok: token.DEFINE, Rhs: []ast.Expr{method(ch, "Recv2")}}
	default:
		r.errf(x, "range over channel with assignment form is not supported")
	}
	brk := &ast.IfStmt{Cond: &ast.UnaryExpr{Op: token.NOT, X: ok}, Body: &ast.BlockStmt{List: []ast.Stmt{&ast.BranchStmt{Tok: token.BREAK}}}}
	loop := &ast.ForStmt{Body: &ast.BlockStmt{List: append([]ast.Stmt{recv, brk}, x.Body.List...)}}
	blk := &ast.BlockStmt{List: []ast.Stmt{define(ch, x.X), loop}}
	r.genBlock[blk] = true
	c.Replace(blk)
}

func (r *rewriter) rewriteRangeMap(c *astutil.Cursor, x *ast.RangeStmt) {
	if x.Tok == token.ASSIGN {
		r.errf(x, "range over map with assignment form is not supported")
	}
	m := r.tmp("m")
	var key ast.Expr = x.Key
	if isBlank(key) {
		key = r.tmp("k")
	}
	ok := r.tmp("ok")
	var look ast.Stmt
	cont := &ast.BlockStmt{List: []ast.Stmt{&ast.BranchStmt{Tok: token.CONTINUE}}}
	idx := &ast.IndexExpr{X: m, Index: key}
	if isBlank(x.Value) {
		look = &ast.IfStmt{
			Init: &ast.AssignStmt{Lhs: []ast.Expr{ast.NewIdent("_"), ok}, Tok: token.DEFINE, Rhs: []ast.Expr{idx}},
			Cond: &ast.UnaryExpr{Op: token.NOT, X: ok}, Body: cont}
	} else {
		look = &ast.AssignStmt{Lhs: []ast.Expr{x.Value, ok}, Tok: token.DEFINE, Rhs: []ast.Expr{idx}}
	}
	body := []ast.Stmt{look}
	if !isBlank(x.Value) {
		body = append(body, &ast.IfStmt{Cond: &ast.UnaryExpr{Op: token.NOT, X: ok}, Body: cont})
	}
	body = append(body, x.Body.List...)
	loop := &ast.RangeStmt{Key: ast.NewIdent("_"), Value: key, Tok: token.DEFINE, X: call(r.vs("MapKeys"), m), Body: &ast.BlockStmt{List: body}}
	blk := &ast.BlockStmt{List: []ast.Stmt{define(m, x.X), loop}}
	r.genBlock[blk] = true
	c.Replace(blk)
}

// ---------------------------------------------------------------------------
// race instrumentation (see race.go)

var _ = sort.Strings
