package vexplore

import (
	"encoding/json"
	"flag"
	"fmt"
	"os"
	"os/exec"
	"runtime"
	"runtime/pprof"
	"sort"
	"strings"
	"sync"
	"time"
)

type provider func(tier string) []*Scenario

var registry = map[string][]provider{}

// Register adds scenarios for a property.
func Register(prop string, p func(tier string) []*Scenario) {
	registry[prop] = append(registry[prop], p)
}

func scenarios(prop, tier string) []*Scenario {
	var out []*Scenario
	for _, p := range registry[prop] {
		out = append(out, p(tier)...)
	}
	return out
}

// Part is what the S engine hands to the aggregator.
type Part struct {
	Engine    string   `json:"engine"`
	Property  string   `json:"property"`
	Tier      string   `json:"tier"`
	Scenarios []*Stats `json:"scenarios"`
	WallS     float64  `json:"wall_s"`
	Internal  string   `json:"internal_error,omitempty"`
}

// Main is the entry point of the harness binary.
func Main() { MainArgs(os.Args[1:]) }

// MainArgs runs a command line (without the program name).
func MainArgs(argv []string) {
	if len(argv) < 1 {
		fmt.Fprintln(os.Stderr, "usage: vh run|unit|replay|list ...")
		os.Exit(2)
	}
	switch argv[0] {
	case "run":
		cmdRun(argv[1:])
	case "unit":
		cmdUnit(argv[1:])
	case "replay":
		cmdReplay(argv[1:])
	case "list":
		var props []string
		for p := range registry {
			props = append(props, p)
		}
		sort.Strings(props)
		for _, p := range props {
			for _, sc := range scenarios(p, "quick") {
				fmt.Printf("%s %s bound=%d mode=%s\n", p, sc.Name, sc.Bound, sc.Mode)
			}
		}
	default:
		fmt.Fprintln(os.Stderr, "unknown command", argv[0])
		os.Exit(2)
	}
}

func cmdUnit(args []string) {
	fs := flag.NewFlagSet("unit", flag.ExitOnError)
	prop := fs.String("prop", "", "")
	tier := fs.String("tier", "quick", "")
	name := fs.String("scenario", "", "")
	shard := fs.Int("shard", 0, "")
	nshards := fs.Int("nshards", 1, "")
	out := fs.String("out", "", "")
	deadline := fs.Int64("deadline", 0, "unix seconds")
	prof := fs.String("cpuprofile", "", "")
	fs.Parse(args)
	runtime.GOMAXPROCS(1)
	if *prof != "" {
		f, _ := os.Create(*prof)
		pprof.StartCPUProfile(f)
		defer pprof.StopCPUProfile()
	}
	for _, sc := range scenarios(*prop, *tier) {
		if sc.Name != *name {
			continue
		}
		dl := time.Now().Add(24 * time.Hour)
		if *deadline > 0 {
			dl = time.Unix(*deadline, 0)
		}
		st := Explore(sc, *shard, *nshards, dl)
		b, _ := json.Marshal(st)
		if err := os.WriteFile(*out, b, 0o644); err != nil {
			fmt.Fprintln(os.Stderr, err)
			os.Exit(2)
		}
		return
	}
	fmt.Fprintf(os.Stderr, "no scenario %q for %s\n", *name, *prop)
	os.Exit(2)
}

type unit struct {
	sc      *Scenario
	shard   int
	nshards int
	out     string
	st      *Stats
	err     string
}

func cmdRun(args []string) {
	fs := flag.NewFlagSet("run", flag.ExitOnError)
	prop := fs.String("prop", "", "")
	tier := fs.String("tier", "quick", "")
	partOut := fs.String("part", "", "output part file")
	tmp := fs.String("tmp", "", "scratch dir for shard outputs")
	budget := fs.Duration("budget", 10*time.Minute, "wall clock budget for exploration")
	jobs := fs.Int("j", runtime.NumCPU(), "")
	only := fs.String("only", "", "run only scenarios whose name contains this")
	conform := fs.Bool("conform", false, "conformance build (unrewritten code under testing/synctest): only hist/enum scenarios with bound 0")
	scen := fs.String("scenarios", "", "comma separated list of scenario names (conformance)")
	fs.Parse(args)
	start := time.Now()
	scs := scenarios(*prop, *tier)
	if len(scs) == 0 && !*conform {
		fmt.Fprintf(os.Stderr, "no scenarios registered for %s\n", *prop)
		os.Exit(2)
	}
	deadline := start.Add(*budget)
	var units []*unit
	for _, sc := range scs {
		if *only != "" && !strings.Contains(sc.Name, *only) {
			continue
		}
		if *conform {
			ok := false
			for _, w := range strings.Split(*scen, ",") {
				if w != "" && strings.HasPrefix(sc.Name, w) {
					ok = true
				}
			}
			if !ok || sc.Bound != 0 {
				continue
			}
		}
		n := *jobs
		if sc.Bound == 0 && sc.Mode == "sched" {
			n = 1
		}
		for i := 0; i < n; i++ {
			units = append(units, &unit{sc: sc, shard: i, nshards: n, out: fmt.Sprintf("%s/%s.%d.json", *tmp, sanitize(sc.Name), i)})
		}
	}
	self, _ := os.Executable()
	// Scenarios run one after the other, each sharded over all workers, and each gets a share of
	// what is left of the budget (a scenario that finishes early leaves its share to the later
	// ones), so that one expensive scenario cannot starve the others.
	byScen := map[string][]*unit{}
	var order []string
	for _, u := range units {
		if _, ok := byScen[u.sc.Name]; !ok {
			order = append(order, u.sc.Name)
		}
		byScen[u.sc.Name] = append(byScen[u.sc.Name], u)
	}
	for si, name := range order {
		remaining := time.Until(deadline)
		if remaining < 0 {
			remaining = 0
		}
		// (most scenarios finish in well under a second: a scenario may use up to a third of what is
		// left, and never gets less than the equal share)
		share := remaining / time.Duration(len(order)-si)
		if third := remaining / 3; third > share {
			share = third
		}
		scDeadline := time.Now().Add(share)
		var wg sync.WaitGroup
		sem := make(chan struct{}, *jobs)
		for _, u := range byScen[name] {
			wg.Add(1)
			sem <- struct{}{}
			go func(u *unit) {
				defer wg.Done()
				defer func() { <-sem }()
				cargs := []string{"unit", "-prop", *prop, "-tier", *tier, "-scenario", u.sc.Name,
					"-shard", fmt.Sprint(u.shard), "-nshards", fmt.Sprint(u.nshards), "-out", u.out, "-deadline", fmt.Sprint(scDeadline.Unix())}
				cmd := exec.Command(self, cargs...)
				if *conform {
					// conformance build: the binary is a test binary, the command line travels in the environment
					cmd = exec.Command(self, "-test.run", "^TestConform$", "-test.timeout", "0")
					cmd.Env = append(os.Environ(), "VH_ARGS="+strings.Join(cargs, "\x1f"), "GODEBUG=asynctimerchan=0")
				}
				outb, err := cmd.CombinedOutput()
				if err != nil {
					u.err = fmt.Sprintf("shard %d of %s failed: %v\n%s", u.shard, u.sc.Name, err, clip(string(outb), 4000))
					return
				}
				b, err := os.ReadFile(u.out)
				if err != nil {
					u.err = err.Error()
					return
				}
				u.st = &Stats{}
				if err := json.Unmarshal(b, u.st); err != nil {
					u.err = err.Error()
				}
				os.Remove(u.out)
			}(u)
		}
		wg.Wait()
	}
	part := &Part{Engine: "S", Property: *prop, Tier: *tier}
	if *conform {
		part.Engine = "C"
	}
	merged := map[string]*Stats{}
	obs := map[string]map[uint64]bool{}
	for _, u := range units {
		if u.err != "" {
			part.Internal += u.err + "\n"
			continue
		}
		m := merged[u.sc.Name]
		if m == nil {
			m = &Stats{Scenario: u.sc.Name, Mode: u.sc.Mode, Bound: u.sc.Bound, BoundCompleted: u.st.BoundCompleted, Counters: map[string]int{}, Exhaustive: true}
			merged[u.sc.Name] = m
			obs[u.sc.Name] = map[uint64]bool{}
			part.Scenarios = append(part.Scenarios, m)
		}
		st := u.st
		m.Executions += st.Executions
		m.Transitions += st.Transitions
		if st.MaxSteps > m.MaxSteps {
			m.MaxSteps = st.MaxSteps
		}
		if st.BoundCompleted < m.BoundCompleted {
			m.BoundCompleted = st.BoundCompleted
		}
		for k, v := range st.Counters {
			m.Counters[k] += v
		}
		for _, h := range st.ObsHashes {
			obs[u.sc.Name][h] = true
		}
		m.DistinctObs = len(obs[u.sc.Name])
		m.ObsHashes = m.ObsHashes[:0]
		for h := range obs[u.sc.Name] {
			m.ObsHashes = append(m.ObsHashes, h)
		}
		sort.Slice(m.ObsHashes, func(i, j int) bool { return m.ObsHashes[i] < m.ObsHashes[j] })
		if !st.Exhaustive {
			m.Exhaustive = false
			if st.CapHit != "" {
				m.CapHit = st.CapHit
			}
		}
		if st.Internal != "" {
			part.Internal += st.Internal + "\n"
		}
		if st.WallS > m.WallS {
			m.WallS = st.WallS
		}
		for _, v := range st.Violations {
			dup := false
			for _, w := range m.Violations {
				if w.Sig == v.Sig {
					w.Count += v.Count
					if len(v.Choices) < len(w.Choices) || v.Devs < w.Devs {
						v.Count = w.Count
						*w = *v
					}
					dup = true
				}
			}
			if !dup {
				m.Violations = append(m.Violations, v)
			}
		}
		if len(m.Samples) < 3 {
			m.Samples = append(m.Samples, st.Samples...)
			if len(m.Samples) > 3 {
				m.Samples = m.Samples[:3]
			}
		}
	}
	// vacuity: required counters
	for _, sc := range scs {
		m := merged[sc.Name]
		if m == nil || !m.Exhaustive || len(m.Violations) > 0 || *conform {
			continue // a violation cuts executions short; vacuity is judged on clean runs only
		}
		for _, c := range sc.NeedCounters {
			if m.Counters[c] == 0 {
				part.Internal += fmt.Sprintf("scenario %s: vacuity counter %q is zero (the oracle clause was never exercised)\n", sc.Name, c)
			}
		}
	}
	part.WallS = time.Since(start).Seconds()
	b, _ := json.MarshalIndent(part, "", " ")
	if err := os.WriteFile(*partOut, b, 0o644); err != nil {
		fmt.Fprintln(os.Stderr, err)
		os.Exit(2)
	}
	for _, m := range part.Scenarios {
		fmt.Printf("  %-34s %-5s bound %d/%d  exec=%d trans=%d outcomes=%d viol=%d exhaustive=%v %.1fs\n", m.Scenario, m.Mode, m.BoundCompleted, m.Bound, m.Executions, m.Transitions, m.DistinctObs, len(m.Violations), m.Exhaustive, m.WallS)
	}
	if part.Internal != "" {
		fmt.Fprintln(os.Stderr, "INTERNAL:", part.Internal)
		os.Exit(2)
	}
}

func cmdReplay(args []string) {
	fs := flag.NewFlagSet("replay", flag.ExitOnError)
	prop := fs.String("prop", "", "")
	tier := fs.String("tier", "quick", "")
	file := fs.String("file", "", "")
	fs.Parse(args)
	b, err := os.ReadFile(*file)
	if err != nil {
		fmt.Fprintln(os.Stderr, err)
		os.Exit(2)
	}
	var v struct {
		Scenario string  `json:"scenario"`
		Tier     string  `json:"tier"`
		Choices  ChoiceList `json:"choices"`
		Sig      string  `json:"sig"`
	}
	if err := json.Unmarshal(b, &v); err != nil {
		fmt.Fprintln(os.Stderr, err)
		os.Exit(2)
	}
	if v.Tier != "" {
		*tier = v.Tier
	}
	for _, sc := range scenarios(*prop, *tier) {
		if sc.Name == v.Scenario {
			r := Replay(sc, v.Choices)
			for _, l := range r.Trace {
				fmt.Println(l)
			}
			fmt.Printf("observation: %s\n", r.Obs)
			if r.Failure != "" {
				fmt.Printf("FAILURE [%s] %s\n%s\n", r.FailKind, r.FailSig, r.Failure)
				os.Exit(1)
			}
			fmt.Println("no violation on this tree")
			return
		}
	}
	fmt.Fprintln(os.Stderr, "scenario not found:", v.Scenario)
	os.Exit(2)
}

func sanitize(s string) string {
	r := strings.NewReplacer("/", "_", " ", "_", ":", "_", "=", "_", ",", "_")
	return r.Replace(s)
}
