package vexplore

import "encoding/json"

// ChoiceList is a list of decisions, serialised as a JSON array of numbers.
type ChoiceList []uint8

func (c ChoiceList) MarshalJSON() ([]byte, error) {
	out := make([]int, len(c))
	for i, x := range c {
		out[i] = int(x)
	}
	return json.Marshal(out)
}

func (c *ChoiceList) UnmarshalJSON(b []byte) error {
	var in []int
	if err := json.Unmarshal(b, &in); err != nil {
		return err
	}
	*c = make([]uint8, len(in))
	for i, x := range in {
		(*c)[i] = uint8(x)
	}
	return nil
}
