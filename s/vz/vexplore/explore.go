// Package vexplore is the stateless, deviation-bounded explorer that drives
// vsched executions.  It is not rewritten (it uses the real runtime).
package vexplore

import (
	"fmt"
	"sort"
	"time"

	"go.nanomsg.org/mangos/v3/vz/vsched"
)

// Scenario is one closed system to explore.
type Scenario struct {
	Name  string
	Mode  string // "sched" or "hist" or "enum" (informational)
	Cfg   vsched.Config
	Bound int    // deviation bound (ChooseFree alternatives are free)
	Body  func() // thread 0
	Reset func() // runs outside the scheduler before every execution (global state reset)
	Note  string
	// NeedCounters lists vacuity counters that must be non-zero over the whole exploration.
	NeedCounters []string
}

// Violation is a replayable counter-example.
type Violation struct {
	Scenario string   `json:"scenario"`
	Sig      string   `json:"sig"`
	Kind     string   `json:"kind"`
	Message  string   `json:"message"`
	Choices  ChoiceList `json:"choices"`
	Devs     int      `json:"deviations"`
	Trace    []string `json:"trace,omitempty"`
	Replays  int      `json:"replays_identical"`
	Count    int      `json:"count"`
}

// Stats summarises an exploration (one shard or merged).
type Stats struct {
	Scenario       string         `json:"scenario"`
	Mode           string         `json:"mode"`
	Bound          int            `json:"bound"`
	BoundCompleted int            `json:"bound_completed"`
	Executions     int            `json:"executions"`
	Transitions    int            `json:"transitions"`
	MaxSteps       int            `json:"max_steps"`
	Outcomes       map[string]int `json:"-"`
	DistinctObs    int            `json:"distinct_outcomes"`
	Counters       map[string]int `json:"counters"`
	Violations     []*Violation   `json:"violations,omitempty"`
	Exhaustive     bool           `json:"exhaustive"`
	CapHit         string         `json:"cap_hit,omitempty"`
	Internal       string         `json:"internal_error,omitempty"`
	Samples        []Sample       `json:"samples,omitempty"`
	WallS          float64        `json:"wall_s"`
	ObsHashes      []uint64       `json:"obs_hashes,omitempty"`
}

// Sample is one explored execution written out.
type Sample struct {
	Choices ChoiceList `json:"choices"`
	Obs     string   `json:"observation"`
	Trace   []string `json:"trace,omitempty"`
}

type item struct {
	prefix []uint8
	devs   int
}

func runOnce(sc *Scenario, prefix []uint8, verbose bool) *vsched.Result {
	if sc.Reset != nil {
		sc.Reset()
	}
	cfg := sc.Cfg
	cfg.Verbose = verbose
	return vsched.Run(cfg, prefix, sc.Body)
}

// Explore enumerates every execution of sc with at most sc.Bound deviations
// that belongs to the given shard.
func Explore(sc *Scenario, shard, nshards int, deadline time.Time) *Stats {
	st := &Stats{Scenario: sc.Name, Mode: sc.Mode, Bound: sc.Bound, BoundCompleted: -1, Outcomes: map[string]int{}, Counters: map[string]int{}, Exhaustive: true}
	start := time.Now()
	bySig := map[string]*Violation{}
	obsSeen := map[uint64]bool{}
	for b := 0; b <= sc.Bound; b++ {
		// statistics are those of the last (largest) completed pass; a pass with bound b covers all executions with <= b deviations
		pass := &Stats{Outcomes: map[string]int{}, Counters: map[string]int{}}
		stack := []item{{nil, 0}}
		rootDone := false
		childIdx := 0
		complete := true
		for len(stack) > 0 {
			if time.Now().After(deadline) {
				complete = false
				st.CapHit = fmt.Sprintf("wall-clock budget reached during bound %d", b)
				break
			}
			it := stack[len(stack)-1]
			stack = stack[:len(stack)-1]
			res := runOnce(sc, it.prefix, false)
			isRoot := !rootDone
			rootDone = true
			if res.Hung {
				// cannot be re-executed (it does not end) and the spinning goroutine is still there: report and stop this worker
				st.Violations = append(st.Violations, &Violation{Scenario: sc.Name, Sig: res.FailSig, Kind: res.FailKind, Message: res.Failure, Choices: append([]uint8{}, res.Choices...), Devs: it.devs, Replays: 1, Count: 1})
				st.Exhaustive = false
				st.CapHit = "an execution did not terminate (busy loop): exploration of this shard stopped"
				st.WallS = time.Since(start).Seconds()
				return st
			}
			if res.Diverged || res.FailKind == "internal" {
				st.Internal = fmt.Sprintf("scenario %s: %s (prefix %v)", sc.Name, res.Failure, it.prefix)
				st.Exhaustive = false
				st.WallS = time.Since(start).Seconds()
				return st
			}
			count := !isRoot || shard == 0
			if count {
				pass.Executions++
				pass.Transitions += res.Steps
				if res.Steps > pass.MaxSteps {
					pass.MaxSteps = res.Steps
				}
				h := hashStr(res.Obs)
				if !obsSeen[h] {
					obsSeen[h] = true
					if len(st.Samples) < 3 {
						st.Samples = append(st.Samples, Sample{Choices: append([]uint8{}, res.Choices...), Obs: clip(res.Obs, 600)})
					}
				}
				if len(pass.Outcomes) < 100000 {
					pass.Outcomes[clip(res.Obs, 200)]++
				}
				for k, v := range res.Counters {
					pass.Counters[k] += v
				}
				if res.Failure != "" {
					v := bySig[res.FailSig]
					if v == nil {
						v = &Violation{Scenario: sc.Name, Sig: res.FailSig, Kind: res.FailKind, Message: res.Failure, Choices: append([]uint8{}, res.Choices...), Devs: it.devs}
						confirm(sc, v, res)
						if v.Replays < 0 {
							st.Internal = fmt.Sprintf("scenario %s: violation %q does not replay deterministically", sc.Name, v.Sig)
							st.Exhaustive = false
							st.WallS = time.Since(start).Seconds()
							return st
						}
						bySig[res.FailSig] = v
						st.Violations = append(st.Violations, v)
					}
					v.Count++
				}
			}
			// children
			for i := len(res.Points) - 1; i >= len(it.prefix); i-- {
				p := res.Points[i]
				if p.N <= 1 {
					continue
				}
				cost := 1
				if p.Free {
					cost = 0
				}
				if it.devs+cost > b {
					continue
				}
				for alt := p.N - 1; alt >= 1; alt-- {
					if isRoot {
						mine := childIdx%nshards == shard
						childIdx++
						if !mine {
							continue
						}
					}
					child := make([]uint8, i+1)
					copy(child, res.Choices[:i])
					child[i] = uint8(alt)
					stack = append(stack, item{child, it.devs + cost})
				}
			}
		}
		if !complete {
			st.Exhaustive = false
			// keep the numbers of the partial pass too: they are real executions
			mergePass(st, pass, false)
			break
		}
		mergePass(st, pass, true)
		st.BoundCompleted = b
	}
	st.DistinctObs = len(obsSeen)
	for h := range obsSeen {
		st.ObsHashes = append(st.ObsHashes, h)
	}
	sort.Slice(st.ObsHashes, func(i, j int) bool { return st.ObsHashes[i] < st.ObsHashes[j] })
	st.WallS = time.Since(start).Seconds()
	return st
}

func mergePass(st, pass *Stats, replace bool) {
	// the pass with the largest bound subsumes the earlier ones
	st.Executions = pass.Executions
	st.Transitions = pass.Transitions
	st.MaxSteps = pass.MaxSteps
	st.Outcomes = pass.Outcomes
	st.Counters = pass.Counters
}

// confirm re-executes a violation five times and demands identical behaviour.
func confirm(sc *Scenario, v *Violation, first *vsched.Result) {
	for i := 0; i < 5; i++ {
		r := runOnce(sc, v.Choices, i == 0)
		if r.Hash != first.Hash || r.FailSig != first.FailSig {
			v.Replays = -1
			v.Message += fmt.Sprintf("\n(replay %d differed: hash %x vs %x, sig %q vs %q)", i, r.Hash, first.Hash, r.FailSig, first.FailSig)
			return
		}
		if i == 0 {
			v.Message = r.Failure // the verbose run resolves lock sites
			v.Trace = r.Trace
			if len(v.Trace) > 400 {
				v.Trace = append(v.Trace[:200], v.Trace[len(v.Trace)-200:]...)
			}
		}
		v.Replays++
	}
}

// Replay runs one choice list with a verbose trace.
func Replay(sc *Scenario, choices []uint8) *vsched.Result {
	return runOnce(sc, choices, true)
}

func clip(s string, n int) string {
	if len(s) > n {
		return s[:n] + "…"
	}
	return s
}

func hashStr(s string) uint64 {
	var h uint64 = 1469598103934665603
	for i := 0; i < len(s); i++ {
		h ^= uint64(s[i])
		h *= 1099511628211
	}
	return h
}
