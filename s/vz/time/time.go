// Package time replaces the standard time package in rewritten code: types and
// constants are aliases, the clock and all timers are virtual.
package time

import (
	rt "time"

	"go.nanomsg.org/mangos/v3/vz/vsched"
)

type (
	Duration   = rt.Duration
	Time       = rt.Time
	Month      = rt.Month
	Weekday    = rt.Weekday
	Location   = rt.Location
	ParseError = rt.ParseError
	Timer      = vsched.Timer
	Ticker     = vsched.Ticker
)

const (
	Nanosecond  = rt.Nanosecond
	Microsecond = rt.Microsecond
	Millisecond = rt.Millisecond
	Second      = rt.Second
	Minute      = rt.Minute
	Hour        = rt.Hour

	RFC3339     = rt.RFC3339
	RFC3339Nano = rt.RFC3339Nano
	RFC1123     = rt.RFC1123
	Kitchen     = rt.Kitchen
)

var (
	UTC   = rt.UTC
	Local = rt.Local
)

func Now() Time                                  { return vsched.WallNow() }
func Since(t Time) Duration                      { return vsched.WallNow().Sub(t) }
func Until(t Time) Duration                      { return t.Sub(vsched.WallNow()) }
func Sleep(d Duration)                           { vsched.Sleep(d) }
func After(d Duration) *vsched.Chan[Time]        { return vsched.After(d) }
func AfterFunc(d Duration, f func()) *Timer      { return vsched.AfterFunc(d, f) }
func NewTimer(d Duration) *Timer                 { return vsched.NewTimer(d) }
func NewTicker(d Duration) *Ticker               { return vsched.NewTicker(d) }
func Tick(d Duration) *vsched.Chan[Time]         { return vsched.NewTicker(d).C }
func ParseDuration(s string) (Duration, error)   { return rt.ParseDuration(s) }
func Unix(sec, nsec int64) Time                  { return rt.Unix(sec, nsec) }
func UnixMilli(ms int64) Time                    { return rt.UnixMilli(ms) }
func Date(y int, m Month, d, h, mi, s, ns int, l *Location) Time {
	return rt.Date(y, m, d, h, mi, s, ns, l)
}
func Parse(layout, value string) (Time, error) { return rt.Parse(layout, value) }
