// Package rand replaces math/rand in rewritten code.
package rand

import "go.nanomsg.org/mangos/v3/vz/vsched"

func Float64() float64 { return vsched.MrandFloat64() }
func Float32() float32 { return float32(vsched.MrandFloat64()) }
func Int() int         { return int(vsched.MrandUint64() >> 1) }
func Int63() int64     { return int64(vsched.MrandUint64() >> 1) }
func Int31() int32     { return int32(vsched.MrandUint64() >> 33) }
func Uint32() uint32   { return uint32(vsched.MrandUint64() >> 32) }
func Uint64() uint64   { return vsched.MrandUint64() }
func Intn(n int) int {
	if n <= 0 {
		panic("invalid argument to Intn")
	}
	return int(vsched.MrandUint64()>>1) % n
}
func Int63n(n int64) int64 { return int64(vsched.MrandUint64()>>1) % n }
func Int31n(n int32) int32 { return int32(vsched.MrandUint64()>>33) % n }
func Seed(int64)           {}
func Perm(n int) []int {
	p := make([]int, n)
	for i := range p {
		p[i] = i
	}
	return p
}
func Shuffle(n int, swap func(i, j int)) {}
