package vsched

import (
	"container/heap"
	rt "time"
)

// Epoch is the wall clock value of virtual time zero.
var Epoch = rt.Unix(1700000000, 0).UTC()

// DefaultEpoch is the value Epoch is reset to before every execution (kit.ResetGlobals).
var DefaultEpoch = Epoch

// EpochBeforeIDWrap is a wall clock value whose UnixNano, truncated to 32 bits, is 0xfffffffd: the
// request / survey id counters of REQ and SURVEYOR (seeded from the clock) wrap on the third id.
var EpochBeforeIDWrap = rt.Unix(1700000000, 3386245117).UTC()

// Timer replaces time.Timer.
type Timer struct {
	C      *Chan[rt.Time]
	f      func()
	when   rt.Duration
	seq    int
	idx    int // index in heap, -1 when not pending
	site   site
	wakeT  *Thread // Sleep
	fired  bool
	vc     vclock
	name   string
}

type timerHeap struct{ items []*Timer }

func (h *timerHeap) Len() int { return len(h.items) }
func (h *timerHeap) Less(i, j int) bool {
	a, b := h.items[i], h.items[j]
	if a.when != b.when {
		return a.when < b.when
	}
	return a.seq < b.seq
}
func (h *timerHeap) Swap(i, j int) {
	h.items[i], h.items[j] = h.items[j], h.items[i]
	h.items[i].idx = i
	h.items[j].idx = j
}
func (h *timerHeap) Push(x any) {
	t := x.(*Timer)
	t.idx = len(h.items)
	h.items = append(h.items, t)
}
func (h *timerHeap) Pop() any {
	n := len(h.items)
	t := h.items[n-1]
	h.items = h.items[:n-1]
	t.idx = -1
	return t
}

func (s *sched) addTimer(t *Timer, d rt.Duration) {
	if d < 0 {
		d = 0
	}
	s.tseq++
	t.seq = s.tseq
	t.when = s.now + d
	t.fired = false
	s.cur.vc.release(&t.vc, s.cur.ID)
	heap.Push(&s.timers, t)
}

func (s *sched) fireTimer() {
	t := heap.Pop(&s.timers).(*Timer)
	if t.when > s.now {
		s.now = t.when
	}
	t.fired = true
	s.mix(5, t.seq, int(t.when))
	s.res.Points = append(s.res.Points, Point{N: 1, Kind: 'T'})
	s.res.Choices = append(s.res.Choices, 0)
	if s.cfg.Verbose {
		s.tracef("timer fires (%s)", t.site.String())
	}
	switch {
	case t.f != nil:
		f := t.f
		nt := s.newThread("timer:" + t.site.Func())
		nt.vc = t.vc.clone()
		nt.op = &op{kind: "start", enabled: func() bool { return true }}
		go func() {
			<-nt.wake
			if s.dead {
				close(nt.exited)
				return
			}
			nt.started = true
			s.threadMain(nt, f)
		}()
	case t.C != nil:
		c := t.C
		if c.core.n < c.core.cap {
			c.buf = append(c.buf, Epoch.Add(s.now))
			c.bvc = append(c.bvc, t.vc)
			c.core.n++
		}
	}
}

// NewTimer replaces time.NewTimer.
func NewTimer(d rt.Duration) *Timer {
	t := &Timer{idx: -1}
	t.site.record(2)
	if S == nil {
		panic("vsched: timer created outside an execution")
	}
	t.C = Make[rt.Time](1)
	if S.dead {
		return t
	}
	S.addTimer(t, d)
	return t
}

// After replaces time.After.
func After(d rt.Duration) *Chan[rt.Time] {
	t := &Timer{idx: -1}
	t.site.record(2)
	if S == nil {
		panic("vsched: timer created outside an execution")
	}
	t.C = Make[rt.Time](1)
	if S.dead {
		return t.C
	}
	S.addTimer(t, d)
	return t.C
}

// AfterFunc replaces time.AfterFunc.
func AfterFunc(d rt.Duration, f func()) *Timer {
	t := &Timer{idx: -1, f: f}
	t.site.record(2)
	if S == nil {
		panic("vsched: timer created outside an execution")
	}
	if S.dead {
		return t
	}
	S.addTimer(t, d)
	return t
}

// Stop replaces (*time.Timer).Stop.
func (t *Timer) Stop() bool {
	if !active() {
		return false
	}
	s := S
	s.yield(&op{kind: "timerstop", obj: t.seq, enabled: func() bool { return true }})
	if t.idx >= 0 {
		heap.Remove(&s.timers, t.idx)
		t.idx = -1
		return true
	}
	return false
}

// Reset replaces (*time.Timer).Reset.
func (t *Timer) Reset(d rt.Duration) bool {
	if !active() {
		return false
	}
	s := S
	s.yield(&op{kind: "timerreset", obj: t.seq, enabled: func() bool { return true }})
	was := false
	if t.idx >= 0 {
		heap.Remove(&s.timers, t.idx)
		t.idx = -1
		was = true
	}
	s.addTimer(t, d)
	return was
}

// Sleep replaces time.Sleep.
func Sleep(d rt.Duration) {
	if !active() {
		return
	}
	if d <= 0 {
		Yield()
		return
	}
	c := After(d)
	c.Recv()
}

// WallNow replaces time.Now.
func WallNow() rt.Time {
	if S == nil {
		return Epoch
	}
	return Epoch.Add(S.now)
}

// Ticker replaces time.Ticker (re-armed by a helper thread on every tick).
type Ticker struct {
	C    *Chan[rt.Time]
	stop bool
	d    rt.Duration
	t    *Timer
}

func NewTicker(d rt.Duration) *Ticker {
	if d <= 0 {
		panic("non-positive interval for NewTicker")
	}
	tk := &Ticker{C: Make[rt.Time](1), d: d}
	if !active() {
		return tk
	}
	var arm func()
	arm = func() {
		tk.t = AfterFunc(tk.d, func() {
			if tk.stop {
				return
			}
			if tk.C.core.n < tk.C.core.cap {
				tk.C.buf = append(tk.C.buf, WallNow())
				tk.C.bvc = append(tk.C.bvc, nil)
				tk.C.core.n++
			}
			arm()
		})
	}
	arm()
	return tk
}

func (tk *Ticker) Stop() {
	tk.stop = true
	if tk.t != nil {
		tk.t.Stop()
	}
}

func (tk *Ticker) Reset(d rt.Duration) {
	tk.d = d
	if tk.t != nil {
		tk.t.Stop()
	}
	tk.stop = false
	nt := NewTicker(d)
	tk.t = nt.t
}
