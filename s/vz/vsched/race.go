package vsched

import (
	"fmt"
	"unsafe"
)

// vclock is a vector clock indexed by thread id.  All operations are no-ops
// unless the execution was started with Config.Race.
type vclock []uint32

func raceOn() bool { return S != nil && S.cfg.Race && !S.dead }

func (v *vclock) ensure(n int) {
	for len(*v) < n {
		*v = append(*v, 0)
	}
}

// acquire: v = v ⊔ o
func (v *vclock) acquire(o *vclock) {
	if !raceOn() || o == nil {
		return
	}
	v.ensure(len(*o))
	for i, x := range *o {
		if x > (*v)[i] {
			(*v)[i] = x
		}
	}
}

// release: o = o ⊔ v ; v[self]++
func (v *vclock) release(o *vclock, self int) {
	if !raceOn() {
		return
	}
	v.ensure(self + 1)
	o.ensure(len(*v))
	for i, x := range *v {
		if x > (*o)[i] {
			(*o)[i] = x
		}
	}
	(*v)[self]++
}

func (v vclock) clone() vclock {
	if v == nil {
		return nil
	}
	return append(vclock{}, v...)
}

// fork creates the child's clock and advances the parent.
func (v *vclock) fork(self, child int) vclock {
	if !raceOn() {
		return nil
	}
	v.ensure(self + 1)
	c := v.clone()
	c.ensure(child + 1)
	c[child] = 1
	(*v)[self]++
	return c
}

// ---------------------------------------------------------------------------
// shadow memory for instrumented accesses

type shadow struct {
	wT    int    // last writer thread
	wC    uint32 // last write epoch
	wSite string
	rC    []uint32 // per thread last read epoch
	rSite []string
}

type raceState struct {
	mem map[unsafe.Pointer]*shadow
}

var races *raceState

func raceReset() {
	races = &raceState{mem: map[unsafe.Pointer]*shadow{}}
}

func (s *sched) myEpoch(t *Thread) uint32 {
	t.vc.ensure(t.ID + 1)
	if t.vc[t.ID] == 0 {
		t.vc[t.ID] = 1
	}
	return t.vc[t.ID]
}

// RaceRead records a read of the variable at p.
func RaceRead(p unsafe.Pointer, site string) {
	if !raceOn() {
		return
	}
	s := S
	t := s.cur
	sh := races.mem[p]
	if sh == nil {
		sh = &shadow{wT: -1}
		races.mem[p] = sh
	}
	e := s.myEpoch(t)
	if sh.wT >= 0 && sh.wT != t.ID {
		if len(t.vc) <= sh.wT || t.vc[sh.wT] < sh.wC {
			reportRace(sh.wSite, "write", site, "read", sh.wT, t.ID)
		}
	}
	for len(sh.rC) <= t.ID {
		sh.rC = append(sh.rC, 0)
		sh.rSite = append(sh.rSite, "")
	}
	sh.rC[t.ID] = e
	sh.rSite[t.ID] = site
}

// RaceWrite records a write of the variable at p.
func RaceWrite(p unsafe.Pointer, site string) {
	if !raceOn() {
		return
	}
	s := S
	t := s.cur
	sh := races.mem[p]
	if sh == nil {
		sh = &shadow{wT: -1}
		races.mem[p] = sh
	}
	e := s.myEpoch(t)
	if sh.wT >= 0 && sh.wT != t.ID {
		if len(t.vc) <= sh.wT || t.vc[sh.wT] < sh.wC {
			reportRace(sh.wSite, "write", site, "write", sh.wT, t.ID)
		}
	}
	for i, rc := range sh.rC {
		if i == t.ID || rc == 0 {
			continue
		}
		if len(t.vc) <= i || t.vc[i] < rc {
			reportRace(sh.rSite[i], "read", site, "write", i, t.ID)
		}
	}
	sh.wT = t.ID
	sh.wC = e
	sh.wSite = site
	sh.rC = sh.rC[:0]
	sh.rSite = sh.rSite[:0]
}

func reportRace(site1, k1, site2, k2 string, t1, t2 int) {
	a, b := site1, site2
	if a > b {
		a, b = b, a
	}
	panic(failure{"race", "race:" + a + "/" + b,
		fmt.Sprintf("data race: %s at %s by T%d is unordered with %s at %s by T%d", k1, site1, t1, k2, site2, t2)})
}

// RR / RW are the calls inserted by vrewrite -race.
func RR[T any](p *T, site string) {
	if raceOn() {
		RaceRead(unsafe.Pointer(p), site)
	}
}

func RW[T any](p *T, site string) {
	if raceOn() {
		RaceWrite(unsafe.Pointer(p), site)
	}
}
