package vsched

import (
	"fmt"
)

// Locker is sync.Locker.
type Locker interface {
	Lock()
	Unlock()
}

// Mutex replaces sync.Mutex.  The zero value is an unlocked mutex.
type Mutex struct {
	epoch uint32
	id    int
	owner *Thread
	site  site // where it was last locked
	vc    vclock
}

func (m *Mutex) sync() {
	if m.epoch != S.epoch {
		m.epoch = S.epoch
		m.id = S.newObj()
		m.owner = nil
		m.vc = nil
	}
}

func (m *Mutex) Lock() {
	if !active() {
		return
	}
	s := S
	m.sync()
	t := s.cur
	if m.owner == t {
		panic(failure{"lockleak", "selflock:" + callerFunc(2), fmt.Sprintf("thread %d (%s) locks a mutex it already holds (self-deadlock) at %s; it was locked at %s", t.ID, t.Name, callerSite(2), m.site.String())})
	}
	s.yield(&op{kind: "lock", obj: m.id, enabled: func() bool { return m.owner == nil }})
	m.owner = t
	if s.cfg.Verbose {
		m.site.record(2)
	}
	t.held = append(t.held, m)
	t.vc.acquire(&m.vc)
}

func (m *Mutex) TryLock() bool {
	if !active() {
		return true
	}
	s := S
	m.sync()
	s.yield(&op{kind: "trylock", obj: m.id, enabled: func() bool { return true }})
	if m.owner != nil {
		return false
	}
	t := s.cur
	m.owner = t
	if s.cfg.Verbose {
		m.site.record(2)
	}
	t.held = append(t.held, m)
	t.vc.acquire(&m.vc)
	return true
}

func (m *Mutex) Unlock() {
	if !active() {
		return
	}
	m.sync()
	t := S.cur
	if m.owner == nil {
		panic("sync: unlock of unlocked mutex")
	}
	// (Go permits unlocking from another goroutine.)
	o := m.owner
	for i, h := range o.held {
		if h == m {
			o.held = append(o.held[:i], o.held[i+1:]...)
			break
		}
	}
	m.owner = nil
	t.vc.release(&m.vc, t.ID)
}

// RWMutex replaces sync.RWMutex.
type RWMutex struct {
	epoch   uint32
	id      int
	writer  *Thread
	readers int
	vc      vclock
}

func (m *RWMutex) sync() {
	if m.epoch != S.epoch {
		m.epoch = S.epoch
		m.id = S.newObj()
		m.writer = nil
		m.readers = 0
		m.vc = nil
	}
}

func (m *RWMutex) Lock() {
	if !active() {
		return
	}
	s := S
	m.sync()
	t := s.cur
	if m.writer == t {
		panic(failure{"lockleak", "selflock:" + callerFunc(2), fmt.Sprintf("thread %d (%s) write-locks an RWMutex it already holds at %s", t.ID, t.Name, callerSite(2))})
	}
	s.yield(&op{kind: "wlock", obj: m.id, enabled: func() bool { return m.writer == nil && m.readers == 0 }})
	m.writer = t
	t.rheld++
	t.vc.acquire(&m.vc)
}

func (m *RWMutex) Unlock() {
	if !active() {
		return
	}
	m.sync()
	if m.writer == nil {
		panic("sync: Unlock of unlocked RWMutex")
	}
	m.writer.rheld--
	m.writer = nil
	S.cur.vc.release(&m.vc, S.cur.ID)
}

func (m *RWMutex) RLock() {
	if !active() {
		return
	}
	s := S
	m.sync()
	s.yield(&op{kind: "rlock", obj: m.id, enabled: func() bool { return m.writer == nil }})
	m.readers++
	s.cur.rheld++
	s.cur.vc.acquire(&m.vc)
}

func (m *RWMutex) RUnlock() {
	if !active() {
		return
	}
	m.sync()
	if m.readers == 0 {
		panic("sync: RUnlock of unlocked RWMutex")
	}
	m.readers--
	S.cur.rheld--
	S.cur.vc.release(&m.vc, S.cur.ID)
}

func (m *RWMutex) RLocker() Locker { return (*rlocker)(m) }

type rlocker RWMutex

func (r *rlocker) Lock()   { (*RWMutex)(r).RLock() }
func (r *rlocker) Unlock() { (*RWMutex)(r).RUnlock() }

// Cond replaces sync.Cond.
type Cond struct {
	L       Locker
	epoch   uint32
	id      int
	waiters []*condWaiter
}

type condWaiter struct {
	t        *Thread
	signaled bool
	vc       vclock
}

func NewCond(l Locker) *Cond { return &Cond{L: l} }

func (c *Cond) sync() {
	if c.epoch != S.epoch {
		c.epoch = S.epoch
		c.id = S.newObj()
		c.waiters = nil
	}
}

func (c *Cond) Wait() {
	if !active() {
		return
	}
	s := S
	c.sync()
	// A scheduling point before the waiter is registered: operations of other threads that do not
	// need c.L (channel sends, a Signal issued without the lock, atomics) can fall between the
	// caller's test of its condition and this Wait - the classic lost wake-up.
	s.yield(&op{kind: "condwait-enter", obj: c.id, enabled: func() bool { return true }})
	w := &condWaiter{t: s.cur}
	c.waiters = append(c.waiters, w)
	c.L.Unlock()
	if !active() {
		return
	}
	s.yield(&op{kind: "condwait", obj: c.id, enabled: func() bool { return w.signaled }})
	s.cur.vc.acquire(&w.vc)
	c.L.Lock()
}

func (c *Cond) holdsL() bool {
	t := S.cur
	switch l := c.L.(type) {
	case *Mutex:
		return l.owner == t
	case *RWMutex:
		return l.writer == t
	}
	// a struct embedding a Mutex: cannot see through the interface cheaply; look at held list
	return len(t.held) > 0 || t.rheld > 0
}

func (c *Cond) Signal() {
	if !active() {
		return
	}
	s := S
	c.sync()
	if !c.holdsL() {
		s.yield(&op{kind: "signal", obj: c.id, enabled: func() bool { return true }})
	}
	if len(c.waiters) > 0 {
		w := c.waiters[0]
		c.waiters = c.waiters[1:]
		w.signaled = true
		s.cur.vc.release(&w.vc, s.cur.ID)
	}
}

func (c *Cond) Broadcast() {
	if !active() {
		return
	}
	s := S
	c.sync()
	if !c.holdsL() {
		s.yield(&op{kind: "broadcast", obj: c.id, enabled: func() bool { return true }})
	}
	for _, w := range c.waiters {
		w.signaled = true
		s.cur.vc.release(&w.vc, s.cur.ID)
	}
	c.waiters = nil
}

// Once replaces sync.Once.
type Once struct {
	epoch   uint32
	id      int
	state   int // 0 idle, 1 running, 2 done
	static  bool
	vc      vclock
}

func (o *Once) Do(f func()) {
	if S == nil {
		// init / no-scheduler mode
		if o.state == 0 {
			o.state = 2
			o.static = true
			f()
		}
		return
	}
	if S.dead {
		return
	}
	s := S
	if o.epoch != s.epoch && !o.static {
		o.epoch = s.epoch
		o.id = s.newObj()
		o.state = 0
		o.vc = nil
	}
	s.yield(&op{kind: "once", obj: o.id, enabled: func() bool { return o.state != 1 }})
	if o.state == 2 {
		s.cur.vc.acquire(&o.vc)
		return
	}
	o.state = 1
	defer func() {
		o.state = 2
		if active() {
			s.cur.vc.release(&o.vc, s.cur.ID)
		}
	}()
	f()
}

// WaitGroup replaces sync.WaitGroup.
type WaitGroup struct {
	epoch uint32
	id    int
	n     int
	vc    vclock
}

func (w *WaitGroup) sync() {
	if w.epoch != S.epoch {
		w.epoch = S.epoch
		w.id = S.newObj()
		w.n = 0
		w.vc = nil
	}
}

func (w *WaitGroup) Add(d int) {
	if !active() {
		return
	}
	w.sync()
	S.yield(&op{kind: "wgadd", obj: w.id, enabled: func() bool { return true }})
	w.n += d
	if w.n < 0 {
		panic("sync: negative WaitGroup counter")
	}
	S.cur.vc.release(&w.vc, S.cur.ID)
}

func (w *WaitGroup) Done() { w.Add(-1) }

func (w *WaitGroup) Wait() {
	if !active() {
		return
	}
	w.sync()
	S.yield(&op{kind: "wgwait", obj: w.id, enabled: func() bool { return w.n == 0 }})
	S.cur.vc.acquire(&w.vc)
}

// Pool replaces sync.Pool with a deterministic LIFO free list that is emptied
// at the start of every execution.
type Pool struct {
	New    func() any
	items  []any
	vcs    []vclock
	reg    bool
	id     int
	epoch  uint32
}

var allPools []*Pool

func (p *Pool) reset() { p.items = nil; p.vcs = nil }

func (p *Pool) register() {
	if !p.reg {
		p.reg = true
		allPools = append(allPools, p)
	}
}

func (p *Pool) Get() any {
	p.register()
	if active() {
		s := S
		if p.epoch != s.epoch {
			p.epoch = s.epoch
			p.id = s.newObj()
		}
		if s.cfg.PoolPoints {
			s.yield(&op{kind: "poolget", obj: p.id, enabled: func() bool { return true }})
		}
	}
	if n := len(p.items); n > 0 {
		x := p.items[n-1]
		p.items = p.items[:n-1]
		if active() {
			vc := p.vcs[n-1]
			p.vcs = p.vcs[:n-1]
			S.cur.vc.acquire(&vc)
		}
		return x
	}
	if p.New != nil {
		return p.New()
	}
	return nil
}

func (p *Pool) Put(x any) {
	p.register()
	if S != nil && S.dead {
		return
	}
	if active() {
		s := S
		if p.epoch != s.epoch {
			p.epoch = s.epoch
			p.id = s.newObj()
		}
		if s.cfg.PoolPoints {
			s.yield(&op{kind: "poolput", obj: p.id, enabled: func() bool { return true }})
			if s.choose(2, false, 'h') == 1 {
				return // the pool dropped the object (GC)
			}
		}
		var vc vclock
		s.cur.vc.release(&vc, s.cur.ID)
		p.vcs = append(p.vcs, vc)
	}
	p.items = append(p.items, x)
}

// Map is a small lock based replacement for sync.Map.
type Map struct {
	mu Mutex
	m  map[any]any
	ks []any
}

func (m *Map) Load(k any) (any, bool) {
	m.mu.Lock()
	defer m.mu.Unlock()
	v, ok := m.m[k]
	return v, ok
}

func (m *Map) Store(k, v any) {
	m.mu.Lock()
	defer m.mu.Unlock()
	if m.m == nil {
		m.m = map[any]any{}
	}
	if _, ok := m.m[k]; !ok {
		m.ks = append(m.ks, k)
	}
	m.m[k] = v
}

func (m *Map) LoadOrStore(k, v any) (any, bool) {
	m.mu.Lock()
	defer m.mu.Unlock()
	if x, ok := m.m[k]; ok {
		return x, true
	}
	if m.m == nil {
		m.m = map[any]any{}
	}
	m.ks = append(m.ks, k)
	m.m[k] = v
	return v, false
}

func (m *Map) Delete(k any) {
	m.mu.Lock()
	defer m.mu.Unlock()
	if _, ok := m.m[k]; ok {
		delete(m.m, k)
		for i, x := range m.ks {
			if x == k {
				m.ks = append(m.ks[:i], m.ks[i+1:]...)
				break
			}
		}
	}
}

func (m *Map) LoadAndDelete(k any) (any, bool) {
	v, ok := m.Load(k)
	if ok {
		m.Delete(k)
	}
	return v, ok
}

func (m *Map) Range(f func(k, v any) bool) {
	m.mu.Lock()
	ks := append([]any{}, m.ks...)
	m.mu.Unlock()
	for _, k := range ks {
		v, ok := m.Load(k)
		if !ok {
			continue
		}
		if !f(k, v) {
			return
		}
	}
}
