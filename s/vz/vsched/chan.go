package vsched

import "fmt"

// chanCore is the type independent part of a channel, visible to the scheduler.
type chanCore struct {
	epoch  uint32
	id     int
	static bool // created outside an execution (package init); state persists
	cap    int
	n      int
	closed bool
	vc     vclock // release clock of close
}

// Chan replaces chan T.  A nil *Chan behaves like a nil channel.
type Chan[T any] struct {
	core chanCore
	buf  []T
	bvc  []vclock
}

// Make replaces make(chan T, n).
func Make[T any](n ...int) *Chan[T] {
	c := &Chan[T]{}
	if len(n) > 0 {
		if n[0] < 0 {
			panic("makechan: size out of range")
		}
		c.core.cap = n[0]
	}
	if S == nil {
		c.core.static = true
	} else {
		c.core.epoch = S.epoch
		c.core.id = S.newObj()
	}
	return c
}

type selCase struct {
	core *chanCore
	send bool
	// typed hooks
	takeBuf  func()              // recv: move one buffered value into the case slot
	putBuf   func()              // send: append the case value to the buffer
	xferFrom func(p *selCase)    // recv: copy value from sender case p
	setZero  func()              // recv on closed channel
	self     any                 // *typedCase[T]
	owner    *op
	index    int
}

type typedCase[T any] struct {
	ch  *Chan[T]
	val T
	ok  bool
	vc  vclock
}

// RecvResult carries what a receive case of a select got.
type RecvResult[T any] struct {
	V  T
	OK bool
	tc *typedCase[T]
}

// Sel is a select statement being assembled.
type Sel struct {
	cases []*selCase
}

func NewSel() *Sel { return &Sel{} }

func mkRecvCase[T any](c *Chan[T]) (*selCase, *typedCase[T]) {
	tc := &typedCase[T]{ch: c}
	sc := &selCase{self: tc}
	if c == nil {
		return sc, tc
	}
	sc.core = &c.core
	sc.takeBuf = func() {
		tc.val = c.buf[0]
		var zero T
		c.buf[0] = zero
		c.buf = c.buf[1:]
		tc.vc = c.bvc[0]
		c.bvc = c.bvc[1:]
		c.core.n--
		tc.ok = true
	}
	sc.xferFrom = func(p *selCase) {
		ptc := p.self.(*typedCase[T])
		tc.val = ptc.val
		tc.vc = ptc.vc
		tc.ok = true
	}
	sc.setZero = func() {
		var zero T
		tc.val = zero
		tc.ok = false
		tc.vc = c.core.vc
	}
	return sc, tc
}

func mkSendCase[T any](c *Chan[T], v T) (*selCase, *typedCase[T]) {
	tc := &typedCase[T]{ch: c, val: v}
	sc := &selCase{self: tc, send: true}
	if c == nil {
		return sc, tc
	}
	sc.core = &c.core
	sc.putBuf = func() {
		c.buf = append(c.buf, tc.val)
		c.bvc = append(c.bvc, tc.vc)
		c.core.n++
	}
	return sc, tc
}

// AddRecv adds a receive case.
func AddRecv[T any](s *Sel, c *Chan[T]) *RecvResult[T] {
	sc, tc := mkRecvCase(c)
	sc.index = len(s.cases)
	s.cases = append(s.cases, sc)
	return &RecvResult[T]{tc: tc}
}

// AddSend adds a send case.
func AddSend[T any](s *Sel, c *Chan[T], v T) {
	sc, _ := mkSendCase(c, v)
	sc.index = len(s.cases)
	s.cases = append(s.cases, sc)
}

// Get completes a RecvResult after Wait chose its case.
func (r *RecvResult[T]) Get() (T, bool) { return r.tc.val, r.tc.ok }

// Val returns the received value.
func (r *RecvResult[T]) Val() T { return r.tc.val }

func (c *chanCore) sync() {
	if c.static {
		return
	}
	if c.epoch != S.epoch {
		// a channel that survived from an earlier execution (package level state)
		c.epoch = S.epoch
		c.id = S.newObj()
	}
}

// partners returns the pending complementary cases of other threads on core.
func (s *sched) partners(core *chanCore, wantSend bool, self *Thread) []*selCase {
	var out []*selCase
	for _, t := range s.threads {
		if t == self || t.done || t.op == nil || t.op.done || t.op.cases == nil {
			continue
		}
		for _, pc := range t.op.cases {
			if pc.core == core && pc.send == wantSend {
				pc.owner = t.op
				out = append(out, pc)
				break
			}
		}
	}
	return out
}

func (s *sched) caseReady(sc *selCase, self *Thread) bool {
	c := sc.core
	if c == nil {
		return false // nil channel: never ready
	}
	if sc.send {
		if c.closed {
			return true // will panic
		}
		if c.n < c.cap {
			return true
		}
		// rendez-vous only exists on unbuffered channels: a receiver parked on a buffered
		// channel will take from the buffer when it is scheduled
		return c.cap == 0 && len(s.partners(c, false, self)) > 0
	}
	if c.n > 0 || c.closed {
		return true
	}
	return c.cap == 0 && len(s.partners(c, true, self)) > 0
}

// Wait performs the select: it returns the index of the chosen case, or -1 for default.
func (sel *Sel) Wait(hasDefault bool) int {
	if S == nil {
		return sel.immediate(hasDefault)
	}
	if S.dead {
		return -1
	}
	s := S
	t := s.cur
	obj := 0
	for _, sc := range sel.cases {
		if sc.core != nil {
			sc.core.sync()
			if obj == 0 {
				obj = sc.core.id
			}
		}
	}
	o := &op{kind: "select", obj: obj, cases: sel.cases, hasDefault: hasDefault}
	if len(sel.cases) == 1 {
		if sel.cases[0].send {
			o.kind = "send"
		} else {
			o.kind = "recv"
		}
	}
	o.enabled = func() bool {
		if hasDefault {
			return true
		}
		for _, sc := range o.cases {
			if s.caseReady(sc, t) {
				return true
			}
		}
		return false
	}
	s.yield(o)
	if o.done {
		// a rendezvous partner completed one of our cases
		sc := o.cases[o.res]
		if !sc.send {
			tc := sc.self.(interface{ acq(t *Thread) })
			tc.acq(t)
		}
		return o.res
	}
	var ready []*selCase
	for _, sc := range o.cases {
		if s.caseReady(sc, t) {
			ready = append(ready, sc)
		}
	}
	if len(ready) == 0 {
		if !hasDefault {
			panic("vsched: select scheduled with no ready case")
		}
		return -1
	}
	sc := ready[0]
	if len(ready) > 1 {
		sc = ready[s.choose(len(ready), false, 'c')]
		s.mix(4, sc.index, 0)
	}
	c := sc.core
	if sc.send {
		if c.closed {
			panic("send on closed channel")
		}
		stc := sc.self.(interface{ rel(t *Thread) })
		stc.rel(t)
		if c.n < c.cap {
			if c.static {
				panic("vsched: send on a package-level buffered channel (state would leak between executions)")
			}
			sc.putBuf()
			return sc.index
		}
		ps := s.partners(c, false, t)
		p := ps[0]
		if len(ps) > 1 {
			p = ps[s.choose(len(ps), false, 'p')]
		}
		p.xferFrom(sc)
		p.owner.done = true
		p.owner.res = p.index
		return sc.index
	}
	// receive
	if c.n > 0 {
		sc.takeBuf()
	} else if c.closed {
		sc.setZero()
	} else {
		ps := s.partners(c, true, t)
		p := ps[0]
		if len(ps) > 1 {
			p = ps[s.choose(len(ps), false, 'p')]
		}
		ptc := p.self.(interface{ rel(t *Thread) })
		ptc.rel(s.ownerThread(p.owner))
		sc.xferFrom(p)
		p.owner.done = true
		p.owner.res = p.index
	}
	sc.self.(interface{ acq(t *Thread) }).acq(t)
	return sc.index
}

func (tc *typedCase[T]) acq(t *Thread) { t.vc.acquire(&tc.vc) }
func (tc *typedCase[T]) rel(t *Thread) {
	if t != nil {
		t.vc.release(&tc.vc, t.ID)
	}
}

func (s *sched) ownerThread(o *op) *Thread {
	for _, t := range s.threads {
		if t.op == o {
			return t
		}
	}
	return nil
}

// immediate executes a select outside an execution (package init): only
// operations that can complete at once are possible.
func (sel *Sel) immediate(hasDefault bool) int {
	for _, sc := range sel.cases {
		c := sc.core
		if c == nil {
			continue
		}
		if sc.send {
			if c.closed {
				panic("send on closed channel")
			}
			if c.n < c.cap {
				sc.putBuf()
				return sc.index
			}
		} else if c.n > 0 {
			sc.takeBuf()
			return sc.index
		} else if c.closed {
			sc.setZero()
			return sc.index
		}
	}
	if hasDefault {
		return -1
	}
	panic("vsched: blocking channel operation outside an execution")
}

// Send replaces c <- v.
func (c *Chan[T]) Send(v T) {
	if S != nil && S.dead {
		return
	}
	sel := &Sel{}
	AddSend(sel, c, v)
	sel.Wait(false)
}

// Recv replaces <-c.
func (c *Chan[T]) Recv() T {
	if S != nil && S.dead {
		var zero T
		return zero
	}
	sel := &Sel{}
	r := AddRecv(sel, c)
	sel.Wait(false)
	return r.tc.val
}

// Recv2 replaces v, ok := <-c.
func (c *Chan[T]) Recv2() (T, bool) {
	if S != nil && S.dead {
		var zero T
		return zero, false
	}
	sel := &Sel{}
	r := AddRecv(sel, c)
	sel.Wait(false)
	return r.tc.val, r.tc.ok
}

// Close replaces close(c).
func (c *Chan[T]) Close() {
	if c == nil {
		panic("close of nil channel")
	}
	if S == nil {
		if c.core.closed {
			panic("close of closed channel")
		}
		c.core.closed = true
		return
	}
	if S.dead {
		return
	}
	s := S
	c.core.sync()
	s.yield(&op{kind: "close", obj: c.core.id, enabled: func() bool { return true }})
	if c.core.closed {
		panic("close of closed channel")
	}
	if c.core.static {
		panic("vsched: close of a package-level channel during an execution")
	}
	c.core.closed = true
	s.cur.vc.release(&c.core.vc, s.cur.ID)
}

// Len replaces len(c).
func (c *Chan[T]) Len() int {
	if c == nil {
		return 0
	}
	return c.core.n
}

// Cap replaces cap(c).
func (c *Chan[T]) Cap() int {
	if c == nil {
		return 0
	}
	return c.core.cap
}

func (c *Chan[T]) String() string {
	if c == nil {
		return "chan(nil)"
	}
	return fmt.Sprintf("chan#%d", c.core.id)
}
