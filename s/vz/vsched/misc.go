package vsched

import (
	"fmt"
	"reflect"
	"sort"
)

// ---------------------------------------------------------------------------
// atomics

func atomicPoint(kind string) {
	if active() && S.cfg.AtomicPoints {
		S.yield(&op{kind: kind, enabled: func() bool { return true }})
	}
}

// AtomicPoint is called by the atomic shims before every atomic operation.
func AtomicPoint() { atomicPoint("atomic") }

// atomics establish happens-before through one global clock (conservative for
// race detection: every atomic synchronises with every earlier atomic).
var atomicVC vclock

func AtomicSync() {
	if raceOn() {
		t := S.cur
		t.vc.acquire(&atomicVC)
		t.vc.release(&atomicVC, t.ID)
	}
}

// ---------------------------------------------------------------------------
// randomness

var crandNext uint32
var mrandState uint64

// CrandRead fills b deterministically: the first four bytes returned in an
// execution are Config.CrandSeed (big endian), later reads continue a counter.
func CrandRead(b []byte) (int, error) {
	for i := 0; i < len(b); i += 4 {
		v := crandNext
		crandNext++
		for j := 0; j < 4 && i+j < len(b); j++ {
			b[i+j] = byte(v >> (24 - 8*uint(j)))
		}
	}
	return len(b), nil
}

// RandFloats is the menu math/rand.Float64 chooses from (explorer decision).
var RandFloats = []float64{0, 0.5, 0.999}

func MrandFloat64() float64 {
	if !active() {
		return 0
	}
	if S.cfg.RandFree {
		return RandFloats[ChooseFree(len(RandFloats))]
	}
	return RandFloats[Choose(len(RandFloats))]
}

func MrandUint64() uint64 {
	mrandState = mrandState*6364136223846793005 + 1442695040888963407
	return mrandState
}

// ---------------------------------------------------------------------------
// canonical map iteration

// MapNote registers a map key at insertion time so that keys without a natural
// order (pointers, interfaces) iterate in first-insertion order.
func MapNote[K comparable](k K) K {
	if S != nil && !S.dead {
		var a any = k
		if _, ok := S.mapRank[a]; !ok {
			S.mapRank[a] = len(S.mapRank) + 1
		}
	}
	return k
}

// MapKeys returns the keys of m in canonical order.
func MapKeys[K comparable, V any](m map[K]V) []K {
	keys := make([]K, 0, len(m))
	for k := range m {
		keys = append(keys, k)
	}
	if len(keys) > 1 {
		sortKeys(keys)
		if active() && S.cfg.MapOrder {
			if S.choose(2, false, 'm') == 1 {
				for i, j := 0, len(keys)-1; i < j; i, j = i+1, j-1 {
					keys[i], keys[j] = keys[j], keys[i]
				}
			}
		}
	}
	return keys
}

func sortKeys[K comparable](keys []K) {
	var k0 any = keys[0]
	switch k0.(type) {
	case string:
		sort.Slice(keys, func(i, j int) bool { return any(keys[i]).(string) < any(keys[j]).(string) })
		return
	case int:
		sort.Slice(keys, func(i, j int) bool { return any(keys[i]).(int) < any(keys[j]).(int) })
		return
	case uint32:
		sort.Slice(keys, func(i, j int) bool { return any(keys[i]).(uint32) < any(keys[j]).(uint32) })
		return
	case uint16:
		sort.Slice(keys, func(i, j int) bool { return any(keys[i]).(uint16) < any(keys[j]).(uint16) })
		return
	}
	rv := reflect.ValueOf(k0)
	switch rv.Kind() {
	case reflect.Int, reflect.Int8, reflect.Int16, reflect.Int32, reflect.Int64:
		sort.Slice(keys, func(i, j int) bool { return reflect.ValueOf(keys[i]).Int() < reflect.ValueOf(keys[j]).Int() })
		return
	case reflect.Uint, reflect.Uint8, reflect.Uint16, reflect.Uint32, reflect.Uint64, reflect.Uintptr:
		sort.Slice(keys, func(i, j int) bool { return reflect.ValueOf(keys[i]).Uint() < reflect.ValueOf(keys[j]).Uint() })
		return
	case reflect.String:
		sort.Slice(keys, func(i, j int) bool { return reflect.ValueOf(keys[i]).String() < reflect.ValueOf(keys[j]).String() })
		return
	}
	// pointers, interfaces, structs: first-insertion rank
	rank := func(k K) int {
		if S == nil {
			return 0
		}
		var a any = k
		r, ok := S.mapRank[a]
		if !ok {
			// never noted (inserted by unrewritten code): rank on first sight.  This
			// is only deterministic if it happens for one key at a time.
			r = len(S.mapRank) + 1
			S.mapRank[a] = r
			S.counters["vmap.unranked"]++
		}
		return r
	}
	sort.SliceStable(keys, func(i, j int) bool { return rank(keys[i]) < rank(keys[j]) })
}

func init() { _ = fmt.Sprint }
