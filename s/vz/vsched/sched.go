// Package vsched is the controlled scheduler under which rewritten mangos code
// and the rewritten harnesses run.  Exactly one logical thread runs at a time;
// every visible operation (lock, channel operation, select, cond wait, once,
// timer stop, optional atomics) is a decision point owned by the explorer.
//
// This package is NOT rewritten: it uses real goroutines and real channels to
// implement baton passing.
package vsched

import (
	"fmt"
	"hash/fnv"
	"runtime"
	"runtime/debug"
	"sort"
	"strings"
	rt "time"
)

// ---------------------------------------------------------------------------
// configuration of one execution

// Config selects which optional decision points exist in an execution.
type Config struct {
	AtomicPoints bool     // atomics are scheduling points
	PoolPoints   bool     // sync.Pool Get/Put are scheduling points; "pool drops buffer" choice
	EarlyTimers  bool     // a pending timer may fire while other threads are enabled (costs a deviation)
	MapOrder     bool     // descending map order is a 1-deviation alternative
	MaxSteps     int      // transitions per execution before it is declared a livelock (default 200000)
	Horizon      rt.Duration // virtual time after which no timer fires any more (default 24h)
	Verbose      bool     // keep a human readable trace
	Race         bool     // happens-before race detection on instrumented accesses
	CrandSeed    uint32   // first value returned by crypto/rand.Read as a big-endian uint32
	RandFree     bool     // math/rand draws are free choices (all alternatives explored at no cost)
}

// Point describes one recorded decision point.
type Point struct {
	N    int  // number of alternatives
	Free bool // alternatives cost no deviation (harness enumeration)
	Kind byte // 't' thread, 'c' select case, 'p' rendezvous partner, 'h' harness Choose, 'f' ChooseFree, 'm' map order
}

// Result is what one execution produced.
type Result struct {
	Choices   []uint8
	Points    []Point
	Steps     int
	Hash      uint64
	Failure   string // "" = no violation
	FailKind  string // "panic", "deadlock", "fail", "lockleak", "race", "livelock", "internal"
	FailSig   string // short stable signature for known-findings matching
	Trace     []string
	Obs       string // harness supplied end observation (for distinct outcome counting)
	Diverged  bool   // replay prefix did not fit (internal error)
	VTimeEnd  rt.Duration
	Threads   int
	Counters  map[string]int
	Hung      bool // the execution did not end: a thread runs without ever reaching a scheduling point (the process must not run further executions)
}

// HangAfter is the real time an execution may spend without a single scheduler transition before it
// is declared hung (a thread of the code under test spinning without any synchronisation
// operation: executions normally make thousands of transitions per second).
var HangAfter = 45 * rt.Second

type failure struct{ kind, sig, msg string }

// ---------------------------------------------------------------------------
// threads

// Thread is a logical thread of the execution.
type Thread struct {
	ID      int
	Name    string
	wake    chan struct{}
	op      *op
	done    bool
	started bool
	parks   int // number of times this thread waited on a not yet enabled operation
	held    []*Mutex
	rheld   int
	must    string
	vc      vclock
	exited  chan struct{}
}

type op struct {
	kind    string
	class   int // 0 normal, 1 quiesce
	enabled func() bool
	obj     int
	// select
	cases      []*selCase
	hasDefault bool
	done       bool
	res        int
}

type sched struct {
	cfg     Config
	epoch   uint32
	threads []*Thread
	cur     *Thread
	dead    bool
	now     rt.Duration
	timers  timerHeap
	tseq    int
	objseq  int
	steps   int

	prefix  []uint8
	res     *Result
	hash    uint64
	finish  chan struct{}
	pools   []*Pool
	mapRank map[any]int
	counters map[string]int
	obs     []string
}

// S is the scheduler of the execution in progress (nil outside executions:
// package init code and the explorer run shim operations immediately).
var S *sched
var epochCounter uint32

func active() bool { return S != nil && !S.dead }

// Cur returns the running logical thread (nil outside an execution).
func Cur() *Thread {
	if S == nil {
		return nil
	}
	return S.cur
}

// Now is the virtual time elapsed since the start of the execution.
func Now() rt.Duration {
	if S == nil {
		return 0
	}
	return S.now
}

// Count bumps a named vacuity counter for this execution.
func Count(name string) {
	if S != nil {
		S.counters[name]++
	}
}

// Observe appends to the end observation of this execution.
func Observe(s string) {
	if S != nil {
		S.obs = append(S.obs, s)
	}
}

func (s *sched) newObj() int { s.objseq++; return s.objseq }

func (s *sched) tracef(format string, a ...any) {
	if s.cfg.Verbose {
		s.res.Trace = append(s.res.Trace, fmt.Sprintf("[%v] ", s.now)+fmt.Sprintf(format, a...))
	}
}

// Tracef adds a line to the human readable trace (verbose executions only).
func Tracef(format string, a ...any) {
	if S != nil && !S.dead {
		S.tracef(format, a...)
	}
}

func (s *sched) mix(a, b, c int) {
	h := s.hash
	h ^= uint64(a)*0x9e3779b97f4a7c15 + uint64(b)*0xc2b2ae3d27d4eb4f + uint64(c)*0x165667b19e3779f9
	h = (h << 13) | (h >> 51)
	h *= 0x2545f4914f6cdd1d
	s.hash = h
}

// Run executes body as thread 0 under the scheduler, replaying prefix and
// taking the default alternative at every later decision point.
func Run(cfg Config, prefix []uint8, body func()) *Result {
	if S != nil {
		panic("vsched: nested Run")
	}
	if cfg.MaxSteps == 0 {
		cfg.MaxSteps = 200000
	}
	if cfg.Horizon == 0 {
		cfg.Horizon = 24 * rt.Hour
	}
	epochCounter++
	s := &sched{cfg: cfg, epoch: epochCounter, prefix: prefix, res: &Result{}, finish: make(chan struct{}),
		mapRank: map[any]int{}, counters: map[string]int{}}
	for _, p := range allPools {
		p.reset()
	}
	if cfg.Race {
		raceReset()
		atomicVC = nil
	}
	crandNext = cfg.CrandSeed
	mrandState = 1
	S = s
	t := s.newThread("main")
	s.cur = t
	t.started = true
	go s.threadMain(t, body)
	hung := false
	func() {
		last, idle := -1, rt.Duration(0)
		tick := rt.NewTicker(5 * rt.Second)
		defer tick.Stop()
		for {
			select {
			case <-s.finish:
				return
			case <-tick.C:
				// (read without synchronisation: a stale value only delays the verdict)
				if n := s.steps + s.tseq; n != last {
					last, idle = n, 0
				} else if idle += 5 * rt.Second; idle >= HangAfter {
					hung = true
					return
				}
			}
		}
	}()
	if hung {
		// no thread is parked in the scheduler and none arrives: the running thread spins
		name := "?"
		if c := s.cur; c != nil {
			name = c.Name
		}
		S = nil
		return &Result{Choices: append([]uint8{}, s.res.Choices...), Points: s.res.Points, Steps: s.steps, Hung: true,
			Failure:  fmt.Sprintf("the execution made no scheduler transition for %v: thread %q runs without reaching a synchronisation operation (busy loop)", HangAfter, name),
			FailKind: "livelock", FailSig: "busy-loop:" + name, Obs: strings.Join(s.obs, "|"), Counters: map[string]int{}}
	}
	S = nil
	r := s.res
	r.Steps = s.steps
	r.Hash = s.hash
	r.VTimeEnd = s.now
	r.Threads = len(s.threads)
	r.Counters = s.counters
	r.Obs = strings.Join(s.obs, "|")
	return r
}

func (s *sched) newThread(name string) *Thread {
	t := &Thread{ID: len(s.threads), Name: name, wake: make(chan struct{}, 1), exited: make(chan struct{})}
	s.threads = append(s.threads, t)
	return t
}

func (s *sched) threadMain(t *Thread, body func()) {
	defer func() {
		r := recover()
		if s.dead {
			// being killed (or a panic inside deferred code while being killed): just leave.
			close(t.exited)
			return
		}
		if r != nil {
			if f, ok := r.(failure); ok {
				s.fail(f.kind, f.sig, f.msg)
			} else {
				st := string(debug.Stack())
				s.fail("panic", "panic:"+panicSig(r, st), fmt.Sprintf("panic in thread %d (%s): %v\n%s", t.ID, t.Name, r, trimStack(st)))
			}
			s.endExecution(t)
			close(t.exited)
			return
		}
		// normal exit
		t.done = true
		if len(t.held) > 0 || t.rheld > 0 {
			s.fail("lockleak", "lockleak:exit:"+StripLine(t.Name), fmt.Sprintf("thread %d (%s) exited holding %d mutex(es): %s", t.ID, t.Name, len(t.held)+t.rheld, heldNames(t)))
			s.endExecution(t)
			close(t.exited)
			return
		}
		s.tracef("T%d exit", t.ID)
		if t.ID == 0 {
			s.endExecution(t)
			close(t.exited)
			return
		}
		close(t.exited)
		s.reschedule(t)
	}()
	body()
}

func heldNames(t *Thread) string {
	var n []string
	for _, m := range t.held {
		n = append(n, m.site.String())
	}
	return strings.Join(n, ",")
}

func panicSig(r any, st string) string {
	msg := fmt.Sprint(r)
	if len(msg) > 60 {
		msg = msg[:60]
	}
	// first mangos frame
	for _, l := range strings.Split(st, "\n") {
		if strings.Contains(l, "go.nanomsg.org/mangos/v3") && !strings.Contains(l, "/vz/") && strings.Contains(l, "(") && !strings.HasPrefix(l, "\t") {
			f := l
			if i := strings.LastIndex(f, "("); i > 0 {
				f = f[:i]
			}
			f = strings.TrimPrefix(f, "go.nanomsg.org/mangos/v3/")
			return msg + "@" + f
		}
	}
	return msg
}

func trimStack(st string) string {
	lines := strings.Split(st, "\n")
	var out []string
	for i := 0; i < len(lines); i++ {
		l := lines[i]
		if strings.Contains(l, "runtime/debug") || strings.Contains(l, "runtime/panic") || strings.Contains(l, "/vz/vsched") {
			i++
			continue
		}
		out = append(out, l)
		if len(out) > 30 {
			break
		}
	}
	return strings.Join(out, "\n")
}

func (s *sched) fail(kind, sig, msg string) {
	if s.res.Failure == "" {
		s.res.Failure = msg
		s.res.FailKind = kind
		s.res.FailSig = sig
	}
}

// Fail reports a violation found by a harness oracle and ends the execution.
func Fail(sig string, format string, a ...any) {
	if S == nil || S.dead {
		return
	}
	panic(failure{"fail", sig, fmt.Sprintf(format, a...)})
}

// endExecution kills every parked thread (one at a time, so deferred code never
// runs in parallel) and hands control back to Run.  Called by the running thread.
func (s *sched) endExecution(self *Thread) {
	s.dead = true
	for _, t := range s.threads {
		if t == self || t.done && t.started {
			continue
		}
		if !t.started {
			// never scheduled: its goroutine is parked in its start gate
			t.wake <- struct{}{}
			<-t.exited
			continue
		}
		t.wake <- struct{}{}
		<-t.exited
	}
	close(s.finish)
}

// Go starts a new logical thread.
func Go(name string, f func()) {
	s := S
	if s == nil {
		go f()
		return
	}
	if s.dead {
		return
	}
	t := s.newThread(name)
	if s.cur != nil {
		t.vc = s.cur.vc.fork(s.cur.ID, t.ID)
	}
	t.op = &op{kind: "start", enabled: func() bool { return true }}
	s.tracef("T%d spawn T%d %s", s.cur.ID, t.ID, name)
	go func() {
		<-t.wake
		if s.dead {
			close(t.exited)
			return
		}
		t.started = true
		s.threadMain(t, f)
	}()
}

// ---------------------------------------------------------------------------
// decisions

func (s *sched) choose(n int, free bool, kind byte) int {
	if n <= 1 {
		return 0
	}
	i := len(s.res.Points)
	c := 0
	if i < len(s.prefix) {
		c = int(s.prefix[i])
		if c >= n {
			s.res.Diverged = true
			s.fail("internal", "internal:diverged", fmt.Sprintf("replay diverged at point %d: choice %d of %d", i, c, n))
			c = 0
		}
	}
	if n > 250 {
		// a limit of the tool (choices are stored in a byte), never a verdict on the code
		s.fail("internal", "internal:too-many-alternatives", fmt.Sprintf("%d alternatives at one choice point (at most 250 are supported): the harness must keep fewer threads runnable at a time", n))
		n = 250
	}
	s.res.Points = append(s.res.Points, Point{N: n, Free: free, Kind: kind})
	s.res.Choices = append(s.res.Choices, uint8(c))
	return c
}

// Choose is a harness decision with default 0; alternatives cost one deviation.
func Choose(n int) int {
	if !active() {
		return 0
	}
	c := S.choose(n, false, 'h')
	S.mix(1000, n, c)
	return c
}

// ChooseFree is a harness decision whose alternatives are all explored at no cost.
func ChooseFree(n int) int {
	if !active() {
		return 0
	}
	c := S.choose(n, true, 'f')
	S.mix(1001, n, c)
	return c
}

// yield registers o as the pending operation of the running thread and lets the
// explorer decide who runs next.  It returns when the calling thread has been
// chosen (its operation is enabled at that moment and nothing ran in between).
func (s *sched) yield(o *op) {
	t := s.cur
	t.op = o
	if !o.enabled() {
		t.parks++
	}
	s.reschedule(t)
	t.op = nil
}

// reschedule picks the next thread.  self is the calling thread (parked with a
// pending op, or done).
func (s *sched) reschedule(self *Thread) {
	for {
		if s.steps > s.cfg.MaxSteps || s.tseq > s.cfg.MaxSteps {
			s.fail("livelock", "livelock", "execution exceeded the step limit (livelock or unbounded polling)")
			s.endExecution(self)
			s.leave(self)
		}
		var cand []*Thread
		selfEnabled := false
		for _, t := range s.threads {
			if t.done || t.op == nil || t.op.class != 0 {
				continue
			}
			if t.op.done || t.op.enabled() {
				if t == self {
					selfEnabled = true
				} else {
					cand = append(cand, t)
				}
			}
		}
		if selfEnabled {
			if self.op.kind == "yield" && len(cand) > 0 {
				// a polling loop: by default somebody else runs first (fairness)
				cand = append(cand, self)
			} else {
				cand = append([]*Thread{self}, cand...)
			}
		}
		timerOK := s.timers.Len() > 0 && s.timers.items[0].when <= s.cfg.Horizon
		if len(cand) == 0 && timerOK && s.timers.items[0].when <= s.now {
			// a timer that is due at this very instant fires before anybody waiting for quiescence
			// is released: nothing needs time to advance for it (time.AfterFunc(0, f), or a timer
			// armed during a sleep for the instant at which the sleep ends)
			s.fireTimer()
			continue
		}
		if len(cand) == 0 {
			// quiesce waiters
			for _, t := range s.threads {
				if !t.done && t.op != nil && t.op.class == 1 {
					cand = append(cand, t)
				}
			}
			if len(cand) == 0 && timerOK {
				s.fireTimer()
				continue
			}
			if len(cand) == 0 {
				// nothing can run
				s.deadlock(self)
				return
			}
		} else if timerOK && s.cfg.EarlyTimers {
			// alternative: the timer lands first
			n := len(cand) + 1
			c := s.choose(n, false, 't')
			if c == n-1 {
				s.mix(3, 0, 0)
				s.fireTimer()
				continue
			}
			s.switchTo(self, cand[c])
			return
		}
		c := s.choose(len(cand), false, 't')
		s.switchTo(self, cand[c])
		return
	}
}

func (s *sched) switchTo(self, next *Thread) {
	s.steps++
	s.mix(2, next.ID, next.op.obj)
	if s.cfg.Verbose {
		s.tracef("T%d %s #%d", next.ID, next.op.kind, next.op.obj)
	}
	if next == self {
		return
	}
	s.cur = next
	next.wake <- struct{}{}
	s.park(self)
}

// park blocks the calling goroutine until its thread is scheduled again.
func (s *sched) park(self *Thread) {
	if self.done {
		return // goroutine of a finished thread simply returns
	}
	<-self.wake
	if s.dead {
		s.leave(self)
	}
}

// leave terminates the calling goroutine (used when the execution is over).
func (s *sched) leave(self *Thread) {
	runtime.Goexit()
}

func (s *sched) deadlock(self *Thread) {
	main := s.threads[0]
	var blocked []string
	sig := ""
	for _, t := range s.threads {
		if t.done || t.op == nil {
			continue
		}
		d := fmt.Sprintf("T%d(%s) blocked in %s #%d", t.ID, t.Name, t.op.kind, t.op.obj)
		if t.must != "" {
			d += " during must-complete call " + t.must
			if sig == "" {
				sig = "deadlock:" + t.must
			}
		}
		blocked = append(blocked, d)
	}
	if !main.done || sig != "" {
		if sig == "" {
			sig = "deadlock:main"
		}
		s.fail("deadlock", sig, "deadlock: no thread can run and no timer is pending\n  "+strings.Join(blocked, "\n  "))
	}
	s.endExecution(self)
	if !self.done {
		s.leave(self)
	}
}

// Quiesce returns when no other thread can make progress without time advancing.
func Quiesce() {
	if !active() {
		return
	}
	s := S
	s.yield(&op{kind: "quiesce", class: 1, enabled: func() bool { return true }})
}

// Yield is a plain scheduling point (used in polling loops so they stay visible).
func Yield() {
	if !active() {
		return
	}
	S.yield(&op{kind: "yield", enabled: func() bool { return true }})
}

// Must marks the calling thread as being inside a call that has to return; if
// the execution deadlocks meanwhile the deadlock is reported as a violation with
// this label.  It returns a function restoring the previous label.
func Must(label string) func() {
	t := Cur()
	if t == nil {
		return func() {}
	}
	old := t.must
	t.must = label
	return func() { t.must = old }
}

// Parks returns how often the calling thread had to wait for an operation that
// was not enabled when it was issued (never-blocked monitor).
func Parks() int {
	if t := Cur(); t != nil {
		return t.parks
	}
	return 0
}

// HeldLocks returns the number of library mutexes the calling thread holds.
func HeldLocks() int {
	if t := Cur(); t != nil {
		return len(t.held) + t.rheld
	}
	return 0
}

// HeldLockSites names the mutexes the calling thread holds.
func HeldLockSites() string {
	if t := Cur(); t != nil {
		return heldNames(t)
	}
	return ""
}

// LiveThreads lists threads that are still alive, by name, sorted.
func LiveThreads() []string {
	var out []string
	if S == nil {
		return nil
	}
	for _, t := range S.threads {
		if !t.done && t != S.cur {
			k := "?"
			if t.op != nil {
				k = t.op.kind
			}
			out = append(out, t.Name+"@"+k)
		}
	}
	sort.Strings(out)
	return out
}

// PendingTimers is the number of timers (After/AfterFunc/Sleep) not yet fired or stopped.
func PendingTimers() int {
	if S == nil {
		return 0
	}
	return S.timers.Len()
}

// NextTimer returns the virtual time at which the earliest pending timer is due.
func NextTimer() (rt.Duration, bool) {
	if S == nil || S.timers.Len() == 0 {
		return 0, false
	}
	return S.timers.items[0].when, true
}

// PendingTimerNames names the creation sites of pending timers.
func PendingTimerNames() []string {
	var out []string
	if S == nil {
		return nil
	}
	for _, t := range S.timers.items {
		out = append(out, t.site.Func())
	}
	sort.Strings(out)
	return out
}

func hashString(s string) uint64 {
	h := fnv.New64a()
	h.Write([]byte(s))
	return h.Sum64()
}

// site is a lazily resolved call site (resolving is expensive, recording is cheap).
type site struct {
	pcs [3]uintptr
	n   int
}

func (st *site) record(skip int) {
	st.n = runtime.Callers(skip+1, st.pcs[:])
}

func (st *site) String() string {
	if st.n == 0 {
		return "?"
	}
	frames := runtime.CallersFrames(st.pcs[:st.n])
	for {
		f, more := frames.Next()
		if !strings.Contains(f.File, "/vz/") && f.Function != "" {
			name := strings.TrimPrefix(f.Function, "go.nanomsg.org/mangos/v3/")
			file := f.File
			if j := strings.LastIndex(file, "/"); j >= 0 {
				file = file[j+1:]
			}
			return fmt.Sprintf("%s(%s:%d)", name, file, f.Line)
		}
		if !more {
			break
		}
	}
	return "?"
}

// Func returns only the function name (stable across edits; used in signatures).
func (st *site) Func() string {
	s := st.String()
	if i := strings.LastIndex(s, "("); i > 0 {
		return s[:i]
	}
	return s
}

func callerSite(skip int) string {
	var st site
	st.record(skip + 1)
	return st.String()
}

func callerFunc(skip int) string {
	var st site
	st.record(skip + 1)
	return st.Func()
}

// StripLine removes a trailing ":<line>" so that names are stable across edits.
func StripLine(s string) string {
	i := strings.LastIndex(s, ":")
	if i < 0 || i == len(s)-1 {
		return s
	}
	for _, c := range s[i+1:] {
		if c < '0' || c > '9' {
			return s
		}
	}
	return s[:i]
}

// AtExit is used by the conformance flavour of this package; under the controlled scheduler
// whatever a scenario leaves behind is killed at the end of the execution.
func AtExit(func()) {}

// Conformance reports whether this is the conformance flavour (unrewritten code under testing/synctest).
const Conformance = false
