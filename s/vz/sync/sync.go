// Package sync replaces the standard sync package in rewritten code.
package sync

import "go.nanomsg.org/mangos/v3/vz/vsched"

type (
	Mutex     = vsched.Mutex
	RWMutex   = vsched.RWMutex
	Locker    = vsched.Locker
	Cond      = vsched.Cond
	Once      = vsched.Once
	WaitGroup = vsched.WaitGroup
	Pool      = vsched.Pool
	Map       = vsched.Map
)

func NewCond(l Locker) *Cond { return vsched.NewCond(l) }

func OnceFunc(f func()) func() {
	var o Once
	return func() { o.Do(f) }
}
