// Package rand replaces crypto/rand in rewritten code.
package rand

import "go.nanomsg.org/mangos/v3/vz/vsched"

func Read(b []byte) (int, error) { return vsched.CrandRead(b) }
