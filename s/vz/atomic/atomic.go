// Package atomic replaces sync/atomic in rewritten code.  Only one logical
// thread runs at a time, so plain memory operations are atomic; each operation
// is an (optional) scheduling point.
package atomic

import (
	"unsafe"

	"go.nanomsg.org/mangos/v3/vz/vsched"
)

func pt() { vsched.AtomicPoint(); vsched.AtomicSync() }

func AddInt32(p *int32, d int32) int32       { pt(); *p += d; return *p }
func AddInt64(p *int64, d int64) int64       { pt(); *p += d; return *p }
func AddUint32(p *uint32, d uint32) uint32   { pt(); *p += d; return *p }
func AddUint64(p *uint64, d uint64) uint64   { pt(); *p += d; return *p }
func AddUintptr(p *uintptr, d uintptr) uintptr { pt(); *p += d; return *p }
func LoadInt32(p *int32) int32               { pt(); return *p }
func LoadInt64(p *int64) int64               { pt(); return *p }
func LoadUint32(p *uint32) uint32            { pt(); return *p }
func LoadUint64(p *uint64) uint64            { pt(); return *p }
func LoadUintptr(p *uintptr) uintptr         { pt(); return *p }
func LoadPointer(p *unsafe.Pointer) unsafe.Pointer { pt(); return *p }
func StoreInt32(p *int32, v int32)           { pt(); *p = v }
func StoreInt64(p *int64, v int64)           { pt(); *p = v }
func StoreUint32(p *uint32, v uint32)        { pt(); *p = v }
func StoreUint64(p *uint64, v uint64)        { pt(); *p = v }
func StoreUintptr(p *uintptr, v uintptr)     { pt(); *p = v }
func StorePointer(p *unsafe.Pointer, v unsafe.Pointer) { pt(); *p = v }
func SwapInt32(p *int32, v int32) int32      { pt(); o := *p; *p = v; return o }
func SwapInt64(p *int64, v int64) int64      { pt(); o := *p; *p = v; return o }
func SwapUint32(p *uint32, v uint32) uint32  { pt(); o := *p; *p = v; return o }
func SwapUint64(p *uint64, v uint64) uint64  { pt(); o := *p; *p = v; return o }
func CompareAndSwapInt32(p *int32, o, n int32) bool {
	pt()
	if *p == o {
		*p = n
		return true
	}
	return false
}
func CompareAndSwapInt64(p *int64, o, n int64) bool {
	pt()
	if *p == o {
		*p = n
		return true
	}
	return false
}
func CompareAndSwapUint32(p *uint32, o, n uint32) bool {
	pt()
	if *p == o {
		*p = n
		return true
	}
	return false
}
func CompareAndSwapUint64(p *uint64, o, n uint64) bool {
	pt()
	if *p == o {
		*p = n
		return true
	}
	return false
}

type Int32 struct{ v int32 }

func (x *Int32) Load() int32           { return LoadInt32(&x.v) }
func (x *Int32) Store(v int32)         { StoreInt32(&x.v, v) }
func (x *Int32) Add(d int32) int32     { return AddInt32(&x.v, d) }
func (x *Int32) Swap(v int32) int32    { return SwapInt32(&x.v, v) }
func (x *Int32) CompareAndSwap(o, n int32) bool { return CompareAndSwapInt32(&x.v, o, n) }

type Int64 struct{ v int64 }

func (x *Int64) Load() int64           { return LoadInt64(&x.v) }
func (x *Int64) Store(v int64)         { StoreInt64(&x.v, v) }
func (x *Int64) Add(d int64) int64     { return AddInt64(&x.v, d) }
func (x *Int64) Swap(v int64) int64    { return SwapInt64(&x.v, v) }
func (x *Int64) CompareAndSwap(o, n int64) bool { return CompareAndSwapInt64(&x.v, o, n) }

type Uint32 struct{ v uint32 }

func (x *Uint32) Load() uint32          { return LoadUint32(&x.v) }
func (x *Uint32) Store(v uint32)        { StoreUint32(&x.v, v) }
func (x *Uint32) Add(d uint32) uint32   { return AddUint32(&x.v, d) }
func (x *Uint32) Swap(v uint32) uint32  { return SwapUint32(&x.v, v) }
func (x *Uint32) CompareAndSwap(o, n uint32) bool { return CompareAndSwapUint32(&x.v, o, n) }

type Uint64 struct{ v uint64 }

func (x *Uint64) Load() uint64          { return LoadUint64(&x.v) }
func (x *Uint64) Store(v uint64)        { StoreUint64(&x.v, v) }
func (x *Uint64) Add(d uint64) uint64   { return AddUint64(&x.v, d) }
func (x *Uint64) Swap(v uint64) uint64  { return SwapUint64(&x.v, v) }
func (x *Uint64) CompareAndSwap(o, n uint64) bool { return CompareAndSwapUint64(&x.v, o, n) }

type Bool struct{ v bool }

func (x *Bool) Load() bool      { pt(); return x.v }
func (x *Bool) Store(v bool)    { pt(); x.v = v }
func (x *Bool) Swap(v bool) bool { pt(); o := x.v; x.v = v; return o }
func (x *Bool) CompareAndSwap(o, n bool) bool {
	pt()
	if x.v == o {
		x.v = n
		return true
	}
	return false
}

type Value struct{ v any }

func (x *Value) Load() any   { pt(); return x.v }
func (x *Value) Store(v any) { pt(); x.v = v }
func (x *Value) Swap(v any) any { pt(); o := x.v; x.v = v; return o }
func (x *Value) CompareAndSwap(o, n any) bool {
	pt()
	if x.v == o {
		x.v = n
		return true
	}
	return false
}

type Pointer[T any] struct{ p *T }

func (x *Pointer[T]) Load() *T     { pt(); return x.p }
func (x *Pointer[T]) Store(v *T)   { pt(); x.p = v }
func (x *Pointer[T]) Swap(v *T) *T { pt(); o := x.p; x.p = v; return o }
func (x *Pointer[T]) CompareAndSwap(o, n *T) bool {
	pt()
	if x.p == o {
		x.p = n
		return true
	}
	return false
}
