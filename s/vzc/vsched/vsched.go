// Package vsched — CONFORMANCE flavour.  This implementation of the harness-facing part of the
// vsched API runs the UNREWRITTEN mangos code and the unrewritten harnesses on the real Go
// runtime inside a testing/synctest bubble (go1.26): virtual clock, Quiesce = synctest.Wait.
// It controls no interleavings; it exists to replay the event histories that engine S explored
// on the code exactly as it is in the repository and to compare the observations.
package vsched

import (
	"fmt"
	"runtime"
	"strings"
	"sync"
	"testing"
	"testing/synctest"
	rt "time"
)

type Config struct {
	AtomicPoints bool
	PoolPoints   bool
	EarlyTimers  bool
	MapOrder     bool
	MaxSteps     int
	Horizon      rt.Duration
	Verbose      bool
	Race         bool
	CrandSeed    uint32
	RandFree     bool
}

type Point struct {
	N    int
	Free bool
	Kind byte
}

type Result struct {
	Choices  []uint8
	Points   []Point
	Steps    int
	Hash     uint64
	Failure  string
	FailKind string
	FailSig  string
	Trace    []string
	Obs      string
	Diverged bool
	VTimeEnd rt.Duration
	Threads  int
	Counters map[string]int
	Hung     bool // (never set here: the conformance flavour has no busy-loop watchdog)
}

// T is the test the bubbles run under (set by the conformance test).
var T *testing.T

type state struct {
	mu       sync.Mutex
	prefix   []uint8
	res      *Result
	start    rt.Time
	counters map[string]int
	obs      []string
	failed   bool
	steps    int
	atExit   []func()
}

// AtExit registers a function run after the scenario body (conformance flavour only: the
// controlled scheduler simply kills what is left).
func AtExit(f func()) {
	if s := cur; s != nil {
		s.mu.Lock()
		s.atExit = append(s.atExit, f)
		s.mu.Unlock()
	}
}

var cur *state

// RandFloats mirrors the scheduler flavour (unused here: math/rand is the real one).
var RandFloats = []float64{0, 0.5, 0.999}

type failure struct{ kind, sig, msg string }

func Run(cfg Config, prefix []uint8, body func()) *Result {
	st := &state{prefix: prefix, res: &Result{}, counters: map[string]int{}}
	cur = st
	synctest.Test(T, func(t *testing.T) {
		st.start = rt.Now()
		done := make(chan struct{})
		go func() {
			defer close(done)
			defer func() {
				if r := recover(); r != nil {
					if f, ok := r.(failure); ok {
						st.fail(f.kind, f.sig, f.msg)
					} else {
						st.fail("panic", fmt.Sprintf("panic:%v", r), fmt.Sprintf("panic: %v", r))
					}
				}
			}()
			body()
		}()
		<-done
		// release everything the scenario left open so that the bubble can end
		st.mu.Lock()
		fs := st.atExit
		st.mu.Unlock()
		for i := len(fs) - 1; i >= 0; i-- {
			fs[i]()
		}
		synctest.Wait()
		st.res.VTimeEnd = rt.Since(st.start)
	})
	cur = nil
	r := st.res
	r.Steps = st.steps
	r.Counters = st.counters
	r.Obs = strings.Join(st.obs, "|")
	return r
}

func (s *state) fail(kind, sig, msg string) {
	s.mu.Lock()
	if s.res.Failure == "" {
		s.res.Failure, s.res.FailKind, s.res.FailSig = msg, kind, sig
	}
	s.failed = true
	s.mu.Unlock()
}

func Fail(sig string, format string, a ...any) {
	if cur == nil {
		return
	}
	cur.fail("fail", sig, fmt.Sprintf(format, a...))
	runtime.Goexit()
}

func choose(n int, free bool) int {
	s := cur
	if s == nil || n <= 1 {
		return 0
	}
	s.mu.Lock()
	defer s.mu.Unlock()
	i := len(s.res.Points)
	c := 0
	if i < len(s.prefix) {
		c = int(s.prefix[i])
		if c >= n {
			s.res.Diverged = true
			c = 0
		}
	}
	s.res.Points = append(s.res.Points, Point{N: n, Free: free, Kind: 'f'})
	s.res.Choices = append(s.res.Choices, uint8(c))
	return c
}

func Choose(n int) int     { return choose(n, false) }
func ChooseFree(n int) int { return choose(n, true) }

func Quiesce() {
	if cur != nil {
		cur.mu.Lock()
		cur.steps++
		cur.mu.Unlock()
		synctest.Wait()
	}
}

func Yield() { runtime.Gosched() }

func Now() rt.Duration {
	if cur == nil {
		return 0
	}
	return rt.Since(cur.start)
}

func Count(name string) {
	if s := cur; s != nil {
		s.mu.Lock()
		s.counters[name]++
		s.mu.Unlock()
	}
}

func Observe(o string) {
	if s := cur; s != nil {
		s.mu.Lock()
		s.obs = append(s.obs, o)
		s.mu.Unlock()
	}
}

func Tracef(string, ...any) {}

func Must(string) func() { return func() {} }

// monitors that need the controlled scheduler are inert here
func Parks() int                       { return 0 }
func HeldLocks() int                   { return 0 }
func HeldLockSites() string            { return "" }
func LiveThreads() []string            { return nil }
func PendingTimers() int               { return 0 }
func PendingTimerNames() []string      { return nil }
func NextTimer() (rt.Duration, bool)   { return 0, false }

// Conformance reports whether this is the conformance flavour (unrewritten code under testing/synctest).
const Conformance = true

// Epoch / DefaultEpoch / EpochBeforeIDWrap exist for API compatibility with the scheduler flavour;
// the conformance flavour runs on the synctest clock and does not use them.
var Epoch, DefaultEpoch, EpochBeforeIDWrap rt.Time
