// Package c16 checks property C16 (a hostile or broken peer cannot crash, stall or pollute a
// socket) and the stream-level parts of C01 (every read chunking) and C15 (bytes on the wire),
// on the real transport/conn.go + transport/tcp code running over the in-memory network.
package c16

import (
	"go.nanomsg.org/mangos/v3/protocol/pair"
	"bytes"
	"encoding/binary"
	"fmt"
	"time"

	"go.nanomsg.org/mangos/v3"
	_ "go.nanomsg.org/mangos/v3/transport/tcp"
	_ "go.nanomsg.org/mangos/v3/vh/vipc"
	"go.nanomsg.org/mangos/v3/vh/c06"
	"go.nanomsg.org/mangos/v3/vh/c07"
	"go.nanomsg.org/mangos/v3/vh/c13"
	"go.nanomsg.org/mangos/v3/vh/c19"
	"go.nanomsg.org/mangos/v3/vh/kinds"
	"go.nanomsg.org/mangos/v3/vh/kit"
	"go.nanomsg.org/mangos/v3/vh/ledger"
	"go.nanomsg.org/mangos/v3/vh/vnet"
	"go.nanomsg.org/mangos/v3/vz/vexplore"
	"go.nanomsg.org/mangos/v3/vz/vsched"
)

const addr = "127.0.0.1:4000"

// scheme selects the stream flavour: "tcp" = transport/tcp + conn.go framing, "vipc" = the IPC pipe
// (connipc framing with its leading type byte) over the same in-memory network.
var scheme = "tcp"

func pickScheme() {
	scheme = []string{"tcp", "vipc"}[kit.ChooseFree(2)]
}

func init() {
	// C10 / C13: closing a listener affects only that object - the connections it accepted stay
	// attached (no Detached) and usable (real tcp / IPC pipes and handshaker over the in-memory network)
	for _, prop := range []string{"C10", "C13"} {
		vexplore.Register(prop, func(tier string) []*vexplore.Scenario {
			return []*vexplore.Scenario{{Name: "listener-closed-on-its-own-connections-stay", Mode: "enum", Reset: kit.ResetGlobals, Body: ListenerClosed, NeedCounters: []string{"conversation-went-on-after-listener-close"}}}
		})
	}
}

func init() {
	vexplore.Register("C16", func(tier string) []*vexplore.Scenario {
		b, L := 2, 5
		if tier == "thorough" {
			b, L = 3, 7
		}
		return []*vexplore.Scenario{
			{Name: "handshake-single-byte-deviation", Mode: "enum", Reset: kit.ResetGlobals, Body: hsDeviation, NeedCounters: []string{"rejected", "good-peer-after"}},
			{Name: "refused-handshakes-in-a-row-then-a-good-peer", Mode: "enum", Reset: kit.ResetGlobals, Body: RefusedInARow, NeedCounters: []string{"good-peer-served-promptly-after-three-or-more-refusals"}},
			{Name: "many-stalled-handshakes-then-a-good-peer", Mode: "enum", Reset: kit.ResetGlobals, Body: ManyStalled, NeedCounters: []string{"good-peer-served-beside-a-hundred-or-more-stalled-handshakes"}},
			{Name: "handshake-truncated-or-stalled", Mode: "enum", Reset: kit.ResetGlobals, Body: hsTruncated, NeedCounters: []string{"truncated", "stalled-does-not-delay-others"}},
			{Name: "frame-length-field", Mode: "enum", Reset: kit.ResetGlobals, Body: frameLengths, NeedCounters: []string{"too-long-dropped-at-once", "in-limit-delivered", "negative-dropped", "limit-set-after-listen", "frame-above-the-default-limit-with-the-limit-raised-or-off"}},
			{Name: "frame-truncated-everywhere", Mode: "enum", Reset: kit.ResetGlobals, Body: frameTruncated, NeedCounters: []string{"truncated-nothing-delivered"}},
			{Name: fmt.Sprintf("protocol-bodies-len<=%d", L), Mode: "enum", Reset: kit.ResetGlobals, Body: func() { protoBodies(L) }, NeedCounters: []string{"hostile-dropped", "hostile-delivered-as-reference", "control-still-served"}},
			{Name: "receive-limit-on-listeners-and-dialers", Mode: "enum", Reset: kit.ResetGlobals, Body: c19.MaxRecv, NeedCounters: []string{"limit-enforced", "unrelated-options-in-the-map"}},
			{Name: "replayed-answers", Mode: "enum", Reset: kit.ResetGlobals, Body: replayedAnswers, NeedCounters: []string{"replay-dropped"}},
			{Name: "response-vs-survey-expiry", Mode: "sched", Bound: b, Reset: kit.ResetGlobals, Cfg: vsched.Config{EarlyTimers: true}, Body: c07.SchedExpiry},
			{Name: "response-vs-new-survey", Mode: "sched", Bound: b, Reset: kit.ResetGlobals, Body: c07.SchedNewSurvey},
			{Name: "stalled-handshake-vs-good-peer", Mode: "sched", Bound: b, Reset: kit.ResetGlobals, Body: stalledVsGood},
		}
	})
	vexplore.Register("C01", func(tier string) []*vexplore.Scenario {
		return []*vexplore.Scenario{
			{Name: "stream-chunking-recv", Mode: "enum", Reset: kit.ResetGlobals, Body: func() { chunking(tier == "thorough") }, NeedCounters: []string{"split-inside-length-prefix", "split-inside-payload", "one-byte-reads"}},
			{Name: "stream-send-sizes", Mode: "enum", Reset: kit.ResetGlobals, Body: sendSizes},
			{Name: "stream-recv-sizes", Mode: "enum", Reset: kit.ResetGlobals, Body: recvSizes},
			{Name: "stream-every-length", Mode: "enum", Reset: kit.ResetGlobals, Body: func() { EveryLength(map[bool]int{false: 2200, true: 9000}[tier == "thorough"]) }, NeedCounters: []string{"every-length-written-exact", "every-length-received-exact"}},
			{Name: "stream-long-protocol-headers", Mode: "enum", Reset: kit.ResetGlobals, Body: LongHeaders, NeedCounters: []string{"header-over-32-bytes-written-exact"}},
			{Name: "one-publication-several-sub-contexts-each-exact", Mode: "enum", Reset: kit.ResetGlobals, Body: c06.SharedPublication, NeedCounters: []string{"three-or-more-receivers-each-exact"}},
			{Name: "stream-idle-then-traffic", Mode: "enum", Reset: kit.ResetGlobals, Body: IdleThenTraffic, NeedCounters: []string{"traffic-after-an-idle-period"}},
			{Name: "receive-limit-however-it-was-given", Mode: "enum", Reset: kit.ResetGlobals, Body: c19.MaxRecv, NeedCounters: []string{"limit-enforced", "in-limit-delivered", "limit-lifted"}},
			{Name: "stream-limit-changed-after-listen", Mode: "enum", Reset: kit.ResetGlobals, Body: limitAfterListen, NeedCounters: []string{"delivered-at-new-limit"}},
			{Name: "stream-ends-inside-the-frame-after-a-complete-message", Mode: "enum", Reset: kit.ResetGlobals, Body: truncatedAfterComplete, NeedCounters: []string{"ended-right-after-length-prefix", "ended-inside-payload"}},
			{Name: "stream-full-duplex", Mode: "sched", Bound: map[string]int{"quick": 2, "thorough": 3}[tier], Reset: kit.ResetGlobals, Body: fullDuplex},
			{Name: "stream-frames-arrive-while-a-write-is-stalled", Mode: "enum", Reset: kit.ResetGlobals, Body: duplexStalled, NeedCounters: []string{"stalled-write-exact"}},
			{Name: "stream-write-fails-then-retransmission", Mode: "enum", Reset: kit.ResetGlobals, Body: writeFailsThenRetransmit, NeedCounters: []string{"retransmitted-intact"}},
		}
	})
	vexplore.Register("C15", func(tier string) []*vexplore.Scenario {
		return []*vexplore.Scenario{
			{Name: "sp-header-and-framing-all-protocols", Mode: "enum", Reset: kit.ResetGlobals, Body: wireAllProtocols, NeedCounters: []string{"header-exact", "frame-exact"}},
			{Name: "every-length-framing", Mode: "enum", Reset: kit.ResetGlobals, Body: func() { EveryLength(map[bool]int{false: 2200, true: 9000}[tier == "thorough"]) }, NeedCounters: []string{"every-length-written-exact", "every-length-received-exact"}},
			{Name: "long-protocol-headers-framing", Mode: "enum", Reset: kit.ResetGlobals, Body: LongHeaders, NeedCounters: []string{"header-over-32-bytes-written-exact"}},
			{Name: "stream-ends-inside-a-frame", Mode: "enum", Reset: kit.ResetGlobals, Body: truncatedAfterComplete, NeedCounters: []string{"ended-right-after-length-prefix", "ended-inside-payload"}},
			{Name: "frame-truncated-everywhere", Mode: "enum", Reset: kit.ResetGlobals, Body: frameTruncated, NeedCounters: []string{"truncated-nothing-delivered"}},
			{Name: "full-duplex-framing", Mode: "sched", Bound: map[string]int{"quick": 2, "thorough": 3}[tier], Reset: kit.ResetGlobals, Body: fullDuplex},
			{Name: "frames-arrive-while-a-write-is-stalled", Mode: "enum", Reset: kit.ResetGlobals, Body: duplexStalled, NeedCounters: []string{"stalled-write-exact"}},
			{Name: "conformant-peer-beside-truncated-or-stalled-handshakes", Mode: "enum", Reset: kit.ResetGlobals, Body: hsTruncated, NeedCounters: []string{"stalled-does-not-delay-others"}},
			{Name: "handshake-aborted-then-conformant-peer", Mode: "enum", Reset: kit.ResetGlobals, Body: c13.TCPAborted},
			{Name: "stream-idle-then-traffic", Mode: "enum", Reset: kit.ResetGlobals, Body: IdleThenTraffic, NeedCounters: []string{"traffic-after-an-idle-period"}},
			{Name: "conformant-peers-behind-refused-handshakes", Mode: "enum", Reset: kit.ResetGlobals, Body: RefusedInARow, NeedCounters: []string{"three-good-peers-at-once-behind-a-refusal"}},
			{Name: "two-connections-one-stalled-framing", Mode: "enum", Reset: kit.ResetGlobals, Body: stalledFraming, NeedCounters: []string{"stalled-stream-exact"}},
		}
	})
}

func spHeader(proto uint16) []byte {
	return []byte{0, 'S', 'P', 0, byte(proto >> 8), byte(proto), 0, 0}
}

func frame(payload []byte) []byte {
	b := make([]byte, 8, 9+len(payload))
	binary.BigEndian.PutUint64(b, uint64(len(payload)))
	if scheme == "vipc" {
		b = append([]byte{1}, b...)
	}
	return append(b, payload...)
}

// prefixLen is the size of the framing prefix of the selected stream flavour.
func prefixLen() int {
	if scheme == "vipc" {
		return 9
	}
	return 8
}

type srv struct {
	k        *kinds.Kind
	x        *kinds.Sock
	ep       *net.VEndpoint
	attached int
	detached int
}

func open(k *kinds.Kind, maxrx int) *srv { v, _ := openL(k, maxrx, false); return v }

// openL: with own set, the listener is made with NewListener and returned (so that it can be closed on its own).
func openL(k *kinds.Kind, maxrx int, own bool) (*srv, mangos.Listener) {
	s, err := k.New()
	if err != nil {
		kit.Failf("setup", "NewSocket: %v", err)
	}
	v := &srv{k: k, ep: net.VGet(addr)}
	s.SetPipeEventHook(func(ev mangos.PipeEvent, p mangos.Pipe) {
		switch ev {
		case mangos.PipeEventAttached:
			v.attached++
		case mangos.PipeEventDetached:
			v.detached++
		}
	})
	if maxrx >= 0 {
		if err := s.SetOption(mangos.OptionMaxRecvSize, maxrx); err != nil {
			kit.Failf("setup", "MaxRecvSize: %s", kit.ErrName(err))
		}
	}
	var l mangos.Listener
	if own {
		if l, err = s.NewListener(scheme+"://"+addr, nil); err == nil {
			err = l.Listen()
		}
	} else {
		err = s.Listen(scheme + "://" + addr)
	}
	if err != nil {
		kit.Failf("setup", "Listen(%s over vnet): %s", scheme, kit.ErrName(err))
	}
	v.x = &kinds.Sock{K: k, S: s}
	v.x.Quiet()
	return v, l
}

// IdleThenTraffic: a stream connection (accepted or dialed; tcp or IPC framing) completes its
// handshake and then carries nothing for a while - a second, a minute, an hour of virtual time.
// After the pause a message in each direction still goes through, framed as ever: whatever
// deadlines the transport used around the handshake govern the handshake only.
func IdleThenTraffic() {
	pickScheme()
	role := []string{"listener", "dialer"}[kit.ChooseFree(2)]
	pause := []time.Duration{time.Second, 6 * time.Second, time.Minute, time.Hour}[kit.ChooseFree(4)]
	s, err := pair.NewSocket()
	if err != nil {
		kit.Failf("setup", "NewSocket: %v", err)
	}
	attached := 0
	s.SetPipeEventHook(func(ev mangos.PipeEvent, p mangos.Pipe) {
		if ev == mangos.PipeEventAttached {
			attached++
		}
	})
	ep := net.VGet(addr)
	var h *net.VConn
	if role == "listener" {
		if err := s.Listen(scheme + "://" + addr); err != nil {
			kit.Failf("setup", "Listen: %s", kit.ErrName(err))
		}
		h = ep.Connect()
	} else {
		ep.HarnessListen(true)
		if err := s.DialOptions(scheme+"://"+addr, map[string]interface{}{mangos.OptionDialAsynch: true}); err != nil {
			kit.Failf("setup", "Dial: %s", kit.ErrName(err))
		}
		kit.Quiesce()
		if len(ep.Dialed) == 0 {
			kit.Failf("setup", "no connection was dialed")
		}
		h = ep.Dialed[0]
	}
	h.Feed(spHeader(s.Info().Peer))
	kit.Quiesce()
	if attached != 1 {
		kit.Failf("setup", "%s %s: connection did not attach", scheme, role)
	}
	hs := len(h.Written())
	for round := 0; round < 2; round++ {
		kit.Sleep(pause)
		kit.Quiesce()
		body := fmt.Sprintf("after-%v-round-%d", pause, round)
		sc := kit.Start("Send", func() (interface{}, error) { return nil, kit.SendBytes(s, []byte(body)) })
		kit.Quiesce()
		if !sc.Done() || sc.Err != nil {
			kit.Failf("send-after-idle", "%s %s: Send after %v of silence: done=%v %s", scheme, role, pause, sc.Done(), kit.ErrName(sc.Err))
		}
		w := h.Written()[hs:]
		if !bytes.Equal(w, frame([]byte(body))) {
			kit.Failf("frame-after-idle-missing", "%s %s connection, %v after its handshake: a %d byte message was sent, the peer saw % x (closed by mangos: %v)", scheme, role, pause, len(body), w, h.ClosedByMangos())
		}
		hs = len(h.Written())
		in := "in-" + body
		h.Feed(frame([]byte(in)))
		rc := kit.Start("Recv", func() (interface{}, error) { b, err := kit.Recv(s); return string(b), err })
		kit.Quiesce()
		if !rc.Done() || rc.Err != nil || rc.Val.(string) != in {
			kit.Failf("recv-after-idle", "%s %s: message from the peer after %v of silence: done=%v %s %q", scheme, role, pause, rc.Done(), kit.ErrName(rc.Err), rc.Val)
		}
	}
	kit.Count("traffic-after-an-idle-period")
	kit.Observe("%s %s %v", scheme, role, pause)
	kit.Must("Close", func() { _ = s.Close() })
}

// ListenerClosed: a listener is closed on its own (not its socket) while connections it accepted
// are in use: "closing a listener affects only that object".  The established connections stay
// attached (no Detached event, the stream is not closed) and go on carrying messages; closing the
// socket afterwards closes them.
func ListenerClosed() {
	pickScheme()
	k := kinds.ByName([]string{"pair", "pull", "xsub", "rep"}[kit.ChooseFree(4)])
	npeers := 1
	if k.Name != "pair" {
		npeers = 1 + kit.ChooseFree(2)
	}
	v, l := openL(k, -1, true)
	var hs []*net.VConn
	for i := 0; i < npeers; i++ {
		h := v.goodPeer("before the listener is closed")
		hs = append(hs, h)
	}
	if k.Name != "rep" {
		for _, h := range hs {
			v.exchange(h, "before the listener is closed")
		}
	}
	kit.Must("Listener.Close", func() {
		if err := l.Close(); err != nil {
			kit.Failf("listener-close", "Listener.Close: %s", kit.ErrName(err))
		}
	})
	kit.Quiesce()
	kit.Sleep(time.Second)
	kit.Quiesce()
	for round := 0; round < 2; round++ {
		for i, h := range hs {
			if v.detached != 0 || h.ClosedByMangos() {
				kit.Failf("listener-close-cut-an-established-connection", "%s over %s: the listener was closed on its own; connection %d of %d it had accepted was closed by the library (Detached events: %d)", k.Name, scheme, i, npeers, v.detached)
			}
			if k.Name != "rep" {
				v.exchange(h, fmt.Sprintf("after the listener was closed, round %d", round))
			}
		}
	}
	if k.Name == "rep" {
		// a request arrives on an established connection and is answered on it
		v.x.PrepRecv()
		hs[0].Feed(frame(append([]byte{0x80, 0, 0, 7}, "ask"...)))
		c := kit.Start("Recv", func() (interface{}, error) { return v.x.Recv() })
		kit.Quiesce()
		if !c.Done() || c.Err != nil || c.Val.(string) != "ask" {
			kit.Failf("control-peer-not-served:after the listener was closed", "rep: request on an established connection after the listener was closed: done=%v %s %q", c.Done(), kit.ErrName(c.Err), c.Val)
		}
	}
	kit.Count("conversation-went-on-after-listener-close")
	kit.Observe("%s %s %d", scheme, k.Name, npeers)
	kit.Must("Close", func() { _ = v.x.S.Close() })
	kit.Quiesce()
	for i, h := range hs {
		if !h.ClosedByMangos() {
			kit.Failf("socket-close-left-connection-open", "%s: connection %d still open after the socket was closed", k.Name, i)
		}
	}
}

// goodPeer connects, completes the handshake and checks that it attaches.
func (v *srv) goodPeer(what string) *net.VConn {
	before := v.attached
	h := v.ep.Connect()
	h.Feed(spHeader(v.x.S.Info().Peer))
	kit.Quiesce()
	if v.attached != before+1 {
		// after a failed handshake the accept loop pauses for 10 ms before it accepts again
		kit.Sleep(2 * time.Second)
		kit.Quiesce()
	}
	if v.attached != before+1 {
		kit.Failf("good-peer-not-attached:"+what, "%s: a well-behaved peer did not attach (%s)", v.k.Name, what)
	}
	w := h.Written()
	if !bytes.Equal(w, spHeader(v.x.S.Info().Self)) {
		kit.Failf("sp-header-wrong", "%s: mangos wrote % x as its header, want % x", v.k.Name, w, spHeader(v.x.S.Info().Self))
	}
	return h
}

// exchange: one valid message from the peer must reach the application.
func (v *srv) exchange(h *net.VConn, what string) {
	if !v.k.CanRecv {
		return
	}
	v.x.PrepRecv()
	body := "control:" + what
	var wire []byte
	switch v.k.Wire {
	case "plain":
		wire = []byte(body)
	case "hop":
		wire = append([]byte{0, 0, 0, 0}, body...)
	case "word":
		wire = append([]byte{0x80, 0, 0, 9}, body...)
	default:
		return
	}
	h.Feed(frame(wire))
	c := kit.Start("Recv", func() (interface{}, error) { return v.x.Recv() })
	kit.Quiesce()
	if !c.Done() || c.Err != nil || c.Val.(string) != body {
		kit.Failf("control-peer-not-served:"+what, "%s: message from a well-behaved peer: done=%v %s %q (%s)", v.k.Name, c.Done(), kit.ErrName(c.Err), c.Val, what)
	}
}

func hsDeviation() {
	scheme = "tcp"
	k := kinds.ByName([]string{"pair", "rep", "xsub", "pull"}[kit.ChooseFree(4)])
	pos := kit.ChooseFree(8)
	val := kit.ChooseFree(16)*16 + kit.ChooseFree(16)
	v := open(k, -1)
	hdr := spHeader(v.x.S.Info().Peer)
	if byte(val) == hdr[pos] {
		return
	}
	hdr[pos] = byte(val)
	h := v.ep.Connect()
	h.Feed(hdr)
	kit.Quiesce()
	if v.attached != 0 {
		kit.Failf(fmt.Sprintf("bad-handshake-accepted:byte%d", pos), "%s: peer header % x (byte %d deviates) was accepted", k.Name, hdr, pos)
	}
	if !h.ClosedByMangos() {
		kit.Failf(fmt.Sprintf("bad-handshake-not-closed:byte%d", pos), "%s: connection with bad header % x was left open", k.Name, hdr)
	}
	if h.BytesRead() > 8 {
		kit.Failf("handshake-overread", "mangos read %d bytes of an 8 byte header", h.BytesRead())
	}
	kit.Count("rejected")
	g := v.goodPeer("after a rejected handshake")
	v.exchange(g, "after a rejected handshake")
	kit.Count("good-peer-after")
	kit.Observe("%s pos=%d", k.Name, pos)
	kit.Must("Close", func() { _ = v.x.S.Close() })
}

// RefusedInARow: 1..12 connections in a row whose handshake is refused (wrong protocol number, bad
// first byte, or the peer hangs up half way) - nothing else in between - and then, at once, a
// well-behaved peer.  The accept loop pauses 10 ms after every failed accept, so n refusals at one
// instant may cost the good peer up to n x 10 ms (virtual time) - but no more: the price of a refusal
// does not grow with the number of refusals before it.  Then the good peer is served.
func RefusedInARow() {
	pickScheme()
	k := kinds.ByName([]string{"pull", "rep"}[kit.ChooseFree(2)])
	n := []int{1, 2, 3, 4, 5, 8, 12}[kit.ChooseFree(7)]
	how := kit.ChooseFree(3)
	v := open(k, -1)
	for i := 0; i < n; i++ {
		hdr := spHeader(v.x.S.Info().Peer)
		h := v.ep.Connect()
		switch how {
		case 0:
			hdr[5] ^= 0x11
			h.Feed(hdr)
		case 1:
			hdr[0] = 0xff
			h.Feed(hdr)
		case 2:
			h.Feed(hdr[:3+i%4])
			h.EOF()
		}
		kit.Quiesce()
		if v.attached != 0 {
			kit.Failf("bad-handshake-accepted", "%s: refused handshake number %d was accepted", k.Name, i+1)
		}
	}
	t0 := kit.Now()
	before := v.attached
	g := v.ep.Connect()
	g.Feed(spHeader(v.x.S.Info().Peer))
	kit.Quiesce()
	for v.attached == before && kit.Now()-t0 < 10*time.Second {
		kit.Sleep(10 * time.Millisecond)
		kit.Quiesce()
	}
	if v.attached == before {
		kit.Failf("good-peer-not-attached:after-refusals", "%s over %s: after %d refused handshakes in a row a well-behaved peer was not attached within 10 s", k.Name, scheme, n)
	}
	if d := kit.Now() - t0; d > time.Duration(n+1)*10*time.Millisecond {
		kit.Failf("good-peer-delayed-by-refused-handshakes", "%s over %s: after %d refused handshakes in a row a well-behaved peer had to wait %v to be attached (the pause after one refusal is 10 ms: at most %d ms are accounted for)", k.Name, scheme, n, d, (n+1)*10)
	}
	v.exchange(g, "after refused handshakes in a row")
	if n >= 3 {
		kit.Count("good-peer-served-promptly-after-three-or-more-refusals")
	}
	// one more refusal, and right behind it three well-behaved peers at the same instant (their
	// handshakes finish while the accept loop pauses): each of them is attached and served
	bad := v.ep.Connect()
	bh := spHeader(v.x.S.Info().Peer)
	bh[5] ^= 0x11
	bad.Feed(bh)
	before = v.attached
	var gs []*net.VConn
	for i := 0; i < 3; i++ {
		c := v.ep.Connect()
		c.Feed(spHeader(v.x.S.Info().Peer))
		gs = append(gs, c)
	}
	kit.Quiesce()
	kit.Sleep(time.Second)
	kit.Quiesce()
	if v.attached != before+3 {
		kit.Failf("good-peers-forgotten-after-a-refusal", "%s over %s: three well-behaved peers connected right behind a refused handshake; %d of them were attached", k.Name, scheme, v.attached-before)
	}
	for i, c := range gs {
		v.exchange(c, fmt.Sprintf("peer %d of three behind a refused handshake", i))
	}
	kit.Count("three-good-peers-at-once-behind-a-refusal")
	kit.Observe("%s %s n=%d how=%d", scheme, k.Name, n, how)
	kit.Must("Close", func() { _ = v.x.S.Close() })
}

// ManyStalled: 1..300 peers connect and go silent 0..7 bytes into their header, all at once; then a
// well-behaved peer connects: it is greeted, attached and served at once, however many handshakes
// are pending; afterwards the stalled ones hang up and a further good peer is served.
func ManyStalled() {
	pickScheme()
	k := kinds.ByName([]string{"pull", "rep"}[kit.ChooseFree(2)])
	n := []int{1, 16, 127, 128, 129, 300}[kit.ChooseFree(6)]
	v := open(k, -1)
	hdr := spHeader(v.x.S.Info().Peer)
	var stalled []*net.VConn
	for i := 0; i < n; i++ {
		h := v.ep.Connect()
		h.Feed(hdr[:i%8])
		stalled = append(stalled, h)
		kit.Quiesce() // (one after the other: the scheduler offers at most 250 runnable threads at a point)
	}
	if v.attached != 0 {
		kit.Failf("bad-handshake-accepted", "%s: %d connection(s) with an incomplete header were attached", k.Name, v.attached)
	}
	t0 := kit.Now()
	g := v.goodPeer(fmt.Sprintf("beside %d stalled handshakes", n))
	if d := kit.Now() - t0; d != 0 {
		kit.Failf("good-peer-delayed-by-stalled-handshakes", "%s over %s: with %d handshakes pending a well-behaved peer had to wait %v to be attached", k.Name, scheme, n, d)
	}
	v.exchange(g, "beside stalled handshakes")
	for _, h := range stalled {
		h.EOF()
		kit.Quiesce()
	}
	kit.Sleep(time.Duration(n+2) * 10 * time.Millisecond)
	kit.Quiesce()
	if k.Name != "pair" {
		g2 := v.goodPeer("after the stalled peers hung up")
		v.exchange(g2, "after the stalled peers hung up")
	}
	if n >= 100 {
		kit.Count("good-peer-served-beside-a-hundred-or-more-stalled-handshakes")
	}
	kit.Observe("%s %s n=%d", scheme, k.Name, n)
	kit.Must("Close", func() { _ = v.x.S.Close() })
}

func hsTruncated() {
	pickScheme()
	k := kinds.ByName([]string{"pair", "rep"}[kit.ChooseFree(2)])
	n := kit.ChooseFree(9) // 0..8 bytes of header sent
	end := []string{"eof", "reset", "silence", "garbage-after"}[kit.ChooseFree(4)]
	v := open(k, -1)
	hdr := spHeader(v.x.S.Info().Peer)
	h := v.ep.Connect()
	if end == "garbage-after" {
		if n != 8 {
			return
		}
		h.Feed(hdr)
		if scheme == "vipc" {
			h.Feed([]byte{1})
		}
		h.Feed([]byte{0xff, 0xff, 0xff, 0xff, 0xff, 0xff, 0xff, 0xff, 1, 2, 3})
		kit.Quiesce()
		if !h.ClosedByMangos() {
			kit.Failf("garbage-frame-not-dropped", "%s: a frame with length 0xffffffffffffffff did not close the connection", k.Name)
		}
	} else {
		if n == 8 && end == "silence" {
			return
		}
		h.Feed(hdr[:n])
		switch end {
		case "eof":
			h.EOF()
		case "reset":
			h.Reset()
		}
		kit.Quiesce()
		if n < 8 && v.attached != 0 {
			kit.Failf("truncated-handshake-accepted", "%s: %d header bytes then %s: a pipe attached", k.Name, n, end)
		}
		if n < 8 && end != "silence" && !h.ClosedByMangos() {
			kit.Failf("truncated-handshake-not-closed", "%s: %d header bytes then %s: connection left open", k.Name, n, end)
		}
		kit.Count("truncated")
	}
	// other peers are not delayed, whatever state the first connection is in
	if k.Name == "pair" && v.attached > v.detached {
		kit.Must("Close", func() { _ = v.x.S.Close() })
		return
	}
	g := v.goodPeer(fmt.Sprintf("while another connection sent %d header bytes then %s", n, end))
	v.exchange(g, "beside a broken handshake")
	if end == "silence" {
		kit.Count("stalled-does-not-delay-others")
	}
	kit.Observe("%s %s n=%d %s", scheme, k.Name, n, end)
	kit.Must("Close", func() { _ = v.x.S.Close() })
}

func frameLengths() {
	pickScheme()
	k := kinds.ByName([]string{"pair", "pull", "rep"}[kit.ChooseFree(3)])
	limits := []int{-1, 1, 1024, 0, 3 << 20}
	limit := limits[kit.ChooseFree(len(limits))]
	eff := limit
	if limit == -1 {
		eff = 1024 * 1024
	}
	lens := []int64{-1, -9223372036854775808, 0, 1, int64(eff) - 1, int64(eff), int64(eff) + 1, 1 << 31, 1 << 32, 9223372036854775807}
	const mib = 1 << 20
	if limit == 0 {
		// no limit configured: only sizes that may legitimately be allocated
		lens = []int64{-1, -9223372036854775808, 0, 1, 70000, mib + 1}
	}
	if limit == 3*mib {
		// the limit raised above the default: a frame above the default and within the limit is delivered
		lens = []int64{-1, 1, mib, mib + 1, int64(eff) + 1, 1 << 32}
	}
	ln := lens[kit.ChooseFree(len(lens))]
	bodyMode := []string{"none", "short", "exact"}[kit.ChooseFree(3)]
	if bodyMode == "exact" && (ln < 0 || (ln > 70000 && !(ln <= mib+1 && (limit == 0 || limit == 3*mib)))) {
		return
	}
	if bodyMode == "exact" && ln > mib {
		kit.Count("frame-above-the-default-limit-with-the-limit-raised-or-off")
	}
	if eff == 1024*1024 && bodyMode == "exact" && ln > 4096 {
		bodyMode = "short"
	}
	lg := ledger.Install()
	// the limit is in force for connections made after it was set, whether it was set before the
	// socket started to listen or afterwards (free choice)
	late := limit >= 0 && kit.ChooseFree(2) == 1
	var v *srv
	if late {
		v = open(k, -1)
		if err := v.x.S.SetOption(mangos.OptionMaxRecvSize, limit); err != nil {
			kit.Failf("setup", "MaxRecvSize after Listen: %s", kit.ErrName(err))
		}
		kit.Count("limit-set-after-listen")
	} else {
		v = open(k, limit)
	}
	h := v.goodPeer("hostile")
	ctl := v.goodPeerIfRoom()
	var pre8 [8]byte
	binary.BigEndian.PutUint64(pre8[:], uint64(ln))
	pre := pre8[:]
	if scheme == "vipc" {
		pre = append([]byte{1}, pre...)
	}
	h.Feed(pre)
	var payload []byte
	if ln == 0 {
		bodyMode = "exact" // an empty frame is complete as it stands
	}
	switch bodyMode {
	case "short":
		// strictly fewer bytes than announced
		n := int64(3)
		if ln >= 0 && ln-1 < n {
			n = ln - 1
		}
		if n > 0 {
			payload = make([]byte, n)
		}
	case "exact":
		payload = make([]byte, ln)
		for i := range payload {
			payload[i] = byte(i)
		}
		if k.Wire == "word" && len(payload) >= 4 {
			payload[0] = 0x80
		}
	}
	h.Feed(payload)
	before := h.BytesRead()
	_ = before
	kit.Quiesce()
	tooLong := ln < 0 || (eff > 0 && ln > int64(eff))
	if tooLong {
		if !h.ClosedByMangos() {
			kit.Failf("overlong-frame-not-dropped", "%s limit=%d: frame announcing %d bytes did not close the connection", k.Name, eff, ln)
		}
		if h.BytesRead() != 8+prefixLen() {
			kit.Failf("overlong-frame-read-on", "%s/%s limit=%d: after the length %d mangos read %d further byte(s)", scheme, k.Name, eff, ln, h.BytesRead()-8-prefixLen())
		}
		if int64(lg.MaxAlloc) >= ln && ln > 0 {
			kit.Failf("overlong-frame-allocated", "%s limit=%d: a %d byte message was allocated for a frame announcing %d bytes", k.Name, eff, lg.MaxAlloc, ln)
		}
		if ln < 0 {
			kit.Count("negative-dropped")
		} else {
			kit.Count("too-long-dropped-at-once")
		}
	} else if bodyMode == "exact" && k.CanRecv {
		// a well-formed in-limit frame is delivered (if the pattern's header is satisfied)
		deliverable := k.Wire == "plain" || (k.Wire == "word" && ln >= 4)
		if !deliverable {
			// too short for the pattern's header: must be dropped; the control exchange below
			// would receive it first if it were delivered
			kit.Count("malformed-in-limit-frame")
		}
		v.x.PrepRecv()
		var c *kit.Call
		if deliverable {
			c = kit.Start("Recv", func() (interface{}, error) { return v.x.Recv() })
			kit.Quiesce()
		}
		if deliverable {
			want := payload
			if k.Wire == "word" {
				want = payload[4:]
			}
			if !c.Done() || c.Err != nil || c.Val.(string) != string(want) {
				kit.Failf("in-limit-frame-not-delivered", "%s limit=%d: frame of exactly %d bytes: done=%v %s len=%d", k.Name, eff, ln, c.Done(), kit.ErrName(c.Err), len(fmt.Sprint(c.Val)))
			}
			kit.Count("in-limit-delivered")
		}
	} else if h.ClosedByMangos() {
		kit.Failf("in-limit-frame-dropped", "%s limit=%d: connection closed on a frame announcing %d bytes (body %s)", k.Name, eff, ln, bodyMode)
	}
	if ctl != nil && (eff == 0 || eff >= 64) {
		v.exchange(ctl, fmt.Sprintf("beside a frame announcing %d bytes", ln))
	}
	kit.Observe("%s %s limit=%d len=%d %s", scheme, k.Name, limit, ln, bodyMode)
	kit.Must("Close", func() { _ = v.x.S.Close() })
}

// goodPeerIfRoom attaches a second well-behaved peer unless the pattern takes only one.
func (v *srv) goodPeerIfRoom() *net.VConn {
	if v.k.Name == "pair" || v.k.Name == "pair1" {
		return nil
	}
	return v.goodPeer("control")
}

func frameTruncated() {
	pickScheme()
	k := kinds.ByName([]string{"pull", "rep"}[kit.ChooseFree(2)])
	payload := []byte{0x80, 0, 0, 1, 'h', 'e', 'l', 'l', 'o', '!', '!', '!'}
	f := frame(payload)
	cut := kit.ChooseFree(len(f)) // 0 .. len-1 bytes arrive
	end := kit.ChooseFree(2)
	v := open(k, -1)
	h := v.goodPeer("truncating")
	ctl := v.goodPeer("control")
	h.Feed(f[:cut])
	if end == 0 {
		h.EOF()
	} else {
		h.Reset()
	}
	v.x.PrepRecv()
	c := kit.Start("Recv", func() (interface{}, error) { return v.x.Recv() })
	kit.Quiesce()
	if c.Done() {
		kit.Failf("truncated-frame-delivered", "%s: %d of %d frame bytes arrived and Recv returned %s / %q", k.Name, cut, len(f), kit.ErrName(c.Err), c.Val)
	}
	if !h.ClosedByMangos() {
		kit.Failf("truncated-frame-not-closed", "%s: connection that ended after %d of %d frame bytes was left open", k.Name, cut, len(f))
	}
	kit.Count("truncated-nothing-delivered")
	// the pending Recv is then satisfied by the well-behaved peer
	ctl.Feed(frame(append([]byte{0x80, 0, 0, 2}, "from-control"...)))
	kit.Quiesce()
	want := "from-control"
	if k.Wire == "plain" {
		want = string(append([]byte{0x80, 0, 0, 2}, "from-control"...))
	}
	if !c.Done() || c.Err != nil || c.Val.(string) != want {
		kit.Failf("control-peer-not-served:truncation", "%s: after a truncated frame elsewhere: done=%v %s %q", k.Name, c.Done(), kit.ErrName(c.Err), c.Val)
	}
	kit.Observe("%s %s cut=%d end=%d", scheme, k.Name, cut, end)
	kit.Must("Close", func() { _ = v.x.S.Close() })
}

// truncatedAfterComplete: one connection delivers a complete message and then a second frame of
// which only the first cut bytes arrive before the stream ends (orderly end of stream or reset);
// cut ranges over every position, among them "right after the length prefix".  The application
// gets the first message exactly once and nothing else - in particular not the first message a
// second time out of a reused receive buffer, and no message made of bytes that never arrived.
func truncatedAfterComplete() {
	pickScheme()
	k := kinds.ByName([]string{"pull", "pair", "sub"}[kit.ChooseFree(3)])
	first := []byte("first-message-of-24bytes")
	second := []byte("second-message-of-24byte")
	f := frame(second)
	cut := kit.ChooseFree(len(f))
	end := kit.ChooseFree(2)
	v := open(k, -1)
	h := v.goodPeer("truncating")
	h.Feed(frame(first))
	v.x.PrepRecv()
	got, err := v.x.Recv()
	if err != nil || got != string(first) {
		kit.Failf("setup", "%s: first message: %q %v", k.Name, got, err)
	}
	h.Feed(f[:cut])
	if end == 0 {
		h.EOF()
	} else {
		h.Reset()
	}
	c := kit.Start("Recv", func() (interface{}, error) { return v.x.Recv() })
	kit.Quiesce()
	if c.Done() && c.Err == nil {
		sig := "message-never-sent-delivered"
		if c.Val.(string) == string(first) {
			sig = "message-delivered-twice"
		}
		kit.Failf(sig, "%s/%s: after one complete message, %d of %d bytes of the next frame arrived before the stream ended (%s) and Recv returned %q",
			scheme, k.Name, cut, len(f), []string{"end of stream", "reset"}[end], c.Val)
	}
	if cut == prefixLen() {
		kit.Count("ended-right-after-length-prefix")
	} else if cut > prefixLen() {
		kit.Count("ended-inside-payload")
	}
	kit.Observe("%s %s cut=%d end=%d", scheme, k.Name, cut, end)
	kit.Must("Close", func() { _ = v.x.S.Close() })
	kit.Quiesce()
	if c.Done() && c.Err == nil {
		kit.Failf("message-never-sent-delivered", "%s/%s: Recv returned %q at Close", scheme, k.Name, c.Val)
	}
}

// reference says what the application of kind k may see for an inbound transport message b.
func reference(k *kinds.Kind, b []byte) (string, bool) {
	switch k.Wire {
	case "plain":
		return string(b), true
	case "hop":
		if len(b) < 4 || b[0] != 0 || b[1] != 0 || b[2] != 0 {
			return "", false
		}
		if k.Name == "pair1" || k.Name == "xpair1" {
			if b[3] == 255 || int(b[3]) > 8 {
				return "", false
			}
		} else if int(b[3]) >= 8 {
			return "", false
		}
		return string(b[4:]), true
	case "word":
		if k.Name == "xreq" || k.Name == "xsurveyor" {
			if len(b) < 4 {
				return "", false
			}
			return string(b[4:]), true
		}
		for i := 0; ; i++ {
			if i >= 8 || len(b) < 4*(i+1) {
				return "", false
			}
			if b[4*i]&0x80 != 0 {
				return string(b[4*(i+1):]), true
			}
		}
	}
	return "", false // req / surveyor: nothing with these ids is outstanding
}

var alphabet = []byte{0x00, 0x01, 0x7f, 0x80, 0xff}

func protoBodies(L int) {
	scheme = "tcp"
	var ks []*kinds.Kind
	for _, k := range kinds.All {
		if k.CanRecv {
			ks = append(ks, k)
		}
	}
	k := ks[kit.ChooseFree(len(ks))]
	// the first two bytes are a free choice, the rest is enumerated inside the execution
	p0 := kit.ChooseFree(len(alphabet) + 1)
	p1 := kit.ChooseFree(len(alphabet) + 1)
	var prefix []byte
	if p0 < len(alphabet) {
		prefix = append(prefix, alphabet[p0])
		if p1 < len(alphabet) {
			prefix = append(prefix, alphabet[p1])
		}
	} else if p1 != 0 {
		return
	}
	x := k.Open("c16p", true, false)
	x.Quiet()
	x.PrepRecv()
	var bodies [][]byte
	var gen func(cur []byte)
	gen = func(cur []byte) {
		bodies = append(bodies, append([]byte{}, cur...))
		if len(cur) >= L || len(cur) < len(prefix) {
			return
		}
		for _, a := range alphabet {
			gen(append(cur, a))
		}
	}
	if len(prefix) < 2 {
		bodies = [][]byte{prefix}
	} else {
		gen(prefix)
	}
	for _, b := range bodies {
		want, ok := reference(k, b)
		if k.NeedOut {
			x.PrepRecv() // a fresh request / survey for the control reply
		}
		x.P.Deliver(b)
		x.P.Deliver(controlMsg(k, x))
		kit.Quiesce()
		got := recvAll(x, 3)
		ctl := "control"
		if ok {
			if len(got) != 2 || got[0] != want || got[1] != ctl {
				kit.Failf("hostile-body-handling:"+k.Name, "%s: inbound % x: application saw %q, reference parser says %q then the control message", k.Name, b, got, want)
			}
			kit.Count("hostile-delivered-as-reference")
		} else {
			if len(got) != 1 || got[0] != ctl {
				kit.Failf("hostile-body-handling:"+k.Name, "%s: inbound % x must be dropped; application saw %q (want only the control message)", k.Name, b, got)
			}
			kit.Count("hostile-dropped")
		}
		kit.Count("control-still-served")
	}
	kit.Observe("%s prefix=% x n=%d", k.Name, prefix, len(bodies))
	kit.Must("Close", func() { _ = x.S.Close() })
}

func controlMsg(k *kinds.Kind, x *kinds.Sock) []byte {
	switch k.Wire {
	case "plain":
		return []byte("control")
	case "hop":
		return append([]byte{0, 0, 0, 0}, "control"...)
	case "word":
		return append([]byte{0x80, 0, 0, 1}, "control"...)
	}
	b := x.Wire("control")
	return b
}

func recvAll(x *kinds.Sock, max int) []string {
	var out []string
	for i := 0; i < max; i++ {
		c := kit.Start("Recv", func() (interface{}, error) { return x.Recv() })
		kit.Quiesce()
		if !c.Done() {
			kit.Failf("control-peer-not-served:"+x.K.Name, "%s: a valid message is waiting but Recv blocks (got so far %q)", x.K.Name, out)
		}
		if c.Err != nil {
			return append(out, "error:"+kit.ErrName(c.Err))
		}
		out = append(out, c.Val.(string))
		if c.Val.(string) == "control" {
			return out
		}
	}
	return out
}

func stalledVsGood() {
	scheme = "tcp"
	k := kinds.ByName("rep")
	v := open(k, -1)
	stall := v.ep.Connect()
	stall.Feed(spHeader(v.x.S.Info().Peer)[:5]) // never finishes
	g := v.ep.Connect()
	g.Feed(spHeader(v.x.S.Info().Peer))
	g.Feed(frame(append([]byte{0x80, 0, 0, 7}, "ping"...)))
	c := kit.Start("serve", func() (interface{}, error) {
		b, err := v.x.Recv()
		if err != nil {
			return nil, err
		}
		return b, v.x.Send("pong")
	})
	kit.Quiesce()
	if !c.Done() || c.Err != nil || c.Val.(string) != "ping" {
		kit.Failf("stalled-handshake-delays-others", "a peer that never completes its handshake is connected; the good peer's request: done=%v %s %q", c.Done(), kit.ErrName(c.Err), c.Val)
	}
	w := g.Written()
	want := append(spHeader(v.x.S.Info().Self), frame(append([]byte{0x80, 0, 0, 7}, "pong"...))...)
	if !bytes.Equal(w, want) {
		kit.Failf("reply-bytes", "good peer received % x, want % x", w, want)
	}
	kit.Must("Close", func() { _ = v.x.S.Close() })
	kit.Quiesce()
	kit.Sleep(time.Minute)
	kit.Quiesce()
}

// ---------------------------------------------------------------------------
// C01 (stream part): every chunking of the inbound byte stream

func pat(seed, n int) []byte {
	b := make([]byte, n)
	for i := range b {
		b[i] = byte(seed*31 + i*7 + i/251)
	}
	return b
}

// Chunking is exported for C02 (PAIR / PULL receiving over tcp and IPC framing, stream cut at every position).
func Chunking(thorough bool) { chunking(thorough) }

func chunking(thorough bool) {
	pickScheme()
	k := kinds.ByName([]string{"pull", "pair", "xsub"}[kit.ChooseFree(3)])
	seqs := [][]int{{0}, {1}, {0, 0, 1}, {3, 0, 5}, {9, 1, 0, 2}, {17}, {8, 8}}
	sq := seqs[kit.ChooseFree(len(seqs))]
	var stream []byte
	var msgs [][]byte
	for i, n := range sq {
		m := pat(i+1, n)
		msgs = append(msgs, m)
		stream = append(stream, frame(m)...)
	}
	// policy: 0 = everything at once, 1 = one byte per read, 2.. = one split position
	policy := kit.ChooseFree(2 + len(stream))
	second := 0
	if thorough && policy >= 2 {
		second = kit.ChooseFree(len(stream) + 1)
	}
	v := open(k, -1)
	h := v.goodPeer("chunking")
	base := 8 // the header bytes precede the frames in the stream
	switch {
	case policy == 1:
		h.OneByte(true)
		kit.Count("one-byte-reads")
	case policy >= 2:
		s := policy - 2
		h.SplitAt(base + s)
		if second > 0 {
			h.SplitAt(base + second - 1)
		}
		off := 0
		for _, m := range msgs {
			if s > off && s < off+prefixLen() {
				kit.Count("split-inside-length-prefix")
			}
			if s > off+prefixLen() && s < off+prefixLen()+len(m) {
				kit.Count("split-inside-payload")
			}
			off += prefixLen() + len(m)
		}
	}
	h.Feed(stream)
	v.x.PrepRecv()
	for i, m := range msgs {
		c := kit.Start("Recv", func() (interface{}, error) { return v.x.Recv() })
		kit.Quiesce()
		if !c.Done() || c.Err != nil || c.Val.(string) != string(m) {
			kit.Failf("chunked-message-differs", "%s sizes %v policy %d: message %d: done=%v %s got % x want % x", k.Name, sq, policy, i, c.Done(), kit.ErrName(c.Err), c.Val, m)
		}
	}
	c := kit.Start("RecvExtra", func() (interface{}, error) { return v.x.Recv() })
	kit.Quiesce()
	if c.Done() {
		kit.Failf("chunked-extra-message", "%s sizes %v policy %d: an extra message %q / %s appeared", k.Name, sq, policy, c.Val, kit.ErrName(c.Err))
	}
	if h.Unread() != 0 {
		kit.Failf("chunked-unread", "%d bytes were never read", h.Unread())
	}
	kit.Observe("%s %s %v p=%d/%d", scheme, k.Name, sq, policy, second)
	kit.Must("Close", func() { _ = v.x.S.Close() })
}

var sendSz = []int{0, 1, 2, 7, 8, 9, 63, 64, 65, 127, 128, 129, 255, 256, 257, 511, 512, 513, 1023, 1024, 1025, 4095, 4096, 4097, 8191, 8192, 8193, 65535, 65536, 65537}

// sendSizes: what mangos writes for a sequence of messages is exactly the concatenation of
// 8-byte big-endian lengths and payloads (pool reuse across classes in between).
func sendSizes() {
	pickScheme()
	k := kinds.ByName([]string{"push", "pair", "xpub"}[kit.ChooseFree(3)])
	i := kit.ChooseFree(len(sendSz))
	j := kit.ChooseFree(len(sendSz))
	if i < 20 && j < 20 && (i+j)%3 != 0 {
		return // thin out the small x small pairs
	}
	v := open(k, -1)
	h := v.goodPeer("send")
	var want []byte
	want = append(want, spHeader(v.x.S.Info().Self)...)
	for n, sz := range []int{sendSz[i], sendSz[j], sendSz[i]} {
		m := pat(n+3, sz)
		want = append(want, frame(m)...)
		c := kit.Start("Send", func() (interface{}, error) { return nil, v.x.S.Send(m) })
		kit.Quiesce()
		if !c.Done() || c.Err != nil {
			kit.Failf("stream-send", "Send of %d bytes: done=%v %s", sz, c.Done(), kit.ErrName(c.Err))
		}
	}
	if got := h.Written(); !bytes.Equal(got, want) {
		kit.Failf("stream-bytes-differ", "%s sizes %d,%d,%d: mangos wrote %d bytes, the SP mapping gives %d bytes; first difference at %d", k.Name, sendSz[i], sendSz[j], sendSz[i], len(got), len(want), firstDiff(got, want))
	}
	kit.Observe("%s %s %d %d", scheme, k.Name, sendSz[i], sendSz[j])
	kit.Must("Close", func() { _ = v.x.S.Close() })
}

// EveryLength: one connection over the real stream pipes (tcp and IPC framing); messages of every
// length 0..max, ascending or descending, one after the other.  Sending side (PAIR, PUSH, raw PAIR1
// with its 4 byte header): the bytes written are exactly the SP framing of each message in turn.
// Receiving side (PAIR, PULL): every frame fed is returned by one Recv, byte for byte.
func EveryLength(max int) {
	pickScheme()
	dir := kit.ChooseFree(2)
	desc := kit.ChooseFree(2) == 1
	size := func(i int) int {
		if desc {
			return max - i
		}
		return i
	}
	if dir == 0 {
		k := kinds.ByName([]string{"pair", "push", "xpair1"}[kit.ChooseFree(3)])
		v := open(k, -1)
		h := v.goodPeer("send")
		off := len(spHeader(v.x.S.Info().Self))
		for i := 0; i <= max; i++ {
			sz := size(i)
			body := pat(i, sz)
			m := mangos.NewMessage(sz)
			m.Body = append(m.Body, body...)
			payload := body
			if k.Raw {
				m.Header = append(m.Header, 0, 0, 0, 1)
				payload = append([]byte{0, 0, 0, 1}, body...)
			}
			want := frame(payload)
			c := kit.Start("Send", func() (interface{}, error) { return nil, v.x.S.SendMsg(m) })
			kit.Quiesce()
			if !c.Done() || c.Err != nil {
				kit.Failf("stream-send", "%s over %s: Send of %d bytes: done=%v %s", k.Name, scheme, sz, c.Done(), kit.ErrName(c.Err))
			}
			if got := h.WrittenFrom(off); !bytes.Equal(got, want) {
				kit.Failf("stream-bytes-differ", "%s over %s: for the message of %d bytes (lengths %s from 0 to %d in turn) mangos wrote %d bytes, the SP mapping gives %d; first difference at offset %d of the frame", k.Name, scheme, sz, map[bool]string{false: "ascending", true: "descending"}[desc], max, len(got), len(want), firstDiff(got, want))
			}
			off += len(want)
		}
		kit.Count("every-length-written-exact")
		kit.Observe("send %s %s desc=%v", scheme, k.Name, desc)
		kit.Must("Close", func() { _ = v.x.S.Close() })
		return
	}
	k := kinds.ByName([]string{"pair", "pull"}[kit.ChooseFree(2)])
	v := open(k, -1)
	h := v.goodPeer("recv")
	for i := 0; i <= max; i++ {
		sz := size(i)
		body := pat(i, sz)
		h.Feed(frame(body))
		c := kit.Start("Recv", func() (interface{}, error) { return kit.Recv(v.x.S) })
		kit.Quiesce()
		if !c.Done() || c.Err != nil {
			kit.Failf("stream-recv", "%s over %s: a frame of %d bytes was sent: Recv done=%v %s", k.Name, scheme, sz, c.Done(), kit.ErrName(c.Err))
		}
		if got := c.Val.([]byte); !bytes.Equal(got, body) {
			kit.Failf("stream-received-differs", "%s over %s: the message of %d bytes (lengths %s) was received as %d bytes, first difference at offset %d", k.Name, scheme, sz, map[bool]string{false: "ascending", true: "descending"}[desc], len(got), firstDiff(got, body))
		}
	}
	kit.Count("every-length-received-exact")
	kit.Observe("recv %s %s desc=%v", scheme, k.Name, desc)
	kit.Must("Close", func() { _ = v.x.S.Close() })
}

// LongHeaders: a raw socket sends messages whose protocol header is long (a request that has
// crossed many devices: up to 64 routing words) with bodies of several sizes: the frame written is
// the length of header plus body, the header, the body - whatever the header's length.
func LongHeaders() {
	pickScheme()
	k := kinds.ByName([]string{"xreq", "xrep", "xsurveyor", "xrespondent"}[kit.ChooseFree(4)])
	hls := []int{4, 8, 28, 32, 36, 40, 64, 128, 256}
	bodies := []int{0, 1, 200, 5000}
	v := open(k, -1)
	h := v.goodPeer("send")
	want := append([]byte{}, spHeader(v.x.S.Info().Self)...)
	var pipeID []byte
	if k.NeedReq {
		// raw REP / RESPONDENT route by the leading word: learn the connection's id from a request
		h.Feed(frame([]byte{0x80, 0, 0, 1, 'q'}))
		var m *mangos.Message
		c := kit.Start("Recv", func() (interface{}, error) { var err error; m, err = v.x.S.RecvMsg(); return nil, err })
		kit.Quiesce()
		if !c.Done() || c.Err != nil || len(m.Header) < 8 {
			kit.Failf("setup", "%s: request not received: done=%v %s", k.Name, c.Done(), kit.ErrName(c.Err))
		}
		pipeID = append([]byte{}, m.Header[:4]...)
		m.Free()
	}
	n := 0
	for _, hl := range hls {
		for _, bl := range bodies {
			n++
			hdr := pat(n+40, hl)
			for i := 0; i+4 <= hl; i += 4 {
				hdr[i] &= 0x7f
			}
			hdr[hl-4] |= 0x80
			body := pat(n, bl)
			m := mangos.NewMessage(bl)
			m.Body = append(m.Body, body...)
			m.Header = append(m.Header, pipeID...)
			m.Header = append(m.Header, hdr...)
			want = append(want, frame(append(append([]byte{}, hdr...), body...))...)
			c := kit.Start("Send", func() (interface{}, error) { return nil, v.x.S.SendMsg(m) })
			kit.Quiesce()
			if !c.Done() || c.Err != nil {
				kit.Failf("stream-send", "%s over %s: Send with a %d byte header and a %d byte body: done=%v %s", k.Name, scheme, hl, bl, c.Done(), kit.ErrName(c.Err))
			}
			if got := h.Written(); !bytes.Equal(got, want) {
				kit.Failf("stream-bytes-differ", "%s over %s: message with a %d byte protocol header and a %d byte body: mangos has written %d bytes, the SP mapping gives %d; first difference at offset %d", k.Name, scheme, hl, bl, len(got), len(want), firstDiff(got, want))
			}
			if hl > 32 {
				kit.Count("header-over-32-bytes-written-exact")
			}
		}
	}
	kit.Observe("%s %s", scheme, k.Name)
	kit.Must("Close", func() { _ = v.x.S.Close() })
}

// replayedAnswers: a peer of a REQ / SURVEYOR socket answers request 1 properly and later, while
// request 2 is outstanding, sends the very same frame again (once or twice, and/or the frame of a
// never-used id).  None of that is delivered: Recv keeps waiting until the answer to request 2
// arrives, and returns that.
func replayedAnswers() {
	pickScheme()
	k := kinds.ByName([]string{"req", "surveyor"}[kit.ChooseFree(2)])
	replays := 1 + kit.ChooseFree(2)
	v := open(k, -1)
	v.x.Quiet()
	h := v.goodPeer("replaying")
	round := func(q string) []byte {
		before := len(h.Written())
		c := kit.Start("Send", func() (interface{}, error) { return nil, v.x.S.Send([]byte(q)) })
		kit.Quiesce()
		if !c.Done() || c.Err != nil {
			kit.Failf("setup", "%s: Send done=%v %s", k.Name, c.Done(), kit.ErrName(c.Err))
		}
		w := h.Written()[before:]
		if len(w) < prefixLen()+4 {
			kit.Failf("setup", "%s: request not written", k.Name)
		}
		return append([]byte{}, w[prefixLen():prefixLen()+4]...)
	}
	id1 := round("first")
	f1 := frame(append(append([]byte{}, id1...), "answer-1"...))
	h.Feed(f1)
	r1 := kit.Start("Recv1", func() (interface{}, error) { b, err := v.x.S.Recv(); return string(b), err })
	kit.Quiesce()
	if !r1.Done() || r1.Err != nil || r1.Val.(string) != "answer-1" {
		kit.Failf("setup", "%s: first answer: done=%v %s %q", k.Name, r1.Done(), kit.ErrName(r1.Err), r1.Val)
	}
	id2 := round("second")
	for i := 0; i < replays; i++ {
		h.Feed(f1)
	}
	unused := append([]byte{}, id2...)
	unused[3] += 7
	h.Feed(frame(append(unused, "to-nobody"...)))
	r2 := kit.Start("Recv2", func() (interface{}, error) { b, err := v.x.S.Recv(); return string(b), err })
	kit.Quiesce()
	if r2.Done() {
		kit.Failf("replayed-answer-delivered:"+k.Name, "%s over %s: the peer sent the answer to request 1 again (%dx) while request 2 is outstanding: Recv returned %s / %q", k.Name, scheme, replays, kit.ErrName(r2.Err), r2.Val)
	}
	kit.Count("replay-dropped")
	h.Feed(frame(append(append([]byte{}, id2...), "answer-2"...)))
	kit.Quiesce()
	if !r2.Done() || r2.Err != nil || r2.Val.(string) != "answer-2" {
		kit.Failf("answer-after-replay:"+k.Name, "%s: after the replays the genuine answer arrived: Recv done=%v %s %q", k.Name, r2.Done(), kit.ErrName(r2.Err), r2.Val)
	}
	kit.Observe("%s %s %d", scheme, k.Name, replays)
	kit.Must("Close", func() { _ = v.x.S.Close() })
}

// recvSizes: three frames of sizes next to the buffer-pool classes arrive back to back (the
// buffers of earlier messages are released in between, so pooled buffers are reused across
// classes); each Recv returns exactly the payload of its frame.
func recvSizes() {
	pickScheme()
	k := kinds.ByName([]string{"pull", "pair", "xsub"}[kit.ChooseFree(3)])
	i := kit.ChooseFree(len(sendSz))
	j := kit.ChooseFree(len(sendSz))
	if i < 20 && j < 20 && (i+j)%3 != 0 {
		return // thin out the small x small pairs
	}
	v := open(k, -1)
	h := v.goodPeer("recv-sizes")
	v.x.PrepRecv()
	for n, sz := range []int{sendSz[i], sendSz[j], sendSz[i]} {
		m := pat(n+5, sz)
		h.Feed(frame(m))
		c := kit.Start("Recv", func() (interface{}, error) { return v.x.Recv() })
		kit.Quiesce()
		if !c.Done() || c.Err != nil {
			kit.Failf("stream-recv", "%s: frame of %d bytes (message %d of sizes %d,%d,%d): Recv done=%v %s", k.Name, sz, n, sendSz[i], sendSz[j], sendSz[i], c.Done(), kit.ErrName(c.Err))
		}
		if got := c.Val.(string); got != string(m) {
			kit.Failf("stream-recv-differs", "%s: frame of %d bytes (message %d of sizes %d,%d,%d): Recv returned %d bytes, first difference at %d", k.Name, sz, n, sendSz[i], sendSz[j], sendSz[i], len(got), firstDiff([]byte(got), m))
		}
	}
	if h.Unread() != 0 {
		kit.Failf("chunked-unread", "%d bytes were never read", h.Unread())
	}
	kit.Observe("%s %s %d %d", scheme, k.Name, sendSz[i], sendSz[j])
	kit.Must("Close", func() { _ = v.x.S.Close() })
}

// limitAfterListen: the receive limit is changed (raised above the 1 MiB default, lowered, or lifted)
// on a socket that is already listening; a peer that connects afterwards sends a message whose
// total size is exactly the new limit (or, with the limit lifted, just above the default): it is
// delivered whole, byte for byte.
func limitAfterListen() {
	pickScheme()
	k := kinds.ByName([]string{"pull", "pair"}[kit.ChooseFree(2)])
	limit := []int{2 << 20, 4096, 0}[kit.ChooseFree(3)]
	v := open(k, -1)
	if err := v.x.S.SetOption(mangos.OptionMaxRecvSize, limit); err != nil {
		kit.Failf("setup", "MaxRecvSize after Listen: %s", kit.ErrName(err))
	}
	h := v.goodPeer("sender")
	size := limit
	if limit == 0 {
		size = 1<<20 + 1
	}
	m := pat(3, size)
	h.Feed(frame(m))
	c := kit.Start("Recv", func() (interface{}, error) { return v.x.Recv() })
	kit.Quiesce()
	if !c.Done() || c.Err != nil {
		kit.Failf("at-limit-not-delivered", "%s over %s: the receive limit was set to %d after Listen; a message of %d bytes from a peer that connected afterwards: Recv done=%v %s (connection closed by mangos: %v)", k.Name, scheme, limit, size, c.Done(), kit.ErrName(c.Err), h.ClosedByMangos())
	}
	if got := c.Val.(string); got != string(m) {
		kit.Failf("stream-recv-differs", "%d byte message arrived as %d bytes, first difference at %d", size, len(got), firstDiff([]byte(got), m))
	}
	kit.Count("delivered-at-new-limit")
	kit.Observe("%s %s %d", scheme, k.Name, limit)
	kit.Must("Close", func() { _ = v.x.S.Close() })
}

// writeFailsThenRetransmit: a REQ socket / context sends a request from a buffer the application
// reuses at once; the stream write of that request fails half way (the peer stalls, then resets
// the connection); buffers of the same pool class are allocated and filled by the application
// meanwhile; a second peer connects and the request is transmitted again.  What the second peer
// reads is exactly the frame of the original request: same length, same bytes.
// WriteFailsThenRetransmit is also run under C04 (the retransmission is byte-identical).
func WriteFailsThenRetransmit() { writeFailsThenRetransmit() }

func writeFailsThenRetransmit() {
	pickScheme()
	size := []int{20, 200, 1000, 5000}[kit.ChooseFree(4)]
	onCtx := kit.ChooseFree(2) == 1
	k := kinds.ByName("req")
	v := open(k, -1)
	if err := v.x.S.SetOption(mangos.OptionRetryTime, 100*time.Millisecond); err != nil {
		kit.Failf("setup", "RetryTime: %s", kit.ErrName(err))
	}
	var snd kit.BytesSender = v.x.S
	if onCtx {
		c, err := v.x.S.OpenContext()
		if err != nil {
			kit.Failf("setup", "OpenContext: %s", kit.ErrName(err))
		}
		snd = c
	}
	h1 := v.goodPeer("first")
	h1.StallWrites(true)
	body := pat(9, size)
	sc := kit.Start("Send", func() (interface{}, error) { return nil, kit.SendBytes(snd, body) })
	kit.Quiesce()
	if !sc.Done() || sc.Err != nil {
		kit.Failf("stream-send", "REQ Send of %d bytes to a connected peer: done=%v %s", size, sc.Done(), kit.ErrName(sc.Err))
	}
	h1.Reset() // the write in progress fails
	kit.Quiesce()
	// the application goes on allocating and filling messages of the same size class
	var keep []*mangos.Message
	for i := 0; i < 4; i++ {
		m := mangos.NewMessage(size + 4)
		for j := 0; j < size+4; j++ {
			m.Body = append(m.Body, 0xee)
		}
		keep = append(keep, m)
	}
	h2 := v.ep.Connect()
	h2.Feed(spHeader(v.x.S.Info().Peer))
	kit.Quiesce()
	kit.Sleep(2 * time.Second) // (the accept loop pauses briefly after the failed connection)
	kit.Quiesce()
	if len(h2.Written()) < 8 {
		kit.Failf("good-peer-not-attached:second", "a well-behaved second peer did not get the SP header")
	}
	kit.Sleep(150 * time.Millisecond)
	kit.Quiesce()
	got := h2.Written()[8:] // after the SP header
	n := prefixLen() + 4 + size
	if len(got) < n {
		kit.Failf("request-not-retransmitted", "%s: the write of a %d byte request failed, a second peer connected: it was sent %d bytes, a whole frame has %d", scheme, size, len(got), n)
	}
	for off := 0; off+n <= len(got); off += n {
		f := got[off : off+n]
		want := frame(append(append([]byte{}, f[prefixLen():prefixLen()+4]...), body...))
		if !bytes.Equal(f, want) {
			kit.Failf("retransmission-differs", "%s, %d byte request, context=%v: transmission %d after the failed write differs from the request at offset %d of the frame", scheme, size, onCtx, off/n, firstDiff(f, want))
		}
	}
	if len(got)%n != 0 {
		kit.Failf("retransmission-differs", "%s: %d bytes written to the second peer, not a whole number of %d byte frames", scheme, len(got), n)
	}
	for _, m := range keep {
		for _, c := range m.Body {
			if c != 0xee {
				kit.Failf("application-message-overwritten", "a message the application allocated and still owns was overwritten")
			}
		}
		m.Free()
	}
	kit.Count("retransmitted-intact")
	kit.Observe("%s %d ctx=%v frames=%d", scheme, size, onCtx, len(got)/n)
	kit.Must("Close", func() { _ = v.x.S.Close() })
}

// stalledFraming: a PUB socket has two stream connections; the first peer stops reading for a while
// (its writes stall with a frame half way out) while further messages of other sizes go to the
// second peer.  When the first peer reads again, what it gets is exactly the sequence of frames of
// the messages that were queued for it - nothing a later Send did may have changed a frame that
// was still waiting to be written.
func stalledFraming() {
	pickScheme()
	sizes := [][]int{{100, 300, 7}, {5, 70000, 64}, {0, 1, 2}}[kit.ChooseFree(3)]
	k := kinds.ByName("pub")
	v := open(k, -1)
	_ = v.x.S.SetOption(mangos.OptionWriteQLen, 8)
	h1 := v.goodPeer("slow")
	h2 := v.goodPeer("quick")
	h1.StallWrites(true)
	var want []byte
	for i, n := range sizes {
		m := pat(i+11, n)
		want = append(want, frame(m)...)
		c := kit.Start("Send", func() (interface{}, error) { return nil, kit.SendBytes(v.x.S, m) })
		kit.Quiesce()
		if !c.Done() || c.Err != nil {
			kit.Failf("stream-send", "PUB Send of %d bytes with one slow subscriber: done=%v %s", n, c.Done(), kit.ErrName(c.Err))
		}
	}
	if got := h2.Written()[8:]; !bytes.Equal(got, want) {
		kit.Failf("stream-bytes-differ", "%s: the quick subscriber read %d bytes, the frames of sizes %v are %d bytes; first difference at %d", scheme, len(got), sizes, len(want), firstDiff(got, want))
	}
	h1.StallWrites(false)
	kit.Quiesce()
	if got := h1.Written()[8:]; !bytes.Equal(got, want) {
		kit.Failf("stalled-stream-differs", "%s: the subscriber whose writes had stalled read %d bytes, the frames of sizes %v are %d bytes; first difference at %d (a frame that was waiting to be written was changed by a later Send)", scheme, len(got), sizes, len(want), firstDiff(got, want))
	}
	kit.Count("stalled-stream-exact")
	kit.Observe("%s %v", scheme, sizes)
	kit.Must("Close", func() { _ = v.x.S.Close() })
}

// fullDuplex: traffic in both directions on one connection at the same time.  The application
// sends two messages while two frames arrive from the peer; every interleaving of the
// connection's reader and writer is explored.  The bytes mangos writes are exactly the two frames,
// and the application receives exactly the two payloads - neither direction disturbs the other.
func fullDuplex() {
	pickScheme()
	k := kinds.ByName("pair")
	v := open(k, -1)
	h := v.goodPeer("duplex")
	hl := len(h.Written())
	outs := [][]byte{pat(21, 5), pat(22, 300)}
	ins := [][]byte{pat(23, 110), pat(24, 7)}
	sc := kit.Start("Sender", func() (interface{}, error) {
		for _, o := range outs {
			if err := kit.SendBytes(v.x.S, o); err != nil {
				return nil, err
			}
		}
		return nil, nil
	})
	var got [][]byte
	rc := kit.Start("Receiver", func() (interface{}, error) {
		for range ins {
			b, err := kit.Recv(v.x.S)
			if err != nil {
				return nil, err
			}
			got = append(got, b)
		}
		return nil, nil
	})
	for _, in := range ins {
		h.Feed(frame(in))
	}
	kit.Quiesce()
	if !sc.Done() || sc.Err != nil || !rc.Done() || rc.Err != nil {
		kit.Failf("duplex-stuck", "%s: sender done=%v %s, receiver done=%v %s (received %d of %d)", scheme, sc.Done(), kit.ErrName(sc.Err), rc.Done(), kit.ErrName(rc.Err), len(got), len(ins))
	}
	want := append(frame(outs[0]), frame(outs[1])...)
	if w := h.Written()[hl:]; !bytes.Equal(w, want) {
		kit.Failf("duplex-bytes-written-differ", "%s: with frames arriving at the same time, mangos wrote %d bytes for two messages of %d and %d bytes; first difference from the two frames at byte %d (% x ...)", scheme, len(w), len(outs[0]), len(outs[1]), firstDiff(w, want), clip(w, 12))
	}
	for i := range ins {
		if !bytes.Equal(got[i], ins[i]) {
			kit.Failf("duplex-received-differs", "%s: with messages being written at the same time, message %d was received as %d bytes (% x ...), sent as %d bytes", scheme, i, len(got[i]), clip(got[i], 12), len(ins[i]))
		}
	}
	kit.Observe("%s ok", scheme)
	kit.Must("Close", func() { _ = v.x.S.Close() })
}

// duplexStalled: the peer does not read for a while, so a write of mangos is stuck in the
// transport (the bytes are taken when the peer reads again); meanwhile frames of other sizes arrive
// on the same connection and are received.  What the peer finally reads is exactly the frames of
// the messages sent, and what was received is exactly what the peer sent.
func duplexStalled() {
	pickScheme()
	k := kinds.ByName([]string{"pair", "bus"}[kit.ChooseFree(2)])
	nin := 1 + kit.ChooseFree(3)
	v := open(k, -1)
	h := v.goodPeer("duplex")
	hl := len(h.Written())
	h.StallWrites(true)
	outs := [][]byte{pat(31, 5), pat(32, 70)}
	var want []byte
	for _, o := range outs {
		want = append(want, frame(o)...)
		c := kit.Start("Send", func() (interface{}, error) { return nil, kit.SendBytes(v.x.S, o) })
		kit.Quiesce()
		if !c.Done() || c.Err != nil {
			kit.Failf("stream-send", "%s: Send of %d bytes while the peer is not reading: done=%v %s", k.Name, len(o), c.Done(), kit.ErrName(c.Err))
		}
	}
	for i := 0; i < nin; i++ {
		in := pat(40+i, 110+i*200)
		h.Feed(frame(in))
		c := kit.Start("Recv", func() (interface{}, error) { return kit.Recv(v.x.S) })
		kit.Quiesce()
		if !c.Done() || c.Err != nil || !bytes.Equal(c.Val.([]byte), in) {
			kit.Failf("duplex-received-differs", "%s/%s: a frame of %d bytes arrived while a write was stuck: Recv done=%v %s", scheme, k.Name, len(in), c.Done(), kit.ErrName(c.Err))
		}
	}
	h.StallWrites(false)
	kit.Quiesce()
	if w := h.Written()[hl:]; !bytes.Equal(w, want) {
		kit.Failf("duplex-bytes-written-differ", "%s/%s: a write was stuck while %d frame(s) arrived; afterwards the peer read %d bytes for two messages of %d and %d bytes, first difference from the two frames at byte %d (% x ...)", scheme, k.Name, nin, len(w), len(outs[0]), len(outs[1]), firstDiff(w, want), clip(w, 12))
	}
	kit.Count("stalled-write-exact")
	kit.Observe("%s %s %d", scheme, k.Name, nin)
	kit.Must("Close", func() { _ = v.x.S.Close() })
}

func clip(b []byte, n int) []byte {
	if len(b) > n {
		return b[:n]
	}
	return b
}

func firstDiff(a, b []byte) int {
	for i := 0; i < len(a) && i < len(b); i++ {
		if a[i] != b[i] {
			return i
		}
	}
	if len(a) < len(b) {
		return len(a)
	}
	return len(b)
}

// ---------------------------------------------------------------------------
// C15 (stream part): header and framing for every socket type, both roles

func wireAllProtocols() {
	scheme = "tcp"
	k := kinds.All[kit.ChooseFree(len(kinds.All))]
	role := kit.ChooseFree(2)
	s, err := k.New()
	if err != nil {
		kit.Failf("setup", "NewSocket: %v", err)
	}
	x := &kinds.Sock{K: k, S: s}
	x.Quiet()
	ep := net.VGet(addr)
	var h *net.VConn
	if role == 0 {
		if err := s.Listen("tcp://" + addr); err != nil {
			kit.Failf("setup", "Listen: %s", kit.ErrName(err))
		}
		h = ep.Connect()
		h.Feed(spHeader(s.Info().Peer))
	} else {
		ep.HarnessListen(true)
		dc := kit.Start("Dial", func() (interface{}, error) { return nil, s.Dial("tcp://" + addr) })
		kit.Quiesce()
		if len(ep.Dialed) != 1 {
			kit.Failf("dial-no-connection", "%s: Dial made %d connections", k.Name, len(ep.Dialed))
		}
		h = ep.Dialed[0]
		h.Feed(spHeader(s.Info().Peer))
		kit.Quiesce()
		if !dc.Done() || dc.Err != nil {
			kit.Failf("dial-handshake", "%s: Dial done=%v %s after a valid peer header", k.Name, dc.Done(), kit.ErrName(dc.Err))
		}
	}
	kit.Quiesce()
	if got := h.Written(); !bytes.Equal(got, spHeader(s.Info().Self)) {
		kit.Failf("sp-header-wrong", "%s (role %d): first bytes on the wire % x, want % x", k.Name, role, got, spHeader(s.Info().Self))
	}
	kit.Count("header-exact")
	x.P = nil
	if k.CanSend && !k.NeedReq {
		m := x.Msg("payload-bytes")
		hdr := append([]byte{}, m.Header...)
		c := kit.Start("SendMsg", func() (interface{}, error) { return nil, s.SendMsg(m) })
		kit.Quiesce()
		if !c.Done() || c.Err != nil {
			kit.Failf("wire-send", "%s: SendMsg done=%v %s", k.Name, c.Done(), kit.ErrName(c.Err))
		}
		got := h.Written()[8:]
		if len(got) < 8 {
			kit.Failf("frame-missing", "%s: nothing framed on the wire after Send", k.Name)
		}
		n := binary.BigEndian.Uint64(got)
		pay := got[8:]
		if int(n) != len(pay) {
			kit.Failf("frame-length-field", "%s: length field says %d, %d bytes follow", k.Name, n, len(pay))
		}
		// cooked sockets add their own header; the body must be the tail, a raw header the front
		if !bytes.HasSuffix(pay, []byte("payload-bytes")) || (k.Raw && !bytes.HasPrefix(pay, hdr) && k.Name != "xbus") {
			kit.Failf("frame-payload", "%s: frame payload % x does not consist of header % x then the body", k.Name, pay, hdr)
		}
		kit.Count("frame-exact")
	}
	kit.Observe("%s role=%d", k.Name, role)
	kit.Must("Close", func() { _ = s.Close() })
}

// Bodies re-run by C11 under the race-instrumented build.
var RaceBodies = map[string]func(){
	"c16-stalled-handshake-vs-good-peer": stalledVsGood,
}
