// Package mpeer provides a "manual peer": a real mangos socket (real core, real transports) whose
// protocol does nothing by itself.  Connections are recorded; the harness reads from and writes to
// each connection explicitly.  Over inproc (or the stream pipes) this gives the harness the same
// control over a peer's consumption that vt's Hold/Take gives it on the virtual transport: a peer
// that does not read makes the other side's per-connection sender block inside the real
// transport's Send.
package mpeer

import (
	"sync"

	"go.nanomsg.org/mangos/v3"
	"go.nanomsg.org/mangos/v3/protocol"
)

type proto struct {
	mu    sync.Mutex
	info  protocol.Info
	pipes []protocol.Pipe
	gone  map[protocol.Pipe]bool
}

func (p *proto) Info() protocol.Info { return p.info }

func (p *proto) AddPipe(pp protocol.Pipe) error {
	p.mu.Lock()
	p.pipes = append(p.pipes, pp)
	p.mu.Unlock()
	return nil
}

func (p *proto) RemovePipe(pp protocol.Pipe) {
	p.mu.Lock()
	p.gone[pp] = true
	p.mu.Unlock()
}

func (p *proto) OpenContext() (protocol.Context, error)        { return nil, protocol.ErrProtoOp }
func (p *proto) Close() error                                   { return nil }
func (p *proto) SendMsg(*protocol.Message) error                { return protocol.ErrProtoOp }
func (p *proto) RecvMsg() (*protocol.Message, error)            { return nil, protocol.ErrProtoOp }
func (p *proto) SetOption(string, interface{}) error            { return protocol.ErrBadOption }
func (p *proto) GetOption(string) (interface{}, error)          { return nil, protocol.ErrBadOption }

// Peer is the socket and its recorded connections.
type Peer struct {
	S mangos.Socket
	p *proto
}

// New makes a manual peer that presents itself as protocol self (named selfName) talking to peer.
func New(self, peer uint16, selfName, peerName string) *Peer {
	p := &proto{info: protocol.Info{Self: self, Peer: peer, SelfName: selfName, PeerName: peerName}, gone: map[protocol.Pipe]bool{}}
	return &Peer{S: protocol.MakeSocket(p), p: p}
}

// Sub, Rep, Respondent, Pull: manual peers for the fan-out / request patterns.
func Sub() *Peer        { return New(protocol.ProtoSub, protocol.ProtoPub, "sub", "pub") }
func Rep() *Peer        { return New(protocol.ProtoRep, protocol.ProtoReq, "rep", "req") }
func Respondent() *Peer { return New(protocol.ProtoRespondent, protocol.ProtoSurveyor, "respondent", "surveyor") }
func Pull() *Peer       { return New(protocol.ProtoPull, protocol.ProtoPush, "pull", "push") }
func Req() *Peer        { return New(protocol.ProtoReq, protocol.ProtoRep, "req", "rep") }
func Surveyor() *Peer   { return New(protocol.ProtoSurveyor, protocol.ProtoRespondent, "surveyor", "respondent") }
func Bus() *Peer        { return New(protocol.ProtoBus, protocol.ProtoBus, "bus", "bus") }

// NumPipes is the number of connections made so far (gone ones included).
func (x *Peer) NumPipes() int {
	x.p.mu.Lock()
	defer x.p.mu.Unlock()
	return len(x.p.pipes)
}

// Gone reports whether connection i has been removed.
func (x *Peer) Gone(i int) bool {
	x.p.mu.Lock()
	defer x.p.mu.Unlock()
	return x.p.gone[x.p.pipes[i]]
}

func (x *Peer) pipe(i int) protocol.Pipe {
	x.p.mu.Lock()
	defer x.p.mu.Unlock()
	return x.p.pipes[i]
}

// Take reads one message from connection i (blocking: call it from a started thread) and returns
// copies of its header and body; the message is overwritten and released.
func (x *Peer) Take(i int) (hdr, body []byte, err error) {
	m := x.pipe(i).RecvMsg()
	if m == nil {
		return nil, nil, protocol.ErrClosed
	}
	hdr = append([]byte{}, m.Header...)
	body = append([]byte{}, m.Body...)
	for j := range m.Body {
		m.Body[j] = 0xEE
	}
	for j := range m.Header {
		m.Header[j] = 0xEE
	}
	m.Free()
	return hdr, body, nil
}

// Put writes one message to connection i (blocking).
func (x *Peer) Put(i int, hdr, body []byte) error {
	m := mangos.NewMessage(len(body))
	m.Header = append(m.Header, hdr...)
	m.Body = append(m.Body, body...)
	if err := x.pipe(i).SendMsg(m); err != nil {
		m.Free()
		return err
	}
	return nil
}

// ClosePipe closes connection i from this side.
func (x *Peer) ClosePipe(i int) { _ = x.pipe(i).Close() }
