// Package c05 checks property C05: REP/RESPONDENT replies go back along the path of their request.
package c05

import (
	"bytes"
	"encoding/binary"
	"fmt"
	"time"

	"go.nanomsg.org/mangos/v3"
	"go.nanomsg.org/mangos/v3/protocol/rep"
	"go.nanomsg.org/mangos/v3/protocol/respondent"
	"go.nanomsg.org/mangos/v3/protocol/xrep"
	"go.nanomsg.org/mangos/v3/protocol/xrespondent"
	"go.nanomsg.org/mangos/v3/vh/kit"
	"go.nanomsg.org/mangos/v3/vh/vt"
	"go.nanomsg.org/mangos/v3/vz/vexplore"
)

type ctor func() (mangos.Socket, error)

func init() {
	// C09: what a device does with a reply it could not pass on - send it again - works: a raw reply
	// handed back by a Send that timed out still has its routing header, the second attempt reaches
	// the asker (and nobody else)
	vexplore.Register("C09", func(tier string) []*vexplore.Scenario {
		var out []*vexplore.Scenario
		for _, k := range []struct {
			n string
			c ctor
		}{{"xrep", xrep.NewSocket}, {"xrespondent", xrespondent.NewSocket}} {
			k := k
			out = append(out, &vexplore.Scenario{Name: k.n + "-reply-retried-after-timeout", Mode: "enum", Reset: kit.ResetGlobals,
				Body: func() { rawRetry(k.n, k.c) }, NeedCounters: []string{"raw-timeout-then-retry-routed"}})
			out = append(out, &vexplore.Scenario{Name: k.n + "-long-routing-headers", Mode: "enum", Reset: kit.ResetGlobals,
				Body: func() { longRouting(k.n, k.c) }, NeedCounters: []string{"reply-with-nine-or-more-routing-words-exact"}})
		}
		return out
	})
}

func init() {
	vexplore.Register("C05", func(tier string) []*vexplore.Scenario {
		d, dr, b := 5, 5, 2
		if tier == "thorough" {
			d, dr, b = 6, 7, 3
		}
		var out []*vexplore.Scenario
		for _, k := range []struct {
			n string
			c ctor
		}{{"rep", rep.NewSocket}, {"respondent", respondent.NewSocket}} {
			k := k
			out = append(out, &vexplore.Scenario{Name: fmt.Sprintf("%s-hist-D%d", k.n, d), Mode: "hist", Reset: kit.ResetGlobals,
				Body:         func() { hist(k.c, d) },
				NeedCounters: []string{"reply-routed", "reply-to-gone-pipe", "send-protostate", "malformed-dropped", "ctx-own-request", "context-opened-mid-history"}})
			out = append(out, &vexplore.Scenario{Name: k.n + "-sched-two-ctx", Mode: "sched", Bound: b, Reset: kit.ResetGlobals,
				Body: func() { schedTwoCtx(k.c) }})
			out = append(out, &vexplore.Scenario{Name: k.n + "-queue-resized-with-requests-waiting", Mode: "enum", Reset: kit.ResetGlobals,
				Body: func() { resizeWithWaiting(k.n, k.c) }, NeedCounters: []string{"answered-after-resize"}})
			out = append(out, &vexplore.Scenario{Name: k.n + "-recv-times-out-between-request-and-reply", Mode: "enum", Reset: kit.ResetGlobals,
				Body: func() { recvTimesOutBetween(k.n, k.c) }, NeedCounters: []string{"reply-after-timed-out-recv-routed-or-refused", "next-request-answered"}})
			out = append(out, &vexplore.Scenario{Name: k.n + "-reply-message-arrives-with-a-header-of-its-own", Mode: "enum", Reset: kit.ResetGlobals,
				Body: func() { replyWithHeader(k.n, k.c) }, NeedCounters: []string{"own-header-replaced-by-the-routing-header"}})
			out = append(out, &vexplore.Scenario{Name: k.n + "-shared-reply-two-contexts", Mode: "sched", Bound: b, Reset: kit.ResetGlobals,
				Body: func() { schedSharedReply(k.n, k.c) }})
		}
		for _, k := range []struct {
			n string
			c ctor
		}{{"rep", rep.NewSocket}, {"respondent", respondent.NewSocket}, {"xrep", xrep.NewSocket}, {"xrespondent", xrespondent.NewSocket}} {
			k := k
			out = append(out, &vexplore.Scenario{Name: k.n + "-long-routing-headers", Mode: "enum", Reset: kit.ResetGlobals,
				Body: func() { longRouting(k.n, k.c) }, NeedCounters: []string{"reply-with-nine-or-more-routing-words-exact"}})
		}
		for _, k := range []struct {
			n string
			c ctor
		}{{"xrep", xrep.NewSocket}, {"xrespondent", xrespondent.NewSocket}} {
			k := k
			out = append(out, &vexplore.Scenario{Name: fmt.Sprintf("%s-hist-D%d", k.n, dr), Mode: "hist", Reset: kit.ResetGlobals,
				Body:         func() { rawHist(k.c, dr) },
				NeedCounters: []string{"raw-recv-header", "raw-reply-routed", "raw-unknown-pipe-dropped", "raw-newcomer"}})
			out = append(out, &vexplore.Scenario{Name: k.n + "-reply-retried-after-timeout", Mode: "enum", Reset: kit.ResetGlobals,
				Body: func() { rawRetry(k.n, k.c) }, NeedCounters: []string{"raw-timeout-then-retry-routed"}})
		}
		return out
	})
}

type request struct {
	pipe      int
	backtrace []byte
	body      string
	optional  bool // its pipe was dropped while it was queued: may or may not be delivered
}

type mctx struct {
	name    string
	c       mangos.Context
	s       mangos.Socket
	pending *request
	recv    *kit.Call
	closed  bool
}

func (m *mctx) send(b []byte) error {
	if m.c != nil {
		return kit.SendBytes(m.c, b)
	}
	return kit.SendBytes(m.s, b)
}

func (m *mctx) recvCall() ([]byte, error) {
	if m.c != nil {
		return kit.Recv(m.c)
	}
	return kit.Recv(m.s)
}

type world struct {
	sock    mangos.Socket
	ep      *vt.Endpoint
	pipes   []*vt.Pipe
	seen    []int
	queue   [][]*request // per pipe, delivered and not yet received
	ctxs    []*mctx
	seq     uint32
	nreply  int
	lateCtx bool
}

func setup(c ctor, nctx int) *world {
	w := &world{}
	s, err := c()
	if err != nil {
		kit.Failf("setup", "NewSocket: %v", err)
	}
	w.sock = s
	w.ep = vt.Get("srv")
	if err := s.Listen("vt://srv"); err != nil {
		kit.Failf("setup", "Listen: %v", err)
	}
	for i := 0; i < 2; i++ {
		w.pipes = append(w.pipes, w.ep.Connect())
		w.seen = append(w.seen, 0)
		w.queue = append(w.queue, nil)
		kit.Quiesce()
	}
	w.ctxs = append(w.ctxs, &mctx{name: "sock", s: s})
	for i := 1; i < nctx; i++ {
		cx, err := s.OpenContext()
		if err != nil {
			kit.Failf("setup", "OpenContext: %v", err)
		}
		w.ctxs = append(w.ctxs, &mctx{name: fmt.Sprintf("ctx%d", i), c: cx, s: s})
	}
	return w
}

type wireMsg struct {
	vt.Sent
	pipe int
}

func (w *world) newWire() []wireMsg {
	var out []wireMsg
	for i, p := range w.pipes {
		l := p.SentLog()
		for _, s := range l[w.seen[i]:] {
			out = append(out, wireMsg{s, i})
		}
		w.seen[i] = len(l)
	}
	return out
}

// mkRequest builds a well-formed request with k routing words.
func (w *world) mkRequest(pipe, k int) (*request, []byte) {
	w.seq++
	var bt []byte
	words := []uint32{0x7fffffff, 0x00000000, 0x00000001}
	for i := 0; i < k; i++ {
		var b [4]byte
		binary.BigEndian.PutUint32(b[:], words[(int(w.seq)+i)%3])
		bt = append(bt, b[:]...)
	}
	id := 0x80000000 | w.seq
	if w.seq%3 == 0 {
		id = 0xffffff00 | w.seq
	}
	var b [4]byte
	binary.BigEndian.PutUint32(b[:], id)
	bt = append(bt, b[:]...)
	body := fmt.Sprintf("req%d@p%d", w.seq, pipe)
	return &request{pipe: pipe, backtrace: bt, body: body}, append(append([]byte{}, bt...), body...)
}

func (w *world) events() []kit.Event {
	var evs []kit.Event
	for pi, p := range w.pipes {
		pi := pi
		if !p.Alive() {
			continue
		}
		for _, k := range []int{0, 2} {
			k := k
			evs = append(evs, kit.Event{Name: fmt.Sprintf("arrive:p%d:k%d", pi, k), Run: func() {
				r, data := w.mkRequest(pi, k)
				w.queue[pi] = append(w.queue[pi], r)
				w.pipes[pi].Deliver(data)
			}})
		}
		evs = append(evs, kit.Event{Name: fmt.Sprintf("drop:p%d", pi), Run: func() {
			w.pipes[pi].DropNow()
			for _, r := range w.queue[pi] {
				r.optional = true
			}
		}})
	}
	if w.pipes[0].Alive() {
		evs = append(evs, kit.Event{Name: "malformed-short:p0", Run: func() { w.pipes[0].Deliver([]byte{0x80, 0x01}); kit.Count("malformed-dropped") }})
	}
	if w.pipes[1].Alive() {
		evs = append(evs, kit.Event{Name: "malformed-noid:p1", Run: func() {
			w.pipes[1].Deliver([]byte{0x00, 0x00, 0x00, 0x01, 0x7f, 0xff, 0xff, 0xff, 'x', 'y'})
			kit.Count("malformed-dropped")
		}})
	}
	if w.lateCtx && len(w.ctxs) < 2 {
		evs = append(evs, kit.Event{Name: "open-context", Run: func() {
			cx, err := w.sock.OpenContext()
			if err != nil {
				kit.Failf("open-context", "OpenContext: %s", kit.ErrName(err))
			}
			w.ctxs = append(w.ctxs, &mctx{name: fmt.Sprintf("ctx%d", len(w.ctxs)), c: cx, s: w.sock})
			kit.Count("context-opened-mid-history")
		}})
	}
	for _, m := range w.ctxs {
		m := m
		if m.recv == nil {
			evs = append(evs, kit.Event{Name: "recv:" + m.name, Run: func() { w.doRecv(m) }})
		}
		evs = append(evs, kit.Event{Name: "send:" + m.name, Run: func() { w.doSend(m) }})
		if m.c != nil && !m.closed {
			evs = append(evs, kit.Event{Name: "close:" + m.name, Run: func() {
				kit.Must("Context.Close", func() { _ = m.c.Close() })
				m.closed = true
			}})
		}
	}
	return evs
}

func (w *world) doRecv(m *mctx) {
	m.recv = kit.Start("Recv:"+m.name, func() (interface{}, error) {
		b, err := m.recvCall()
		return string(b), err
	})
}

func (w *world) doSend(m *mctx) {
	w.nreply++
	body := fmt.Sprintf("reply%d:%s", w.nreply, m.name)
	c := kit.Start("Send:"+m.name, func() (interface{}, error) { return nil, m.send([]byte(body)) })
	kit.Quiesce()
	if !c.Done() {
		kit.Failf("send-blocked", "%s: Send of a reply blocks", m.name)
	}
	wire := w.newWire()
	switch {
	case m.closed:
		if c.Err != mangos.ErrClosed {
			kit.Failf("send-closed-result", "%s: Send on closed context returned %s", m.name, kit.ErrName(c.Err))
		}
		if len(wire) != 0 {
			kit.Failf("send-closed-wire", "%s: Send on closed context wrote %d message(s)", m.name, len(wire))
		}
	case m.pending == nil:
		if c.Err != mangos.ErrProtoState {
			kit.Failf("send-no-request-result", "%s: Send with no request pending returned %s, want ErrProtoState", m.name, kit.ErrName(c.Err))
		}
		if len(wire) != 0 {
			kit.Failf("send-no-request-wire", "%s: Send with no request pending wrote %d message(s): %x", m.name, len(wire), wire[0].Data)
		}
		kit.Count("send-protostate")
	default:
		r := m.pending
		m.pending = nil
		if c.Err == mangos.ErrProtoState && m.recv != nil && !m.recv.Done() && len(wire) == 0 {
			// A Recv is in progress on this very context.  Whether starting a Recv already
			// abandons the previous request (RESPONDENT) or only its completion does (REP) is
			// not fixed by the property; both are accepted.
			kit.Count("send-during-recv-protostate")
			return
		}
		if c.Err != nil {
			kit.Failf("send-error", "%s: Send of a reply returned %s", m.name, kit.ErrName(c.Err))
		}
		want := append(append([]byte{}, r.backtrace...), body...)
		if !w.pipes[r.pipe].Alive() {
			if len(wire) != 0 {
				kit.Failf("reply-misrouted-gone", "%s: the requesting connection p%d has gone, yet the reply was written to p%d: %x", m.name, r.pipe, wire[0].pipe, wire[0].Data)
			}
			kit.Count("reply-to-gone-pipe")
			return
		}
		if len(wire) != 1 {
			kit.Failf("reply-count", "%s: one reply produced %d transport messages", m.name, len(wire))
		}
		if wire[0].pipe != r.pipe {
			kit.Failf("reply-misrouted", "%s: reply to a request from p%d was written to p%d", m.name, r.pipe, wire[0].pipe)
		}
		if !bytes.Equal(wire[0].Data, want) {
			kit.Failf("reply-bytes", "%s: reply on the wire is %x, want routing header %x followed by %q", m.name, wire[0].Data, r.backtrace, body)
		}
		kit.Count("reply-routed")
	}
}

// recvTimesOutBetween: a request has been received; before the application replies it calls Recv
// again (with a receive deadline), once or twice, and those calls time out.  The reply sent then
// either answers the request (exactly its routing header, to its connection only) or is refused
// with the protocol-state error and nothing is written - whether a new Recv abandons the pending
// request is the pattern's choice - and the next request / reply pair works as ever.
func recvTimesOutBetween(kind string, c ctor) {
	useCtx := kit.ChooseFree(2) == 1
	ntimeouts := 1 + kit.ChooseFree(2)
	early := kit.ChooseFree(2) == 1 // a Recv also timed out before the first request arrived
	w := setup(c, 2)
	m := w.ctxs[0]
	if useCtx {
		m = w.ctxs[1]
	}
	set := w.sock.SetOption
	if useCtx {
		set = m.c.SetOption
	}
	d := 50 * time.Millisecond
	if err := set(mangos.OptionRecvDeadline, d); err != nil {
		kit.Failf("setup", "SetOption(RecvDeadline): %s", kit.ErrName(err))
	}
	timedOutRecv := func() {
		rc := kit.Start("Recv", func() (interface{}, error) { b, err := m.recvCall(); return string(b), err })
		kit.Quiesce()
		kit.Sleep(d)
		kit.Quiesce()
		if !rc.Done() || rc.Err != mangos.ErrRecvTimeout {
			kit.Failf("recv-deadline-result:"+kind, "%s: Recv with nothing to receive and deadline %v: done=%v %s", kind, d, rc.Done(), kit.ErrName(rc.Err))
		}
	}
	roundTrip := func(pi, k, timeouts int, tag string) {
		r, data := w.mkRequest(pi, k)
		w.pipes[pi].Deliver(data)
		kit.Quiesce()
		rc := kit.Start("Recv", func() (interface{}, error) { b, err := m.recvCall(); return string(b), err })
		kit.Quiesce()
		if !rc.Done() || rc.Err != nil || rc.Val.(string) != r.body {
			kit.Failf("recv-request:"+kind, "%s: %s request %q from p%d: Recv done=%v %s %q", kind, tag, r.body, pi, rc.Done(), kit.ErrName(rc.Err), rc.Val)
		}
		for i := 0; i < timeouts; i++ {
			timedOutRecv()
		}
		w.newWire()
		body := "reply-" + tag
		sc := kit.Start("Send", func() (interface{}, error) { return nil, m.send([]byte(body)) })
		kit.Quiesce()
		if !sc.Done() {
			kit.Failf("send-blocked", "%s: Send of the %s reply blocks", kind, tag)
		}
		wire := w.newWire()
		if timeouts > 0 && sc.Err == mangos.ErrProtoState {
			if len(wire) != 0 {
				kit.Failf("send-no-request-wire", "%s: Send refused with ErrProtoState yet wrote %x", kind, wire[0].Data)
			}
			kit.Count("reply-after-timed-out-recv-routed-or-refused")
			return
		}
		want := append(append([]byte{}, r.backtrace...), body...)
		if sc.Err != nil || len(wire) != 1 || wire[0].pipe != pi || !bytes.Equal(wire[0].Data, want) {
			kit.Failf("reply-after-timed-out-recv:"+kind, "%s: %s request from p%d (routing header %x), then %d Recv call(s) that timed out, then the reply: Send %s, wire %v; want the routing header and %q on p%d only", kind, tag, pi, r.backtrace, timeouts, kit.ErrName(sc.Err), wire, body, pi)
		}
		if timeouts > 0 {
			kit.Count("reply-after-timed-out-recv-routed-or-refused")
		} else {
			kit.Count("next-request-answered")
		}
	}
	if early {
		timedOutRecv()
	}
	roundTrip(0, 2, ntimeouts, "first")
	roundTrip(1, 0, 0, "second")
	roundTrip(0, 2, 0, "third")
	kit.Observe("%s ctx=%v n=%d early=%v", kind, useCtx, ntimeouts, early)
	kit.Must("Close", func() { _ = w.sock.Close() })
}

// replyWithHeader: the reply handed to SendMsg is not a fresh message: it carries a header of its
// own - the 4 byte request id a gateway got with the answer from its back-end REQ socket, 8 or 36
// bytes left from an earlier life - or it is the reply message of the previous round, sent again
// (the caller kept a reference).  What goes on the wire is the request's routing header and the
// body, nothing of the message's former header, for three round trips in a row.
func replyWithHeader(kind string, c ctor) {
	useCtx := kit.ChooseFree(2) == 1
	mode := kit.ChooseFree(4) // 0..2 = own header of 4 / 8 / 36 bytes, 3 = the previous reply message sent again
	w := setup(c, 2)
	m := w.ctxs[0]
	if useCtx {
		m = w.ctxs[1]
	}
	var prev *mangos.Message
	for round := 0; round < 3; round++ {
		pi := round % 2
		r, data := w.mkRequest(pi, 2-round%2*2)
		w.pipes[pi].Deliver(data)
		kit.Quiesce()
		rc := kit.Start("Recv", func() (interface{}, error) { b, err := m.recvCall(); return string(b), err })
		kit.Quiesce()
		if !rc.Done() || rc.Err != nil || rc.Val.(string) != r.body {
			kit.Failf("recv-request:"+kind, "%s: request %q from p%d: Recv done=%v %s %q", kind, r.body, pi, rc.Done(), kit.ErrName(rc.Err), rc.Val)
		}
		w.newWire()
		body := fmt.Sprintf("reply-%d", round)
		var msg *mangos.Message
		if mode == 3 && prev != nil {
			msg = prev
			msg.Body = append(msg.Body[:0], body...)
		} else {
			msg = mangos.NewMessage(32)
			msg.Body = append(msg.Body, body...)
			if mode < 3 {
				for i := 0; i < []int{4, 8, 36}[mode]; i++ {
					msg.Header = append(msg.Header, byte(0x80|i))
				}
			}
		}
		if mode == 3 {
			msg.Clone() // the caller keeps a reference to send the message again next time
			prev = msg
		}
		sc := kit.Start("SendMsg", func() (interface{}, error) {
			if m.c != nil {
				return nil, m.c.SendMsg(msg)
			}
			return nil, m.s.SendMsg(msg)
		})
		kit.Quiesce()
		wire := w.newWire()
		want := append(append([]byte{}, r.backtrace...), body...)
		if !sc.Done() || sc.Err != nil || len(wire) != 1 || wire[0].pipe != pi || !bytes.Equal(wire[0].Data, want) {
			kit.Failf("reply-bytes", "%s: round %d: the reply message %s: SendMsg done=%v %s, wire %v; want the request's routing header %x followed by %q on p%d only",
				kind, round, []string{"carried a 4 byte header of its own", "carried an 8 byte header of its own", "carried a 36 byte header of its own", "is the previous reply message, sent again"}[mode], sc.Done(), kit.ErrName(sc.Err), wire, r.backtrace, body, pi)
		}
	}
	kit.Count("own-header-replaced-by-the-routing-header")
	kit.Observe("%s ctx=%v mode=%d", kind, useCtx, mode)
	kit.Must("Close", func() { _ = w.sock.Close() })
}

// longRouting: the hop limit is raised (16 or 255) and requests arrive that have crossed many
// devices: routing headers of 1..15 words before the id word, from two connections in turn, two or
// three in a row (socket or context; raw sockets get the header on Recv and give it back on Send).
// Every reply goes to the asking connection with exactly the words its request carried.
func longRouting(kind string, c ctor) {
	raw := kind[0] == 'x'
	ttl := []int{16, 255}[kit.ChooseFree(2)]
	depths := [][]int{{8, 9, 3}, {9, 9}, {12, 1, 12}, {15, 7}, {7, 8, 15}}[kit.ChooseFree(5)]
	useCtx := !raw && kit.ChooseFree(2) == 1
	s, err := c()
	if err != nil {
		kit.Failf("setup", "NewSocket: %v", err)
	}
	if err := s.SetOption(mangos.OptionTTL, ttl); err != nil {
		kit.Failf("setup", "SetOption(TTL,%d): %s", ttl, kit.ErrName(err))
	}
	ep := vt.Get("deep")
	if err := s.Listen("vt://deep"); err != nil {
		kit.Failf("setup", "Listen: %v", err)
	}
	pipes := []*vt.Pipe{ep.Connect(), ep.Connect()}
	kit.Quiesce()
	var cx mangos.Context
	if useCtx {
		if cx, err = s.OpenContext(); err != nil {
			kit.Failf("setup", "OpenContext: %s", kit.ErrName(err))
		}
	}
	seen := []int{0, 0}
	for n, k := range depths {
		pi := n % 2
		var bt []byte
		for i := 0; i < k; i++ {
			bt = append(bt, byte(i*7+n)&0x7f, byte(k), byte(n), byte(i+1))
		}
		bt = append(bt, 0x80|byte(n), 0xee, byte(k), byte(n))
		body := fmt.Sprintf("deep-request-%d-%d", n, k)
		pipes[pi].Deliver(append(append([]byte{}, bt...), body...))
		kit.Quiesce()
		var m *mangos.Message
		rc := kit.Start("Recv", func() (interface{}, error) {
			var err error
			if useCtx {
				m, err = cx.RecvMsg()
			} else {
				m, err = s.RecvMsg()
			}
			return nil, err
		})
		kit.Quiesce()
		if !rc.Done() || rc.Err != nil {
			kit.Failf("deep-request-not-delivered:"+kind, "%s (TTL %d): a request that crossed %d connections was not delivered: Recv done=%v %s", kind, ttl, k+1, rc.Done(), kit.ErrName(rc.Err))
		}
		if string(m.Body) != body {
			kit.Failf("deep-request-body:"+kind, "%s: request with %d routing words delivered as %q, want %q", kind, k, m.Body, body)
		}
		reply := mangos.NewMessage(32)
		rbody := fmt.Sprintf("deep-reply-%d", n)
		reply.Body = append(reply.Body, rbody...)
		if raw {
			if len(m.Header) != 4+len(bt) || !bytes.Equal(m.Header[4:], bt) {
				kit.Failf("raw-recv-header:"+kind, "%s: request with %d routing words: received header %x, want a pipe id followed by %x", kind, k, m.Header, bt)
			}
			reply.Header = append(reply.Header, m.Header...)
		}
		m.Free()
		sc := kit.Start("Send", func() (interface{}, error) {
			if useCtx {
				return nil, cx.SendMsg(reply)
			}
			return nil, s.SendMsg(reply)
		})
		kit.Quiesce()
		if !sc.Done() || sc.Err != nil {
			kit.Failf("deep-reply-send:"+kind, "%s: Send of the reply: done=%v %s", kind, sc.Done(), kit.ErrName(sc.Err))
		}
		want := append(append([]byte{}, bt...), rbody...)
		for i, p := range pipes {
			l := p.SentLog()
			nw := l[seen[i]:]
			seen[i] = len(l)
			if i != pi && len(nw) != 0 {
				kit.Failf("reply-misrouted", "%s: the reply to a request from p%d (%d routing words) was written to p%d: %x", kind, pi, k, i, nw[0].Data)
			}
			if i == pi && (len(nw) != 1 || !bytes.Equal(nw[0].Data, want)) {
				got := []byte(nil)
				if len(nw) > 0 {
					got = nw[0].Data
				}
				kit.Failf("reply-bytes", "%s (TTL %d): the reply to a request with %d routing words: %d message(s) written to the asker, first %x; want exactly the routing header %x followed by %q", kind, ttl, k, len(nw), got, bt, rbody)
			}
		}
		if k >= 9 {
			kit.Count("reply-with-nine-or-more-routing-words-exact")
		}
	}
	kit.Observe("%s ttl=%d %v ctx=%v", kind, ttl, depths, useCtx)
	kit.Must("Close", func() { _ = s.Close() })
}

// RespondentHist / XRespondentHist are also run under C07 (each RESPONDENT answer reaches only the
// surveyor that asked).
func RespondentHist(depth int)  { hist(respondent.NewSocket, depth) }
func XRespondentHist(depth int) { rawHist(xrespondent.NewSocket, depth) }

// take removes the queued request with this body; only a head of a per-pipe queue may be returned.
func (w *world) take(body string) *request {
	for pi, q := range w.queue {
		for i, r := range q {
			if r.body == body {
				if i != 0 {
					// earlier requests from the same connection must have been optional (dropped pipe)
					for _, e := range q[:i] {
						if !e.optional {
							kit.Failf("recv-reordered", "request %q from p%d delivered before the earlier request %q of the same connection", body, pi, e.body)
						}
					}
				}
				w.queue[pi] = q[i+1:]
				return r
			}
		}
	}
	return nil
}

func (w *world) mandatory() int {
	n := 0
	for _, q := range w.queue {
		for _, r := range q {
			if !r.optional {
				n++
			}
		}
	}
	return n
}

func (w *world) settle() {
	if wire := w.newWire(); len(wire) != 0 {
		kit.Failf("unexpected-transmission", "a message was written to p%d without a Send: %x", wire[0].pipe, wire[0].Data)
	}
	waiting := 0
	for _, m := range w.ctxs {
		if m.recv == nil {
			continue
		}
		c := m.recv
		if m.closed {
			if !c.Done() || c.Err != mangos.ErrClosed {
				// a Recv that was already pending may also have completed with a request before the close
				if !(c.Done() && c.Err == nil) {
					kit.Failf("recv-closed", "%s: Recv on closed context: done=%v %s", m.name, c.Done(), kit.ErrName(c.Err))
				}
			}
			if c.Done() && c.Err == nil {
				w.take(c.Val.(string))
			}
			m.recv = nil
			continue
		}
		if !c.Done() {
			waiting++
			continue
		}
		if c.Err != nil {
			kit.Failf("recv-error", "%s: Recv returned %s", m.name, kit.ErrName(c.Err))
		}
		r := w.take(c.Val.(string))
		if r == nil {
			kit.Failf("recv-invented", "%s: Recv returned %q which no connection sent (or it was delivered twice / malformed)", m.name, c.Val)
		}
		m.pending = r
		m.recv = nil
		kit.Count("ctx-own-request")
	}
	if waiting > 0 && w.mandatory() > 0 {
		kit.Failf("recv-blocked", "%d Recv call(s) blocked although %d well-formed request(s) from live connections are waiting", waiting, w.mandatory())
	}
}

func hist(c ctor, depth int) {
	// either both contexts exist from the start, or the second one is opened by an event of the
	// history (it must start with no request of its own, whatever the socket holds at that time)
	n := 2 - kit.ChooseFree(2)
	w := setup(c, n)
	w.lateCtx = n == 1
	kit.Hist(depth, w.events, w.settle)
	kit.Must("Socket.Close", func() { _ = w.sock.Close() })
}

// schedTwoCtx: two contexts receive and answer concurrently while requests from two
// connections arrive; every reply must go to the connection its request came from.
func schedTwoCtx(c ctor) {
	w := setup(c, 2)
	type res struct {
		req, reply string
		err        error
	}
	out := make([]res, 2)
	var calls []*kit.Call
	for i, m := range w.ctxs {
		i, m := i, m
		calls = append(calls, kit.Start("serve:"+m.name, func() (interface{}, error) {
			b, err := m.recvCall()
			if err != nil {
				out[i].err = err
				return nil, err
			}
			out[i].req = string(b)
			out[i].reply = "answer-to-" + string(b)
			err = m.send([]byte(out[i].reply))
			out[i].err = err
			return nil, err
		}))
	}
	r0, d0 := w.mkRequest(0, 1)
	r1, d1 := w.mkRequest(1, 2)
	w.pipes[0].Deliver(d0)
	w.pipes[1].Deliver(d1)
	kit.Quiesce()
	for i, cl := range calls {
		if !cl.Done() || cl.Err != nil {
			kit.Failf("sched-serve", "context %d: done=%v err=%s", i, cl.Done(), kit.ErrName(cl.Err))
		}
	}
	reqs := map[string]*request{r0.body: r0, r1.body: r1}
	wire := w.newWire()
	if len(wire) != 2 {
		kit.Failf("sched-wire-count", "two replies produced %d transport messages", len(wire))
	}
	for i := range out {
		r := reqs[out[i].req]
		if r == nil {
			kit.Failf("sched-recv", "context %d received %q", i, out[i].req)
		}
		delete(reqs, out[i].req)
		want := append(append([]byte{}, r.backtrace...), out[i].reply...)
		found := false
		for _, sm := range wire {
			if bytes.Equal(sm.Data, want) {
				found = true
				if sm.pipe != r.pipe {
					kit.Failf("reply-misrouted", "reply to the request from p%d was written to p%d", r.pipe, sm.pipe)
				}
			}
		}
		if !found {
			kit.Failf("reply-bytes", "no transport message equals routing header %x + %q; wire: %x | %x", r.backtrace, out[i].reply, wire[0].Data, wire[1].Data)
		}
	}
	kit.Observe("%s|%s", out[0].req, out[1].req)
}

// resizeWithWaiting: the receive queue is short; requests from two connections pile up (one queued,
// one held back in the connection's receiver because the queue is full) when the application
// changes the queue length; more requests follow.  Whatever the resize does to the waiting ones,
// every request the application then receives is one that a peer sent, unchanged, and its reply
// goes to the connection that sent it, with that request's routing header.
func resizeWithWaiting(kind string, c ctor) {
	newLen := []int{4, 1, 2}[kit.ChooseFree(3)]
	w := setup(c, 1)
	if err := w.sock.SetOption(mangos.OptionReadQLen, 1); err != nil {
		kit.Count("no-readqlen-option")
		kit.Count("answered-after-resize")
		return
	}
	sent := map[string]*request{}
	feed := func(pi, k int) {
		r, d := w.mkRequest(pi, k)
		sent[r.body] = r
		w.pipes[pi].Deliver(d)
		kit.Quiesce()
	}
	feed(0, 0)
	feed(0, 2)
	feed(0, 0) // more than the queue holds: the connection's receiver waits with one in hand
	rc := kit.Start("SetOption(ReadQLen)", func() (interface{}, error) { return nil, w.sock.SetOption(mangos.OptionReadQLen, newLen) })
	kit.Quiesce()
	if !rc.Done() || rc.Err != nil {
		kit.Failf("resize-call", "%s: SetOption(ReadQLen,%d) with requests waiting: done=%v %s", kind, newLen, rc.Done(), kit.ErrName(rc.Err))
	}
	feed(1, 2)
	feed(1, 0)
	m := w.ctxs[0]
	n := 0
	for i := 0; i < 8; i++ {
		cl := kit.Start("Recv", func() (interface{}, error) { b, err := m.recvCall(); return string(b), err })
		kit.Quiesce()
		if !cl.Done() {
			break
		}
		if cl.Err != nil {
			kit.Failf("recv-error", "%s: Recv: %s", kind, kit.ErrName(cl.Err))
		}
		body := cl.Val.(string)
		r := sent[body]
		if r == nil {
			kit.Failf("recv-invented", "%s: after the resize Recv returned %q, which no peer sent", kind, body)
		}
		delete(sent, body)
		reply := "re:" + body
		sc := kit.Start("Send", func() (interface{}, error) { return nil, m.send([]byte(reply)) })
		kit.Quiesce()
		if !sc.Done() || sc.Err != nil {
			kit.Failf("send-error", "%s: Send of the reply to %q: done=%v %s", kind, body, sc.Done(), kit.ErrName(sc.Err))
		}
		wire := w.newWire()
		want := append(append([]byte{}, r.backtrace...), reply...)
		if len(wire) != 1 || wire[0].pipe != r.pipe || !bytes.Equal(wire[0].Data, want) {
			kit.Failf("reply-after-resize", "%s: the reply to %q (from p%d, routing header %x) after a queue resize with requests waiting: wire %v", kind, body, r.pipe, r.backtrace, wire)
		}
		n++
	}
	if n == 0 {
		kit.Failf("nothing-after-resize", "%s: five requests were sent around a queue resize, none was received", kind)
	}
	kit.Count("answered-after-resize")
	kit.Observe("%s newlen=%d received=%d", kind, newLen, n)
	kit.Must("Socket.Close", func() { _ = w.sock.Close() })
}

// schedSharedReply: two contexts hold requests from two connections (with different routing
// headers); the application answers both with one message that it shares (Clone).  Connection 0
// may be slow to take what it is given.  Each requester gets the reply with its own routing header.
func schedSharedReply(kind string, c ctor) {
	w := setup(c, 2)
	hold := kit.ChooseFree(2) == 1
	r0, d0 := w.mkRequest(0, 1)
	r1, d1 := w.mkRequest(1, 2)
	rs := []*request{r0, r1}
	w.pipes[0].Deliver(d0)
	kit.Quiesce()
	got := make([]string, 2)
	for i, m := range w.ctxs {
		m := m
		if i == 1 {
			w.pipes[1].Deliver(d1)
			kit.Quiesce()
		}
		cl := kit.Start("Recv:"+m.name, func() (interface{}, error) { b, err := m.recvCall(); return string(b), err })
		kit.Quiesce()
		if !cl.Done() || cl.Err != nil {
			kit.Failf("setup", "%s: Recv done=%v %s", m.name, cl.Done(), kit.ErrName(cl.Err))
		}
		got[i] = cl.Val.(string)
	}
	if got[0] != r0.body || got[1] != r1.body {
		kit.Failf("setup", "requests received: %q", got)
	}
	if hold {
		w.pipes[0].Hold(true)
	}
	msg := mangos.NewMessage(16)
	msg.Body = append(msg.Body, "shared-reply"...)
	msg.Clone() // a second reference to the same message
	var calls []*kit.Call
	for _, m := range w.ctxs {
		m := m
		calls = append(calls, kit.Start("SendMsg:"+m.name, func() (interface{}, error) {
			if m.c != nil {
				return nil, m.c.SendMsg(msg)
			}
			return nil, m.s.SendMsg(msg)
		}))
	}
	kit.Quiesce()
	if hold {
		w.pipes[0].Hold(false)
		w.pipes[0].Take(10)
		kit.Quiesce()
	}
	for i, cl := range calls {
		if !cl.Done() || cl.Err != nil {
			kit.Failf("shared-send", "context %d: SendMsg of a shared message: done=%v %s", i, cl.Done(), kit.ErrName(cl.Err))
		}
	}
	wire := w.newWire()
	if len(wire) != 2 {
		kit.Failf("shared-wire-count", "two replies produced %d transport messages", len(wire))
	}
	for _, r := range rs {
		want := append(append([]byte{}, r.backtrace...), "shared-reply"...)
		n := 0
		for _, sm := range wire {
			if sm.pipe == r.pipe {
				n++
				if !bytes.Equal(sm.Data, want) {
					kit.Failf("shared-reply-header:"+kind, "the reply written to p%d is %x, want the routing header %x of its request followed by the body (one message, cloned, sent as the reply on two contexts)", r.pipe, sm.Data, r.backtrace)
				}
			}
		}
		if n != 1 {
			kit.Failf("shared-reply-misrouted:"+kind, "the requester on p%d received %d replies", r.pipe, n)
		}
	}
	kit.Observe("hold=%v", hold)
	kit.Must("Socket.Close", func() { _ = w.sock.Close() })
}

// ---------------------------------------------------------------------------
// raw sockets

type rawWorld struct {
	sock    mangos.Socket
	pipes   []*vt.Pipe
	ids     []uint32
	seen    []int
	queue   [][]*request
	got     []*mangos.Message
	from    []int // connection each message in got came from
	connect func()
	recv    *kit.Call
	seq     uint32
	nrep    int
}

func rawHist(c ctor, depth int) {
	w := &rawWorld{}
	s, err := c()
	if err != nil {
		kit.Failf("setup", "NewSocket: %v", err)
	}
	w.sock = s
	var attached []uint32
	s.SetPipeEventHook(func(ev mangos.PipeEvent, p mangos.Pipe) {
		if ev == mangos.PipeEventAttached {
			attached = append(attached, p.ID())
		}
	})
	ep := vt.Get("raw")
	if err := s.Listen("vt://raw"); err != nil {
		kit.Failf("setup", "Listen: %v", err)
	}
	for i := 0; i < 2; i++ {
		w.pipes = append(w.pipes, ep.Connect())
		w.seen = append(w.seen, 0)
		w.queue = append(w.queue, nil)
		kit.Quiesce()
		if len(attached) != i+1 {
			kit.Failf("setup", "pipe %d did not attach", i)
		}
	}
	w.ids = attached
	w.connect = func() {
		w.pipes = append(w.pipes, ep.Connect())
		w.seen = append(w.seen, 0)
		w.queue = append(w.queue, nil)
		kit.Quiesce()
		if len(attached) != len(w.pipes) {
			kit.Failf("raw-connect", "a new connection did not attach")
		}
		w.ids = attached
		kit.Count("raw-newcomer")
	}
	kit.Hist(depth, w.events, w.settle)
	kit.Must("Socket.Close", func() { _ = w.sock.Close() })
}

// rawRetry: a raw REP / RESPONDENT application answers a request; the asking peer is slow, the
// queue fills and SendMsg fails with the send timeout, leaving the message with the caller.  The
// caller sends that same message again when the peer takes again: it reaches the asker with the
// request's routing header, and nobody else (in one variant the next word of the routing header
// equals the pipe id of another connection of this socket).
func rawRetry(kind string, c ctor) {
	deep := kit.ChooseFree(3) // 0: id word only, 1: an extra word, 2: an extra word that equals the other connection's pipe id
	s, err := c()
	if err != nil {
		kit.Failf("setup", "NewSocket: %v", err)
	}
	var ids []uint32
	s.SetPipeEventHook(func(ev mangos.PipeEvent, p mangos.Pipe) {
		if ev == mangos.PipeEventAttached {
			ids = append(ids, p.ID())
		}
	})
	_ = s.SetOption(mangos.OptionWriteQLen, 1)
	if err := s.SetOption(mangos.OptionSendDeadline, 50*time.Millisecond); err != nil {
		kit.Failf("setup", "SendDeadline: %s", kit.ErrName(err))
	}
	ep := vt.Get("rawretry")
	if err := s.Listen("vt://rawretry"); err != nil {
		kit.Failf("setup", "Listen: %v", err)
	}
	asker, other := ep.Connect(), ep.Connect()
	kit.Quiesce()
	if len(ids) != 2 {
		kit.Failf("setup", "%d pipes attached", len(ids))
	}
	var bt []byte
	switch deep {
	case 1:
		bt = append(bt, 0x00, 0x00, 0x00, 0x07)
	case 2:
		var w4 [4]byte
		binary.BigEndian.PutUint32(w4[:], ids[1])
		bt = append(bt, w4[:]...)
	}
	bt = append(bt, 0x80, 0x00, 0x00, 0x2a)
	asker.Deliver(append(append([]byte{}, bt...), "request"...))
	rc := kit.Start("RecvMsg", func() (interface{}, error) { return s.RecvMsg() })
	kit.Quiesce()
	if !rc.Done() || rc.Err != nil {
		kit.Failf("setup", "RecvMsg done=%v %s", rc.Done(), kit.ErrName(rc.Err))
	}
	req := rc.Val.(*mangos.Message)
	hdr := append([]byte{}, req.Header...)
	asker.Hold(true)
	var timedOut *mangos.Message
	n := 0
	for i := 0; i < 6 && timedOut == nil; i++ {
		m := mangos.NewMessage(16)
		m.Header = append(m.Header, hdr...)
		m.Body = append(m.Body, fmt.Sprintf("reply%d", i)...)
		sc := kit.Start("SendMsg", func() (interface{}, error) { return nil, s.SendMsg(m) })
		kit.Quiesce()
		if !sc.Done() {
			kit.Sleep(50 * time.Millisecond)
			kit.Quiesce()
		}
		if !sc.Done() {
			kit.Failf("raw-send-deadline", "%s: SendMsg still blocked after the send deadline", kind)
		}
		switch sc.Err {
		case nil:
			n++
		case mangos.ErrSendTimeout:
			timedOut = m
		default:
			kit.Failf("raw-send-error", "%s: SendMsg returned %s", kind, kit.ErrName(sc.Err))
		}
	}
	if timedOut == nil {
		kit.Failf("setup", "%s: no SendMsg timed out although the peer takes nothing", kind)
	}
	body := string(timedOut.Body)
	asker.Hold(false)
	asker.Take(10)
	kit.Quiesce()
	before := asker.NumSent()
	sc := kit.Start("SendMsg-again", func() (interface{}, error) { return nil, s.SendMsg(timedOut) })
	kit.Quiesce()
	if !sc.Done() || sc.Err != nil {
		kit.Failf("raw-retry-send", "%s: the peer takes again, sending the same message again: done=%v %s", kind, sc.Done(), kit.ErrName(sc.Err))
	}
	if other.NumSent() != 0 {
		kit.Failf("raw-retry-misrouted:"+kind, "%s: the retried reply was written to a connection that never asked: %x", kind, other.SentLog()[0].Data)
	}
	l := asker.SentLog()
	want := append(append([]byte{}, hdr[4:]...), body...)
	if len(l) != before+1 || !bytes.Equal(l[len(l)-1].Data, want) {
		kit.Failf("raw-retry-lost:"+kind, "%s: the retried reply did not reach the asker with its routing header (asker has %d messages, %d before the retry)", kind, len(l), before)
	}
	kit.Count("raw-timeout-then-retry-routed")
	kit.Observe("%s deep=%d sent-before-timeout=%d", kind, deep, n)
	kit.Must("Socket.Close", func() { _ = s.Close() })
}

func (w *rawWorld) newWire() []wireMsg {
	var out []wireMsg
	for i, p := range w.pipes {
		l := p.SentLog()
		for _, s := range l[w.seen[i]:] {
			out = append(out, wireMsg{s, i})
		}
		w.seen[i] = len(l)
	}
	return out
}

func (w *rawWorld) events() []kit.Event {
	var evs []kit.Event
	for pi, p := range w.pipes {
		pi := pi
		if !p.Alive() {
			continue
		}
		for _, k := range []int{0, 1, 3} {
			k := k
			evs = append(evs, kit.Event{Name: fmt.Sprintf("arrive:p%d:k%d", pi, k), Run: func() {
				w.seq++
				var bt []byte
				for i := 0; i < k; i++ {
					bt = append(bt, 0x00, byte(i), byte(pi), byte(w.seq))
				}
				bt = append(bt, 0x80|byte(w.seq&1)*0x7f, 0xff*byte(w.seq&1), 0, byte(w.seq))
				body := fmt.Sprintf("raw%d@p%d", w.seq, pi)
				w.queue[pi] = append(w.queue[pi], &request{pipe: pi, backtrace: bt, body: body})
				w.pipes[pi].Deliver(append(append([]byte{}, bt...), body...))
			}})
		}
	}
	if w.pipes[0].Alive() {
		evs = append(evs, kit.Event{Name: "malformed-short:p0", Run: func() { w.pipes[0].Deliver([]byte{0x80, 0x01, 0x02}) }})
	}
	for _, pi := range []int{0, len(w.pipes) - 1} { // the oldest and the newest connection may go
		pi := pi
		if w.pipes[pi].Alive() {
			evs = append(evs, kit.Event{Name: fmt.Sprintf("drop:p%d", pi), Run: func() {
				w.pipes[pi].DropNow()
				for _, r := range w.queue[pi] {
					r.optional = true
				}
			}})
		}
	}
	gone := false
	for _, p := range w.pipes {
		gone = gone || !p.Alive()
	}
	if gone && len(w.pipes) < 3 {
		// a newcomer after a connection has gone: it must not inherit what was meant for that one
		evs = append(evs, kit.Event{Name: "connect", Run: w.connect})
	}
	if w.recv == nil {
		evs = append(evs, kit.Event{Name: "recv", Run: func() {
			w.recv = kit.Start("RecvMsg", func() (interface{}, error) { return w.sock.RecvMsg() })
		}})
	}
	if len(w.got) > 0 {
		for _, variant := range []string{"ok", "unknown-pipe", "short-header", "pipe-id-with-high-bit"} {
			variant := variant
			evs = append(evs, kit.Event{Name: "reply:" + variant, Run: func() { w.doReply(variant) }})
		}
	}
	return evs
}

func (w *rawWorld) doReply(variant string) {
	g := w.got[0]
	w.got = w.got[1:]
	pipe := w.from[0]
	w.from = w.from[1:]
	w.nrep++
	body := fmt.Sprintf("rawreply%d", w.nrep)
	m := mangos.NewMessage(len(body))
	m.Body = append(m.Body, body...)
	hdr := append([]byte{}, g.Header...)
	switch variant {
	case "unknown-pipe":
		binary.BigEndian.PutUint32(hdr, (w.ids[0]^w.ids[1])|0x40000000)
	case "short-header":
		hdr = hdr[:3]
	case "pipe-id-with-high-bit":
		// the routing header has lost its pipe word: what leads now is a request id whose low 31 bits
		// happen to be the id of a live connection - it names no connection
		live := w.ids[0]
		for i, p := range w.pipes {
			if p.Alive() {
				live = w.ids[i]
			}
		}
		binary.BigEndian.PutUint32(hdr, live|0x80000000)
	}
	m.Header = append(m.Header, hdr...)
	c := kit.Start("SendMsg", func() (interface{}, error) { return nil, w.sock.SendMsg(m) })
	kit.Quiesce()
	if !c.Done() {
		kit.Failf("raw-send-blocked", "SendMsg(%s) blocks", variant)
	}
	wire := w.newWire()
	switch variant {
	case "ok":
		if !w.pipes[pipe].Alive() {
			if len(wire) != 0 {
				kit.Failf("raw-reply-misrouted-gone", "the reply to a request from p%d, which has gone, was written to p%d", pipe, wire[0].pipe)
			}
			return
		}
		if c.Err != nil {
			kit.Failf("raw-send-error", "SendMsg returned %s", kit.ErrName(c.Err))
		}
		want := append(append([]byte{}, g.Header[4:]...), body...)
		if len(wire) != 1 || wire[0].pipe != pipe || !bytes.Equal(wire[0].Data, want) {
			kit.Failf("raw-reply-routing", "reply with header %x: wire=%v, want %x on p%d only", g.Header, wire, want, pipe)
		}
		kit.Count("raw-reply-routed")
	default:
		if len(wire) != 0 {
			kit.Failf("raw-reply-"+variant, "reply with %s was written to p%d: %x", variant, wire[0].pipe, wire[0].Data)
		}
		if c.Err != nil {
			kit.Failf("raw-send-error-"+variant, "SendMsg returned %s", kit.ErrName(c.Err))
		}
		kit.Count("raw-unknown-pipe-dropped")
	}
}

func (w *rawWorld) settle() {
	if wire := w.newWire(); len(wire) != 0 {
		kit.Failf("unexpected-transmission", "a message was written to p%d without a Send: %x", wire[0].pipe, wire[0].Data)
	}
	if w.recv == nil {
		return
	}
	c := w.recv
	mand := 0
	for _, q := range w.queue {
		for _, r := range q {
			if !r.optional {
				mand++
			}
		}
	}
	if !c.Done() {
		if mand > 0 {
			kit.Failf("raw-recv-blocked", "RecvMsg blocked although %d well-formed request(s) are waiting", mand)
		}
		return
	}
	w.recv = nil
	if c.Err != nil {
		kit.Failf("raw-recv-error", "RecvMsg returned %s", kit.ErrName(c.Err))
	}
	m := c.Val.(*mangos.Message)
	for pi, q := range w.queue {
		for i, r := range q {
			if r.body != string(m.Body) {
				continue
			}
			for _, e := range q[:i] {
				if !e.optional {
					kit.Failf("raw-recv-reordered", "request %q delivered before earlier %q of the same connection", r.body, e.body)
				}
			}
			w.queue[pi] = q[i+1:]
			var id [4]byte
			binary.BigEndian.PutUint32(id[:], w.ids[pi])
			want := append(id[:], r.backtrace...)
			if !bytes.Equal(m.Header, want) {
				kit.Failf("raw-recv-header", "request from p%d (pipe id %08x) delivered with header %x, want %x", pi, w.ids[pi], m.Header, want)
			}
			kit.Count("raw-recv-header")
			w.got = append(w.got, m)
			w.from = append(w.from, pi)
			return
		}
	}
	kit.Failf("raw-recv-invented", "RecvMsg returned header %x body %q which no connection sent", m.Header, m.Body)
}

// Bodies re-run by C11 under the race-instrumented build.
var RaceBodies = map[string]func(){
	"c05-rep-two-ctx":        func() { schedTwoCtx(rep.NewSocket) },
	"c05-respondent-two-ctx": func() { schedTwoCtx(respondent.NewSocket) },
}
