// Package c11 checks property C11: sockets are safe for concurrent use.
package c11

import (
	"fmt"
	"sort"
	"time"

	"go.nanomsg.org/mangos/v3"
	"go.nanomsg.org/mangos/v3/vh/c02"
	"go.nanomsg.org/mangos/v3/vh/c03"
	"go.nanomsg.org/mangos/v3/vh/c04"
	"go.nanomsg.org/mangos/v3/vh/c05"
	"go.nanomsg.org/mangos/v3/vh/c06"
	"go.nanomsg.org/mangos/v3/vh/c07"
	"go.nanomsg.org/mangos/v3/vh/c08"
	"go.nanomsg.org/mangos/v3/vh/c09"
	"go.nanomsg.org/mangos/v3/vh/c10"
	"go.nanomsg.org/mangos/v3/vh/c13"
	"go.nanomsg.org/mangos/v3/vh/c14"
	"go.nanomsg.org/mangos/v3/vh/c16"
	"go.nanomsg.org/mangos/v3/vh/kinds"
	"go.nanomsg.org/mangos/v3/vh/kit"
	"go.nanomsg.org/mangos/v3/vh/ledger"
	vnet "go.nanomsg.org/mangos/v3/vh/vnet"
	_ "go.nanomsg.org/mangos/v3/transport/tcp"
	"go.nanomsg.org/mangos/v3/vh/vt"
	"go.nanomsg.org/mangos/v3/vz/vexplore"
	"go.nanomsg.org/mangos/v3/vz/vsched"
)

func init() {
	vexplore.Register("C11", func(tier string) []*vexplore.Scenario {
		b := 1
		full := false
		if tier == "thorough" {
			b = 2
			full = true
		}
		var out []*vexplore.Scenario
		out = append(out, &vexplore.Scenario{Name: "req-slow-peer-hist", Mode: "hist", Reset: kit.ResetGlobals, Cfg: vsched.Config{Race: true},
			Body: func() { c04.SlowPeerHist(map[bool]int{false: 5, true: 6}[full]) }})
		// concurrent Dials to several inproc addresses whose accept loops are busy: none is left blocked
		out = append(out, &vexplore.Scenario{Name: "inproc-dials-waiting-for-several-busy-listeners", Mode: "enum", Reset: kit.ResetGlobals,
			Cfg: vsched.Config{Race: true}, Body: c13.InprocBusyListeners, NeedCounters: []string{"waiting-dial-connected-when-its-listener-became-free"}})
		// the retry timer of a request lands while its reply is being taken in (timers may fire early)
		out = append(out, &vexplore.Scenario{Name: "drf:req-retry-timer-vs-reply", Mode: "sched", Bound: b, Reset: kit.ResetGlobals,
			Cfg: vsched.Config{Race: true, EarlyTimers: true}, Body: c04.SchedTimerVsReply})
		// data-race freedom of the multi-socket / device / fan-out / close scenarios of the other
		// properties: the same bodies, race-instrumented build, happens-before detector on
		drf := map[string]func(){}
		for _, m := range []map[string]func(){c02.RaceBodies, c03.RaceBodies, c05.RaceBodies, c06.RaceBodies, c07.RaceBodies, c08.RaceBodies(),
			c09.RaceBodies, c10.RaceBodies, c13.RaceBodies, c14.RaceBodies, c16.RaceBodies} {
			for n, f := range m {
				drf[n] = f
			}
		}
		var names []string
		for n := range drf {
			names = append(names, n)
		}
		sort.Strings(names)
		for _, n := range names {
			f := drf[n]
			out = append(out, &vexplore.Scenario{Name: "drf:" + n, Mode: "sched", Bound: b, Reset: kit.ResetGlobals, Cfg: vsched.Config{Race: true}, Body: f})
		}
		for _, k := range kinds.All {
			k := k
			if k.CanRecv {
				out = append(out, &vexplore.Scenario{Name: "recv-waiting-vs-reconfiguration:" + k.Name, Mode: "sched", Bound: b, Reset: kit.ResetGlobals,
					Cfg: vsched.Config{Race: true}, Body: func() { recvVsReconf(k) }})
			}
		}
		for _, n := range []string{"push", "xpush", "req", "xreq"} {
			k := kinds.ByName(n)
			out = append(out, &vexplore.Scenario{Name: "fail-no-peers-send-vs-peers-coming-and-going:" + n, Mode: "sched", Bound: b, Reset: kit.ResetGlobals,
				Cfg: vsched.Config{Race: true}, Body: func() { sendVsPeersLeaving(k) }})
		}
		out = append(out, &vexplore.Scenario{Name: "fan-out-concurrent-release", Mode: "sched", Bound: b, Reset: kit.ResetGlobals,
			Cfg: vsched.Config{Race: true, AtomicPoints: true}, Body: fanoutRelease})
		out = append(out, &vexplore.Scenario{Name: "two-threads-on-listener-and-dialer", Mode: "sched", Bound: b, Reset: kit.ResetGlobals,
			Cfg: vsched.Config{Race: true}, Body: twoThreadsEndpoints})
		for _, k := range kinds.All {
			k := k
			out = append(out, &vexplore.Scenario{Name: "two-threads:" + k.Name, Mode: "sched", Bound: b, Reset: kit.ResetGlobals,
				Cfg: vsched.Config{Race: true, AtomicPoints: false}, Body: func() { twoThreads(k, full) }})
		}
		return out
	})
}

type op struct {
	name    string
	mutator bool
	ok      func(w *world) bool
	run     func(w *world) error
}

type world struct {
	k    *kinds.Kind
	x    *kinds.Sock
	ctx  mangos.Context
	pipe mangos.Pipe
	n    int
	hook mangos.PipeEventHook
	attached, detached int
}

func setopt(name string, val interface{}) op {
	return op{name: "SetOption(" + name + ")", mutator: true,
		ok:  func(w *world) bool { return true },
		run: func(w *world) error { return w.x.S.SetOption(name, val) }}
}

func getopt(name string) op {
	return op{name: "GetOption(" + name + ")",
		run: func(w *world) error { _, err := w.x.S.GetOption(name); return err }}
}

var ops = []op{
	{name: "Send", run: func(w *world) error { w.n++; return w.x.Send(fmt.Sprintf("m%d", w.n)) }, ok: func(w *world) bool { return w.k.CanSend }},
	{name: "Recv", run: func(w *world) error { _, err := w.x.Recv(); return err }, ok: func(w *world) bool { return w.k.CanRecv }},
	{name: "peer-delivers", run: func(w *world) error { w.x.Feed("from-peer-a"); w.x.Feed("from-peer-b"); return nil }, ok: func(w *world) bool { return w.k.CanRecv }},
	{name: "peer-drops", mutator: true, run: func(w *world) error { w.x.P.DropNow(); return nil }},
	setopt(mangos.OptionReadQLen, 2),
	setopt(mangos.OptionWriteQLen, 2),
	setopt(mangos.OptionTTL, 5),
	setopt(mangos.OptionRecvDeadline, 300*time.Millisecond),
	setopt(mangos.OptionSendDeadline, 300*time.Millisecond),
	setopt(mangos.OptionBestEffort, true),
	setopt(mangos.OptionRetryTime, 700*time.Millisecond),
	setopt(mangos.OptionSurveyTime, 700*time.Millisecond),
	setopt(mangos.OptionSubscribe, "from"),
	setopt(mangos.OptionMaxRecvSize, 2048),
	getopt(mangos.OptionReadQLen),
	getopt(mangos.OptionTTL),
	getopt(mangos.OptionRecvDeadline),
	getopt(mangos.OptionBestEffort),
	{name: "OpenContext", mutator: true, run: func(w *world) error { c, err := w.x.S.OpenContext(); _ = c; return err }},
	{name: "ctx.Send", run: func(w *world) error { return w.ctx.Send([]byte("ctx-m")) }, ok: func(w *world) bool { return w.ctx != nil && w.k.CanSend }},
	{name: "ctx.Recv", run: func(w *world) error { _, err := w.ctx.Recv(); return err }, ok: func(w *world) bool { return w.ctx != nil && w.k.CanRecv }},
	{name: "ctx.Close", mutator: true, run: func(w *world) error { return w.ctx.Close() }, ok: func(w *world) bool { return w.ctx != nil }},
	{name: "Pipe.Close", mutator: true, run: func(w *world) error { return w.pipe.Close() }, ok: func(w *world) bool { return w.pipe != nil }},
	{name: "Dial", mutator: true, run: func(w *world) error { vt.Get("c11-d").Script(vt.DialOK); return w.x.S.Dial("vt://c11-d") }},
	{name: "Listen", mutator: true, run: func(w *world) error { return w.x.S.Listen("vt://c11-l") }},
	{name: "peer-connects", mutator: true, run: func(w *world) error { w.x.EP.Connect(); return nil }},
	{name: "SetPipeEventHook", mutator: true, run: func(w *world) error { w.x.S.SetPipeEventHook(w.hook); return nil }},
	{name: "peer-connects-and-hangs-up", mutator: true, run: func(w *world) error { p := w.x.EP.Connect(); p.DropNow(); return nil }},
	{name: "Close", mutator: true, run: func(w *world) error { return w.x.S.Close() }},
}

// recvVsReconf: a Recv is waiting when another goroutine reconfigures the socket (options, a new
// subscription or the removal of one, a context, a hook, another listener, a second peer).  Both
// calls return what their sequential contracts allow: the reconfiguration succeeds or is refused,
// and the Recv - which nothing here cancels - returns the next message the peer sends.
var reconf = []struct {
	name string
	run  func(x *kinds.Sock) error
}{
	{"SetOption(ReadQLen,4)", func(x *kinds.Sock) error { return x.S.SetOption(mangos.OptionReadQLen, 4) }},
	{"SetOption(WriteQLen,4)", func(x *kinds.Sock) error { return x.S.SetOption(mangos.OptionWriteQLen, 4) }},
	{"SetOption(TTL,5)", func(x *kinds.Sock) error { return x.S.SetOption(mangos.OptionTTL, 5) }},
	{"SetOption(Subscribe,zz)", func(x *kinds.Sock) error { return x.S.SetOption(mangos.OptionSubscribe, "zz") }},
	{"SetOption(Unsubscribe,yy)", func(x *kinds.Sock) error { return x.S.SetOption(mangos.OptionUnsubscribe, "yy") }},
	{"SetOption(BestEffort,true)", func(x *kinds.Sock) error { return x.S.SetOption(mangos.OptionBestEffort, true) }},
	{"SetOption(MaxRecvSize,4096)", func(x *kinds.Sock) error { return x.S.SetOption(mangos.OptionMaxRecvSize, 4096) }},
	{"SetOption(SendDeadline,1s)", func(x *kinds.Sock) error { return x.S.SetOption(mangos.OptionSendDeadline, time.Second) }},
	{"OpenContext", func(x *kinds.Sock) error { _, err := x.S.OpenContext(); return err }},
	{"SetPipeEventHook", func(x *kinds.Sock) error { x.S.SetPipeEventHook(func(mangos.PipeEvent, mangos.Pipe) {}); return nil }},
	{"Listen(second address)", func(x *kinds.Sock) error { return x.S.Listen("vt://c11r-2") }},
	{"second peer connects", func(x *kinds.Sock) error { x.EP.Connect(); return nil }},
}

func recvVsReconf(k *kinds.Kind) {
	x := k.Open("c11r", true, false)
	x.Quiet()
	_ = x.S.SetOption(mangos.OptionSubscribe, "yy") // an extra subscription that can be removed again
	r := reconf[kit.ChooseFree(len(reconf))]
	x.PrepRecv()
	rc := kit.Start("Recv", func() (interface{}, error) { return x.Recv() })
	kit.Quiesce()
	if rc.Done() {
		kit.Failf("setup", "%s: Recv returned %q / %s with nothing to receive", k.Name, rc.Val, kit.ErrName(rc.Err))
	}
	bc := kit.Start(r.name, func() (interface{}, error) { return nil, r.run(x) })
	kit.Quiesce()
	if !bc.Done() {
		kit.Failf("call-never-returns:"+k.Name+":"+r.name, "%s: %s did not return while a Recv is waiting", k.Name, r.name)
	}
	if !allowed[bc.Err] {
		kit.Failf("call-unexpected-error:"+k.Name+":"+r.name, "%s: %s returned %s", k.Name, r.name, kit.ErrName(bc.Err))
	}
	if rc.Done() {
		kit.Failf("recv-disturbed:"+k.Name+":"+r.name, "%s: the waiting Recv returned %q / %s when %s was called", k.Name, rc.Val, kit.ErrName(rc.Err), r.name)
	}
	if !x.Feed("after-reconfiguration") {
		kit.Failf("setup", "%s: cannot build an inbound message", k.Name)
	}
	kit.Quiesce()
	if !rc.Done() || rc.Err != nil || rc.Val.(string) != "after-reconfiguration" {
		kit.Failf("recv-stuck-after:"+k.Name+":"+r.name, "%s: a Recv was waiting, %s returned %s, then the peer sent a message: Recv done=%v %s %q", k.Name, r.name, kit.ErrName(bc.Err), rc.Done(), kit.ErrName(rc.Err), rc.Val)
	}
	kit.Observe("%s %s %s", k.Name, r.name, kit.ErrName(bc.Err))
	kit.Must("Close", func() { _ = x.S.Close() })
}

// sendVsPeersLeaving: FailNoPeers is set; one thread sends three messages while the only peer
// leaves, another connects, leaves too, and a third connects.  Nothing crashes, every Send returns
// nil or ErrNoPeers, and with the third peer connected (and taking everything) a Send succeeds.
func sendVsPeersLeaving(k *kinds.Kind) {
	x := k.Open("c11n", true, false)
	x.Quiet()
	if err := x.S.SetOption(mangos.OptionFailNoPeers, true); err != nil {
		return
	}
	var errs []error
	sc := kit.Start("Sender", func() (interface{}, error) {
		for i := 0; i < 3; i++ {
			errs = append(errs, x.Send(fmt.Sprintf("m%d", i)))
		}
		return nil, nil
	})
	x.P.DropNow()
	kit.Quiesce()
	x.P = x.EP.Connect()
	kit.Quiesce()
	x.P.DropNow()
	kit.Quiesce()
	x.P = x.EP.Connect()
	kit.Quiesce()
	if !sc.Done() {
		kit.Failf("call-never-returns:"+k.Name+":Send", "%s with FailNoPeers: the sender is stuck after %d Send(s) although a peer is connected and takes everything", k.Name, len(errs))
	}
	for i, e := range errs {
		if e != nil && e != mangos.ErrNoPeers {
			kit.Failf("call-unexpected-error:"+k.Name+":Send", "%s with FailNoPeers: Send %d returned %s", k.Name, i, kit.ErrName(e))
		}
	}
	c := kit.Start("Send", func() (interface{}, error) { return nil, x.Send("with-the-third-peer") })
	kit.Quiesce()
	if !c.Done() || c.Err != nil {
		kit.Failf("nopeers-with-a-peer-connected:"+k.Name, "%s with FailNoPeers: two peers have come and gone, a third is connected and takes everything: Send done=%v %s", k.Name, c.Done(), kit.ErrName(c.Err))
	}
	kit.Observe("%s %v", k.Name, errs)
	kit.Must("Close", func() { _ = x.S.Close() })
}

// fanoutRelease: a PUB socket sends one message to three peers; every connection's sender goroutine
// releases its reference when the write is done, concurrently with the others (atomic operations
// are scheduling points here).  The message returns to the buffer pool exactly once, and messages
// allocated afterwards are distinct objects.
func fanoutRelease() {
	ledger.Install()
	s, err := kinds.ByName("pub").New()
	if err != nil {
		kit.Failf("setup", "NewSocket: %v", err)
	}
	ep := vt.Get("c11f")
	if err := s.Listen("vt://c11f"); err != nil {
		kit.Failf("setup", "Listen: %s", kit.ErrName(err))
	}
	var ps []*vt.Pipe
	for i := 0; i < 3; i++ {
		ps = append(ps, ep.Connect())
	}
	kit.Quiesce()
	body := "published-to-three-peers-----------------------------"
	sc := kit.Start("Send", func() (interface{}, error) { return nil, kit.SendBytes(s, []byte(body)) })
	kit.Quiesce()
	if !sc.Done() || sc.Err != nil {
		kit.Failf("send-stuck", "Send done=%v %s", sc.Done(), kit.ErrName(sc.Err))
	}
	for i, p := range ps {
		l := p.SentLog()
		if len(l) != 1 || string(l[0].Data) != body {
			kit.Failf("fanout-missing", "peer %d has %d message(s)", i, len(l))
		}
	}
	a, b2 := mangos.NewMessage(len(body)), mangos.NewMessage(len(body))
	if a == b2 {
		kit.Failf("buffer-handed-out-twice", "two NewMessage calls returned the same message object")
	}
	a.Free()
	b2.Free()
	kit.Must("Close", func() { _ = s.Close() })
}

// twoThreadsEndpoints: one Listener and one Dialer object (over the virtual transport or the real
// tcp transport on the in-memory network), not yet started; two threads each make one call on
// them.  Besides the monitors (race, deadlock, panic): of two concurrent Listen calls on one
// listener, or two Dial calls on one dialer, exactly one takes effect.
type epOp struct {
	name string
	run  func(l mangos.Listener, d mangos.Dialer) error
}

var epOps = []epOp{
	{"Listener.Listen", func(l mangos.Listener, d mangos.Dialer) error { return l.Listen() }},
	{"Listener.Close", func(l mangos.Listener, d mangos.Dialer) error { return l.Close() }},
	{"Listener.SetOption", func(l mangos.Listener, d mangos.Dialer) error { return l.SetOption(mangos.OptionMaxRecvSize, 4096) }},
	{"Listener.GetOption", func(l mangos.Listener, d mangos.Dialer) error { _, err := l.GetOption(mangos.OptionMaxRecvSize); return err }},
	{"Listener.Address", func(l mangos.Listener, d mangos.Dialer) error { _ = l.Address(); return nil }},
	{"Dialer.Dial", func(l mangos.Listener, d mangos.Dialer) error { return d.Dial() }},
	{"Dialer.Close", func(l mangos.Listener, d mangos.Dialer) error { return d.Close() }},
	{"Dialer.SetOption", func(l mangos.Listener, d mangos.Dialer) error { return d.SetOption(mangos.OptionReconnectTime, 50*time.Millisecond) }},
	{"Dialer.GetOption", func(l mangos.Listener, d mangos.Dialer) error { _, err := d.GetOption(mangos.OptionReconnectTime); return err }},
	{"Dialer.Address", func(l mangos.Listener, d mangos.Dialer) error { _ = d.Address(); return nil }},
	// options the endpoint itself does not know are passed on to the transport and then to the socket
	{"Dialer.GetOption(MaxRecvSize)", func(l mangos.Listener, d mangos.Dialer) error { _, err := d.GetOption(mangos.OptionMaxRecvSize); return err }},
	{"Dialer.GetOption(unknown)", func(l mangos.Listener, d mangos.Dialer) error { _, err := d.GetOption("NO-SUCH-OPTION"); return err }},
	{"Listener.GetOption(unknown)", func(l mangos.Listener, d mangos.Dialer) error { _, err := l.GetOption("NO-SUCH-OPTION"); return err }},
	// socket level calls that reach into every dialer / listener
	{"Socket.SetOption(ReconnectTime)", func(l mangos.Listener, d mangos.Dialer) error { return epSock.SetOption(mangos.OptionReconnectTime, 70*time.Millisecond) }},
	{"Socket.SetOption(MaxReconnectTime)", func(l mangos.Listener, d mangos.Dialer) error { return epSock.SetOption(mangos.OptionMaxReconnectTime, time.Second) }},
	{"Socket.SetOption(MaxRecvSize)", func(l mangos.Listener, d mangos.Dialer) error { return epSock.SetOption(mangos.OptionMaxRecvSize, 8192) }},
	{"Socket.GetOption(ReconnectTime)", func(l mangos.Listener, d mangos.Dialer) error { _, err := epSock.GetOption(mangos.OptionReconnectTime); return err }},
	{"Socket.Close", func(l mangos.Listener, d mangos.Dialer) error { return epSock.Close() }},
}

var epSock mangos.Socket

// TwoThreadsEndpoints is also run under C12 (no call leaves anything locked).
func TwoThreadsEndpoints() { twoThreadsEndpoints() }

func twoThreadsEndpoints() {
	scheme := []string{"vt", "tcp"}[kit.ChooseFree(2)]
	a := kit.ChooseFree(len(epOps))
	b := a + kit.ChooseFree(len(epOps)-a)
	s, err := kinds.ByName("xpub").New()
	if err != nil {
		kit.Failf("setup", "NewSocket: %v", err)
	}
	epSock = s
	laddr, daddr := "vt://c11-ep-l", "vt://c11-ep-d"
	if scheme == "tcp" {
		laddr, daddr = "tcp://127.0.0.1:4500", "tcp://127.0.0.1:4501"
		vnet.VGet("127.0.0.1:4501").HarnessListen(true)
	} else {
		vt.Get("c11-ep-d").Script(vt.DialOK)
	}
	l, err := s.NewListener(laddr, nil)
	if err != nil {
		kit.Failf("setup", "NewListener: %s", kit.ErrName(err))
	}
	// the dialer dials in the background or synchronously (free choice: the two take different paths through Dial)
	// (over the in-memory tcp network nobody answers the handshake: a synchronous Dial would wait, as documented)
	asynch := scheme == "tcp" || kit.ChooseFree(2) == 1
	d, err := s.NewDialer(daddr, map[string]interface{}{mangos.OptionDialAsynch: asynch})
	if err != nil {
		kit.Failf("setup", "NewDialer: %s", kit.ErrName(err))
	}
	kit.Observe("%s/%v: %s || %s", scheme, asynch, epOps[a].name, epOps[b].name)
	ca := kit.Start("A:"+epOps[a].name, func() (interface{}, error) { return nil, epOps[a].run(l, d) })
	cb := kit.Start("B:"+epOps[b].name, func() (interface{}, error) { return nil, epOps[b].run(l, d) })
	kit.Quiesce()
	kit.Sleep(time.Second)
	kit.Quiesce()
	for _, c := range []*kit.Call{ca, cb} {
		if !c.Done() {
			kit.Failf("call-never-returns:endpoint:"+c.Name, "%s: %s did not return (program %s || %s)", scheme, c.Name, epOps[a].name, epOps[b].name)
		}
		if !allowed[c.Err] {
			kit.Failf("call-unexpected-error:endpoint:"+c.Name, "%s: %s returned %s", scheme, c.Name, kit.ErrName(c.Err))
		}
	}
	if a == b && (epOps[a].name == "Listener.Listen" || epOps[a].name == "Dialer.Dial") {
		if (ca.Err == nil) == (cb.Err == nil) {
			kit.Failf("started-twice:"+epOps[a].name, "%s: two concurrent %s calls on one object returned %s and %s; exactly one may take effect", scheme, epOps[a].name, kit.ErrName(ca.Err), kit.ErrName(cb.Err))
		}
	}
	if a == b && epOps[a].name == "Dialer.Dial" && scheme == "vt" {
		if n := vt.Get("c11-ep-d").NumPipes(); n > 1 {
			kit.Failf("started-twice:Dialer.Dial", "two concurrent Dial calls on one dialer (asynchronous: %v) made %d connections", asynch, n)
		}
	}
	gc := kit.Start("GetOption-after", func() (interface{}, error) { _, err := s.GetOption(mangos.OptionReconnectTime); return nil, err })
	kit.Quiesce()
	if !gc.Done() {
		kit.Failf("socket-wedged:endpoint", "%s: Socket.GetOption blocks after %s || %s", scheme, epOps[a].name, epOps[b].name)
	}
	cc := kit.Start("Close-after", func() (interface{}, error) { return nil, s.Close() })
	kit.Quiesce()
	if !cc.Done() {
		kit.Failf("close-blocks:endpoint", "%s: socket Close blocks after %s || %s", scheme, epOps[a].name, epOps[b].name)
	}
	vnet.VResetAll()
	vt.DropAll()
	kit.Sleep(time.Hour)
	kit.Quiesce()
	if bad := kit.Census(); bad != "" {
		kit.Failf("leak-after-close:endpoint", "%s after %s || %s and Close: %s", scheme, epOps[a].name, epOps[b].name, bad)
	}
}

var allowed = map[error]bool{
	nil: true, mangos.ErrClosed: true, mangos.ErrRecvTimeout: true, mangos.ErrSendTimeout: true, mangos.ErrProtoState: true,
	mangos.ErrCanceled: true, mangos.ErrProtoOp: true, mangos.ErrBadOption: true, mangos.ErrBadValue: true, mangos.ErrNoPeers: true,
	mangos.ErrAddrInUse: true, mangos.ErrConnRefused: true,
}

func twoThreads(k *kinds.Kind, full bool) {
	w := &world{k: k}
	s, err := k.New()
	if err != nil {
		kit.Failf("setup", "NewSocket: %v", err)
	}
	w.hook = func(ev mangos.PipeEvent, p mangos.Pipe) {
		switch ev {
		case mangos.PipeEventAttached:
			w.attached++
			if w.pipe == nil {
				w.pipe = p
			}
		case mangos.PipeEventDetached:
			w.detached++
			_ = p.Close() // closing a pipe again from its Detached callback is legal (Close is idempotent)
		}
	}
	s.SetPipeEventHook(w.hook)
	w.x = &kinds.Sock{K: k, S: s, EP: vt.Get("c11")}
	if err := s.Listen("vt://c11"); err != nil {
		kit.Failf("setup", "Listen: %s", kit.ErrName(err))
	}
	w.x.P = w.x.EP.Connect()
	kit.Quiesce()
	// calls never wait for ever: documented blocking calls get a deadline
	_ = s.SetOption(mangos.OptionRecvDeadline, time.Second)
	_ = s.SetOption(mangos.OptionSendDeadline, time.Second)
	if k.Ctx {
		w.ctx, _ = s.OpenContext()
		// (not every pattern's contexts inherit the socket's deadlines)
		_ = w.ctx.SetOption(mangos.OptionRecvDeadline, time.Second)
		_ = w.ctx.SetOption(mangos.OptionSendDeadline, time.Second)
	}
	w.x.PrepRecv()
	if k.NeedReq {
		// a server-style pattern answers: a request has been received on the socket and on the
		// context, so that Send is a legal call for both threads
		if w.x.Feed("request-for-the-socket") {
			c := kit.Start("prep-recv", func() (interface{}, error) { return w.x.Recv() })
			kit.Quiesce()
			if !c.Done() || c.Err != nil {
				kit.Failf("setup", "%s: preparatory Recv: done=%v %s", k.Name, c.Done(), kit.ErrName(c.Err))
			}
		}
		if w.ctx != nil && w.x.Feed("request-for-the-context") {
			c := kit.Start("prep-ctx-recv", func() (interface{}, error) { b, err := w.ctx.Recv(); return string(b), err })
			kit.Quiesce()
			if !c.Done() || c.Err != nil {
				kit.Failf("setup", "%s: preparatory ctx.Recv: done=%v %s", k.Name, c.Done(), kit.ErrName(c.Err))
			}
		}
	}
	// choose the program
	var cand []int
	for i, o := range ops {
		if o.ok == nil || o.ok(w) {
			cand = append(cand, i)
		}
	}
	a := cand[kit.ChooseFree(len(cand))]
	var second []int
	for _, i := range cand {
		if i < a {
			continue
		}
		mut := func(o op) bool {
			// (for the server-style patterns a Send consumes the pending request: it changes state)
			return o.mutator || (k.NeedReq && (o.name == "Send" || o.name == "ctx.Send"))
		}
		if !full && !mut(ops[a]) && !mut(ops[i]) {
			continue // quick tier: at least one of the two calls changes state
		}
		second = append(second, i)
	}
	if len(second) == 0 {
		return
	}
	b := second[kit.ChooseFree(len(second))]
	kit.Observe("%s: %s || %s", k.Name, ops[a].name, ops[b].name)
	kit.Tracef("program %s || %s", ops[a].name, ops[b].name)
	ca := kit.Start("A:"+ops[a].name, func() (interface{}, error) { return nil, ops[a].run(w) })
	cb := kit.Start("B:"+ops[b].name, func() (interface{}, error) { return nil, ops[b].run(w) })
	kit.Quiesce()
	kit.Sleep(3 * time.Second)
	kit.Quiesce()
	for _, c := range []*kit.Call{ca, cb} {
		if !c.Done() {
			kit.Failf("call-never-returns:"+k.Name+":"+c.Name, "%s: %s did not return (program %s || %s)", k.Name, c.Name, ops[a].name, ops[b].name)
		}
		if !allowed[c.Err] {
			kit.Failf("call-unexpected-error:"+k.Name+":"+c.Name, "%s: %s returned %s", k.Name, c.Name, kit.ErrName(c.Err))
		}
	}
	// the socket still answers afterwards
	c := kit.Start("GetOption-after", func() (interface{}, error) { _, err := s.GetOption(mangos.OptionRaw); return nil, err })
	kit.Quiesce()
	if !c.Done() {
		kit.Failf("socket-wedged:"+k.Name, "%s: GetOption blocks after %s || %s", k.Name, ops[a].name, ops[b].name)
	}
	cc := kit.Start("Close-after", func() (interface{}, error) { return nil, s.Close() })
	kit.Quiesce()
	if !cc.Done() {
		kit.Failf("close-blocks:"+k.Name, "%s: Close blocks after %s || %s", k.Name, ops[a].name, ops[b].name)
	}
	// nothing of the socket survives its Close, whatever the two calls did
	kit.Sleep(time.Hour)
	kit.Quiesce()
	if w.attached != w.detached {
		kit.Failf("lifecycle-unbalanced:"+k.Name, "%s after %s || %s and Close: %d pipe(s) attached, %d detached", k.Name, ops[a].name, ops[b].name, w.attached, w.detached)
	}
	if bad := kit.Census(); bad != "" {
		kit.Failf("leak-after-close:"+k.Name, "%s after %s || %s and Close: %s", k.Name, ops[a].name, ops[b].name, bad)
	}
}
