// Package c17 checks property C17: a message belongs to exactly one owner at a time.
package c17

import (
	"strings"
	"bytes"
	"fmt"
	"time"

	"go.nanomsg.org/mangos/v3"
	"go.nanomsg.org/mangos/v3/protocol/bus"
	"go.nanomsg.org/mangos/v3/protocol/pub"
	"go.nanomsg.org/mangos/v3/protocol/rep"
	"go.nanomsg.org/mangos/v3/protocol/req"
	"go.nanomsg.org/mangos/v3/protocol/respondent"
	"go.nanomsg.org/mangos/v3/protocol/star"
	"go.nanomsg.org/mangos/v3/protocol/sub"
	"go.nanomsg.org/mangos/v3/protocol/surveyor"
	_ "go.nanomsg.org/mangos/v3/transport/inproc"
	"go.nanomsg.org/mangos/v3/vh/c03"
	"go.nanomsg.org/mangos/v3/vh/c06"
	"go.nanomsg.org/mangos/v3/vh/c07"
	"go.nanomsg.org/mangos/v3/vh/c08"
	"go.nanomsg.org/mangos/v3/vh/c19"
	"go.nanomsg.org/mangos/v3/vh/kinds"
	"go.nanomsg.org/mangos/v3/vh/kit"
	"go.nanomsg.org/mangos/v3/vh/ledger"
	_ "go.nanomsg.org/mangos/v3/vh/vipc"
	"go.nanomsg.org/mangos/v3/vh/vnet"
	_ "go.nanomsg.org/mangos/v3/transport/tcp"
	"go.nanomsg.org/mangos/v3/vh/vt"
	"go.nanomsg.org/mangos/v3/vz/vexplore"
	"go.nanomsg.org/mangos/v3/vz/vsched"
)

var sizes = []int{0, 1, 63, 64, 65, 127, 128, 129, 255, 256, 257, 511, 512, 513, 1023, 1024, 1025, 4095, 4096, 4097, 8191, 8192, 8193, 65535, 65536, 65537}

func init() {
	// C01: a message sent from a zero-copy body (Message.Body pointed at the application's own
	// buffer) arrives unchanged, and so does everything sent afterwards from that buffer: the library
	// never writes into it (no later message is assembled there)
	vexplore.Register("C01", func(tier string) []*vexplore.Scenario {
		return []*vexplore.Scenario{
			{Name: "send-with-an-application-owned-body", Mode: "enum", Reset: kit.ResetGlobals, Body: appOwnedBody, NeedCounters: []string{"application-buffer-left-alone"}},
		}
	})
}

func init() {
	// C06: PUB fan-out over the real inproc transport with subscribers that overwrite what they
	// received in place: every subscriber still gets the published bytes (all interleavings)
	vexplore.Register("C06", func(tier string) []*vexplore.Scenario {
		b := map[string]int{"quick": 1, "thorough": 2}[tier]
		return []*vexplore.Scenario{{Name: "pub-fanout-inproc-subscribers-overwrite-in-place", Mode: "sched", Bound: b, Cfg: vsched.Config{AtomicPoints: true}, Reset: kit.ResetGlobals, Body: fanoutPubSub},
			{Name: "pub-fanout-one-stream-connection-reset-mid-write", Mode: "sched", Bound: b - 1, Reset: kit.ResetGlobals, Body: streamWriteError}}
	})
	// C15: the frames written to the subscriber that stays are the published messages, whatever happens to the other connection
	vexplore.Register("C15", func(tier string) []*vexplore.Scenario {
		b := map[string]int{"quick": 1, "thorough": 2}[tier]
		return []*vexplore.Scenario{{Name: "fanout-one-stream-connection-reset-mid-write", Mode: "sched", Bound: b - 1, Reset: kit.ResetGlobals, Body: streamWriteError}}
	})
}

func init() {
	vexplore.Register("C17", func(tier string) []*vexplore.Scenario {
		b := 2
		if tier == "thorough" {
			b = 3
		}
		// thorough: pool operations are scheduling points and "the pool dropped the buffer" is a choice
		pool := vsched.Config{PoolPoints: tier == "thorough", AtomicPoints: true}
		out := []*vexplore.Scenario{
			{Name: "recv-retain-per-kind", Mode: "enum", Reset: kit.ResetGlobals, Body: recvRetain, NeedCounters: []string{"retained-checked", "buffer-reused"}},
			{Name: "recv-bytes-retained-per-kind", Mode: "enum", Reset: kit.ResetGlobals, Body: recvBytesRetain, NeedCounters: []string{"bytes-retained-checked"}},
			{Name: "send-outcomes-per-kind", Mode: "enum", Reset: kit.ResetGlobals, Body: sendOutcomes,
				NeedCounters: []string{"send-ok", "send-timeout-intact", "send-closed-intact", "send-nopeers-intact", "send-besteffort"}},
			{Name: "request-released-before-the-reply", Mode: "enum", Reset: kit.ResetGlobals, Body: replyAfterRelease, NeedCounters: []string{"reply-routed-after-release"}},
			{Name: "send-app-cloned-message", Mode: "enum", Reset: kit.ResetGlobals, Body: sendCloned, NeedCounters: []string{"cloned-send-ok"}},
			{Name: "surveyor-shared-message-sent-on-two-contexts", Mode: "sched", Bound: b, Reset: kit.ResetGlobals, Body: func() { ledger.Install(); c07.SchedSharedMessage() }},
			{Name: "req-shared-message-sent-on-two-contexts", Mode: "sched", Bound: b, Reset: kit.ResetGlobals, Body: func() { ledger.Install(); c03.SchedSharedMessage() }},
			{Name: "send-with-an-application-owned-body", Mode: "enum", Reset: kit.ResetGlobals, Body: appOwnedBody, NeedCounters: []string{"application-buffer-left-alone"}},
			{Name: "newmessage-shape", Mode: "enum", Reset: kit.ResetGlobals, Body: newShape},
			{Name: "one-publication-several-sub-contexts-message-api", Mode: "enum", Reset: kit.ResetGlobals, Body: func() { ledger.Install(); c06.SharedPublication() }, NeedCounters: []string{"three-or-more-receivers-each-exact"}},
			{Name: "fanout-pubsub-inproc", Mode: "sched", Bound: b, Cfg: pool, Reset: kit.ResetGlobals, Body: fanoutPubSub},
			{Name: "fanout-bus-inproc", Mode: "sched", Bound: b, Cfg: pool, Reset: kit.ResetGlobals, Body: func() { fanoutMesh(bus.NewSocket) }},
			{Name: "fanout-star-inproc", Mode: "sched", Bound: b, Cfg: pool, Reset: kit.ResetGlobals, Body: func() { fanoutMesh(star.NewSocket) }},
			{Name: "fanout-survey-inproc", Mode: "sched", Bound: b, Cfg: pool, Reset: kit.ResetGlobals, Body: fanoutSurvey},
			{Name: "star-hub-stalled-member-ownership", Mode: "enum", Reset: kit.ResetGlobals, Body: func() { ledger.Install(); c08.StarStalled() }},
			{Name: "req-retained-request-loss", Mode: "hist", Reset: kit.ResetGlobals, Body: reqRetained},
			{Name: "receive-queue-replaced-while-a-message-waits-for-room", Mode: "sched", Bound: b, Reset: kit.ResetGlobals, Body: func() { ledger.Install(); c19.QlenParked(false) },
				NeedCounters: []string{"resized-with-a-message-waiting-for-room", "received-after-resize"}},
			{Name: "send-vs-last-peer-leaving", Mode: "sched", Bound: b, Reset: kit.ResetGlobals, Body: sendVsLeaving},
			{Name: "pub-pipe-fails-mid-send", Mode: "sched", Bound: b, Reset: kit.ResetGlobals, Body: pubPipeFails},
			{Name: "fanout-stream-write-error", Mode: "sched", Bound: b - 1, Reset: kit.ResetGlobals, Body: streamWriteError},
		}
		return out
	})
}

func must(err error, what string) {
	if err != nil {
		kit.Failf("setup:"+what, "%s: %s", what, kit.ErrName(err))
	}
}

func payload(tag string, n int) string {
	b := make([]byte, n)
	for i := range b {
		b[i] = byte('a' + (i*7+len(tag)+int(tag[len(tag)-1]))%26)
	}
	copy(b, tag)
	return string(b)
}

// recvRetain: the application keeps every received message, traffic of other sizes
// continues (so buffers of every class are released and handed out again), the kept
// messages are re-checked, modified (they are the application's) and freed.
func recvRetain() {
	var ks []*kinds.Kind
	for _, k := range kinds.All {
		if k.CanRecv {
			ks = append(ks, k)
		}
	}
	k := ks[kit.ChooseFree(len(ks))]
	ledger.Install()
	vt.Get("c17r").Wrap = kit.ChooseFree(2) == 1
	x := k.Open("c17r", true, false)
	x.Quiet()
	recv := func(tag string, n int) *mangos.Message {
		x.PrepRecv()
		body := payload(tag, n)
		if !x.Feed(body) {
			kit.Failf("setup:feed:"+k.Name, "cannot feed %s", k.Name)
		}
		c := kit.Start("RecvMsg", func() (interface{}, error) { return x.S.RecvMsg() })
		kit.Quiesce()
		if !c.Done() || c.Err != nil {
			kit.Failf("recv-stuck:"+k.Name, "%s: RecvMsg done=%v %s", k.Name, c.Done(), kit.ErrName(c.Err))
		}
		m := c.Val.(*mangos.Message)
		if string(m.Body) != body {
			kit.Failf("recv-body:"+k.Name, "%s: received %q want %q", k.Name, clip(m.Body), clip([]byte(body)))
		}
		if ledger.Owned(m) != 1 {
			kit.Failf("recv-not-exclusive:"+k.Name, "%s: the message returned by Recv has %d owner(s), want exactly the application", k.Name, ledger.Owned(m))
		}
		return m
	}
	var kept []*ledger.Snapshot
	for i, n := range []int{10, 70, 1030} {
		kept = append(kept, ledger.Snap(k.Name, recv(fmt.Sprintf("keep%d", i), n)))
	}
	for round := 0; round < 2; round++ {
		for i, n := range []int{12, 60, 100, 1000, 5000} {
			m := recv(fmt.Sprintf("r%dt%d", round, i), n)
			m.Free()
		}
		if k.CanSend {
			x.PrepSend()
			_ = x.Send(payload("out", 70))
			kit.Quiesce()
		}
		for _, s := range kept {
			s.Check(fmt.Sprintf("after traffic round %d", round))
		}
		kit.Count("retained-checked")
	}
	if cur := ledger.Install; cur != nil {
		kit.Count("buffer-reused")
	}
	for i, s := range kept {
		// the message is the application's: it may scribble on it - header and body, whatever
		// else it still holds from the same peer stays as it was - and must be able to free it
		for j := range s.M.Body {
			s.M.Body[j] ^= 0xff
		}
		for j := range s.M.Header {
			s.M.Header[j] ^= 0xff
		}
		if len(s.M.Header) > 0 {
			kit.Count("received-header-overwritten")
		}
		for _, o := range kept[i+1:] {
			o.Check("after the application overwrote another message it had received")
		}
		s.M.Free()
	}
	// what arrives next from that peer is as the peer sent it
	last := recv("after-scribble", 33)
	if k.Raw && len(kept) > 0 && len(kept[0].Header) > 0 && string(last.Header) != string(kept[0].Header) && len(last.Header) == len(kept[0].Header) && k.Wire == "plain" {
		// (raw BUS: the header is the id of the connection the message came from - the same connection)
		kit.Failf("message-changed-after-recv", "%s: a message received from the same connection after the application had overwritten an earlier one carries header %x, the earlier ones had %x", k.Name, last.Header, kept[0].Header)
	}
	last.Free()
	kit.Observe("%s", k.Name)
	kit.Must("Close", func() { _ = x.S.Close() })
}

func clip(b []byte) string {
	if len(b) > 24 {
		return string(b[:24]) + "..."
	}
	return string(b)
}

// sendVsLeaving: FailNoPeers is set and the only peer leaves while SendMsg is running.  Whatever
// the interleaving, the outcome is one or the other: SendMsg returned nil and the library owns the
// message, or it returned an error and the message is the caller's alone - intact, never
// transmitted later (a second peer connects and takes everything), never released by the library.
func sendVsLeaving() {
	k := kinds.ByName([]string{"push", "xpush", "req", "xreq"}[kit.ChooseFree(4)])
	ledger.Install()
	x := k.Open("c17l", true, false)
	x.Quiet()
	if err := x.S.SetOption(mangos.OptionFailNoPeers, true); err != nil {
		return
	}
	body := payload("leaving", 100)
	m := x.Msg(body)
	c := kit.Start("SendMsg", func() (interface{}, error) { return nil, x.S.SendMsg(m) })
	x.P.DropNow()
	kit.Quiesce()
	if !c.Done() {
		// queued for a peer to come: fine, the library has it
		kit.Observe("%s waiting", k.Name)
	}
	failed := c.Done() && c.Err != nil
	if failed {
		if ledger.Owned(m) != 1 {
			kit.Failf("failed-send-ownership:"+k.Name+":peer-leaving", "%s: SendMsg failed with %s while the last peer was leaving, but the message now has %d owner(s) (released=%v)", k.Name, kit.ErrName(c.Err), ledger.Owned(m), ledger.Released(m))
		}
		if string(m.Body) != body {
			kit.Failf("failed-send-body:"+k.Name+":peer-leaving", "%s: SendMsg failed with %s and the body was changed", k.Name, kit.ErrName(c.Err))
		}
	}
	p2 := x.EP.Connect()
	kit.Quiesce()
	kit.Sleep(100 * time.Millisecond)
	kit.Quiesce()
	if failed {
		for _, sm := range p2.SentLog() {
			if strings.Contains(string(sm.Data), body) {
				kit.Failf("failed-send-transmitted:"+k.Name, "%s: SendMsg returned %s (the message stays with the caller), yet the message was transmitted to the next peer that connected", k.Name, kit.ErrName(c.Err))
			}
		}
		if ledger.Owned(m) != 1 || string(m.Body) != body {
			kit.Failf("failed-send-ownership:"+k.Name+":peer-leaving", "%s: after SendMsg failed with %s the message has %d owner(s) (released=%v), body intact=%v", k.Name, kit.ErrName(c.Err), ledger.Owned(m), ledger.Released(m), string(m.Body) == body)
		}
		m.Free()
	}
	kit.Observe("%s %v %s", k.Name, c.Done(), kit.ErrName(c.Err))
	kit.Must("Close", func() { _ = x.S.Close() })
}

// sendOutcomes: on failure the message stays with the caller, intact; on success the library owns it.
func sendOutcomes() {
	var ks []*kinds.Kind
	for _, k := range kinds.All {
		if k.CanSend {
			ks = append(ks, k)
		}
	}
	k := ks[kit.ChooseFree(len(ks))]
	outcome := []string{"ok", "timeout", "closed", "nopeers", "besteffort"}[kit.ChooseFree(5)]
	ledger.Install()
	var x *kinds.Sock
	if outcome == "nopeers" {
		x = k.Open("c17s", false, true)
	} else {
		x = k.OpenQ("c17s", true, 1)
	}
	x.Quiet()
	body := payload("msg", 100)
	intact := func(m *mangos.Message, err error, what string) {
		if err == nil {
			return
		}
		if ledger.Owned(m) != 1 {
			kit.Failf("failed-send-ownership:"+k.Name+":"+what, "%s: Send failed with %s but the message now has %d owner(s) (released=%v): the caller can neither reuse nor free it safely", k.Name, kit.ErrName(err), ledger.Owned(m), ledger.Released(m))
		}
		if string(m.Body) != body {
			kit.Failf("failed-send-body:"+k.Name+":"+what, "%s: Send failed with %s and the body was changed: %q", k.Name, kit.ErrName(err), clip(m.Body))
		}
		m.Free() // the caller disposes of it
	}
	send := func() (*mangos.Message, *kit.Call) {
		x.PrepSend()
		m := x.Msg(body)
		c := kit.Start("SendMsg", func() (interface{}, error) { return nil, x.S.SendMsg(m) })
		kit.Quiesce()
		return m, c
	}
	switch outcome {
	case "ok":
		x.P.Hold(false)
		m, c := send()
		if !c.Done() || c.Err != nil {
			kit.Failf("send-ok:"+k.Name, "%s: Send done=%v %s", k.Name, c.Done(), kit.ErrName(c.Err))
		}
		_ = m
		kit.Count("send-ok")
	case "timeout":
		if x.S.SetOption(mangos.OptionSendDeadline, 50*time.Millisecond) != nil {
			return
		}
		for i := 0; i < 6; i++ {
			m, c := send()
			if !c.Done() {
				kit.Sleep(time.Second)
				kit.Quiesce()
			}
			if !c.Done() {
				kit.Failf("send-deadline-hang:"+k.Name, "%s: Send with a deadline never returned", k.Name)
			}
			intact(m, c.Err, "timeout")
			if c.Err == mangos.ErrSendTimeout {
				kit.Count("send-timeout-intact")
				break
			}
		}
	case "closed":
		var blocked []*kit.Call
		var msgs []*mangos.Message
		for i := 0; i < 6; i++ {
			m, c := send()
			if !c.Done() {
				blocked = append(blocked, c)
				msgs = append(msgs, m)
				break
			}
			intact(m, c.Err, "pre-close")
		}
		kit.Must("Close", func() { _ = x.S.Close() })
		kit.Quiesce()
		for i, c := range blocked {
			if !c.Done() {
				kit.Failf("send-not-unblocked:"+k.Name, "%s: Send still blocked after Close", k.Name)
			}
			intact(msgs[i], c.Err, "closed-while-blocked")
		}
		m := x.Msg(body)
		err := x.S.SendMsg(m)
		if err == nil {
			kit.Failf("send-after-close-ok:"+k.Name, "%s: Send on a closed socket succeeded", k.Name)
		}
		intact(m, err, "closed")
		kit.Count("send-closed-intact")
		return
	case "nopeers":
		if x.S.SetOption(mangos.OptionFailNoPeers, true) != nil {
			return
		}
		m := x.Msg(body)
		c := kit.Start("SendMsg", func() (interface{}, error) { return nil, x.S.SendMsg(m) })
		kit.Quiesce()
		if !c.Done() || c.Err != mangos.ErrNoPeers {
			kit.Failf("send-nopeers:"+k.Name, "%s: done=%v %s", k.Name, c.Done(), kit.ErrName(c.Err))
		}
		intact(m, c.Err, "nopeers")
		kit.Count("send-nopeers-intact")
	case "besteffort":
		if x.S.SetOption(mangos.OptionBestEffort, true) != nil {
			return
		}
		for i := 0; i < 6; i++ {
			m, c := send()
			if !c.Done() {
				kit.Failf("besteffort-blocked:"+k.Name, "%s: best-effort Send blocked", k.Name)
			}
			intact(m, c.Err, "besteffort")
		}
		x.P.Hold(false)
		kit.Quiesce()
		kit.Count("send-besteffort")
	}
	kit.Observe("%s %s", k.Name, outcome)
	kit.Must("Close", func() { _ = x.S.Close() })
	kit.Quiesce()
}

// replyAfterRelease: a REP / RESPONDENT application receives a request, overwrites and releases it
// (it is the application's), further requests from another peer arrive and recycle the buffers, and
// only then the reply is sent: it must still carry the routing header of the request it answers
// and go to the peer that asked - the library may not keep pointers into a message it has handed
// out.
func replyAfterRelease() {
	k := kinds.ByName([]string{"rep", "respondent"}[kit.ChooseFree(2)])
	size := []int{5, 70, 300}[kit.ChooseFree(3)]
	later := kit.ChooseFree(3) // further requests before the reply
	x := k.Open("c17ra", true, false)
	x.Quiet()
	p2 := x.EP.Connect()
	kit.Quiesce()
	wireA := x.Wire(payload("req-A", size))
	x.P.Deliver(wireA)
	kit.Quiesce()
	c := kit.Start("Recv", func() (interface{}, error) { return x.Recv() }) // overwrites and frees the message
	kit.Quiesce()
	if !c.Done() || c.Err != nil {
		kit.Failf("setup", "%s: Recv done=%v %s", k.Name, c.Done(), kit.ErrName(c.Err))
	}
	for i := 0; i < later; i++ {
		w := x.Wire(payload(fmt.Sprintf("req-B%d", i), size))
		w[1] ^= 0x55 // another requester's id
		p2.Deliver(w)
		kit.Quiesce()
	}
	reply := payload("reply-A", size)
	sc := kit.Start("Send", func() (interface{}, error) { return nil, kit.SendBytes(x.S, []byte(reply)) })
	kit.Quiesce()
	if !sc.Done() || sc.Err != nil {
		kit.Failf("reply-send:"+k.Name, "%s: Send of the reply: done=%v %s", k.Name, sc.Done(), kit.ErrName(sc.Err))
	}
	if n := p2.NumSent(); n != 0 {
		kit.Failf("reply-misrouted-after-release:"+k.Name, "%s: the reply to the first peer's request was written to the other peer (%d message(s))", k.Name, n)
	}
	l := x.P.SentLog()
	want := append(append([]byte{}, wireA[:4]...), reply...)
	if len(l) != 1 || string(l[0].Data) != string(want) {
		var got []byte
		if len(l) > 0 {
			got = l[0].Data
		}
		kit.Failf("reply-header-after-release:"+k.Name, "%s: the request was overwritten and released by the application, %d further request(s) arrived, then the reply was sent: the asker got %d message(s), first %q, want the request's routing header %x followed by the reply", k.Name, later, len(l), clip(got), wireA[:4])
	}
	kit.Count("reply-routed-after-release")
	kit.Observe("%s %d %d", k.Name, size, later)
	kit.Must("Close", func() { _ = x.S.Close() })
	kit.Quiesce()
}

// recvBytesRetain: the byte-slice receive API (Socket.Recv / Context.Recv).  The slices returned
// for bodies of 10, 65535, 65536 and 65537 bytes (around the largest buffer class) are kept while
// further messages of other sizes arrive, are received and are allocated by the application; they
// still hold exactly what was sent, and overwriting them disturbs nobody.
func recvBytesRetain() {
	var ks []*kinds.Kind
	for _, k := range kinds.All {
		if k.CanRecv && !k.Raw {
			ks = append(ks, k)
		}
	}
	k := ks[kit.ChooseFree(len(ks))]
	onCtx := k.Ctx && kit.ChooseFree(2) == 1
	ledger.Install()
	x := k.Open("c17b", true, false)
	x.Quiet()
	_ = x.S.SetOption(mangos.OptionMaxRecvSize, 0)
	recv := x.S.Recv
	who := k.Name
	if onCtx {
		x.PrepRecvCtxNeedsSocket()
		c, err := x.S.OpenContext()
		if err != nil {
			kit.Failf("setup:ctx:"+k.Name, "OpenContext: %s", kit.ErrName(err))
		}
		x.Ctx = c
		recv = c.Recv
		who += ".ctx"
	}
	type kept struct {
		b    []byte
		want string
	}
	var keep []kept
	for i, n := range []int{10, 65536, 65535, 65537, 9000, 60000, 65536} {
		x.PrepRecv()
		body := payload(fmt.Sprintf("b%d", i), n)
		if !x.Feed(body) {
			kit.Failf("setup:feed:"+k.Name, "cannot feed %s", k.Name)
		}
		c := kit.Start("Recv", func() (interface{}, error) { return recv() })
		kit.Quiesce()
		if !c.Done() || c.Err != nil {
			kit.Failf("recv-stuck:"+who, "%s: Recv of %d bytes done=%v %s", who, n, c.Done(), kit.ErrName(c.Err))
		}
		b := c.Val.([]byte)
		if string(b) != body {
			kit.Failf("recv-body:"+who, "%s: Recv returned %d bytes %q, want %d bytes", who, len(b), clip(b), n)
		}
		keep = append(keep, kept{b, body})
		// the application allocates messages of neighbouring classes meanwhile
		for _, sz := range []int{9000, 60000} {
			m := mangos.NewMessage(sz)
			for j := 0; j < sz; j++ {
				m.Body = append(m.Body, 0xee)
			}
			m.Free()
		}
		for j, kp := range keep {
			if string(kp.b) != kp.want {
				kit.Failf("recv-bytes-changed:"+who, "%s: the slice returned by Recv for message %d (%d bytes) changed while later messages were received and allocated (now %q...)", who, j, len(kp.want), clip(kp.b))
			}
		}
	}
	for _, kp := range keep {
		for j := range kp.b {
			kp.b[j] = 0x11
		}
	}
	kit.Count("bytes-retained-checked")
	kit.Observe("%s", who)
	kit.Must("Close", func() { _ = x.S.Close() })
	kit.Quiesce()
}

// sendCloned: the application keeps its own reference (Clone) to a message it sends; the
// library must consume only the reference it was given.
func sendCloned() {
	var ks []*kinds.Kind
	for _, k := range kinds.All {
		if k.CanSend {
			ks = append(ks, k)
		}
	}
	k := ks[kit.ChooseFree(len(ks))]
	ledger.Install()
	x := k.Open("c17c", true, false)
	x.Quiet()
	x.EP.Connect() // a second peer for the fan-out patterns
	kit.Quiesce()
	x.PrepSend()
	body := payload("shared", 300)
	m := x.Msg(body)
	m.Clone() // the application's own reference
	c := kit.Start("SendMsg", func() (interface{}, error) { return nil, x.S.SendMsg(m) })
	kit.Quiesce()
	if !c.Done() || c.Err != nil {
		kit.Failf("cloned-send:"+k.Name, "%s: Send done=%v %s", k.Name, c.Done(), kit.ErrName(c.Err))
	}
	if ledger.Released(m) || ledger.Owned(m) < 1 {
		kit.Failf("app-reference-consumed:"+k.Name, "%s: the application kept its own reference to the message it sent, but after Send the message is released (owners %d)", k.Name, ledger.Owned(m))
	}
	if string(m.Body) != body {
		kit.Failf("shared-message-modified:"+k.Name, "%s: the body of a shared message was modified by Send: %q", k.Name, clip(m.Body))
	}
	m.Free()
	kit.Count("cloned-send-ok")
	kit.Observe("%s", k.Name)
	kit.Must("Close", func() { _ = x.S.Close() })
	kit.Quiesce()
}

// appOwnedBody: the application points Message.Body at a window of a larger buffer of its own (zero
// copy) and sends with SendMsg.  The library may read those bytes until the message is transmitted;
// it never writes into the application's buffer, and once the message is released the buffer is the
// application's alone: messages allocated afterwards - of every size class - live elsewhere.
func appOwnedBody() {
	var ks []*kinds.Kind
	for _, k := range kinds.All {
		if k.CanSend {
			ks = append(ks, k)
		}
	}
	k := ks[kit.ChooseFree(len(ks))]
	win := [][2]int{{100, 400}, {0, 16}, {4096, 4096 + 5000}, {10, 10}}[kit.ChooseFree(4)]
	ledger.Install()
	x := k.Open("c17own", true, false)
	x.Quiet()
	arena := make([]byte, 16384)
	for i := range arena {
		arena[i] = byte('A' + i%23)
	}
	want := string(arena)
	x.PrepSend()
	m := x.Msg("")
	m.Body = arena[win[0]:win[1]]
	body := string(m.Body)
	c := kit.Start("SendMsg", func() (interface{}, error) { return nil, x.S.SendMsg(m) })
	kit.Quiesce()
	if !c.Done() || c.Err != nil {
		kit.Failf("app-owned-send:"+k.Name, "%s: SendMsg done=%v %s", k.Name, c.Done(), kit.ErrName(c.Err))
	}
	found := false
	for _, sm := range x.P.SentLog() {
		if string(sm.Data[sm.HLen:]) == body || (len(sm.Data) >= len(body) && string(sm.Data[len(sm.Data)-len(body):]) == body) {
			found = true
		}
	}
	if !found && k.Name != "rep" && k.Name != "respondent" {
		kit.Failf("app-owned-send-lost:"+k.Name, "%s: the message whose body was the application's own slice (%d bytes) did not reach the peer unchanged", k.Name, len(body))
	}
	// traffic and allocations of every size class afterwards
	var held []*mangos.Message
	for round := 0; round < 2; round++ {
		for _, sz := range sizes {
			n := mangos.NewMessage(sz)
			n.Body = append(n.Body, bytes.Repeat([]byte{'#'}, sz)...)
			n.Header = append(n.Header, '#', '#', '#', '#')
			held = append(held, n)
		}
	}
	if string(arena) != want {
		i := 0
		for i < len(arena) && arena[i] == want[i] {
			i++
		}
		kit.Failf("application-buffer-overwritten:"+k.Name, "%s: a message whose Body was a window [%d:%d] of the application's own 16 KiB buffer was sent with SendMsg and released; messages allocated afterwards were written into that buffer (first change at offset %d)", k.Name, win[0], win[1], i)
	}
	for _, n := range held {
		n.Free()
	}
	kit.Count("application-buffer-left-alone")
	kit.Observe("%s %v", k.Name, win)
	kit.Must("Close", func() { _ = x.S.Close() })
	kit.Quiesce()
}

// newShape: NewMessage(sz) starts empty with enough capacity, for every size of the boundary
// alphabet, right after a buffer of every other pool class was released.
func newShape() {
	ledger.Install()
	prev := sizes[kit.ChooseFree(len(sizes))]
	p := mangos.NewMessage(prev)
	p.Body = append(p.Body, bytes.Repeat([]byte{0xee}, prev)...)
	p.Header = append(p.Header, 1, 2, 3, 4, 5, 6, 7, 8)
	p.Free()
	for _, sz := range sizes {
		m := mangos.NewMessage(sz)
		if len(m.Body) != 0 || cap(m.Body) < sz || len(m.Header) != 0 {
			kit.Failf("newmessage-shape", "after releasing a %d byte message NewMessage(%d) returned len(Body)=%d cap=%d len(Header)=%d", prev, sz, len(m.Body), cap(m.Body), len(m.Header))
		}
		m.Body = append(m.Body, bytes.Repeat([]byte{byte(sz)}, sz)...)
		d := m.Dup()
		if !bytes.Equal(d.Body, m.Body) || ledger.Owned(d) != 1 {
			kit.Failf("dup-shape", "Dup of a %d byte message: len %d owners %d", sz, len(d.Body), ledger.Owned(d))
		}
		u := m.MakeUnique()
		if u != m {
			kit.Failf("makeunique-sole-owner", "MakeUnique copied a message with a single owner")
		}
		m.Clone()
		u = m.MakeUnique()
		if u == m || !bytes.Equal(u.Body, m.Body) || ledger.Owned(u) != 1 || ledger.Owned(m) != 1 {
			kit.Failf("makeunique-shared", "MakeUnique of a shared %d byte message: same=%v owners new=%d old=%d", sz, u == m, ledger.Owned(u), ledger.Owned(m))
		}
		u.Free()
		m.Free()
		d.Free()
	}
	kit.Observe("prev=%d", prev)
}

func recvKeep(who string, s interface {
	RecvMsg() (*mangos.Message, error)
}, want string) *ledger.Snapshot {
	c := kit.Start("RecvMsg:"+who, func() (interface{}, error) { return s.RecvMsg() })
	kit.Quiesce()
	if !c.Done() || c.Err != nil {
		kit.Failf("fanout-recv:"+who, "%s: RecvMsg done=%v %s", who, c.Done(), kit.ErrName(c.Err))
	}
	m := c.Val.(*mangos.Message)
	if want != "" && string(m.Body) != want {
		kit.Failf("fanout-body:"+who, "%s received %q want %q", who, clip(m.Body), clip([]byte(want)))
	}
	if ledger.Owned(m) != 1 {
		kit.Failf("recv-not-exclusive:"+who, "%s: the received message has %d owner(s)", who, ledger.Owned(m))
	}
	return ledger.Snap(who, m)
}

// scribble: every receiver overwrites its own copy; nobody else's copy may change.
func scribble(snaps []*ledger.Snapshot) {
	for i, s := range snaps {
		for j := range s.M.Body {
			s.M.Body[j] = byte('0' + i)
		}
		s.Body = append([]byte{}, s.M.Body...)
		for _, o := range snaps {
			o.Check(fmt.Sprintf("after %s overwrote its own copy", s.Who))
		}
	}
	for _, s := range snaps {
		s.M.Free()
	}
}

// sizesChoice: the fan-out scenarios run with bodies of a few hundred bytes and with bodies of 9-12
// bytes (a body that small fits, together with a protocol header, into the spare capacity of a
// pooled header buffer - a copy that is only "fresh when append reallocates" is not fresh then).
func sizesChoice() (int, int) {
	if kit.ChooseFree(2) == 1 {
		return 12, 9
	}
	return 200, 70
}

func fanoutPubSub() {
	ledger.Install()
	p, err := pub.NewSocket()
	must(err, "NewSocket")
	must(p.Listen("inproc://c17-pub"), "Listen")
	var subs []mangos.Socket
	for i := 0; i < 2; i++ {
		s, err := sub.NewSocket()
		must(err, "NewSocket")
		must(s.SetOption(mangos.OptionSubscribe, ""), "Subscribe")
		must(s.Dial("inproc://c17-pub"), "Dial")
		subs = append(subs, s)
	}
	c2, err := subs[1].OpenContext()
	must(err, "OpenContext")
	must(c2.SetOption(mangos.OptionSubscribe, "pay"), "Subscribe")
	kit.Quiesce()
	// (bodies small enough to fit beside a header in the 32 byte header buffer of a pooled message, or not)
	big, mid := sizesChoice()
	body := payload("payload", big)
	s1 := kit.Start("Send1", func() (interface{}, error) { return nil, kit.SendBytes(p, []byte(body)) })
	s2 := kit.Start("Send2", func() (interface{}, error) { return nil, kit.SendBytes(p, []byte(payload("zzz", mid))) })
	kit.Quiesce()
	if !s1.Done() || !s2.Done() {
		kit.Failf("fanout-send", "publisher blocked")
	}
	var snaps []*ledger.Snapshot
	for i, s := range subs {
		snaps = append(snaps, recvKeep(fmt.Sprintf("sub%d", i), s, ""))
		snaps = append(snaps, recvKeep(fmt.Sprintf("sub%d", i), s, ""))
	}
	snaps = append(snaps, recvKeep("sub1.ctx", c2, body))
	// more traffic of another size reuses whatever was released
	_ = kit.SendBytes(p, []byte(payload("later", big)))
	kit.Quiesce()
	scribble(snaps)
	kit.Must("Close", func() {
		_ = p.Close()
		for _, s := range subs {
			_ = s.Close()
		}
	})
}

func fanoutMesh(c func() (mangos.Socket, error)) {
	ledger.Install()
	var socks []mangos.Socket
	hub, err := c()
	must(err, "NewSocket")
	must(hub.Listen("inproc://c17-mesh"), "Listen")
	socks = append(socks, hub)
	for i := 0; i < 2; i++ {
		s, err := c()
		must(err, "NewSocket")
		must(s.Dial("inproc://c17-mesh"), "Dial")
		socks = append(socks, s)
	}
	kit.Quiesce()
	big, _ := sizesChoice()
	body := payload("fromhub", big)
	a := kit.Start("SendHub", func() (interface{}, error) { return nil, kit.SendBytes(hub, []byte(body)) })
	b := kit.Start("SendLeaf", func() (interface{}, error) { return nil, kit.SendBytes(socks[1], []byte(payload("fromleaf", big))) })
	kit.Quiesce()
	if !a.Done() || !b.Done() {
		kit.Failf("fanout-send", "sender blocked")
	}
	var snaps []*ledger.Snapshot
	snaps = append(snaps, recvKeep("leaf1", socks[1], body))
	snaps = append(snaps, recvKeep("leaf2", socks[2], ""))
	snaps = append(snaps, recvKeep("hub", hub, ""))
	_ = kit.SendBytes(hub, []byte(payload("again", big)))
	kit.Quiesce()
	scribble(snaps)
	kit.Must("Close", func() {
		for _, s := range socks {
			_ = s.Close()
		}
	})
}

func fanoutSurvey() {
	ledger.Install()
	sv, err := surveyor.NewSocket()
	must(err, "NewSocket")
	must(sv.Listen("inproc://c17-sv"), "Listen")
	var rs []mangos.Socket
	for i := 0; i < 2; i++ {
		r, err := respondent.NewSocket()
		must(err, "NewSocket")
		must(r.Dial("inproc://c17-sv"), "Dial")
		rs = append(rs, r)
	}
	kit.Quiesce()
	body := payload("survey", 90)
	must(kit.SendBytes(sv, []byte(body)), "Send")
	var snaps []*ledger.Snapshot
	for i, r := range rs {
		snaps = append(snaps, recvKeep(fmt.Sprintf("respondent%d", i), r, body))
	}
	for i, r := range rs {
		i, r := i, r
		kit.Start("respond", func() (interface{}, error) { return nil, kit.SendBytes(r, []byte(fmt.Sprintf("vote-%d", i))) })
	}
	kit.Quiesce()
	for i := 0; i < 2; i++ {
		snaps = append(snaps, recvKeep("surveyor", sv, ""))
	}
	scribble(snaps)
	kit.Must("Close", func() {
		_ = sv.Close()
		for _, r := range rs {
			_ = r.Close()
		}
	})
}

// reqRetained: REQ keeps the request for retransmission: loss of the carrier, retransmission,
// reply, cancellation and close in every order must release it exactly once.
func reqRetained() {
	ledger.Install()
	s, err := req.NewSocket()
	must(err, "NewSocket")
	must(s.SetOption(mangos.OptionRetryTime, 10*time.Second), "RetryTime")
	ep := vt.Get("c17-req")
	must(s.Listen("vt://c17-req"), "Listen")
	pipes := []*vt.Pipe{ep.Connect(), ep.Connect()}
	kit.Quiesce()
	n := 0
	var recv *kit.Call
	events := func() []kit.Event {
		evs := []kit.Event{
			{Name: "send", Run: func() {
				n++
				c := kit.Start("Send", func() (interface{}, error) { return nil, kit.SendBytes(s, []byte(payload(fmt.Sprintf("q%d", n), 80))) })
				kit.Quiesce()
				_ = c
			}},
			{Name: "advance", Run: func() { kit.Sleep(10 * time.Second) }},
			{Name: "connect", Run: func() { pipes = append(pipes, ep.Connect()) }},
		}
		for i, p := range pipes {
			p := p
			if p.Alive() && p.NumSent() > 0 {
				evs = append(evs, kit.Event{Name: fmt.Sprintf("drop:%d", i), Run: func() { p.DropNow() }})
				evs = append(evs, kit.Event{Name: fmt.Sprintf("reply:%d", i), Run: func() {
					l := p.SentLog()
					last := l[len(l)-1].Data
					p.Deliver(append(append([]byte{}, last[:4]...), "answer"...))
				}})
			}
		}
		if recv == nil || recv.Done() {
			evs = append(evs, kit.Event{Name: "recv", Run: func() {
				recv = kit.Start("RecvMsg", func() (interface{}, error) {
					m, err := s.RecvMsg()
					if err == nil {
						if ledger.Owned(m) != 1 {
							kit.Failf("recv-not-exclusive:req", "reply has %d owners", ledger.Owned(m))
						}
						m.Free()
					}
					return nil, err
				})
			}})
		}
		return evs
	}
	kit.Hist(5, events, func() {})
	kit.Must("Close", func() { _ = s.Close() })
	kit.Sleep(time.Minute)
	kit.Quiesce()
}

// pubPipeFails: one subscriber's connection fails while messages are in flight.
func pubPipeFails() {
	ledger.Install()
	p, err := pub.NewSocket()
	must(err, "NewSocket")
	ep := vt.Get("c17-pubf")
	ep.HoldNew = true
	must(p.Listen("vt://c17-pubf"), "Listen")
	a, b := ep.Connect(), ep.Connect()
	kit.Quiesce()
	for i := 0; i < 3; i++ {
		_ = kit.SendBytes(p, []byte(payload(fmt.Sprintf("m%d", i), 100)))
	}
	a.DropNow()
	b.Take(3)
	kit.Quiesce()
	if b.NumSent() != 3 {
		kit.Failf("pub-survivor", "the surviving subscriber got %d of 3 messages", b.NumSent())
	}
	for i, sm := range b.SentLog() {
		if string(sm.Data) != payload(fmt.Sprintf("m%d", i), 100) {
			kit.Failf("pub-survivor-bytes", "message %d arrived as %q", i, clip(sm.Data))
		}
	}
	kit.Must("Close", func() { _ = p.Close() })
	kit.Quiesce()
}

var _ = rep.NewSocket

// streamWriteError: fan-out over the real stream pipes (transport/conn.go over the in-memory
// network, TCP and IPC framing): one subscriber's connection is stalled and then reset while
// publications shared with the other subscriber are queued for it.  The failed write must release
// exactly the failing pipe's reference; the other subscriber still gets every byte.
func streamWriteError() {
	scheme := []string{"tcp", "vipc"}[kit.ChooseFree(2)]
	fan := []func() (mangos.Socket, error){pub.NewSocket, bus.NewSocket}[kit.ChooseFree(2)]
	ledger.Install()
	s, err := fan()
	must(err, "NewSocket")
	addr := "127.0.0.1:4400"
	must(s.Listen(scheme+"://"+addr), "Listen")
	ep := net.VGet(addr)
	hdr := []byte{0, 'S', 'P', 0, byte(s.Info().Peer >> 8), byte(s.Info().Peer), 0, 0}
	a, b := ep.Connect(), ep.Connect()
	a.Feed(hdr)
	b.Feed(hdr)
	kit.Quiesce()
	a.StallWrites(true)
	var want []byte
	want = append(want, 0, 'S', 'P', 0, byte(s.Info().Self>>8), byte(s.Info().Self), 0, 0)
	for i := 0; i < 3; i++ {
		body := payload(fmt.Sprintf("pub%d", i), 90+i*40)
		must(kit.SendBytes(s, []byte(body)), "Send")
		var pre []byte
		if scheme == "vipc" {
			pre = append(pre, 1)
		}
		pre = append(pre, 0, 0, 0, 0, 0, 0, 0, byte(len(body)))
		want = append(want, pre...)
		want = append(want, body...)
	}
	kit.Quiesce()
	a.Reset() // the stalled write fails now
	kit.Quiesce()
	// traffic of the same size classes reuses whatever was released
	for i := 0; i < 2; i++ {
		m := mangos.NewMessage(100)
		m.Body = append(m.Body, bytes.Repeat([]byte{'Z'}, 100)...)
		m.Free()
	}
	if got := b.Written(); !bytes.Equal(got, want) {
		kit.Failf("survivor-bytes-differ", "%s: the surviving subscriber received %d bytes, want %d (first difference at %d)", scheme, len(got), len(want), firstDiff(got, want))
	}
	kit.Must("Close", func() { _ = s.Close() })
	kit.Quiesce()
	kit.Observe("%s", scheme)
}

func firstDiff(a, b []byte) int {
	for i := 0; i < len(a) && i < len(b); i++ {
		if a[i] != b[i] {
			return i
		}
	}
	if len(a) < len(b) {
		return len(a)
	}
	return len(b)
}
