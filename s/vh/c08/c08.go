// Package c08 checks property C08: BUS and STAR reach every other member once and never echo to the sender.
package c08

import (
	"bytes"
	"fmt"
	"sort"
	"strings"
	"time"

	"go.nanomsg.org/mangos/v3"
	"go.nanomsg.org/mangos/v3/protocol/bus"
	"go.nanomsg.org/mangos/v3/protocol/star"
	"go.nanomsg.org/mangos/v3/protocol/xbus"
	"go.nanomsg.org/mangos/v3/protocol/xstar"
	_ "go.nanomsg.org/mangos/v3/transport/inproc"
	"go.nanomsg.org/mangos/v3/vh/kit"
	"go.nanomsg.org/mangos/v3/vh/ledger"
	"go.nanomsg.org/mangos/v3/vh/vt"
	"go.nanomsg.org/mangos/v3/vz/vexplore"
	"go.nanomsg.org/mangos/v3/vz/vsched"
)

type ctor func() (mangos.Socket, error)

type topo struct {
	name    string
	ctors   []ctor
	edges   [][2]int // [dialer, listener]
	device  []int    // nodes that run a loop-back device (raw forwarders)
	senders []int
	// expect[s][r]: does receiver r get sender s's message?
	expect func(s, r int) bool
	raw    map[int]bool
}

func init() {
	// C17: a fan-out message whose send to one member fails (the member leaves while the sender is
	// blocked on it) is released once by everybody who held it - the other members' copies are theirs
	// (C01 / C15: what the member that stays is given - the bytes that cross its connection - is what was sent)
	for _, prop := range []string{"C17", "C01", "C15"} {
		vexplore.Register(prop, func(tier string) []*vexplore.Scenario {
			b := map[string]int{"quick": 1, "thorough": 2}[tier]
			return []*vexplore.Scenario{{Name: "member-leaves-while-the-hub-is-sending-to-it", Mode: "sched", Bound: b, Reset: kit.ResetGlobals, Body: memberLeavesMidSend}}
		})
	}
}

func init() {
	vexplore.Register("C08", func(tier string) []*vexplore.Scenario {
		hd := map[string]int{"quick": 5, "thorough": 6}[tier]
		b := 1
		if tier == "thorough" {
			b = 2
		}
		B, S, XB := ctor(bus.NewSocket), ctor(star.NewSocket), ctor(xbus.NewSocket)
		others := func(s, r int) bool { return s != r }
		topos := []*topo{
			{name: "bus-mesh-2", ctors: []ctor{B, B}, edges: [][2]int{{1, 0}}, senders: []int{0, 1}, expect: others},
			{name: "bus-mesh-3", ctors: []ctor{B, B, B}, edges: [][2]int{{1, 0}, {2, 0}, {2, 1}}, senders: []int{0, 1, 2}, expect: others},
			// chain 0 - 1 - 2: cooked BUS does not pass messages on
			{name: "bus-chain-3-no-forwarding", ctors: []ctor{B, B, B}, edges: [][2]int{{0, 1}, {2, 1}}, senders: []int{0, 1, 2},
				expect: func(s, r int) bool { return s != r && (s == 1 || r == 1) }},
			// raw forwarder F=1 with a loop-back device between three cooked members
			{name: "bus-raw-forwarder", ctors: []ctor{B, XB, B, B}, edges: [][2]int{{0, 1}, {2, 1}, {3, 1}}, device: []int{1}, senders: []int{0, 2}, raw: map[int]bool{1: true},
				expect: func(s, r int) bool { return r != 1 && s != r }},
			{name: "star-hub-2-leaves", ctors: []ctor{S, S, S}, edges: [][2]int{{1, 0}, {2, 0}}, senders: []int{0, 1, 2}, expect: others},
			{name: "star-hub-3-leaves", ctors: []ctor{S, S, S, S}, edges: [][2]int{{1, 0}, {2, 0}, {3, 0}}, senders: []int{1, 0}, expect: others},
			// tree: 3 - 0 - 1 - 2
			{name: "star-tree-4", ctors: []ctor{S, S, S, S}, edges: [][2]int{{1, 0}, {2, 1}, {3, 0}}, senders: []int{2, 3}, expect: others},
		}
		if tier == "thorough" {
			topos = append(topos,
				&topo{name: "bus-mesh-4", ctors: []ctor{B, B, B, B}, edges: [][2]int{{1, 0}, {2, 0}, {3, 0}, {2, 1}, {3, 1}, {3, 2}}, senders: []int{0, 3}, expect: others},
				&topo{name: "star-tree-4-all-send", ctors: []ctor{S, S, S, S}, edges: [][2]int{{1, 0}, {2, 1}, {3, 0}}, senders: []int{0, 1, 2, 3}, expect: others},
			)
		}
		var out []*vexplore.Scenario
		for _, t := range topos {
			t := t
			out = append(out, &vexplore.Scenario{Name: t.name, Mode: "sched", Bound: b, Cfg: vsched.Config{MapOrder: true}, Reset: kit.ResetGlobals, Body: func() { run(t, false) }})
		}
		// the same with every member already blocked in Recv when the messages start to flow, so
		// that delivery to the application overlaps with forwarding to the other peers
		for _, t := range topos {
			t := t
			switch t.name {
			case "star-hub-2-leaves", "star-tree-4", "bus-raw-forwarder", "bus-mesh-3":
				out = append(out, &vexplore.Scenario{Name: t.name + "+receivers-waiting", Mode: "sched", Bound: b, Cfg: vsched.Config{MapOrder: true}, Reset: kit.ResetGlobals, Body: func() { run(t, true) }})
			}
		}
		out = append(out, &vexplore.Scenario{Name: "payload-sequences", Mode: "enum", Reset: kit.ResetGlobals, Body: payloads, NeedCounters: []string{"empty-payload-delivered", "header-like-payload-delivered"}})
		out = append(out, &vexplore.Scenario{Name: "bus-slow-peer-and-the-two-queue-lengths", Mode: "enum", Reset: kit.ResetGlobals, Body: busQueueLengths, NeedCounters: []string{"slow-peer-given-all-queued"}})
		out = append(out, &vexplore.Scenario{Name: "bus-received-message-sent-on", Mode: "enum", Reset: kit.ResetGlobals, Body: busSendReceived, NeedCounters: []string{"sent-on-to-every-peer"}})
		out = append(out, &vexplore.Scenario{Name: "xbus-forwarder-builds-a-new-message", Mode: "enum", Reset: kit.ResetGlobals, Body: xbusRebuilt, NeedCounters: []string{"rebuilt-forwarded-to-the-others", "cloned-and-sent-twice"}})
		out = append(out, &vexplore.Scenario{Name: "star-chains-within-hop-limit", Mode: "enum", Reset: kit.ResetGlobals, Body: starChain, NeedCounters: []string{"far-end-reached-at-exact-limit", "passed-on-by-a-member-at-its-own-limit"}})
		out = append(out, &vexplore.Scenario{Name: "star-hub-with-a-stalled-member", Mode: "enum", Reset: kit.ResetGlobals, Body: starStalled, NeedCounters: []string{"healthy-member-got-everything"}})
		out = append(out, &vexplore.Scenario{Name: "once-after-reconnect", Mode: "enum", Reset: kit.ResetGlobals, Body: onceAfterReconnect, NeedCounters: []string{"reconnected-once"}})
		out = append(out, &vexplore.Scenario{Name: "xbus-forward-after-peer-change", Mode: "enum", Reset: kit.ResetGlobals, Body: xbusPeerChange, NeedCounters: []string{"forwarded-to-newcomer"}})
		for _, k := range []struct {
			n string
			c func() (mangos.Socket, error)
		}{{"star", star.NewSocket}, {"xstar", xstar.NewSocket}, {"bus", bus.NewSocket}} {
			k := k
			out = append(out, &vexplore.Scenario{Name: fmt.Sprintf("%s-hub-membership-hist-D%d", k.n, hd), Mode: "hist", Reset: kit.ResetGlobals, Body: func() { hubMembership(k.n, k.c, hd) },
				NeedCounters: []string{"member-replaced-between-two-messages-of-one-peer", "delivered-to-every-other-member"}})
		}
		out = append(out, &vexplore.Scenario{Name: "receive-queue-length-set-with-members-attached", Mode: "sched", Bound: b, Reset: kit.ResetGlobals, Body: resizeAttached})
		out = append(out, &vexplore.Scenario{Name: "member-leaves-while-the-hub-is-sending-to-it", Mode: "sched", Bound: b, Reset: kit.ResetGlobals, Body: memberLeavesMidSend})
		out = append(out, &vexplore.Scenario{Name: "xstar-raw-forward", Mode: "sched", Bound: b, Reset: kit.ResetGlobals, Body: xstarRaw})
		return out
	})
}

func must(err error, what string) {
	if err != nil {
		kit.Failf("setup:"+what, "%s: %s", what, kit.ErrName(err))
	}
}

func run(t *topo, recvFirst bool) {
	n := len(t.ctors)
	socks := make([]mangos.Socket, n)
	attached := make([]int, n)
	for i, c := range t.ctors {
		s, err := c()
		must(err, "NewSocket")
		socks[i] = s
		i := i
		s.SetPipeEventHook(func(ev mangos.PipeEvent, p mangos.Pipe) {
			if ev == mangos.PipeEventAttached {
				attached[i]++
			}
		})
	}
	listening := map[int]bool{}
	for _, e := range t.edges {
		if !listening[e[1]] {
			must(socks[e[1]].Listen(fmt.Sprintf("inproc://c08-%d", e[1])), "Listen")
			listening[e[1]] = true
		}
	}
	deg := make([]int, n)
	for _, e := range t.edges {
		must(socks[e[0]].Dial(fmt.Sprintf("inproc://c08-%d", e[1])), "Dial")
		deg[e[0]]++
		deg[e[1]]++
	}
	kit.Quiesce()
	for i := range socks {
		if attached[i] != deg[i] {
			kit.Failf("setup:attach", "node %d has %d attached pipes, topology says %d", i, attached[i], deg[i])
		}
	}
	for _, d := range t.device {
		must(mangos.Device(socks[d], socks[d]), "Device")
	}
	// optionally every cooked member is already receiving
	early := make([][]string, n)
	var rcalls []*kit.Call
	if recvFirst {
		for r := 0; r < n; r++ {
			if t.raw[r] {
				continue
			}
			want := 0
			for _, s := range t.senders {
				if t.expect(s, r) {
					want++
				}
			}
			r := r
			rcalls = append(rcalls, kit.Start(fmt.Sprintf("RecvLoop:%d", r), func() (interface{}, error) {
				for i := 0; i < want; i++ {
					b, err := kit.Recv(socks[r])
					if err != nil {
						return nil, err
					}
					early[r] = append(early[r], string(b))
				}
				return nil, nil
			}))
		}
		kit.Quiesce()
	}
	// all senders at once
	var calls []*kit.Call
	for _, s := range t.senders {
		s := s
		calls = append(calls, kit.Start(fmt.Sprintf("Send:%d", s), func() (interface{}, error) {
			return nil, kit.SendBytes(socks[s], []byte(fmt.Sprintf("from-%d", s)))
		}))
	}
	kit.Quiesce()
	for _, c := range calls {
		if !c.Done() || c.Err != nil {
			kit.Failf("send-stuck", "%s done=%v %s", c.Name, c.Done(), kit.ErrName(c.Err))
		}
	}
	for _, c := range rcalls {
		if !c.Done() || c.Err != nil {
			kit.Failf("missing", "%s: %s done=%v %s: a member that was already receiving did not get everything it is owed (got %v)", t.name, c.Name, c.Done(), kit.ErrName(c.Err), early)
		}
	}
	// every member drains
	obs := ""
	for r := 0; r < n; r++ {
		if t.raw[r] {
			continue
		}
		var want []string
		for _, s := range t.senders {
			if t.expect(s, r) {
				want = append(want, fmt.Sprintf("from-%d", s))
			}
		}
		got := append([]string{}, early[r]...)
		for {
			c := kit.Start(fmt.Sprintf("Recv:%d", r), func() (interface{}, error) { b, err := kit.Recv(socks[r]); return string(b), err })
			kit.Quiesce()
			if !c.Done() {
				break
			}
			if c.Err != nil {
				kit.Failf("recv-error", "node %d: Recv returned %s", r, kit.ErrName(c.Err))
			}
			got = append(got, c.Val.(string))
			if len(got) > len(t.senders)+2 {
				break
			}
		}
		obs += fmt.Sprintf("%d:%q ", r, got)
		sort.Strings(got)
		sort.Strings(want)
		if fmt.Sprint(got) != fmt.Sprint(want) {
			own := fmt.Sprintf("from-%d", r)
			for _, g := range got {
				if g == own {
					kit.Failf("echo-to-sender", "%s: node %d received its own message (got %q, want %q)", t.name, r, got, want)
				}
			}
			seen := map[string]bool{}
			for _, g := range got {
				if seen[g] {
					kit.Failf("duplicate", "%s: node %d received %q more than once (got %q, want %q)", t.name, r, g, got, want)
				}
				seen[g] = true
			}
			if len(got) < len(want) {
				kit.Failf("missing", "%s: node %d received %q, want %q (queues are not full)", t.name, r, got, want)
			}
			kit.Failf("unexpected", "%s: node %d received %q, want %q", t.name, r, got, want)
		}
	}
	kit.Observe("%s", obs)
	kit.Must("Close", func() {
		for _, s := range socks {
			_ = s.Close()
		}
	})
}

// payloads: "all payloads" - one member sends a sequence of payloads that includes the empty one,
// single zero bytes and bodies that look like the patterns' own headers; every other member of a
// BUS mesh / STAR hub-and-leaves receives exactly that sequence, unchanged.
func payloads() {
	kind := kit.ChooseFree(2) // 0 BUS mesh of 3, 1 STAR hub with 2 leaves
	sender := kit.ChooseFree(3)
	c := ctor(bus.NewSocket)
	edges := [][2]int{{1, 0}, {2, 0}, {2, 1}}
	if kind == 1 {
		c = star.NewSocket
		edges = [][2]int{{1, 0}, {2, 0}}
	}
	socks := make([]mangos.Socket, 3)
	for i := range socks {
		s, err := c()
		must(err, "NewSocket")
		socks[i] = s
	}
	for i := 0; i < 2; i++ {
		must(socks[i].Listen(fmt.Sprintf("inproc://c08p-%d", i)), "Listen")
	}
	for _, e := range edges {
		must(socks[e[0]].Dial(fmt.Sprintf("inproc://c08p-%d", e[1])), "Dial")
	}
	kit.Quiesce()
	seq := []string{"", "\x00", "x", "\x00\x00\x00\x00", "\x00\x00\x00\x01", "\x00\x00\x00\x08rest", "\x80\x00\x00\x01", "", string(make([]byte, 300)), "last"}
	for _, b := range seq {
		cl := kit.Start("Send", func() (interface{}, error) { return nil, kit.SendBytes(socks[sender], []byte(b)) })
		kit.Quiesce()
		if !cl.Done() || cl.Err != nil {
			kit.Failf("send-stuck", "Send(%q) done=%v %s", b, cl.Done(), kit.ErrName(cl.Err))
		}
	}
	for r := range socks {
		if r == sender {
			continue
		}
		for i, b := range seq {
			cl := kit.Start(fmt.Sprintf("Recv:%d", r), func() (interface{}, error) { x, err := kit.Recv(socks[r]); return string(x), err })
			kit.Quiesce()
			if !cl.Done() || cl.Err != nil {
				kit.Failf("payload-missing", "%s: member %d: message %d of the sequence (%d bytes, %q) was not delivered: Recv done=%v %s", []string{"bus", "star"}[kind], r, i, len(b), clipq(b), cl.Done(), kit.ErrName(cl.Err))
			}
			if cl.Val.(string) != b {
				kit.Failf("payload-differs", "%s: member %d: message %d of the sequence: got %q, want %q", []string{"bus", "star"}[kind], r, i, clipq(cl.Val.(string)), clipq(b))
			}
			if b == "" {
				kit.Count("empty-payload-delivered")
			}
			if len(b) == 4 {
				kit.Count("header-like-payload-delivered")
			}
		}
	}
	cl := kit.Start("Recv:sender", func() (interface{}, error) { x, err := kit.Recv(socks[sender]); return string(x), err })
	kit.Quiesce()
	if cl.Done() {
		kit.Failf("echo-to-sender", "the sender received %q / %s", cl.Val, kit.ErrName(cl.Err))
	}
	kit.Observe("%d %d", kind, sender)
	kit.Must("Close", func() {
		for _, s := range socks {
			_ = s.Close()
		}
	})
}

// busQueueLengths: a BUS / raw BUS / STAR socket with WriteQLen 4 and ReadQLen 1 (two separate options) and
// two peers, one of which takes nothing for a while.  Four messages are sent: every Send returns at
// once, the quick peer has all four, and the slow one - whose send queue holds four - is given all
// four, in order, once it takes them.
func busQueueLengths() {
	ki := kit.ChooseFree(3)
	c := []ctor{bus.NewSocket, xbus.NewSocket, star.NewSocket}[ki]
	QueueLengths([]string{"bus", "xbus", "star"}[ki], c, nil, []int{0, 0, 4}[ki])
}

// QueueLengths is the body of the scenario above for any pattern that keeps one send queue per
// connection (also run under C06 for PUB and under C07 for the raw SURVEYOR): hdr is the protocol
// header the application supplies (raw sockets), strip the number of bytes the pattern puts in
// front of the body on the wire.
func QueueLengths(name string, c func() (mangos.Socket, error), hdr []byte, strip int) {
	if kit.ChooseFree(2) == 1 {
		queueZero(name, c, hdr, strip)
		return
	}
	queueLengths(name, c, hdr, strip)
}

// queueZero: the per-connection send queue has length 0 (an accepted value: no buffering, a message
// is handed to a connection's sender directly).  Two or three peers are connected and idle - each
// has taken everything it was given - so "queue space permitting" is satisfied for every one of
// them: each message reaches every peer, in order.
func queueZero(name string, c func() (mangos.Socket, error), hdr []byte, strip int) {
	np := 2 + kit.ChooseFree(2)
	s, err := c()
	must(err, "NewSocket")
	if err := s.SetOption(mangos.OptionWriteQLen, 0); err != nil {
		if err == mangos.ErrBadValue {
			kit.Observe("%s refuses WriteQLen 0", name)
			return
		}
		must(err, "WriteQLen 0")
	}
	ep := vt.Get("c08q")
	must(s.Listen("vt://c08q"), "Listen")
	var pipes []*vt.Pipe
	for i := 0; i < np; i++ {
		pipes = append(pipes, ep.Connect())
		kit.Quiesce()
	}
	want := []string{"z0", "z1", "z2"}
	for _, body := range want {
		cl := kit.Start("Send", func() (interface{}, error) {
			if hdr == nil {
				return nil, kit.SendBytes(s, []byte(body))
			}
			m := mangos.NewMessage(8)
			m.Header = append(m.Header, hdr...)
			m.Body = append(m.Body, body...)
			return nil, s.SendMsg(m)
		})
		kit.Quiesce()
		if !cl.Done() || cl.Err != nil {
			kit.Failf("send-stuck", "%s, WriteQLen 0: Send(%s) with %d idle peers: done=%v %s", name, body, np, cl.Done(), kit.ErrName(cl.Err))
		}
	}
	for pi, p := range pipes {
		var got []string
		for _, sm := range p.SentLog() {
			got = append(got, string(sm.Data[strip:]))
		}
		if fmt.Sprint(got) != fmt.Sprint(want) {
			kit.Failf("idle-peer-skipped-with-queue-length-0", "%s, WriteQLen 0: 3 messages sent one after the other to %d connected, idle peers; peer %d was given %q, want all three", name, np, pi, got)
		}
	}
	kit.Count("unbuffered-queue-every-idle-peer-served")
	kit.Count("slow-peer-given-all-queued")
	kit.Observe("%s zero %d", name, np)
	kit.Must("Close", func() { _ = s.Close() })
}

func queueLengths(name string, c func() (mangos.Socket, error), hdr []byte, strip int) {
	slowFirst := kit.ChooseFree(2) == 1
	s, err := c()
	must(err, "NewSocket")
	must(s.SetOption(mangos.OptionWriteQLen, 4), "WriteQLen")
	if err := s.SetOption(mangos.OptionReadQLen, 1); err != nil && err != mangos.ErrBadOption { // send-only patterns have none
		must(err, "ReadQLen")
	}
	ep := vt.Get("c08q")
	must(s.Listen("vt://c08q"), "Listen")
	a, b := ep.Connect(), ep.Connect()
	kit.Quiesce()
	slow, quick := a, b
	if !slowFirst {
		slow, quick = b, a
	}
	slow.Hold(true)
	want := []string{"m0", "m1", "m2", "m3"}
	for _, body := range want {
		cl := kit.Start("Send", func() (interface{}, error) {
			if hdr == nil {
				return nil, kit.SendBytes(s, []byte(body))
			}
			m := mangos.NewMessage(8)
			m.Header = append(m.Header, hdr...)
			m.Body = append(m.Body, body...)
			return nil, s.SendMsg(m)
		})
		kit.Quiesce()
		if !cl.Done() || cl.Err != nil {
			kit.Failf("send-stuck", "%s: Send(%s) with one slow peer: done=%v %s", name, body, cl.Done(), kit.ErrName(cl.Err))
		}
	}
	slow.Hold(false)
	slow.Take(10)
	kit.Quiesce()
	for pi, p := range []*vt.Pipe{quick, slow} {
		var got []string
		for _, sm := range p.SentLog() {
			got = append(got, string(sm.Data[strip:]))
		}
		if fmt.Sprint(got) != fmt.Sprint(want) {
			kit.Failf("queued-for-slow-peer-lost", "%s, WriteQLen 4, ReadQLen 1: 4 messages sent while one peer took nothing; the %s peer was given %q, want all four in order", name, []string{"quick", "slow"}[pi], got)
		}
	}
	kit.Count("slow-peer-given-all-queued")
	kit.Observe("%s %v", name, slowFirst)
	kit.Must("Close", func() { _ = s.Close() })
}

// busSendReceived: the application of a BUS socket receives a message with RecvMsg and sends that
// very message on with SendMsg.  Send delivers to every directly connected peer - the one the
// message came from as well (only the raw socket, where the application sets the header itself,
// leaves the originating connection out).
func busSendReceived() {
	from := kit.ChooseFree(2)
	how := kit.ChooseFree(6)
	s, err := bus.NewSocket()
	must(err, "NewSocket")
	var ids []uint32
	s.SetPipeEventHook(func(ev mangos.PipeEvent, p mangos.Pipe) {
		if ev == mangos.PipeEventAttached {
			ids = append(ids, p.ID())
		}
	})
	ep := vt.Get("c08f")
	must(s.Listen("vt://c08f"), "Listen")
	pipes := []*vt.Pipe{ep.Connect()}
	kit.Quiesce()
	pipes = append(pipes, ep.Connect())
	kit.Quiesce()
	pipes[from].Deliver([]byte("pass-it-on"))
	rc := kit.Start("RecvMsg", func() (interface{}, error) { return s.RecvMsg() })
	kit.Quiesce()
	if !rc.Done() || rc.Err != nil {
		kit.Failf("recv", "RecvMsg done=%v %s", rc.Done(), kit.ErrName(rc.Err))
	}
	m := rc.Val.(*mangos.Message)
	if string(m.Body) != "pass-it-on" {
		kit.Failf("payload-differs", "received %q", m.Body)
	}
	// the Header field of a message is not the application's business on a cooked socket: whatever
	// it holds (what RecvMsg left there, or bytes the application put there - among them the id of
	// one of the socket's connections) is ignored
	hdr := [][]byte{nil, {1}, {1, 2, 3}, {0, 0, 0, 0}, {0, 0, 0, 0}, {1, 2, 3, 4, 5, 6, 7, 8}}[how]
	if how == 3 || how == 4 {
		id := ids[how-3]
		hdr = []byte{byte(id >> 24), byte(id >> 16), byte(id >> 8), byte(id)}
	}
	if how > 0 {
		m.Header = append(m.Header[:0], hdr...)
	}
	sc := kit.Start("SendMsg", func() (interface{}, error) { return nil, s.SendMsg(m) })
	kit.Quiesce()
	if !sc.Done() || sc.Err != nil {
		kit.Failf("send-stuck", "SendMsg of the received message: done=%v %s", sc.Done(), kit.ErrName(sc.Err))
	}
	for pi, p := range pipes {
		l := p.SentLog()
		if len(l) != 1 || string(l[0].Data) != "pass-it-on" {
			var got []string
			for _, sm := range l {
				got = append(got, string(sm.Data))
			}
			kit.Failf("peer-left-out", "a message received from peer %d was sent on with SendMsg (Header field: %x): peer %d was given %q, want the body once (Send goes to every directly connected peer)", from, hdr, pi, got)
		}
	}
	kit.Count("sent-on-to-every-peer")
	kit.Observe("%d %d", from, how)
	kit.Must("Close", func() { _ = s.Close() })
}

// xbusRebuilt: a raw BUS forwarder receives a message and sends it on - the very object, or a new
// message built from the received header and body (what a device that filters or rewrites traffic
// does; the origin is what the header says, nothing else).  It goes to every peer except the one it
// came from.  Another message, from another peer, was received and released just before, so that
// recycled message objects are about.
func xbusRebuilt() {
	from := kit.ChooseFree(3)
	// 0 = the received object is sent on; 1 = a new message built from header and body; 2 = the
	// forwarder takes a second reference (Clone) and sends the message on an uplink bus first, then
	// back onto the bus it came from; 3 = cloned, sent on the bus it came from twice
	mode := kit.ChooseFree(4)
	rebuild := mode == 1
	s, err := xbus.NewSocket()
	must(err, "NewSocket")
	ep := vt.Get("c08r")
	must(s.Listen("vt://c08r"), "Listen")
	var up mangos.Socket
	var upPipes []*vt.Pipe
	if mode == 2 {
		up, err = xbus.NewSocket()
		must(err, "NewSocket")
		must(up.Listen("vt://c08r-up"), "Listen")
		for i := 0; i < 2; i++ {
			upPipes = append(upPipes, vt.Get("c08r-up").Connect())
			kit.Quiesce()
		}
	}
	var pipes []*vt.Pipe
	for i := 0; i < 3; i++ {
		pipes = append(pipes, ep.Connect())
		kit.Quiesce()
	}
	recv := func() *mangos.Message {
		rc := kit.Start("RecvMsg", func() (interface{}, error) { return s.RecvMsg() })
		kit.Quiesce()
		if !rc.Done() || rc.Err != nil {
			kit.Failf("recv", "RecvMsg done=%v %s", rc.Done(), kit.ErrName(rc.Err))
		}
		return rc.Val.(*mangos.Message)
	}
	pipes[(from+1)%3].Deliver([]byte("noise-from-other"))
	m0 := recv()
	pipes[from].Deliver([]byte("forward-this-one"))
	m := recv()
	if string(m.Body) != "forward-this-one" || len(m.Header) != 4 {
		kit.Failf("payload-differs", "received body %q header %x", m.Body, m.Header)
	}
	m0.Free()
	if rebuild {
		n := mangos.NewMessage(len(m.Body))
		n.Header = append(n.Header, m.Header...)
		n.Body = append(n.Body, m.Body...)
		m.Free()
		m = n
	}
	if mode >= 2 {
		m.Clone()
		m2 := m
		first := s
		if mode == 2 {
			first = up
		}
		sc := kit.Start("SendMsg-first", func() (interface{}, error) { return nil, first.SendMsg(m2) })
		kit.Quiesce()
		if !sc.Done() || sc.Err != nil {
			kit.Failf("send-stuck", "SendMsg (first of two sends of a cloned message) done=%v %s", sc.Done(), kit.ErrName(sc.Err))
		}
		for pi, p := range upPipes {
			if l := p.SentLog(); len(l) != 1 || string(l[0].Data) != "forward-this-one" {
				kit.Failf("forwarded-wrongly", "uplink peer %d was given %d message(s), want the forwarded one once", pi, len(l))
			}
		}
		kit.Count("cloned-and-sent-twice")
	}
	sc := kit.Start("SendMsg", func() (interface{}, error) { return nil, s.SendMsg(m) })
	kit.Quiesce()
	if !sc.Done() || sc.Err != nil {
		kit.Failf("send-stuck", "SendMsg done=%v %s", sc.Done(), kit.ErrName(sc.Err))
	}
	for pi, p := range pipes {
		var got []string
		for _, sm := range p.SentLog() {
			got = append(got, string(sm.Data))
		}
		want := "[forward-this-one]"
		if mode == 3 {
			want = "[forward-this-one forward-this-one]"
		}
		if pi == from {
			want = "[]"
		}
		if fmt.Sprint(got) != want {
			kit.Failf("forwarded-wrongly", "raw BUS forwarder, message from peer %d sent on (%s): peer %d was given %q, want %s", from, map[bool]string{false: []string{"the received object", "", "the received object, cloned, after a first send on an uplink bus", "the received object, cloned, sent twice"}[mode], true: "a new message with the received header and body"}[rebuild], pi, got, want)
		}
	}
	if rebuild {
		kit.Count("rebuilt-forwarded-to-the-others")
	}
	kit.Observe("%d %d", from, mode)
	kit.Must("Close", func() {
		_ = s.Close()
		if up != nil {
			_ = up.Close()
		}
	})
}

func clipq(s string) string {
	if len(s) > 24 {
		return s[:24] + "..."
	}
	return s
}

// starChain: a chain of n STAR members (loop-free).  With the hop limit at its default (8) or set
// to exactly the number of hops the far end is away, a message from one end reaches every member
// once; in particular the far end, n-1 hops away, when the limit is n-1.
func starChain() {
	// only >= 0: that member alone has the hop limit set (the others keep the default of 8) - a
	// member's limit decides what it accepts, not what it passes on
	type cfg struct{ n, ttl, only int }
	cfgs := []cfg{{3, 0, -1}, {3, 2, -1}, {4, 3, -1}, {5, 4, -1}, {9, 0, -1}, {4, 0, -1}, {3, 1, 1}, {4, 1, 1}, {4, 2, 1}, {4, 2, 2}, {5, 3, 2}}
	c := cfgs[kit.ChooseFree(len(cfgs))]
	from := kit.ChooseFree(2) // which end sends
	socks := make([]mangos.Socket, c.n)
	for i := range socks {
		s, err := star.NewSocket()
		must(err, "NewSocket")
		if c.ttl > 0 && (c.only < 0 || c.only == i) {
			must(s.SetOption(mangos.OptionTTL, c.ttl), "TTL")
		}
		socks[i] = s
		if i > 0 {
			must(s.Listen(fmt.Sprintf("inproc://c08c-%d", i)), "Listen")
		}
	}
	for i := 0; i+1 < c.n; i++ {
		must(socks[i].Dial(fmt.Sprintf("inproc://c08c-%d", i+1)), "Dial")
	}
	kit.Quiesce()
	sender := 0
	if from == 1 {
		sender = c.n - 1
	}
	cl := kit.Start("Send", func() (interface{}, error) { return nil, kit.SendBytes(socks[sender], []byte("along-the-chain")) })
	kit.Quiesce()
	if !cl.Done() || cl.Err != nil {
		kit.Failf("send-stuck", "Send done=%v %s", cl.Done(), kit.ErrName(cl.Err))
	}
	limit := c.ttl
	if limit == 0 {
		limit = 8
	}
	for r := range socks {
		if r == sender {
			continue
		}
		dist := r - sender
		if dist < 0 {
			dist = -dist
		}
		rc := kit.Start(fmt.Sprintf("Recv:%d", r), func() (interface{}, error) { x, err := kit.Recv(socks[r]); return string(x), err })
		kit.Quiesce()
		reached := dist <= limit
		if c.only >= 0 {
			// every member on the way (and r itself) accepts what is within its own limit
			reached = true
			step := 1
			if r < sender {
				step = -1
			}
			for m := sender + step; m != r+step; m += step {
				lm := 8
				if m == c.only {
					lm = c.ttl
				}
				dm := m - sender
				if dm < 0 {
					dm = -dm
				}
				if dm > lm {
					reached = false
				}
			}
			if reached && (r-c.only)*step > 0 && c.only != sender {
				kit.Count("passed-on-by-a-member-at-its-own-limit")
			}
		}
		if reached {
			if !rc.Done() || rc.Err != nil || rc.Val.(string) != "along-the-chain" {
				kit.Failf("chain-missing", "chain of %d STAR members, hop limit %d: the member %d hop(s) from the sender did not receive the message (Recv done=%v %s %q)", c.n, limit, dist, rc.Done(), kit.ErrName(rc.Err), rc.Val)
			}
			if c.only < 0 && (dist == limit || dist == c.n-1) {
				kit.Count("far-end-reached-at-exact-limit")
			}
			r2 := kit.Start(fmt.Sprintf("Recv2:%d", r), func() (interface{}, error) { x, err := kit.Recv(socks[r]); return string(x), err })
			kit.Quiesce()
			if r2.Done() {
				kit.Failf("duplicate", "chain of %d: the member %d hop(s) away received a second message %q / %s", c.n, dist, r2.Val, kit.ErrName(r2.Err))
			}
		}
	}
	kit.Observe("%v %d", c, from)
	kit.Must("Close", func() {
		for _, s := range socks {
			_ = s.Close()
		}
	})
}

// starStalled: a STAR hub with three members; one of them never receives, so the hub's queue towards
// it fills up and what the hub would forward to it is dropped.  That is that member's loss only:
// the other healthy member receives every message the sender sent, once, unchanged.
func starStalled() {
	stalled := 1 + kit.ChooseFree(2) // which of the two non-sending members stalls
	hub, err := star.NewSocket()
	must(err, "NewSocket")
	must(hub.SetOption(mangos.OptionWriteQLen, 1), "WriteQLen")
	must(hub.Listen("inproc://c08-stall"), "Listen")
	var ms []mangos.Socket
	for i := 0; i < 3; i++ {
		m, err := star.NewSocket()
		must(err, "NewSocket")
		must(m.SetOption(mangos.OptionReadQLen, 1), "ReadQLen")
		must(m.Dial("inproc://c08-stall"), "Dial")
		kit.Quiesce()
		ms = append(ms, m)
	}
	healthy := 3 - stalled
	for i := 0; i < 8; i++ {
		body := fmt.Sprintf("msg-%d-%s", i, strings.Repeat("x", i))
		cl := kit.Start("Send", func() (interface{}, error) { return nil, kit.SendBytes(ms[0], []byte(body)) })
		kit.Quiesce()
		if !cl.Done() || cl.Err != nil {
			kit.Failf("send-stuck", "Send %d done=%v %s", i, cl.Done(), kit.ErrName(cl.Err))
		}
		rc := kit.Start("Recv:healthy", func() (interface{}, error) { b, err := kit.Recv(ms[healthy]); return string(b), err })
		kit.Quiesce()
		if !rc.Done() || rc.Err != nil || rc.Val.(string) != body {
			kit.Failf("healthy-member-starved", "STAR hub with a stalled member: message %d (%q) sent by member 0: the healthy member %d: Recv done=%v %s %q (it takes every message at once; only the stalled member's queue is full)", i, body, healthy, rc.Done(), kit.ErrName(rc.Err), rc.Val)
		}
		hc := kit.Start("Recv:hub", func() (interface{}, error) { b, err := kit.Recv(hub); return string(b), err })
		kit.Quiesce()
		if !hc.Done() || hc.Err != nil || hc.Val.(string) != body {
			kit.Failf("hub-application-starved", "message %d: the hub's own application: Recv done=%v %s %q", i, hc.Done(), kit.ErrName(hc.Err), hc.Val)
		}
	}
	kit.Count("healthy-member-got-everything")
	kit.Observe("%d", stalled)
	kit.Must("Close", func() {
		_ = hub.Close()
		for _, m := range ms {
			_ = m.Close()
		}
	})
}

// memberLeavesMidSend: a BUS or STAR hub over inproc with two members that are slow to read (their
// receive queues hold one message): the hub sends five messages, so that its sender to each member
// is blocked inside the transport with more queued behind.  Member X closes its socket; member Y
// then reads everything it is owed.  Under the ownership ledger: no message is released twice,
// and Y receives messages the hub sent, in order, each at most once - never a message twice or one
// that took another's place.
var curLedger *ledger.Ledger

func ledgerStats() *ledger.Ledger { return curLedger }

func memberLeavesMidSend() {
	c := []ctor{bus.NewSocket, star.NewSocket}[kit.ChooseFree(2)]
	yq := []int{0, 1, 3}[kit.ChooseFree(3)]
	curLedger = ledger.Install()
	hub, err := c()
	must(err, "NewSocket")
	must(hub.SetOption(mangos.OptionWriteQLen, 8), "WriteQLen")
	must(hub.Listen("inproc://c08-leave"), "Listen")
	var ms []mangos.Socket
	for i := 0; i < 2; i++ {
		m, err := c()
		must(err, "NewSocket")
		// X (the one that leaves) holds two messages, Y none or three: Y is further behind or ahead
		must(m.SetOption(mangos.OptionReadQLen, []int{1, yq}[i]), "ReadQLen")
		must(m.Dial("inproc://c08-leave"), "Dial")
		kit.Quiesce()
		ms = append(ms, m)
	}
	var sent []string
	for i := 0; i < 5; i++ {
		body := fmt.Sprintf("fan-%d-%s", i, strings.Repeat("y", 40))
		sent = append(sent, body)
		cl := kit.Start("Send", func() (interface{}, error) { return nil, kit.SendBytes(hub, []byte(body)) })
		kit.Quiesce()
		if !cl.Done() || cl.Err != nil {
			kit.Failf("send-stuck", "hub Send %d done=%v %s", i, cl.Done(), kit.ErrName(cl.Err))
		}
	}
	xc := kit.Start("Close:X", func() (interface{}, error) { return nil, ms[0].Close() })
	// traffic of the same size goes on while X leaves
	more := kit.Start("Send-more", func() (interface{}, error) {
		body := fmt.Sprintf("fan-5-%s", strings.Repeat("y", 40))
		return nil, kit.SendBytes(hub, []byte(body))
	})
	sent = append(sent, fmt.Sprintf("fan-5-%s", strings.Repeat("y", 40)))
	var got []string
	for i := 0; i < 7; i++ {
		rc := kit.Start("Recv:Y", func() (interface{}, error) { b, err := kit.Recv(ms[1]); return string(b), err })
		kit.Quiesce()
		if !rc.Done() {
			break
		}
		if rc.Err != nil {
			kit.Failf("recv", "Y: Recv %s", kit.ErrName(rc.Err))
		}
		got = append(got, rc.Val.(string))
	}
	if !xc.Done() || !more.Done() {
		kit.Failf("send-stuck", "Close of X done=%v, hub Send done=%v", xc.Done(), more.Done())
	}
	j := 0
	for _, g := range got {
		for j < len(sent) && sent[j] != g {
			j++
		}
		if j == len(sent) {
			kit.Failf("member-got-wrong-message", "member X left while the hub's sender was blocked on it; member Y then received %q, which is not an in-order, duplicate-free selection of what the hub sent (%q)", got, sent)
		}
		j++
	}
	if len(got) < 5 {
		kit.Failf("lost", "member Y stayed connected and was read dry, it received %d of the hub's %d messages: %q", len(got), len(sent), got)
	}
	kit.Observe("%d frees=%d rel=%d", len(got), ledgerStats().Frees, ledgerStats().Releases)
	kit.Must("Close", func() {
		_ = hub.Close()
		_ = ms[1].Close()
	})
	kit.Quiesce()
}

// resizeAttached: the receive queue length of a BUS / STAR socket (cooked or raw) is set again while
// its two peers are attached and idle (same value, smaller, larger; once or twice).  Afterwards each
// peer sends a message: the application receives each exactly once, and a STAR hub still passes
// each on to the other peer.  Which branch of a receiver's select is taken is a scheduling
// decision: all interleavings within the bound.
func resizeAttached() {
	ki := kit.ChooseFree(4)
	c := []ctor{bus.NewSocket, xbus.NewSocket, star.NewSocket, xstar.NewSocket}[ki]
	name := []string{"bus", "xbus", "star", "xstar"}[ki]
	isStar := ki >= 2
	q := []int{128, 2, 300}[kit.ChooseFree(3)]
	times := 1 + kit.ChooseFree(2)
	s, err := c()
	must(err, "NewSocket")
	ep := vt.Get("c08rs")
	// frames arrive in pooled messages or (as over ws) in the transport's own buffer; bodies short or of 200 bytes
	ep.Wrap = kit.ChooseFree(2) == 1
	pad := ""
	if ep.Wrap {
		pad = strings.Repeat("-", 186)
	}
	must(s.Listen("vt://c08rs"), "Listen")
	pipes := []*vt.Pipe{ep.Connect(), ep.Connect()}
	kit.Quiesce()
	for i := 0; i < times; i++ {
		kit.Must("SetOption(ReadQLen)", func() { must(s.SetOption(mangos.OptionReadQLen, q), "ReadQLen") })
	}
	want := map[string]int{}
	for i, p := range pipes {
		body := fmt.Sprintf("after-resize-%d", i) + pad
		want[body] = 0
		if isStar {
			p.Deliver(append([]byte{0, 0, 0, 1}, body...))
		} else {
			p.Deliver([]byte(body))
		}
	}
	for i := 0; i < len(pipes); i++ {
		rc := kit.Start("Recv", func() (interface{}, error) { b, err := kit.Recv(s); return string(b), err })
		kit.Quiesce()
		if !rc.Done() || rc.Err != nil {
			kit.Failf("lost-after-resize:"+name, "%s: ReadQLen set to %d (%dx) with two idle peers attached, then each sent one message: Recv %d done=%v %s - a message went astray", name, q, times, i, rc.Done(), kit.ErrName(rc.Err))
		}
		b := rc.Val.(string)
		if n, ok := want[b]; !ok || n > 0 {
			kit.Failf("wrong-after-resize:"+name, "%s: received %q (expected each peer's message once)", name, b)
		}
		want[b]++
	}
	for i, p := range pipes {
		if !p.Alive() {
			kit.Failf("detached-by-resize:"+name, "%s: peer %d was disconnected", name, i)
		}
		if isStar {
			l := p.SentLog()
			other := fmt.Sprintf("after-resize-%d", 1-i) + pad
			if len(l) != 1 || string(l[0].Data[4:]) != other {
				kit.Failf("not-forwarded-after-resize:"+name, "%s: peer %d was passed %d message(s), want exactly the other peer's", name, i, len(l))
			}
		}
	}
	kit.Observe("%s q=%d x%d", name, q, times)
	kit.Must("Close", func() { _ = s.Close() })
}

// onceAfterReconnect: Y listens, X and Z dial it (BUS mesh through Y, or STAR with Y as the hub).
// Y closes its end of the connection to X; X's dialer connects again.  After that every message
// still arrives exactly once: a reconnect makes one new connection, not several.
func onceAfterReconnect() {
	c := []ctor{bus.NewSocket, star.NewSocket}[kit.ChooseFree(2)]
	y, err := c()
	must(err, "NewSocket")
	var yp []mangos.Pipe
	y.SetPipeEventHook(func(ev mangos.PipeEvent, p mangos.Pipe) {
		if ev == mangos.PipeEventAttached {
			yp = append(yp, p)
		}
	})
	must(y.Listen("inproc://c08-rec"), "Listen")
	x, err := c()
	must(err, "NewSocket")
	xAttached := 0
	x.SetPipeEventHook(func(ev mangos.PipeEvent, p mangos.Pipe) {
		if ev == mangos.PipeEventAttached {
			xAttached++
		}
	})
	must(x.SetOption(mangos.OptionReconnectTime, 100*time.Millisecond), "ReconnectTime")
	must(x.SetOption(mangos.OptionMaxReconnectTime, 100*time.Millisecond), "MaxReconnectTime")
	must(x.Dial("inproc://c08-rec"), "Dial")
	kit.Quiesce()
	round := func(tag string) {
		body := "from-y-" + tag
		cl := kit.Start("Send", func() (interface{}, error) { return nil, kit.SendBytes(y, []byte(body)) })
		kit.Quiesce()
		if !cl.Done() || cl.Err != nil {
			kit.Failf("send-stuck", "Send done=%v %s", cl.Done(), kit.ErrName(cl.Err))
		}
		rc := kit.Start("Recv", func() (interface{}, error) { b, err := kit.Recv(x); return string(b), err })
		kit.Quiesce()
		if !rc.Done() || rc.Err != nil || rc.Val.(string) != body {
			kit.Failf("missing", "%s: X did not receive Y's message: done=%v %s %q", tag, rc.Done(), kit.ErrName(rc.Err), rc.Val)
		}
		r2 := kit.Start("Recv2", func() (interface{}, error) { b, err := kit.Recv(x); return string(b), err })
		kit.Quiesce()
		if r2.Done() {
			kit.Failf("duplicate", "%s: X received Y's message a second time (%q / %s); X has attached %d connection(s) so far", tag, r2.Val, kit.ErrName(r2.Err), xAttached)
		}
		// leave no Recv pending
		cl2 := kit.Start("Send-flush", func() (interface{}, error) { return nil, kit.SendBytes(y, []byte("flush-"+tag)) })
		kit.Quiesce()
		_ = cl2
		if !r2.Done() {
			kit.Failf("missing", "%s: flush message not received", tag)
		}
	}
	round("before")
	if len(yp) != 1 {
		kit.Failf("setup", "Y has %d pipes", len(yp))
	}
	kit.Must("Pipe.Close", func() { _ = yp[0].Close() })
	kit.Quiesce()
	kit.Sleep(time.Second)
	kit.Quiesce()
	if xAttached != 2 {
		kit.Failf("reconnect-count", "Y closed its end of the one connection once; X's dialer has attached %d connection(s) in all, want 2 (the original and one reconnect)", xAttached)
	}
	kit.Count("reconnected-once")
	round("after")
	kit.Observe("ok")
	kit.Must("Close", func() { _ = x.Close(); _ = y.Close() })
}

// xbusPeerChange: a raw BUS socket (a forwarder) has received a message from peer A and still
// holds it when A disconnects and a new peer C connects (free choice: 0-2 other connections come
// and go in between).  When the message is then re-sent it goes to every peer except the one it
// came from - A has gone, so to B and to the newcomer C alike.
func xbusPeerChange() {
	between := kit.ChooseFree(3)
	s, err := xbus.NewSocket()
	must(err, "NewSocket")
	ep := vt.Get("xbpc")
	must(s.Listen("vt://xbpc"), "Listen")
	b := ep.Connect()
	a := ep.Connect() // the newest connection
	kit.Quiesce()
	a.Deliver([]byte("held-by-the-forwarder"))
	rc := kit.Start("RecvMsg", func() (interface{}, error) { return s.RecvMsg() })
	kit.Quiesce()
	if !rc.Done() || rc.Err != nil {
		kit.Failf("setup", "RecvMsg done=%v %s", rc.Done(), kit.ErrName(rc.Err))
	}
	m := rc.Val.(*mangos.Message)
	a.DropNow()
	kit.Quiesce()
	for i := 0; i < between; i++ {
		x := ep.Connect()
		kit.Quiesce()
		x.DropNow()
		kit.Quiesce()
	}
	c := ep.Connect()
	kit.Quiesce()
	sc := kit.Start("SendMsg", func() (interface{}, error) { return nil, s.SendMsg(m) })
	kit.Quiesce()
	if !sc.Done() || sc.Err != nil {
		kit.Failf("send-stuck", "SendMsg done=%v %s", sc.Done(), kit.ErrName(sc.Err))
	}
	for name, p := range map[string]*vt.Pipe{"the peer that was there all along": b, "the newcomer": c} {
		l := p.SentLog()
		if len(l) != 1 || string(l[0].Data) != "held-by-the-forwarder" {
			kit.Failf("forward-missing", "a raw BUS socket re-sent a message it had received from a peer that has gone since: %s got %d message(s)", name, len(l))
		}
	}
	kit.Count("forwarded-to-newcomer")
	kit.Observe("%d", between)
	kit.Must("Close", func() { _ = s.Close() })
}

// hubMembership: a STAR (cooked or raw) or BUS socket with three peers; events: a peer sends, a peer
// leaves, a new peer joins, the application sends.  After every event: what a peer sent has been
// given exactly once to every *current* other member of a STAR hub (hop count one up), to nobody on
// a BUS (cooked BUS does not pass on) and never back to its sender; what the application sent has
// reached every current member once; the application has received every peer message once.
func hubMembership(kind string, c func() (mangos.Socket, error), depth int) {
	s, err := c()
	must(err, "NewSocket")
	ep := vt.Get("hubm")
	must(s.Listen("vt://hubm"), "Listen")
	type member struct {
		p    *vt.Pipe
		seen int
		sent bool // has sent at least one message
	}
	var ms []*member
	join := func() {
		ms = append(ms, &member{p: ep.Connect()})
		kit.Quiesce()
	}
	for i := 0; i < 3; i++ {
		join()
	}
	isStar := kind != "bus"
	raw := kind == "xstar"
	n := 0
	replaced := map[int]bool{} // members that sent before a membership change
	check := func(what string, from int, want []byte) {
		for i, m := range ms {
			l := m.p.SentLog()
			nw := l[m.seen:]
			m.seen = len(l)
			expect := m.p.Alive() && i != from && want != nil
			if !m.p.Alive() {
				continue
			}
			if expect && (len(nw) != 1 || !bytes.Equal(nw[0].Data, want)) {
				kit.Failf("hub-forward-missing:"+kind, "%s after %s: member %d (of %d, connected) was given %d message(s), want exactly one: %x", kind, what, i, len(ms), len(nw), want)
			}
			if !expect && len(nw) != 0 {
				kit.Failf("hub-forward-unexpected:"+kind, "%s after %s: member %d was given %x", kind, what, i, nw[0].Data)
			}
		}
	}
	kit.Hist(depth, func() []kit.Event {
		var evs []kit.Event
		alive := 0
		for i, m := range ms {
			i, m := i, m
			if !m.p.Alive() {
				continue
			}
			alive++
			evs = append(evs, kit.Event{Name: fmt.Sprintf("send:m%d", i), Run: func() {
				n++
				body := fmt.Sprintf("from-m%d-#%d", i, n)
				wire := []byte(body)
				var fwd []byte
				if isStar {
					wire = append([]byte{0, 0, 0, 1}, body...)
					fwd = append([]byte{0, 0, 0, 2}, body...)
				}
				m.p.Deliver(wire)
				kit.Quiesce()
				rc := kit.Start("Recv", func() (interface{}, error) {
					mm, err := s.RecvMsg()
					if err != nil {
						return nil, err
					}
					b := string(mm.Body)
					mm.Free()
					return b, nil
				})
				kit.Quiesce()
				if !rc.Done() || rc.Err != nil || rc.Val.(string) != body {
					kit.Failf("hub-recv:"+kind, "%s: member %d sent %q: the application's Recv: done=%v %s %q", kind, i, body, rc.Done(), kit.ErrName(rc.Err), rc.Val)
				}
				check(fmt.Sprintf("member %d sent %q", i, body), i, fwd)
				if replaced[i] {
					kit.Count("member-replaced-between-two-messages-of-one-peer")
				}
				m.sent = true
				kit.Count("delivered-to-every-other-member")
			}})
			if alive > 0 {
				evs = append(evs, kit.Event{Name: fmt.Sprintf("leave:m%d", i), Run: func() {
					m.p.DropNow()
					kit.Quiesce()
					for j, o := range ms {
						if o.sent && o.p.Alive() {
							replaced[j] = true
						}
					}
				}})
			}
		}
		if len(ms) < 6 {
			evs = append(evs, kit.Event{Name: "join", Run: join})
		}
		evs = append(evs, kit.Event{Name: "app-send", Run: func() {
			n++
			body := fmt.Sprintf("from-app-#%d", n)
			m := mangos.NewMessage(len(body))
			m.Body = append(m.Body, body...)
			wire := []byte(body)
			if isStar {
				wire = append([]byte{0, 0, 0, 0}, body...)
				if raw {
					m.Header = append(m.Header, 0, 0, 0, 0)
				}
			}
			sc := kit.Start("Send", func() (interface{}, error) { return nil, s.SendMsg(m) })
			kit.Quiesce()
			if !sc.Done() || sc.Err != nil {
				kit.Failf("send-stuck", "%s: application Send done=%v %s", kind, sc.Done(), kit.ErrName(sc.Err))
			}
			check("the application sent "+body, -1, wire)
		}})
		return evs
	}, func() {
		check("quiescence", -1, nil)
	})
	kit.Must("Close", func() { _ = s.Close() })
}

// xstarRaw: a raw STAR hub forwards what it receives to all its other peers by itself
// (before the application sees it) and what the application sends goes to everybody.
func xstarRaw() {
	hub, err := xstar.NewSocket()
	must(err, "NewSocket")
	var leaves []mangos.Socket
	must(hub.Listen("inproc://c08-xstar"), "Listen")
	for i := 0; i < 3; i++ {
		l, err := star.NewSocket()
		must(err, "NewSocket")
		must(l.Dial("inproc://c08-xstar"), "Dial")
		leaves = append(leaves, l)
	}
	kit.Quiesce()
	c := kit.Start("Send:leaf0", func() (interface{}, error) { return nil, kit.SendBytes(leaves[0], []byte("hello")) })
	kit.Quiesce()
	if !c.Done() || c.Err != nil {
		kit.Failf("send-stuck", "leaf send: done=%v %s", c.Done(), kit.ErrName(c.Err))
	}
	for i, l := range leaves {
		l := l
		rc := kit.Start(fmt.Sprintf("Recv:leaf%d", i), func() (interface{}, error) { b, err := kit.Recv(l); return string(b), err })
		kit.Quiesce()
		if i == 0 {
			if rc.Done() {
				kit.Failf("echo-to-sender", "the sending leaf received %q / %s", rc.Val, kit.ErrName(rc.Err))
			}
			continue
		}
		if !rc.Done() || rc.Err != nil || rc.Val.(string) != "hello" {
			kit.Failf("missing", "leaf %d: done=%v %s %q", i, rc.Done(), kit.ErrName(rc.Err), rc.Val)
		}
		r2 := kit.Start(fmt.Sprintf("Recv2:leaf%d", i), func() (interface{}, error) { b, err := kit.Recv(l); return string(b), err })
		kit.Quiesce()
		if r2.Done() {
			kit.Failf("duplicate", "leaf %d received a second copy %q / %s", i, r2.Val, kit.ErrName(r2.Err))
		}
	}
	hc := kit.Start("RecvMsg:hub", func() (interface{}, error) { return hub.RecvMsg() })
	kit.Quiesce()
	if !hc.Done() || hc.Err != nil {
		kit.Failf("missing", "raw hub did not deliver the message to its application: done=%v %s", hc.Done(), kit.ErrName(hc.Err))
	}
	m := hc.Val.(*mangos.Message)
	if string(m.Body) != "hello" || len(m.Header) != 4 || m.Header[3] != 1 {
		kit.Failf("raw-header", "raw hub delivered header %x body %q, want hop count 1 and the body unchanged", m.Header, m.Body)
	}
	kit.Must("Close", func() {
		_ = hub.Close()
		for _, l := range leaves {
			_ = l.Close()
		}
	})
}

// RaceBodies: topologies re-run by C11 under the race-instrumented build.
func RaceBodies() map[string]func() {
	B, S, XB := ctor(bus.NewSocket), ctor(star.NewSocket), ctor(xbus.NewSocket)
	others := func(s, r int) bool { return s != r }
	mesh := &topo{name: "bus-mesh-3", ctors: []ctor{B, B, B}, edges: [][2]int{{1, 0}, {2, 0}, {2, 1}}, senders: []int{0, 1, 2}, expect: others}
	fwd := &topo{name: "bus-raw-forwarder", ctors: []ctor{B, XB, B, B}, edges: [][2]int{{0, 1}, {2, 1}, {3, 1}}, device: []int{1}, senders: []int{0, 2}, raw: map[int]bool{1: true},
		expect: func(s, r int) bool { return r != 1 && s != r }}
	hub := &topo{name: "star-hub-2-leaves", ctors: []ctor{S, S, S}, edges: [][2]int{{1, 0}, {2, 0}}, senders: []int{0, 1, 2}, expect: others}
	return map[string]func(){
		"c08-bus-mesh-3":                 func() { run(mesh, false) },
		"c08-bus-raw-forwarder":          func() { run(fwd, true) },
		"c08-star-hub-receivers-waiting": func() { run(hub, true) },
		"c08-xstar-raw":                  xstarRaw,
	}
}


// StarStalled is also run under C17 with the message-ownership ledger installed.
func StarStalled() { starStalled() }
