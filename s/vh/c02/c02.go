// Package c02 checks property C02: PAIR and PUSH/PULL deliver each message exactly once, in order.
package c02

import (
	"fmt"
	"strings"
	"time"

	"go.nanomsg.org/mangos/v3"
	"go.nanomsg.org/mangos/v3/protocol/pair"
	"go.nanomsg.org/mangos/v3/protocol/pair1"
	"go.nanomsg.org/mangos/v3/protocol/pull"
	"go.nanomsg.org/mangos/v3/protocol/push"
	"go.nanomsg.org/mangos/v3/protocol/xpair"
	"go.nanomsg.org/mangos/v3/protocol/xpair1"
	"go.nanomsg.org/mangos/v3/protocol/xpull"
	"go.nanomsg.org/mangos/v3/protocol/xpush"
	_ "go.nanomsg.org/mangos/v3/transport/inproc"
	"go.nanomsg.org/mangos/v3/vh/c14"
	"go.nanomsg.org/mangos/v3/vh/c16"
	"go.nanomsg.org/mangos/v3/vh/c18"
	"go.nanomsg.org/mangos/v3/vh/kit"
	"go.nanomsg.org/mangos/v3/vh/vt"
	"go.nanomsg.org/mangos/v3/vz/vexplore"
)

type ctor func() (mangos.Socket, error)

var qlens = []int{128, 0, 1, 2}

func init() {
	vexplore.Register("C02", func(tier string) []*vexplore.Scenario {
		b, d := 2, 5
		if tier == "thorough" {
			b, d = 3, 6
		}
		var out []*vexplore.Scenario
		for _, k := range []struct {
			n string
			c ctor
		}{{"pair", pair.NewSocket}, {"xpair", xpair.NewSocket}, {"pair1", pair1.NewSocket}} {
			k := k
			out = append(out, &vexplore.Scenario{Name: k.n + "-inproc-sched", Mode: "sched", Bound: b, Reset: kit.ResetGlobals, Body: func() { pairInproc(k.c) }})
		}
		out = append(out,
			&vexplore.Scenario{Name: "pair-vt-backpressure", Mode: "sched", Bound: b, Reset: kit.ResetGlobals, Body: func() { pairBackpressure(pair.NewSocket) }},
			&vexplore.Scenario{Name: "pair1-vt-backpressure", Mode: "sched", Bound: b, Reset: kit.ResetGlobals, Body: func() { pairBackpressure(pair1.NewSocket) }},
			&vexplore.Scenario{Name: fmt.Sprintf("pair-second-peer-hist-D%d", d), Mode: "hist", Reset: kit.ResetGlobals, Body: func() { pairPeers(pair.NewSocket, d) },
				NeedCounters: []string{"second-peer-refused", "reconnect-after-loss"}},
			&vexplore.Scenario{Name: fmt.Sprintf("pair1-second-peer-hist-D%d", d), Mode: "hist", Reset: kit.ResetGlobals, Body: func() { pairPeers(pair1.NewSocket, d) },
				NeedCounters: []string{"second-peer-refused", "reconnect-after-loss"}},
		)
		for _, k := range []struct {
			n string
			c ctor
		}{{"pair", pair.NewSocket}, {"xpair", xpair.NewSocket}, {"pair1", pair1.NewSocket}, {"xpair1", xpair1.NewSocket}} {
			k := k
			out = append(out, &vexplore.Scenario{Name: fmt.Sprintf("%s-listen+dial-peers-hist-D%d", k.n, d), Mode: "hist", Reset: kit.ResetGlobals, Body: func() { pairPeersDialer(k.c, d) },
				NeedCounters: []string{"dialed-peer-refused", "inbound-peer-refused", "dialed-takeover", "inbound-takeover"}})
		}
		out = append(out,
			&vexplore.Scenario{Name: "pair-dialed-connection-lost-while-attaching", Mode: "sched", Bound: b, Reset: kit.ResetGlobals, Body: c14.LostWhileAttaching},
			&vexplore.Scenario{Name: "pair-connection-fails-during-a-write-with-more-queued", Mode: "enum", Reset: kit.ResetGlobals, Body: pairWriteFails, NeedCounters: []string{"queued-messages-reached-the-next-peer-in-order"}},
			&vexplore.Scenario{Name: "pair-sched-two-connections-at-once", Mode: "sched", Bound: b, Reset: kit.ResetGlobals, Body: func() { pairTwoAtOnce(pair.NewSocket, nil) }},
			&vexplore.Scenario{Name: "pair1-sched-two-connections-at-once", Mode: "sched", Bound: b, Reset: kit.ResetGlobals, Body: func() { pairTwoAtOnce(pair1.NewSocket, []byte{0, 0, 0, 1}) }},
			&vexplore.Scenario{Name: "fail-no-peers-with-busy-peers", Mode: "enum", Reset: kit.ResetGlobals, Body: c18.FailNoPeers, NeedCounters: []string{"one-of-two-peers-leaves"}},
			&vexplore.Scenario{Name: "pair-push-pull-every-length-over-stream-pipes", Mode: "enum", Reset: kit.ResetGlobals, Body: func() { c16.EveryLength(map[bool]int{false: 1200, true: 9000}[tier == "thorough"]) },
				NeedCounters: []string{"every-length-written-exact", "every-length-received-exact"}},
			&vexplore.Scenario{Name: "listener-closed-on-its-own-conversation-goes-on", Mode: "enum", Reset: kit.ResetGlobals, Body: c16.ListenerClosed, NeedCounters: []string{"conversation-went-on-after-listener-close"}},
			&vexplore.Scenario{Name: "pair-stream-connection-idle-then-traffic", Mode: "enum", Reset: kit.ResetGlobals, Body: c16.IdleThenTraffic, NeedCounters: []string{"traffic-after-an-idle-period"}},
			&vexplore.Scenario{Name: "pair-pull-stream-arrives-in-pieces", Mode: "enum", Reset: kit.ResetGlobals, Body: func() { c16.Chunking(tier == "thorough") },
				NeedCounters: []string{"split-inside-length-prefix", "split-inside-payload", "one-byte-reads"}},
			&vexplore.Scenario{Name: "pair-connection-lost-during-a-slow-event-callback", Mode: "enum", Reset: kit.ResetGlobals, Body: func() { c14.SlowHookWith(pair.NewSocket) }, NeedCounters: []string{"reconnected-after-a-loss-during-the-callback"}},
			&vexplore.Scenario{Name: "inproc-one-message-object-sent-twice", Mode: "enum", Reset: kit.ResetGlobals, Body: sentTwice, NeedCounters: []string{"second-copy-intact"}},
			&vexplore.Scenario{Name: "large-bodies-sent-from-a-reused-buffer-to-a-slow-peer", Mode: "enum", Reset: kit.ResetGlobals, Body: largeBodiesSent, NeedCounters: []string{"large-bodies-sent-intact"}},
			&vexplore.Scenario{Name: "large-bodies-byte-api-retained", Mode: "enum", Reset: kit.ResetGlobals, Body: largeBodies, NeedCounters: []string{"large-bodies-intact"}},
		)
		for _, k := range []struct {
			n string
			c ctor
		}{{"push", push.NewSocket}, {"xpush", xpush.NewSocket}} {
			k := k
			out = append(out, &vexplore.Scenario{Name: fmt.Sprintf("%s-hist-D%d", k.n, d+1), Mode: "hist", Reset: kit.ResetGlobals, Body: func() { pushHist(k.n, k.c, d+1) },
				NeedCounters: []string{"push-delivered", "push-after-loss", "idle-newcomer-served"}})
			out = append(out, &vexplore.Scenario{Name: k.n + "-sched-two-senders", Mode: "sched", Bound: b, Reset: kit.ResetGlobals, Body: func() { pushSched(k.c) }})
			out = append(out, &vexplore.Scenario{Name: k.n + "-sched-send-vs-dispatcher-going-idle", Mode: "sched", Bound: b, Reset: kit.ResetGlobals, Body: func() { pushIdleRace(k.c) }})
			out = append(out, &vexplore.Scenario{Name: k.n + "-sched-peer-leaves-during-send", Mode: "sched", Bound: b, Reset: kit.ResetGlobals, Body: func() { pushPeerLeaves(k.c) }})
		}
		for _, k := range []struct {
			n string
			c ctor
		}{{"pull", pull.NewSocket}, {"xpull", xpull.NewSocket}} {
			k := k
			out = append(out, &vexplore.Scenario{Name: k.n + "-sched-two-pushers", Mode: "sched", Bound: b, Reset: kit.ResetGlobals, Body: func() { pullSched(k.c) }})
		}
		return out
	})
}

func must(err error, what string) {
	if err != nil {
		kit.Failf("setup:"+what, "%s: %s", what, kit.ErrName(err))
	}
}

func setQ(s mangos.Socket, q int) {
	for _, o := range []string{mangos.OptionReadQLen, mangos.OptionWriteQLen} {
		if err := s.SetOption(o, q); err != nil && err != mangos.ErrBadOption {
			kit.Failf("qlen-rejected", "SetOption(%s,%d): %s", o, q, kit.ErrName(err))
		}
	}
}

// sentTwice: the sender keeps a reference (Clone) to a message and sends the same object twice with
// SendMsg - twice to its PAIR peer, or to two PUSH sockets' peers - over inproc.  Each receiver
// takes its message with RecvMsg and overwrites it in place before the next copy is sent / taken:
// every delivery has the bytes that were sent.
func sentTwice() {
	kind := kit.ChooseFree(3) // 0 pair, 1 xpair, 2 push -> two pulls
	sz := []int{0, 5, 300, 70000}[kit.ChooseFree(4)]
	body := make([]byte, sz)
	for i := range body {
		body[i] = byte('a' + i%26)
	}
	var senders, receivers []mangos.Socket
	mk := func(c ctor) mangos.Socket {
		s, err := c()
		must(err, "NewSocket")
		return s
	}
	switch kind {
	case 0, 1:
		c := []ctor{pair.NewSocket, xpair.NewSocket}[kind]
		a, b := mk(c), mk(c)
		must(b.Listen("inproc://c02-twice"), "Listen")
		must(a.Dial("inproc://c02-twice"), "Dial")
		senders, receivers = []mangos.Socket{a, a}, []mangos.Socket{b, b}
	default:
		for i := 0; i < 2; i++ {
			p, l := mk(push.NewSocket), mk(pull.NewSocket)
			addr := fmt.Sprintf("inproc://c02-twice-%d", i)
			must(l.Listen(addr), "Listen")
			must(p.Dial(addr), "Dial")
			senders, receivers = append(senders, p), append(receivers, l)
		}
	}
	kit.Quiesce()
	m := mangos.NewMessage(sz)
	m.Body = append(m.Body, body...)
	m.Clone() // the second send's reference
	for i := 0; i < 2; i++ {
		i := i
		sc := kit.Start("SendMsg", func() (interface{}, error) { return nil, senders[i].SendMsg(m) })
		rc := kit.Start("Recv", func() (interface{}, error) { return kit.Recv(receivers[i]) })
		kit.Quiesce()
		if !sc.Done() || sc.Err != nil || !rc.Done() || rc.Err != nil {
			kit.Failf("send-stuck", "send %d of one message object: SendMsg done=%v %s, Recv done=%v %s", i+1, sc.Done(), kit.ErrName(sc.Err), rc.Done(), kit.ErrName(rc.Err))
		}
		if got := rc.Val.([]byte); string(got) != string(body) {
			kit.Failf("changed-in-transit", "one message object (%d bytes) sent twice over inproc (the sender kept a reference), each receiver overwriting what it received: delivery %d has %d bytes %q, sent were %q", sz, i+1, len(got), clip(string(got)), clip(string(body)))
		}
	}
	kit.Count("second-copy-intact")
	kit.Observe("%d %d", kind, sz)
	kit.Must("Close", func() {
		for _, s := range append(senders, receivers...) {
			_ = s.Close()
		}
	})
}

func clip(s string) string {
	if len(s) > 24 {
		return s[:24] + "..."
	}
	return s
}

// checkOrder: got is a permutation of all sent messages in which each sender's own order is kept.
func checkOrder(who string, got []string, senders map[string][]string) {
	total := 0
	next := map[string]int{}
	for s, l := range senders {
		total += len(l)
		next[s] = 0
	}
	seen := map[string]bool{}
	for _, g := range got {
		if seen[g] {
			kit.Failf("duplicate", "%s received %q twice: %q", who, g, got)
		}
		seen[g] = true
		s := g[:strings.Index(g, ":")]
		l, ok := senders[s]
		if !ok {
			kit.Failf("invented", "%s received %q which nobody sent", who, g)
		}
		if next[s] >= len(l) || l[next[s]] != g {
			kit.Failf("reordered", "%s received %q out of the sender's order (all: %q)", who, g, got)
		}
		next[s]++
	}
	if len(got) != total {
		kit.Failf("lost", "%s received %d of %d messages although the connection stayed up: %q", who, len(got), total, got)
	}
}

// pairInproc: A and B connected over inproc; two sender threads x two messages, one receiver.
func pairInproc(c ctor) {
	q := qlens[kit.ChooseFree(len(qlens))]
	a, err := c()
	must(err, "NewSocket")
	b, err := c()
	must(err, "NewSocket")
	setQ(a, q)
	setQ(b, q)
	must(b.Listen("inproc://c02"), "Listen")
	must(a.Dial("inproc://c02"), "Dial")
	senders := map[string][]string{"s1": {"s1:0", "s1:1"}, "s2": {"s2:0", "s2:1"}}
	var calls []*kit.Call
	for _, name := range []string{"s1", "s2"} {
		msgs := senders[name]
		calls = append(calls, kit.Start("Send:"+name, func() (interface{}, error) {
			for _, m := range msgs {
				if err := kit.SendBytes(a, []byte(m)); err != nil {
					return nil, err
				}
			}
			return nil, nil
		}))
	}
	var got []string
	rc := kit.Start("Recv", func() (interface{}, error) {
		for i := 0; i < 4; i++ {
			m, err := kit.Recv(b)
			if err != nil {
				return nil, err
			}
			got = append(got, string(m))
		}
		return nil, nil
	})
	kit.Quiesce()
	for _, cl := range calls {
		if !cl.Done() || cl.Err != nil {
			kit.Failf("send-stuck", "qlen=%d: %s done=%v err=%s although the peer keeps receiving (received so far %q)", q, cl.Name, cl.Done(), kit.ErrName(cl.Err), got)
		}
	}
	if !rc.Done() || rc.Err != nil {
		kit.Failf("recv-stuck", "qlen=%d: receiver done=%v err=%s after %q", q, rc.Done(), kit.ErrName(rc.Err), got)
	}
	checkOrder("B", got, senders)
	// and the other direction on the same connection
	must(kit.SendBytes(b, []byte("back:0")), "Send back")
	r2 := kit.Start("RecvBack", func() (interface{}, error) { m, err := kit.Recv(a); return string(m), err })
	kit.Quiesce()
	if !r2.Done() || r2.Err != nil || r2.Val.(string) != "back:0" {
		kit.Failf("reverse-direction", "qlen=%d: A received done=%v %s %q", q, r2.Done(), kit.ErrName(r2.Err), r2.Val)
	}
	kit.Observe("q=%d %q", q, got)
	kit.Must("Close", func() { _ = a.Close(); _ = b.Close() })
}

// pairWriteFails: the peer has stopped reading, so one message is stuck in the transport write and
// 2-3 more wait in the send queue; then the connection fails (the write returns an error) and a new
// peer connects and reads everything.  Whatever of the waiting messages the new peer is given, it is
// given in the order they were sent, each at most once - the message whose write failed may be lost,
// it may not turn up behind the ones sent after it.
func pairWriteFails() {
	ki := kit.ChooseFree(3)
	c := []ctor{pair.NewSocket, xpair.NewSocket, pair1.NewSocket}[ki]
	strip := []int{0, 0, 4}[ki]
	n := 3 + kit.ChooseFree(2)
	s, err := c()
	must(err, "NewSocket")
	must(s.SetOption(mangos.OptionWriteQLen, 4), "WriteQLen")
	ep := vt.Get("pairw")
	ep.HoldNew = true
	must(s.Listen("vt://pairw"), "Listen")
	a := ep.Connect()
	kit.Quiesce()
	for i := 0; i < n; i++ {
		msg := fmt.Sprintf("m%d", i)
		cl := kit.Start("Send", func() (interface{}, error) { return nil, kit.SendBytes(s, []byte(msg)) })
		kit.Quiesce()
		if !cl.Done() || cl.Err != nil {
			kit.Failf("send-stuck", "Send(%s) with room in the queue: done=%v %s", msg, cl.Done(), kit.ErrName(cl.Err))
		}
	}
	if a.SendersWaiting() != 1 {
		kit.Failf("setup", "%d writes in progress on the stalled connection", a.SendersWaiting())
	}
	a.DropNow()
	kit.Quiesce()
	b := ep.Connect()
	b.Hold(false)
	kit.Quiesce()
	last := -1
	var got []string
	for _, sm := range b.SentLog() {
		g := string(sm.Data[strip:])
		got = append(got, g)
		var k int
		if _, err := fmt.Sscanf(g, "m%d", &k); err != nil || k >= n {
			kit.Failf("invented", "the new peer received %q which was never sent", g)
		}
		if k <= last {
			kit.Failf("reordered", "%d messages sent to a peer that had stopped reading, the connection failed during the write of the first, a new peer connected: it received %q - m%d after m%d", n, got, k, last)
		}
		last = k
	}
	if len(got) > 0 {
		kit.Count("queued-messages-reached-the-next-peer-in-order")
	}
	kit.Observe("%d %d %q", ki, n, got)
	kit.Must("Close", func() { _ = s.Close() })
}

// pairTwoAtOnce: a PAIR socket listens on two addresses and a connection arrives on each at the same
// moment (two accept loops attach concurrently).  Exactly one of them becomes the peer; the other
// is closed.  What the peer sends is received, what the application sends goes to the peer only,
// and nothing the refused connection sent is delivered.
func pairTwoAtOnce(c ctor, hdr []byte) {
	s, err := c()
	must(err, "NewSocket")
	attached := map[uint32]bool{}
	s.SetPipeEventHook(func(ev mangos.PipeEvent, p mangos.Pipe) {
		switch ev {
		case mangos.PipeEventAttached:
			attached[p.ID()] = true
		case mangos.PipeEventDetached:
			delete(attached, p.ID())
		}
	})
	ea, eb := vt.Get("paira"), vt.Get("pairb")
	must(s.Listen("vt://paira"), "Listen")
	must(s.Listen("vt://pairb"), "Listen")
	pa := ea.Connect()
	pb := eb.Connect()
	kit.Quiesce()
	if len(attached) != 1 || pa.ClosedByMangos() == pb.ClosedByMangos() {
		kit.Failf("two-peers-attached", "two connections arrived at once on two listeners of one PAIR socket: %d pipes are attached (connection A closed=%v, connection B closed=%v), want exactly one", len(attached), pa.ClosedByMangos(), pb.ClosedByMangos())
	}
	cur, other := pa, pb
	if pa.ClosedByMangos() {
		cur, other = pb, pa
	}
	other.Deliver(append(append([]byte{}, hdr...), "from-the-refused-connection"...))
	cur.Deliver(append(append([]byte{}, hdr...), "from-the-peer"...))
	r := kit.Start("Recv", func() (interface{}, error) { m, err := kit.Recv(s); return string(m), err })
	kit.Quiesce()
	if !r.Done() || r.Err != nil || r.Val.(string) != "from-the-peer" {
		kit.Failf("recv-from-peer", "Recv done=%v %s %q, want the message of the attached peer", r.Done(), kit.ErrName(r.Err), r.Val)
	}
	sc := kit.Start("Send", func() (interface{}, error) { return nil, kit.SendBytes(s, []byte("to-the-peer")) })
	kit.Quiesce()
	if !sc.Done() || sc.Err != nil {
		kit.Failf("send-stuck", "Send done=%v %s with the peer attached and taking", sc.Done(), kit.ErrName(sc.Err))
	}
	if cur.NumSent() != 1 || other.NumSent() != 0 {
		kit.Failf("sent-to-refused", "the peer got %d message(s), the refused connection %d; want 1 and 0", cur.NumSent(), other.NumSent())
	}
	kit.Observe("peer=%v", cur == pa)
	kit.Must("Close", func() { _ = s.Close() })
}

func body(sm vt.Sent) string { return string(sm.Data[sm.HLen:]) }

// pairBackpressure: the peer takes messages one at a time; every Send issued while the
// peer keeps taking returns, and the peer sees the sender's order.
func pairBackpressure(c ctor) {
	q := qlens[kit.ChooseFree(len(qlens))]
	s, err := c()
	must(err, "NewSocket")
	setQ(s, q)
	ep := vt.Get("pair")
	ep.HoldNew = true
	must(s.Listen("vt://pair"), "Listen")
	p := ep.Connect()
	kit.Quiesce()
	n := 4
	sc := kit.Start("Sender", func() (interface{}, error) {
		for i := 0; i < n; i++ {
			if err := kit.SendBytes(s, []byte(fmt.Sprintf("s:%d", i))); err != nil {
				return nil, err
			}
		}
		return nil, nil
	})
	for i := 0; i < n; i++ {
		p.Take(1)
		kit.Quiesce()
	}
	if !sc.Done() || sc.Err != nil {
		kit.Failf("send-stuck", "qlen=%d: sender done=%v err=%s although the peer took %d messages (peer has %d)", q, sc.Done(), kit.ErrName(sc.Err), n, p.NumSent())
	}
	var got []string
	for _, sm := range p.SentLog() {
		got = append(got, body(sm))
	}
	checkOrder("peer", got, map[string][]string{"s": {"s:0", "s:1", "s:2", "s:3"}})
	kit.Observe("q=%d", q)
	kit.Must("Close", func() { _ = s.Close() })
}

// pairPeers: connection attempts while a peer is attached are refused without disturbing
// the conversation; after the peer has gone the next attempt succeeds.
func pairPeers(c ctor, depth int) {
	s, err := c()
	must(err, "NewSocket")
	ep := vt.Get("pairl")
	must(s.Listen("vt://pairl"), "Listen")
	var cur *vt.Pipe
	var curSeen int
	nsend := 0
	hdr := func() []byte {
		if s.Info().Self == mangos.ProtoPair1 {
			return []byte{0, 0, 0, 0}
		}
		return nil
	}
	events := func() []kit.Event {
		evs := []kit.Event{{Name: "connect", Run: func() {
			p := ep.Connect()
			kit.Quiesce()
			if cur != nil && cur.Alive() {
				if !p.ClosedByMangos() {
					kit.Failf("second-peer-not-refused", "a second connection was accepted while a peer is attached")
				}
				kit.Count("second-peer-refused")
			} else {
				if p.ClosedByMangos() {
					kit.Failf("peer-refused-without-peer", "connection refused although no peer is attached")
				}
				if cur != nil {
					kit.Count("reconnect-after-loss")
				}
				cur = p
				curSeen = 0
			}
		}}}
		if cur != nil && cur.Alive() {
			evs = append(evs, kit.Event{Name: "send", Run: func() {
				nsend++
				msg := fmt.Sprintf("m%d", nsend)
				cl := kit.Start("Send", func() (interface{}, error) { return nil, kit.SendBytes(s, []byte(msg)) })
				kit.Quiesce()
				if !cl.Done() || cl.Err != nil {
					kit.Failf("send-stuck", "Send done=%v %s with an attached peer", cl.Done(), kit.ErrName(cl.Err))
				}
				l := cur.SentLog()
				if len(l) != curSeen+1 || body(l[curSeen]) != msg {
					kit.Failf("conversation-disturbed", "peer has %d messages, want %d ending in %q", len(l), curSeen+1, msg)
				}
				curSeen++
			}})
			evs = append(evs, kit.Event{Name: "peer-sends", Run: func() {
				nsend++
				msg := fmt.Sprintf("p%d", nsend)
				cur.Deliver(append(hdr(), msg...))
				cl := kit.Start("Recv", func() (interface{}, error) { b, err := kit.Recv(s); return string(b), err })
				kit.Quiesce()
				if !cl.Done() || cl.Err != nil || cl.Val.(string) != msg {
					kit.Failf("conversation-disturbed", "Recv done=%v %s %q, want %q", cl.Done(), kit.ErrName(cl.Err), cl.Val, msg)
				}
			}})
			evs = append(evs, kit.Event{Name: "drop", Run: func() { cur.DropNow() }})
		}
		return evs
	}
	kit.Hist(depth, events, func() {})
	kit.Must("Close", func() { _ = s.Close() })
}

// pairPeersDialer: the socket listens and also keeps a background dialer whose connections
// always succeed at the transport level.  Whatever the history of inbound connections, drops,
// traffic and time, at most one peer is attached, attempts made meanwhile (inbound or dialed) are
// refused without disturbing the conversation, and once the peer has gone the next attempt -
// whichever side makes it - is accepted and carries traffic.
func pairPeersDialer(c ctor, depth int) {
	s, err := c()
	must(err, "NewSocket")
	lep := vt.Get("pairl2")
	dep := vt.Get("paird2")
	dep.Script(vt.DialOK)
	must(s.SetOption(mangos.OptionReconnectTime, 100*time.Millisecond), "ReconnectTime")
	must(s.SetOption(mangos.OptionMaxReconnectTime, 100*time.Millisecond), "MaxReconnectTime")
	must(s.Listen("vt://pairl2"), "Listen")
	startDialer := kit.ChooseFree(2) == 0 // dialer from the start, or started by an event
	dialing := false
	dial := func() {
		must(s.DialOptions("vt://paird2", map[string]interface{}{mangos.OptionDialAsynch: true}), "Dial")
		dialing = true
	}
	var hdr []byte
	raw := false
	if v, e := s.GetOption(mangos.OptionRaw); e == nil {
		raw, _ = v.(bool)
	}
	if s.Info().Self == mangos.ProtoPair1 {
		hdr = []byte{0, 0, 0, 0}
	}
	var cur *vt.Pipe
	curSeen, nsend := 0, 0
	alive := func() []*vt.Pipe {
		var l []*vt.Pipe
		for _, ep := range []*vt.Endpoint{lep, dep} {
			for i := 0; i < ep.NumPipes(); i++ {
				if p := ep.PipeAt(i); p.Alive() {
					l = append(l, p)
				}
			}
		}
		return l
	}
	isDialed := func(p *vt.Pipe) bool {
		for i := 0; i < dep.NumPipes(); i++ {
			if dep.PipeAt(i) == p {
				return true
			}
		}
		return false
	}
	// settle: let the dialer make its attempts, then look at who is attached.
	settle := func() {
		kit.Quiesce()
		nd := dep.NumDials()
		kit.Sleep(350 * time.Millisecond)
		kit.Quiesce()
		l := alive()
		if len(l) > 1 {
			kit.Failf("two-peers-attached", "%d connections are open at the same time", len(l))
		}
		if cur != nil && cur.Alive() {
			if dialing && !isDialed(cur) {
				if dep.NumDials() == nd {
					kit.Failf("dialer-gave-up", "a peer is attached and the dialer stopped making attempts (%d so far)", nd)
				}
				kit.Count("dialed-peer-refused")
			}
			return
		}
		if len(l) == 0 {
			if dialing {
				kit.Failf("no-peer-after-first-gone", "no peer is attached, the dialer can connect, but 350ms (ReconnectTime 100ms) later nothing is attached; attempts so far: %d", dep.NumDials())
			}
			cur = nil
			return
		}
		if cur != nil && isDialed(l[0]) {
			kit.Count("dialed-takeover")
		}
		cur, curSeen = l[0], 0
	}
	if startDialer {
		dial()
	}
	settle()
	events := func() []kit.Event {
		evs := []kit.Event{{Name: "connect", Run: func() {
			had := cur != nil && cur.Alive()
			p := lep.Connect()
			kit.Quiesce()
			if had {
				if !p.ClosedByMangos() {
					kit.Failf("second-peer-not-refused", "an inbound connection was accepted while a peer is attached")
				}
				kit.Count("inbound-peer-refused")
			} else if len(alive()) == 1 && alive()[0] == p {
				kit.Count("inbound-takeover")
			}
		}}}
		if !dialing {
			evs = append(evs, kit.Event{Name: "start-dialer", Run: dial})
		}
		if cur != nil && cur.Alive() {
			evs = append(evs, kit.Event{Name: "send", Run: func() {
				nsend++
				msg := fmt.Sprintf("m%d", nsend)
				cl := kit.Start("Send", func() (interface{}, error) {
					if raw {
						m := mangos.NewMessage(8)
						m.Header = append(m.Header, hdr...)
						m.Body = append(m.Body, msg...)
						return nil, s.SendMsg(m)
					}
					return nil, kit.SendBytes(s, []byte(msg))
				})
				kit.Quiesce()
				if !cl.Done() || cl.Err != nil {
					kit.Failf("send-stuck", "Send done=%v %s with an attached peer", cl.Done(), kit.ErrName(cl.Err))
				}
				l := cur.SentLog()
				if len(l) != curSeen+1 || body(l[curSeen]) != msg {
					kit.Failf("conversation-disturbed", "peer has %d messages, want %d ending in %q", len(l), curSeen+1, msg)
				}
				curSeen++
			}})
			evs = append(evs, kit.Event{Name: "peer-sends", Run: func() {
				nsend++
				msg := fmt.Sprintf("p%d", nsend)
				cur.Deliver(append(append([]byte{}, hdr...), msg...))
				cl := kit.Start("Recv", func() (interface{}, error) { b, err := kit.Recv(s); return string(b), err })
				kit.Quiesce()
				if !cl.Done() || cl.Err != nil || cl.Val.(string) != msg {
					kit.Failf("conversation-disturbed", "Recv done=%v %s %q, want %q", cl.Done(), kit.ErrName(cl.Err), cl.Val, msg)
				}
			}})
			evs = append(evs, kit.Event{Name: "drop", Run: func() { cur.DropNow() }})
		}
		return evs
	}
	kit.Hist(depth, events, settle)
	kit.Must("Close", func() { _ = s.Close() })
}

// largeBodies: PAIR and PULL receive bodies around the largest buffer class (65535, 65536, 65537
// bytes) and mid-sized ones in between through the byte-slice API and keep every slice; each is,
// and stays, exactly what the peer sent.
func largeBodies() {
	which := kit.ChooseFree(3)
	c := []ctor{pair.NewSocket, pull.NewSocket, pair1.NewSocket}[which]
	s, err := c()
	must(err, "NewSocket")
	must(s.SetOption(mangos.OptionMaxRecvSize, 0), "MaxRecvSize")
	ep := vt.Get("largeb")
	must(s.Listen("vt://largeb"), "Listen")
	p := ep.Connect()
	kit.Quiesce()
	var hdr []byte
	if which == 2 {
		hdr = []byte{0, 0, 0, 0}
	}
	for i, n := range []int{65536, 9000, 65535, 60000, 65537, 65536, 30000, 10} {
		body := make([]byte, n)
		for j := range body {
			body[j] = byte(i*31 + j*7 + j/253)
		}
		p.Deliver(append(append([]byte{}, hdr...), body...))
		cl := kit.Start("Recv", func() (interface{}, error) { return kit.RecvKeep(s) })
		kit.Quiesce()
		if !cl.Done() || cl.Err != nil {
			kit.Failf("recv-stuck", "Recv of %d bytes: done=%v %s", n, cl.Done(), kit.ErrName(cl.Err))
		}
		if got := cl.Val.([]byte); string(got) != string(body) {
			kit.Failf("large-body-differs", "a body of %d bytes arrived as %d bytes / differing content", n, len(got))
		}
	}
	kit.CheckKept()
	kit.Count("large-bodies-intact")
	kit.Observe("%d", which)
	kit.Must("Close", func() { _ = s.Close() })
}

// largeBodiesSent: the sending side of the byte-slice API with bodies around the largest buffer
// class (65535, 65536, 65537, 70000, 140000) and a few small ones.  The application sends every
// message from ONE buffer that it refills as soon as Send has returned; the peer is slow (it takes
// nothing until all Sends have returned - the messages wait in the send queue).  What the peer is
// then given is what was sent, in order.
func largeBodiesSent() {
	which := kit.ChooseFree(3)
	c := []ctor{pair.NewSocket, push.NewSocket, xpair.NewSocket}[which]
	s, err := c()
	must(err, "NewSocket")
	must(s.SetOption(mangos.OptionWriteQLen, 16), "WriteQLen")
	ep := vt.Get("larges")
	must(s.Listen("vt://larges"), "Listen")
	p := ep.Connect()
	kit.Quiesce()
	p.Hold(true)
	sizes := []int{65536, 10, 65537, 70000, 65535, 140000, 9000, 65537}
	buf := make([]byte, 140000)
	fill := func(i, n int) {
		for j := 0; j < n; j++ {
			buf[j] = byte(i*37 + j*11 + j/251)
		}
	}
	for i, n := range sizes {
		fill(i, n)
		cl := kit.Start("Send", func() (interface{}, error) { return nil, s.Send(buf[:n]) })
		kit.Quiesce()
		if !cl.Done() || cl.Err != nil {
			kit.Failf("send-stuck", "Send %d (%d bytes) with room in the queue: done=%v %s", i, n, cl.Done(), kit.ErrName(cl.Err))
		}
		// the buffer is the application's again
		for j := 0; j < n; j++ {
			buf[j] = 0xEE
		}
	}
	p.Hold(false)
	p.Take(len(sizes) + 2)
	kit.Quiesce()
	l := p.SentLog()
	if len(l) != len(sizes) {
		kit.Failf("lost", "%d large messages were accepted, the peer was given %d", len(sizes), len(l))
	}
	for i, n := range sizes {
		fill(i, n)
		if got := l[i].Data[l[i].HLen:]; string(got) != string(buf[:n]) {
			d := 0
			for d < len(got) && d < n && got[d] == buf[d] {
				d++
			}
			kit.Failf("large-body-changed-after-send", "message %d (%d bytes, sent from a buffer the application refilled after Send returned) arrived as %d bytes, first difference at offset %d", i, n, len(got), d)
		}
	}
	kit.Count("large-bodies-sent-intact")
	kit.Observe("%d", which)
	kit.Must("Close", func() { _ = s.Close() })
}

// pushHist: PUSH with up to three PULL peers that take messages one at a time.
func pushHist(name string, c ctor, depth int) {
	q := qlens[kit.ChooseFree(len(qlens))]
	s, err := c()
	must(err, "NewSocket")
	setQ(s, q)
	ep := vt.Get("push")
	ep.HoldNew = true
	must(s.Listen("vt://push"), "Listen")
	pipes := []*vt.Pipe{ep.Connect(), ep.Connect()}
	kit.Quiesce()
	var sent []string
	var calls []*kit.Call
	taken := 0
	lost := false
	var taker *vt.Pipe
	check := func() {
		seen := map[string]int{}
		total := 0
		for pi, p := range pipes {
			last := -1
			for _, sm := range p.SentLog() {
				b := body(sm)
				total++
				if _, dup := seen[b]; dup {
					kit.Failf("duplicate", "q=%d: %q was handed to p%d and p%d", q, b, seen[b], pi)
				}
				seen[b] = pi
				var k int
				if _, err := fmt.Sscanf(b, "m%d", &k); err != nil || k >= len(sent) || sent[k] != b {
					kit.Failf("invented", "q=%d: p%d received %q which was never sent", q, pi, b)
				}
				if k <= last {
					kit.Failf("reordered", "q=%d: p%d received m%d after m%d", q, pi, k, last)
				}
				last = k
			}
		}
		if total > taken {
			kit.Failf("overtake", "q=%d: peers hold %d messages but only took %d", q, total, taken)
		}
		if taker != nil && taker.Alive() && q != 0 {
			// a peer that takes everything is connected: whatever waited in the queue went to it, so
			// no Send is waiting and at most one message per stalled peer is still on its way
			stalled := 0
			for _, p := range pipes {
				if p != taker && p.Alive() {
					stalled++
				}
			}
			for _, cl := range calls {
				if !cl.Done() {
					kit.Failf("send-stuck-beside-idle-peer", "q=%d: %s is still waiting although a peer that takes everything is connected (the other %d peer(s) are stalled)", q, cl.Name, stalled)
				}
			}
			if !lost && len(sent)-total > stalled {
				kit.Failf("queued-beside-idle-peer", "q=%d: %d message(s) accepted by Send, %d delivered, %d stalled peer(s) can hold one each - the rest waits in the queue although a peer that takes everything is connected", q, len(sent), total, stalled)
			}
			kit.Count("idle-newcomer-served")
		}
		// (which peer a message is committed to is the load balancer's choice, so "peer X asked and
		// got nothing" is not an error while the message waits on peer Y; completeness is checked by
		// the final drain below, where every peer takes everything)
		if total > 0 {
			if lost {
				kit.Count("push-after-loss")
			} else {
				kit.Count("push-delivered")
			}
		}
	}
	events := func() []kit.Event {
		var evs []kit.Event
		pending := 0
		for _, cl := range calls {
			if !cl.Done() {
				pending++
			}
		}
		if pending < 2 && len(sent) < 4 {
			evs = append(evs, kit.Event{Name: "send", Run: func() {
				msg := fmt.Sprintf("m%d", len(sent))
				sent = append(sent, msg)
				calls = append(calls, kit.Start("Send:"+msg, func() (interface{}, error) { return nil, kit.SendBytes(s, []byte(msg)) }))
			}})
		}
		for pi, p := range pipes {
			pi, p := pi, p
			if p.Alive() {
				evs = append(evs, kit.Event{Name: fmt.Sprintf("take:p%d", pi), Run: func() { p.Take(1); taken++ }})
			}
		}
		if pipes[0].Alive() {
			evs = append(evs, kit.Event{Name: "drop:p0", Run: func() { pipes[0].DropNow(); lost = true }})
		}
		if len(pipes) < 3 {
			evs = append(evs, kit.Event{Name: "connect", Run: func() { pipes = append(pipes, ep.Connect()) }})
			// a newcomer that takes whatever it is given, while the others stay as they are
			evs = append(evs, kit.Event{Name: "connect-taking", Run: func() {
				taker = ep.Connect()
				taker.Hold(false)
				pipes = append(pipes, taker)
				taken += 1000
			}})
		}
		return evs
	}
	kit.Hist(depth, events, check)
	// drain: with the peers now taking everything, every Send returns
	alive := 0
	for _, p := range pipes {
		if p.Alive() {
			p.Hold(false)
			alive++
		}
	}
	taken += 1000
	kit.Quiesce()
	if alive > 0 {
		for _, cl := range calls {
			if !cl.Done() || cl.Err != nil {
				kit.Failf(fmt.Sprintf("send-stuck:%s:WriteQLen=%d", name, q), "q=%d: %s done=%v %s although %d peer(s) take everything", q, cl.Name, cl.Done(), kit.ErrName(cl.Err), alive)
			}
		}
		if !lost {
			total := 0
			for _, p := range pipes {
				total += p.NumSent()
			}
			if total != len(sent) {
				kit.Failf("lost", "q=%d: %d messages accepted by Send, %d delivered, connections stayed up", q, len(sent), total)
			}
		}
	}
	taken = 1 << 30
	check2 := lost
	lost = true // after the drain only the no-dup / order / no-invention clauses apply
	check()
	lost = check2
	kit.Observe("q=%d", q)
	kit.Must("Close", func() { _ = s.Close() })
}

// pushSched: two senders, two peers, all schedules.
func pushSched(c ctor) {
	s, err := c()
	must(err, "NewSocket")
	ep := vt.Get("pushs")
	must(s.Listen("vt://pushs"), "Listen")
	pipes := []*vt.Pipe{ep.Connect(), ep.Connect()}
	kit.Quiesce()
	senders := map[string][]string{"s1": {"s1:0", "s1:1"}, "s2": {"s2:0", "s2:1"}}
	var calls []*kit.Call
	for _, name := range []string{"s1", "s2"} {
		msgs := senders[name]
		calls = append(calls, kit.Start("Send:"+name, func() (interface{}, error) {
			for _, m := range msgs {
				if err := kit.SendBytes(s, []byte(m)); err != nil {
					return nil, err
				}
			}
			return nil, nil
		}))
	}
	kit.Quiesce()
	for _, cl := range calls {
		if !cl.Done() || cl.Err != nil {
			kit.Failf("send-stuck", "%s done=%v %s", cl.Name, cl.Done(), kit.ErrName(cl.Err))
		}
	}
	seen := map[string]bool{}
	for pi, p := range pipes {
		for _, sm := range p.SentLog() {
			b := body(sm)
			if seen[b] {
				kit.Failf("duplicate", "%q delivered twice (second time to p%d)", b, pi)
			}
			seen[b] = true
		}
	}
	for _, l := range senders {
		for _, m := range l {
			if !seen[m] {
				kit.Failf("lost", "%q was accepted by Send but reached no peer", m)
			}
		}
	}
	if len(seen) != 4 {
		kit.Failf("invented", "peers received %d distinct messages, 4 were sent", len(seen))
	}
	kit.Observe("%d/%d", pipes[0].NumSent(), pipes[1].NumSent())
	kit.Must("Close", func() { _ = s.Close() })
}

// pushIdleRace: the peer has just taken a message, so the socket's dispatcher is woken, finds
// nothing more to send and is about to go idle, when the application sends the next message.  The
// peer is connected and takes freely: the message has to reach it (no lost wake-up).
func pushIdleRace(c ctor) {
	s, err := c()
	must(err, "NewSocket")
	ep := vt.Get("pushi")
	must(s.Listen("vt://pushi"), "Listen")
	p := ep.Connect()
	p.Hold(true)
	kit.Quiesce()
	// (the second sender exists from the start and waits at a gate, so that it is an older thread
	// than the library goroutine that carries m1: fewer deviations reach the interesting window)
	gate := make(chan struct{})
	s2 := kit.Start("Send2", func() (interface{}, error) { <-gate; return nil, kit.SendBytes(s, []byte("m2")) })
	s1 := kit.Start("Send1", func() (interface{}, error) { return nil, kit.SendBytes(s, []byte("m1")) })
	kit.Quiesce()
	if !s1.Done() || s1.Err != nil {
		kit.Failf("send-stuck", "Send1 done=%v %s", s1.Done(), kit.ErrName(s1.Err))
	}
	p.Hold(false) // the transmission in progress completes and the connection becomes ready again ...
	p.Take(1)
	close(gate) // ... while the next message is sent
	kit.Quiesce()
	if !s2.Done() || s2.Err != nil {
		kit.Failf("send-stuck", "Send2 done=%v %s", s2.Done(), kit.ErrName(s2.Err))
	}
	var got []string
	for _, sm := range p.SentLog() {
		got = append(got, body(sm))
	}
	if fmt.Sprint(got) != "[m1 m2]" {
		kit.Failf("accepted-but-not-delivered", "both Sends returned, the peer is connected and takes everything it is given, yet it has %q", got)
	}
	kit.Observe("ok")
	kit.Must("Close", func() { _ = s.Close() })
}

// pushPeerLeaves: two peers; the application closes the connection to one of them while a
// message is on its way to it, and that write still completes (the network had taken the bytes).
// Every message sent after the departure has settled reaches the peer that is still there: the
// departed connection is never picked again.  Explored over the schedules of the departure against
// the completing transmission.
func pushPeerLeaves(c ctor) {
	s, err := c()
	must(err, "NewSocket")
	var handles []mangos.Pipe
	s.SetPipeEventHook(func(ev mangos.PipeEvent, p mangos.Pipe) {
		if ev == mangos.PipeEventAttached {
			handles = append(handles, p)
		}
	})
	ep := vt.Get("pushl")
	must(s.Listen("vt://pushl"), "Listen")
	a := ep.Connect()
	a.Hold(true)
	a.LateSuccess(true)
	kit.Quiesce()
	s1 := kit.Start("Send1", func() (interface{}, error) { return nil, kit.SendBytes(s, []byte("first")) })
	kit.Quiesce()
	if !s1.Done() || s1.Err != nil || a.SendersWaiting() != 1 {
		kit.Failf("setup", "Send1 done=%v %s, %d transmission(s) in progress", s1.Done(), kit.ErrName(s1.Err), a.SendersWaiting())
	}
	b := ep.Connect()
	kit.Quiesce()
	cl := kit.Start("Pipe.Close", func() (interface{}, error) { return nil, handles[0].Close() })
	kit.Quiesce()
	if !cl.Done() {
		kit.Failf("pipe-close-blocked", "Pipe.Close did not return")
	}
	for i := 0; i < 3; i++ {
		msg := fmt.Sprintf("later%d", i)
		sc := kit.Start("Send", func() (interface{}, error) { return nil, kit.SendBytes(s, []byte(msg)) })
		kit.Quiesce()
		if !sc.Done() || sc.Err != nil {
			kit.Failf("send-stuck", "Send(%s) done=%v %s with one peer connected and taking", msg, sc.Done(), kit.ErrName(sc.Err))
		}
	}
	var got []string
	for _, sm := range b.SentLog() {
		got = append(got, body(sm))
	}
	if fmt.Sprint(got) != "[later0 later1 later2]" {
		kit.Failf("lost-after-peer-left", "one connection was closed earlier (its last write completed), the other peer is connected and takes everything; 3 messages were sent after that, it got %q", got)
	}
	kit.Observe("ok")
	kit.Must("Close", func() { _ = s.Close() })
}

// pullSched: two PUSH peers deliver two messages each; PULL returns each exactly once and
// in each connection's order.
func pullSched(c ctor) {
	q := qlens[kit.ChooseFree(len(qlens))]
	s, err := c()
	must(err, "NewSocket")
	setQ(s, q)
	ep := vt.Get("pull")
	must(s.Listen("vt://pull"), "Listen")
	pipes := []*vt.Pipe{ep.Connect(), ep.Connect()}
	kit.Quiesce()
	senders := map[string][]string{"p0": {"p0:0", "p0:1"}, "p1": {"p1:0", "p1:1"}}
	var got []string
	rc := kit.Start("Recv", func() (interface{}, error) {
		for i := 0; i < 4; i++ {
			m, err := kit.Recv(s)
			if err != nil {
				return nil, err
			}
			got = append(got, string(m))
		}
		return nil, nil
	})
	for i := 0; i < 2; i++ {
		pipes[0].Deliver([]byte(senders["p0"][i]))
		pipes[1].Deliver([]byte(senders["p1"][i]))
	}
	kit.Quiesce()
	if !rc.Done() || rc.Err != nil {
		kit.Failf("recv-stuck", "q=%d: receiver done=%v %s after %q", q, rc.Done(), kit.ErrName(rc.Err), got)
	}
	checkOrder("PULL", got, senders)
	r2 := kit.Start("RecvExtra", func() (interface{}, error) { m, err := kit.Recv(s); return string(m), err })
	kit.Quiesce()
	if r2.Done() {
		kit.Failf("duplicate", "q=%d: a fifth message %q / %s was delivered", q, r2.Val, kit.ErrName(r2.Err))
	}
	kit.Observe("q=%d %q", q, got)
	kit.Must("Close", func() { _ = s.Close() })
}

// Bodies re-run by C11 under the race-instrumented build.
var RaceBodies = map[string]func(){
	"c02-pair-inproc":  func() { pairInproc(pair.NewSocket) },
	"c02-xpair-inproc": func() { pairInproc(xpair.NewSocket) },
	"c02-push-sched":   func() { pushSched(push.NewSocket) },
	"c02-pull-sched":   func() { pullSched(pull.NewSocket) },
}
