// Package kinds describes the 24 socket constructors (12 raw, 12 cooked) in a uniform way
// so that harnesses can drive "one legal send", "one legal receive" and "one valid inbound
// message" on any of them through the virtual transport.
package kinds

import (
	"encoding/binary"
	"fmt"
	"time"

	"go.nanomsg.org/mangos/v3"
	"go.nanomsg.org/mangos/v3/protocol/bus"
	"go.nanomsg.org/mangos/v3/protocol/pair"
	"go.nanomsg.org/mangos/v3/protocol/pair1"
	"go.nanomsg.org/mangos/v3/protocol/pub"
	"go.nanomsg.org/mangos/v3/protocol/pull"
	"go.nanomsg.org/mangos/v3/protocol/push"
	"go.nanomsg.org/mangos/v3/protocol/rep"
	"go.nanomsg.org/mangos/v3/protocol/req"
	"go.nanomsg.org/mangos/v3/protocol/respondent"
	"go.nanomsg.org/mangos/v3/protocol/star"
	"go.nanomsg.org/mangos/v3/protocol/sub"
	"go.nanomsg.org/mangos/v3/protocol/surveyor"
	"go.nanomsg.org/mangos/v3/protocol/xbus"
	"go.nanomsg.org/mangos/v3/protocol/xpair"
	"go.nanomsg.org/mangos/v3/protocol/xpair1"
	"go.nanomsg.org/mangos/v3/protocol/xpub"
	"go.nanomsg.org/mangos/v3/protocol/xpull"
	"go.nanomsg.org/mangos/v3/protocol/xpush"
	"go.nanomsg.org/mangos/v3/protocol/xrep"
	"go.nanomsg.org/mangos/v3/protocol/xreq"
	"go.nanomsg.org/mangos/v3/protocol/xrespondent"
	"go.nanomsg.org/mangos/v3/protocol/xstar"
	"go.nanomsg.org/mangos/v3/protocol/xsub"
	"go.nanomsg.org/mangos/v3/protocol/xsurveyor"
	"go.nanomsg.org/mangos/v3/vh/kit"
	"go.nanomsg.org/mangos/v3/vh/vt"
)

// Kind is one socket constructor.
type Kind struct {
	Name    string
	New     func() (mangos.Socket, error)
	Raw     bool
	CanSend bool
	CanRecv bool
	Ctx     bool   // OpenContext works
	Wire    string // inbound format: "plain", "hop", "word", "reqid", "survid", "none"
	NeedReq bool   // a Send needs a received request first (rep, respondent)
	NeedOut bool   // a Recv needs an outstanding request/survey first (req, surveyor)
}

// All lists every kind, cooked first.
var All = []*Kind{
	{Name: "pair", New: pair.NewSocket, CanSend: true, CanRecv: true, Wire: "plain"},
	{Name: "pair1", New: pair1.NewSocket, CanSend: true, CanRecv: true, Wire: "hop"},
	{Name: "req", New: req.NewSocket, CanSend: true, CanRecv: true, Ctx: true, Wire: "reqid", NeedOut: true},
	{Name: "rep", New: rep.NewSocket, CanSend: true, CanRecv: true, Ctx: true, Wire: "word", NeedReq: true},
	{Name: "pub", New: pub.NewSocket, CanSend: true, Wire: "none"},
	{Name: "sub", New: sub.NewSocket, CanRecv: true, Ctx: true, Wire: "plain"},
	{Name: "push", New: push.NewSocket, CanSend: true, Wire: "none"},
	{Name: "pull", New: pull.NewSocket, CanRecv: true, Wire: "plain"},
	{Name: "surveyor", New: surveyor.NewSocket, CanSend: true, CanRecv: true, Ctx: true, Wire: "survid", NeedOut: true},
	{Name: "respondent", New: respondent.NewSocket, CanSend: true, CanRecv: true, Ctx: true, Wire: "word", NeedReq: true},
	{Name: "bus", New: bus.NewSocket, CanSend: true, CanRecv: true, Wire: "plain"},
	{Name: "star", New: star.NewSocket, CanSend: true, CanRecv: true, Wire: "hop"},
	{Name: "xpair", New: xpair.NewSocket, Raw: true, CanSend: true, CanRecv: true, Wire: "plain"},
	{Name: "xpair1", New: xpair1.NewSocket, Raw: true, CanSend: true, CanRecv: true, Wire: "hop"},
	{Name: "xreq", New: xreq.NewSocket, Raw: true, CanSend: true, CanRecv: true, Wire: "word"},
	{Name: "xrep", New: xrep.NewSocket, Raw: true, CanSend: true, CanRecv: true, Wire: "word", NeedReq: true},
	{Name: "xpub", New: xpub.NewSocket, Raw: true, CanSend: true, Wire: "none"},
	{Name: "xsub", New: xsub.NewSocket, Raw: true, CanRecv: true, Wire: "plain"},
	{Name: "xpush", New: xpush.NewSocket, Raw: true, CanSend: true, Wire: "none"},
	{Name: "xpull", New: xpull.NewSocket, Raw: true, CanRecv: true, Wire: "plain"},
	{Name: "xsurveyor", New: xsurveyor.NewSocket, Raw: true, CanSend: true, CanRecv: true, Wire: "word"},
	{Name: "xrespondent", New: xrespondent.NewSocket, Raw: true, CanSend: true, CanRecv: true, Wire: "word", NeedReq: true},
	{Name: "xbus", New: xbus.NewSocket, Raw: true, CanSend: true, CanRecv: true, Wire: "plain"},
	{Name: "xstar", New: xstar.NewSocket, Raw: true, CanSend: true, CanRecv: true, Wire: "hop"},
}

// ByName finds a kind.
func ByName(n string) *Kind {
	for _, k := range All {
		if k.Name == n {
			return k
		}
	}
	return nil
}

// Sock is a socket of some kind attached to one virtual peer.
type Sock struct {
	K       *Kind
	S       mangos.Socket
	EP      *vt.Endpoint
	P       *vt.Pipe
	seq     int
	lastHdr []byte // header of the last raw request received (xrep / xrespondent)
	seen    int    // wire messages already inspected for ids
	lastID  []byte // id of the last request / survey seen on the wire
	Ctx     mangos.Context // when set, PrepRecv / PrepSend act on this context
}

// PrepRecvCtxNeedsSocket is a hook for kinds whose contexts need socket level preparation (none today).
func (x *Sock) PrepRecvCtxNeedsSocket() {}

// Open creates the socket, listens on vt://<addr> and (if peer) attaches one peer.
func (k *Kind) Open(addr string, peer bool, hold bool) *Sock {
	s, err := k.New()
	if err != nil {
		kit.Failf("setup:new:"+k.Name, "NewSocket(%s): %v", k.Name, err)
	}
	x := &Sock{K: k, S: s, EP: vt.Get(addr)}
	x.EP.HoldNew = hold
	if err := s.Listen("vt://" + addr); err != nil {
		kit.Failf("setup:listen:"+k.Name, "Listen: %s", kit.ErrName(err))
	}
	if peer {
		x.P = x.EP.Connect()
		kit.Quiesce()
	}
	return x
}

// OpenQ is Open with the queue lengths set to q before the peer connects (per-pipe queues are
// sized when the pipe is added).
func (k *Kind) OpenQ(addr string, hold bool, q int) *Sock {
	x := k.Open(addr, false, hold)
	_ = x.S.SetOption(mangos.OptionWriteQLen, q)
	x.P = x.EP.Connect()
	kit.Quiesce()
	return x
}

// Quiet sets options that keep timers from interfering (long survey time, no retries).
func (x *Sock) Quiet() {
	_ = x.S.SetOption(mangos.OptionSurveyTime, 24*time.Hour)
	_ = x.S.SetOption(mangos.OptionRetryTime, time.Duration(0))
}

// Wire builds an inbound transport message that x's application will see as body.
func (x *Sock) Wire(body string) []byte {
	x.seq++
	switch x.K.Wire {
	case "plain":
		return []byte(body)
	case "hop":
		return append([]byte{0, 0, 0, 0}, body...)
	case "word":
		return append([]byte{0x80, 0, byte(x.seq >> 8), byte(x.seq)}, body...)
	case "reqid", "survid":
		x.scanID()
		if x.lastID == nil {
			return nil
		}
		return append(append([]byte{}, x.lastID...), body...)
	}
	return nil
}

func (x *Sock) scanID() {
	if x.P == nil {
		return
	}
	l := x.P.SentLog()
	for ; x.seen < len(l); x.seen++ {
		if len(l[x.seen].Data) >= 4 {
			x.lastID = append([]byte{}, l[x.seen].Data[:4]...)
		}
	}
}

// Feed delivers one valid inbound message; false if the kind cannot receive (or has nothing outstanding).
func (x *Sock) Feed(body string) bool {
	if !x.K.CanRecv || x.P == nil {
		return false
	}
	b := x.Wire(body)
	if b == nil {
		return false
	}
	x.P.Deliver(b)
	return true
}

// Msg builds an outbound message (with the header a raw socket needs).
func (x *Sock) Msg(body string) *mangos.Message {
	m := mangos.NewMessage(len(body))
	m.Body = append(m.Body, body...)
	if !x.K.Raw {
		return m
	}
	switch x.K.Name {
	case "xreq", "xsurveyor":
		x.seq++
		var id [4]byte
		binary.BigEndian.PutUint32(id[:], 0x80000000|uint32(x.seq))
		m.Header = append(m.Header, id[:]...)
	case "xrep", "xrespondent":
		m.Header = append(m.Header, x.lastHdr...)
	case "xpair1", "xstar":
		m.Header = append(m.Header, 0, 0, 0, 0)
	}
	return m
}

// Send performs one application send.
func (x *Sock) Send(body string) error {
	m := x.Msg(body)
	err := x.S.SendMsg(m)
	return err
}

// Recv performs one application receive and returns the body.
func (x *Sock) Recv() (string, error) {
	m, err := x.S.RecvMsg()
	if err != nil {
		return "", err
	}
	if x.K.Raw && len(m.Header) >= 4 {
		x.lastHdr = append([]byte{}, m.Header...)
	}
	b := string(m.Body)
	// the application owns what it received: it may overwrite it in place before releasing it,
	// and nobody else (another context, another peer's copy, a later message) may notice
	for i := range m.Body {
		m.Body[i] ^= 0xa5
	}
	for i := range m.Header {
		m.Header[i] ^= 0xa5
	}
	m.Free()
	return b, nil
}

// PrepRecv makes a following Recv legal: it will block until Feed is called.
func (x *Sock) PrepRecv() {
	switch x.K.Name {
	case "req", "surveyor":
		c := kit.Start("prep-send", func() (interface{}, error) {
			if x.Ctx != nil {
				return nil, x.Ctx.Send([]byte("outstanding"))
			}
			return nil, x.Send("outstanding")
		})
		kit.Quiesce()
		if !c.Done() || c.Err != nil {
			kit.Failf("setup:prep-recv:"+x.K.Name, "%s: preparatory Send: done=%v %s", x.K.Name, c.Done(), kit.ErrName(c.Err))
		}
	case "sub":
		if x.Ctx != nil {
			_ = x.Ctx.SetOption(mangos.OptionSubscribe, "")
		} else {
			_ = x.S.SetOption(mangos.OptionSubscribe, "")
		}
	}
}

// PrepSend makes a following Send legal (rep / respondent and their raw forms need a request first).
func (x *Sock) PrepSend() {
	if !x.K.NeedReq {
		return
	}
	x.Feed(fmt.Sprintf("request-%d", x.seq))
	c := kit.Start("prep-recv", func() (interface{}, error) { return x.Recv() })
	kit.Quiesce()
	if !c.Done() || c.Err != nil {
		kit.Failf("setup:prep-send:"+x.K.Name, "%s: preparatory Recv: done=%v %s", x.K.Name, c.Done(), kit.ErrName(c.Err))
	}
}

// Supports reports whether the socket accepts the option (with this sample value).
func (x *Sock) Supports(opt string, val interface{}) bool {
	return x.S.SetOption(opt, val) == nil
}


var peerOf = map[string]string{
	"pair": "pair", "pair1": "pair1", "req": "rep", "rep": "req", "pub": "sub", "sub": "pub", "push": "pull", "pull": "push",
	"surveyor": "respondent", "respondent": "surveyor", "bus": "bus", "star": "star",
}

// NewPeer makes a cooked socket of the pattern that k talks to.
func (k *Kind) NewPeer() (mangos.Socket, error) {
	n := k.Name
	if k.Raw {
		n = n[1:]
	}
	return ByName(peerOf[n]).New()
}
