// Package c07 checks property C07: SURVEYOR delivers only responses to its current, unexpired survey.
package c07

import (
	"bytes"
	"encoding/binary"
	"fmt"
	"time"

	"go.nanomsg.org/mangos/v3"
	"go.nanomsg.org/mangos/v3/protocol/surveyor"
	"go.nanomsg.org/mangos/v3/protocol/xsurveyor"
	"go.nanomsg.org/mangos/v3/vh/c05"
	"go.nanomsg.org/mangos/v3/vh/c08"
	"go.nanomsg.org/mangos/v3/vh/kit"
	"go.nanomsg.org/mangos/v3/vh/vt"
	"go.nanomsg.org/mangos/v3/vz/vexplore"
	"go.nanomsg.org/mangos/v3/vz/vsched"
)

// survTime is the survey time of the scenario being run (0 = surveys never expire).
var survTime = time.Second

func init() {
	// C11: a response arriving while its survey expires or is replaced never crashes the library
	vexplore.Register("C11", func(tier string) []*vexplore.Scenario {
		b := map[string]int{"quick": 2, "thorough": 3}[tier]
		return []*vexplore.Scenario{
			{Name: "surveyor-response-vs-survey-expiry", Mode: "sched", Bound: b, Reset: kit.ResetGlobals, Cfg: vsched.Config{EarlyTimers: true}, Body: SchedExpiry},
			{Name: "surveyor-response-vs-new-survey", Mode: "sched", Bound: b, Reset: kit.ResetGlobals, Body: SchedNewSurvey},
		}
	})
}

func init() {
	vexplore.Register("C07", func(tier string) []*vexplore.Scenario {
		d, b := 5, 2
		if tier == "thorough" {
			d, b = 7, 3
		}
		return []*vexplore.Scenario{
			{Name: fmt.Sprintf("surveyor-hist-D%d", d), Mode: "hist", Reset: kit.ResetGlobals, Body: func() { hist(d) },
				NeedCounters: []string{"response-delivered", "stale-discarded", "foreign-to-other-ctx", "expired-protostate", "canceled-by-new-survey", "broadcast-complete", "late-response-discarded", "survey-time-set-during-survey", "survey-under-changed-time"}},
			{Name: fmt.Sprintf("surveyor-idwrap-hist-D%d", d-1), Mode: "hist", Reset: kit.ResetNearIDWrap, Body: func() { histWrap(d - 1) },
				NeedCounters: []string{"response-delivered", "stale-discarded", "survey-ids-wrapped"}},
			{Name: "surveyor-sched-expiry-vs-response", Mode: "sched", Bound: b, Reset: kit.ResetGlobals, Cfg: vsched.Config{EarlyTimers: true}, Body: schedExpiry},
			{Name: "surveyor-sched-newsurvey-vs-expiry-of-the-old", Mode: "sched", Bound: b, Reset: kit.ResetGlobals, Cfg: vsched.Config{EarlyTimers: true}, Body: schedNewVsExpiry},
			{Name: "surveyor-sched-newsurvey-vs-response", Mode: "sched", Bound: b, Reset: kit.ResetGlobals, Body: schedNewSurvey},
			{Name: fmt.Sprintf("surveyor-unlimited-survey-time-hist-D%d", d-1), Mode: "hist", Reset: kit.ResetGlobals, Body: func() { survTime = 0; defer func() { survTime = time.Second }(); hist(d - 1) },
				NeedCounters: []string{"canceled-by-new-survey", "stale-discarded"}},
			{Name: fmt.Sprintf("surveyor-context-opened-later-hist-D%d", d-1), Mode: "hist", Reset: kit.ResetGlobals, Body: func() { histOpt(d-1, true) },
				NeedCounters: []string{"context-opened-during-a-survey", "expired-protostate"}},
			{Name: "surveyor-slow-respondent-survey-sequence", Mode: "enum", Reset: kit.ResetGlobals, Body: slowRespondent, NeedCounters: []string{"queued-surveys-intact"}},
			{Name: "surveyor-shared-message-two-contexts", Mode: "sched", Bound: b, Reset: kit.ResetGlobals, Body: schedSharedMessage},
			{Name: "xsurveyor-slow-respondent-and-the-two-queue-lengths", Mode: "enum", Reset: kit.ResetGlobals, Body: func() { c08.QueueLengths("xsurveyor", xsurveyor.NewSocket, []byte{0x80, 0, 0, 1}, 4) }, NeedCounters: []string{"slow-peer-given-all-queued"}},
			{Name: fmt.Sprintf("respondent-answers-hist-D%d", d-1), Mode: "hist", Reset: kit.ResetGlobals, Body: func() { c05.RespondentHist(d - 1) }, NeedCounters: []string{"reply-routed"}},
			{Name: fmt.Sprintf("xrespondent-answers-hist-D%d", d-1), Mode: "hist", Reset: kit.ResetGlobals, Body: func() { c05.XRespondentHist(d - 1) }, NeedCounters: []string{"raw-recv-header", "raw-reply-routed"}},
			{Name: fmt.Sprintf("surveyor-membership-hist-D%d", d), Mode: "hist", Reset: kit.ResetGlobals, Body: func() { membership(false, d) },
				NeedCounters: []string{"survey-after-a-respondent-was-replaced", "broadcast-complete"}},
			{Name: fmt.Sprintf("xsurveyor-membership-hist-D%d", d), Mode: "hist", Reset: kit.ResetGlobals, Body: func() { membership(true, d) },
				NeedCounters: []string{"survey-after-a-respondent-was-replaced", "broadcast-complete"}},
			{Name: "surveyor-sched-context-closed-with-responses-queued", Mode: "sched", Bound: b, Reset: kit.ResetGlobals, Body: schedClosedCtx},
			{Name: "xsurveyor-hist", Mode: "hist", Reset: kit.ResetGlobals, Body: func() { rawHist(4) }},
		}
	})
}

type mctx struct {
	name   string
	c      mangos.Context
	s      mangos.Socket
	cur    uint32
	prev   uint32
	active bool
	expiry time.Duration
	queue  []string
	recv   *kit.Call
	closed bool
	why    error // what a pending Recv must fail with once the survey is gone
	stime  time.Duration // the survey time in effect for the next survey (0: survTime)
}

func (m *mctx) setOption(name string, v interface{}) error {
	if m.c != nil {
		return m.c.SetOption(name, v)
	}
	return m.s.SetOption(name, v)
}

func (m *mctx) getOption(name string) (interface{}, error) {
	if m.c != nil {
		return m.c.GetOption(name)
	}
	return m.s.GetOption(name)
}

func (m *mctx) send(b []byte) error {
	if m.c != nil {
		return kit.SendBytes(m.c, b)
	}
	return kit.SendBytes(m.s, b)
}

func (m *mctx) recvCall() ([]byte, error) {
	if m.c != nil {
		return kit.Recv(m.c)
	}
	return kit.Recv(m.s)
}

type world struct {
	lateCtx bool // histories may open a third context
	sock  mangos.Socket
	pipes []*vt.Pipe
	seen  []int
	ctxs  []*mctx
	n     int
}

// setupWriteQ, when positive, is the WriteQLen set before the respondents connect.
var setupWriteQ int

// setupReadQ, when positive, is the ReadQLen set before the respondents connect.
var setupReadQ int

func setup() *world {
	w := &world{}
	s, err := surveyor.NewSocket()
	if err != nil {
		kit.Failf("setup", "NewSocket: %v", err)
	}
	w.sock = s
	if err := s.SetOption(mangos.OptionSurveyTime, survTime); err != nil {
		kit.Failf("setup", "SurveyTime: %s", kit.ErrName(err))
	}
	if setupWriteQ > 0 {
		if err := s.SetOption(mangos.OptionWriteQLen, setupWriteQ); err != nil {
			kit.Failf("setup", "WriteQLen: %s", kit.ErrName(err))
		}
	}
	if setupReadQ > 0 {
		if err := s.SetOption(mangos.OptionReadQLen, setupReadQ); err != nil {
			kit.Failf("setup", "ReadQLen: %s", kit.ErrName(err))
		}
	}
	ep := vt.Get("surv")
	if err := s.Listen("vt://surv"); err != nil {
		kit.Failf("setup", "Listen: %v", err)
	}
	w.pipes = []*vt.Pipe{ep.Connect(), ep.Connect()}
	w.seen = []int{0, 0}
	kit.Quiesce()
	w.ctxs = append(w.ctxs, &mctx{name: "sock", s: s})
	c, err := s.OpenContext()
	if err != nil {
		kit.Failf("setup", "OpenContext: %v", err)
	}
	if v, err := c.GetOption(mangos.OptionSurveyTime); err != nil || v.(time.Duration) != survTime {
		kit.Failf("ctx-inherit-surveytime", "new context reports SurveyTime %v (%v), socket has %v", v, err, survTime)
	}
	w.ctxs = append(w.ctxs, &mctx{name: "ctx1", c: c, s: s})
	return w
}

func (w *world) newWire() [][]vt.Sent {
	out := make([][]vt.Sent, len(w.pipes))
	for i, p := range w.pipes {
		l := p.SentLog()
		out[i] = l[w.seen[i]:]
		w.seen[i] = len(l)
	}
	return out
}

// expire applies the passage of time to the model.
func (w *world) expire() {
	now := kit.Now()
	for _, m := range w.ctxs {
		if m.active && now >= m.expiry {
			m.active = false
			if len(m.queue) > 0 {
				kit.Count("late-response-discarded")
			}
			m.queue = nil
			m.why = mangos.ErrProtoState
		}
	}
}

func (w *world) events() []kit.Event {
	var evs []kit.Event
	for _, m := range w.ctxs {
		m := m
		if !m.closed {
			evs = append(evs, kit.Event{Name: "survey:" + m.name, Run: func() { w.doSurvey(m) }})
		}
		if m.recv == nil {
			evs = append(evs, kit.Event{Name: "recv:" + m.name, Run: func() {
				m.recv = kit.Start("Recv:"+m.name, func() (interface{}, error) { b, err := m.recvCall(); return string(b), err })
			}})
		}
	}
	if len(w.ctxs) == 2 && w.lateCtx {
		// a further context is opened - possibly while the socket or the other context has a survey
		// outstanding: it starts with no survey of its own (Recv fails at once, its surveys and its
		// Close leave the others' alone) and with the socket's current survey time
		evs = append(evs, kit.Event{Name: "open-context", Run: func() {
			c, err := w.sock.OpenContext()
			if err != nil {
				kit.Failf("setup", "OpenContext: %v", err)
			}
			w.ctxs = append(w.ctxs, &mctx{name: "ctx2", c: c, s: w.sock, stime: w.ctxs[0].stime})
			for _, o := range w.ctxs[:2] {
				if o.active {
					kit.Count("context-opened-during-a-survey")
				}
			}
		}})
	}
	if len(w.ctxs) > 2 && w.ctxs[2].cur != 0 {
		c2 := w.ctxs[2]
		evs = append(evs, kit.Event{Name: "respond:p1:cur-ctx2", Run: func() { w.respond(1, c2.cur, "cur-ctx2") }})
	}
	a, b := w.ctxs[0], w.ctxs[1]
	if a.cur != 0 {
		evs = append(evs, kit.Event{Name: "respond:p0:cur-sock", Run: func() { w.respond(0, a.cur, "cur-sock") }})
		evs = append(evs, kit.Event{Name: "respond:p1:cur-sock", Run: func() { w.respond(1, a.cur, "cur-sock") }})
		evs = append(evs, kit.Event{Name: "respond:nobit", Run: func() { w.respond(0, a.cur&0x7fffffff, "nobit") }})
		evs = append(evs, kit.Event{Name: "respond:short", Run: func() {
			w.pipes[1].Deliver([]byte{byte(a.cur >> 24), byte(a.cur >> 16), byte(a.cur >> 8)})
		}})
	}
	if a.prev != 0 {
		evs = append(evs, kit.Event{Name: "respond:p1:prev-sock", Run: func() { w.respond(1, a.prev, "prev-sock") }})
	}
	if b.cur != 0 {
		evs = append(evs, kit.Event{Name: "respond:p0:cur-ctx1", Run: func() { w.respond(0, b.cur, "cur-ctx1") }})
	}
	if survTime > 0 {
		// the survey time is changed, possibly while a survey is outstanding: that survey keeps the
		// time it was started with, the next one runs for the new time
		for _, m := range w.ctxs {
			m := m
			if m.closed {
				continue
			}
			evs = append(evs, kit.Event{Name: "survey-time:" + m.name, Run: func() {
				nt := survTime / 2
				if m.stime == nt {
					nt = survTime
				}
				if err := m.setOption(mangos.OptionSurveyTime, nt); err != nil {
					kit.Failf("survey-time-set", "%s: SetOption(SurveyTime, %v): %s", m.name, nt, kit.ErrName(err))
				}
				if v, err := m.getOption(mangos.OptionSurveyTime); err != nil || v.(time.Duration) != nt {
					kit.Failf("survey-time-get", "%s: SurveyTime set to %v (survey outstanding: %v), GetOption answers %v (%s)", m.name, nt, m.active, v, kit.ErrName(err))
				}
				m.stime = nt
				if m.active {
					kit.Count("survey-time-set-during-survey")
				}
			}})
		}
	}
	evs = append(evs, kit.Event{Name: "advance:T", Run: func() { kit.Sleep(survTime) }})
	evs = append(evs, kit.Event{Name: "advance:T/2", Run: func() { kit.Sleep(survTime / 2) }})
	if !b.closed {
		evs = append(evs, kit.Event{Name: "close:ctx1", Run: func() {
			kit.Must("Context.Close", func() { _ = b.c.Close() })
			b.closed = true
			b.active = false
			b.queue = nil
			b.why = mangos.ErrClosed
		}})
	}
	return evs
}

func (w *world) doSurvey(m *mctx) {
	w.n++
	payload := fmt.Sprintf("survey%d:%s", w.n, m.name)
	c := kit.Start("Send:"+m.name, func() (interface{}, error) { return nil, m.send([]byte(payload)) })
	kit.Quiesce()
	if !c.Done() || c.Err != nil {
		kit.Failf("survey-send", "%s: Send of a survey: done=%v %s", m.name, c.Done(), kit.ErrName(c.Err))
	}
	wire := w.newWire()
	var id uint32
	for pi, l := range wire {
		if len(l) != 1 {
			kit.Failf("broadcast-incomplete", "%s: respondent p%d was sent the survey %d times, want once (queue space is free)", m.name, pi, len(l))
		}
		d := l[0].Data
		if len(d) != 4+len(payload) || string(d[4:]) != payload {
			kit.Failf("survey-wire-bytes", "%s: p%d got %x, want a 4 byte survey id then %q", m.name, pi, d, payload)
		}
		x := binary.BigEndian.Uint32(d)
		if pi > 0 && x != id {
			kit.Failf("survey-id-differs", "%s: respondents were sent different survey ids %08x / %08x", m.name, id, x)
		}
		id = x
	}
	kit.Count("broadcast-complete")
	if id&0x80000000 == 0 {
		kit.Failf("survey-id-bit", "survey id %08x lacks the high bit", id)
	}
	for _, o := range w.ctxs {
		if o != m && o.cur == id {
			kit.Failf("survey-id-unique", "survey id %08x used by two contexts", id)
		}
	}
	if m.active {
		m.why = mangos.ErrCanceled
		kit.Count("canceled-by-new-survey")
	}
	// a Recv that was pending on the old survey fails with ErrCanceled (checked in settle through m.why)
	if m.recv != nil {
		w.checkGone(m)
	}
	m.prev = m.cur
	m.cur = id
	m.active = true
	m.expiry = kit.Now() + survTime
	if m.stime > 0 {
		m.expiry = kit.Now() + m.stime
		kit.Count("survey-under-changed-time")
	}
	if survTime == 0 {
		m.expiry = 1 << 62 // never
	}
	m.queue = nil
}

// checkGone: the survey a pending Recv was waiting on is gone; it must have failed with m.why.
func (w *world) checkGone(m *mctx) {
	c := m.recv
	if !c.Done() {
		kit.Failf("recv-not-failed", "%s: Recv still blocked although its survey is gone (want %s)", m.name, kit.ErrName(m.why))
	}
	if m.closed && (c.Err == mangos.ErrClosed || c.Err == mangos.ErrProtoState) {
		// a closed context has no survey in progress: C07 asks for a prompt protocol-state failure,
		// C10 for a closed error; this check accepts either (C10 judges the closed-error clause)
		m.recv = nil
		return
	}
	if c.Err != m.why {
		kit.Failf("recv-gone-result", "%s: Recv on a survey that ended returned %s / %q, want %s", m.name, kit.ErrName(c.Err), c.Val, kit.ErrName(m.why))
	}
	if m.why == mangos.ErrProtoState {
		kit.Count("expired-protostate")
	}
	m.recv = nil
}

func (w *world) respond(pipe int, id uint32, tag string) {
	w.n++
	body := fmt.Sprintf("resp%d:%s", w.n, tag)
	matched := false
	for _, m := range w.ctxs {
		if m.active && m.cur == id {
			m.queue = append(m.queue, body)
			matched = true
			if m != w.ctxs[0] || tag != "cur-sock" {
				kit.Count("foreign-to-other-ctx")
			}
		}
	}
	if !matched {
		kit.Count("stale-discarded")
	}
	b := make([]byte, 4)
	binary.BigEndian.PutUint32(b, id)
	w.pipes[pipe].Deliver(append(b, body...))
}

func (w *world) settle() {
	w.expire()
	for pi, l := range w.newWire() {
		if len(l) != 0 {
			kit.Failf("unexpected-transmission", "p%d was sent %x without a survey being started", pi, l[0].Data)
		}
	}
	for _, m := range w.ctxs {
		if m.recv == nil {
			continue
		}
		c := m.recv
		switch {
		case !m.active:
			// no survey in progress (never started, expired, superseded handled in doSurvey, or context closed)
			if m.why == nil {
				m.why = mangos.ErrProtoState
			}
			w.checkGone(m)
		case len(m.queue) > 0:
			if !c.Done() || c.Err != nil || c.Val.(string) != m.queue[0] {
				kit.Failf("recv-wrong", "%s: Recv done=%v %s / %q, want response %q to the current survey %08x", m.name, c.Done(), kit.ErrName(c.Err), c.Val, m.queue[0], m.cur)
			}
			m.queue = m.queue[1:]
			m.recv = nil
			kit.Count("response-delivered")
		default:
			if c.Done() {
				kit.Failf("recv-early", "%s: Recv returned %s / %q although the survey %08x is in progress (now %v, expires %v) and has no undelivered response", m.name, kit.ErrName(c.Err), c.Val, m.cur, kit.Now(), m.expiry)
			}
		}
	}
}

func hist(depth int) { histOpt(depth, false) }

// histWrap: the same histories with the socket's survey id counter (seeded from the clock) starting
// three ids before it wraps; two surveys come first, so that the free part of the history plays
// on both sides of the wrap.
func histWrap(depth int) {
	w := setup()
	for _, m := range w.ctxs[:2] {
		kit.Tracef("event survey:%s", m.name)
		kit.Observe("survey:%s", m.name)
		w.doSurvey(m)
		kit.Quiesce()
		w.settle()
	}
	kit.Hist(depth-1, w.events, func() {
		w.settle()
		for _, m := range w.ctxs {
			if m.cur != 0 && m.cur < 0x80000010 {
				kit.Count("survey-ids-wrapped")
			}
		}
	})
	kit.Must("Socket.Close", func() { _ = w.sock.Close() })
}

func histOpt(depth int, late bool) {
	w := setup()
	w.lateCtx = late
	kit.Hist(depth, w.events, w.settle)
	kit.Must("Socket.Close", func() { _ = w.sock.Close() })
	kit.Quiesce()
	for _, m := range w.ctxs {
		if m.recv != nil && !m.recv.Done() {
			kit.Failf("recv-not-unblocked-by-close", "%s: Recv still blocked after socket Close", m.name)
		}
	}
}

// membership: a SURVEYOR (or raw SURVEYOR) with two respondents; events: a survey is sent, a
// respondent leaves, a new one joins (up to five in all).  Every survey is given exactly once, with
// one id, to every respondent connected at that moment - whoever came or went before - and to
// nobody else; a response from any of them is delivered.
func membership(raw bool, depth int) {
	var s mangos.Socket
	if raw {
		s, _ = xsurveyor.NewSocket()
	} else {
		s, _ = surveyor.NewSocket()
		_ = s.SetOption(mangos.OptionSurveyTime, time.Hour)
	}
	ep := vt.Get("svm")
	if err := s.Listen("vt://svm"); err != nil {
		kit.Failf("setup", "Listen: %s", kit.ErrName(err))
	}
	type member struct {
		p    *vt.Pipe
		seen int
	}
	var ms []*member
	join := func() {
		ms = append(ms, &member{p: ep.Connect()})
		kit.Quiesce()
	}
	join()
	join()
	n := 0
	changed := 0 // bit 0: somebody left since the last survey, bit 1: somebody joined
	kit.Hist(depth, func() []kit.Event {
		var evs []kit.Event
		evs = append(evs, kit.Event{Name: "survey", Run: func() {
			n++
			body := fmt.Sprintf("survey-%d", n)
			m := mangos.NewMessage(len(body))
			m.Body = append(m.Body, body...)
			if raw {
				m.Header = append(m.Header, 0x80, 0, 0, byte(n))
			}
			sc := kit.Start("Send", func() (interface{}, error) { return nil, s.SendMsg(m) })
			kit.Quiesce()
			if !sc.Done() || sc.Err != nil {
				kit.Failf("survey-send", "Send of a survey: done=%v %s", sc.Done(), kit.ErrName(sc.Err))
			}
			var id []byte
			var responder *member
			for i, mb := range ms {
				l := mb.p.SentLog()
				nw := l[mb.seen:]
				mb.seen = len(l)
				if !mb.p.Alive() {
					continue
				}
				if len(nw) != 1 || len(nw[0].Data) != 4+len(body) || string(nw[0].Data[4:]) != body {
					kit.Failf("broadcast-incomplete", "survey %d: respondent %d (of %d ever connected; connected now) was given %d message(s), want the survey once (respondents left / joined since the previous survey: %v / %v)", n, i, len(ms), len(nw), changed&1 != 0, changed&2 != 0)
				}
				if id != nil && string(id) != string(nw[0].Data[:4]) {
					kit.Failf("survey-id-differs", "survey %d went out under the ids %x and %x", n, id, nw[0].Data[:4])
				}
				id = nw[0].Data[:4]
				responder = mb
			}
			kit.Count("broadcast-complete")
			if changed == 3 {
				kit.Count("survey-after-a-respondent-was-replaced")
			}
			changed = 0
			if responder != nil {
				// the newest respondent answers: delivered
				responder.p.Deliver(append(append([]byte{}, id...), "answer-"+body...))
				rc := kit.Start("Recv", func() (interface{}, error) { return kit.Recv(s) })
				kit.Quiesce()
				if !rc.Done() || rc.Err != nil || string(rc.Val.([]byte)) != "answer-"+body {
					kit.Failf("response-not-delivered", "survey %d: the response of a connected respondent: Recv done=%v %s %q", n, rc.Done(), kit.ErrName(rc.Err), rc.Val)
				}
			}
		}})
		alive := 0
		for i, mb := range ms {
			i, mb := i, mb
			if mb.p.Alive() {
				alive++
				evs = append(evs, kit.Event{Name: fmt.Sprintf("leave:%d", i), Run: func() { mb.p.DropNow(); kit.Quiesce(); changed |= 1 }})
			}
		}
		if len(ms) < 5 {
			evs = append(evs, kit.Event{Name: "join", Run: func() { join(); changed |= 2 }})
		}
		return evs
	}, func() {
		for i, mb := range ms {
			if l := mb.p.SentLog(); len(l) != mb.seen {
				kit.Failf("broadcast-unexpected", "respondent %d was given %x without a survey having been sent", i, l[mb.seen].Data)
			}
		}
	})
	kit.Must("Close", func() { _ = s.Close() })
}

// schedClosedCtx: a context has a survey in progress and responses queued (one or two, unread)
// when it is closed; more responses arrive afterwards.  Recv on the closed context - called
// before the Close and still waiting, or after it - never delivers a response: it fails (closed
// or protocol-state error), whichever way the runtime picks among ready alternatives.
func schedClosedCtx() {
	w := setup()
	m := w.ctxs[1]
	if m.c == nil {
		m = w.ctxs[0]
	}
	w.doSurvey(m)
	id := make([]byte, 4)
	binary.BigEndian.PutUint32(id, m.cur)
	w.pipes[0].Deliver(append(append([]byte{}, id...), "queued-1"...))
	w.pipes[1].Deliver(append(append([]byte{}, id...), "queued-2"...))
	kit.Quiesce()
	if m.c == nil {
		return
	}
	cl := kit.Start("Context.Close", func() (interface{}, error) { return nil, m.c.Close() })
	r1 := kit.Start("Recv-1", func() (interface{}, error) { b, err := m.c.Recv(); return string(b), err })
	cl.Wait()
	w.pipes[0].Deliver(append(append([]byte{}, id...), "late"...))
	r2 := kit.Start("Recv-2", func() (interface{}, error) { b, err := m.c.Recv(); return string(b), err })
	r3 := kit.Start("Recv-3", func() (interface{}, error) { b, err := m.c.Recv(); return string(b), err })
	kit.Quiesce()
	for i, r := range []*kit.Call{r1, r2, r3} {
		if !r.Done() {
			kit.Failf("recv-blocked-closed", "Recv %d on the closed context blocks", i+1)
		}
		if i == 0 && r.Err == nil {
			continue // it ran beside the Close: a response queued before the Close may still come out
		}
		if r.Err == nil {
			kit.Failf("closed-context-delivered", "the context was closed with responses queued; a Recv called after Close had returned delivered %q", r.Val)
		}
	}
	kit.Observe("r1=%s", kit.ErrName(r1.Err))
	kit.Must("Socket.Close", func() { _ = w.sock.Close() })
}

// schedExpiry: a response arrives just as the survey expires.
func schedExpiry() {
	w := setup()
	m := w.ctxs[0]
	w.doSurvey(m)
	rc := kit.Start("Recv", func() (interface{}, error) { b, err := m.recvCall(); return string(b), err })
	kit.Sleep(survTime - time.Nanosecond)
	b := make([]byte, 4)
	binary.BigEndian.PutUint32(b, m.cur)
	w.pipes[0].Deliver(append(b, "the-response"...))
	kit.Quiesce()
	kit.Sleep(time.Nanosecond)
	kit.Quiesce()
	if !rc.Done() {
		kit.Failf("sched-recv-blocked", "Recv still blocked after the survey expired")
	}
	if !(rc.Err == nil && rc.Val.(string) == "the-response") && rc.Err != mangos.ErrProtoState {
		kit.Failf("sched-recv-result", "Recv returned %s / %q", kit.ErrName(rc.Err), rc.Val)
	}
	// after expiry Recv fails at once
	r2 := kit.Start("Recv2", func() (interface{}, error) { b, err := m.recvCall(); return string(b), err })
	kit.Quiesce()
	if !r2.Done() || r2.Err != mangos.ErrProtoState {
		kit.Failf("sched-recv-after-expiry", "Recv after expiry: done=%v %s / %q", r2.Done(), kit.ErrName(r2.Err), r2.Val)
	}
	kit.Observe("%s", kit.ErrName(rc.Err))
}

// schedNewSurvey: a response to the old survey arrives while a new survey is started.
func schedNewSurvey() {
	w := setup()
	m := w.ctxs[0]
	w.doSurvey(m)
	old := m.cur
	rc := kit.Start("Recv", func() (interface{}, error) { b, err := m.recvCall(); return string(b), err })
	kit.Quiesce()
	b := make([]byte, 4)
	binary.BigEndian.PutUint32(b, old)
	w.pipes[1].Deliver(append(b, "old-response"...))
	sc := kit.Start("Send2", func() (interface{}, error) { return nil, m.send([]byte("second")) })
	kit.Quiesce()
	if !sc.Done() || sc.Err != nil {
		kit.Failf("sched-send2", "second survey: done=%v %s", sc.Done(), kit.ErrName(sc.Err))
	}
	if !rc.Done() {
		kit.Failf("sched-recv-blocked", "Recv of the first survey still blocked after a new survey was started")
	}
	if !(rc.Err == nil && rc.Val.(string) == "old-response") && rc.Err != mangos.ErrCanceled {
		kit.Failf("sched-recv-result", "Recv of the first survey returned %s / %q", kit.ErrName(rc.Err), rc.Val)
	}
	wire := w.newWire()
	if len(wire[0]) != 1 || len(wire[1]) != 1 {
		kit.Failf("broadcast-incomplete", "second survey was sent %d/%d times", len(wire[0]), len(wire[1]))
	}
	id2 := binary.BigEndian.Uint32(wire[0][0].Data)
	// stale response again, then a current one: only the current one may be delivered
	w.pipes[0].Deliver(append(b, "old-again"...))
	b2 := make([]byte, 4)
	binary.BigEndian.PutUint32(b2, id2)
	w.pipes[1].Deliver(append(b2, "new-response"...))
	r2 := kit.Start("Recv2", func() (interface{}, error) { b, err := m.recvCall(); return string(b), err })
	kit.Quiesce()
	if !r2.Done() || r2.Err != nil || r2.Val.(string) != "new-response" {
		kit.Failf("sched-recv2", "Recv on the second survey: done=%v %s / %q, want \"new-response\"", r2.Done(), kit.ErrName(r2.Err), r2.Val)
	}
	kit.Observe("%s", kit.ErrName(rc.Err))
}

// schedNewVsExpiry: a new survey is started at the very moment the previous one expires (the
// expiry of the old survey and the Send run in every order and interleaving).  Afterwards the new
// survey is the current one: it runs for the full survey time and a response to it is delivered.
func schedNewVsExpiry() {
	w := setup()
	m := w.ctxs[kit.ChooseFree(2)]
	w.doSurvey(m)
	kit.Sleep(survTime - time.Nanosecond)
	kit.Quiesce()
	t2 := kit.Now()
	sc := kit.Start("Send2", func() (interface{}, error) { return nil, m.send([]byte("second")) })
	kit.Sleep(time.Nanosecond)
	kit.Quiesce()
	if !sc.Done() || sc.Err != nil {
		kit.Failf("sched-send2", "second survey: done=%v %s", sc.Done(), kit.ErrName(sc.Err))
	}
	wire := w.newWire()
	if len(wire[0]) != 1 || len(wire[1]) != 1 {
		kit.Failf("broadcast-incomplete", "second survey was sent %d/%d times", len(wire[0]), len(wire[1]))
	}
	// (timers may land early in this scenario - virtual time then jumps to their due time - so every
	// expectation below is tied to the clock: the second survey is current until t2 + survey time)
	rc := kit.Start("Recv", func() (interface{}, error) { b, err := m.recvCall(); return string(b), err })
	kit.Quiesce()
	if rc.Done() {
		if kit.Now() < t2+survTime {
			kit.Failf("new-survey-lost", "%s: a new survey was started as the previous one expired; Recv on it returned %s / %q only %v into the new survey", m.name, kit.ErrName(rc.Err), rc.Val, kit.Now()-t2)
		}
		kit.Observe("%s expired", m.name)
		return
	}
	if kit.Now() >= t2+survTime/2 {
		kit.Observe("%s late", m.name)
		return
	}
	b2 := append([]byte{}, wire[0][0].Data[:4]...)
	w.pipes[1].Deliver(append(b2, "new-response"...))
	kit.Quiesce()
	if kit.Now() < t2+survTime && (!rc.Done() || rc.Err != nil || rc.Val.(string) != "new-response") {
		kit.Failf("new-survey-lost", "%s: a new survey was started as the previous one expired; %v into it a response to it arrived: Recv done=%v %s %q", m.name, kit.Now()-t2, rc.Done(), kit.ErrName(rc.Err), rc.Val)
	}
	kit.Observe("%s ok", m.name)
}

// slowRespondent: one respondent is slow (takes what it is given only later) while 2-4 surveys
// are started one after the other on the same socket or context.  The quick respondent sees them
// as they are sent; the slow one, when it finally takes, must be given the very same sequence: each
// survey under its own id with its own body (a queued survey is not rewritten by a later one), and
// an answer to an earlier id is not delivered as an answer to the current survey.
func slowRespondent() {
	// 0: default queue (holds everything), 1: a queue of one survey, 2: a send queue of 8 surveys
	// beside a receive queue of one answer (the two lengths are separate options)
	setupWriteQ = []int{0, 1, 8}[kit.ChooseFree(3)]
	if setupWriteQ == 8 {
		setupReadQ = 1
	}
	defer func() { setupWriteQ, setupReadQ = 0, 0 }()
	short := setupWriteQ == 1
	w := setup()
	who := kit.ChooseFree(2)
	n := 2 + kit.ChooseFree(3)
	m := w.ctxs[who]
	if kit.ChooseFree(2) == 1 {
		// the slow respondent is the other connection (the library visits them in some order)
		w.pipes[0], w.pipes[1] = w.pipes[1], w.pipes[0]
	}
	w.pipes[0].Hold(true)
	for i := 0; i < n; i++ {
		body := fmt.Sprintf("survey-%d", i)
		c := kit.Start("Send", func() (interface{}, error) { return nil, m.send([]byte(body)) })
		kit.Quiesce()
		if !c.Done() || c.Err != nil {
			kit.Failf("survey-send", "%s: survey %d with one slow respondent: done=%v %s", m.name, i, c.Done(), kit.ErrName(c.Err))
		}
	}
	w.pipes[0].Hold(false)
	w.pipes[0].Take(10)
	kit.Quiesce()
	wire := w.newWire()
	if len(wire[1]) != n {
		kit.Failf("broadcast-incomplete", "one respondent is slow (its queue %s); the quick respondent saw %d of %d surveys", map[bool]string{false: "holds far more", true: "of one survey is full"}[short], len(wire[1]), n)
	}
	if !short && len(wire[0]) != n {
		kit.Failf("broadcast-incomplete", "the slow respondent was given %d of %d surveys once it took them (the queue holds far more)", len(wire[0]), n)
	}
	if short && len(wire[0]) == 0 {
		kit.Failf("broadcast-incomplete", "the slow respondent was given none of %d surveys (its queue holds one)", n)
	}
	ids := map[uint32]bool{}
	quick := map[string][]byte{}
	for i := 0; i < n; i++ {
		q := wire[1][i].Data
		if string(q[4:]) != fmt.Sprintf("survey-%d", i) {
			kit.Failf("survey-body", "quick respondent, survey %d: body %q", i, q[4:])
		}
		id := binary.BigEndian.Uint32(q)
		if ids[id] {
			kit.Failf("survey-id-reused", "survey %d went out under an id used before (%08x)", i, id)
		}
		ids[id] = true
		quick[string(q[4:])] = q
	}
	for _, sm := range wire[0] {
		sl := sm.Data
		if q := quick[string(sl[4:])]; !bytes.Equal(q, sl) {
			kit.Failf("queued-survey-rewritten", "%s: survey %q reached the quick respondent as %x and, after waiting in the queue, the slow one as %x", m.name, sl[4:], q, sl)
		}
	}
	// an answer to the first survey is stale now; an answer to the last one is delivered
	first := binary.BigEndian.Uint32(wire[1][0].Data)
	last := binary.BigEndian.Uint32(wire[1][n-1].Data)
	h := make([]byte, 4)
	binary.BigEndian.PutUint32(h, first)
	w.pipes[0].Deliver(append(append([]byte{}, h...), "answer-to-the-first"...))
	binary.BigEndian.PutUint32(h, last)
	w.pipes[0].Deliver(append(append([]byte{}, h...), "answer-to-the-last"...))
	rc := kit.Start("Recv", func() (interface{}, error) { b, err := m.recvCall(); return string(b), err })
	kit.Quiesce()
	if !rc.Done() || rc.Err != nil || rc.Val.(string) != "answer-to-the-last" {
		kit.Failf("stale-response-delivered", "%s: an answer to survey 0 and one to the current survey %d arrived: Recv done=%v %s %q", m.name, n-1, rc.Done(), kit.ErrName(rc.Err), rc.Val)
	}
	kit.Count("queued-surveys-intact")
	kit.Observe("%s n=%d short=%v", m.name, n, short)
}

// schedSharedMessage: the application sends one message, cloned, as a survey on two contexts
// (the second SendMsg runs while the first survey may still be waiting in the per-connection
// queues, connection 0 taking nothing for a while).  Each respondent must see two surveys with two
// different ids and the same body, and a response is delivered to the context whose id it carries.
func schedSharedMessage() {
	w := setup()
	hold := kit.ChooseFree(2) == 1
	if hold {
		w.pipes[0].Hold(true)
	}
	m1 := mangos.NewMessage(16)
	m1.Body = append(m1.Body, "shared-survey"...)
	m1.Clone() // a second reference to the same message
	m2 := m1
	a, b := w.ctxs[0], w.ctxs[1]
	s1 := kit.Start("SendMsg:sock", func() (interface{}, error) { return nil, a.s.SendMsg(m1) })
	s2 := kit.Start("SendMsg:ctx1", func() (interface{}, error) { return nil, b.c.SendMsg(m2) })
	kit.Quiesce()
	if hold {
		w.pipes[0].Hold(false)
		w.pipes[0].Take(10)
		kit.Quiesce()
	}
	if !s1.Done() || s1.Err != nil || !s2.Done() || s2.Err != nil {
		kit.Failf("shared-send", "SendMsg of a cloned message on two contexts: sock done=%v %s, ctx1 done=%v %s", s1.Done(), kit.ErrName(s1.Err), s2.Done(), kit.ErrName(s2.Err))
	}
	wire := w.newWire()
	var ids [2]uint32
	for pi, l := range wire {
		if len(l) != 2 {
			kit.Failf("shared-broadcast-incomplete", "connection %d saw %d surveys, want the two that were sent", pi, len(l))
		}
		x, y := binary.BigEndian.Uint32(l[0].Data), binary.BigEndian.Uint32(l[1].Data)
		if x == y {
			kit.Failf("shared-survey-id", "connection %d: both surveys went out under the id %08x (one message, cloned, sent on two contexts)", pi, x)
		}
		for _, sm := range l {
			if string(sm.Data[4:]) != "shared-survey" {
				kit.Failf("shared-survey-body", "connection %d: survey body %q", pi, sm.Data[4:])
			}
		}
		if pi == 0 {
			ids = [2]uint32{x, y}
		} else if !(ids == [2]uint32{x, y} || ids == [2]uint32{y, x}) {
			kit.Failf("shared-survey-id", "the two connections saw different ids: %08x/%08x and %08x/%08x", ids[0], ids[1], x, y)
		}
	}
	// answer each id once: each context gets exactly the answer to its own survey
	got := map[string]string{}
	for i, id := range ids {
		h := make([]byte, 4)
		binary.BigEndian.PutUint32(h, id)
		w.pipes[i].Deliver(append(h, fmt.Sprintf("answer-to-%08x", id)...))
	}
	kit.Quiesce()
	for _, m := range []*mctx{a, b} {
		m := m
		c := kit.Start("Recv:"+m.name, func() (interface{}, error) { x, err := m.recvCall(); return string(x), err })
		kit.Quiesce()
		if !c.Done() || c.Err != nil {
			kit.Failf("shared-no-answer", "%s: its survey was answered, Recv: done=%v %s", m.name, c.Done(), kit.ErrName(c.Err))
		}
		got[m.name] = c.Val.(string)
	}
	if got["sock"] == got["ctx1"] {
		kit.Failf("shared-answer-misrouted", "both contexts received %q", got["sock"])
	}
	kit.Observe("hold=%v", hold)
}

// rawHist: a raw surveyor passes surveys (with the header the application supplies) to every
// respondent and delivers every response with a well-formed header.
func rawHist(depth int) {
	s, err := xsurveyor.NewSocket()
	if err != nil {
		kit.Failf("setup", "NewSocket: %v", err)
	}
	ep := vt.Get("xsurv")
	if err := s.Listen("vt://xsurv"); err != nil {
		kit.Failf("setup", "Listen: %v", err)
	}
	pipes := []*vt.Pipe{ep.Connect(), ep.Connect()}
	seen := []int{0, 0}
	kit.Quiesce()
	n := 0
	var expect []string
	var recv *kit.Call
	events := func() []kit.Event {
		evs := []kit.Event{
			{Name: "send", Run: func() {
				n++
				m := mangos.NewMessage(8)
				m.Header = append(m.Header, 0x80, 0, 0, byte(n))
				m.Body = append(m.Body, fmt.Sprintf("rawsurvey%d", n)...)
				want := string(m.Header) + string(m.Body)
				c := kit.Start("SendMsg", func() (interface{}, error) { return nil, s.SendMsg(m) })
				kit.Quiesce()
				if !c.Done() || c.Err != nil {
					kit.Failf("raw-send", "SendMsg: done=%v %s", c.Done(), kit.ErrName(c.Err))
				}
				for pi, p := range pipes {
					l := p.SentLog()[seen[pi]:]
					seen[pi] += len(l)
					if len(l) != 1 || string(l[0].Data) != want {
						kit.Failf("raw-broadcast", "p%d got %d messages (%v), want exactly %x", pi, len(l), l, want)
					}
				}
			}},
			{Name: "respond-ok", Run: func() {
				n++
				body := fmt.Sprintf("rawresp%d", n)
				pipes[n%2].Deliver(append([]byte{0x80, 1, 2, byte(n)}, body...))
				expect = append(expect, body)
			}},
			{Name: "respond-short", Run: func() { pipes[0].Deliver([]byte{0x80, 1}) }},
		}
		if recv == nil {
			evs = append(evs, kit.Event{Name: "recv", Run: func() {
				recv = kit.Start("RecvMsg", func() (interface{}, error) {
					m, err := s.RecvMsg()
					if err != nil {
						return nil, err
					}
					return fmt.Sprintf("%x|%s", m.Header, m.Body), nil
				})
			}})
		}
		return evs
	}
	settle := func() {
		if recv == nil {
			return
		}
		if len(expect) == 0 {
			if recv.Done() {
				kit.Failf("raw-recv-unexpected", "RecvMsg returned %s / %v with nothing valid queued", kit.ErrName(recv.Err), recv.Val)
			}
			return
		}
		if !recv.Done() || recv.Err != nil {
			kit.Failf("raw-recv", "RecvMsg done=%v %s with %d responses queued", recv.Done(), kit.ErrName(recv.Err), len(expect))
		}
		var hdr, body string
		fmt.Sscanf(recv.Val.(string), "%8s|%s", &hdr, &body)
		if body != expect[0] || len(hdr) != 8 {
			kit.Failf("raw-recv-wrong", "RecvMsg returned %q, want body %q with a 4 byte header", recv.Val, expect[0])
		}
		expect = expect[1:]
		recv = nil
	}
	kit.Hist(depth, events, settle)
	kit.Must("Socket.Close", func() { _ = s.Close() })
}

// Bodies re-run by C11 under the race-instrumented build.
var RaceBodies = map[string]func(){
	"c07-newsurvey-vs-response": schedNewSurvey,
}


// SchedExpiry / SchedNewSurvey are also run under C16: a response that arrives exactly while its
// survey expires or is superseded must not bring the socket down.
func SchedExpiry()    { schedExpiry() }

// SchedSharedMessage is also run under C17 (one message, cloned by the application, sent as a
// survey on two contexts: each Send takes one reference and nothing of what the first one queued
// changes when the second one stamps its id).
func SchedSharedMessage() { schedSharedMessage() }
func SchedNewSurvey() { schedNewSurvey() }
