// Package c10 checks property C10: Close unblocks everything, fails later calls and releases all resources.
package c10

import (
	"strings"
	"fmt"
	"time"

	"go.nanomsg.org/mangos/v3"
	"go.nanomsg.org/mangos/v3/internal/core"
	_ "go.nanomsg.org/mangos/v3/transport/inproc"
	_ "go.nanomsg.org/mangos/v3/transport/tcp"
	"go.nanomsg.org/mangos/v3/vh/c14"
	"go.nanomsg.org/mangos/v3/vh/kinds"
	"go.nanomsg.org/mangos/v3/vh/kit"
	net "go.nanomsg.org/mangos/v3/vh/vnet"
	"go.nanomsg.org/mangos/v3/vh/vt"
	"go.nanomsg.org/mangos/v3/vz/vexplore"
)

func init() {
	// C13: closing a listener that never owned its address (its Listen was refused, or it was never
	// started) leaves the socket that does listen there reachable: it carries on accepting
	vexplore.Register("C13", func(tier string) []*vexplore.Scenario {
		return []*vexplore.Scenario{{Name: "close-of-a-listener-that-never-owned-the-address", Mode: "enum", Reset: kit.ResetGlobals, Body: closeLoserListener, NeedCounters: []string{"winner-still-reachable"}}}
	})
}

func init() {
	vexplore.Register("C10", func(tier string) []*vexplore.Scenario {
		b, d := 1, 6
		if tier == "thorough" {
			b, d = 2, 7
		}
		var out []*vexplore.Scenario
		for _, k := range kinds.All {
			k := k
			out = append(out, &vexplore.Scenario{Name: "close-vs-blocked-calls:" + k.Name, Mode: "sched", Bound: b, Reset: kit.ResetGlobals, Body: func() { closeBlocked(k, false) }})
			if k.Ctx {
				out = append(out, &vexplore.Scenario{Name: "close-vs-blocked-calls:" + k.Name + ".ctx", Mode: "sched", Bound: b, Reset: kit.ResetGlobals, Body: func() { closeBlocked(k, true) }})
			}
		}
		for _, k := range kinds.All {
			k := k
			out = append(out, &vexplore.Scenario{Name: "close-vs-calls-waiting-for-a-peer:" + k.Name, Mode: "sched", Bound: b, Reset: kit.ResetGlobals, Body: func() { closeNoPeer(k) }})
		}
		out = append(out,
			&vexplore.Scenario{Name: "close-vs-dial-listen", Mode: "sched", Bound: b + 1, Reset: kit.ResetGlobals, Body: closeVsSetup},
			&vexplore.Scenario{Name: "inproc-dial-waiting-vs-listener-close", Mode: "sched", Bound: b, Reset: kit.ResetGlobals, Body: inprocDialWaiting},
			&vexplore.Scenario{Name: fmt.Sprintf("core-objects-hist-D%d", d), Mode: "hist", Reset: kit.ResetGlobals, Body: func() { coreHist(d) },
				NeedCounters: []string{"census-clean", "closed-listener", "closed-dialer", "closed-pipe", "redial-pending-at-close", "refused-pipe", "closed-in-attached-callback"}},
			&vexplore.Scenario{Name: "socket-with-several-dialers-and-listeners-closed", Mode: "enum", Reset: kit.ResetGlobals, Body: c14.SeveralEndpointsClosed, NeedCounters: []string{"three-or-more-dialers-all-stopped"}},
			&vexplore.Scenario{Name: "device-closed", Mode: "enum", Reset: kit.ResetGlobals, Body: deviceClosed, NeedCounters: []string{"device-forwarded-then-closed-clean"}},
			&vexplore.Scenario{Name: "later-calls-with-send-and-receive-modes-set", Mode: "enum", Reset: kit.ResetGlobals, Body: laterCallsWithModes, NeedCounters: []string{"later-calls-closed-with-a-mode-set"}},
			&vexplore.Scenario{Name: "close-context-only", Mode: "enum", Reset: kit.ResetGlobals, Body: closeContextOnly},
			&vexplore.Scenario{Name: "tcp-close-vs-incoming-connection", Mode: "sched", Bound: b + 1, Reset: kit.ResetGlobals, Body: tcpCloseVsAccept},
			&vexplore.Scenario{Name: "close-of-a-listener-that-never-owned-the-address", Mode: "enum", Reset: kit.ResetGlobals, Body: closeLoserListener,
				NeedCounters: []string{"winner-still-reachable"}},
			&vexplore.Scenario{Name: "tcp-close-vs-stalled-handshake", Mode: "enum", Reset: kit.ResetGlobals, Body: tcpStalledHandshake,
				NeedCounters: []string{"stalled-inbound-closed", "stalled-outbound"}},
		)
		return out
	})
}

func census(what string) {
	if bad := kit.Census(); bad != "" {
		kit.Failf("leak:"+leakSig(bad), "%s: after all sockets were closed this remains: %s", what, bad)
	}
	kit.Count("census-clean")
}

// leakSig keeps the first leaked item, without numbers that vary.
func leakSig(bad string) string {
	s := bad
	for i := 0; i < len(s); i++ {
		if s[i] == ';' {
			s = s[:i]
			break
		}
	}
	out := []byte{}
	for i := 0; i < len(s); i++ {
		if s[i] >= '0' && s[i] <= '9' {
			continue
		}
		out = append(out, s[i])
	}
	return string(out)
}

// closeBlocked: calls are blocked in Recv and Send (where the pattern can block); a
// concurrent Close must make all of them return, return itself, and leave nothing behind.
func closeBlocked(k *kinds.Kind, useCtx bool) {
	x := k.OpenQ("c10", true, 1)
	var ctx mangos.Context
	if useCtx {
		c, err := x.S.OpenContext()
		if err != nil {
			kit.Failf("setup:ctx:"+k.Name, "OpenContext: %s", kit.ErrName(err))
		}
		ctx = c
		x.Ctx = c
	}
	name := k.Name
	if useCtx {
		name += ".ctx"
	}
	var calls []*kit.Call
	fed := false
	if k.CanRecv {
		x.P.Hold(false)
		x.PrepRecv()
		x.P.Hold(true)
		calls = append(calls, kit.Start("Recv", func() (interface{}, error) {
			if ctx != nil {
				b, err := ctx.Recv()
				return string(b), err
			}
			return x.Recv()
		}))
		kit.Quiesce()
	}
	if k.CanSend && !useCtx {
		// try to get a Send blocked (peer holds, queue of one)
		for i := 0; i < 5; i++ {
			if k.NeedReq {
				break // a reply needs the request the pending Recv is waiting for
			}
			body := fmt.Sprintf("s%d", i)
			c := kit.Start("Send:"+body, func() (interface{}, error) { return nil, x.Send(body) })
			kit.Quiesce()
			if !c.Done() {
				calls = append(calls, c)
				break
			}
		}
	}
	_ = fed
	cc := kit.Start("Close", func() (interface{}, error) { return nil, x.S.Close() })
	kit.Quiesce()
	if !cc.Done() {
		kit.Failf("close-blocked:"+name, "%s: Close did not return", name)
	}
	if cc.Err != nil {
		kit.Failf("close-error:"+name, "%s: Close returned %s", name, kit.ErrName(cc.Err))
	}
	for _, c := range calls {
		if !c.Done() {
			kit.Failf("call-not-unblocked:"+name+":"+callKind(c), "%s: %s still blocked after Close returned", name, c.Name)
		}
		if c.Err != mangos.ErrClosed && c.Err != nil {
			// a call that completed before the close may succeed; anything else must be the closed error
			if !(c.Err == mangos.ErrCanceled && k.NeedOut) {
				kit.Failf("call-wrong-error:"+name+":"+callKind(c), "%s: %s returned %s after Close, want ErrClosed", name, c.Name, kit.ErrName(c.Err))
			}
		}
	}
	// later calls fail promptly
	later := []*kit.Call{
		kit.Start("Send-after", func() (interface{}, error) {
			if ctx != nil {
				return nil, ctx.Send([]byte("late"))
			}
			return nil, x.Send("late")
		}),
		kit.Start("Recv-after", func() (interface{}, error) {
			if ctx != nil {
				b, err := ctx.Recv()
				return string(b), err
			}
			return x.Recv()
		}),
		kit.Start("Close-again", func() (interface{}, error) { return nil, x.S.Close() }),
		kit.Start("Dial-after", func() (interface{}, error) { return nil, x.S.Dial("vt://c10-late") }),
		kit.Start("Listen-after", func() (interface{}, error) { return nil, x.S.Listen("vt://c10-late2") }),
		kit.Start("OpenContext-after", func() (interface{}, error) { _, err := x.S.OpenContext(); return nil, err }),
	}
	kit.Quiesce()
	for _, c := range later {
		if !c.Done() {
			kit.Failf("later-call-blocks:"+name+":"+c.Name, "%s: %s blocks after Close", name, c.Name)
		}
		switch c.Err {
		case mangos.ErrClosed, mangos.ErrProtoOp:
		default:
			kit.Failf("later-call-error:"+name+":"+c.Name, "%s: %s after Close returned %s / %v, want ErrClosed (or ErrProtoOp)", name, c.Name, kit.ErrName(c.Err), c.Val)
		}
	}
	if !x.P.ClosedByMangos() {
		kit.Failf("connection-left-open:"+name, "%s: the connection was not closed by Close", name)
	}
	if n := core.VerifSocketPipes(x.S); n != 0 {
		kit.Failf("pipes-still-listed:"+name, "%s: %d pipe(s) still listed by the closed socket", name, n)
	}
	kit.Sleep(time.Hour) // any timer that was left armed fires now
	kit.Quiesce()
	census(name)
	kit.Observe("%s", name)
}

// deviceClosed: a Device between two raw sockets - two-way patterns (XREQ/XREP, XPAIR/XPAIR, XBUS,
// XSURVEYOR/XRESPONDENT) and one-way ones (XSUB/XPUB, XPULL/XPUSH, where one direction has nothing
// to receive) - forwards a message, then both sockets are closed: both forwarders end, nothing is
// left (census after an hour of virtual time).
func deviceClosed() {
	type pair struct{ a, b string }
	ps := []pair{{"xrep", "xreq"}, {"xpair", "xpair"}, {"xbus", "xbus"}, {"xrespondent", "xsurveyor"}, {"xsub", "xpub"}, {"xpull", "xpush"}, {"xpair1", "xpair1"}, {"xstar", "xstar"}}
	p := ps[kit.ChooseFree(len(ps))]
	order := kit.ChooseFree(2)
	a, err := kinds.ByName(p.a).New()
	if err != nil {
		kit.Failf("setup", "NewSocket: %v", err)
	}
	b := a
	if p.a != p.b || kit.ChooseFree(2) == 1 {
		if b, err = kinds.ByName(p.b).New(); err != nil {
			kit.Failf("setup", "NewSocket: %v", err)
		}
	}
	epa, epb := vt.Get("c10-dev-a"), vt.Get("c10-dev-b")
	if err := a.Listen("vt://c10-dev-a"); err != nil {
		kit.Failf("setup", "Listen: %s", kit.ErrName(err))
	}
	if b != a {
		if err := b.Listen("vt://c10-dev-b"); err != nil {
			kit.Failf("setup", "Listen: %s", kit.ErrName(err))
		}
	}
	if err := mangos.Device(a, b); err != nil {
		kit.Failf("setup", "Device(%s, %s): %s", p.a, p.b, kit.ErrName(err))
	}
	pa := epa.Connect()
	var pb *vt.Pipe
	if b != a {
		pb = epb.Connect()
	} else {
		pb = epa.Connect()
	}
	kit.Quiesce()
	// one message in at the front (wire format of the front pattern)
	switch kinds.ByName(p.a).Wire {
	case "plain":
		pa.Deliver([]byte("through-the-device"))
	case "hop":
		pa.Deliver(append([]byte{0, 0, 0, 1}, "through-the-device"...))
	case "word":
		pa.Deliver(append([]byte{0x80, 0, 0, 1}, "through-the-device"...))
	}
	kit.Quiesce()
	forwarded := false
	for _, sm := range pb.SentLog() {
		if strings.Contains(string(sm.Data), "through-the-device") {
			forwarded = true
		}
	}
	if !forwarded && b != a && p.a != "xstar" && p.a != "xbus" {
		kit.Failf("device-did-not-forward", "Device(%s, %s): a message that came in at the front was not passed to the back", p.a, p.b)
	}
	socks := []mangos.Socket{a}
	if b != a {
		socks = append(socks, b)
	}
	if order == 1 && len(socks) == 2 {
		socks[0], socks[1] = socks[1], socks[0]
	}
	for _, s := range socks {
		s := s
		kit.Must("Close", func() { _ = s.Close() })
		kit.Quiesce()
	}
	kit.Sleep(time.Hour)
	kit.Quiesce()
	census(fmt.Sprintf("device(%s,%s)", p.a, p.b))
	kit.Count("device-forwarded-then-closed-clean")
	kit.Observe("%s %s %d same=%v", p.a, p.b, order, b == a)
}

// laterCallsWithModes: the modes that make Send / Recv return early by themselves - fail-no-peers,
// best effort, short deadlines - are set (each alone, where the pattern has it) before the socket
// is closed, with a peer connected or nobody connected.  Calls made after Close still fail with
// the closed error (or the unsupported-operation error): a closed socket is closed, whatever else
// might also be said about it.
func laterCallsWithModes() {
	k := kinds.All[kit.ChooseFree(len(kinds.All))]
	mode := kit.ChooseFree(4)
	withPeer := kit.ChooseFree(2) == 1
	useCtx := k.Ctx && kit.ChooseFree(2) == 1
	x := k.Open("c10m", withPeer, false)
	x.Quiet()
	var err error
	var ctx mangos.Context
	set := x.S.SetOption
	if useCtx {
		if ctx, err = x.S.OpenContext(); err != nil {
			kit.Failf("setup:ctx:"+k.Name, "OpenContext: %s", kit.ErrName(err))
		}
		set = ctx.SetOption
	}
	what := ""
	switch mode {
	case 0:
		what, err = "fail-no-peers", set(mangos.OptionFailNoPeers, true)
	case 1:
		what, err = "best-effort", set(mangos.OptionBestEffort, true)
	case 2:
		what, err = "send-deadline", set(mangos.OptionSendDeadline, time.Millisecond)
	case 3:
		what, err = "recv-deadline", set(mangos.OptionRecvDeadline, time.Millisecond)
	}
	if err != nil {
		kit.Observe("%s has no %s", k.Name, what)
		_ = x.S.Close()
		return
	}
	name := fmt.Sprintf("%s:%s", k.Name, what)
	if useCtx {
		name += ":ctx"
	}
	kit.Must("Close", func() { _ = x.S.Close() })
	kit.Quiesce()
	for round := 0; round < 2; round++ {
		later := []*kit.Call{
			kit.Start("Send-after", func() (interface{}, error) {
				if ctx != nil {
					return nil, ctx.Send([]byte("late"))
				}
				return nil, x.Send("late") // (a well-formed message of the kind: raw sockets get their header)
			}),
			kit.Start("Recv-after", func() (interface{}, error) {
				if ctx != nil {
					b, err := ctx.Recv()
					return string(b), err
				}
				b, err := x.S.Recv()
				return string(b), err
			}),
		}
		kit.Quiesce()
		kit.Sleep(10 * time.Millisecond)
		kit.Quiesce()
		for _, c := range later {
			if !c.Done() {
				kit.Failf("later-call-blocks:"+name+":"+c.Name, "%s (peer connected before Close: %v): %s blocks after Close", name, withPeer, c.Name)
			}
			switch c.Err {
			case mangos.ErrClosed, mangos.ErrProtoOp:
			default:
				kit.Failf("later-call-error:"+name+":"+c.Name, "%s (peer connected before Close: %v): %s after Close returned %s / %v, want ErrClosed (or ErrProtoOp)", name, withPeer, c.Name, kit.ErrName(c.Err), c.Val)
			}
		}
	}
	kit.Count("later-calls-closed-with-a-mode-set")
	kit.Observe("%s peer=%v", name, withPeer)
}

// closeNoPeer: nobody is connected.  A Send waits for a peer and a Recv waits behind it on the same
// socket or context (free choice) when the socket - or only the context - is closed: both calls
// return, with the closed error unless they had failed by themselves before.
func closeNoPeer(k *kinds.Kind) {
	s, err := k.New()
	if err != nil {
		kit.Failf("setup", "NewSocket: %v", err)
	}
	mode := 0 // 0: calls on the socket, socket closed; 1: calls on a context, socket closed; 2: calls on a context, context closed
	if k.Ctx {
		mode = kit.ChooseFree(3)
	}
	var ctx mangos.Context
	if mode > 0 {
		if ctx, err = s.OpenContext(); err != nil {
			kit.Failf("setup:ctx:"+k.Name, "OpenContext: %s", kit.ErrName(err))
		}
	}
	x := &kinds.Sock{K: k, S: s}
	name := fmt.Sprintf("%s:mode%d", k.Name, mode)
	var calls []*kit.Call
	if k.CanSend {
		calls = append(calls, kit.Start("Send", func() (interface{}, error) {
			if ctx != nil {
				return nil, ctx.Send([]byte("waiting"))
			}
			return nil, x.Send("waiting")
		}))
		kit.Quiesce()
	}
	if k.CanRecv {
		calls = append(calls, kit.Start("Recv", func() (interface{}, error) {
			if ctx != nil {
				b, err := ctx.Recv()
				return string(b), err
			}
			return x.Recv()
		}))
		kit.Quiesce()
	}
	waiting := 0
	for _, c := range calls {
		if !c.Done() {
			waiting++
		}
	}
	cc := kit.Start("Close", func() (interface{}, error) {
		if mode == 2 {
			return nil, ctx.Close()
		}
		return nil, s.Close()
	})
	kit.Quiesce()
	if !cc.Done() || cc.Err != nil {
		kit.Failf("close-blocked:"+name, "%s: Close done=%v %s", name, cc.Done(), kit.ErrName(cc.Err))
	}
	for _, c := range calls {
		if !c.Done() {
			kit.Failf("call-not-unblocked:"+name+":"+c.Name, "%s: nobody connected, %d call(s) were waiting; %s is still blocked after Close returned", name, waiting, c.Name)
		}
	}
	if mode == 2 {
		kit.Must("Socket.Close", func() { _ = s.Close() })
	}
	kit.Sleep(time.Hour)
	kit.Quiesce()
	census(name)
	kit.Observe("%s waiting=%d", name, waiting)
}

func callKind(c *kit.Call) string {
	if len(c.Name) >= 4 {
		return c.Name[:4]
	}
	return c.Name
}

// closeContextOnly: closing a context affects only that context.
func closeContextOnly() {
	var ks []*kinds.Kind
	for _, k := range kinds.All {
		if k.Ctx {
			ks = append(ks, k)
		}
	}
	k := ks[kit.ChooseFree(len(ks))]
	x := k.Open("c10c", true, false)
	x.Quiet()
	c, err := x.S.OpenContext()
	if err != nil {
		kit.Failf("setup:ctx", "OpenContext: %s", kit.ErrName(err))
	}
	x.Ctx = c
	x.PrepRecv()
	x.Ctx = nil
	rc := kit.Start("ctx.Recv", func() (interface{}, error) { b, err := c.Recv(); return string(b), err })
	kit.Quiesce()
	kit.Must("Context.Close", func() {
		if err := c.Close(); err != nil {
			kit.Failf("ctx-close-error:"+k.Name, "Context.Close: %s", kit.ErrName(err))
		}
	})
	kit.Quiesce()
	if !rc.Done() || rc.Err != mangos.ErrClosed {
		kit.Failf("ctx-recv-not-closed:"+k.Name, "%s: Recv pending on the closed context: done=%v %s", k.Name, rc.Done(), kit.ErrName(rc.Err))
	}
	for _, op := range []string{"Send", "Recv", "Close"} {
		op := op
		lc := kit.Start("ctx."+op, func() (interface{}, error) {
			switch op {
			case "Send":
				return nil, c.Send([]byte("x"))
			case "Recv":
				_, err := c.Recv()
				return nil, err
			}
			return nil, c.Close()
		})
		kit.Quiesce()
		if !lc.Done() {
			kit.Failf("ctx-later-call-blocks:"+k.Name+":"+op, "%s: %s on a closed context blocks", k.Name, op)
		}
		// (the property fixes the closed error for a closed socket; for a closed context a prompt
		// protocol-state failure - the context has no request/survey any more - is accepted as well)
		if lc.Err != mangos.ErrClosed && lc.Err != mangos.ErrProtoOp && lc.Err != mangos.ErrProtoState {
			kit.Failf("ctx-later-call-error:"+k.Name+":"+op, "%s: %s on a closed context returned %s, want ErrClosed", k.Name, op, kit.ErrName(lc.Err))
		}
	}
	// the socket itself and a fresh context keep working
	x.PrepRecv()
	if x.Feed("still-works") {
		c2 := kit.Start("Recv", func() (interface{}, error) { return x.Recv() })
		kit.Quiesce()
		if !c2.Done() || c2.Err != nil || c2.Val.(string) != "still-works" {
			kit.Failf("socket-disturbed-by-ctx-close:"+k.Name, "%s: after closing a context the socket's Recv: done=%v %s %q", k.Name, c2.Done(), kit.ErrName(c2.Err), c2.Val)
		}
	}
	if _, err := x.S.OpenContext(); err != nil {
		kit.Failf("socket-disturbed-by-ctx-close:"+k.Name, "OpenContext after closing another context: %s", kit.ErrName(err))
	}
	kit.Observe("%s", k.Name)
	kit.Must("Close", func() { _ = x.S.Close() })
	kit.Sleep(time.Hour)
	kit.Quiesce()
	census(k.Name + " after context close")
}

// coreHist: listeners, dialers, pipes in every phase, then socket Close and a census.
func coreHist(depth int) {
	k := kinds.ByName([]string{"xpub", "pair", "req"}[kit.ChooseFree(3)])
	s, err := k.New()
	if err != nil {
		kit.Failf("setup", "NewSocket: %v", err)
	}
	_ = s.SetOption(mangos.OptionReconnectTime, 100*time.Millisecond)
	lep, dep := vt.Get("c10l"), vt.Get("c10d")
	var l mangos.Listener
	var d mangos.Dialer
	var pipes []mangos.Pipe
	hookClose := false
	hookCloseAttached := false
	s.SetPipeEventHook(func(ev mangos.PipeEvent, p mangos.Pipe) {
		if ev == mangos.PipeEventAttaching && hookClose {
			hookClose = false
			_ = p.Close()
			kit.Count("refused-pipe")
		}
		if ev == mangos.PipeEventAttached {
			if hookCloseAttached {
				// the hook closes the pipe from within its own Attached callback
				hookCloseAttached = false
				_ = p.Close()
				kit.Count("closed-in-attached-callback")
				return
			}
			pipes = append(pipes, p)
		}
	})
	events := func() []kit.Event {
		var evs []kit.Event
		if l == nil {
			evs = append(evs, kit.Event{Name: "listen", Run: func() {
				var err error
				l, err = s.NewListener("vt://c10l", nil)
				if err == nil {
					err = l.Listen()
				}
				if err != nil {
					kit.Failf("listen-error", "Listen: %s", kit.ErrName(err))
				}
			}})
		} else {
			if lep.Listening() {
				evs = append(evs, kit.Event{Name: "peer-connects", Run: func() { lep.Connect() }})
				evs = append(evs, kit.Event{Name: "peer-connects-hook-closes", Run: func() { hookClose = true; lep.Connect() }})
				evs = append(evs, kit.Event{Name: "peer-connects-hook-closes-when-attached", Run: func() {
					hookCloseAttached = true
					lep.Connect()
					kit.Quiesce()
					hookCloseAttached = false
				}})
				evs = append(evs, kit.Event{Name: "close-listener", Run: func() {
					kit.Must("Listener.Close", func() { _ = l.Close() })
					kit.Count("closed-listener")
				}})
			}
		}
		if d == nil {
			for _, o := range []struct {
				n string
				o vt.DialOutcome
			}{{"ok", vt.DialOK}, {"refused", vt.DialRefused}} {
				o := o
				evs = append(evs, kit.Event{Name: "dial-async:" + o.n, Run: func() {
					dep.Script(o.o)
					var err error
					d, err = s.NewDialer("vt://c10d", map[string]interface{}{mangos.OptionDialAsynch: true})
					if err == nil {
						err = d.Dial()
					}
					if err != nil {
						kit.Failf("dial-error", "asynchronous Dial: %s", kit.ErrName(err))
					}
				}})
			}
		} else {
			evs = append(evs, kit.Event{Name: "close-dialer", Run: func() {
				kit.Must("Dialer.Close", func() { _ = d.Close() })
				kit.Count("closed-dialer")
			}})
			evs = append(evs, kit.Event{Name: "advance-100ms", Run: func() { kit.Sleep(100 * time.Millisecond) }})
		}
		for _, ep := range []*vt.Endpoint{lep, dep} {
			ep := ep
			if n := ep.NumPipes(); n > 0 && ep.PipeAt(n-1).Alive() {
				evs = append(evs, kit.Event{Name: "peer-drops:" + ep.Name, Run: func() { ep.PipeAt(ep.NumPipes() - 1).DropNow() }})
			}
		}
		if len(pipes) > 0 {
			evs = append(evs, kit.Event{Name: "close-pipe", Run: func() {
				p := pipes[len(pipes)-1]
				pipes = pipes[:len(pipes)-1]
				kit.Must("Pipe.Close", func() { _ = p.Close() })
				kit.Count("closed-pipe")
			}})
		}
		return evs
	}
	kit.Hist(depth, events, func() {})
	if d != nil {
		if _, ok := nextTimer(); ok {
			kit.Count("redial-pending-at-close")
		}
	}
	kit.Must("Socket.Close", func() {
		if err := s.Close(); err != nil {
			kit.Failf("close-error", "Close: %s", kit.ErrName(err))
		}
	})
	kit.Quiesce()
	for _, ep := range []*vt.Endpoint{lep, dep} {
		for i := 0; i < ep.NumPipes(); i++ {
			if p := ep.PipeAt(i); !p.ClosedByMangos() && !p.Dropped() {
				kit.Failf("connection-left-open", "connection %d of %s is still open after socket Close", i, ep.Name)
			}
		}
	}
	if lep.Listening() {
		kit.Failf("listener-left-open", "the listening address is still bound after socket Close")
	}
	if n := core.VerifSocketPipes(s); n != 0 {
		kit.Failf("pipes-still-listed", "%d pipe(s) still listed by the closed socket", n)
	}
	nd := dep.NumDials()
	kit.Sleep(time.Hour)
	kit.Quiesce()
	if dep.NumDials() != nd {
		kit.Failf("dial-after-close", "%d connection attempt(s) after socket Close", dep.NumDials()-nd)
	}
	census("core objects (" + k.Name + ")")
}

func nextTimer() (time.Duration, bool) { return kit.NextTimer() }

// closeVsSetup: Close runs while a Dial / Listen / OpenContext is in progress on the same socket.
// Whatever the interleaving, once Close has returned nothing of the socket may stay active.
func closeVsSetup() {
	k := kinds.ByName([]string{"pair", "xpub", "req"}[kit.ChooseFree(3)])
	op := kit.ChooseFree(5)
	s, err := k.New()
	if err != nil {
		kit.Failf("setup", "NewSocket: %v", err)
	}
	_ = s.SetOption(mangos.OptionReconnectTime, 100*time.Millisecond)
	dep := vt.Get("c10cs-d")
	lep := vt.Get("c10cs-l")
	names := []string{"Dial-sync-ok", "Dial-async-ok", "Dial-async-refused", "Listen", "OpenContext"}
	oc := kit.Start(names[op], func() (interface{}, error) {
		switch op {
		case 0:
			dep.Script(vt.DialOK)
			return nil, s.Dial("vt://c10cs-d")
		case 1:
			dep.Script(vt.DialOK)
			return nil, s.DialOptions("vt://c10cs-d", map[string]interface{}{mangos.OptionDialAsynch: true})
		case 2:
			dep.Script(vt.DialRefused)
			return nil, s.DialOptions("vt://c10cs-d", map[string]interface{}{mangos.OptionDialAsynch: true})
		case 3:
			return nil, s.Listen("vt://c10cs-l")
		}
		_, err := s.OpenContext()
		return nil, err
	})
	cc := kit.Start("Close", func() (interface{}, error) { return nil, s.Close() })
	kit.Quiesce()
	if !oc.Done() || !cc.Done() {
		kit.Failf("close-vs-setup-blocked:"+names[op], "%s: %s done=%v, Close done=%v", k.Name, names[op], oc.Done(), cc.Done())
	}
	if op == 3 && lep.Listening() {
		// Listen may win or lose the race, but a closed socket must not keep a bound address
		kit.Failf("listener-left-open", "%s: Listen raced with Close and the address is still bound after both returned", k.Name)
	}
	nd := dep.NumDials()
	kit.Sleep(time.Hour)
	kit.Quiesce()
	if dep.NumDials() != nd {
		kit.Failf("dial-after-close", "%s: %s raced with Close: %d connection attempt(s) after both had returned", k.Name, names[op], dep.NumDials()-nd)
	}
	for _, ep := range []*vt.Endpoint{dep, lep} {
		for i := 0; i < ep.NumPipes(); i++ {
			if p := ep.PipeAt(i); p.Alive() {
				kit.Failf("connection-left-open", "%s: %s raced with Close: connection %d of %s is still open", k.Name, names[op], i, ep.Name)
			}
		}
	}
	census(k.Name + ": " + names[op] + " || Close")
	kit.Observe("%s %s dial=%s", k.Name, names[op], kit.ErrName(oc.Err))
}

// inprocDialWaiting: a Dial is waiting for the peer's accept loop (which is busy in its event
// hook) when the listening socket is closed; the Dial has to return, nothing may stay blocked.
func inprocDialWaiting() {
	a, err := kinds.ByName("xpub").New()
	if err != nil {
		kit.Failf("setup", "NewSocket: %v", err)
	}
	release := make(chan struct{})
	a.SetPipeEventHook(func(ev mangos.PipeEvent, p mangos.Pipe) {
		if ev == mangos.PipeEventAttaching {
			<-release // the accept loop is held here: no Accept is outstanding meanwhile
		}
	})
	if err := a.Listen("inproc://c10-wait"); err != nil {
		kit.Failf("setup", "Listen: %s", kit.ErrName(err))
	}
	b1, _ := kinds.ByName("sub").New()
	b2, _ := kinds.ByName("sub").New()
	d1 := kit.Start("Dial1", func() (interface{}, error) { return nil, b1.Dial("inproc://c10-wait") })
	kit.Quiesce()
	d2 := kit.Start("Dial2", func() (interface{}, error) { return nil, b2.Dial("inproc://c10-wait") })
	kit.Quiesce()
	if !d1.Done() || d2.Done() {
		kit.Failf("setup", "expected the first Dial to be through and the second to wait: %v %v", d1.Done(), d2.Done())
	}
	cc := kit.Start("Close", func() (interface{}, error) { return nil, a.Close() })
	kit.Quiesce()
	close(release)
	kit.Quiesce()
	if !cc.Done() {
		kit.Failf("close-blocked:inproc-listener", "Close of the listening socket did not return")
	}
	if !d2.Done() {
		kit.Failf("dial-left-waiting", "a Dial that was waiting for the listener's accept loop is still blocked after the listening socket was closed")
	}
	kit.Must("Close", func() { _ = b1.Close(); _ = b2.Close() })
	kit.Sleep(time.Hour)
	kit.Quiesce()
	census("inproc dial waiting vs listener close")
	kit.Observe("d2=%s", kit.ErrName(d2.Err))
}

// tcpStalledHandshake: the real tcp transport and SP handshake over the in-memory network.  A
// connection whose peer went silent after n bytes of its header (n = 0..7) is in its handshake,
// inbound (we listen) or outbound (we dial, synchronously or in the background), when the socket
// is closed.  Close has to return, the connection has to be closed and nothing may remain.
func tcpStalledHandshake() {
	k := kinds.ByName([]string{"pair", "xpub", "rep"}[kit.ChooseFree(3)])
	side := kit.ChooseFree(3) // 0 listen, 1 dial in the background, 2 dial synchronously
	n := kit.ChooseFree(8)
	s, err := k.New()
	if err != nil {
		kit.Failf("setup", "NewSocket: %v", err)
	}
	addr := "127.0.0.1:4310"
	ep := net.VGet(addr)
	hdr := []byte{0, 'S', 'P', 0, byte(s.Info().Peer >> 8), byte(s.Info().Peer), 0, 0}
	var h *net.VConn
	var dc *kit.Call
	what := ""
	switch side {
	case 0:
		what = "inbound"
		if err := s.Listen("tcp://" + addr); err != nil {
			kit.Failf("setup", "Listen: %s", kit.ErrName(err))
		}
		h = ep.Connect()
	default:
		what = "outbound"
		ep.HarnessListen(true)
		asynch := side == 1
		if !asynch {
			what = "outbound-sync"
		}
		dc = kit.Start("Dial", func() (interface{}, error) {
			return nil, s.DialOptions("tcp://"+addr, map[string]interface{}{mangos.OptionDialAsynch: asynch})
		})
		kit.Quiesce()
		if len(ep.Dialed) != 1 {
			kit.Failf("setup", "dialer made %d connections", len(ep.Dialed))
		}
		h = ep.Dialed[0]
	}
	h.Feed(hdr[:n])
	kit.Quiesce()
	kit.Sleep(time.Second)
	kit.Quiesce()
	cc := kit.Start("Close", func() (interface{}, error) { return nil, s.Close() })
	kit.Quiesce()
	sig := fmt.Sprintf("%s:tcp", what)
	if !cc.Done() {
		kit.Failf("close-blocked:stalled-handshake:"+sig, "%s: Close did not return while a %s connection was stalled %d bytes into the handshake", k.Name, what, n)
	}
	kit.Sleep(time.Hour)
	kit.Quiesce()
	if side == 0 {
		kit.Count("stalled-inbound-closed")
	} else {
		kit.Count("stalled-outbound")
	}
	if dc != nil && !dc.Done() {
		kit.Failf("dial-left-blocked:stalled-handshake:"+sig, "%s: Dial is still blocked an hour after the socket was closed (peer silent %d bytes into the handshake)", k.Name, n)
	}
	if !h.ClosedByMangos() {
		kit.Failf("connection-left-open:stalled-handshake:"+sig, "%s: the %s connection stalled %d bytes into the handshake is still open an hour after the socket was closed", k.Name, what, n)
	}
	if bad := kit.Census(); bad != "" {
		kit.Failf("leak:stalled-handshake:"+sig, "%s: %s connection stalled %d bytes into the handshake, socket closed, this remains: %s", k.Name, what, n, bad)
	}
	kit.Count("census-clean")
	kit.Observe("%s %s n=%d", k.Name, what, n)
}

// tcpCloseVsAccept: a peer connects (and sends its whole header) while the listening socket is
// being closed.  Wherever Close falls relative to accept, handshake start and handshake completion,
// afterwards the connection is closed and nothing of the socket remains.
func tcpCloseVsAccept() {
	s, err := kinds.ByName("xpub").New()
	if err != nil {
		kit.Failf("setup", "NewSocket: %v", err)
	}
	addr := "127.0.0.1:4320"
	if err := s.Listen("tcp://" + addr); err != nil {
		kit.Failf("setup", "Listen: %s", kit.ErrName(err))
	}
	kit.Quiesce()
	ep := net.VGet(addr)
	hdr := []byte{0, 'S', 'P', 0, byte(s.Info().Peer >> 8), byte(s.Info().Peer), 0, 0}
	h := ep.Connect()
	h.Feed(hdr)
	cc := kit.Start("Close", func() (interface{}, error) { return nil, s.Close() })
	kit.Quiesce()
	if !cc.Done() {
		kit.Failf("close-blocked:incoming-connection", "Close did not return while a connection was coming in")
	}
	kit.Sleep(time.Hour)
	kit.Quiesce()
	if !h.ClosedByMangos() {
		kit.Failf("connection-left-open:incoming-at-close", "a connection that came in while the socket was being closed completed its handshake and is still open an hour later (header bytes written to it: %d)", len(h.Written()))
	}
	if bad := kit.Census(); bad != "" {
		kit.Failf("leak:incoming-at-close", "connection coming in during Close: this remains: %s", bad)
	}
	kit.Observe("written=%d", len(h.Written()))
}

// closeLoserListener: closing a listener affects only that listener.  Socket A listens on an
// inproc address.  On socket B a listener for the same address is created and (free choice) never
// started, or started and refused (address in use); that listener, or all of socket B, is closed.
// A's listener is still registered: a peer can dial it and attaches.
func closeLoserListener() {
	started := kit.ChooseFree(2) == 1
	whole := kit.ChooseFree(2) == 1
	a, err := kinds.ByName("xpub").New()
	if err != nil {
		kit.Failf("setup", "NewSocket: %v", err)
	}
	attached := 0
	a.SetPipeEventHook(func(ev mangos.PipeEvent, p mangos.Pipe) {
		if ev == mangos.PipeEventAttached {
			attached++
		}
	})
	addr := "inproc://c10-loser"
	if err := a.Listen(addr); err != nil {
		kit.Failf("setup", "Listen: %s", kit.ErrName(err))
	}
	b, _ := kinds.ByName("xpub").New()
	l, err := b.NewListener(addr, nil)
	if err != nil {
		kit.Failf("setup", "NewListener: %s", kit.ErrName(err))
	}
	if started {
		if err := l.Listen(); err != mangos.ErrAddrInUse {
			kit.Failf("second-listen-result", "a second Listen on %s returned %s, want ErrAddrInUse", addr, kit.ErrName(err))
		}
	}
	kit.Must("Close(loser)", func() {
		if whole {
			_ = b.Close()
		} else {
			_ = l.Close()
		}
	})
	c, _ := kinds.ByName("sub").New()
	dc := kit.Start("Dial", func() (interface{}, error) { return nil, c.Dial(addr) })
	kit.Quiesce()
	if !dc.Done() || dc.Err != nil || attached != 1 {
		kit.Failf("close-affected-another-listener", "a listener that never owned %s was closed (started=%v, whole socket=%v); now Dial to the socket that does listen there: done=%v %s, attached=%d", addr, started, whole, dc.Done(), kit.ErrName(dc.Err), attached)
	}
	kit.Count("winner-still-reachable")
	kit.Must("Close", func() { _ = a.Close(); _ = b.Close(); _ = c.Close() })
	kit.Sleep(time.Hour)
	kit.Quiesce()
	census("close of a listener that never owned the address")
	kit.Observe("%v %v", started, whole)
}

// Bodies re-run by C11 under the race-instrumented build.
var RaceBodies = map[string]func(){
	"c10-close-vs-dial-listen":  closeVsSetup,
	"c10-inproc-dial-waiting":   inprocDialWaiting,
}
