// Package vipc is a thin harness transport ("vipc://host:port") that runs the REAL IPC pipe of
// mangos - transport.NewConnPipeIPC (connipc Send/Recv) and the shared connection handshaker -
// over the harness' in-memory network.  Only the accept/dial plumbing (a copy of the few lines of
// transport/ipc that call those two functions) is harness code; framing, limits and handshake are
// the library's.
package vipc

import (
	"context"
	"sync"

	"go.nanomsg.org/mangos/v3"
	"go.nanomsg.org/mangos/v3/transport"
	net "go.nanomsg.org/mangos/v3/vh/vnet"
)

type tran struct{}

func (tran) Scheme() string { return "vipc" }

func init() { transport.RegisterTransport(tran{}) }

type dialer struct {
	addr  string
	proto transport.ProtocolInfo
	hs    transport.Handshaker
	maxrx int
	d     net.Dialer
	lock  sync.Mutex
}

func (t tran) NewDialer(addr string, sock mangos.Socket) (transport.Dialer, error) {
	a, err := transport.StripScheme(t, addr)
	if err != nil {
		return nil, err
	}
	return &dialer{addr: a, proto: sock.Info(), hs: transport.NewConnHandshaker()}, nil
}

func (d *dialer) Dial() (transport.Pipe, error) {
	conn, err := d.d.Dial("unix", d.addr)
	if err != nil {
		return nil, err
	}
	p := transport.NewConnPipeIPC(conn, d.proto)
	d.lock.Lock()
	p.SetOption(mangos.OptionMaxRecvSize, d.maxrx)
	d.lock.Unlock()
	d.hs.Start(p)
	return d.hs.Wait()
}

func (d *dialer) SetOption(n string, v interface{}) error {
	if n == mangos.OptionMaxRecvSize {
		if b, ok := v.(int); ok {
			d.lock.Lock()
			d.maxrx = b
			d.lock.Unlock()
			return nil
		}
		return mangos.ErrBadValue
	}
	return mangos.ErrBadOption
}

func (d *dialer) GetOption(n string) (interface{}, error) {
	if n == mangos.OptionMaxRecvSize {
		d.lock.Lock()
		defer d.lock.Unlock()
		return d.maxrx, nil
	}
	return nil, mangos.ErrBadOption
}

type listener struct {
	addr   string
	proto  transport.ProtocolInfo
	hs     transport.Handshaker
	maxrx  int
	l      net.Listener
	lc     net.ListenConfig
	closeQ chan struct{}
	once   sync.Once
	lock   sync.Mutex
}

func (t tran) NewListener(addr string, sock mangos.Socket) (transport.Listener, error) {
	a, err := transport.StripScheme(t, addr)
	if err != nil {
		return nil, err
	}
	return &listener{addr: a, proto: sock.Info(), hs: transport.NewConnHandshaker(), closeQ: make(chan struct{})}, nil
}

func (l *listener) Listen() error {
	select {
	case <-l.closeQ:
		return mangos.ErrClosed
	default:
	}
	ln, err := l.lc.Listen(context.Background(), "unix", l.addr)
	if err != nil {
		return err
	}
	l.lock.Lock()
	l.l = ln
	l.lock.Unlock()
	go func() {
		for {
			conn, err := ln.Accept()
			if err != nil {
				select {
				case <-l.closeQ:
					return
				default:
					continue
				}
			}
			p := transport.NewConnPipeIPC(conn, l.proto)
			l.lock.Lock()
			p.SetOption(mangos.OptionMaxRecvSize, l.maxrx)
			l.lock.Unlock()
			l.hs.Start(p)
		}
	}()
	return nil
}

func (l *listener) Accept() (transport.Pipe, error) {
	l.lock.Lock()
	if l.l == nil {
		l.lock.Unlock()
		return nil, mangos.ErrClosed
	}
	l.lock.Unlock()
	return l.hs.Wait()
}

func (l *listener) Close() error {
	l.once.Do(func() {
		close(l.closeQ)
		l.lock.Lock()
		if l.l != nil {
			_ = l.l.Close()
		}
		l.lock.Unlock()
		l.hs.Close()
	})
	return nil
}

func (l *listener) Address() string { return "vipc://" + l.addr }

func (l *listener) SetOption(n string, v interface{}) error {
	if n == mangos.OptionMaxRecvSize {
		if b, ok := v.(int); ok {
			l.lock.Lock()
			l.maxrx = b
			l.lock.Unlock()
			return nil
		}
		return mangos.ErrBadValue
	}
	return mangos.ErrBadOption
}

func (l *listener) GetOption(n string) (interface{}, error) {
	if n == mangos.OptionMaxRecvSize {
		l.lock.Lock()
		defer l.lock.Unlock()
		return l.maxrx, nil
	}
	return nil, mangos.ErrBadOption
}
