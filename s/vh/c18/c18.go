// Package c18 checks property C18: deadlines, best-effort and fail-no-peers modes never block or fire early.
package c18

import (
	"fmt"
	"time"

	"go.nanomsg.org/mangos/v3"
	"go.nanomsg.org/mangos/v3/vh/kinds"
	"go.nanomsg.org/mangos/v3/vh/kit"
	"go.nanomsg.org/mangos/v3/vh/vt"
	"go.nanomsg.org/mangos/v3/vz/vexplore"
)

var deadlines = []time.Duration{50 * time.Millisecond, 0, 2 * time.Second}

func init() {
	// C11 / C12: while one goroutine's Send waits for queue space (a documented blocking call), other
	// goroutines' calls on the same socket - Recv with a deadline, option calls - are not held up
	// C11: a Recv with a deadline while another goroutine resizes the queue returns by its deadline
	vexplore.Register("C11", func(tier string) []*vexplore.Scenario {
		return []*vexplore.Scenario{{Name: "recv-with-a-deadline-vs-queue-resizes", Mode: "enum", Reset: kit.ResetGlobals, Body: recvDeadlineResizes,
			NeedCounters: []string{"recv-timeout-exact-across-queue-resizes"}}}
	})
	for _, prop := range []string{"C11", "C12"} {
		vexplore.Register(prop, func(tier string) []*vexplore.Scenario {
			return []*vexplore.Scenario{{Name: "other-calls-while-a-send-waits-for-queue-space", Mode: "enum", Reset: kit.ResetGlobals, Body: recvWhileSendWaits,
				NeedCounters: []string{"recv-timeout-exact-beside-waiting-send"}}}
		})
	}
}

func init() {
	vexplore.Register("C18", func(tier string) []*vexplore.Scenario {
		b := 1
		if tier == "thorough" {
			b = 2
		}
		return []*vexplore.Scenario{
			{Name: "recv-deadline", Mode: "enum", Bound: b, Reset: kit.ResetGlobals, Body: func() { recvDeadline(false) },
				NeedCounters: []string{"recv-timeout-exact", "recv-no-deadline-waits", "recv-immediate-ok", "recv-unsupported-op"}},
			{Name: "recv-deadline-context", Mode: "enum", Bound: b, Reset: kit.ResetGlobals, Body: func() { recvDeadline(true) },
				NeedCounters: []string{"recv-timeout-exact", "ctx-deadline-inherited", "ctx-deadline-switched-off-beside-the-sockets", "ctx-opened-before-keeps-no-deadline"}},
			{Name: "recv-deadline-with-peers-coming-and-going-during-the-wait", Mode: "enum", Bound: b, Reset: kit.ResetGlobals, Body: recvDeadlineEvents,
				NeedCounters: []string{"recv-timeout-exact-after-connection-events", "carrier-of-the-request-lost-during-the-wait"}},
			{Name: "recv-deadline-with-the-queue-resized-during-the-wait", Mode: "enum", Bound: b, Reset: kit.ResetGlobals, Body: recvDeadlineResizes,
				NeedCounters: []string{"recv-timeout-exact-across-queue-resizes"}},
			{Name: "send-deadline", Mode: "enum", Bound: b, Reset: kit.ResetGlobals, Body: func() { sendModes("deadline") },
				NeedCounters: []string{"send-timeout-exact", "send-no-deadline-waits", "send-immediate-ok", "send-timeout-exact-again-after-idle"}},
			{Name: "modes-switched-off-again-during-a-blocked-send", Mode: "enum", Bound: b, Reset: kit.ResetGlobals, Body: modesReapplied,
				NeedCounters: []string{"blocked-send-undisturbed-by-reapplied-modes", "no-peer-connected-during-the-wait"}},
			{Name: "send-deadline-ends-with-the-send", Mode: "enum", Bound: b, Reset: kit.ResetGlobals, Body: sendDeadlineScope,
				NeedCounters: []string{"answer-after-send-deadline-delivered"}},
			{Name: "send-best-effort", Mode: "enum", Bound: b, Reset: kit.ResetGlobals, Body: func() { sendModes("besteffort") },
				NeedCounters: []string{"best-effort-returned-at-once", "best-effort-dropped"}},
			{Name: "recv-deadline-while-a-send-waits", Mode: "enum", Bound: b, Reset: kit.ResetGlobals, Body: recvWhileSendWaits,
				NeedCounters: []string{"recv-timeout-exact-beside-waiting-send"}},
			{Name: "two-senders-one-slot-each-with-the-deadline", Mode: "sched", Bound: b + 1, Reset: kit.ResetGlobals, Body: twoSendersOneSlot},
			{Name: "best-effort-switched-during-a-send", Mode: "sched", Bound: b + 1, Reset: kit.ResetGlobals, Body: bestEffortSwitched},
			{Name: "two-receivers-and-a-late-request-each-with-its-own-deadline", Mode: "enum", Reset: kit.ResetGlobals, Body: deadlineOrigins,
				NeedCounters: []string{"two-receivers-timed-out-each-at-its-own-deadline", "recv-deadline-counts-from-the-recv-call"}},
			{Name: "fail-no-peers-switched-off-after-the-last-peer-left", Mode: "sched", Bound: b, Reset: kit.ResetGlobals, Body: FailNoPeersOff},
			{Name: "fail-no-peers", Mode: "enum", Bound: b, Reset: kit.ResetGlobals, Body: failNoPeers,
				NeedCounters: []string{"nopeers-at-call", "nopeers-when-last-peer-leaves", "one-of-two-peers-leaves", "peers-come-and-go"}},
		}
	})
}

// deadlineOrigins: a receive deadline runs from the call it belongs to - not from an earlier call of
// another goroutine, not from the Send that went before.  (a) Two goroutines call Recv on one
// socket, the second half a deadline after the first, and nothing arrives: each gets the timeout
// error exactly d after ITS call.  (b) REQ / SURVEYOR (socket and context): Send, a pause of half
// or twice the deadline, then Recv with nothing answered: the timeout comes exactly d after the
// Recv call.
func deadlineOrigins() {
	var ks []*kinds.Kind
	for _, k := range kinds.All {
		if k.CanRecv {
			ks = append(ks, k)
		}
	}
	k := ks[kit.ChooseFree(len(ks))]
	d := 50 * time.Millisecond
	x := k.Open("c18o", true, false)
	x.Quiet()
	if err := x.S.SetOption(mangos.OptionRecvDeadline, d); err != nil {
		kit.Failf("setup", "RecvDeadline: %s", kit.ErrName(err))
	}
	if k.NeedOut {
		// (b) the request / survey goes out first, the Recv comes later
		useCtx := kit.ChooseFree(2) == 1
		pause := []time.Duration{d / 2, 2 * d}[kit.ChooseFree(2)]
		recv := x.Recv
		if useCtx {
			c, err := x.S.OpenContext()
			if err != nil {
				kit.Failf("setup:ctx:"+k.Name, "OpenContext: %s", kit.ErrName(err))
			}
			_ = c.SetOption(mangos.OptionRecvDeadline, d)
			x.Ctx = c
			recv = func() (string, error) { b, err := c.Recv(); return string(b), err }
		}
		x.PrepRecv() // sends the request / survey
		kit.Quiesce()
		kit.Sleep(pause)
		kit.Quiesce()
		rc := kit.Start("Recv", func() (interface{}, error) { return recv() })
		kit.Quiesce()
		if k.Name == "surveyor" && pause >= time.Hour {
			return
		}
		if rc.Done() {
			kit.Failf("recv-deadline-early:"+k.Name, "%s (context: %v): Send, %v later Recv with a %v deadline and no answer: Recv returned %s at once - the deadline counts from the Recv call", k.Name, useCtx, pause, d, kit.ErrName(rc.Err))
		}
		kit.Sleep(d - time.Nanosecond)
		kit.Quiesce()
		if rc.Done() {
			kit.Failf("recv-deadline-early:"+k.Name, "%s (context: %v): Recv called %v after the Send returned %s before its %v deadline had elapsed", k.Name, useCtx, pause, kit.ErrName(rc.Err), d)
		}
		kit.Sleep(time.Nanosecond)
		kit.Quiesce()
		if !rc.Done() || rc.Err != mangos.ErrRecvTimeout {
			kit.Failf("recv-deadline-late:"+k.Name, "%s (context: %v): Recv with a %v deadline: done=%v %s at the deadline", k.Name, useCtx, d, rc.Done(), kit.ErrName(rc.Err))
		}
		kit.Count("recv-deadline-counts-from-the-recv-call")
		kit.Observe("%s b ctx=%v %v", k.Name, useCtx, pause)
		kit.Must("Close", func() { _ = x.S.Close() })
		return
	}
	// (a) two receivers
	x.PrepRecv()
	r1 := kit.Start("Recv-1", func() (interface{}, error) { return x.Recv() })
	kit.Quiesce()
	kit.Sleep(d / 2)
	kit.Quiesce()
	r2 := kit.Start("Recv-2", func() (interface{}, error) { return x.Recv() })
	kit.Quiesce()
	if k.Ctx && r2.Done() && r2.Err == mangos.ErrProtoState {
		// one receive at a time per context (REP, RESPONDENT): the second call is refused at once;
		// the first keeps its own deadline
		kit.Sleep(d/2 - time.Nanosecond)
		kit.Quiesce()
		if r1.Done() {
			kit.Failf("recv-deadline-early:"+k.Name, "%s: Recv returned %s before its deadline (a second Recv was refused meanwhile)", k.Name, kit.ErrName(r1.Err))
		}
		kit.Sleep(time.Nanosecond)
		kit.Quiesce()
		if !r1.Done() || r1.Err != mangos.ErrRecvTimeout {
			kit.Failf("recv-deadline-late:"+k.Name+":first-of-two", "%s: Recv is %v past its call: done=%v %s (a second Recv was refused meanwhile)", k.Name, d, r1.Done(), kit.ErrName(r1.Err))
		}
		kit.Observe("%s a refused", k.Name)
		kit.Must("Close", func() { _ = x.S.Close() })
		return
	}
	kit.Sleep(d/2 - time.Nanosecond)
	kit.Quiesce()
	if r1.Done() || r2.Done() {
		kit.Failf("recv-deadline-early:"+k.Name, "%s: two Recv calls %v apart, deadline %v, nothing arrives: a call returned before its deadline (first: %v %s, second: %v %s)", k.Name, d/2, d, r1.Done(), kit.ErrName(r1.Err), r2.Done(), kit.ErrName(r2.Err))
	}
	kit.Sleep(time.Nanosecond)
	kit.Quiesce()
	if !r1.Done() || r1.Err != mangos.ErrRecvTimeout {
		kit.Failf("recv-deadline-late:"+k.Name+":first-of-two", "%s: the first of two Recv calls is %v past its own call: done=%v %s; want the timeout error now (the second call, made %v later, must not move it)", k.Name, d, r1.Done(), kit.ErrName(r1.Err), d/2)
	}
	if r2.Done() {
		kit.Failf("recv-deadline-early:"+k.Name+":second-of-two", "%s: the second Recv returned %s only %v after its call (deadline %v)", k.Name, kit.ErrName(r2.Err), d/2, d)
	}
	kit.Sleep(d / 2)
	kit.Quiesce()
	if !r2.Done() || r2.Err != mangos.ErrRecvTimeout || r2.T1-r2.T0 != d {
		kit.Failf("recv-deadline-late:"+k.Name+":second-of-two", "%s: the second of two Recv calls: done=%v %s after %v (deadline %v)", k.Name, r2.Done(), kit.ErrName(r2.Err), r2.T1-r2.T0, d)
	}
	kit.Count("two-receivers-timed-out-each-at-its-own-deadline")
	kit.Observe("%s a", k.Name)
	kit.Must("Close", func() { _ = x.S.Close() })
}

// FailNoPeersOff: fail-no-peers is switched on, a peer comes and goes (a Send with nobody connected
// fails at once, as it must), then the mode is switched OFF again - accepted, Get answers false.
// From then on a Send with nobody connected is an ordinary Send: it queues the message while there
// is room (write queue of one) and otherwise waits for its send deadline - ErrSendTimeout after
// exactly d, never ErrNoPeers.  All interleavings within the bound (which select case wins is a
// scheduling decision).  Also run under C19: an accepted option value takes effect.
func FailNoPeersOff() {
	var ks []*kinds.Kind
	for _, k := range kinds.All {
		if k.CanSend && !k.NeedReq {
			ks = append(ks, k)
		}
	}
	k := ks[kit.ChooseFree(len(ks))]
	cycles := 1 + kit.ChooseFree(2)
	x := k.Open("c18off", false, true)
	x.Quiet()
	_ = x.S.SetOption(mangos.OptionWriteQLen, 1)
	if err := x.S.SetOption(mangos.OptionFailNoPeers, true); err != nil {
		if err == mangos.ErrBadOption {
			kit.Observe("%s no such mode", k.Name)
			return
		}
		kit.Failf("failnopeers-set:"+k.Name, "SetOption(FailNoPeers): %s", kit.ErrName(err))
	}
	d := 50 * time.Millisecond
	for c := 0; c < cycles; c++ {
		p := x.EP.Connect()
		kit.Quiesce()
		p.DropNow()
		kit.Quiesce()
	}
	x.PrepSend()
	c0 := kit.Start("Send:mode-on", func() (interface{}, error) { return nil, x.Send("on") })
	kit.Quiesce()
	if !c0.Done() || c0.Err != mangos.ErrNoPeers {
		kit.Failf("nopeers-send:"+k.Name, "%s: fail-no-peers set, the last peer has left: Send done=%v %s, want ErrNoPeers", k.Name, c0.Done(), kit.ErrName(c0.Err))
	}
	if err := x.S.SetOption(mangos.OptionFailNoPeers, false); err != nil {
		kit.Failf("failnopeers-unset:"+k.Name, "SetOption(FailNoPeers, false): %s", kit.ErrName(err))
	}
	if v, err := x.S.GetOption(mangos.OptionFailNoPeers); err != nil || v != false {
		kit.Failf("failnopeers-get:"+k.Name, "FailNoPeers reads %v (%s) after false was set", v, kit.ErrName(err))
	}
	if err := x.S.SetOption(mangos.OptionSendDeadline, d); err != nil {
		kit.Failf("setup", "SendDeadline: %s", kit.ErrName(err))
	}
	for i := 0; i < 3; i++ {
		x.PrepSend()
		cl := kit.Start("Send:mode-off", func() (interface{}, error) { return nil, x.Send(fmt.Sprintf("off-%d", i)) })
		kit.Quiesce()
		kit.Sleep(d)
		kit.Quiesce()
		if !cl.Done() {
			kit.Failf("send-hangs-beyond-deadline:"+k.Name, "%s: Send with a %v deadline and nobody connected is still blocked after %v", k.Name, d, d)
		}
		switch {
		case cl.Err == nil && cl.T1 == cl.T0:
			kit.Count("queued-with-the-mode-off")
		case cl.Err == mangos.ErrSendTimeout && cl.T1-cl.T0 == d:
			kit.Count("timed-out-with-the-mode-off")
		default:
			kit.Failf("nopeers-although-switched-off:"+k.Name, "%s: fail-no-peers was switched off again (Get answers false) and nobody is connected: Send %d returned %s after %v; want it queued at once or ErrSendTimeout after exactly %v", k.Name, i, kit.ErrName(cl.Err), cl.T1-cl.T0, d)
		}
	}
	kit.Observe("%s %d", k.Name, cycles)
	kit.Must("Close", func() { _ = x.S.Close() })
}

// sendDeadlineScope: a send deadline governs the Send call it was set for and nothing else.  A
// REQ / SURVEYOR socket or context sends with a send deadline of 50 ms; the Send completes at once.
// The Recv that follows (no receive deadline) is still waiting long after those 50 ms, and returns
// the answer when it arrives.
func sendDeadlineScope() {
	k := kinds.ByName([]string{"req", "surveyor"}[kit.ChooseFree(2)])
	onCtx := kit.ChooseFree(2) == 1
	d := 50 * time.Millisecond
	x := k.Open("c18sd", true, false)
	x.Quiet()
	set, recv := x.S.SetOption, func() (string, error) { return x.Recv() }
	who := k.Name
	if onCtx {
		c, err := x.S.OpenContext()
		if err != nil {
			kit.Failf("setup:ctx:"+k.Name, "OpenContext: %s", kit.ErrName(err))
		}
		x.Ctx = c
		set = c.SetOption
		recv = func() (string, error) { b, err := c.Recv(); return string(b), err }
		who += ".ctx"
	}
	if err := set(mangos.OptionSendDeadline, d); err != nil {
		if err == mangos.ErrBadOption {
			kit.Count("send-deadline-unsupported")
			return // (SURVEYOR sends never block: it has no send deadline)
		}
		kit.Failf("send-deadline-set:"+who, "SetOption(SendDeadline,%v): %s", d, kit.ErrName(err))
	}
	x.PrepRecv() // sends the request / survey; it completes at once
	rc := kit.Start("Recv", func() (interface{}, error) { return recv() })
	kit.Quiesce()
	kit.Sleep(4 * d)
	kit.Quiesce()
	if rc.Done() {
		kit.Failf("send-deadline-hit-a-later-call:"+who, "%s: Send (deadline %v) had completed at once; the Recv that followed, with no receive deadline, returned %s / %q %v later", who, d, kit.ErrName(rc.Err), rc.Val, rc.T1-rc.T0)
	}
	if !x.Feed("the-answer") {
		kit.Failf("setup", "%s: cannot build the answer", who)
	}
	kit.Quiesce()
	if !rc.Done() || rc.Err != nil || rc.Val.(string) != "the-answer" {
		kit.Failf("answer-lost-after-send-deadline:"+who, "%s: the answer arrived %v after the request was sent (send deadline %v): Recv done=%v %s %q", who, 4*d, d, rc.Done(), kit.ErrName(rc.Err), rc.Val)
	}
	kit.Count("answer-after-send-deadline-delivered")
	kit.Observe("%s", who)
	kit.Must("Close", func() { _ = x.S.Close() })
}

func pickKind() *kinds.Kind { return kinds.All[kit.ChooseFree(len(kinds.All))] }

type endpoint struct {
	name string
	set  func(string, interface{}) error
	recv func() (string, error)
	send func(string) error
}

func recvDeadline(useCtx bool) {
	k := pickKind()
	d := deadlines[kit.ChooseFree(len(deadlines))]
	if useCtx && !k.Ctx {
		return
	}
	x := k.Open("c18r", true, false)
	x.Quiet()
	ep := endpoint{name: k.Name, set: x.S.SetOption, recv: x.Recv}
	if !k.CanRecv {
		c := kit.Start("Recv", func() (interface{}, error) { return x.Recv() })
		kit.Quiesce()
		if !c.Done() || c.Err != mangos.ErrProtoOp {
			kit.Failf("recv-unsupported:"+k.Name, "%s: Recv on a send-only pattern: done=%v %s, want ErrProtoOp at once", k.Name, c.Done(), kit.ErrName(c.Err))
		}
		kit.Count("recv-unsupported-op")
		return
	}
	inherited := false
	if useCtx {
		// the deadline is set on the context itself, or (free choice) on the socket before the
		// context is opened: options set on the socket are inherited by contexts opened afterwards
		// where the pattern does so - the new context then has the socket's value, otherwise the
		// default (no deadline); nothing else, and it behaves as it reports
		x.PrepRecvCtxNeedsSocket()
		// how: 0 = set on the context; 1 = set on the socket before the context is opened;
		// 2 = set on the socket after the context was opened (the context reports the new value or
		// keeps its own - and behaves as it reports); 3 = as 1, then switched off on the context
		how := kit.ChooseFree(4)
		viaSocket := how != 0
		if how == 1 || how == 3 {
			if err := x.S.SetOption(mangos.OptionRecvDeadline, d); err != nil {
				return
			}
		}
		c, err := x.S.OpenContext()
		if err != nil {
			kit.Failf("setup:ctx:"+k.Name, "OpenContext: %s", kit.ErrName(err))
		}
		if how == 2 {
			if err := x.S.SetOption(mangos.OptionRecvDeadline, d); err != nil {
				return
			}
		}
		ep = endpoint{name: k.Name + ".ctx", set: c.SetOption,
			recv: func() (string, error) { b, err := c.Recv(); return string(b), err },
			send: func(b string) error { return kit.SendBytes(c, []byte(b)) }}
		x.Ctx = c
		if how == 3 {
			if err := c.SetOption(mangos.OptionRecvDeadline, time.Duration(0)); err != nil {
				if err == mangos.ErrBadValue {
					return // zero is outside the range this pattern accepts
				}
				kit.Failf("recv-deadline-set:"+ep.name, "%s: SetOption(RecvDeadline,0): %s", ep.name, kit.ErrName(err))
			}
			v, err := c.GetOption(mangos.OptionRecvDeadline)
			if g, ok := v.(time.Duration); err != nil || !ok || g != 0 {
				kit.Failf("get-after-set:"+ep.name, "%s: RecvDeadline was set to 0 on the context, GetOption reports %v (%s)", ep.name, v, kit.ErrName(err))
			}
			if d > 0 {
				kit.Count("ctx-deadline-switched-off-beside-the-sockets")
			}
			d = 0
			inherited = true
		} else if viaSocket {
			v, err := c.GetOption(mangos.OptionRecvDeadline)
			g, ok := v.(time.Duration)
			if err != nil || !ok || (g != d && g != 0) {
				kit.Failf("ctx-deadline-neither-inherited-nor-default:"+k.Name, "%s: the socket's RecvDeadline is %v; a context opened %s reports %v (%s): neither the socket's value nor the default", k.Name, d, map[int]string{1: "afterwards", 2: "before"}[how], v, kit.ErrName(err))
			}
			if g == d && how == 1 {
				kit.Count("ctx-deadline-inherited")
			}
			if g == 0 && d > 0 && how == 2 {
				kit.Count("ctx-opened-before-keeps-no-deadline")
			}
			d = g
			inherited = true
		}
	}
	if inherited {
		// nothing to set: the context is used as it came
	} else if err := ep.set(mangos.OptionRecvDeadline, d); err != nil {
		if err == mangos.ErrBadOption {
			kit.Count("recv-deadline-unsupported")
			return
		}
		if !(err == mangos.ErrBadValue && d == 0) {
			kit.Failf("recv-deadline-set:"+ep.name, "%s: SetOption(RecvDeadline,%v): %s", ep.name, d, kit.ErrName(err))
		}
		// zero is outside the range this pattern accepts; its default already is "no deadline"
		kit.Count("zero-deadline-not-settable")
	}
	x.PrepRecv()
	if k.Name == "surveyor" && d > 0 && kit.ChooseFree(2) == 1 {
		// the survey in progress was started with a long survey time; the option is lowered now
		// (that concerns the next survey): the receive deadline still ends this Recv, exactly at d
		if err := ep.set(mangos.OptionSurveyTime, d/2); err != nil {
			kit.Failf("surveytime-set:"+ep.name, "SetOption(SurveyTime): %s", kit.ErrName(err))
		}
		kit.Count("survey-time-lowered-during-survey")
	}
	c := kit.Start("Recv", func() (interface{}, error) { return ep.recv() })
	kit.Quiesce()
	if c.Done() {
		kit.Failf("recv-returned-with-nothing:"+ep.name, "%s: Recv returned %s / %q at once although nothing can be received (deadline %v)", ep.name, kit.ErrName(c.Err), c.Val, d)
	}
	if d > 0 {
		kit.Sleep(d - time.Nanosecond)
		kit.Quiesce()
		if c.Done() {
			kit.Failf("recv-deadline-early:"+ep.name, "%s: Recv with deadline %v returned %s after only %v", ep.name, d, kit.ErrName(c.Err), c.T1-c.T0)
		}
		kit.Sleep(time.Nanosecond)
		kit.Quiesce()
		if !c.Done() {
			kit.Failf("recv-deadline-late:"+ep.name, "%s: Recv with deadline %v still blocked after %v", ep.name, d, kit.Now()-c.T0)
		}
		if c.Err != mangos.ErrRecvTimeout || c.T1-c.T0 != d {
			kit.Failf("recv-deadline-result:"+ep.name, "%s: Recv with deadline %v returned %s after %v, want ErrRecvTimeout after exactly the deadline", ep.name, d, kit.ErrName(c.Err), c.T1-c.T0)
		}
		kit.Count("recv-timeout-exact")
		// a call that can complete at once is not failed by the deadline
		x.PrepRecv()
		if x.Feed("ready-now") {
			kit.Quiesce()
			c2 := kit.Start("Recv2", func() (interface{}, error) { return ep.recv() })
			kit.Quiesce()
			if !c2.Done() || c2.Err != nil || c2.Val.(string) != "ready-now" || c2.T1 != c2.T0 {
				kit.Failf("recv-immediate:"+ep.name, "%s: a message was ready, Recv with deadline %v: done=%v %s %q after %v", ep.name, d, c2.Done(), kit.ErrName(c2.Err), c2.Val, c2.T1-c2.T0)
			}
			kit.Count("recv-immediate-ok")
		}
	} else {
		kit.Sleep(time.Hour)
		kit.Quiesce()
		if c.Done() {
			kit.Failf("recv-zero-deadline-fired:"+ep.name, "%s: Recv with no deadline returned %s after %v", ep.name, kit.ErrName(c.Err), c.T1-c.T0)
		}
		if x.Feed("finally") {
			kit.Quiesce()
			if !c.Done() || c.Err != nil || c.Val.(string) != "finally" {
				kit.Failf("recv-zero-deadline-result:"+ep.name, "%s: waiting Recv: done=%v %s %q", ep.name, c.Done(), kit.ErrName(c.Err), c.Val)
			}
		}
		kit.Count("recv-no-deadline-waits")
	}
	kit.Observe("%s d=%v", ep.name, d)
	kit.Must("Close", func() { _ = x.S.Close() })
}

// recvDeadlineEvents: a Recv with a receive deadline is waiting (socket or context; REQ with its
// default retry interval, so that a lost carrier means a re-send, not a cancellation) while peers
// come and go: the connection that carried the request / the first peer leaves, another peer
// leaves, a new peer connects - one or two such events at different instants before the deadline.
// None of them is an answer: the Recv returns the timeout error exactly at its deadline.
func recvDeadlineEvents() {
	var ks []*kinds.Kind
	for _, k := range kinds.All {
		if k.CanRecv {
			ks = append(ks, k)
		}
	}
	k := ks[kit.ChooseFree(len(ks))]
	useCtx := k.Ctx && kit.ChooseFree(2) == 1
	d := 2 * time.Second
	x := k.Open("c18ev", true, false)
	_ = x.S.SetOption(mangos.OptionSurveyTime, 24*time.Hour)
	single := k.Name == "pair" || k.Name == "pair1" || k.Name == "xpair" || k.Name == "xpair1"
	pipes := []*vt.Pipe{x.P}
	if !single {
		pipes = append(pipes, x.EP.Connect())
		kit.Quiesce()
	}
	ep := endpoint{name: k.Name, set: x.S.SetOption, recv: x.Recv}
	if useCtx {
		c, err := x.S.OpenContext()
		if err != nil {
			kit.Failf("setup:ctx:"+k.Name, "OpenContext: %s", kit.ErrName(err))
		}
		ep = endpoint{name: k.Name + ".ctx", set: c.SetOption, recv: func() (string, error) { b, err := c.Recv(); return string(b), err }}
		x.Ctx = c
	}
	if err := ep.set(mangos.OptionRecvDeadline, d); err != nil {
		if err == mangos.ErrBadOption {
			return
		}
		kit.Failf("recv-deadline-set:"+ep.name, "%s: SetOption(RecvDeadline,%v): %s", ep.name, d, kit.ErrName(err))
	}
	x.PrepRecv()
	carrier := 0
	for i, p := range pipes {
		if p.NumSent() > 0 {
			carrier = i
		}
	}
	c := kit.Start("Recv", func() (interface{}, error) { return ep.recv() })
	kit.Quiesce()
	if c.Done() {
		kit.Failf("recv-returned-with-nothing:"+ep.name, "%s: Recv returned %s / %q at once although nothing can be received (deadline %v)", ep.name, kit.ErrName(c.Err), c.Val, d)
	}
	// one or two events, at d/4 and d/2
	nev := 1 + kit.ChooseFree(2)
	what := ""
	for e := 0; e < nev; e++ {
		kit.Sleep(d / 4)
		kit.Quiesce()
		var alive []int
		for i, p := range pipes {
			if p.Alive() {
				alive = append(alive, i)
			}
		}
		n := kit.ChooseFree(len(alive) + 1)
		if n == len(alive) {
			pipes = append(pipes, x.EP.Connect())
			what += " connect"
		} else {
			i := alive[n]
			pipes[i].Drop()
			if i == carrier && k.NeedOut {
				kit.Count("carrier-of-the-request-lost-during-the-wait")
				what += " drop-carrier"
				carrier = -1
			} else {
				what += fmt.Sprintf(" drop-p%d", i)
			}
		}
		kit.Quiesce()
		if c.Done() {
			kit.Failf("recv-ended-by-a-connection-event:"+ep.name, "%s: Recv with deadline %v returned %s / %q after %v, when connections changed (%s) - no message had arrived", ep.name, d, kit.ErrName(c.Err), c.Val, c.T1-c.T0, what)
		}
		if carrier == -1 {
			// the request was (possibly) handed to another connection
			for i, p := range pipes {
				if p.Alive() && p.NumSent() > 0 {
					carrier = i
				}
			}
		}
	}
	kit.Sleep(d - time.Duration(nev)*(d/4) - time.Nanosecond)
	kit.Quiesce()
	if c.Done() {
		kit.Failf("recv-deadline-early:"+ep.name, "%s: Recv with deadline %v returned %s after only %v (connection events:%s)", ep.name, d, kit.ErrName(c.Err), c.T1-c.T0, what)
	}
	kit.Sleep(time.Nanosecond)
	kit.Quiesce()
	if !c.Done() {
		kit.Failf("recv-deadline-late:"+ep.name, "%s: Recv with deadline %v still blocked after %v (connection events during the wait:%s)", ep.name, d, kit.Now()-c.T0, what)
	}
	if c.Err != mangos.ErrRecvTimeout || c.T1-c.T0 != d {
		kit.Failf("recv-deadline-result:"+ep.name, "%s: Recv with deadline %v returned %s after %v, want ErrRecvTimeout after exactly the deadline (connection events:%s)", ep.name, d, kit.ErrName(c.Err), c.T1-c.T0, what)
	}
	kit.Count("recv-timeout-exact-after-connection-events")
	kit.Observe("%s%s", ep.name, what)
	kit.Must("Close", func() { _ = x.S.Close() })
}

// modesReapplied: a Send with deadline d (or none) is blocked - nobody is connected, or the only
// peer takes nothing - when the application applies its configuration again: fail-no-peers off,
// best effort off (the values they have).  Nothing changes for the blocked Send: it returns the
// timeout error after exactly d, or keeps waiting.
func modesReapplied() {
	var ks []*kinds.Kind
	for _, k := range kinds.All {
		if k.CanSend && !k.NeedReq {
			ks = append(ks, k)
		}
	}
	k := ks[kit.ChooseFree(len(ks))]
	d := []time.Duration{2 * time.Second, 0}[kit.ChooseFree(2)]
	withPeer := kit.ChooseFree(2) == 1
	x := k.Open("c18mr", false, true)
	x.Quiet()
	_ = x.S.SetOption(mangos.OptionWriteQLen, 1)
	if withPeer {
		x.P = x.EP.Connect()
		kit.Quiesce()
	}
	if d > 0 {
		if err := x.S.SetOption(mangos.OptionSendDeadline, d); err != nil {
			return
		}
	}
	c, _ := blockSend(x, "mr")
	if c == nil {
		kit.Observe("%s never blocks", k.Name)
		return
	}
	kit.Sleep(500 * time.Millisecond)
	kit.Quiesce()
	for _, o := range []string{mangos.OptionFailNoPeers, mangos.OptionBestEffort} {
		o := o
		oc := kit.Start("SetOption("+o+",false)", func() (interface{}, error) { return nil, x.S.SetOption(o, false) })
		kit.Quiesce()
		if !oc.Done() {
			kit.Failf("option-call-blocked:"+k.Name, "%s: SetOption(%s,false) did not return while a Send was waiting", k.Name, o)
		}
		if c.Done() {
			kit.Failf("send-ended-by-a-reapplied-mode:"+k.Name, "%s (peer connected: %v): a Send with deadline %v was waiting; SetOption(%s,false) - the value it had - made it return %s after %v", k.Name, withPeer, d, o, kit.ErrName(c.Err), c.T1-c.T0)
		}
	}
	if d > 0 {
		kit.Sleep(d - 500*time.Millisecond - time.Nanosecond)
		kit.Quiesce()
		if c.Done() {
			kit.Failf("send-deadline-early:"+k.Name, "%s: Send with deadline %v returned %s after only %v", k.Name, d, kit.ErrName(c.Err), c.T1-c.T0)
		}
		kit.Sleep(time.Nanosecond)
		kit.Quiesce()
		if !c.Done() || c.Err != mangos.ErrSendTimeout || c.T1-c.T0 != d {
			kit.Failf("send-deadline-result:"+k.Name, "%s: Send with deadline %v: done=%v %s after %v, want ErrSendTimeout after exactly the deadline", k.Name, d, c.Done(), kit.ErrName(c.Err), c.T1-c.T0)
		}
	} else {
		kit.Sleep(time.Hour)
		kit.Quiesce()
		if c.Done() {
			kit.Failf("send-zero-deadline-fired:"+k.Name, "%s: Send with no deadline returned %s after %v", k.Name, kit.ErrName(c.Err), c.T1-c.T0)
		}
	}
	kit.Count("blocked-send-undisturbed-by-reapplied-modes")
	if !withPeer {
		kit.Count("no-peer-connected-during-the-wait")
	}
	kit.Observe("%s d=%v peer=%v", k.Name, d, withPeer)
	kit.Must("Close", func() { _ = x.S.Close() })
}

// recvDeadlineResizes: a Recv with receive deadline d is waiting while another thread changes the
// receive queue length one to three times (and, on SUB, subscribes / unsubscribes another topic,
// which also replaces the queue).  The deadline belongs to the call: the timeout error arrives
// exactly d after the call, not d after the last change.
func recvDeadlineResizes() {
	var ks []*kinds.Kind
	for _, k := range kinds.All {
		if k.CanRecv {
			ks = append(ks, k)
		}
	}
	k := ks[kit.ChooseFree(len(ks))]
	useCtx := k.Ctx && kit.ChooseFree(2) == 1
	changes := 1 + kit.ChooseFree(3)
	d := 2 * time.Second
	x := k.Open("c18rz", true, false)
	x.Quiet()
	ep := endpoint{name: k.Name, set: x.S.SetOption, recv: x.Recv}
	if useCtx {
		c, err := x.S.OpenContext()
		if err != nil {
			kit.Failf("setup:ctx:"+k.Name, "OpenContext: %s", kit.ErrName(err))
		}
		ep = endpoint{name: k.Name + ".ctx", set: c.SetOption, recv: func() (string, error) { b, err := c.Recv(); return string(b), err }}
		x.Ctx = c
	}
	if err := ep.set(mangos.OptionRecvDeadline, d); err != nil {
		return
	}
	if err := ep.set(mangos.OptionReadQLen, 3); err != nil {
		return // (no receive queue length on this object)
	}
	x.PrepRecv()
	c := kit.Start("Recv", func() (interface{}, error) { return ep.recv() })
	kit.Quiesce()
	if c.Done() {
		kit.Failf("recv-returned-with-nothing:"+ep.name, "%s: Recv returned %s at once although nothing can be received", ep.name, kit.ErrName(c.Err))
	}
	for i := 0; i < changes; i++ {
		kit.Sleep(d / 4)
		kit.Quiesce()
		q := 4 + i
		oc := kit.Start("SetOption(ReadQLen)", func() (interface{}, error) { return nil, ep.set(mangos.OptionReadQLen, q) })
		kit.Quiesce()
		if !oc.Done() || oc.Err != nil {
			kit.Failf("qlen-reconf-hang:"+ep.name, "%s: SetOption(ReadQLen,%d) while a Recv waits: done=%v %s", ep.name, q, oc.Done(), kit.ErrName(oc.Err))
		}
		if k.Name == "sub" {
			_ = ep.set(mangos.OptionSubscribe, "other")
			_ = ep.set(mangos.OptionUnsubscribe, "other")
			kit.Quiesce()
		}
		if c.Done() {
			kit.Failf("recv-ended-by-a-queue-resize:"+ep.name, "%s: Recv with deadline %v returned %s after %v, when the queue length was changed", ep.name, d, kit.ErrName(c.Err), c.T1-c.T0)
		}
	}
	kit.Sleep(d - time.Duration(changes)*(d/4) - time.Nanosecond)
	kit.Quiesce()
	if c.Done() {
		kit.Failf("recv-deadline-early:"+ep.name, "%s: Recv with deadline %v returned %s after only %v", ep.name, d, kit.ErrName(c.Err), c.T1-c.T0)
	}
	kit.Sleep(time.Nanosecond)
	kit.Quiesce()
	if !c.Done() {
		kit.Failf("recv-deadline-restarted-by-resize:"+ep.name, "%s: Recv with deadline %v is still blocked %v after the call: the receive queue length was changed %d time(s) meanwhile (the last time %v after the call), and the deadline seems to run from there", ep.name, d, kit.Now()-c.T0, changes, time.Duration(changes)*(d/4))
	}
	if c.Err != mangos.ErrRecvTimeout || c.T1-c.T0 != d {
		kit.Failf("recv-deadline-result:"+ep.name, "%s: Recv with deadline %v returned %s after %v, want ErrRecvTimeout after exactly the deadline (queue length changed %d time(s) during the wait)", ep.name, d, kit.ErrName(c.Err), c.T1-c.T0, changes)
	}
	kit.Count("recv-timeout-exact-across-queue-resizes")
	kit.Observe("%s changes=%d", ep.name, changes)
	kit.Must("Close", func() { _ = x.S.Close() })
}

// blockSend issues sends against a peer that takes nothing until one blocks; the ones
// that complete must do so at once and without error.  It returns the blocked call (nil if
// the kind never blocks), and the bodies accepted so far.
func blockSend(x *kinds.Sock, tag string) (*kit.Call, []string) {
	var accepted []string
	for i := 0; i < 6; i++ {
		x.PrepSend()
		body := fmt.Sprintf("%s-%d", tag, i)
		c := kit.Start("Send:"+body, func() (interface{}, error) { return nil, x.Send(body) })
		kit.Quiesce()
		if !c.Done() {
			return c, accepted
		}
		if c.Err != nil || c.T1 != c.T0 {
			kit.Failf("send-immediate:"+x.K.Name, "%s: Send %d could complete at once but returned %s after %v", x.K.Name, i, kit.ErrName(c.Err), c.T1-c.T0)
		}
		kit.Count("send-immediate-ok")
		accepted = append(accepted, body)
	}
	return nil, accepted
}

func sendModes(mode string) {
	k := pickKind()
	d := deadlines[kit.ChooseFree(len(deadlines))]

	x := k.OpenQ("c18s", true, 1)
	x.Quiet()
	if !k.CanSend {
		c := kit.Start("Send", func() (interface{}, error) { return nil, x.Send("x") })
		kit.Quiesce()
		if !c.Done() || c.Err != mangos.ErrProtoOp {
			kit.Failf("send-unsupported:"+k.Name, "%s: Send on a receive-only pattern: done=%v %s, want ErrProtoOp at once", k.Name, c.Done(), kit.ErrName(c.Err))
		}
		return
	}
	_ = x.S.SetOption(mangos.OptionWriteQLen, 1)
	if mode == "besteffort" {
		if err := x.S.SetOption(mangos.OptionBestEffort, true); err != nil {
			if err == mangos.ErrBadOption {
				return
			}
			kit.Failf("besteffort-set:"+k.Name, "SetOption(BestEffort): %s", kit.ErrName(err))
		}
		// best effort wins over a send deadline that is configured as well
		if d > 0 {
			_ = x.S.SetOption(mangos.OptionSendDeadline, d)
		}
		blocked, accepted := blockSend(x, "be")
		if blocked != nil {
			kit.Failf("best-effort-blocked:"+k.Name, "%s: a best-effort Send blocked (after %d accepted)", k.Name, len(accepted))
		}
		kit.Count("best-effort-returned-at-once")
		x.P.Hold(false)
		kit.Quiesce()
		seen := map[string]bool{}
		for _, sm := range x.P.SentLog() {
			b := string(sm.Data[sm.HLen:])
			if k.NeedReq || k.Name == "req" || k.Name == "surveyor" || k.Name == "pair1" || k.Name == "star" {
				// cooked header in front of the body
				for _, a := range accepted {
					if len(sm.Data) >= len(a) && string(sm.Data[len(sm.Data)-len(a):]) == a {
						b = a
					}
				}
			}
			if seen[b] {
				kit.Failf("best-effort-duplicate:"+k.Name, "%s: %q was transmitted twice", k.Name, b)
			}
			seen[b] = true
			ok := false
			for _, a := range accepted {
				if a == b {
					ok = true
				}
			}
			if !ok && b != "outstanding" {
				kit.Failf("best-effort-invented:"+k.Name, "%s: %q on the wire was never sent", k.Name, b)
			}
		}
		if len(seen) < len(accepted) {
			kit.Count("best-effort-dropped")
		}
		kit.Observe("%s be d=%v", k.Name, d) // (how many best-effort messages reach the wire is schedule dependent)
		kit.Must("Close", func() { _ = x.S.Close() })
		return
	}
	if err := x.S.SetOption(mangos.OptionSendDeadline, d); err != nil {
		if err == mangos.ErrBadOption {
			kit.Count("send-deadline-unsupported")
			return
		}
		if !(err == mangos.ErrBadValue && d == 0) {
			kit.Failf("send-deadline-set:"+k.Name, "%s: SetOption(SendDeadline,%v): %s", k.Name, d, kit.ErrName(err))
		}
		kit.Count("zero-deadline-not-settable")
	}
	c, accepted := blockSend(x, "dl")
	if c == nil {
		kit.Count("send-never-blocks")
		kit.Observe("%s never blocks", k.Name)
		return
	}
	if d > 0 {
		kit.Sleep(d - time.Nanosecond)
		kit.Quiesce()
		if c.Done() {
			kit.Failf("send-deadline-early:"+k.Name, "%s: Send with deadline %v returned %s after only %v", k.Name, d, kit.ErrName(c.Err), c.T1-c.T0)
		}
		kit.Sleep(time.Nanosecond)
		kit.Quiesce()
		if !c.Done() {
			kit.Failf("send-deadline-late:"+k.Name, "%s: Send with deadline %v still blocked after %v", k.Name, d, kit.Now()-c.T0)
		}
		if c.Err != mangos.ErrSendTimeout || c.T1-c.T0 != d {
			kit.Failf("send-deadline-result:"+k.Name, "%s: Send with deadline %v returned %s after %v, want ErrSendTimeout after exactly the deadline", k.Name, d, kit.ErrName(c.Err), c.T1-c.T0)
		}
		kit.Count("send-timeout-exact")
		// and again, after idle periods longer than the deadline: the peer takes everything, nothing
		// happens for three deadlines, the peer stalls again - sends that can complete do so at once,
		// the one that blocks times out after exactly d (a deadline belongs to one call)
		for round := 2; round <= 3; round++ {
			x.P.Hold(false)
			kit.Quiesce()
			x.PrepSend()
			wc := kit.Start("Send:warm", func() (interface{}, error) { return nil, x.Send(fmt.Sprintf("warm-%d", round)) })
			kit.Quiesce()
			if !wc.Done() || wc.Err != nil || wc.T1 != wc.T0 {
				kit.Failf("send-immediate:"+k.Name, "%s: round %d: the peer takes everything, Send (deadline %v): done=%v %s after %v", k.Name, round, d, wc.Done(), kit.ErrName(wc.Err), wc.T1-wc.T0)
			}
			kit.Sleep(3 * d)
			kit.Quiesce()
			x.P.Hold(true)
			c2, _ := blockSend(x, fmt.Sprintf("dl%d", round))
			if c2 == nil {
				break
			}
			kit.Sleep(d - time.Nanosecond)
			kit.Quiesce()
			if c2.Done() {
				kit.Failf("send-deadline-early:"+k.Name, "%s: round %d (after an idle period of %v): Send with deadline %v returned %s after only %v", k.Name, round, 3*d, d, kit.ErrName(c2.Err), c2.T1-c2.T0)
			}
			kit.Sleep(time.Nanosecond)
			kit.Quiesce()
			if !c2.Done() || c2.Err != mangos.ErrSendTimeout || c2.T1-c2.T0 != d {
				kit.Failf("send-deadline-result:"+k.Name, "%s: round %d (after an idle period of %v): Send with deadline %v: done=%v %s after %v, want ErrSendTimeout after exactly the deadline", k.Name, round, 3*d, d, c2.Done(), kit.ErrName(c2.Err), c2.T1-c2.T0)
			}
			kit.Count("send-timeout-exact-again-after-idle")
		}
	} else {
		kit.Sleep(time.Hour)
		kit.Quiesce()
		if c.Done() {
			kit.Failf("send-zero-deadline-fired:"+k.Name, "%s: Send with no deadline returned %s after %v", k.Name, kit.ErrName(c.Err), c.T1-c.T0)
		}
		x.P.Hold(false)
		kit.Quiesce()
		if !c.Done() || c.Err != nil {
			kit.Failf("send-zero-deadline-result:"+k.Name, "%s: the peer takes everything now, waiting Send: done=%v %s", k.Name, c.Done(), kit.ErrName(c.Err))
		}
		kit.Count("send-no-deadline-waits")
	}
	kit.Observe("%s d=%v accepted=%d", k.Name, d, len(accepted))
	kit.Must("Close", func() { _ = x.S.Close() })
}

// recvWhileSendWaits: a Send with no deadline waits (the peer takes nothing, the queue of one is
// full) while another thread calls Recv with a receive deadline d, and then SetOption / GetOption.
// Each call obeys its own deadline: Recv returns ErrRecvTimeout exactly d after it was called, the
// option calls return at once, and the Send is still waiting; when the peer takes again, it completes.
func recvWhileSendWaits() {
	var ks []*kinds.Kind
	for _, k := range kinds.All {
		switch k.Name {
		case "req", "surveyor", "rep", "respondent": // a Send changes what Recv waits for
			continue
		}
		if k.CanSend && k.CanRecv {
			ks = append(ks, k)
		}
	}
	k := ks[kit.ChooseFree(len(ks))]
	d := []time.Duration{50 * time.Millisecond, 2 * time.Second}[kit.ChooseFree(2)]
	x := k.OpenQ("c18w", true, 1)
	x.Quiet()
	_ = x.S.SetOption(mangos.OptionWriteQLen, 1)
	if err := x.S.SetOption(mangos.OptionRecvDeadline, d); err != nil {
		kit.Failf("recv-deadline-set:"+k.Name, "SetOption(RecvDeadline,%v): %s", d, kit.ErrName(err))
	}
	sc, _ := blockSend(x, "ws")
	if sc == nil {
		return
	}
	rc := kit.Start("Recv", func() (interface{}, error) { return x.Recv() })
	kit.Quiesce()
	oc := kit.Start("GetOption", func() (interface{}, error) { return x.S.GetOption(mangos.OptionRecvDeadline) })
	kit.Quiesce()
	if !oc.Done() || oc.Err != nil || oc.Val.(time.Duration) != d {
		kit.Failf("option-call-held-up:"+k.Name, "%s: a Send is waiting for queue space; GetOption(RecvDeadline) called meanwhile: done=%v %s %v", k.Name, oc.Done(), kit.ErrName(oc.Err), oc.Val)
	}
	kit.Sleep(d - time.Nanosecond)
	kit.Quiesce()
	if rc.Done() {
		kit.Failf("recv-deadline-early:"+k.Name, "%s: Recv with deadline %v returned %s after only %v", k.Name, d, kit.ErrName(rc.Err), rc.T1-rc.T0)
	}
	kit.Sleep(time.Nanosecond)
	kit.Quiesce()
	if !rc.Done() || rc.Err != mangos.ErrRecvTimeout || rc.T1-rc.T0 != d {
		kit.Failf("recv-deadline-beside-waiting-send:"+k.Name, "%s: a Send (no deadline) is waiting for queue space; Recv with deadline %v called meanwhile: done=%v %s after %v, want ErrRecvTimeout after exactly the deadline", k.Name, d, rc.Done(), kit.ErrName(rc.Err), kit.Now()-rc.T0)
	}
	if sc.Done() {
		kit.Failf("send-zero-deadline-fired:"+k.Name, "%s: the waiting Send (no deadline) returned %s", k.Name, kit.ErrName(sc.Err))
	}
	x.P.Hold(false)
	kit.Quiesce()
	if !sc.Done() || sc.Err != nil {
		kit.Failf("send-zero-deadline-result:"+k.Name, "%s: the peer takes everything now, waiting Send: done=%v %s", k.Name, sc.Done(), kit.ErrName(sc.Err))
	}
	kit.Count("recv-timeout-exact-beside-waiting-send")
	kit.Observe("%s d=%v", k.Name, d)
	kit.Must("Close", func() { _ = x.S.Close() })
}

// bestEffortSwitched: the queue is full and the peer takes nothing; a Send with send deadline d
// runs while another thread switches BestEffort (on -> off or off -> on).  Whichever value the Send
// goes by, the outcome is one of the two the modes allow: nil at the instant of the call (dropped,
// never blocked), or ErrSendTimeout exactly d after the call - not a success reported after waiting
// out the deadline, and not a timeout before the deadline.
func bestEffortSwitched() {
	var ks []*kinds.Kind
	for _, k := range kinds.All {
		if k.CanSend {
			ks = append(ks, k)
		}
	}
	k := ks[kit.ChooseFree(len(ks))]
	b0 := kit.ChooseFree(2) == 1
	d := 50 * time.Millisecond
	x := k.OpenQ("c18b", true, 1)
	x.Quiet()
	_ = x.S.SetOption(mangos.OptionWriteQLen, 1)
	if err := x.S.SetOption(mangos.OptionBestEffort, false); err != nil {
		return
	}
	blocked, _ := blockSend(x, "fill")
	if blocked == nil {
		return
	}
	if err := x.S.SetOption(mangos.OptionSendDeadline, d); err != nil {
		return
	}
	_ = x.S.SetOption(mangos.OptionBestEffort, b0)
	x.PrepSend()
	m := x.Msg("switched")
	t0 := kit.Now()
	c := kit.Start("Send", func() (interface{}, error) { return nil, x.S.SendMsg(m) })
	o := kit.Start("SetOption", func() (interface{}, error) { return nil, x.S.SetOption(mangos.OptionBestEffort, !b0) })
	kit.Quiesce()
	if !o.Done() || o.Err != nil {
		kit.Failf("option-call-held-up:"+k.Name, "%s: SetOption(BestEffort,%v) beside a Send: done=%v %s", k.Name, !b0, o.Done(), kit.ErrName(o.Err))
	}
	kit.Sleep(d)
	kit.Quiesce()
	switch {
	case !c.Done():
		kit.Failf("send-deadline-ignored:"+k.Name, "%s: Send (deadline %v, BestEffort %v -> %v during the call) is still waiting %v after the call", k.Name, d, b0, !b0, kit.Now()-t0)
	case c.Err == nil && c.T1 != c.T0:
		kit.Failf("best-effort-blocked:"+k.Name, "%s: Send (deadline %v, BestEffort %v -> %v during the call) returned nil after %v: a best-effort send does not wait, a send with a deadline that waited it out reports the timeout", k.Name, d, b0, !b0, c.T1-c.T0)
	case c.Err == mangos.ErrSendTimeout && c.T1-c.T0 != d:
		kit.Failf("send-deadline-early:"+k.Name, "%s: Send (deadline %v, BestEffort %v -> %v during the call) returned ErrSendTimeout after %v", k.Name, d, b0, !b0, c.T1-c.T0)
	case c.Err != nil && c.Err != mangos.ErrSendTimeout:
		kit.Failf("send-deadline-result:"+k.Name, "%s: Send returned %s", k.Name, kit.ErrName(c.Err))
	}
	if c.Err != nil {
		m.Free()
	}
	kit.Observe("%s %v %s %v", k.Name, b0, kit.ErrName(c.Err), c.T1-c.T0)
	kit.Must("Close", func() { _ = x.S.Close() })
}

// twoSendersOneSlot: the peer takes nothing and exactly one queue slot is free; two threads call
// Send at the same moment with a send deadline d.  Under every interleaving each call returns by
// its deadline: nil for the one that got the slot, ErrSendTimeout - exactly d after the call - for
// the other (or for both, should the slot have gone meanwhile); none waits on.
func twoSendersOneSlot() {
	var ks []*kinds.Kind
	for _, n := range []string{"xreq", "push", "xpush", "pair", "xpair", "xrep", "xrespondent", "pair1"} {
		ks = append(ks, kinds.ByName(n))
	}
	k := ks[kit.ChooseFree(len(ks))]
	d := 50 * time.Millisecond
	x := k.OpenQ("c18t", true, 1)
	x.Quiet()
	_ = x.S.SetOption(mangos.OptionWriteQLen, 1)
	blocked, accepted := blockSend(x, "fill")
	if blocked == nil {
		return
	}
	// make room for exactly one: the peer takes one message
	if err := x.S.SetOption(mangos.OptionSendDeadline, d); err != nil {
		return
	}
	// (free choice) best effort on top: then neither Send may wait at all
	be := kit.ChooseFree(2) == 1
	x.P.Take(1)
	kit.Quiesce()
	if !blocked.Done() || blocked.Err != nil {
		kit.Failf("setup", "%s: the waiting Send did not complete when the peer took one message (accepted before: %d)", k.Name, len(accepted))
	}
	x.P.Take(1)
	kit.Quiesce()
	x.PrepSend()
	if be {
		if err := x.S.SetOption(mangos.OptionBestEffort, true); err != nil {
			return
		}
	}
	m1, m2 := x.Msg("sender-1"), x.Msg("sender-2")
	t0 := kit.Now()
	c1 := kit.Start("Send1", func() (interface{}, error) { return nil, x.S.SendMsg(m1) })
	c2 := kit.Start("Send2", func() (interface{}, error) { return nil, x.S.SendMsg(m2) })
	kit.Quiesce()
	if be {
		for i, c := range []*kit.Call{c1, c2} {
			if !c.Done() || c.Err != nil || c.T1 != c.T0 {
				kit.Failf("best-effort-blocked:"+k.Name, "%s: two best-effort Sends at once with one free queue slot: Send %d: done=%v %s after %v, want nil at the call instant", k.Name, i+1, c.Done(), kit.ErrName(c.Err), kit.Now()-t0)
			}
		}
		kit.Observe("%s best-effort", k.Name)
		kit.Must("Close", func() { _ = x.S.Close() })
		return
	}
	kit.Sleep(d)
	kit.Quiesce()
	okc := 0
	for i, c := range []*kit.Call{c1, c2} {
		if !c.Done() {
			kit.Failf("send-deadline-ignored:"+k.Name, "%s: two Sends at once with SendDeadline %v and one free queue slot: Send %d is still waiting %v after the call", k.Name, d, i+1, kit.Now()-t0)
		}
		switch {
		case c.Err == nil:
			okc++
		case c.Err == mangos.ErrSendTimeout:
			if c.T1-c.T0 != d {
				kit.Failf("send-deadline-result:"+k.Name, "%s: Send %d timed out after %v, the deadline is %v", k.Name, i+1, c.T1-c.T0, d)
			}
			if i == 0 {
				m1.Free()
			} else {
				m2.Free()
			}
		default:
			kit.Failf("send-deadline-result:"+k.Name, "%s: Send %d returned %s", k.Name, i+1, kit.ErrName(c.Err))
		}
	}
	kit.Observe("%s ok=%d", k.Name, okc)
	kit.Must("Close", func() { _ = x.S.Close() })
}

// FailNoPeers is the fail-no-peers body (also run under C02: a Send that waits because every peer
// is busy is not failed while a peer is still connected).
func FailNoPeers() { failNoPeers() }

func failNoPeers() {
	k := pickKind()
	variant := kit.ChooseFree(6)
	var x *kinds.Sock
	if variant == 0 {
		x = k.Open("c18f", false, true)
	} else {
		x = k.OpenQ("c18f", true, 1)
	}
	x.Quiet()
	if err := x.S.SetOption(mangos.OptionFailNoPeers, true); err != nil {
		if err == mangos.ErrBadOption {
			return
		}
		kit.Failf("failnopeers-set:"+k.Name, "SetOption(FailNoPeers): %s", kit.ErrName(err))
	}
	switch variant {
	case 0: // nobody connected
		if k.CanSend {
			c := kit.Start("Send", func() (interface{}, error) { return nil, x.Send("x") })
			kit.Quiesce()
			if !c.Done() || c.Err != mangos.ErrNoPeers || c.T1 != c.T0 {
				kit.Failf("nopeers-send:"+k.Name, "%s: Send with no peer: done=%v %s, want ErrNoPeers at once", k.Name, c.Done(), kit.ErrName(c.Err))
			}
			kit.Count("nopeers-at-call")
		}
		if k.CanRecv {
			c := kit.Start("Recv", func() (interface{}, error) { return x.Recv() })
			kit.Quiesce()
			if !c.Done() || c.Err != mangos.ErrNoPeers || c.T1 != c.T0 {
				kit.Failf("nopeers-recv:"+k.Name, "%s: Recv with no peer: done=%v %s, want ErrNoPeers at once", k.Name, c.Done(), kit.ErrName(c.Err))
			}
		}
	case 1: // the last peer leaves while a Send waits
		if !k.CanSend {
			return
		}
		_ = x.S.SetOption(mangos.OptionWriteQLen, 1)
		c, _ := blockSend(x, "np")
		if c == nil {
			return
		}
		// a second Send waits behind the first
		two := k.Name != "req" && k.Name != "surveyor" // (there a new Send replaces the one that waits)
		var c2 *kit.Call
		if two {
			x.PrepSend()
			c2 = kit.Start("Send:second", func() (interface{}, error) { return nil, x.Send("np-second") })
			kit.Quiesce()
		}
		t := kit.Now()
		x.P.DropNow()
		kit.Quiesce()
		if !c.Done() || c.Err != mangos.ErrNoPeers || c.T1 != t {
			kit.Failf("nopeers-send-leave:"+k.Name, "%s: the last peer left while Send waited: done=%v %s after %v, want ErrNoPeers at that instant", k.Name, c.Done(), kit.ErrName(c.Err), c.T1-t)
		}
		if two && (!c2.Done() || c2.Err != mangos.ErrNoPeers || c2.T1 != t) {
			kit.Failf("nopeers-send-leave:"+k.Name, "%s: the last peer left while two Sends waited: the second: done=%v %s, want ErrNoPeers at that instant as well", k.Name, c2.Done(), kit.ErrName(c2.Err))
		}
		kit.Count("nopeers-when-last-peer-leaves")
	case 2: // the last peer leaves while a Recv waits
		if !k.CanRecv {
			return
		}
		x.P.Hold(false)
		x.PrepRecv()
		c := kit.Start("Recv", func() (interface{}, error) { return x.Recv() })
		kit.Quiesce()
		if c.Done() {
			kit.Failf("nopeers-recv-early:"+k.Name, "%s: Recv returned %s with a silent peer attached", k.Name, kit.ErrName(c.Err))
		}
		t := kit.Now()
		x.P.DropNow()
		kit.Quiesce()
		if !c.Done() || c.Err != mangos.ErrNoPeers || c.T1 != t {
			kit.Failf("nopeers-recv-leave:"+k.Name, "%s: the last peer left while Recv waited: done=%v %s, want ErrNoPeers at that instant", k.Name, c.Done(), kit.ErrName(c.Err))
		}
		kit.Count("nopeers-when-last-peer-leaves")
	case 5: // peers come and go twice: no peer -> ErrNoPeers at once, a peer -> the call works
		x.P.Hold(false)
		for round := 0; round < 2; round++ {
			if k.CanSend {
				x.PrepSend()
				c := kit.Start("Send", func() (interface{}, error) { return nil, x.Send(fmt.Sprintf("with-peer-%d", round)) })
				kit.Quiesce()
				if !c.Done() || c.Err != nil {
					kit.Failf("nopeers-with-a-peer-connected:"+k.Name, "%s, round %d: a peer is connected and takes everything, Send: done=%v %s", k.Name, round, c.Done(), kit.ErrName(c.Err))
				}
			}
			x.P.DropNow()
			kit.Quiesce()
			if k.CanSend {
				c := kit.Start("Send", func() (interface{}, error) { return nil, x.Send("nobody-there") })
				kit.Quiesce()
				if !c.Done() || (c.Err != mangos.ErrNoPeers && c.Err != mangos.ErrProtoState) || c.T1 != c.T0 {
					kit.Failf("nopeers-send:"+k.Name, "%s, round %d: the only peer left, Send: done=%v %s, want ErrNoPeers at once", k.Name, round, c.Done(), kit.ErrName(c.Err))
				}
			}
			x.P = x.EP.Connect()
			x.P.Hold(false)
			kit.Quiesce()
		}
		kit.Count("peers-come-and-go")
	case 3: // one of two peers leaves while a Send waits: a peer is still connected, nothing fails
		if !k.CanSend {
			return
		}
		_ = x.S.SetOption(mangos.OptionWriteQLen, 1)
		other := x.EP.Connect()
		kit.Quiesce()
		c, _ := blockSend(x, "np2")
		if c == nil {
			return
		}
		x.P.DropNow()
		kit.Quiesce()
		if c.Done() && c.Err == mangos.ErrNoPeers {
			kit.Failf("nopeers-with-a-peer-connected:"+k.Name, "%s: two peers connected (both slow), Send waiting; one peer left and Send returned ErrNoPeers although the other is still connected", k.Name)
		}
		other.Hold(false)
		kit.Quiesce()
		if !c.Done() || c.Err != nil {
			kit.Failf("nopeers-with-a-peer-connected:"+k.Name, "%s: one of two peers left while Send waited, then the remaining peer took everything: Send done=%v %s", k.Name, c.Done(), kit.ErrName(c.Err))
		}
		kit.Count("one-of-two-peers-leaves")
	case 4: // one of two peers leaves while a Recv waits
		if !k.CanRecv {
			return
		}
		x.P.Hold(false)
		other := x.EP.Connect()
		other.Hold(false)
		kit.Quiesce()
		x.PrepRecv()
		c := kit.Start("Recv", func() (interface{}, error) { return x.Recv() })
		kit.Quiesce()
		x.P.DropNow()
		kit.Quiesce()
		if c.Done() && c.Err == mangos.ErrNoPeers {
			kit.Failf("nopeers-with-a-peer-connected:"+k.Name, "%s: two silent peers connected, Recv waiting; one peer left and Recv returned ErrNoPeers although the other is still connected", k.Name)
		}
		kit.Count("one-of-two-peers-leaves")
	}
	kit.Observe("%s v=%d", k.Name, variant)
	kit.Must("Close", func() { _ = x.S.Close() })
}


// BestEffortModes is the best-effort body (also run under C19: an accepted BestEffort option stays
// in effect whatever other send options are set beside it).
func BestEffortModes() { sendModes("besteffort") }
