// Package net (import path .../vh/vnet) replaces the standard net package in
// transport/tcp when it is compiled for the model checker: listeners, dialers and
// connections are in-memory objects built on the shim primitives, and the far end
// of every connection is the harness, which sees every byte mangos writes, decides
// how the bytes mangos reads are chunked (short reads), and can stall, truncate or
// reset the stream at any byte.  Interfaces and address types are aliases of the
// real package, so transport.NewConnPipe / NewConnHandshaker are used unchanged.
package net

import (
	"context"
	"errors"
	"io"
	rn "net"
	"sync"
	"time"
)

type (
	Conn     = rn.Conn
	Addr     = rn.Addr
	Listener = rn.Listener
	TCPAddr  = rn.TCPAddr
	Error    = rn.Error
	OpError  = rn.OpError
	IP       = rn.IP
	Buffers  = rn.Buffers
)

var ErrClosed = rn.ErrClosed

func ResolveTCPAddr(network, address string) (*TCPAddr, error) {
	return rn.ResolveTCPAddr(network, address)
}

// ErrRefused is what Dial returns when nothing listens on the address.
var ErrRefused = errors.New("vnet: connection refused")

type vaddr string

func (a vaddr) Network() string { return "tcp" }
func (a vaddr) String() string  { return string(a) }

var (
	mu        sync.Mutex
	endpoints = map[string]*VEndpoint{}
)

// VReset forgets everything (between executions; runs outside the scheduler).
func VReset() { endpoints = map[string]*VEndpoint{} }

// VEndpoint is the harness handle for one address.
type VEndpoint struct {
	Addr string
	mu   sync.Mutex
	cv   *sync.Cond
	// mangos listens here
	lst     *vlistener
	backlog []*VConn
	// the harness listens here (mangos dials)
	harnessListens bool
	Dialed         []*VConn
	Conns          []*VConn
}

// VGet returns the endpoint for an address like "127.0.0.1:4000".
func VGet(addr string) *VEndpoint {
	mu.Lock()
	defer mu.Unlock()
	ep := endpoints[addr]
	if ep == nil {
		ep = &VEndpoint{Addr: addr}
		ep.cv = sync.NewCond(&ep.mu)
		endpoints[addr] = ep
	}
	return ep
}

// HarnessListen makes Dial to this address succeed; the harness end is appended to Dialed.
func (ep *VEndpoint) HarnessListen(on bool) {
	ep.mu.Lock()
	ep.harnessListens = on
	ep.mu.Unlock()
}

// Connect creates an inbound connection to mangos' listener; the harness end is returned.
func (ep *VEndpoint) Connect() *VConn {
	ep.mu.Lock()
	defer ep.mu.Unlock()
	h := newPair(ep, len(ep.Conns))
	ep.Conns = append(ep.Conns, h)
	ep.backlog = append(ep.backlog, h)
	ep.cv.Broadcast()
	return h
}

// Listening reports whether mangos has a listener bound here.
func (ep *VEndpoint) Listening() bool {
	ep.mu.Lock()
	defer ep.mu.Unlock()
	return ep.lst != nil && !ep.lst.closed
}

// ---------------------------------------------------------------------------

// ListenConfig replaces net.ListenConfig.
type ListenConfig struct {
	KeepAlive time.Duration
}

type vlistener struct {
	ep     *VEndpoint
	closed bool
}

func (lc *ListenConfig) Listen(ctx context.Context, network, address string) (Listener, error) {
	ep := VGet(address)
	ep.mu.Lock()
	defer ep.mu.Unlock()
	if ep.lst != nil && !ep.lst.closed {
		return nil, errors.New("vnet: address already in use")
	}
	ep.lst = &vlistener{ep: ep}
	return ep.lst, nil
}

func (l *vlistener) Accept() (Conn, error) {
	ep := l.ep
	ep.mu.Lock()
	defer ep.mu.Unlock()
	for {
		if l.closed {
			return nil, ErrClosed
		}
		if len(ep.backlog) > 0 {
			h := ep.backlog[0]
			ep.backlog = ep.backlog[1:]
			return h.peer, nil
		}
		ep.cv.Wait()
	}
}

func (l *vlistener) Close() error {
	ep := l.ep
	ep.mu.Lock()
	l.closed = true
	// connections that were queued but never accepted are reset, as a kernel does when the
	// listening socket is closed
	pending := ep.backlog
	ep.backlog = nil
	ep.cv.Broadcast()
	ep.mu.Unlock()
	for _, h := range pending {
		_ = h.peer.Close()
	}
	return nil
}

func (l *vlistener) Addr() Addr { return vaddr(l.ep.Addr) }

// Dialer replaces net.Dialer.
type Dialer struct {
	Timeout   time.Duration
	KeepAlive time.Duration
}

func (d *Dialer) Dial(network, address string) (Conn, error) {
	ep := VGet(address)
	ep.mu.Lock()
	defer ep.mu.Unlock()
	if !ep.harnessListens {
		return nil, ErrRefused
	}
	h := newPair(ep, len(ep.Conns))
	ep.Conns = append(ep.Conns, h)
	ep.Dialed = append(ep.Dialed, h)
	return h.peer, nil
}

func (d *Dialer) DialContext(ctx context.Context, network, address string) (Conn, error) {
	return d.Dial(network, address)
}

// ---------------------------------------------------------------------------
// connections

// mconn is mangos' end (a net.Conn).
type mconn struct {
	h *VConn
}

// VConn is the harness' end of a connection.
type VConn struct {
	ep    *VEndpoint
	Index int
	peer  *mconn
	mu    sync.Mutex
	cv    *sync.Cond

	in       []byte // bytes the harness sent, not yet read by mangos
	inOff    int    // stream offset of in[0]
	splits   []int  // a single Read never crosses these stream offsets
	oneByte  bool   // every Read returns at most one byte
	eof      bool   // harness closed its sending side: mangos reads EOF after in is drained
	reset    bool   // reads and writes fail at once
	out      []byte // everything mangos wrote
	writes   []int  // sizes of mangos' Write calls
	mclosed  bool   // mangos closed its end
	rdl, wdl time.Time // deadlines set by mangos (virtual clock)
	nread    int    // bytes mangos consumed
	readers  int    // mangos Read calls currently blocked
	stallOut bool   // mangos' writes block
}

func newPair(ep *VEndpoint, idx int) *VConn {
	h := &VConn{ep: ep, Index: idx}
	h.cv = sync.NewCond(&h.mu)
	h.peer = &mconn{h: h}
	return h
}

func (c *mconn) Read(p []byte) (int, error) {
	h := c.h
	h.mu.Lock()
	defer h.mu.Unlock()
	if !h.rdl.IsZero() && !time.Now().Before(h.rdl) && !h.mclosed {
		return 0, timeoutErr{}
	}
	h.readers++
	for len(h.in) == 0 && !h.eof && !h.reset && !h.mclosed {
		h.cv.Wait()
	}
	h.readers--
	if h.mclosed {
		return 0, ErrClosed
	}
	if h.reset {
		return 0, errors.New("vnet: connection reset by peer")
	}
	if len(h.in) == 0 {
		return 0, io.EOF
	}
	n := len(p)
	if n > len(h.in) {
		n = len(h.in)
	}
	if h.oneByte && n > 1 {
		n = 1
	}
	for _, s := range h.splits {
		if s > h.inOff && s < h.inOff+n {
			n = s - h.inOff
		}
	}
	copy(p, h.in[:n])
	h.in = h.in[n:]
	h.inOff += n
	h.nread += n
	return n, nil
}

func (c *mconn) Write(p []byte) (int, error) {
	h := c.h
	h.mu.Lock()
	defer h.mu.Unlock()
	for h.stallOut && !h.reset && !h.mclosed {
		h.cv.Wait()
	}
	if h.mclosed {
		return 0, ErrClosed
	}
	if h.reset {
		return 0, errors.New("vnet: broken pipe")
	}
	if !h.wdl.IsZero() && !time.Now().Before(h.wdl) {
		return 0, timeoutErr{}
	}
	h.out = append(h.out, p...)
	h.writes = append(h.writes, len(p))
	return len(p), nil
}

func (c *mconn) Close() error {
	h := c.h
	h.mu.Lock()
	h.mclosed = true
	h.cv.Broadcast()
	h.mu.Unlock()
	return nil
}

func (c *mconn) LocalAddr() Addr                  { return vaddr("local:" + c.h.ep.Addr) }
func (c *mconn) RemoteAddr() Addr                 { return vaddr("remote:" + c.h.ep.Addr) }
// Deadlines (virtual clock): a Read or Write that is started once its deadline has passed fails
// with a timeout error, as on a real connection.  (A call already blocked is not woken by the
// deadline: the transports under test arm deadlines around calls, they do not rely on them to
// interrupt one.)
func (c *mconn) SetDeadline(t time.Time) error {
	c.h.mu.Lock()
	c.h.rdl, c.h.wdl = t, t
	c.h.mu.Unlock()
	return nil
}
func (c *mconn) SetReadDeadline(t time.Time) error {
	c.h.mu.Lock()
	c.h.rdl = t
	c.h.mu.Unlock()
	return nil
}
func (c *mconn) SetWriteDeadline(t time.Time) error {
	c.h.mu.Lock()
	c.h.wdl = t
	c.h.mu.Unlock()
	return nil
}

type timeoutErr struct{}

func (timeoutErr) Error() string   { return "vnet: i/o timeout" }
func (timeoutErr) Timeout() bool   { return true }
func (timeoutErr) Temporary() bool { return true }

// --- harness side -----------------------------------------------------------

// Feed makes bytes available to mangos.
func (h *VConn) Feed(b []byte) {
	h.mu.Lock()
	h.in = append(h.in, b...)
	h.cv.Broadcast()
	h.mu.Unlock()
}

// SplitAt declares stream offsets (counted from the first byte ever fed) that no single Read crosses.
func (h *VConn) SplitAt(offsets ...int) {
	h.mu.Lock()
	h.splits = append(h.splits, offsets...)
	h.mu.Unlock()
}

// OneByte makes every Read return at most one byte.
func (h *VConn) OneByte(on bool) {
	h.mu.Lock()
	h.oneByte = on
	h.mu.Unlock()
}

// EOF closes the harness' sending side: mangos reads what is queued, then io.EOF.
func (h *VConn) EOF() {
	h.mu.Lock()
	h.eof = true
	h.cv.Broadcast()
	h.mu.Unlock()
}

// Reset makes reads and writes fail at once.
func (h *VConn) Reset() {
	h.mu.Lock()
	h.reset = true
	h.cv.Broadcast()
	h.mu.Unlock()
}

// StallWrites makes mangos' writes block (a peer that does not read).
func (h *VConn) StallWrites(on bool) {
	h.mu.Lock()
	h.stallOut = on
	h.cv.Broadcast()
	h.mu.Unlock()
}

// Written returns everything mangos wrote so far.
func (h *VConn) Written() []byte {
	h.mu.Lock()
	defer h.mu.Unlock()
	return append([]byte{}, h.out...)
}

// WrittenFrom returns what mangos wrote from offset off on (nil if less was written).
func (h *VConn) WrittenFrom(off int) []byte {
	h.mu.Lock()
	defer h.mu.Unlock()
	if off > len(h.out) {
		return nil
	}
	return append([]byte{}, h.out[off:]...)
}

// BytesRead is the number of bytes mangos consumed.
func (h *VConn) BytesRead() int {
	h.mu.Lock()
	defer h.mu.Unlock()
	return h.nread
}

// Unread is the number of fed bytes mangos has not consumed.
func (h *VConn) Unread() int {
	h.mu.Lock()
	defer h.mu.Unlock()
	return len(h.in)
}

// ClosedByMangos reports whether mangos closed its end.
func (h *VConn) ClosedByMangos() bool {
	h.mu.Lock()
	defer h.mu.Unlock()
	return h.mclosed
}

// ReadersBlocked is the number of mangos Read calls waiting for data.
func (h *VConn) ReadersBlocked() int {
	h.mu.Lock()
	defer h.mu.Unlock()
	return h.readers
}

// VResetAll resets every live connection of every endpoint (peer side).
func VResetAll() {
	mu.Lock()
	eps := make([]*VEndpoint, 0, len(endpoints))
	for _, ep := range endpoints {
		eps = append(eps, ep)
	}
	mu.Unlock()
	for _, ep := range eps {
		ep.mu.Lock()
		cs := append([]*VConn{}, ep.Conns...)
		ep.mu.Unlock()
		for _, c := range cs {
			if !c.ClosedByMangos() {
				c.Reset()
			}
		}
	}
}
