// Package cblk: a member of a real inproc topology goes away while the hub's per-connection sender
// is blocked inside the transport's Send on it.  The members are manual peers (vh/mpeer): real
// sockets on the real inproc transport that read only when the harness says so, so the blocked
// state is reached deterministically for every sending pattern - also for those whose natural peer
// never stops reading (SUB, REP, RESPONDENT).  Runs under the ownership ledger.
//
// What must hold (clauses of C06 / C07 / C04 / C02 / C08 and C17): the failed transmission is the
// departed member's loss only.  Everything the other member is given is byte-identical to what was
// sent, in order, without duplicates; a request still owed (REQ) goes to the other member intact;
// the library releases each message once and never touches one it released.
package cblk

import (
	"bytes"
	"fmt"
	"strings"

	"go.nanomsg.org/mangos/v3"
	"go.nanomsg.org/mangos/v3/protocol/bus"
	"go.nanomsg.org/mangos/v3/protocol/pub"
	"go.nanomsg.org/mangos/v3/protocol/push"
	"go.nanomsg.org/mangos/v3/protocol/req"
	"go.nanomsg.org/mangos/v3/protocol/surveyor"
	"go.nanomsg.org/mangos/v3/protocol/xpub"
	_ "go.nanomsg.org/mangos/v3/transport/inproc"
	"go.nanomsg.org/mangos/v3/vh/kit"
	"go.nanomsg.org/mangos/v3/vh/ledger"
	"go.nanomsg.org/mangos/v3/vh/mpeer"
	"go.nanomsg.org/mangos/v3/vz/vexplore"
)

type hubKind struct {
	name string
	mk   func() (mangos.Socket, error)
	peer func() *mpeer.Peer
	// fan: every message goes to every member; otherwise each message goes to one member
	fan bool
	req bool
	hdr int // bytes of protocol header in front of the payload on the wire
}

var hubs = map[string]hubKind{
	"pub":      {"pub", pub.NewSocket, mpeer.Sub, true, false, 0},
	"xpub":     {"xpub", xpub.NewSocket, mpeer.Sub, true, false, 0},
	"surveyor": {"surveyor", surveyor.NewSocket, mpeer.Respondent, true, false, 4},
	"bus":      {"bus", bus.NewSocket, mpeer.Bus, true, false, 0},
	"push":     {"push", push.NewSocket, mpeer.Pull, false, false, 0},
	"req":      {"req", req.NewSocket, mpeer.Rep, false, true, 4},
}

func reg(prop string, names ...string) {
	vexplore.Register(prop, func(tier string) []*vexplore.Scenario {
		b := map[string]int{"quick": 1, "thorough": 2}[tier]
		var out []*vexplore.Scenario
		for _, n := range names {
			h := hubs[n]
			out = append(out, &vexplore.Scenario{Name: "inproc-member-leaves-while-the-" + n + "-sender-is-blocked-on-it", Mode: "sched", Bound: b,
				Reset: kit.ResetGlobals, Body: func() { run(h) }})
		}
		return out
	})
}

func init() {
	reg("C17", "pub", "xpub", "surveyor", "bus", "push", "req")
	reg("C06", "pub", "xpub")
	reg("C07", "surveyor")
	reg("C08", "bus")
	reg("C02", "push")
	reg("C04", "req")
}

func must(err error, what string) {
	if err != nil {
		kit.Failf("setup", "%s: %s", what, kit.ErrName(err))
	}
}

func payload(i int) string { return fmt.Sprintf("blk-%d-%s", i, strings.Repeat(string(rune('a'+i)), 44)) }

// strip removes the pattern's protocol header from what a manual peer took: the peer sees transport
// messages (header and body apart), the payload is the body.
func run(h hubKind) {
	ledger.Install()
	hub, err := h.mk()
	must(err, "NewSocket")
	_ = hub.SetOption(mangos.OptionWriteQLen, 8)
	addr := "inproc://cblk-" + h.name
	must(hub.Listen(addr), "Listen")
	a, b := h.peer(), h.peer()
	must(a.S.Dial(addr), "Dial A")
	kit.Quiesce()
	var sent []string
	send := func(i int, on interface{ Send([]byte) error }) *kit.Call {
		body := payload(i)
		sent = append(sent, body)
		return kit.Start(fmt.Sprintf("Send-%d", i), func() (interface{}, error) {
			buf := []byte(body)
			err := on.Send(buf)
			for j := range buf { // the caller's buffer is the caller's again
				buf[j] = '#'
			}
			return nil, err
		})
	}
	n := 4
	var ctxs []mangos.Context
	if h.req {
		// two contexts, one request each: both are handed to A (the only peer) - one is being
		// written, the other waits for the connection
		n = 2
		for i := 0; i < 2; i++ {
			c, err := hub.OpenContext()
			must(err, "OpenContext")
			ctxs = append(ctxs, c)
		}
	} else {
		must(b.S.Dial(addr), "Dial B")
		kit.Quiesce()
	}
	var calls []*kit.Call
	for i := 0; i < n; i++ {
		var c *kit.Call
		if h.req {
			c = send(i, ctxs[i])
		} else {
			c = send(i, hub)
		}
		kit.Quiesce()
		calls = append(calls, c)
	}
	if h.fan || h.req {
		for i, c := range calls {
			if h.req && i > 0 {
				continue // REQ's Send returns when the request is handed to a connection: A's is busy
			}
			if !c.Done() || c.Err != nil {
				kit.Failf("send-stuck", "%s: Send %d done=%v %s (queue of 8, nothing read yet)", h.name, i, c.Done(), kit.ErrName(c.Err))
			}
		}
	}
	// nobody has read anything: the hub's sender for A (and for B) sits in the transport's Send.
	// A leaves; meanwhile traffic of the same size goes on (buffers of that class are recycled).
	leave := kit.Start("Close:A", func() (interface{}, error) { return nil, a.S.Close() })
	var more *kit.Call
	if !h.req {
		more = send(n, hub)
	} else {
		must(b.S.Dial(addr), "Dial B")
	}
	kit.Quiesce()
	if !leave.Done() {
		kit.Failf("close-stuck", "%s: Close of member A does not return", h.name)
	}
	// B reads itself dry
	var got []string
	for i := 0; i < 3*n+4; i++ {
		if b.NumPipes() == 0 {
			break
		}
		rc := kit.Start("Take:B", func() (interface{}, error) {
			hdr, body, err := b.Take(0)
			// (inproc delivers protocol header and payload in one piece, the stream pipes apart)
			all := append(hdr, body...)
			if err == nil && len(all) < h.hdr {
				kit.Failf("short-frame", "%s: member B was given a frame of %d bytes, the pattern's header alone has %d", h.name, len(all), h.hdr)
			}
			if err != nil {
				return "", err
			}
			return string(all[h.hdr:]), nil
		})
		kit.Quiesce()
		if !rc.Done() {
			break
		}
		if rc.Err != nil {
			kit.Failf("member-disconnected", "%s: member B lost its connection although only A left (%s)", h.name, kit.ErrName(rc.Err))
		}
		got = append(got, rc.Val.(string))
		if h.req {
			// (a REP peer that does not answer: the request stays outstanding, nothing more is due)
		}
	}
	if more != nil && h.fan && (!more.Done() || more.Err != nil) {
		kit.Failf("send-stuck", "%s: Send after A left done=%v %s", h.name, more.Done(), kit.ErrName(more.Err))
	}
	// what B was given: an in-order, duplicate-free selection of what was sent, each byte-identical
	j := 0
	for _, g := range got {
		k := j
		for k < len(sent) && sent[k] != g {
			k++
		}
		if k == len(sent) {
			if h.req {
				// REQ may hand the two requests over in either order
				found := false
				for _, s := range sent {
					found = found || s == g
				}
				if found && count(got, g) == 1 {
					continue
				}
			}
			kit.Failf("member-got-wrong-message", "%s: member A left while the sender was blocked on it; member B was then given %q - not an in-order, duplicate-free selection of what was sent (%q)", h.name, clip(got), clip(sent))
		}
		j = k + 1
	}
	switch {
	case h.fan:
		if len(got) != len(sent) {
			kit.Failf("lost", "%s: member B stayed connected, read everything and there was queue space throughout: it was given %d of %d messages (%q)", h.name, len(got), len(sent), clip(got))
		}
	case h.req:
		// both requests were owed to somebody when A left: B is the only peer, it gets both, intact
		if len(got) != len(sent) {
			kit.Failf("request-not-resent", "%s: the connection carrying the requests closed and B is connected: B was given %d of the %d outstanding requests (%q)", h.name, len(got), len(sent), clip(got))
		}
	default:
		// load balancing: what had been committed to A may be lost with A (at most the message
		// in its sender's hand), the rest reaches B
		if len(got) < len(sent)-1 {
			kit.Failf("lost", "%s: B was given %d of %d messages (%q); at most the one message A's sender held may be lost", h.name, len(got), len(sent), clip(got))
		}
	}
	kit.Count("blocked-sender-failed-others-intact")
	kit.Observe("%s %d/%d", h.name, len(got), len(sent))
	kit.Must("Close", func() {
		_ = hub.Close()
		_ = b.S.Close()
	})
	kit.Quiesce()
	_ = bytes.Equal
}

func count(l []string, s string) int {
	n := 0
	for _, x := range l {
		if x == s {
			n++
		}
	}
	return n
}

func clip(l []string) []string {
	var out []string
	for _, s := range l {
		if len(s) > 12 {
			s = s[:12] + "..."
		}
		out = append(out, s)
	}
	return out
}
