// Package cblk: a member of a real inproc topology goes away while the hub's per-connection sender
// is blocked inside the transport's Send on it.  The members are manual peers (vh/mpeer): real
// sockets on the real inproc transport that read only when the harness says so, so the blocked
// state is reached deterministically for every sending pattern - also for those whose natural peer
// never stops reading (SUB, REP, RESPONDENT).  Runs under the ownership ledger.
//
// What must hold (clauses of C06 / C07 / C04 / C02 / C08 and C17): the failed transmission is the
// departed member's loss only.  Everything the other member is given is byte-identical to what was
// sent, in order, without duplicates; a request still owed (REQ) goes to the other member intact;
// the library releases each message once and never touches one it released.
package cblk

import (
	"bytes"
	"fmt"
	"strings"
	"time"

	"go.nanomsg.org/mangos/v3"
	"go.nanomsg.org/mangos/v3/protocol/bus"
	"go.nanomsg.org/mangos/v3/protocol/pub"
	"go.nanomsg.org/mangos/v3/protocol/push"
	"go.nanomsg.org/mangos/v3/protocol/rep"
	"go.nanomsg.org/mangos/v3/protocol/req"
	"go.nanomsg.org/mangos/v3/protocol/respondent"
	"go.nanomsg.org/mangos/v3/protocol/surveyor"
	"go.nanomsg.org/mangos/v3/protocol/xpub"
	_ "go.nanomsg.org/mangos/v3/transport/inproc"
	"go.nanomsg.org/mangos/v3/vh/kit"
	"go.nanomsg.org/mangos/v3/vh/ledger"
	"go.nanomsg.org/mangos/v3/vh/mpeer"
	"go.nanomsg.org/mangos/v3/vz/vexplore"
)

type hubKind struct {
	name string
	mk   func() (mangos.Socket, error)
	peer func() *mpeer.Peer
	// fan: every message goes to every member; otherwise each message goes to one member
	fan bool
	req bool
	hdr int // bytes of protocol header in front of the payload on the wire
}

var hubs = map[string]hubKind{
	"pub":      {"pub", pub.NewSocket, mpeer.Sub, true, false, 0},
	"xpub":     {"xpub", xpub.NewSocket, mpeer.Sub, true, false, 0},
	"surveyor": {"surveyor", surveyor.NewSocket, mpeer.Respondent, true, false, 4},
	"bus":      {"bus", bus.NewSocket, mpeer.Bus, true, false, 0},
	"push":     {"push", push.NewSocket, mpeer.Pull, false, false, 0},
	"req":      {"req", req.NewSocket, mpeer.Rep, false, true, 4},
}

func reg(prop string, names ...string) {
	vexplore.Register(prop, func(tier string) []*vexplore.Scenario {
		b := map[string]int{"quick": 1, "thorough": 2}[tier]
		var out []*vexplore.Scenario
		for _, n := range names {
			h := hubs[n]
			out = append(out, &vexplore.Scenario{Name: "inproc-member-leaves-while-the-" + n + "-sender-is-blocked-on-it", Mode: "sched", Bound: b,
				Reset: kit.ResetGlobals, Body: func() { run(h) }})
		}
		return out
	})
}

func init() {
	for _, prop := range []string{"C05", "C10"} {
		vexplore.Register(prop, func(tier string) []*vexplore.Scenario {
			return []*vexplore.Scenario{{Name: "inproc-requester-leaves-with-requests-pipelined", Mode: "enum", Reset: kit.ResetGlobals, Body: departedRequester,
				NeedCounters: []string{"reply-to-a-departed-requester-discarded"}}}
		})
	}
	reg("C17", "pub", "xpub", "surveyor", "bus", "push", "req")
	reg("C06", "pub", "xpub")
	reg("C07", "surveyor")
	reg("C08", "bus")
	reg("C02", "push")
	reg("C01", "pub", "bus")  // what the member that stays is given is byte-identical to what was sent
	reg("C15", "pub")
	reg("C04", "req")
}

func must(err error, what string) {
	if err != nil {
		kit.Failf("setup", "%s: %s", what, kit.ErrName(err))
	}
}

func payload(i int) string { return fmt.Sprintf("blk-%d-%s", i, strings.Repeat(string(rune('a'+i)), 44)) }

// strip removes the pattern's protocol header from what a manual peer took: the peer sees transport
// messages (header and body apart), the payload is the body.
func run(h hubKind) {
	ledger.Install()
	hub, err := h.mk()
	must(err, "NewSocket")
	_ = hub.SetOption(mangos.OptionWriteQLen, 8)
	addr := "inproc://cblk-" + h.name
	must(hub.Listen(addr), "Listen")
	a, b := h.peer(), h.peer()
	must(a.S.Dial(addr), "Dial A")
	kit.Quiesce()
	var sent []string
	send := func(i int, on interface{ Send([]byte) error }) *kit.Call {
		body := payload(i)
		sent = append(sent, body)
		return kit.Start(fmt.Sprintf("Send-%d", i), func() (interface{}, error) {
			buf := []byte(body)
			err := on.Send(buf)
			for j := range buf { // the caller's buffer is the caller's again
				buf[j] = '#'
			}
			return nil, err
		})
	}
	n := 4
	var ctxs []mangos.Context
	if h.req {
		// two contexts, one request each: both are handed to A (the only peer) - one is being
		// written, the other waits for the connection
		n = 2
		for i := 0; i < 2; i++ {
			c, err := hub.OpenContext()
			must(err, "OpenContext")
			ctxs = append(ctxs, c)
		}
	} else {
		must(b.S.Dial(addr), "Dial B")
		kit.Quiesce()
	}
	var calls []*kit.Call
	for i := 0; i < n; i++ {
		var c *kit.Call
		if h.req {
			c = send(i, ctxs[i])
		} else {
			c = send(i, hub)
		}
		kit.Quiesce()
		calls = append(calls, c)
	}
	if h.fan || h.req {
		for i, c := range calls {
			if h.req && i > 0 {
				continue // REQ's Send returns when the request is handed to a connection: A's is busy
			}
			if !c.Done() || c.Err != nil {
				kit.Failf("send-stuck", "%s: Send %d done=%v %s (queue of 8, nothing read yet)", h.name, i, c.Done(), kit.ErrName(c.Err))
			}
		}
	}
	// nobody has read anything: the hub's sender for A (and for B) sits in the transport's Send.
	// A leaves; meanwhile traffic of the same size goes on (buffers of that class are recycled).
	leave := kit.Start("Close:A", func() (interface{}, error) { return nil, a.S.Close() })
	var more *kit.Call
	if !h.req {
		more = send(n, hub)
	} else {
		must(b.S.Dial(addr), "Dial B")
	}
	kit.Quiesce()
	if !leave.Done() {
		kit.Failf("close-stuck", "%s: Close of member A does not return", h.name)
	}
	// B reads itself dry
	var got []string
	for i := 0; i < 3*n+4; i++ {
		if b.NumPipes() == 0 {
			break
		}
		rc := kit.Start("Take:B", func() (interface{}, error) {
			hdr, body, err := b.Take(0)
			// (inproc delivers protocol header and payload in one piece, the stream pipes apart)
			all := append(hdr, body...)
			if err == nil && len(all) < h.hdr {
				kit.Failf("short-frame", "%s: member B was given a frame of %d bytes, the pattern's header alone has %d", h.name, len(all), h.hdr)
			}
			if err != nil {
				return "", err
			}
			return string(all[h.hdr:]), nil
		})
		kit.Quiesce()
		if !rc.Done() {
			break
		}
		if rc.Err != nil {
			kit.Failf("member-disconnected", "%s: member B lost its connection although only A left (%s)", h.name, kit.ErrName(rc.Err))
		}
		got = append(got, rc.Val.(string))
		if h.req {
			// (a REP peer that does not answer: the request stays outstanding, nothing more is due)
		}
	}
	if more != nil && h.fan && (!more.Done() || more.Err != nil) {
		kit.Failf("send-stuck", "%s: Send after A left done=%v %s", h.name, more.Done(), kit.ErrName(more.Err))
	}
	// what B was given: an in-order, duplicate-free selection of what was sent, each byte-identical
	j := 0
	for _, g := range got {
		k := j
		for k < len(sent) && sent[k] != g {
			k++
		}
		if k == len(sent) {
			if h.req {
				// REQ may hand the two requests over in either order
				found := false
				for _, s := range sent {
					found = found || s == g
				}
				if found && count(got, g) == 1 {
					continue
				}
			}
			kit.Failf("member-got-wrong-message", "%s: member A left while the sender was blocked on it; member B was then given %q - not an in-order, duplicate-free selection of what was sent (%q)", h.name, clip(got), clip(sent))
		}
		j = k + 1
	}
	switch {
	case h.fan:
		if len(got) != len(sent) {
			kit.Failf("lost", "%s: member B stayed connected, read everything and there was queue space throughout: it was given %d of %d messages (%q)", h.name, len(got), len(sent), clip(got))
		}
	case h.req:
		// both requests were owed to somebody when A left: B is the only peer, it gets both, intact
		if len(got) != len(sent) {
			kit.Failf("request-not-resent", "%s: the connection carrying the requests closed and B is connected: B was given %d of the %d outstanding requests (%q)", h.name, len(got), len(sent), clip(got))
		}
	default:
		// load balancing: what had been committed to A may be lost with A (at most the message
		// in its sender's hand), the rest reaches B
		if len(got) < len(sent)-1 {
			kit.Failf("lost", "%s: B was given %d of %d messages (%q); at most the one message A's sender held may be lost", h.name, len(got), len(sent), clip(got))
		}
	}
	kit.Count("blocked-sender-failed-others-intact")
	kit.Observe("%s %d/%d", h.name, len(got), len(sent))
	kit.Must("Close", func() {
		_ = hub.Close()
		_ = b.S.Close()
	})
	kit.Quiesce()
	_ = bytes.Equal
}

// departedRequester: a client (manual peer over the real inproc transport) has pipelined more
// requests than the REP / RESPONDENT server has calls in Recv - the server's connection reader is
// parked with the surplus request in its hand - and then goes away.  Replies to the departed client
// are discarded: every Send of the server returns at once (no deadline is set: a Send that waits
// would wait for ever), the server goes on serving a new client, and after everything is closed
// nothing is left behind (no thread stuck in the transport, no connection listed).
func departedRequester() {
	surv := kit.ChooseFree(2) == 1
	nw := 1 + kit.ChooseFree(3) // workers (contexts) that hold a request of the client when it leaves
	var srv mangos.Socket
	var err error
	mk := mpeer.Req
	name := "rep"
	if surv {
		srv, err = respondent.NewSocket()
		mk = mpeer.Surveyor
		name = "respondent"
	} else {
		srv, err = rep.NewSocket()
	}
	must(err, "NewSocket")
	addr := "inproc://cblk-dep-" + name
	must(srv.Listen(addr), "Listen")
	cli := mk()
	must(cli.S.Dial(addr), "Dial")
	kit.Quiesce()
	var ctxs []mangos.Context
	var recvs []*kit.Call
	for i := 0; i < nw; i++ {
		c, err := srv.OpenContext()
		must(err, "OpenContext")
		ctxs = append(ctxs, c)
		recvs = append(recvs, kit.Start(fmt.Sprintf("Recv-w%d", i), func() (interface{}, error) { b, err := c.Recv(); return string(b), err }))
	}
	kit.Quiesce()
	put := func(p *mpeer.Peer, i int) *kit.Call {
		c := kit.Start(fmt.Sprintf("Put-%d", i), func() (interface{}, error) {
			return nil, p.Put(0, []byte{0x80, 0, 0, byte(i)}, []byte(fmt.Sprintf("q%d", i)))
		})
		kit.Quiesce()
		return c
	}
	// one request per worker, one more that the connection's reader holds (nobody is in Recv), one
	// more that waits in the transport
	for i := 1; i <= nw+2; i++ {
		put(cli, i)
	}
	for i, r := range recvs {
		if !r.Done() || r.Err != nil {
			kit.Failf("setup", "%s: worker %d did not get a request: done=%v %s", name, i, r.Done(), kit.ErrName(r.Err))
		}
	}
	kit.Must("Close:client", func() { _ = cli.S.Close() })
	kit.Quiesce()
	for i, c := range ctxs {
		c := c
		sc := kit.Start(fmt.Sprintf("Send-w%d", i), func() (interface{}, error) { return nil, c.Send([]byte("answer")) })
		kit.Quiesce()
		if !sc.Done() {
			kit.Failf("reply-to-departed-requester-blocks", "%s: the client has gone while %d worker(s) held a request of it and more were pipelined; worker %d's Send of its reply blocks instead of being discarded", name, nw, i)
		}
	}
	kit.Count("reply-to-a-departed-requester-discarded")
	// the server goes on serving: a new client, through the first worker
	cl2 := mk()
	must(cl2.S.Dial(addr), "Dial")
	kit.Quiesce()
	var rc *kit.Call
	for i := 0; i < 3; i++ {
		// (the request the reader had in its hand may still turn up first; its answer is discarded too)
		rc = kit.Start("Recv-again", func() (interface{}, error) { b, err := ctxs[0].Recv(); return string(b), err })
		kit.Quiesce()
		if !rc.Done() {
			break
		}
		sc := kit.Start("Send-late", func() (interface{}, error) { return nil, ctxs[0].Send([]byte("late")) })
		kit.Quiesce()
		if !sc.Done() {
			kit.Failf("reply-to-departed-requester-blocks", "%s: reply to a request that was still in the reader's hand when the client left blocks", name)
		}
	}
	put(cl2, 9)
	if !rc.Done() || rc.Err != nil || rc.Val.(string) != "q9" {
		kit.Failf("server-stopped-serving", "%s: after a client left with requests pipelined, a new client's request: Recv done=%v %s %q", name, rc.Done(), kit.ErrName(rc.Err), rc.Val)
	}
	sc := kit.Start("Send-a9", func() (interface{}, error) { return nil, ctxs[0].Send([]byte("a9")) })
	kit.Quiesce()
	tk := kit.Start("Take", func() (interface{}, error) { h, b, err := cl2.Take(0); return string(append(h, b...)), err })
	kit.Quiesce()
	if !sc.Done() || sc.Err != nil || !tk.Done() || tk.Err != nil || tk.Val.(string) != "\x80\x00\x00\x09a9" {
		kit.Failf("server-stopped-serving", "%s: the new client's answer: Send done=%v %s, client got done=%v %s %q", name, sc.Done(), kit.ErrName(sc.Err), tk.Done(), kit.ErrName(tk.Err), tk.Val)
	}
	kit.Must("Close", func() { _ = cl2.S.Close(); _ = srv.Close() })
	kit.Quiesce()
	kit.Sleep(time.Hour)
	kit.Quiesce()
	if bad := kit.Census(); bad != "" {
		kit.Failf("leak:after-departed-requester", "%s: after all sockets were closed this remains: %s", name, bad)
	}
	kit.Observe("%s workers=%d", name, nw)
}

func count(l []string, s string) int {
	n := 0
	for _, x := range l {
		if x == s {
			n++
		}
	}
	return n
}

func clip(l []string) []string {
	var out []string
	for _, s := range l {
		if len(s) > 12 {
			s = s[:12] + "..."
		}
		out = append(out, s)
	}
	return out
}
