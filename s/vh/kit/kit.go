// Package kit holds the helpers shared by all model-checking harnesses.  It is
// passed through vrewrite like the harnesses themselves.
package kit

import (
	"os"
	"fmt"
	"sort"
	"strings"
	"time"

	"go.nanomsg.org/mangos/v3"
	"go.nanomsg.org/mangos/v3/internal/core"
	"go.nanomsg.org/mangos/v3/transport/inproc"
	"go.nanomsg.org/mangos/v3/vh/vnet"
	"go.nanomsg.org/mangos/v3/vh/vt"
	"go.nanomsg.org/mangos/v3/vz/vsched"
)

// Call is an API call issued on its own thread so that the driver can observe
// whether (and when, in virtual time) it returned.
type Call struct {
	Name  string
	Fin   bool
	Err   error
	Val   interface{}
	T0    time.Duration
	T1    time.Duration
	Parks int
	C     chan struct{} // closed when the call has returned
}

// Start issues f on a new thread.
func Start(name string, f func() (interface{}, error)) *Call {
	c := &Call{Name: name, T0: vsched.Now(), C: make(chan struct{})}
	go func() {
		p0 := vsched.Parks()
		v, err := f()
		c.Val, c.Err = v, err
		c.T1 = vsched.Now()
		c.Parks = vsched.Parks() - p0
		if n := vsched.HeldLocks(); n > 0 {
			vsched.Fail("lockleak:call:"+name, "call %s returned while its thread still holds %d library mutex(es): %s", name, n, vsched.HeldLockSites())
		}
		c.Fin = true
		close(c.C)
	}()
	return c
}

// Wait blocks until the call has returned.
func (c *Call) Wait() { <-c.C }

// Done reports whether the call has returned.
func (c *Call) Done() bool { return c.Fin }

// Must runs f on the calling thread; if the execution deadlocks before f returns
// the deadlock is reported as a violation labelled with label.
func Must(label string, f func()) {
	restore := vsched.Must(label)
	f()
	restore()
	if n := vsched.HeldLocks(); n > 0 {
		vsched.Fail("lockleak:call:"+label, "call %s returned while its thread still holds %d library mutex(es): %s", label, n, vsched.HeldLockSites())
	}
}

// Quiesce waits until no thread can progress without time advancing.
func Quiesce() {
	vsched.Quiesce()
	if len(kept) > 0 {
		CheckKept()
	}
}

// Choose / ChooseFree are explorer decisions.
func Choose(n int) int     { return vsched.Choose(n) }
func ChooseFree(n int) int { return vsched.ChooseFree(n) }

// Failf reports a property violation.
func Failf(sig, format string, a ...interface{}) { vsched.Fail(sig, format, a...) }

// Observe adds to the execution's end observation (used to count distinct outcomes).
func Observe(format string, a ...interface{}) { vsched.Observe(fmt.Sprintf(format, a...)) }

// Count bumps a vacuity counter.
func Count(name string) { vsched.Count(name) }

// Tracef adds a line to the replay trace.
func Tracef(format string, a ...interface{}) { vsched.Tracef(format, a...) }

// Now is virtual time.
func Now() time.Duration { return vsched.Now() }

// ResetGlobals restores process-global mangos state; it is the Reset function of
// every scenario (runs outside the scheduler).
func ResetGlobals() {
	vsched.Epoch = vsched.DefaultEpoch
	core.VerifNewSocketHook = func(s mangos.Socket) { vsched.AtExit(func() { _ = s.Close() }) }
	core.VerifResetPipeIDs()
	inproc.VerifReset()
	vt.Reset()
	net.VReset()
	for _, f := range resetters {
		f()
	}
}

// ResetNearIDWrap is ResetGlobals with the wall clock placed so that the id counters REQ and SURVEYOR
// seed from it (uint32 of the clock's nanoseconds) start at 0xfffffffd: the third id wraps.
func ResetNearIDWrap() {
	ResetGlobals()
	vsched.Epoch = vsched.EpochBeforeIDWrap
}

var resetters []func()

// OnReset registers an additional global reset function.
func OnReset(f func()) { resetters = append(resetters, f) }

// ErrName gives a short stable name for an error value.
func ErrName(err error) string {
	if err == nil {
		return "ok"
	}
	switch err {
	case mangos.ErrClosed:
		return "ErrClosed"
	case mangos.ErrProtoState:
		return "ErrProtoState"
	case mangos.ErrCanceled:
		return "ErrCanceled"
	case mangos.ErrRecvTimeout:
		return "ErrRecvTimeout"
	case mangos.ErrSendTimeout:
		return "ErrSendTimeout"
	case mangos.ErrNoPeers:
		return "ErrNoPeers"
	case mangos.ErrProtoOp:
		return "ErrProtoOp"
	case mangos.ErrBadOption:
		return "ErrBadOption"
	case mangos.ErrBadValue:
		return "ErrBadValue"
	case mangos.ErrAddrInUse:
		return "ErrAddrInUse"
	case mangos.ErrConnRefused:
		return "ErrConnRefused"
	case mangos.ErrBadTran:
		return "ErrBadTran"
	case mangos.ErrBadProto:
		return "ErrBadProto"
	case mangos.ErrNotRaw:
		return "ErrNotRaw"
	case mangos.ErrBadProperty:
		return "ErrBadProperty"
	case mangos.ErrTooLong:
		return "ErrTooLong"
	case mangos.ErrBadHeader:
		return "ErrBadHeader"
	case mangos.ErrBadVersion:
		return "ErrBadVersion"
	}
	return "err(" + err.Error() + ")"
}

// Census returns a description of everything that is still alive; "" if clean.
// Call it after the last socket was closed and the system quiesced.
func Census(allowThreads ...string) string {
	var bad []string
	for _, t := range vsched.LiveThreads() {
		ok := false
		for _, a := range allowThreads {
			if strings.HasPrefix(t, a) {
				ok = true
			}
		}
		if !ok {
			bad = append(bad, "thread "+t)
		}
	}
	for _, t := range vsched.PendingTimerNames() {
		bad = append(bad, "timer "+t)
	}
	if n := core.VerifPipeIDsInUse(); n != 0 {
		bad = append(bad, fmt.Sprintf("%d pipe id(s) still allocated", n))
	}
	if n := inproc.VerifListeners(); n != 0 {
		bad = append(bad, fmt.Sprintf("%d inproc listener address(es) still registered", n))
	}
	sort.Strings(bad)
	return strings.Join(bad, "; ")
}

// Hex renders bytes compactly.
func Hex(b []byte) string { return fmt.Sprintf("%x", b) }

var debugEvents = os.Getenv("VH_DEBUG_EVENTS") != ""

// Event is one step of a history.
type Event struct {
	Name string
	Run  func()
}

// Hist enumerates every event history of the given depth: at each step every
// enabled event is an alternative (free choice), the system is run to quiescence
// and settle compares it with the reference model.
func Hist(depth int, events func() []Event, settle func()) {
	for d := 0; d < depth; d++ {
		evs := events()
		if len(evs) == 0 {
			return
		}
		if debugEvents {
			for i, e := range evs {
				Tracef("  enabled %d %s", i, e.Name)
			}
		}
		e := evs[ChooseFree(len(evs))]
		Tracef("event %s", e.Name)
		Observe("%s", e.Name)
		e.Run()
		Quiesce()
		settle()
	}
}

// Sleep advances virtual time by d (all timers due in between fire, in order).
func Sleep(d time.Duration) { time.Sleep(d) }

// Yield is a plain scheduling point for harness polling loops.
func Yield() { vsched.Yield() }

// NextTimer is the virtual time of the earliest pending timer.
func NextTimer() (time.Duration, bool) { return vsched.NextTimer() }


// MsgReceiver is what sockets and contexts have in common on the receive side.
type MsgReceiver interface {
	RecvMsg() (*mangos.Message, error)
}

// Recv receives one message the way an application is entitled to: it takes the message, keeps a
// copy of the body, overwrites header and body in place (the message is exclusively the
// application's) and releases it.  Nobody else - another context that got the same publication,
// a copy being forwarded to other peers, a later message in a recycled buffer - may notice.
func Recv(r MsgReceiver) ([]byte, error) {
	if c, ok := r.(mangos.Context); ok {
		if _, isSock := r.(mangos.Socket); !isSock {
			return recvBytesKeep(c)
		}
	}
	m, err := r.RecvMsg()
	if err != nil {
		return nil, err
	}
	b := append([]byte{}, m.Body...)
	for i := range m.Body {
		m.Body[i] ^= 0xa5
	}
	for i := range m.Header {
		m.Header[i] ^= 0xa5
	}
	m.Free()
	return b, nil
}


// BytesSender is what sockets and contexts have in common on the byte-slice send side.
type BytesSender interface {
	Send([]byte) error
}

// SendBytes sends b the way an application is entitled to: from a buffer of its own that it
// overwrites as soon as Send has returned (Send copies; the buffer stays the caller's).  Whatever
// the library transmits later - queued writes, retransmissions, fan-out - must still be b.
func SendBytes(s BytesSender, b []byte) error {
	buf := append([]byte{}, b...)
	err := s.Send(buf)
	for i := range buf {
		buf[i] ^= 0x5a
	}
	return err
}


// Contexts are received from through the byte-slice API: the slice returned is the application's,
// it is kept and must never change afterwards, whatever the library receives or allocates later
// (checked at every quiescence).
type keptSlice struct {
	b    []byte
	want string
}

var kept []keptSlice

func init() { OnReset(func() { kept = nil }) }

// BytesReceiver is the byte-slice receive side of sockets and contexts.
type BytesReceiver interface {
	Recv() ([]byte, error)
}

// RecvKeep receives through the byte-slice API and keeps the slice (see CheckKept).
func RecvKeep(r BytesReceiver) ([]byte, error) { return recvBytesKeep(r) }

func recvBytesKeep(c BytesReceiver) ([]byte, error) {
	b, err := c.Recv()
	if err != nil {
		return nil, err
	}
	kept = append(kept, keptSlice{b, string(b)})
	return append([]byte{}, b...), nil
}

// CheckKept verifies that no slice handed out by Context.Recv has changed since.
func CheckKept() {
	for i, k := range kept {
		if string(k.b) != k.want {
			Failf("recv-slice-changed", "the slice returned by the byte-slice Recv for message %d (%d bytes, %q) has changed since (now %q): the library kept using its buffer", i, len(k.want), clipStr(k.want), clipStr(string(k.b)))
		}
	}
}

func clipStr(s string) string {
	if len(s) > 24 {
		return s[:24] + "..."
	}
	return s
}
