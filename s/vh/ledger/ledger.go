// Package ledger is the message-ownership monitor of C17.  It shadows the reference
// count of every mangos.Message through the verif hooks in message.go and reports
// release of a message nobody owns, use of a released message, and writes into a
// released buffer (poison check when the buffer is handed out again).
package ledger

import (
	"fmt"

	"go.nanomsg.org/mangos/v3"
	"go.nanomsg.org/mangos/v3/vh/kit"
)

type entry struct {
	count    int
	released bool
	gen      int
}

// Ledger is the state of one execution.
type Ledger struct {
	m        map[*mangos.Message]*entry
	News     int
	Frees    int
	Clones   int
	Releases int
	Reuses   int
	MaxAlloc int
}

var cur *Ledger

func init() {
	mangos.VerifPoison = true
	mangos.VerifLedgerHook = hook
	kit.OnReset(func() { cur = nil })
}

// Install starts a fresh ledger for the running execution.
func Install() *Ledger {
	cur = &Ledger{m: map[*mangos.Message]*entry{}}
	return cur
}

func hook(ev int, m *mangos.Message, sz int) {
	l := cur
	if l == nil {
		return
	}
	e := l.m[m]
	switch ev {
	case 1: // reuse: a buffer is about to be handed out (again)
		if e != nil && e.released {
			l.Reuses++
			b, h := mangos.VerifBuffers(m)
			for i, x := range b {
				if x != mangos.VerifPoisonByte {
					kit.Failf("write-after-release", "body buffer of a released message was written at offset %d (0x%02x) before it was handed out again", i, x)
				}
			}
			for i, x := range h {
				if x != mangos.VerifPoisonByte {
					kit.Failf("write-after-release", "header buffer of a released message was written at offset %d (0x%02x) before it was handed out again", i, x)
				}
			}
		}
	case 0: // new
		l.News++
		if sz > l.MaxAlloc {
			l.MaxAlloc = sz
		}
		if len(m.Body) != 0 || len(m.Header) != 0 || cap(m.Body) < sz {
			kit.Failf("newmessage-shape", "NewMessage(%d) returned len(Body)=%d cap(Body)=%d len(Header)=%d", sz, len(m.Body), cap(m.Body), len(m.Header))
		}
		gen := 0
		if e != nil {
			if !e.released {
				kit.Failf("buffer-handed-out-twice", "NewMessage(%d) returned a message that is still owned (%d reference(s))", sz, e.count)
			}
			gen = e.gen + 1
		}
		l.m[m] = &entry{count: 1, gen: gen}
	case 2: // clone
		l.Clones++
		if e == nil {
			e = &entry{count: int(mangos.VerifRefs(m))}
			l.m[m] = e
		}
		if e.released || e.count <= 0 {
			kit.Failf("use-after-release:clone", "Clone of a message that has already been released (shadow count %d)", e.count)
		}
		e.count++
	case 3: // free
		l.Frees++
		if e == nil {
			e = &entry{count: int(mangos.VerifRefs(m))}
			l.m[m] = e
		}
		if e.released || e.count <= 0 {
			kit.Failf("double-free", "Free of a message nobody owns any more (released=%v, shadow count %d, body %q)", e.released, e.count, clip(m.Body))
		}
		e.count--
	case 4: // release
		l.Releases++
		if e != nil {
			if e.released {
				kit.Failf("double-release", "a message was returned to the buffer pool twice (two Free calls both took the last reference)")
			}
			e.released = true
		}
	}
}

func clip(b []byte) string {
	if len(b) > 24 {
		b = b[:24]
	}
	return fmt.Sprintf("%x", b)
}

// Owned returns the shadow reference count of m (0 when released or unknown).
func Owned(m *mangos.Message) int {
	if cur == nil {
		return -1
	}
	if e := cur.m[m]; e != nil && !e.released {
		return e.count
	}
	return 0
}

// Released reports whether m's last reference was released.
func Released(m *mangos.Message) bool {
	if cur == nil {
		return false
	}
	e := cur.m[m]
	return e != nil && e.released
}

// Snapshot is a deep copy of what the application saw.
type Snapshot struct {
	M      *mangos.Message
	Header []byte
	Body   []byte
	Who    string
}

// Snap records the current contents of m.
func Snap(who string, m *mangos.Message) *Snapshot {
	return &Snapshot{M: m, Who: who, Header: append([]byte{}, m.Header...), Body: append([]byte{}, m.Body...)}
}

// Check fails if the message changed since the snapshot or was released behind the application's back.
func (s *Snapshot) Check(when string) {
	if Released(s.M) {
		kit.Failf("released-while-owned", "%s: the message handed to the application was released by the library (%s)", s.Who, when)
	}
	if string(s.M.Body) != string(s.Body) {
		kit.Failf("message-changed-after-recv", "%s: body changed after Recv returned (%s): was %q now %q", s.Who, when, clipS(s.Body), clipS(s.M.Body))
	}
	if string(s.M.Header) != string(s.Header) {
		kit.Failf("message-changed-after-recv", "%s: header changed after Recv returned (%s): was %x now %x", s.Who, when, s.Header, s.M.Header)
	}
}

func clipS(b []byte) string {
	if len(b) > 32 {
		return string(b[:32]) + "..."
	}
	return string(b)
}
