// Package c06 checks property C06: SUB delivers exactly the matching messages; PUB reaches every subscriber.
package c06

import (
	"bytes"
	"fmt"
	"strings"

	"go.nanomsg.org/mangos/v3"
	"go.nanomsg.org/mangos/v3/protocol/pub"
	"go.nanomsg.org/mangos/v3/protocol/sub"
	"go.nanomsg.org/mangos/v3/protocol/xpub"
	"go.nanomsg.org/mangos/v3/protocol/xsub"
	"go.nanomsg.org/mangos/v3/vh/c08"
	"go.nanomsg.org/mangos/v3/vh/c19"
	"go.nanomsg.org/mangos/v3/vh/kit"
	"go.nanomsg.org/mangos/v3/vh/vt"
	"go.nanomsg.org/mangos/v3/vz/vexplore"
)

func init() {
	vexplore.Register("C06", func(tier string) []*vexplore.Scenario {
		d, b := 4, 2
		if tier == "thorough" {
			d, b = 5, 3
		}
		out := []*vexplore.Scenario{
			{Name: fmt.Sprintf("sub-hist-D%d", d), Mode: "hist", Reset: kit.ResetGlobals, Body: func() { hist(d) },
				NeedCounters: []string{"delivered", "filtered-at-arrival", "purged-by-unsubscribe", "empty-topic-matches", "ctx-independent"}},
			{Name: fmt.Sprintf("sub-late-context-short-queue-hist-D%d", d+1), Mode: "hist", Reset: kit.ResetGlobals, Body: func() { histLate(d + 1) },
				NeedCounters: []string{"context-opened-mid-history", "short-queue-overflowed", "delivered", "zero-length-queue-handed-over", "zero-length-queue-dropped"}},
			{Name: "sub-match-enum", Mode: "enum", Reset: kit.ResetGlobals, Body: matchEnum, NeedCounters: []string{"match", "nomatch"}},
			{Name: "sub-overflow", Mode: "enum", Reset: kit.ResetGlobals, Body: overflow},
			{Name: "sub-sched-unsub-recv", Mode: "sched", Bound: b, Reset: kit.ResetGlobals, Body: schedUnsub},
			{Name: "sub-queue-length-across-subscription-changes", Mode: "enum", Reset: kit.ResetGlobals, Body: c19.SubQLen, NeedCounters: []string{"context-length-differs-from-the-socket's"}},
			{Name: "xsub-all", Mode: "enum", Reset: kit.ResetGlobals, Body: xsubAll},
			{Name: "sub-one-publication-several-contexts-message-api", Mode: "enum", Reset: kit.ResetGlobals, Body: SharedPublication, NeedCounters: []string{"three-or-more-receivers-each-exact"}},
		}
		for _, k := range []struct {
			n string
			c func() (mangos.Socket, error)
		}{{"pub", pub.NewSocket}, {"xpub", xpub.NewSocket}} {
			k := k
			out = append(out, &vexplore.Scenario{Name: fmt.Sprintf("%s-subscribers-hist-D%d", k.n, d+2), Mode: "hist", Reset: kit.ResetGlobals, Body: func() { pubHist(k.c, d+2) },
				NeedCounters: []string{"pub-delivered", "pub-joined-later", "pub-left", "pub-slow-subscriber", "pub-write-qlen-set-with-subscribers-connected"}})
			out = append(out, &vexplore.Scenario{Name: k.n + "-slow-subscriber-and-the-two-queue-lengths", Mode: "enum", Reset: kit.ResetGlobals, Body: func() { c08.QueueLengths(k.n, k.c, nil, 0) }, NeedCounters: []string{"slow-peer-given-all-queued"}})
			out = append(out, &vexplore.Scenario{Name: k.n + "-fanout", Mode: "sched", Bound: b, Reset: kit.ResetGlobals, Body: func() { pubFanout(k.c) }})
		}
		return out
	})
}

// SharedPublication: a SUB socket and two or three of its contexts all subscribe to what a publisher
// sends (two publications of different sizes).  Every receiver takes its copy through the message
// API (RecvMsg), overwrites header and body in place - the message is its own - and releases it,
// one receiver after the other, in either order: each gets exactly the bytes published.
func SharedPublication() {
	nctx := 2 + kit.ChooseFree(2)
	sizes := [][2]int{{1, 9}, {40, 200}, {1000, 12}, {5000, 70000}}[kit.ChooseFree(4)]
	backwards := kit.ChooseFree(2) == 1
	s, err := sub.NewSocket()
	if err != nil {
		kit.Failf("setup", "NewSocket: %v", err)
	}
	ep := vt.Get("shared")
	ep.Wrap = kit.ChooseFree(2) == 1 // the transport hands over frames in buffers of its own (as ws does) or in pooled messages
	if err := s.Listen("vt://shared"); err != nil {
		kit.Failf("setup", "Listen: %s", kit.ErrName(err))
	}
	p := ep.Connect()
	kit.Quiesce()
	rs := []kit.MsgReceiver{s}
	names := []string{"sock"}
	_ = s.SetOption(mangos.OptionSubscribe, "")
	for i := 0; i < nctx; i++ {
		c, err := s.OpenContext()
		if err != nil {
			kit.Failf("setup", "OpenContext: %s", kit.ErrName(err))
		}
		_ = c.SetOption(mangos.OptionSubscribe, []string{"", "p", "pu"}[i%3])
		rs = append(rs, c)
		names = append(names, fmt.Sprintf("ctx%d", i))
	}
	var pubs []string
	for n, sz := range sizes {
		b := make([]byte, sz)
		for i := range b {
			b[i] = byte('a' + (i*7+n)%23)
		}
		copy(b, "pub")
		if sz < 3 {
			b[0] = 'p'
			if sz > 1 {
				b[1] = 'u'
			}
		}
		if sz == 1 {
			// only the receivers subscribed to "" or "p" match a one byte body
		}
		pubs = append(pubs, string(b))
		p.Deliver(b)
	}
	kit.Quiesce()
	matches := func(ri int, body string) bool {
		if ri == 0 {
			return true
		}
		t := []string{"", "p", "pu"}[(ri-1)%3]
		return len(body) >= len(t) && body[:len(t)] == t
	}
	order := make([]int, len(rs))
	for i := range order {
		order[i] = i
		if backwards {
			order[i] = len(rs) - 1 - i
		}
	}
	for _, want := range pubs {
		for _, ri := range order {
			if !matches(ri, want) {
				continue
			}
			r := rs[ri]
			var got string
			c := kit.Start("RecvMsg:"+names[ri], func() (interface{}, error) {
				m, err := r.RecvMsg()
				if err != nil {
					return nil, err
				}
				got = string(m.Body)
				for i := range m.Body {
					m.Body[i] ^= 0xa5
				}
				for i := range m.Header {
					m.Header[i] ^= 0xa5
				}
				m.Body = append(m.Body, "scribble"...)
				m.Free()
				return nil, nil
			})
			kit.Quiesce()
			if !c.Done() || c.Err != nil {
				kit.Failf("shared-publication-recv", "%s: a matching publication of %d bytes is queued: RecvMsg done=%v %s", names[ri], len(want), c.Done(), kit.ErrName(c.Err))
			}
			if got != want {
				kit.Failf("shared-publication-differs", "%s (one of %d receivers of the same publication, each overwriting its own message after RecvMsg) received %d bytes %q, the publisher sent %d bytes %q", names[ri], len(rs), len(got), clip(got), len(want), clip(want))
			}
		}
	}
	if len(rs) >= 3 {
		kit.Count("three-or-more-receivers-each-exact")
	}
	kit.Observe("n=%d sizes=%v back=%v", nctx, sizes, backwards)
	kit.Must("Close", func() { _ = s.Close() })
}

func clip(s string) string {
	if len(s) > 24 {
		return s[:24] + "..."
	}
	return s
}

func init() {
	// C19: OptionSubscribe / OptionUnsubscribe follow the option contract - an accepted
	// subscription takes effect and can be given back exactly once, removing a topic that is not
	// subscribed fails with the bad-value error - over every history of the SUB model (topics that
	// are prefixes of one another included)
	vexplore.Register("C19", func(tier string) []*vexplore.Scenario {
		d := map[string]int{"quick": 4, "thorough": 5}[tier]
		return []*vexplore.Scenario{
			{Name: fmt.Sprintf("sub-subscribe-unsubscribe-options-hist-D%d", d), Mode: "hist", Reset: kit.ResetGlobals, Body: func() { histOpt(d, true) },
				NeedCounters: []string{"delivered", "purged-by-unsubscribe", "unsubscribe-absent-badvalue"}},
		}
	})
}

var topics = []string{"", "a", "ab", "b", "\xff"}

type mctx struct {
	name  string
	c     mangos.Context
	s     mangos.Socket
	subs  []string
	queue []string
	recv  *kit.Call
	qlen  int  // receive queue length when set short (0 = default, never overflows here)
	lossy bool // the queue has overflowed: what is left is some in-order selection of queue
	zero    bool // receive queue length 0
	maxLost int // number of overflows so far not yet accounted for: each cost at most one message
}

func (m *mctx) setOpt(n string, v interface{}) error {
	// a topic given as a byte slice stays the caller's buffer: it is overwritten as soon as the
	// call has returned, and the subscription must not change with it
	var scratch []byte
	if b, ok := v.([]byte); ok {
		scratch = append([]byte{}, b...)
		v = scratch
	}
	defer func() {
		for i := range scratch {
			scratch[i] ^= 0x5a
		}
	}()
	if m.c != nil {
		return m.c.SetOption(n, v)
	}
	return m.s.SetOption(n, v)
}

func (m *mctx) recvCall() ([]byte, error) {
	var msg *mangos.Message
	var err error
	if m.c != nil {
		msg, err = m.c.RecvMsg()
	} else {
		msg, err = m.s.RecvMsg()
	}
	if err != nil {
		return nil, err
	}
	b := append([]byte{}, msg.Body...)
	// the application owns what it received: overwriting it in place must not be seen by
	// another context that matched the same publication
	for i := range msg.Body {
		msg.Body[i] ^= 0xa5
	}
	msg.Free()
	return b, nil
}

func (m *mctx) matches(body string) bool {
	for _, s := range m.subs {
		if strings.HasPrefix(body, s) {
			return true
		}
	}
	return false
}

type pubEv struct {
	pipe   int
	prefix string
}

type world struct {
	sock   mangos.Socket
	pipes  []*vt.Pipe
	ctxs   []*mctx
	seq    int
	topics []string // subscription alphabet of the history
	pubs   []pubEv  // publication alphabet
	late   bool     // the second context is opened by an event of the history
	short  int      // ReadQLen of the second context (0 = default)
	contract bool   // C19: events that repeat a subscription / remove an absent one
}

func setup(nctx int) *world {
	w := &world{topics: topics, pubs: []pubEv{{0, "a"}, {0, "ab"}, {0, "b"}, {1, ""}, {1, "\xff\x00"}, {1, "abc"}}}
	s, err := sub.NewSocket()
	if err != nil {
		kit.Failf("setup", "NewSocket: %v", err)
	}
	w.sock = s
	ep := vt.Get("sub")
	if err := s.Listen("vt://sub"); err != nil {
		kit.Failf("setup", "Listen: %v", err)
	}
	w.pipes = []*vt.Pipe{ep.Connect(), ep.Connect()}
	kit.Quiesce()
	w.ctxs = append(w.ctxs, &mctx{name: "sock", s: s})
	for i := 1; i < nctx; i++ {
		c, err := s.OpenContext()
		if err != nil {
			kit.Failf("setup", "OpenContext: %v", err)
		}
		w.ctxs = append(w.ctxs, &mctx{name: fmt.Sprintf("ctx%d", i), c: c, s: s})
	}
	return w
}

func (w *world) publish(pipe int, prefix string) {
	w.seq++
	body := fmt.Sprintf("%s#%d", prefix, w.seq)
	any := false
	for _, m := range w.ctxs {
		if m.matches(body) && m.zero {
			// no queue at all: the message is handed to a Recv that is waiting, or lost
			any = true
			if m.recv != nil && !m.recv.Done() && len(m.queue) == 0 {
				m.queue = append(m.queue, body)
				kit.Count("zero-length-queue-handed-over")
			} else {
				kit.Count("zero-length-queue-dropped")
			}
			continue
		}
		if m.matches(body) {
			if m.qlen > 0 && len(m.queue) >= m.qlen {
				m.lossy = true // something is dropped from this context's queue - and from no other
				m.maxLost++
				kit.Count("short-queue-overflowed")
			}
			m.queue = append(m.queue, body)
			any = true
			for _, s := range m.subs {
				if s == "" {
					kit.Count("empty-topic-matches")
				}
			}
		} else {
			kit.Count("filtered-at-arrival")
		}
	}
	if any && len(w.ctxs) > 1 && !(w.ctxs[0].matches(body) && w.ctxs[1].matches(body)) {
		kit.Count("ctx-independent")
	}
	w.pipes[pipe].Deliver([]byte(body))
}

func (w *world) events() []kit.Event {
	var evs []kit.Event
	for _, m := range w.ctxs {
		m := m
		for _, t := range w.topics {
			t := t
			has := false
			for _, s := range m.subs {
				if s == t {
					has = true
				}
			}
			if w.contract {
				if has {
					evs = append(evs, kit.Event{Name: fmt.Sprintf("sub-again:%s:%q", m.name, t), Run: func() {
						kit.Must("Subscribe", func() {
							if err := m.setOpt(mangos.OptionSubscribe, t); err != nil {
								kit.Failf("subscribe-error", "%s: Subscribe(%q) (subscribed already) returned %s", m.name, t, kit.ErrName(err))
							}
						})
					}})
				} else {
					evs = append(evs, kit.Event{Name: fmt.Sprintf("unsub-absent:%s:%q", m.name, t), Run: func() {
						kit.Must("Unsubscribe", func() {
							if err := m.setOpt(mangos.OptionUnsubscribe, []byte(t)); err != mangos.ErrBadValue {
								kit.Failf("unsubscribe-absent-result", "%s: Unsubscribe(%q) returned %s although the subscriptions are %q; want ErrBadValue", m.name, t, kit.ErrName(err), m.subs)
							}
						})
						kit.Count("unsubscribe-absent-badvalue")
					}})
				}
			}
			if !has {
				evs = append(evs, kit.Event{Name: fmt.Sprintf("sub:%s:%q", m.name, t), Run: func() {
					kit.Must("Subscribe", func() {
						if err := m.setOpt(mangos.OptionSubscribe, []byte(t)); err != nil {
							kit.Failf("subscribe-error", "%s: Subscribe(%q) returned %s", m.name, t, kit.ErrName(err))
						}
					})
					m.subs = append(m.subs, t)
				}})
			} else {
				evs = append(evs, kit.Event{Name: fmt.Sprintf("unsub:%s:%q", m.name, t), Run: func() {
					kit.Must("Unsubscribe", func() {
						if err := m.setOpt(mangos.OptionUnsubscribe, t); err != nil {
							kit.Failf("unsubscribe-error", "%s: Unsubscribe(%q) returned %s", m.name, t, kit.ErrName(err))
						}
					})
					for i, s := range m.subs {
						if s == t {
							m.subs = append(append([]string{}, m.subs[:i]...), m.subs[i+1:]...)
							break
						}
					}
					var keep []string
					for _, q := range m.queue {
						if m.matches(q) {
							keep = append(keep, q)
						} else {
							kit.Count("purged-by-unsubscribe")
						}
					}
					m.queue = keep
				}})
			}
		}
		if m.recv == nil {
			evs = append(evs, kit.Event{Name: "recv:" + m.name, Run: func() {
				m.recv = kit.Start("Recv:"+m.name, func() (interface{}, error) { b, err := m.recvCall(); return string(b), err })
			}})
		}
	}
	if w.late && len(w.ctxs) < 2 {
		evs = append(evs, kit.Event{Name: "open-context", Run: func() {
			c, err := w.sock.OpenContext()
			if err != nil {
				kit.Failf("open-context", "OpenContext: %s", kit.ErrName(err))
			}
			m := &mctx{name: "ctx1", c: c, s: w.sock}
			if w.short == 1 {
				if err := c.SetOption(mangos.OptionReadQLen, w.short); err != nil {
					kit.Failf("qlen-error", "ctx.SetOption(ReadQLen,%d): %s", w.short, kit.ErrName(err))
				}
				m.qlen = w.short
			}
			if w.short >= 2 {
				// the socket has the short queue, the new context the default length
				if err := c.SetOption(mangos.OptionReadQLen, 128); err != nil {
					kit.Failf("qlen-error", "ctx.SetOption(ReadQLen,128): %s", kit.ErrName(err))
				}
			}
			w.ctxs = append(w.ctxs, m)
			kit.Count("context-opened-mid-history")
		}})
	}
	for _, pb := range w.pubs {
		pb := pb
		evs = append(evs, kit.Event{Name: fmt.Sprintf("pub:p%d:%q", pb.pipe, pb.prefix), Run: func() { w.publish(pb.pipe, pb.prefix) }})
	}
	return evs
}

func (w *world) settle() {
	for _, p := range w.pipes {
		if p.Unread() != 0 {
			kit.Failf("pipe-not-drained", "publisher pipe %d has %d unread messages at quiescence (receiver stuck)", p.Index, p.Unread())
		}
	}
	for _, m := range w.ctxs {
		if m.recv == nil {
			continue
		}
		c := m.recv
		if len(m.queue) == 0 {
			if c.Done() {
				kit.Failf("recv-unexpected", "%s: Recv returned %s / %q but no matching message is queued (subscriptions %q)", m.name, kit.ErrName(c.Err), c.Val, m.subs)
			}
			continue
		}
		if !c.Done() && m.lossy && len(m.queue) <= m.maxLost {
			continue // everything the model still holds may be what the overflows cost
		}
		if !c.Done() {
			kit.Failf("recv-blocked", "%s: Recv blocks although %d matching message(s) are queued (first %q, subscriptions %q) and at most %d were lost to overflows", m.name, len(m.queue), m.queue[0], m.subs, m.maxLost)
		}
		if m.lossy && c.Err == nil {
			// after an overflow any in-order selection may be left
			idx := -1
			for i, q := range m.queue {
				if q == c.Val.(string) {
					idx = i
					break
				}
			}
			if idx < 0 {
				kit.Failf("recv-wrong", "%s: Recv returned %q, which is not among the matching messages still possible %q", m.name, c.Val, m.queue)
			}
			if idx > m.maxLost {
				kit.Failf("lost-more-than-overflowed", "%s: Recv returned %q, skipping %d queued matching messages (%q); the queue overflowed only %d time(s) since", m.name, c.Val, idx, m.queue[:idx], m.maxLost)
			}
			m.maxLost -= idx
			m.queue = m.queue[idx+1:]
			m.recv = nil
			kit.Count("delivered")
			continue
		}
		if c.Err != nil || c.Val.(string) != m.queue[0] {
			kit.Failf("recv-wrong", "%s: Recv returned %s / %q, want %q (subscriptions %q, queue %q)", m.name, kit.ErrName(c.Err), c.Val, m.queue[0], m.subs, m.queue)
		}
		m.queue = m.queue[1:]
		m.recv = nil
		kit.Count("delivered")
	}
}

func hist(depth int) { histOpt(depth, false) }

// histOpt: with contract set (C19) the history runs on one context pair with the topics "", "a", "ab"
// and has two more kinds of event: subscribing to a topic that is subscribed already (accepted, no
// effect) and unsubscribing from one that is not (ErrBadValue, no effect).
func histOpt(depth int, contract bool) {
	w := setup(2)
	if contract {
		w.contract = true
		w.topics = []string{"", "a", "ab"}
	}
	// start either from nothing or from a context that already holds two subscriptions
	if kit.ChooseFree(2) == 1 {
		for _, t := range []string{"a", "b"} {
			if err := w.ctxs[0].setOpt(mangos.OptionSubscribe, t); err != nil {
				kit.Failf("subscribe-error", "Subscribe(%q): %s", t, kit.ErrName(err))
			}
			w.ctxs[0].subs = append(w.ctxs[0].subs, t)
		}
	}
	kit.Hist(depth, w.events, w.settle)
	// drain: everything the model still holds must come out, in order, and then nothing else
	for _, m := range w.ctxs {
		if m.recv != nil {
			continue // a Recv is already pending with an empty queue
		}
		for len(m.queue) > 0 {
			c := kit.Start("drain", func() (interface{}, error) { b, err := m.recvCall(); return string(b), err })
			kit.Quiesce()
			if !c.Done() || c.Err != nil || c.Val.(string) != m.queue[0] {
				kit.Failf("drain-wrong", "%s: draining returned done=%v %s / %q, want %q", m.name, c.Done(), kit.ErrName(c.Err), c.Val, m.queue[0])
			}
			m.queue = m.queue[1:]
		}
		c := kit.Start("drain-end", func() (interface{}, error) { b, err := m.recvCall(); return string(b), err })
		kit.Quiesce()
		if c.Done() {
			kit.Failf("drain-extra", "%s: an extra message %q / %s was delivered (duplicate or non-matching)", m.name, c.Val, kit.ErrName(c.Err))
		}
	}
	kit.Must("Socket.Close", func() { _ = w.sock.Close() })
}

// histLate: the socket subscribes, publications arrive, and only then a second context is opened
// (free choice: with a receive queue of one message).  A new context has no subscription - it does
// not share the socket's - and whatever it subscribes, unsubscribes or loses because its short
// queue overflows is its own affair: the socket still gets every message that matches the socket's
// subscriptions, in order, and vice versa.
func histLate(depth int) {
	w := setup(1)
	w.late = true
	// 0 = default length, 1 = one message for the new context, 2 = one message for the socket (the
	// new context has the default length), 3 = no queue at all for the socket
	w.short = kit.ChooseFree(4)
	if w.short >= 2 {
		if err := w.sock.SetOption(mangos.OptionReadQLen, 3-w.short); err != nil {
			kit.Failf("qlen-error", "SetOption(ReadQLen,%d): %s", 3-w.short, kit.ErrName(err))
		}
		w.ctxs[0].qlen = 3 - w.short
		w.ctxs[0].zero = w.short == 3
	}
	w.topics = []string{"", "a"}
	w.pubs = []pubEv{{0, "a"}, {1, "b"}}
	if err := w.ctxs[0].setOpt(mangos.OptionSubscribe, "a"); err != nil {
		kit.Failf("subscribe-error", "Subscribe: %s", kit.ErrName(err))
	}
	w.ctxs[0].subs = append(w.ctxs[0].subs, "a")
	kit.Hist(depth, w.events, w.settle)
	for _, m := range w.ctxs {
		if m.recv != nil || m.lossy {
			continue
		}
		for len(m.queue) > 0 {
			c := kit.Start("drain", func() (interface{}, error) { b, err := m.recvCall(); return string(b), err })
			kit.Quiesce()
			if !c.Done() || c.Err != nil || c.Val.(string) != m.queue[0] {
				kit.Failf("drain-wrong", "%s: draining returned done=%v %s / %q, want %q (another context's queue overflowed or changed its subscriptions meanwhile; that must not matter)", m.name, c.Done(), kit.ErrName(c.Err), c.Val, m.queue[0])
			}
			m.queue = m.queue[1:]
		}
		c := kit.Start("drain-end", func() (interface{}, error) { b, err := m.recvCall(); return string(b), err })
		kit.Quiesce()
		if c.Done() {
			kit.Failf("drain-extra", "%s: an extra message %q / %s was delivered (duplicate or non-matching)", m.name, c.Val, kit.ErrName(c.Err))
		}
	}
	kit.Must("Socket.Close", func() { _ = w.sock.Close() })
}

// all byte strings of length <= 2 over {00,'a','b',ff}
func alphabet() []string {
	chars := []string{"\x00", "a", "b", "\xff"}
	out := []string{""}
	for _, a := range chars {
		out = append(out, a)
	}
	for _, a := range chars {
		for _, b := range chars {
			out = append(out, a+b)
		}
	}
	return out
}

// matchEnum: every subscription set of size <= 2 over the 21-string alphabet against every body.
func matchEnum() {
	al := alphabet()
	var sets [][]string
	sets = append(sets, nil)
	for i := range al {
		sets = append(sets, []string{al[i]})
	}
	for i := range al {
		for j := range al {
			if i != j {
				sets = append(sets, []string{al[i], al[j]}) // both subscription orders
			}
		}
	}
	// two free choices keep each within the 250-alternative limit
	hi := kit.ChooseFree((len(sets) + 15) / 16)
	lo := kit.ChooseFree(16)
	idx := hi*16 + lo
	if idx >= len(sets) {
		return
	}
	set := sets[idx]
	w := setup(1)
	m := w.ctxs[0]
	for _, t := range set {
		if err := m.setOpt(mangos.OptionSubscribe, []byte(t)); err != nil {
			kit.Failf("subscribe-error", "Subscribe(%q): %s", t, kit.ErrName(err))
		}
	}
	sentinel := "\x01sentinel"
	_ = m.setOpt(mangos.OptionSubscribe, sentinel)
	var want []string
	for i, b := range al {
		w.pipes[i%2].Deliver([]byte(b))
		kit.Quiesce() // keep cross-pipe arrival order defined
		match := false
		for _, t := range set {
			if bytes.HasPrefix([]byte(b), []byte(t)) {
				match = true
			}
		}
		if match {
			want = append(want, b)
			kit.Count("match")
		} else {
			kit.Count("nomatch")
		}
	}
	w.pipes[0].Deliver([]byte(sentinel))
	kit.Quiesce()
	var got []string
	for {
		c := kit.Start("Recv", func() (interface{}, error) { b, err := m.recvCall(); return string(b), err })
		kit.Quiesce()
		if !c.Done() || c.Err != nil {
			kit.Failf("enum-recv", "subscriptions %q: Recv done=%v %s before the sentinel arrived", set, c.Done(), kit.ErrName(c.Err))
		}
		if c.Val.(string) == sentinel {
			break
		}
		got = append(got, c.Val.(string))
	}
	if fmt.Sprintf("%q", got) != fmt.Sprintf("%q", want) {
		kit.Failf("enum-mismatch", "subscriptions %q: delivered %q, reference prefix matcher says %q", set, got, want)
	}
	kit.Observe("%q=>%d", set, len(got))
}

// overflow: with ReadQLen q and n > q queued messages, what is delivered is an ordered
// subsequence of what was sent, without duplicates, and at least q of them.
func overflow() {
	q := 1 + kit.ChooseFree(3)
	n := q + kit.ChooseFree(3)
	w := setup(1)
	m := w.ctxs[0]
	if err := m.setOpt(mangos.OptionReadQLen, q); err != nil {
		kit.Failf("qlen-error", "SetOption(ReadQLen,%d): %s", q, kit.ErrName(err))
	}
	_ = m.setOpt(mangos.OptionSubscribe, "")
	for i := 0; i < n; i++ {
		w.pipes[0].Deliver([]byte(fmt.Sprintf("m%d", i)))
	}
	kit.Quiesce()
	last := -1
	count := 0
	for {
		c := kit.Start("Recv", func() (interface{}, error) { b, err := m.recvCall(); return string(b), err })
		kit.Quiesce()
		if !c.Done() {
			break
		}
		var k int
		if c.Err != nil {
			kit.Failf("overflow-recv", "Recv: %s", kit.ErrName(c.Err))
		}
		fmt.Sscanf(c.Val.(string), "m%d", &k)
		if k <= last {
			kit.Failf("overflow-order", "q=%d n=%d: message m%d delivered after m%d (duplicate or reordered)", q, n, k, last)
		}
		last = k
		count++
	}
	min := q
	if n < q {
		min = n
	}
	if count < min {
		kit.Failf("overflow-loss", "q=%d n=%d: only %d messages delivered, the queue holds %d", q, n, count, q)
	}
	kit.Observe("q=%d n=%d got=%d", q, n, count)
}

// schedUnsub: messages arrive while the application unsubscribes and then receives; a
// Recv invoked after Unsubscribe returned never yields a message that no longer matches.
func schedUnsub() {
	w := setup(2)
	a, b := w.ctxs[0], w.ctxs[1]
	_ = a.setOpt(mangos.OptionSubscribe, "x")
	_ = a.setOpt(mangos.OptionSubscribe, "y")
	_ = b.setOpt(mangos.OptionSubscribe, "")
	w.pipes[0].Deliver([]byte("x1"))
	w.pipes[0].Deliver([]byte("y1"))
	w.pipes[1].Deliver([]byte("x2"))
	un := kit.Start("Unsubscribe", func() (interface{}, error) { return nil, a.setOpt(mangos.OptionUnsubscribe, "x") })
	var got []string
	rc := kit.Start("RecvAfter", func() (interface{}, error) {
		// wait for Unsubscribe to have returned, then receive
		un.Wait()
		for i := 0; i < 2; i++ {
			bb, err := a.recvCall()
			if err != nil {
				return nil, err
			}
			got = append(got, string(bb))
			if string(bb) == "y2" {
				break
			}
		}
		return nil, nil
	})
	w.pipes[0].Deliver([]byte("y2"))
	kit.Quiesce()
	if !un.Done() || un.Err != nil {
		kit.Failf("sched-unsub", "Unsubscribe: done=%v %s", un.Done(), kit.ErrName(un.Err))
	}
	if !rc.Done() {
		kit.Failf("sched-recv-blocked", "Recv after Unsubscribe blocked; got %q", got)
	}
	for _, g := range got {
		if strings.HasPrefix(g, "x") {
			kit.Failf("stale-after-unsubscribe", "Recv invoked after Unsubscribe(\"x\") returned delivered %q (all: %q)", g, got)
		}
	}
	// context b is unaffected: it gets all four messages, each publisher's in order
	var gb []string
	for i := 0; i < 4; i++ {
		c := kit.Start("RecvB", func() (interface{}, error) { bb, err := b.recvCall(); return string(bb), err })
		kit.Quiesce()
		if !c.Done() || c.Err != nil {
			kit.Failf("sched-b", "context b: Recv %d done=%v %s", i, c.Done(), kit.ErrName(c.Err))
		}
		gb = append(gb, c.Val.(string))
	}
	pos := map[string]int{}
	for i, g := range gb {
		if _, dup := pos[g]; dup {
			kit.Failf("sched-b-dup", "context b received %q twice: %q", g, gb)
		}
		pos[g] = i
	}
	if len(pos) != 4 || !(pos["x1"] < pos["y1"] && pos["y1"] < pos["y2"]) {
		kit.Failf("sched-b-order", "context b received %q", gb)
	}
	kit.Observe("%q", got)
}

// xsubAll: a raw SUB socket delivers everything, unmodified, in each publisher's order.
func xsubAll() {
	s, _ := xsub.NewSocket()
	ep := vt.Get("xsub")
	if err := s.Listen("vt://xsub"); err != nil {
		kit.Failf("setup", "Listen: %s", kit.ErrName(err))
	}
	p0, p1 := ep.Connect(), ep.Connect()
	kit.Quiesce()
	al := alphabet()
	for i, b := range al {
		if i%2 == 0 {
			p0.Deliver([]byte(b))
		} else {
			p1.Deliver([]byte(b))
		}
		kit.Quiesce()
	}
	for i, b := range al {
		c := kit.Start("Recv", func() (interface{}, error) { bb, err := s.Recv(); return string(bb), err })
		kit.Quiesce()
		if !c.Done() || c.Err != nil || c.Val.(string) != b {
			kit.Failf("xsub-recv", "message %d: done=%v %s %q want %q", i, c.Done(), kit.ErrName(c.Err), c.Val, b)
		}
	}
	kit.Must("Close", func() { _ = s.Close() })
}

// pubFanout: every connected subscriber is sent every message once, in order, unmodified; a
// burst not larger than WriteQLen is never dropped even when a subscriber is slow.
// pubHist: subscribers come and go and one of them may be slow (takes what it is given only on
// demand) while the publisher sends.  A subscriber that keeps up is sent, exactly once and in send
// order, every message published while it is connected; a slow one is sent a subsequence of those
// in order, without duplicates, and never holds the others up; nobody is sent anything published
// before it connected.
func pubHist(c func() (mangos.Socket, error), depth int) {
	s, err := c()
	if err != nil {
		kit.Failf("setup", "NewSocket: %v", err)
	}
	// WriteQLen 0: nothing is queued per subscriber, a message goes to whoever is ready for it -
	// and a subscriber that keeps up is ready every time the publisher sends
	q := []int{1, 0}[kit.ChooseFree(2)]
	if err := s.SetOption(mangos.OptionWriteQLen, q); err != nil {
		kit.Failf("setup", "WriteQLen: %s", kit.ErrName(err))
	}
	ep := vt.Get("pubh")
	if err := s.Listen("vt://pubh"); err != nil {
		kit.Failf("setup", "Listen: %s", kit.ErrName(err))
	}
	type sub struct {
		p     *vt.Pipe
		owed  []string // published while connected
		slow  bool
		since int
	}
	var subs []*sub
	nsent := 0
	resized := false
	check := func() {
		for i, u := range subs {
			var got []string
			for _, sm := range u.p.SentLog() {
				got = append(got, string(sm.Data))
			}
			if !u.slow {
				if !u.p.Alive() {
					// it may have left while a message was on its way: a prefix is all that is certain
					if len(got) > len(u.owed) || fmt.Sprintf("%q", got) != fmt.Sprintf("%q", u.owed[:len(got)]) {
						kit.Failf("pub-subscriber-wrong", "subscriber %d (gone) was sent %q, published while it was connected: %q", i, got, u.owed)
					}
					continue
				}
				if fmt.Sprintf("%q", got) != fmt.Sprintf("%q", u.owed) {
					kit.Failf("pub-subscriber-wrong", "subscriber %d keeps up and was sent %q; published while it was connected: %q", i, got, u.owed)
				}
				continue
			}
			// slow: an in-order subsequence without duplicates
			j := 0
			for _, g := range got {
				for j < len(u.owed) && u.owed[j] != g {
					j++
				}
				if j == len(u.owed) {
					kit.Failf("pub-slow-subscriber-wrong", "slow subscriber %d was sent %q, which is not an in-order selection of what was published while it was connected: %q", i, got, u.owed)
				}
				j++
			}
		}
	}
	events := func() []kit.Event {
		var evs []kit.Event
		if len(subs) < 3 {
			evs = append(evs, kit.Event{Name: "connect", Run: func() {
				subs = append(subs, &sub{p: ep.Connect(), since: nsent})
				if nsent > 0 {
					kit.Count("pub-joined-later")
				}
			}})
			evs = append(evs, kit.Event{Name: "connect-slow", Run: func() {
				p := ep.Connect()
				p.Hold(true)
				subs = append(subs, &sub{p: p, slow: true, since: nsent})
			}})
		}
		for i, u := range subs {
			i, u := i, u
			if !u.p.Alive() {
				continue
			}
			evs = append(evs, kit.Event{Name: fmt.Sprintf("drop:%d", i), Run: func() { u.p.DropNow(); kit.Count("pub-left") }})
			if u.slow {
				evs = append(evs, kit.Event{Name: fmt.Sprintf("take:%d", i), Run: func() { u.p.Take(1); kit.Count("pub-slow-subscriber") }})
			}
		}
		if !resized {
			// the send queue length is set again while subscribers are connected (their senders idle
			// or busy): nobody is disconnected, nobody stops being served
			evs = append(evs, kit.Event{Name: "set-write-qlen", Run: func() {
				resized = true
				if err := s.SetOption(mangos.OptionWriteQLen, 4-q*3); err != nil {
					kit.Failf("setup", "SetOption(WriteQLen) on the connected socket: %s", kit.ErrName(err))
				}
				for _, u := range subs {
					if u.p.Alive() {
						kit.Count("pub-write-qlen-set-with-subscribers-connected")
						break
					}
				}
			}})
		}
		evs = append(evs, kit.Event{Name: "publish", Run: func() {
			nsent++
			body := fmt.Sprintf("n%d", nsent)
			for _, u := range subs {
				if u.p.Alive() {
					u.owed = append(u.owed, body)
				}
			}
			cl := kit.Start("Send", func() (interface{}, error) { return nil, kit.SendBytes(s, []byte(body)) })
			kit.Quiesce()
			if !cl.Done() || cl.Err != nil {
				kit.Failf("pub-send-blocked", "Send done=%v %s (a slow subscriber must not hold the publisher up)", cl.Done(), kit.ErrName(cl.Err))
			}
			kit.Count("pub-delivered")
		}})
		return evs
	}
	kit.Hist(depth, events, check)
	kit.Must("Close", func() { _ = s.Close() })
}

func pubFanout(c func() (mangos.Socket, error)) {
	s, err := c()
	if err != nil {
		kit.Failf("setup", "NewSocket: %v", err)
	}
	if err := s.SetOption(mangos.OptionWriteQLen, 2); err != nil {
		kit.Failf("setup", "WriteQLen: %s", kit.ErrName(err))
	}
	ep := vt.Get("pub")
	if err := s.Listen("vt://pub"); err != nil {
		kit.Failf("setup", "Listen: %s", kit.ErrName(err))
	}
	fast, slow := ep.Connect(), ep.Connect()
	slow.Hold(true)
	kit.Quiesce()
	msgs := []string{"", "a", "\xff\x00b"}
	// first burst of 2 from two concurrent senders
	c1 := kit.Start("Send0", func() (interface{}, error) { return nil, kit.SendBytes(s, []byte(msgs[0])) })
	c2 := kit.Start("Send1", func() (interface{}, error) { return nil, kit.SendBytes(s, []byte(msgs[1])) })
	kit.Quiesce()
	if !c1.Done() || !c2.Done() || c1.Err != nil || c2.Err != nil {
		kit.Failf("pub-send", "Send: %v/%s %v/%s", c1.Done(), kit.ErrName(c1.Err), c2.Done(), kit.ErrName(c2.Err))
	}
	slow.Take(2)
	kit.Quiesce()
	c3 := kit.Start("Send2", func() (interface{}, error) { return nil, kit.SendBytes(s, []byte(msgs[2])) })
	slow.Take(1)
	kit.Quiesce()
	if !c3.Done() || c3.Err != nil {
		kit.Failf("pub-send", "Send2: %v/%s", c3.Done(), kit.ErrName(c3.Err))
	}
	var ref []string
	for pi, p := range []*vt.Pipe{fast, slow} {
		var got []string
		for _, sm := range p.SentLog() {
			got = append(got, string(sm.Data))
		}
		if len(got) != 3 {
			kit.Failf("pub-count", "subscriber %d was sent %d of 3 messages: %q", pi, len(got), got)
		}
		seen := map[string]bool{}
		for _, g := range got {
			if seen[g] {
				kit.Failf("pub-dup", "subscriber %d was sent %q twice", pi, g)
			}
			seen[g] = true
		}
		for _, m := range msgs {
			if !seen[m] {
				kit.Failf("pub-missing", "subscriber %d never got %q (got %q)", pi, m, got)
			}
		}
		if got[2] != msgs[2] {
			kit.Failf("pub-order", "subscriber %d got %q: the third message was sent after the first two returned", pi, got)
		}
		if pi == 0 {
			ref = got
		} else if fmt.Sprintf("%q", ref) != fmt.Sprintf("%q", got) {
			kit.Failf("pub-order-differs", "subscribers saw different orders: %q vs %q", ref, got)
		}
	}
	kit.Observe("%q", ref)
	kit.Must("Close", func() { _ = s.Close() })
}

// Bodies re-run by C11 under the race-instrumented build.
var RaceBodies = map[string]func(){
	"c06-unsub-recv":  schedUnsub,
	"c06-pub-fanout":  func() { pubFanout(pub.NewSocket) },
}
