// Package c14 checks property C14: dialers reconnect after loss, back off as configured, stop when closed.
package c14

import (
	"fmt"
	"time"

	"go.nanomsg.org/mangos/v3"
	"go.nanomsg.org/mangos/v3/protocol/pair"
	"go.nanomsg.org/mangos/v3/protocol/xpub"
	"go.nanomsg.org/mangos/v3/protocol/xsub"
	_ "go.nanomsg.org/mangos/v3/transport/inproc"
	"go.nanomsg.org/mangos/v3/vh/c13"
	"go.nanomsg.org/mangos/v3/vh/kit"
	"go.nanomsg.org/mangos/v3/vh/vt"
	"go.nanomsg.org/mangos/v3/vz/vexplore"
	"go.nanomsg.org/mangos/v3/vz/vsched"
)

type cfg struct {
	min, max time.Duration
	asynch   bool
}

var cfgs = []cfg{
	{100 * time.Millisecond, 0, false},
	{100 * time.Millisecond, 0, true},
	{100 * time.Millisecond, 100 * time.Millisecond, true},
	{100 * time.Millisecond, time.Second, false},
	{100 * time.Millisecond, time.Second, true},
	{time.Millisecond, 10 * time.Second, true},
	{100 * time.Millisecond, 130 * time.Millisecond, true},
}

func init() {
	// C13: "the socket, its listener and its dialer carry on accepting and redialling" - a dial attempt
	// that waits for a busy inproc accept loop while the listening socket goes away connects to the
	// socket that listens on the address next
	vexplore.Register("C13", func(tier string) []*vexplore.Scenario {
		return []*vexplore.Scenario{{Name: "inproc-listener-restarts-while-a-dial-attempt-waits", Mode: "enum", Reset: kit.ResetGlobals, Body: InprocListenerRestarts, NeedCounters: []string{"reconnected-to-the-new-listener"}}}
	})
}

func init() {
	vexplore.Register("C14", func(tier string) []*vexplore.Scenario {
		d := 5
		if tier == "thorough" {
			d = 6
		}
		return []*vexplore.Scenario{
			{Name: fmt.Sprintf("dialer-backoff-hist-D%d", d), Mode: "hist", Reset: kit.ResetGlobals, Cfg: vsched.Config{RandFree: true}, Body: func() { hist(d, false) },
				NeedCounters: []string{"redial-after-refusal", "redial-after-loss", "delay-capped", "delay-reset-after-attach", "no-dial-after-close", "sync-failure-no-retry", "traffic-resumed", "delay-grew"}},
			{Name: fmt.Sprintf("dialer-options-on-dialer-hist-D%d", d-1), Mode: "hist", Reset: kit.ResetGlobals, Cfg: vsched.Config{RandFree: true}, Body: func() { hist(d-1, true) }},
			{Name: fmt.Sprintf("dialer-options-changed-mid-run-hist-D%d", d-1), Mode: "hist", Reset: kit.ResetGlobals, Cfg: vsched.Config{RandFree: true}, Body: func() { histTune(d-1, true, 1) },
				NeedCounters: []string{"reconnect-option-changed-while-a-redial-is-owed", "redial-after-refusal", "redial-after-loss"}},
			{Name: "reconnect-time-set-on-a-running-dialer-takes-effect", Mode: "enum", Reset: kit.ResetGlobals, Body: ReconnectTimeTakesEffect, NeedCounters: []string{"new-reconnect-time-in-effect-after-the-next-attach"}},
			{Name: "dialer-protocol-refusal-then-takeover", Mode: "enum", Reset: kit.ResetGlobals, Cfg: vsched.Config{RandFree: true}, Body: protocolRefusal,
				NeedCounters: []string{"redial-after-protocol-refusal", "took-over-after-first-peer-left"}},
			{Name: "dialer-close-during-dial", Mode: "sched", Bound: map[string]int{"quick": 2, "thorough": 3}[tier], Reset: kit.ResetGlobals, Body: closeDuringDial},
			{Name: "dialed-connection-lost-while-attaching", Mode: "sched", Bound: map[string]int{"quick": 2, "thorough": 3}[tier], Reset: kit.ResetGlobals, Body: lostWhileAttaching},
			{Name: "tcp-handshakes-aborted-then-peer", Mode: "enum", Reset: kit.ResetGlobals, Body: c13.TCPAborted},
			{Name: "backoff-reset-when-lost-inside-the-attached-callback", Mode: "enum", Reset: kit.ResetGlobals, Body: lostInsideCallback, NeedCounters: []string{"backoff-was-reset"}},
			{Name: "socket-with-several-dialers-and-listeners-closed", Mode: "enum", Reset: kit.ResetGlobals, Body: SeveralEndpointsClosed, NeedCounters: []string{"three-or-more-dialers-all-stopped"}},
			{Name: "inproc-listener-restarts-while-a-dial-attempt-waits", Mode: "enum", Reset: kit.ResetGlobals, Body: InprocListenerRestarts, NeedCounters: []string{"reconnected-to-the-new-listener"}},
			{Name: "connection-lost-during-a-slow-event-callback", Mode: "enum", Reset: kit.ResetGlobals, Body: SlowHook, NeedCounters: []string{"reconnected-after-a-loss-during-the-callback"}},
			{Name: "socket-close-vs-new-dialer", Mode: "sched", Bound: map[string]int{"quick": 2, "thorough": 3}[tier], Reset: kit.ResetGlobals, Body: closeVsNewDialer},
		}
	})
}

type world struct {
	tune     int  // option changes an event of the history may still make
	retuned  bool // reconnect options were changed after Dial
	mins     []time.Duration // every ReconnectTime value that was ever in force
	minsSinceAttach []time.Duration // ... since the latest successful attach (the value at the attach included)
	lostAttached bool       // the redial that is owed follows the loss of a connection that had attached
	minEver  time.Duration // smallest ReconnectTime ever in force
	maxEver  time.Duration // largest delay any setting ever allowed (0: some setting had no limit on growth... see below)
	c        cfg
	sock     mangos.Socket
	d        mangos.Dialer
	ep       *vt.Endpoint
	curset   []time.Duration // possible values of the dialer's current delay
	gapset   []time.Duration // possible delays of the redial that is owed
	lastEnd  time.Duration   // instant of the last failure / loss from which the delay counts
	waiting  bool            // a redial is owed
	gaveUp   bool
	closed   bool
	ndials   int
	attached *vt.Pipe
	policy   string
	nsend    int
	hookSeen int

	lastWasFailure bool
}

func (w *world) grow(c time.Duration) []time.Duration {
	if w.c.max == 0 {
		return []time.Duration{c}
	}
	var out []time.Duration
	for _, r := range vsched.RandFloats {
		f := r*(1.5-1.1) + 1.1
		n := time.Duration(f * float64(c))
		if n > w.c.max {
			n = w.c.max
			kit.Count("delay-capped")
		}
		dup := false
		for _, o := range out {
			if o == n {
				dup = true
			}
		}
		if !dup {
			out = append(out, n)
		}
	}
	return out
}

// noteDials processes Dial calls made since the last look.
func (w *world) noteDials() {
	recs := w.ep.Dials
	for ; w.ndials < len(recs); w.ndials++ {
		r := recs[w.ndials]
		if w.closed {
			kit.Failf("dial-after-close", "a connection attempt was started at %v after the dialer/socket had been closed", r.At)
		}
		if w.gaveUp {
			kit.Failf("retry-after-sync-failure", "synchronous Dial failed, yet another attempt was made at %v", r.At)
		}
		if w.ndials > 0 {
			if !w.waiting {
				kit.Failf("unexpected-dial", "connection attempt at %v while the previous connection is still up", r.At)
			}
			gap := r.At - w.lastEnd
			ok := false
			for _, c := range w.gapset {
				if c == gap {
					ok = true
				}
			}
			if w.retuned {
				// options were changed while the dialer ran: the exact back-off model no longer applies (when a
				// new value takes effect is the implementation's business); what the property says still does:
				// never sooner than the smallest reconnect time that was ever in force, never later than the
				// largest delay any of the settings allowed
				if gap < w.minEver {
					kit.Failf("redial-too-soon", "attempt %d at %v only %v after the previous failure/loss at %v; the smallest ReconnectTime ever set is %v", w.ndials, r.At, gap, w.lastEnd, w.minEver)
				}
				if gap > w.maxEver {
					kit.Failf("redial-beyond-max", "attempt %d came %v after the previous failure; no setting allowed more than %v", w.ndials, gap, w.maxEver)
				}
				if w.lostAttached {
					// "returns to the initial value after a successful attach": the first redial after the
					// loss of a connection that had attached waits a reconnect time (one of the values
					// that were in force), not a delay grown by earlier failures
					isMin := false
					for _, v := range w.minsSinceAttach {
						isMin = isMin || v == gap
					}
					if !isMin {
						kit.Failf("delay-not-reset-after-attach", "attempt %d came %v after the loss of a connection that had attached; since that attach ReconnectTime was one of %v: the attach did not reset the delay to the reconnect time in force (a delay grown by earlier failures, or a reconnect time that had been replaced before the attach, was used)", w.ndials, gap, w.minsSinceAttach)
					}
					kit.Count("first-redial-after-an-attached-connection-waits-the-reconnect-time")
				}
				ok = true
			} else if gap < w.c.min {
				kit.Failf("redial-too-soon", "attempt %d at %v only %v after the previous failure/loss at %v; ReconnectTime is %v", w.ndials, r.At, gap, w.lastEnd, w.c.min)
			}
			if !w.retuned && w.c.max > 0 && gap > w.c.max && gap > w.c.min {
				kit.Failf("redial-beyond-max", "attempt %d came %v after the previous failure; MaxReconnectTime is %v", w.ndials, gap, w.c.max)
			}
			if !ok {
				kit.Failf("redial-delay", "attempt %d came %v after the previous failure/loss; the back-off model allows %v (min %v max %v)", w.ndials, gap, w.gapset, w.c.min, w.c.max)
			}
			if gap > w.c.min {
				kit.Count("delay-grew")
			}
			if w.lastWasFailure {
				// the delay just used was the dialer's value before it grew
				w.curset = w.grow(gap)
			}
		}
		w.waiting = false
		w.lostAttached = false
		switch r.Outcome {
		case vt.DialRefused, vt.DialHandshake:
			w.lastEnd = r.At
			w.waiting = true
			w.lastWasFailure = true
			w.gapset = w.curset
			w.curset = w.growAll()
			if w.ndials > 0 || w.c.asynch {
				kit.Count("redial-after-refusal")
			}
		case vt.DialOK:
			p := w.ep.PipeAt(w.ep.NumPipes() - 1)
			if w.policy == "close-at-attaching" {
				// rejected after the connection was made: no reset, redial after the current delay
				w.lastEnd = r.At
				w.waiting = true
				w.lastWasFailure = false
				w.gapset = w.curset
			} else {
				w.attached = p
				w.minsSinceAttach = []time.Duration{w.c.min}
				if len(w.curset) != 1 || w.curset[0] != w.c.min {
					kit.Count("delay-reset-after-attach")
				}
				w.curset = []time.Duration{w.c.min}
			}
		}
	}
}

func (w *world) growAll() []time.Duration {
	var out []time.Duration
	for _, c := range w.curset {
		for _, n := range w.grow(c) {
			dup := false
			for _, o := range out {
				if o == n {
					dup = true
				}
			}
			if !dup {
				out = append(out, n)
			}
		}
	}
	return out
}

// Hist is the dialer history (also run under C19: accepted ReconnectTime / MaxReconnectTime /
// DialAsynch values - a zero maximum among them, which means "no growth" - are the ones in effect).
func Hist(depth int, viaDialer bool) { hist(depth, viaDialer) }

func hist(depth int, viaDialer bool) { histTune(depth, viaDialer, 0) }

// histTune: with tune > 0, ReconnectTime / MaxReconnectTime are changed by events of the history -
// on the dialer or on the socket (which passes them on) - while the dialer is connected, waiting to
// redial or closed.  A redial is still always scheduled, never sooner than the smallest reconnect
// time ever set, traffic resumes, nothing happens after Close.
func HistTune(depth int, viaDialer bool, tune int) { histTune(depth, viaDialer, tune) }

// ReconnectTimeTakesEffect: a dialer is connected; ReconnectTime is set to a new value (on the dialer
// or on its socket, larger or smaller, with or without a maximum); the connection is lost and
// re-established - from that attach on the new value is the delay: when the connection is lost
// again, the next attempt comes exactly the new reconnect time later (and once more after another
// cycle).  An accepted value takes effect.
func ReconnectTimeTakesEffect() {
	c := cfgs[kit.ChooseFree(len(cfgs))]
	onSock := kit.ChooseFree(2) == 1
	nv := []time.Duration{c.min / 2, 2 * c.min, 15 * c.min}[kit.ChooseFree(3)]
	s, err := xpub.NewSocket()
	if err != nil {
		kit.Failf("setup", "NewSocket: %v", err)
	}
	ep := vt.Get("rtte")
	ep.Script(vt.DialOK)
	d, err := s.NewDialer("vt://rtte", map[string]interface{}{mangos.OptionReconnectTime: c.min, mangos.OptionMaxReconnectTime: c.max, mangos.OptionDialAsynch: c.asynch})
	if err != nil {
		kit.Failf("setup", "NewDialer: %s", kit.ErrName(err))
	}
	dc := kit.Start("Dial", func() (interface{}, error) { return nil, d.Dial() })
	kit.Quiesce()
	if !dc.Done() || dc.Err != nil || ep.NumPipes() != 1 {
		kit.Failf("setup", "Dial: done=%v %s pipes=%d", dc.Done(), kit.ErrName(dc.Err), ep.NumPipes())
	}
	kit.Must("SetOption", func() {
		var err error
		if onSock {
			err = s.SetOption(mangos.OptionReconnectTime, nv)
		} else {
			err = d.SetOption(mangos.OptionReconnectTime, nv)
		}
		if err != nil {
			kit.Failf("option-refused", "SetOption(ReconnectTime, %v): %s", nv, kit.ErrName(err))
		}
	})
	if g, err := d.GetOption(mangos.OptionReconnectTime); err != nil || g != nv {
		kit.Failf("option-not-passed-on", "dialer reports ReconnectTime %v (%s) after %v was set (on the socket: %v)", g, kit.ErrName(err), nv, onSock)
	}
	cycle := func(want []time.Duration, what string) {
		n := len(ep.Dials)
		p := ep.PipeAt(ep.NumPipes() - 1)
		p.DropNow()
		t0 := kit.Now()
		kit.Quiesce()
		kit.Sleep(20 * c.min)
		kit.Quiesce()
		if len(ep.Dials) != n+1 {
			kit.Failf("dialer-gave-up", "%s: the connection was lost; %d connection attempt(s) followed within %v", what, len(ep.Dials)-n, 20*c.min)
		}
		gap := ep.Dials[n].At - t0
		ok := false
		for _, w := range want {
			ok = ok || gap == w
		}
		if !ok {
			kit.Failf("reconnect-time-not-in-effect", "%s: the next attempt came %v after the loss; ReconnectTime %v was accepted (Get answers it) - want %v (settings: initial %v, maximum %v)", what, gap, nv, want, c.min, c.max)
		}
	}
	// the first loss after the change: the old or the new value (when a new value starts to count is the implementation's business)
	cycle([]time.Duration{c.min, nv}, "first loss after the change")
	// every attach after the change starts from the new value
	cycle([]time.Duration{nv}, "second loss after the change")
	cycle([]time.Duration{nv}, "third loss after the change")
	kit.Count("new-reconnect-time-in-effect-after-the-next-attach")
	kit.Observe("%v sock=%v nv=%v", c, onSock, nv)
	kit.Must("Close", func() { _ = s.Close() })
}

func histTune(depth int, viaDialer bool, tune int) {
	w := &world{c: cfgs[kit.ChooseFree(len(cfgs))], tune: tune}
	s, err := xpub.NewSocket()
	if err != nil {
		kit.Failf("setup", "NewSocket: %v", err)
	}
	w.sock = s
	w.ep = vt.Get("dial")
	s.SetPipeEventHook(func(ev mangos.PipeEvent, p mangos.Pipe) {
		if ev == mangos.PipeEventAttaching {
			w.hookSeen++
			if w.policy == "close-at-attaching" {
				_ = p.Close()
			}
		}
	})
	set := func(o interface{ SetOption(string, interface{}) error }) {
		for n, v := range map[string]interface{}{mangos.OptionReconnectTime: w.c.min, mangos.OptionMaxReconnectTime: w.c.max, mangos.OptionDialAsynch: w.c.asynch} {
			if err := o.SetOption(n, v); err != nil {
				kit.Failf("setup", "SetOption(%s): %s", n, kit.ErrName(err))
			}
		}
	}
	if !viaDialer {
		set(s) // inherited by the dialer
	}
	d, err := s.NewDialer("vt://dial", nil)
	if err != nil {
		kit.Failf("setup", "NewDialer: %s", kit.ErrName(err))
	}
	if viaDialer {
		set(d)
	}
	for n, v := range map[string]interface{}{mangos.OptionReconnectTime: w.c.min, mangos.OptionMaxReconnectTime: w.c.max, mangos.OptionDialAsynch: w.c.asynch} {
		if g, err := d.GetOption(n); err != nil || g != v {
			kit.Failf("dialer-option-inherit", "dialer reports %s = %v (%s), want %v", n, g, kit.ErrName(err), v)
		}
	}
	w.d = d
	w.curset = []time.Duration{w.c.min}
	first := []vt.DialOutcome{vt.DialOK, vt.DialRefused, vt.DialHandshake}[kit.ChooseFree(3)]
	w.ep.Script(first)
	dc := kit.Start("Dial", func() (interface{}, error) { return nil, d.Dial() })
	kit.Quiesce()
	if !dc.Done() {
		kit.Failf("dial-blocked", "Dial did not return")
	}
	if !w.c.asynch && first != vt.DialOK {
		if dc.Err == nil {
			kit.Failf("sync-dial-no-error", "synchronous Dial returned nil although the attempt failed")
		}
		w.noteDials()
		w.gaveUp = true
		w.waiting = false
		kit.Count("sync-failure-no-retry")
	} else {
		if dc.Err != nil {
			kit.Failf("dial-error", "Dial returned %s (asynch=%v, first outcome %v)", kit.ErrName(dc.Err), w.c.asynch, first)
		}
		w.noteDials()
	}
	events := func() []kit.Event {
		var evs []kit.Event
		if w.waiting && !w.closed {
			for _, o := range []struct {
				n   string
				o   vt.DialOutcome
				pol string
			}{{"ok", vt.DialOK, ""}, {"refused", vt.DialRefused, ""}, {"handshake", vt.DialHandshake, ""}, {"rejected-after-connect", vt.DialOK, "close-at-attaching"}} {
				o := o
				evs = append(evs, kit.Event{Name: "next-attempt:" + o.n, Run: func() {
					w.ep.Script(o.o)
					w.policy = o.pol
					at, ok := vsched.NextTimer()
					if !ok {
						kit.Failf("dialer-gave-up", "a redial is owed (last failure/loss at %v) but no timer is pending", w.lastEnd)
					}
					kit.Sleep(at - kit.Now())
				}})
			}
		}
		if w.attached != nil && w.attached.Alive() {
			evs = append(evs, kit.Event{Name: "peer-drop", Run: func() {
				w.attached.DropNow()
				w.lastEnd = kit.Now()
				w.waiting = true
				w.lostAttached = true
				w.lastWasFailure = false
				w.gapset = w.curset
				kit.Count("redial-after-loss")
			}})
			evs = append(evs, kit.Event{Name: "send", Run: func() {
				w.nsend++
				msg := fmt.Sprintf("m%d", w.nsend)
				before := w.attached.NumSent()
				c := kit.Start("Send", func() (interface{}, error) { return nil, kit.SendBytes(s, []byte(msg)) })
				kit.Quiesce()
				if !c.Done() || c.Err != nil {
					kit.Failf("send-stuck", "Send on the reconnected socket: done=%v %s", c.Done(), kit.ErrName(c.Err))
				}
				l := w.attached.SentLog()
				if len(l) != before+1 || string(l[before].Data) != msg {
					kit.Failf("traffic-not-resumed", "message %q did not reach the current connection (it has %d messages)", msg, len(l))
				}
				if w.ep.NumPipes() > 1 {
					kit.Count("traffic-resumed")
				}
			}})
		}
		if w.tune > 0 && !w.closed && !w.gaveUp {
			type ch struct {
				opt  string
				v    time.Duration
				sock bool // set on the socket (which passes it on to its dialers) or on the dialer
			}
			for _, c := range []ch{{mangos.OptionMaxReconnectTime, 0, false}, {mangos.OptionMaxReconnectTime, 0, true}, {mangos.OptionMaxReconnectTime, w.c.min, true}, {mangos.OptionMaxReconnectTime, 8 * w.c.min, false},
				{mangos.OptionReconnectTime, w.c.min / 2, true}, {mangos.OptionReconnectTime, 2 * w.c.min, false}} {
				c := c
				for _, onSock := range []bool{c.sock} {
					onSock := onSock
					evs = append(evs, kit.Event{Name: fmt.Sprintf("set:%s=%v:sock=%v", c.opt, c.v, onSock), Run: func() {
						w.tune--
						if !w.retuned {
							w.retuned = true
							w.minEver = w.c.min
							w.mins = []time.Duration{w.c.min}
							w.maxEver = w.c.max
							if w.c.max == 0 || w.c.max < w.c.min {
								w.maxEver = w.c.min // no growth: the delay stays the reconnect time
							}
						}
						var err error
						kit.Must("SetOption", func() {
							if onSock {
								err = s.SetOption(c.opt, c.v)
							} else {
								err = w.d.SetOption(c.opt, c.v)
							}
						})
						if err != nil {
							kit.Failf("option-refused", "SetOption(%s, %v) on a running dialer / its socket: %s", c.opt, c.v, kit.ErrName(err))
						}
						if g, err := w.d.GetOption(c.opt); err != nil || g != c.v {
							kit.Failf("option-not-passed-on", "dialer reports %s = %v (%s) after %v was set (on the socket: %v)", c.opt, g, kit.ErrName(err), c.v, onSock)
						}
						if c.opt == mangos.OptionReconnectTime {
							w.mins = append(w.mins, c.v)
							w.minsSinceAttach = append(w.minsSinceAttach, c.v)
							if c.v < w.minEver {
								w.minEver = c.v
							}
							if c.v > w.maxEver {
								w.maxEver = c.v
							}
							w.c.min = c.v
						} else {
							if c.v > w.maxEver {
								w.maxEver = c.v
							}
							w.c.max = c.v
						}
						if w.waiting {
							kit.Count("reconnect-option-changed-while-a-redial-is-owed")
						}
						// whatever grows from here on grows from at most maxEver by at most 1.5x per failure
						// only while a maximum is set, and is then capped by it
					}})
				}
			}
		}
		if !w.closed {
			evs = append(evs, kit.Event{Name: "close-dialer", Run: func() {
				kit.Must("Dialer.Close", func() { _ = d.Close() })
				w.closed = true
			}})
			evs = append(evs, kit.Event{Name: "close-socket", Run: func() {
				kit.Must("Socket.Close", func() { _ = s.Close() })
				w.closed = true
			}})
		} else {
			evs = append(evs, kit.Event{Name: "advance-after-close", Run: func() {
				kit.Sleep(30 * time.Second)
				kit.Count("no-dial-after-close")
			}})
		}
		return evs
	}
	settle := func() {
		w.noteDials()
		if w.waiting && !w.closed && !w.gaveUp {
			if _, ok := vsched.NextTimer(); !ok {
				kit.Failf("dialer-gave-up", "the connection failed or was lost at %v and no redial is scheduled", w.lastEnd)
			}
		}
	}
	kit.Hist(depth, events, settle)
	if !w.closed {
		kit.Must("Socket.Close", func() { _ = s.Close() })
		w.closed = true
	}
	kit.Sleep(time.Minute)
	kit.Quiesce()
	w.noteDials()
	kit.Observe("cfg=%v dials=%d", w.c, w.ndials)
}

// closeDuringDial: Close is issued while a Dial is in progress (the connection attempt is
// held open by the peer) and while a redial timer is pending.
func closeDuringDial() {
	s, _ := xpub.NewSocket()
	ep := vt.Get("cdd")
	_ = s.SetOption(mangos.OptionDialAsynch, true)
	_ = s.SetOption(mangos.OptionReconnectTime, 100*time.Millisecond)
	ep.Script(vt.DialRefused, vt.DialHold)
	d, err := s.NewDialer("vt://cdd", nil)
	if err != nil {
		kit.Failf("setup", "NewDialer: %s", kit.ErrName(err))
	}
	if err := d.Dial(); err != nil {
		kit.Failf("setup", "Dial: %s", kit.ErrName(err))
	}
	kit.Quiesce()
	if ep.HeldDials() != 1 {
		kit.Failf("setup", "expected one held Dial, have %d", ep.HeldDials())
	}
	which := kit.ChooseFree(2)
	cc := kit.Start("Close", func() (interface{}, error) {
		if which == 0 {
			return nil, d.Close()
		}
		return nil, s.Close()
	})
	ep.ReleaseDial([]vt.DialOutcome{vt.DialRefused, vt.DialOK}[kit.ChooseFree(2)])
	kit.Quiesce()
	if !cc.Done() {
		kit.Failf("close-blocked", "Close did not return while a Dial was in progress")
	}
	n := ep.NumDials()
	kit.Sleep(10 * time.Second)
	kit.Quiesce()
	if ep.NumDials() != n {
		kit.Failf("dial-after-close", "%d connection attempt(s) started after Close had returned", ep.NumDials()-n)
	}
	kit.Observe("which=%d dials=%d pipes=%d", which, n, ep.NumPipes())
	_ = s.Close()
}

// lostWhileAttaching: the peer drops a dialed connection at some point while the core is still
// attaching it (before, during or after the protocol was told).  Whatever the interleaving, the
// dialer connects again after its reconnect time, that connection attaches (a one-peer pattern
// must not be left believing it still has the lost peer) and traffic flows.
func lostWhileAttaching() {
	s, err := pair.NewSocket()
	if err != nil {
		kit.Failf("setup", "NewSocket: %v", err)
	}
	attached, detached := 0, 0
	s.SetPipeEventHook(func(ev mangos.PipeEvent, p mangos.Pipe) {
		switch ev {
		case mangos.PipeEventAttached:
			attached++
		case mangos.PipeEventDetached:
			detached++
		}
	})
	_ = s.SetOption(mangos.OptionReconnectTime, 100*time.Millisecond)
	_ = s.SetOption(mangos.OptionMaxReconnectTime, 100*time.Millisecond)
	ep := vt.Get("lwa")
	ep.Script(vt.DialOK)
	dropper := kit.Start("peer-drops", func() (interface{}, error) {
		for ep.NumPipes() == 0 {
			kit.Yield()
		}
		ep.PipeAt(0).DropNow()
		return nil, nil
	})
	dc := kit.Start("Dial", func() (interface{}, error) {
		return nil, s.DialOptions("vt://lwa", map[string]interface{}{mangos.OptionDialAsynch: true})
	})
	kit.Quiesce()
	if !dc.Done() || dc.Err != nil || !dropper.Done() {
		kit.Failf("setup", "Dial done=%v %s dropper done=%v", dc.Done(), kit.ErrName(dc.Err), dropper.Done())
	}
	kit.Sleep(500 * time.Millisecond)
	kit.Quiesce()
	n := ep.NumPipes()
	if n < 2 {
		kit.Failf("dialer-gave-up", "the first connection was lost while it was being attached; 500ms later (ReconnectTime 100ms) no further connection was made")
	}
	last := ep.PipeAt(n - 1)
	if !last.Alive() {
		kit.Failf("reconnect-refused", "the first connection was lost while it was being attached; the dialer made %d further connection(s) and none stayed (attached %d, detached %d): the socket still counts the lost connection as its peer", n-1, attached, detached)
	}
	sc := kit.Start("Send", func() (interface{}, error) { return nil, kit.SendBytes(s, []byte("resumed")) })
	kit.Quiesce()
	if !sc.Done() || sc.Err != nil || last.NumSent() != 1 {
		kit.Failf("traffic-not-resumed", "after the reconnect Send: done=%v %s, the new peer has %d message(s)", sc.Done(), kit.ErrName(sc.Err), last.NumSent())
	}
	if attached-detached != 1 {
		kit.Failf("lifecycle-unbalanced", "one connection is attached now, the hook saw %d Attached and %d Detached", attached, detached)
	}
	kit.Observe("pipes=%d attached=%d", n, attached)
	kit.Must("Close", func() { _ = s.Close() })
	kit.Sleep(time.Minute)
	kit.Quiesce()
	if bad := kit.Census(); bad != "" {
		kit.Failf("leak-after-close", "after the lost-while-attaching history and Close: %s", bad)
	}
}

// lostInsideCallback: after n refused attempts (the delay has grown towards the maximum) a
// connection attaches, and the peer drops it while the application's Attached callback is still
// running.  The attach was successful: the delay is back at the initial value, so the next attempt
// follows after about ReconnectTime, not after the grown delay.
func lostInsideCallback() {
	n := []int{2, 5, 9}[kit.ChooseFree(3)]
	s, err := xpub.NewSocket()
	if err != nil {
		kit.Failf("setup", "NewSocket: %v", err)
	}
	min, max := 100*time.Millisecond, 3200*time.Millisecond
	_ = s.SetOption(mangos.OptionReconnectTime, min)
	_ = s.SetOption(mangos.OptionMaxReconnectTime, max)
	ep := vt.Get("lic")
	outcomes := []vt.DialOutcome{}
	for i := 0; i < n; i++ {
		outcomes = append(outcomes, vt.DialRefused)
	}
	ep.Script(vt.DialOK, outcomes...)
	dropped := false
	var attachedAt time.Duration
	s.SetPipeEventHook(func(ev mangos.PipeEvent, p mangos.Pipe) {
		if ev == mangos.PipeEventAttached && !dropped {
			dropped = true
			attachedAt = kit.Now()
			vp := ep.PipeAt(ep.NumPipes() - 1)
			vp.DropNow() // the peer hangs up while the callback runs ...
			for i := 0; i < 200 && !vp.ClosedByMangos(); i++ {
				kit.Yield() // ... and the library has dealt with the loss before the callback returns
			}
			for i := 0; i < 10; i++ {
				kit.Yield()
			}
		}
	})
	if err := s.DialOptions("vt://lic", map[string]interface{}{mangos.OptionDialAsynch: true}); err != nil {
		kit.Failf("setup", "Dial: %s", kit.ErrName(err))
	}
	kit.Quiesce()
	for i := 0; i < 400 && !dropped; i++ {
		kit.Sleep(200 * time.Millisecond)
		kit.Quiesce()
	}
	if !dropped {
		kit.Failf("dialer-gave-up", "after %d refusals no connection was attached within 8s", n)
	}
	kit.Sleep(max)
	kit.Quiesce()
	// the first attempt after the loss
	var next time.Duration = -1
	for _, dl := range ep.Dials {
		if dl.At > attachedAt && (next < 0 || dl.At < next) {
			next = dl.At
		}
	}
	if next < 0 {
		kit.Failf("dialer-gave-up", "%d refusals, then a connection attached and was lost while the Attached callback ran: no further attempt within %v", n, max)
	}
	// (every failure lets the delay grow by a factor of at least 1.1: a delay that was not reset is
	// at least 1.1^n times ReconnectTime)
	if gap := next - attachedAt; gap < min || gap >= min+min/12 {
		kit.Failf("backoff-not-reset", "%d refusals (the delay had grown), then a connection attached and was lost while the Attached callback ran: the next attempt came %v later; after a successful attach the delay is back at ReconnectTime (%v)", n, gap, min)
	}
	kit.Count("backoff-was-reset")
	kit.Observe("n=%d", n)
	kit.Must("Close", func() { _ = s.Close() })
}

// closeVsNewDialer: the socket is closed while another goroutine creates and starts a dialer
// (NewDialer with options, then Dial).  Whichever way the race goes, once both have returned no
// connection attempt is ever started: either the dialer was never handed out / refuses to dial,
// or it was closed with the socket.
func closeVsNewDialer() {
	s, _ := xpub.NewSocket()
	ep := vt.Get("cvn")
	ep.Script(vt.DialRefused)
	_ = s.SetOption(mangos.OptionReconnectTime, 100*time.Millisecond)
	dc := kit.Start("NewDialer+Dial", func() (interface{}, error) {
		d, err := s.NewDialer("vt://cvn", map[string]interface{}{mangos.OptionDialAsynch: true, mangos.OptionMaxRecvSize: 4096})
		if err != nil {
			return "NewDialer", err
		}
		return "Dial", d.Dial()
	})
	cc := kit.Start("Close", func() (interface{}, error) { return nil, s.Close() })
	kit.Quiesce()
	if !dc.Done() || !cc.Done() {
		kit.Failf("close-vs-newdialer-blocked", "NewDialer+Dial done=%v, Close done=%v", dc.Done(), cc.Done())
	}
	kit.Quiesce()
	n := ep.NumDials()
	kit.Sleep(10 * time.Second)
	kit.Quiesce()
	if ep.NumDials() != n {
		kit.Failf("dial-after-close", "the socket was closed while a dialer was being created (%v returned %s): %d connection attempt(s) were started after Close and Dial had both returned", dc.Val, kit.ErrName(dc.Err), ep.NumDials()-n)
	}
	if bad := kit.Census(); bad != "" {
		kit.Failf("leak-after-close", "after Close vs NewDialer+Dial: %s", bad)
	}
	kit.Observe("%v %s dials=%d", dc.Val, kit.ErrName(dc.Err), n)
}

// SeveralEndpointsClosed: one socket with 1-4 dialers (each either in its redial cycle against a
// refusing address or connected) and 0-3 listeners; one of the dialers may have been closed by the
// application before.  The socket is closed: from then on no address sees another connection
// attempt, no address is listened on, every connection is closed, nothing is left behind - and a
// dialer closed on its own stops alone (the others keep redialling until the socket goes).
func SeveralEndpointsClosed() {
	nd := 1 + kit.ChooseFree(4)
	nl := kit.ChooseFree(4)
	s, _ := xpub.NewSocket()
	_ = s.SetOption(mangos.OptionReconnectTime, 100*time.Millisecond)
	_ = s.SetOption(mangos.OptionMaxReconnectTime, 100*time.Millisecond)
	var eps []*vt.Endpoint
	var ds []mangos.Dialer
	connected := make([]bool, nd)
	for i := 0; i < nd; i++ {
		ep := vt.Get(fmt.Sprintf("several-d%d", i))
		connected[i] = kit.ChooseFree(2) == 1
		if connected[i] {
			ep.Script(vt.DialOK)
		} else {
			ep.Script(vt.DialRefused)
		}
		d, err := s.NewDialer(fmt.Sprintf("vt://several-d%d", i), map[string]interface{}{mangos.OptionDialAsynch: true})
		if err != nil {
			kit.Failf("setup", "NewDialer: %s", kit.ErrName(err))
		}
		if err := d.Dial(); err != nil {
			kit.Failf("setup", "Dial: %s", kit.ErrName(err))
		}
		eps = append(eps, ep)
		ds = append(ds, d)
	}
	var leps []*vt.Endpoint
	for i := 0; i < nl; i++ {
		if err := s.Listen(fmt.Sprintf("vt://several-l%d", i)); err != nil {
			kit.Failf("setup", "Listen: %s", kit.ErrName(err))
		}
		ep := vt.Get(fmt.Sprintf("several-l%d", i))
		ep.Connect()
		leps = append(leps, ep)
	}
	kit.Sleep(350 * time.Millisecond)
	kit.Quiesce()
	for i, ep := range eps {
		if !connected[i] && ep.NumDials() < 3 {
			kit.Failf("setup", "dialer %d made %d attempts in 350 ms at a reconnect time of 100 ms", i, ep.NumDials())
		}
	}
	// the application closes one dialer itself first (or none)
	own := kit.ChooseFree(nd+1) - 1
	before := make([]int, nd)
	if own >= 0 {
		kit.Must("Dialer.Close", func() { _ = ds[own].Close() })
		kit.Quiesce()
		for i, ep := range eps {
			before[i] = ep.NumDials()
		}
		kit.Sleep(350 * time.Millisecond)
		kit.Quiesce()
		for i, ep := range eps {
			n := ep.NumDials() - before[i]
			if i == own && n != 0 {
				kit.Failf("dial-after-dialer-close", "dialer %d of %d was closed: %d connection attempt(s) afterwards", i, nd, n)
			}
			if i != own && !connected[i] && n < 3 {
				kit.Failf("other-dialer-stopped", "dialer %d of %d was closed: dialer %d (refused, reconnect time 100 ms) made only %d attempt(s) in the following 350 ms", own, nd, i, n)
			}
		}
	}
	kit.Must("Socket.Close", func() { _ = s.Close() })
	kit.Quiesce()
	for i, ep := range eps {
		before[i] = ep.NumDials()
	}
	kit.Sleep(10 * time.Second)
	kit.Quiesce()
	for i, ep := range eps {
		if n := ep.NumDials() - before[i]; n != 0 {
			kit.Failf("dial-after-close", "the socket (with %d dialers, this is number %d; %d listeners) was closed: %d connection attempt(s) to its address afterwards", nd, i, nl, n)
		}
		for j := 0; j < ep.NumPipes(); j++ {
			if ep.PipeAt(j).Alive() {
				kit.Failf("connection-left-open", "the socket was closed: the connection made by dialer %d of %d is still open", i, nd)
			}
		}
	}
	for i, ep := range leps {
		if ep.Listening() {
			kit.Failf("still-listening-after-close", "the socket (with %d listeners, this is number %d; %d dialers) was closed: the address is still listened on", nl, i, nd)
		}
		for j := 0; j < ep.NumPipes(); j++ {
			if ep.PipeAt(j).Alive() {
				kit.Failf("connection-left-open", "the socket was closed: the connection accepted by listener %d of %d is still open", i, nl)
			}
		}
	}
	if bad := kit.Census(); bad != "" {
		kit.Failf("leak-after-close", "socket with %d dialers and %d listeners closed: %s", nd, nl, bad)
	}
	if nd >= 3 {
		kit.Count("three-or-more-dialers-all-stopped")
	}
	kit.Observe("nd=%d nl=%d conn=%v own=%d", nd, nl, connected, own)
}

// InprocListenerRestarts: a background dialer's attempt is waiting for an inproc listener whose
// accept loop is busy (held in the Attaching callback of another connection) - it was started that
// way, or it lost its connection and is redialling.  The listening socket is closed and (after 0-3
// reconnect intervals) a new socket listens on the same address: the dialer connects to it within
// one reconnect interval and traffic flows.  The cycle is run one to three times.
func InprocListenerRestarts() {
	cycles := 1 + kit.ChooseFree(3)
	wait := kit.ChooseFree(4)
	hadConn := kit.ChooseFree(2) == 1
	const addr = "inproc://c14-restart"
	rt := 100 * time.Millisecond
	d, _ := xsub.NewSocket()
	_ = d.SetOption(mangos.OptionReconnectTime, rt)
	_ = d.SetOption(mangos.OptionMaxReconnectTime, rt)
	_ = d.SetOption(mangos.OptionDialAsynch, true)
	attached := 0
	d.SetPipeEventHook(func(ev mangos.PipeEvent, p mangos.Pipe) {
		if ev == mangos.PipeEventAttached {
			attached++
		}
	})
	type lst struct {
		s       mangos.Socket
		release chan struct{}
		hold    bool
		pipes   []mangos.Pipe
	}
	newL := func(hold bool) *lst {
		l := &lst{release: make(chan struct{}), hold: hold}
		l.s, _ = xpub.NewSocket()
		l.s.SetPipeEventHook(func(ev mangos.PipeEvent, p mangos.Pipe) {
			if ev == mangos.PipeEventAttaching && l.hold {
				l.hold = false
				<-l.release
			}
			if ev == mangos.PipeEventAttached {
				l.pipes = append(l.pipes, p)
			}
		})
		if err := l.s.Listen(addr); err != nil {
			kit.Failf("setup", "Listen: %s", kit.ErrName(err))
		}
		return l
	}
	l := newL(!hadConn)
	if hadConn {
		// the dialer connects first; then the accept loop becomes busy and the dialer loses its connection
		if err := d.Dial(addr); err != nil {
			kit.Failf("setup", "Dial: %s", kit.ErrName(err))
		}
		kit.Quiesce()
		if attached != 1 {
			kit.Failf("setup", "dialer not attached")
		}
	}
	started := hadConn
	for c := 0; c < cycles; c++ {
		// somebody else connects and the accept loop is held in its Attaching callback
		l.hold = true
		other, _ := xsub.NewSocket()
		oc := kit.Start("Dial-other", func() (interface{}, error) { return nil, other.Dial(addr) })
		kit.Quiesce()
		if !oc.Done() || oc.Err != nil {
			kit.Failf("setup", "the other subscriber's Dial: done=%v %s", oc.Done(), kit.ErrName(oc.Err))
		}
		if !started {
			if err := d.Dial(addr); err != nil {
				kit.Failf("setup", "asynchronous Dial: %s", kit.ErrName(err))
			}
			started = true
		} else {
			// the dialer's connection is lost (the listening side closes it): it redials, and that
			// attempt waits for the accept loop
			if len(l.pipes) == 0 {
				kit.Failf("setup", "no connection of the dialer on the listening side")
			}
			dp := l.pipes[0]
			kit.Must("Pipe.Close", func() { _ = dp.Close() })
			kit.Quiesce()
		}
		kit.Sleep(rt)
		kit.Quiesce()
		// the listening socket goes away while the attempt waits
		cl := kit.Start("Close-listener", func() (interface{}, error) { return nil, l.s.Close() })
		kit.Quiesce()
		close(l.release)
		kit.Quiesce()
		if !cl.Done() {
			kit.Failf("close-blocked:inproc-listener", "Close of the listening socket did not return")
		}
		kit.Must("Close-other", func() { _ = other.Close() })
		kit.Sleep(time.Duration(wait) * rt)
		kit.Quiesce()
		before := attached
		l = newL(false)
		kit.Sleep(rt + time.Millisecond)
		kit.Quiesce()
		if attached != before+1 {
			kit.Failf("dialer-did-not-reconnect:inproc", "cycle %d: the listener the dialer's attempt was waiting for went away, a new socket has been listening on the address for a full reconnect interval (%v): the dialer has made %d new connection(s), want 1", c+1, rt, attached-before)
		}
		pc := kit.Start("Send", func() (interface{}, error) { return nil, l.s.Send([]byte(fmt.Sprintf("hello-%d", c))) })
		kit.Quiesce()
		rc := kit.Start("Recv", func() (interface{}, error) { b, err := kit.Recv(d); return string(b), err })
		kit.Quiesce()
		if !pc.Done() || pc.Err != nil || !rc.Done() || rc.Err != nil || rc.Val.(string) != fmt.Sprintf("hello-%d", c) {
			kit.Failf("no-traffic-after-reconnect:inproc", "cycle %d: publication after the reconnect: Send done=%v, Recv done=%v %s %q", c+1, pc.Done(), rc.Done(), kit.ErrName(rc.Err), rc.Val)
		}
		kit.Count("reconnected-to-the-new-listener")
	}
	kit.Observe("cycles=%d wait=%d had=%v", cycles, wait, hadConn)
	kit.Must("Close", func() { _ = d.Close(); _ = l.s.Close() })
}

// SlowHook: the application's pipe event callback takes its time (0, half, twice or five times the
// reconnect time) in Attaching or Attached, once or for every connection; while it runs the peer
// drops the connection (or, PAIR with a peer already attached, the protocol refuses it).  Whatever
// redial falls due during the callback is not lost: once the callbacks are quick again and the
// peer accepts, the dialer has a live, attached connection within two reconnect intervals, and
// traffic flows.
func SlowHook() { SlowHookWith(xpub.NewSocket) }

// SlowHookWith is SlowHook for a socket of the caller's choice (C02 runs it with PAIR).
func SlowHookWith(mk func() (mangos.Socket, error)) {
	rt := 100 * time.Millisecond
	slow := []time.Duration{0, rt / 2, 2 * rt, 5 * rt}[kit.ChooseFree(4)]
	at := []mangos.PipeEvent{mangos.PipeEventAttaching, mangos.PipeEventAttached}[kit.ChooseFree(2)]
	times := 1 + kit.ChooseFree(3) // how many connections in a row are slow and lost
	s, _ := mk()
	_ = s.SetOption(mangos.OptionReconnectTime, rt)
	_ = s.SetOption(mangos.OptionMaxReconnectTime, rt)
	ep := vt.Get("slowhook")
	ep.Script(vt.DialOK)
	n := 0
	attached, detached := 0, 0
	s.SetPipeEventHook(func(ev mangos.PipeEvent, p mangos.Pipe) {
		switch ev {
		case mangos.PipeEventAttached:
			attached++
		case mangos.PipeEventDetached:
			detached++
		}
		if ev == at && n < times {
			n++
			// the peer hangs up while the callback is still busy
			if vp := ep.PipeAt(ep.NumPipes() - 1); vp != nil {
				vp.DropNow()
			}
			if slow > 0 {
				kit.Sleep(slow)
			}
		}
	})
	if err := s.DialOptions("vt://slowhook", map[string]interface{}{mangos.OptionDialAsynch: true}); err != nil {
		kit.Failf("setup", "Dial: %s", kit.ErrName(err))
	}
	kit.Sleep(time.Duration(times)*(slow+rt) + 2*rt + time.Millisecond)
	kit.Quiesce()
	last := ep.PipeAt(ep.NumPipes() - 1)
	if last == nil || !last.Alive() || attached-detached != 1 {
		kit.Failf("dialer-gave-up:slow-callback", "the event callback took %v in %s for the first %d connection(s), each of which the peer dropped meanwhile; %v after the last of them the dialer has no live connection (connections made: %d, attached %d, detached %d; reconnect time %v)",
			slow, map[mangos.PipeEvent]string{mangos.PipeEventAttaching: "Attaching", mangos.PipeEventAttached: "Attached"}[at], times, 2*rt, ep.NumPipes(), attached, detached, rt)
	}
	sc := kit.Start("Send", func() (interface{}, error) { return nil, s.Send([]byte("after-slow-callbacks")) })
	kit.Quiesce()
	if !sc.Done() || sc.Err != nil || last.NumSent() != 1 {
		kit.Failf("no-traffic-after-reconnect", "publication after the reconnect: Send done=%v %s, the new connection was given %d message(s)", sc.Done(), kit.ErrName(sc.Err), last.NumSent())
	}
	kit.Count("reconnected-after-a-loss-during-the-callback")
	kit.Observe("slow=%v at=%v times=%d pipes=%d", slow, at, times, ep.NumPipes())
	kit.Must("Close", func() { _ = s.Close() })
}

// protocolRefusal: the transport connection succeeds but the protocol refuses the pipe (a PAIR
// socket that already has a peer).  The dialer has to keep trying at its back-off pace, and takes
// over as soon as the first peer has gone.
func protocolRefusal() {
	c := cfgs[kit.ChooseFree(len(cfgs))]
	if !c.asynch {
		// a synchronous first Dial whose pipe is refused afterwards has "succeeded": same redial rules
	}
	s, err := pair.NewSocket()
	if err != nil {
		kit.Failf("setup", "NewSocket: %v", err)
	}
	for n, v := range map[string]interface{}{mangos.OptionReconnectTime: c.min, mangos.OptionMaxReconnectTime: c.max, mangos.OptionDialAsynch: c.asynch} {
		if err := s.SetOption(n, v); err != nil {
			kit.Failf("setup", "SetOption(%s): %s", n, kit.ErrName(err))
		}
	}
	lep, dep := vt.Get("refl"), vt.Get("refd")
	if err := s.Listen("vt://refl"); err != nil {
		kit.Failf("setup", "Listen: %s", kit.ErrName(err))
	}
	first := lep.Connect()
	kit.Quiesce()
	if first.ClosedByMangos() {
		kit.Failf("setup", "first peer refused")
	}
	dep.Script(vt.DialOK)
	dc := kit.Start("Dial", func() (interface{}, error) { return nil, s.Dial("vt://refd") })
	kit.Quiesce()
	if !dc.Done() || dc.Err != nil {
		kit.Failf("dial-refused-by-protocol", "Dial: done=%v %s", dc.Done(), kit.ErrName(dc.Err))
	}
	// every dialed connection is refused by the protocol while the first peer is attached
	rounds := 3
	for i := 0; i < rounds; i++ {
		n := dep.NumDials()
		if !dep.PipeAt(n - 1).ClosedByMangos() {
			kit.Failf("second-peer-not-refused", "attempt %d: the dialed connection was not refused although a peer is attached", n)
		}
		at, ok := vsched.NextTimer()
		if !ok {
			kit.Failf("dialer-gave-up", "after %d protocol refusal(s) no redial is scheduled", n)
		}
		last := dep.Dials[n-1].At
		gap := at - last
		if gap < c.min {
			kit.Failf("redial-too-soon", "redial scheduled %v after the refused attempt; ReconnectTime is %v", gap, c.min)
		}
		if c.max > 0 && gap > c.max && gap > c.min {
			kit.Failf("redial-beyond-max", "redial scheduled %v after the refused attempt; MaxReconnectTime is %v", gap, c.max)
		}
		kit.Sleep(at - kit.Now())
		kit.Quiesce()
		if dep.NumDials() != n+1 {
			kit.Failf("dialer-gave-up", "the redial timer fired but no attempt was made (attempts: %d)", dep.NumDials())
		}
		kit.Count("redial-after-protocol-refusal")
	}
	// the first peer leaves: the next attempt must attach and carry traffic
	first.DropNow()
	kit.Quiesce()
	for i := 0; i < 3; i++ {
		if p := dep.PipeAt(dep.NumPipes() - 1); p.Alive() {
			break
		}
		at, ok := vsched.NextTimer()
		if !ok {
			kit.Failf("dialer-gave-up", "the first peer left, but no redial is scheduled")
		}
		kit.Sleep(at - kit.Now())
		kit.Quiesce()
	}
	p := dep.PipeAt(dep.NumPipes() - 1)
	if !p.Alive() {
		kit.Failf("no-takeover", "the first peer has gone but the dialed connection still does not attach")
	}
	sc := kit.Start("Send", func() (interface{}, error) { return nil, kit.SendBytes(s, []byte("hello")) })
	kit.Quiesce()
	if !sc.Done() || sc.Err != nil || p.NumSent() != 1 {
		kit.Failf("traffic-not-resumed", "after the takeover Send: done=%v %s, peer has %d messages", sc.Done(), kit.ErrName(sc.Err), p.NumSent())
	}
	kit.Count("took-over-after-first-peer-left")
	kit.Observe("cfg=%v dials=%d", c, dep.NumDials())
	kit.Must("Close", func() { _ = s.Close() })
	nd := dep.NumDials()
	kit.Sleep(time.Minute)
	kit.Quiesce()
	if dep.NumDials() != nd {
		kit.Failf("dial-after-close", "attempts after Close")
	}
}

// Bodies re-run by C11 under the race-instrumented build.
var RaceBodies = map[string]func(){
	"c14-close-during-dial": closeDuringDial,
	"c14-close-vs-new-dialer": closeVsNewDialer,
	"c14-lost-while-attaching": lostWhileAttaching,
}


// LostWhileAttaching is also run under C02 (a PAIR socket must not go on counting a connection
// that was lost while it was being attached as its peer).
func LostWhileAttaching() { lostWhileAttaching() }
