// Package c12 checks property C12: a failed operation leaves the object usable; nothing stays locked.
package c12

import (
	"crypto/tls"
	"fmt"
	"time"

	"go.nanomsg.org/mangos/v3"
	_ "go.nanomsg.org/mangos/v3/transport/ipc"
	_ "go.nanomsg.org/mangos/v3/transport/tcp"
	_ "go.nanomsg.org/mangos/v3/transport/tlstcp"
	_ "go.nanomsg.org/mangos/v3/transport/ws"
	_ "go.nanomsg.org/mangos/v3/transport/wss"
	"go.nanomsg.org/mangos/v3/vh/c11"
	"go.nanomsg.org/mangos/v3/vh/c13"
	"go.nanomsg.org/mangos/v3/vh/c19"
	"go.nanomsg.org/mangos/v3/vh/kinds"
	"go.nanomsg.org/mangos/v3/vh/kit"
	"go.nanomsg.org/mangos/v3/vh/vnet"
	"go.nanomsg.org/mangos/v3/vh/vt"
	"go.nanomsg.org/mangos/v3/vz/vexplore"
	"go.nanomsg.org/mangos/v3/vz/vsched"
)

func init() {
	vexplore.Register("C12", func(tier string) []*vexplore.Scenario {
		depth := 2
		if tier == "thorough" {
			depth = 3
		}
		return []*vexplore.Scenario{
			{Name: fmt.Sprintf("error-then-followups-x%d", depth), Mode: "hist", Reset: kit.ResetGlobals, Body: func() { errorThen(depth) },
				NeedCounters: []string{"error-provoked", "followup-completed", "listener-still-accepts", "dialer-still-redials", "listen-retried", "dial-retried"}},
			// two calls at once on a listener, a dialer and their socket - among them calls that fail
			// (unknown options, a second Listen / Dial, calls on closed objects): whatever order the
			// locks are taken in, every call returns and the socket stays usable
			{Name: "two-calls-at-once-on-endpoints-and-socket", Mode: "sched", Bound: depth, Reset: kit.ResetGlobals, Body: c11.TwoThreadsEndpoints},
			// dials waiting for several busy inproc listeners: whichever accept loop becomes free, the dial
			// waiting for it completes (no call blocks for ever, the listeners keep accepting)
			{Name: "inproc-dials-waiting-for-several-busy-listeners", Mode: "enum", Reset: kit.ResetGlobals, Body: c13.InprocBusyListeners, NeedCounters: []string{"waiting-dial-connected-when-its-listener-became-free"}},
			// SUB: subscription changes and queue-length changes on a socket / an inheriting context / a
			// context with its own length, with messages queued: every call returns
			{Name: "sub-reconfigured-with-messages-queued", Mode: "enum", Reset: kit.ResetGlobals, Body: c19.SubQLen, NeedCounters: []string{"context-length-differs-from-the-socket's"}},
			{Name: "transport-config-errors", Mode: "hist", Reset: kit.ResetGlobals, Body: transportErrors,
				NeedCounters: []string{"tls-no-config", "followup-completed"}},
		}
	})
}

type world struct {
	x     *kinds.Sock
	k     *kinds.Kind
	ctx   mangos.Context
	lst   mangos.Listener
	dl    mangos.Dialer
	pipes []mangos.Pipe
	close bool // hook closes the next pipe during Attaching
	closeAttached bool // hook closes the next pipe from within its Attached callback
	n     int
	byAddr map[string]int // pipes attached so far, by the address of the endpoint that made them
}

// provoke runs one operation that fails in a documented way and checks the error.
type failure struct {
	name string
	ok   func(w *world) bool
	run  func(w *world)
}

func expect(what string, err error, wants ...error) {
	for _, w := range wants {
		if err == w {
			kit.Count("error-provoked")
			return
		}
	}
	kit.Failf("unexpected-result:"+what, "%s returned %s", what, kit.ErrName(err))
}

// call runs f on its own thread and requires it to return by the next quiescence
// (after advance of virtual time if adv > 0).
func call(what string, adv time.Duration, f func() error) error {
	c := kit.Start(what, func() (interface{}, error) { return nil, f() })
	kit.Quiesce()
	if !c.Done() && adv > 0 {
		kit.Sleep(adv)
		kit.Quiesce()
	}
	if !c.Done() {
		kit.Failf("call-never-returns:"+what, "%s did not return (object wedged or lock left held)", what)
	}
	return c.Err
}

var failures = []failure{
	{"dial-no-scheme", nil, func(w *world) { expect("Dial(no scheme)", call("Dial-bad", 0, func() error { return w.x.S.Dial("no-scheme-here") }), mangos.ErrBadTran) }},
	{"dial-unknown-scheme", nil, func(w *world) {
		expect("Dial(unknown scheme)", call("Dial-bad", 0, func() error { return w.x.S.Dial("nosuch://x") }), mangos.ErrBadTran)
	}},
	{"listen-unknown-scheme", nil, func(w *world) {
		expect("Listen(unknown scheme)", call("Listen-bad", 0, func() error { return w.x.S.Listen("nosuch://x") }), mangos.ErrBadTran)
	}},
	{"listen-addr-in-use", nil, func(w *world) {
		// the address of the socket's own listener is taken
		expect("Listen(address in use)", call("Listen-inuse", 0, func() error { return w.x.S.Listen("vt://c12") }), mangos.ErrAddrInUse)
	}},
	{"listen-fails-then-retry-same-listener", nil, func(w *world) {
		w.n++
		addr := fmt.Sprintf("c12-retry%d", w.n)
		ep := vt.Get(addr)
		ep.FailListen(mangos.ErrAddrInUse)
		l, err := w.x.S.NewListener("vt://"+addr, nil)
		if err != nil {
			kit.Failf("newlistener", "NewListener: %s", kit.ErrName(err))
		}
		expect("Listener.Listen(address in use)", call("Listen-fail", 0, l.Listen), mangos.ErrAddrInUse)
		ep.FailListen(nil)
		if err := call("Listen-retry", 0, l.Listen); err != nil {
			kit.Failf("listen-retry-failed", "after the cause was corrected the same Listener still fails: %s", kit.ErrName(err))
		}
		kit.Count("listen-retried")
		p := ep.Connect()
		kit.Quiesce()
		if p.ClosedByMangos() && w.k.Name != "pair" && w.k.Name != "xpair" && w.k.Name != "pair1" && w.k.Name != "xpair1" {
			kit.Failf("listen-retry-not-accepting", "the retried listener does not accept connections")
		}
	}},
	{"dial-refused-then-retry", nil, func(w *world) {
		ep := vt.Get("c12-dial")
		ep.Script(vt.DialOK, vt.DialRefused)
		expect("Dial(refused)", call("Dial-refused", 0, func() error { return w.x.S.Dial("vt://c12-dial") }), mangos.ErrConnRefused)
		if err := call("Dial-retry", 0, func() error { return w.x.S.Dial("vt://c12-dial") }); err != nil {
			kit.Failf("dial-retry-failed", "Dial after the listener appeared: %s", kit.ErrName(err))
		}
		kit.Count("dial-retried")
	}},
	{"dial-fails-then-retry-same-dialer", nil, func(w *world) {
		// a synchronous Dial that failed (nobody listening, then a handshake failure) has started
		// nothing; once the cause is gone, Dial on the same Dialer object connects
		w.n++
		addr := fmt.Sprintf("c12-redial%d", w.n)
		ep := vt.Get(addr)
		ep.Script(vt.DialOK, vt.DialRefused, vt.DialHandshake)
		d, err := w.x.S.NewDialer("vt://"+addr, map[string]interface{}{mangos.OptionDialAsynch: false})
		if err != nil {
			kit.Failf("newdialer", "NewDialer: %s", kit.ErrName(err))
		}
		expect("Dialer.Dial(refused)", call("Dial-refused", 0, d.Dial), mangos.ErrConnRefused)
		expect("Dialer.Dial(handshake failure)", call("Dial-hs", 0, d.Dial), vt.ErrHandshake)
		if err := call("Dial-retry", 0, d.Dial); err != nil {
			kit.Failf("dial-retry-same-dialer-failed", "a synchronous Dial failed twice (refused, handshake failure) and nothing is running; after the cause was corrected Dial on the same Dialer still fails: %s", kit.ErrName(err))
		}
		kit.Quiesce()
		if ep.NumPipes() == 0 {
			kit.Failf("dial-retry-same-dialer-failed", "the retried Dial returned nil but no connection was made")
		}
		kit.Count("dial-retried-on-the-same-dialer")
	}},
	{"dial-handshake-failure", nil, func(w *world) {
		ep := vt.Get("c12-hs")
		ep.Script(vt.DialOK, vt.DialHandshake)
		expect("Dial(handshake failure)", call("Dial-hs", 0, func() error { return w.x.S.Dial("vt://c12-hs") }), vt.ErrHandshake)
	}},
	{"dial-async-refused-keeps-redialling", nil, func(w *world) {
		ep := vt.Get("c12-async")
		ep.Script(vt.DialOK, vt.DialRefused, vt.DialHandshake)
		d, err := w.x.S.NewDialer("vt://c12-async", map[string]interface{}{mangos.OptionDialAsynch: true, mangos.OptionReconnectTime: 10 * time.Millisecond})
		if err != nil {
			kit.Failf("newdialer", "NewDialer: %s", kit.ErrName(err))
		}
		if err := call("Dial-async", 0, d.Dial); err != nil {
			kit.Failf("dial-async", "asynchronous Dial returned %s", kit.ErrName(err))
		}
		kit.Count("error-provoked")
		kit.Sleep(time.Second)
		kit.Quiesce()
		if ep.NumPipes() == 0 {
			kit.Failf("dialer-stopped-redialling", "after a refusal and a handshake failure the dialer made %d attempts and never connected", ep.NumDials())
		}
		kit.Count("dialer-still-redials")
		w.dl = d
	}},
	{"hook-closes-pipe-during-attaching", nil, func(w *world) {
		w.close = true
		p := w.x.EP.Connect()
		kit.Quiesce()
		if !p.ClosedByMangos() {
			kit.Failf("hook-close-ignored", "the pipe closed by the hook during Attaching stayed open")
		}
		kit.Count("error-provoked")
	}},
	{"hook-closes-pipe-during-attached", nil, func(w *world) {
		// closing a pipe from within its own Attached callback is legal; the accept loop (or the
		// dialer) that delivers the callback must survive it
		w.dropAllPeers()
		w.closeAttached = true
		p := w.x.EP.Connect()
		kit.Quiesce()
		if w.closeAttached {
			// (no Attached event: a one-peer pattern refused the connection)
			w.closeAttached = false
		} else if !p.ClosedByMangos() {
			kit.Failf("hook-close-ignored", "the pipe closed by the hook from its Attached callback stayed open")
		}
		kit.Count("error-provoked")
	}},
	{"inproc-listen-address-in-use-then-loser-closed", nil, func(w *world) {
		// our socket listens on an inproc address; another socket's Listen on the same address
		// fails and that listener (and its socket) is closed: ours must still be reachable
		w.n++
		addr := fmt.Sprintf("inproc://c12-dup%d", w.n)
		if err := call("Listen(inproc)", 0, func() error { return w.x.S.Listen(addr) }); err != nil {
			kit.Failf("inproc-listen", "Listen(%s): %s", addr, kit.ErrName(err))
		}
		other, err := w.k.New()
		if err != nil {
			kit.Failf("setup", "NewSocket: %v", err)
		}
		l, err := other.NewListener(addr, nil)
		if err != nil {
			kit.Failf("newlistener", "NewListener: %s", kit.ErrName(err))
		}
		expect("Listen(inproc address in use)", call("Listen-dup", 0, l.Listen), mangos.ErrAddrInUse)
		_ = call("Listener.Close(loser)", 0, l.Close)
		_ = call("Socket.Close(loser)", 0, other.Close)
		// a listener that was created but never started, closed again
		l2, err := w.x.S.NewListener(addr, nil)
		if err == nil {
			_ = call("Listener.Close(never started)", 0, l2.Close)
		}
		w.dropAllPeers()
		before := len(w.pipes)
		peer, err := w.k.NewPeer()
		if err != nil {
			kit.Failf("setup", "NewSocket(peer): %v", err)
		}
		if err := call("Dial(inproc)", 0, func() error { return peer.Dial(addr) }); err != nil {
			kit.Failf("listener-unregistered-by-another-close", "%s: a listener that had lost the race for %s was closed; now Dial to the address of the listener that won returns %s", w.k.Name, addr, kit.ErrName(err))
		}
		kit.Quiesce()
		if w.byAddr[addr] != 1 && !(w.single() && len(w.pipes) > before) {
			kit.Failf("listener-stopped-accepting:inproc", "%s: the inproc peer dialed but did not attach", w.k.Name)
		}
		_ = call("Socket.Close(peer)", 0, peer.Close)
		kit.Quiesce()
		kit.Count("error-provoked")
	}},
	{"recv-abandoned-by-a-new-send", func(w *world) bool { return w.k.NeedOut && !w.k.Raw }, func(w *world) {
		// a Recv is waiting for the answer to request / survey 1 when another goroutine sends number 2
		// on the same socket: the Recv fails with the cancellation error - and that is all that happens
		w.x.PrepRecv()
		rc := kit.Start("Recv-abandoned", func() (interface{}, error) { return w.x.Recv() })
		kit.Quiesce()
		if rc.Done() {
			return // (an answer was there already)
		}
		_ = call("Send-again", 0, func() error { return w.x.Send("second") })
		kit.Quiesce()
		if !rc.Done() {
			kit.Failf("recv-not-canceled", "%s: a new Send did not end the Recv that waited for the previous one", w.k.Name)
		}
		expect("Recv(abandoned)", rc.Err, mangos.ErrCanceled, mangos.ErrRecvTimeout)
		kit.Count("error-provoked")
	}},
	{"inproc-dial-from-a-protocol-that-is-not-the-peer", nil, func(w *world) {
		w.n++
		addr := fmt.Sprintf("inproc://c12-proto%d", w.n)
		if err := call("Listen(inproc)", 0, func() error { return w.x.S.Listen(addr) }); err != nil {
			kit.Failf("inproc-listen", "Listen(%s): %s", addr, kit.ErrName(err))
		}
		// a socket whose protocol ours does not talk to
		wrongName := "pub"
		if w.x.S.Info().Peer == mangos.ProtoPub || w.x.S.Info().Self == mangos.ProtoPub {
			wrongName = "push"
		}
		wrong, err := kinds.ByName(wrongName).New()
		if err != nil {
			kit.Failf("setup", "NewSocket: %v", err)
		}
		expect("Dial(wrong protocol over inproc)", call("Dial-badproto", 0, func() error { return wrong.Dial(addr) }), mangos.ErrBadProto)
		_ = call("Socket.Close(wrong)", 0, wrong.Close)
		kit.Count("error-provoked")
		w.dropAllPeers()
		before := len(w.pipes)
		peer, err := w.k.NewPeer()
		if err != nil {
			kit.Failf("setup", "NewSocket(peer): %v", err)
		}
		dc := kit.Start("Dial(inproc peer)", func() (interface{}, error) { return nil, peer.Dial(addr) })
		kit.Quiesce()
		if !dc.Done() || dc.Err != nil {
			kit.Failf("listener-stopped-accepting:inproc-badproto", "%s: after a Dial from a protocol that is not its peer was refused, a matching peer's Dial: done=%v %s", w.k.Name, dc.Done(), kit.ErrName(dc.Err))
		}
		if w.byAddr[addr] != 1 && !(w.single() && len(w.pipes) > before) {
			kit.Failf("listener-stopped-accepting:inproc-badproto", "%s: the matching inproc peer dialed but did not attach", w.k.Name)
		}
		_ = call("Socket.Close(peer)", 0, peer.Close)
		kit.Quiesce()
	}},
	{"inbound-messages-the-protocol-discards", func(w *world) bool { return w.k.CanRecv }, func(w *world) {
		// hop limit at its smallest, default or largest value (where the pattern has one); then
		// messages that are too short, over the hop limit, exactly at it, with the hop byte at 254 /
		// 255, with bad reserved bytes, with a backtrace one longer than the limit
		ttl := []int{0, 1, 255}[kit.ChooseFree(3)]
		if ttl != 0 {
			if err := w.x.S.SetOption(mangos.OptionTTL, ttl); err != nil {
				if ttl == 255 {
					return // (no hop limit on this pattern: one variant is enough)
				}
				ttl = 0
			}
		}
		lim := ttl
		if lim == 0 {
			lim = 8
		}
		p := w.x.P
		if p == nil || !p.Alive() {
			p = w.x.EP.Connect()
			kit.Quiesce()
		}
		for _, b := range [][]byte{{}, {0x80}, {0, 0, 1}, {0, 0, 0, byte(lim), 'x'}, {0, 0, 0, byte(lim + 1), 'x'}, {0, 0, 0, 254, 'x'}, {0, 0, 0, 255, 'x'}, {0, 0, 1, 0, 'x'}, {1, 0, 0, 0, 'x'}} {
			p.Deliver(b)
		}
		var bt []byte
		for i := 0; i < lim+1 && i < 20; i++ {
			bt = append(bt, 0, 0, 0, byte(i+1))
		}
		p.Deliver(append(append(bt, 0x80, 0, 0, 1), "deep"...))
		kit.Quiesce()
		kit.Count("error-provoked")
		// whatever of this was deliverable is taken out of the way
		_ = w.x.S.SetOption(mangos.OptionRecvDeadline, 10*time.Millisecond)
		drained := 0
		for i := 0; i < 12; i++ {
			if err := call("Recv-drain", time.Second, func() error { _, err := w.x.Recv(); return err }); err != nil {
				break
			}
			drained++
		}
		if drained > 0 && w.k.NeedReq && !w.k.Raw {
			// a request was delivered: answer it, so that no request is pending afterwards
			_ = call("Send-clear", time.Second, func() error { return w.x.Send("clear") })
		}
		_ = w.x.S.SetOption(mangos.OptionRecvDeadline, time.Hour)
	}},
	{"peer-drops-connection", nil, func(w *world) {
		p := w.x.EP.Connect()
		kit.Quiesce()
		p.DropNow()
		kit.Quiesce()
		kit.Count("error-provoked")
	}},
	{"send-timeout", func(w *world) bool { return w.k.CanSend }, func(w *world) {
		if w.x.S.SetOption(mangos.OptionSendDeadline, 50*time.Millisecond) != nil {
			return
		}
		w.x.P.Hold(true)
		_ = w.x.S.SetOption(mangos.OptionWriteQLen, 1)
		for i := 0; i < 6; i++ {
			w.x.PrepSend()
			err := call("Send-deadline", time.Second, func() error { return w.x.Send("fill") })
			if err == mangos.ErrSendTimeout {
				kit.Count("error-provoked")
				break
			}
		}
		w.x.P.Hold(false)
		_ = w.x.S.SetOption(mangos.OptionSendDeadline, time.Hour)
	}},
	{"recv-timeout", func(w *world) bool { return w.k.CanRecv }, func(w *world) {
		if w.x.S.SetOption(mangos.OptionRecvDeadline, 50*time.Millisecond) != nil {
			return
		}
		w.x.PrepRecv()
		expect("Recv(deadline)", call("Recv-deadline", time.Second, func() error { _, err := w.x.Recv(); return err }), mangos.ErrRecvTimeout)
		_ = w.x.S.SetOption(mangos.OptionRecvDeadline, time.Hour)
	}},
	{"proto-state", func(w *world) bool { return w.k.NeedReq || w.k.NeedOut }, func(w *world) {
		if w.k.Raw {
			return
		}
		if w.k.NeedReq {
			expect("Send(no request)", call("Send-protostate", 0, func() error { return w.x.Send("x") }), mangos.ErrProtoState)
		} else {
			// (an earlier failure may have left a request outstanding: then this Recv legitimately waits,
			// so it is given a deadline and either outcome is a returned call)
			_ = w.x.S.SetOption(mangos.OptionRecvDeadline, 50*time.Millisecond)
			expect("Recv(nothing outstanding)", call("Recv-protostate", time.Second, func() error { _, err := w.x.Recv(); return err }), mangos.ErrProtoState, mangos.ErrRecvTimeout)
			_ = w.x.S.SetOption(mangos.OptionRecvDeadline, time.Hour)
		}
	}},
	{"unsupported-op", func(w *world) bool { return !w.k.CanSend || !w.k.CanRecv || !w.k.Ctx }, func(w *world) {
		if !w.k.CanSend {
			expect("Send(unsupported)", call("Send-protoop", 0, func() error { return w.x.Send("x") }), mangos.ErrProtoOp)
		}
		if !w.k.CanRecv {
			expect("Recv(unsupported)", call("Recv-protoop", 0, func() error { _, err := w.x.Recv(); return err }), mangos.ErrProtoOp)
		}
		if !w.k.Ctx {
			expect("OpenContext(unsupported)", call("OpenContext-protoop", 0, func() error { _, err := w.x.S.OpenContext(); return err }), mangos.ErrProtoOp)
		}
	}},
	{"bad-option", nil, func(w *world) {
		expect("SetOption(unknown)", call("SetOption-bad", 0, func() error { return w.x.S.SetOption("NO-SUCH-OPTION", 1) }), mangos.ErrBadOption)
		expect("GetOption(unknown)", call("GetOption-bad", 0, func() error { _, err := w.x.S.GetOption("NO-SUCH-OPTION"); return err }), mangos.ErrBadOption)
		expect("SetOption(bad value)", call("SetOption-badvalue", 0, func() error { return w.x.S.SetOption(mangos.OptionMaxRecvSize, "x") }), mangos.ErrBadValue)
	}},
	{"closed-context", func(w *world) bool { return w.k.Ctx }, func(w *world) {
		c, err := w.x.S.OpenContext()
		if err != nil {
			kit.Failf("opencontext", "OpenContext: %s", kit.ErrName(err))
		}
		_ = call("Context.Close", 0, c.Close)
		expect("Context.Close(again)", call("Context.Close2", 0, c.Close), mangos.ErrClosed)
		err = call("ctx.Send-closed", 0, func() error { return c.Send([]byte("x")) })
		if err != mangos.ErrClosed && err != mangos.ErrProtoOp && err != mangos.ErrProtoState {
			kit.Failf("unexpected-result:ctx.Send(closed)", "Send on a closed context returned %s", kit.ErrName(err))
		}
	}},
	{"closed-listener-and-dialer", nil, func(w *world) {
		l, err := w.x.S.NewListener("vt://c12-cl", nil)
		if err != nil {
			kit.Failf("newlistener", "NewListener: %s", kit.ErrName(err))
		}
		_ = call("Listener.Close", 0, l.Close)
		expect("Listen(closed listener)", call("Listen-closed", 0, l.Listen), mangos.ErrClosed)
		expect("Listener.Close(again)", call("Listener.Close2", 0, l.Close), mangos.ErrClosed)
		d, err := w.x.S.NewDialer("vt://c12-cd", nil)
		if err != nil {
			kit.Failf("newdialer", "NewDialer: %s", kit.ErrName(err))
		}
		_ = call("Dialer.Close", 0, d.Close)
		expect("Dial(closed dialer)", call("Dial-closed", 0, d.Dial), mangos.ErrClosed)
		expect("Dialer.Close(again)", call("Dialer.Close2", 0, d.Close), mangos.ErrClosed)
	}},
	{"tcp-peer-hangs-up-during-handshake", func(w *world) bool { return !vsched.Conformance }, func(w *world) {
		// the real transport/tcp + conn.go over the in-memory network: a peer connects to our
		// listener and closes (after 0, 3 or 8 header bytes); the listener must keep accepting
		w.n++
		addr := fmt.Sprintf("127.0.0.1:%d", 4100+w.n)
		if err := call("Listen(tcp)", 0, func() error { return w.x.S.Listen("tcp://" + addr) }); err != nil {
			kit.Failf("tcp-listen", "Listen(tcp over vnet): %s", kit.ErrName(err))
		}
		ep := net.VGet(addr)
		hdr := []byte{0, 'S', 'P', 0, byte(w.x.S.Info().Peer >> 8), byte(w.x.S.Info().Peer), 0, 0}
		for _, n := range []int{0, 3} {
			h := ep.Connect()
			h.Feed(hdr[:n])
			h.EOF()
			kit.Quiesce()
			kit.Sleep(2 * time.Second)
			kit.Quiesce()
			if !h.ClosedByMangos() {
				kit.Failf("aborted-handshake-not-closed", "a connection that ended after %d header bytes was left open", n)
			}
		}
		kit.Count("error-provoked")
		w.dropAllPeers()
		before := len(w.pipes)
		g := ep.Connect()
		g.Feed(hdr)
		kit.Quiesce()
		kit.Sleep(2 * time.Second)
		kit.Quiesce()
		if w.byAddr["tcp://"+addr] != 1 && !(w.single() && len(w.pipes) > before) {
			kit.Failf("listener-stopped-accepting:tcp", "%s: after two peers hung up during the handshake a well-behaved TCP peer does not attach any more", w.k.Name)
		}
		g.Reset()
		kit.Quiesce()
	}},
	{"tcp-dialer-peer-hangs-up-during-handshake", func(w *world) bool { return !vsched.Conformance }, func(w *world) {
		w.n++
		addr := fmt.Sprintf("127.0.0.1:%d", 4200+w.n)
		ep := net.VGet(addr)
		ep.HarnessListen(true)
		d, err := w.x.S.NewDialer("tcp://"+addr, map[string]interface{}{mangos.OptionDialAsynch: true, mangos.OptionReconnectTime: 10 * time.Millisecond})
		if err != nil {
			kit.Failf("newdialer-tcp", "NewDialer(tcp over vnet): %s", kit.ErrName(err))
		}
		if err := call("Dial(tcp,async)", 0, d.Dial); err != nil {
			kit.Failf("dial-tcp-async", "asynchronous Dial: %s", kit.ErrName(err))
		}
		kit.Quiesce()
		if len(ep.Dialed) != 1 {
			kit.Failf("dial-tcp-no-connection", "the dialer made %d connections", len(ep.Dialed))
		}
		ep.Dialed[0].EOF() // the server hangs up without sending its header
		kit.Quiesce()
		kit.Count("error-provoked")
		w.dropAllPeers()
		before := len(w.pipes)
		kit.Sleep(200 * time.Millisecond)
		kit.Quiesce()
		if len(ep.Dialed) < 2 {
			kit.Failf("dialer-stopped-redialling:tcp", "%s: the server hung up during the handshake and the dialer never tried again", w.k.Name)
		}
		hdr := []byte{0, 'S', 'P', 0, byte(w.x.S.Info().Peer >> 8), byte(w.x.S.Info().Peer), 0, 0}
		last := ep.Dialed[len(ep.Dialed)-1]
		last.Feed(hdr)
		kit.Quiesce()
		// (a single-peer pattern may have given its slot to another dialer of an earlier step meanwhile)
		if w.byAddr["tcp://"+addr] != 1 && !(w.single() && len(w.pipes) > before) {
			kit.Failf("dialer-stopped-redialling:tcp-attach", "%s: the redialled connection completed its handshake but did not attach", w.k.Name)
		}
		kit.Count("dialer-still-redials")
		_ = call("Dialer.Close", 0, d.Close)
		last.Reset()
		kit.Quiesce()
	}},
	{"dialed-pipe-refused-by-protocol", func(w *world) bool { return w.single() }, func(w *world) {
		// a one-peer pattern with its peer attached refuses the connections its own dialer makes;
		// the dialer has to keep trying and gets the slot once the peer has gone
		w.n++
		name := fmt.Sprintf("c12-ref%d", w.n)
		ep := vt.Get(name)
		ep.Script(vt.DialOK)
		w.dropAllPeers()
		w.x.P = w.x.EP.Connect()
		kit.Quiesce()
		d, err := w.x.S.NewDialer("vt://"+name, map[string]interface{}{mangos.OptionDialAsynch: true, mangos.OptionReconnectTime: 10 * time.Millisecond, mangos.OptionMaxReconnectTime: 10 * time.Millisecond})
		if err != nil {
			kit.Failf("newdialer", "NewDialer: %s", kit.ErrName(err))
		}
		if err := call("Dial(async)", 0, d.Dial); err != nil {
			kit.Failf("dial-async", "asynchronous Dial: %s", kit.ErrName(err))
		}
		kit.Quiesce()
		kit.Sleep(time.Second)
		kit.Quiesce()
		if w.byAddr["vt://"+name] == 0 {
			// (otherwise the slot happened to be free and the dialer simply got it)
			if ep.NumDials() < 2 {
				kit.Failf("dialer-stopped-redialling:protocol-refusal", "%s: the connection made by the dialer was refused by the protocol (a peer is attached) and the dialer made no further attempt in 1s (ReconnectTime 10ms)", w.k.Name)
			}
			kit.Count("error-provoked")
			before := len(w.pipes)
			w.dropAllPeers()
			kit.Sleep(time.Second)
			kit.Quiesce()
			if w.byAddr["vt://"+name] == 0 && len(w.pipes) == before {
				kit.Failf("dialer-stopped-redialling:protocol-refusal-takeover", "%s: the attached peer has gone, the dialer can connect, yet nothing is attached a second later (attempts: %d)", w.k.Name, ep.NumDials())
			}
			kit.Count("dialer-still-redials")
		}
		_ = call("Dialer.Close", 0, d.Close)
		w.dropAllPeers()
		w.x.P = w.x.EP.Connect()
		kit.Quiesce()
	}},
	{"tcp-peer-stalls-during-handshake", func(w *world) bool { return !vsched.Conformance }, func(w *world) {
		// connections that go silent 0 and 3 bytes into their header stay open; meanwhile the
		// listener must accept others, and go on doing so after the silent ones were lost
		w.n++
		addr := fmt.Sprintf("127.0.0.1:%d", 4400+w.n)
		if err := call("Listen(tcp)", 0, func() error { return w.x.S.Listen("tcp://" + addr) }); err != nil {
			kit.Failf("tcp-listen", "Listen(tcp over vnet): %s", kit.ErrName(err))
		}
		ep := net.VGet(addr)
		hdr := []byte{0, 'S', 'P', 0, byte(w.x.S.Info().Peer >> 8), byte(w.x.S.Info().Peer), 0, 0}
		var silent []*net.VConn
		for _, n := range []int{0, 3} {
			h := ep.Connect()
			h.Feed(hdr[:n])
			silent = append(silent, h)
		}
		kit.Quiesce()
		kit.Sleep(2 * time.Second)
		kit.Quiesce()
		kit.Count("error-provoked")
		for round := 0; round < 2; round++ {
			if w.single() {
				// free the only slot (a dialer left by an earlier step may have taken it meanwhile)
				vt.DropAll()
				kit.Quiesce()
			}
			before, had := len(w.pipes), w.byAddr["tcp://"+addr]
			g := ep.Connect()
			g.Feed(hdr)
			kit.Quiesce()
			kit.Sleep(2 * time.Second)
			kit.Quiesce()
			if w.byAddr["tcp://"+addr] != had+1 && !(w.single() && len(w.pipes) > before) {
				kit.Failf("listener-stopped-accepting:tcp-stalled", "%s: while two connections are silent in their handshake (round 0) / after they were lost (round 1) a well-behaved TCP peer does not attach (round %d)", w.k.Name, round)
			}
			g.Reset()
			kit.Quiesce()
			if round == 0 {
				for _, h := range silent {
					h.Reset()
				}
				kit.Quiesce()
				kit.Sleep(2 * time.Second)
				kit.Quiesce()
			}
		}
	}},
	{"dialer-closed-then-peer-drops", nil, func(w *world) {
		w.n++
		name := fmt.Sprintf("c12-cdd%d", w.n)
		ep := vt.Get(name)
		ep.Script(vt.DialOK)
		w.dropAllPeers()
		d, err := w.x.S.NewDialer("vt://"+name, map[string]interface{}{mangos.OptionReconnectTime: 10 * time.Millisecond})
		if err != nil {
			kit.Failf("newdialer", "NewDialer: %s", kit.ErrName(err))
		}
		if err := call("Dial", 0, d.Dial); err != nil {
			kit.Failf("dial", "Dial: %s", kit.ErrName(err))
		}
		_ = call("Dialer.Close", 0, d.Close)
		ep.PipeAt(0).DropNow()
		kit.Quiesce()
		kit.Sleep(time.Second)
		kit.Quiesce()
		if ep.NumDials() != 1 {
			kit.Failf("dial-after-close", "a closed dialer made %d further attempt(s) after its connection was lost", ep.NumDials()-1)
		}
		kit.Count("error-provoked")
		_ = call("Dialer.GetOption", 0, func() error { _, err := d.GetOption(mangos.OptionReconnectTime); return err })
		_ = call("Dialer.SetOption", 0, func() error { return d.SetOption(mangos.OptionReconnectTime, time.Second) })
		_ = call("Socket.SetOption(ReconnectTime)", 0, func() error { return w.x.S.SetOption(mangos.OptionReconnectTime, time.Second) })
		expect("Dialer.Close(again)", call("Dialer.Close2", 0, d.Close), mangos.ErrClosed)
	}},
	{"closed-pipe", nil, func(w *world) {
		if len(w.pipes) == 0 {
			return
		}
		p := w.pipes[len(w.pipes)-1]
		w.pipes = w.pipes[:len(w.pipes)-1]
		_ = call("Pipe.Close", 0, p.Close)
		_ = call("Pipe.Close2", 0, p.Close)
		kit.Count("error-provoked")
		kit.Quiesce()
		w.x.P = w.x.EP.Connect()
		kit.Quiesce()
	}},
}

// followups: every other API call must still complete.
func (w *world) followups() {
	s := w.x.S
	_ = call("GetOption", 0, func() error { _, err := s.GetOption(mangos.OptionRaw); return err })
	_ = call("SetOption", 0, func() error { return s.SetOption(mangos.OptionMaxRecvSize, 4096) })
	_ = call("SetPipeEventHook", 0, func() error { s.SetPipeEventHook(w.hook); return nil })
	_ = call("Info", 0, func() error { _ = s.Info(); return nil })
	if w.k.Ctx {
		_ = call("OpenContext", 0, func() error {
			c, err := s.OpenContext()
			if err == nil {
				_ = c.Close()
			}
			return err
		})
	}
	// the listener still accepts: a new peer attaches (patterns with a single peer first lose the old one)
	w.dropAllPeers()
	before := len(w.pipes)
	np := w.x.EP.Connect()
	kit.Quiesce()
	if len(w.pipes) != before+1 || np.ClosedByMangos() {
		kit.Failf("listener-stopped-accepting", "%s: a new connection did not attach after the failure (accept loop stuck?)", w.k.Name)
	}
	kit.Count("listener-still-accepts")
	w.x.P = np
	if w.k.CanRecv {
		_ = w.x.S.SetOption(mangos.OptionRecvDeadline, time.Hour)
		w.x.PrepRecv()
		if w.x.Feed("after-failure") {
			var got string
			err := call("Recv", time.Second, func() error { b, err := w.x.Recv(); got = b; return err })
			if err != nil || got != "after-failure" {
				kit.Failf("recv-after-failure:"+w.k.Name, "%s: Recv after the failure returned %s / %q", w.k.Name, kit.ErrName(err), got)
			}
		}
	}
	if w.k.CanSend {
		w.x.PrepSend()
		total := vt.TotalSent
		n := total()
		err := call("Send", time.Second, func() error { return w.x.Send("after-failure") })
		if err != nil {
			kit.Failf("send-after-failure:"+w.k.Name, "%s: Send after the failure returned %s", w.k.Name, kit.ErrName(err))
		}
		kit.Quiesce()
		if total() < n+1 {
			kit.Failf("send-after-failure-lost:"+w.k.Name, "%s: the message sent after the failure did not reach the peer", w.k.Name)
		}
	}
	if err := call("Dial", 0, func() error {
		vt.Get("c12-f-dial").Script(vt.DialOK)
		return s.Dial("vt://c12-f-dial")
	}); err != nil {
		kit.Failf("dial-after-failure", "Dial after the failure: %s", kit.ErrName(err))
	}
	if err := call("Listen", 0, func() error { return s.Listen("vt://c12-f-listen") }); err != nil {
		kit.Failf("listen-after-failure", "Listen after the failure: %s", kit.ErrName(err))
	}
	kit.Count("followup-completed")
}

func (w *world) hook(ev mangos.PipeEvent, p mangos.Pipe) {
	if ev == mangos.PipeEventAttached && w.closeAttached {
		w.closeAttached = false
		w.pipes = append(w.pipes, p)
		_ = p.Close()
		return
	}
	if ev == mangos.PipeEventAttaching && w.close {
		w.close = false
		_ = p.Close()
		return
	}
	if ev == mangos.PipeEventAttached {
		w.pipes = append(w.pipes, p)
		if w.byAddr == nil {
			w.byAddr = map[string]int{}
		}
		w.byAddr[p.Address()]++
	}
}

func errorThen(depth int) {
	k := kinds.All[kit.ChooseFree(len(kinds.All))]
	w := &world{k: k}
	s, err := k.New()
	if err != nil {
		kit.Failf("setup", "NewSocket: %v", err)
	}
	s.SetPipeEventHook(w.hook)
	w.x = &kinds.Sock{K: k, S: s, EP: vt.Get("c12")}
	if err := s.Listen("vt://c12"); err != nil {
		kit.Failf("setup", "Listen: %s", kit.ErrName(err))
	}
	w.x.P = w.x.EP.Connect()
	kit.Quiesce()
	for d := 0; d < depth; d++ {
		f := failures[kit.ChooseFree(len(failures))]
		kit.Observe("%s:%s", k.Name, f.name)
		kit.Tracef("failure %s", f.name)
		if f.ok != nil && !f.ok(w) {
			return
		}
		f.run(w)
		kit.Quiesce()
	}
	w.followups()
	kit.Must("Close", func() { _ = s.Close() })
}

// transportErrors: configuration errors of the real transport wrappers (error paths only:
// nothing here reaches a real accept loop), each followed by every option call, a retry and Close.
func transportErrors() {
	type tcase struct {
		name   string
		addr   string
		listen bool
		opts   map[string]interface{}
		want   []error
		anyErr bool
	}
	emptyTLS := &tls.Config{}
	cases := []tcase{
		{name: "tls-listen-no-config", addr: "tls+tcp://127.0.0.1:0", listen: true, want: []error{mangos.ErrTLSNoConfig}},
		{name: "tls-listen-no-cert", addr: "tls+tcp://127.0.0.1:0", listen: true, opts: map[string]interface{}{mangos.OptionTLSConfig: emptyTLS}, want: []error{mangos.ErrTLSNoCert}},
		{name: "wss-listen-no-config", addr: "wss://127.0.0.1:0/x", listen: true, want: []error{mangos.ErrTLSNoConfig}},
		{name: "wss-listen-no-cert", addr: "wss://127.0.0.1:0/x", listen: true, opts: map[string]interface{}{mangos.OptionTLSConfig: emptyTLS}, want: []error{mangos.ErrTLSNoCert}},
		{name: "ws-listen-bad-port", addr: "ws://127.0.0.1:99999/x", listen: true, anyErr: true},
		{name: "ipc-listen-no-dir", addr: "ipc:///nonexistent-dir-c12/sock", listen: true, anyErr: true},
		{name: "tcp-dial-bad-port", addr: "tcp://127.0.0.1:99999", anyErr: true},
		{name: "tls-dial-bad-port", addr: "tls+tcp://127.0.0.1:99999", anyErr: true},
		{name: "ipc-dial-no-file", addr: "ipc:///nonexistent-dir-c12/sock", anyErr: true},
	}
	tc := cases[kit.ChooseFree(len(cases))]
	s, err := kinds.ByName("pair").New()
	if err != nil {
		kit.Failf("setup", "NewSocket: %v", err)
	}
	kit.Observe("%s", tc.name)
	var obj interface {
		SetOption(string, interface{}) error
		GetOption(string) (interface{}, error)
		Close() error
	}
	var op func() error
	if tc.listen {
		l, err := s.NewListener(tc.addr, tc.opts)
		if err != nil {
			if tc.anyErr {
				kit.Count("followup-completed")
				return
			}
			kit.Failf("transport-newlistener:"+tc.name, "NewListener(%s): %s", tc.addr, kit.ErrName(err))
		}
		obj, op = l, l.Listen
	} else {
		d, err := s.NewDialer(tc.addr, tc.opts)
		if err != nil {
			if tc.anyErr {
				kit.Count("followup-completed")
				return
			}
			kit.Failf("transport-newdialer:"+tc.name, "NewDialer(%s): %s", tc.addr, kit.ErrName(err))
		}
		obj, op = d, d.Dial
	}
	err = call(tc.name, 0, op)
	if err == nil {
		kit.Failf("transport-error-expected:"+tc.name, "%s succeeded, expected a configuration error", tc.name)
	}
	if !tc.anyErr {
		expect(tc.name, err, tc.want...)
		kit.Count("tls-no-config")
	}
	// every other call on the same object completes
	followups := []struct {
		n string
		f func() error
	}{
		{"SetOption(TLSConfig)", func() error { return obj.SetOption(mangos.OptionTLSConfig, emptyTLS) }},
		{"SetOption(MaxRecvSize)", func() error { return obj.SetOption(mangos.OptionMaxRecvSize, 1024) }},
		{"SetOption(NoDelay)", func() error { return obj.SetOption(mangos.OptionNoDelay, true) }},
		{"SetOption(unknown)", func() error { return obj.SetOption("NO-SUCH", 1) }},
		{"GetOption(MaxRecvSize)", func() error { _, err := obj.GetOption(mangos.OptionMaxRecvSize); return err }},
		{"GetOption(TLSConfig)", func() error { _, err := obj.GetOption(mangos.OptionTLSConfig); return err }},
		{"retry", op},
		{"Close", obj.Close},
	}
	f1 := kit.ChooseFree(len(followups))
	_ = call(tc.name+"+"+followups[f1].n, 0, followups[f1].f)
	_ = call(tc.name+"+Close", 0, obj.Close)
	// the socket is still fine
	if err := call("Listen(vt)", 0, func() error { return s.Listen("vt://c12-t") }); err != nil {
		kit.Failf("socket-after-transport-error", "Listen on another transport after the failure: %s", kit.ErrName(err))
	}
	_ = call("Socket.Close", 0, s.Close)
	kit.Count("followup-completed")
}

// dropAllPeers: patterns that take a single peer lose the ones they have, so that the next
// connection can attach.
func (w *world) single() bool {
	return w.k.Name == "pair" || w.k.Name == "xpair" || w.k.Name == "pair1" || w.k.Name == "xpair1"
}

func (w *world) dropAllPeers() {
	if !w.single() {
		return
	}
	vt.DropAll()
	net.VResetAll()
	kit.Quiesce()
}
