// Package c19 holds the scheduler-side part of property C19: option values that were accepted
// take effect - here the receive limit changed on a listener / dialer / socket at every point of
// the endpoint's life, on the real stream pipes over the in-memory network.  (The option grid
// itself is enumerated by engine E on the unmodified code.)
package c19

import (
	"encoding/binary"
	"fmt"
	"time"

	"go.nanomsg.org/mangos/v3"
	"go.nanomsg.org/mangos/v3/protocol/pull"
	"go.nanomsg.org/mangos/v3/protocol/sub"
	"go.nanomsg.org/mangos/v3/vh/vt"
	_ "go.nanomsg.org/mangos/v3/transport/tcp"
	"go.nanomsg.org/mangos/v3/vh/c14"
	"go.nanomsg.org/mangos/v3/vh/c18"
	"go.nanomsg.org/mangos/v3/vh/kinds"
	"go.nanomsg.org/mangos/v3/vh/kit"
	"go.nanomsg.org/mangos/v3/vh/ledger"
	_ "go.nanomsg.org/mangos/v3/vh/vipc"
	"go.nanomsg.org/mangos/v3/vh/vnet"
	"go.nanomsg.org/mangos/v3/vz/vexplore"
	"go.nanomsg.org/mangos/v3/vz/vsched"
)

func init() {
	// C08: a BUS / STAR member that is behind (queue full, a message waiting for room) sets an
	// unrelated option: every message already carried to it is still delivered, its peers stay
	vexplore.Register("C08", func(tier string) []*vexplore.Scenario {
		return []*vexplore.Scenario{
			{Name: "options-set-by-a-member-that-is-behind", Mode: "enum", Reset: kit.ResetGlobals, Body: OtherOptionsParked,
				NeedCounters: []string{"option-set-with-a-message-waiting-for-room"}},
		}
	})
	// C14: the reconnect options (and asynchronous dialing) set on the socket after a dialer was
	// created are the dialer's: it answers them and paces its attempts by them
	vexplore.Register("C14", func(tier string) []*vexplore.Scenario {
		return []*vexplore.Scenario{
			{Name: "reconnect-options-set-on-the-socket-reach-existing-dialers", Mode: "enum", Reset: kit.ResetGlobals, Body: sockOptsExisting,
				NeedCounters: []string{"passed-on-to-existing-dialer"}},
		}
	})
}

func init() {
	vexplore.Register("C19", func(tier string) []*vexplore.Scenario {
		return []*vexplore.Scenario{
			{Name: "maxrecvsize-takes-effect", Mode: "enum", Reset: kit.ResetGlobals, Body: maxRecv,
				NeedCounters: []string{"limit-enforced", "in-limit-delivered", "limit-lifted", "unrelated-options-in-the-map"}},
			{Name: "reconnect-time-set-on-a-running-dialer-takes-effect", Mode: "enum", Reset: kit.ResetGlobals, Body: c14.ReconnectTimeTakesEffect, NeedCounters: []string{"new-reconnect-time-in-effect-after-the-next-attach"}},
			{Name: "fail-no-peers-switched-off-takes-effect", Mode: "sched", Bound: 1, Reset: kit.ResetGlobals, Body: c18.FailNoPeersOff},
			{Name: "reconnect-options-changed-mid-run-hist-D3", Mode: "hist", Reset: kit.ResetGlobals, Cfg: vsched.Config{RandFree: true}, Body: func() { c14.HistTune(3, true, 1) }},
			{Name: "best-effort-beside-a-send-deadline", Mode: "enum", Reset: kit.ResetGlobals, Body: c18.BestEffortModes,
				NeedCounters: []string{"best-effort-returned-at-once"}},
			{Name: "reconnect-options-in-effect-hist-D4", Mode: "hist", Reset: kit.ResetGlobals, Cfg: vsched.Config{RandFree: true}, Body: func() { c14.Hist(4, kit.ChooseFree(2) == 1) },
				NeedCounters: []string{"redial-after-refusal", "delay-capped", "delay-grew"}},
			{Name: "readqlen-changed-while-a-connection-waits-for-room", Mode: "sched", Bound: map[string]int{"quick": 2, "thorough": 3}[tier], Reset: kit.ResetGlobals, Body: qlenParked,
				NeedCounters: []string{"resized-with-a-message-waiting-for-room", "received-after-resize"}},
			{Name: "unsupported-option-on-an-endpoint-beside-a-socket-option", Mode: "sched", Bound: map[string]int{"quick": 2, "thorough": 3}[tier], Reset: kit.ResetGlobals, Body: unsupportedBesideSocketOption},
			{Name: "unsupported-operations-have-no-side-effect", Mode: "enum", Reset: kit.ResetGlobals, Body: unsupportedNoSideEffect,
				NeedCounters: []string{"refused-send-left-the-message-with-the-caller", "refused-recv-returned-at-once"}},
			{Name: "other-options-set-while-a-connection-waits-for-room", Mode: "enum", Reset: kit.ResetGlobals, Body: OtherOptionsParked,
				NeedCounters: []string{"option-set-with-a-message-waiting-for-room"}},
			{Name: "socket-options-reach-existing-dialers", Mode: "enum", Reset: kit.ResetGlobals, Body: sockOptsExisting,
				NeedCounters: []string{"passed-on-to-existing-dialer"}},
			{Name: "surveyor-readqlen-per-context", Mode: "enum", Reset: kit.ResetGlobals, Body: surveyorQLen,
				NeedCounters: []string{"responses-kept-up-to-qlen"}},
			{Name: "sub-readqlen-stays-in-effect", Mode: "enum", Reset: kit.ResetGlobals, Body: subQLen,
				NeedCounters: []string{"overflowed-to-exactly-qlen", "reconfigured-with-a-full-queue", "context-length-differs-from-the-socket's"}},
		}
	})
}

func frame(scheme string, n int) []byte {
	b := make([]byte, 8, 9+n)
	binary.BigEndian.PutUint64(b, uint64(n))
	if scheme == "vipc" {
		b = append([]byte{1}, b...)
	}
	for i := 0; i < n; i++ {
		b = append(b, byte('a'+i%26))
	}
	return b
}

// maxRecv: the limit is set through {socket before the endpoint exists, endpoint before start,
// endpoint after start, socket after start}, to a value in {64, 0 (= unlimited, after a limit)};
// the next connection must obey the value that was accepted last, and Get must report it.
func MaxRecv() { maxRecv() }

func maxRecv() {
	scheme := []string{"tcp", "vipc"}[kit.ChooseFree(2)]
	role := []string{"listener", "dialer"}[kit.ChooseFree(2)]
	when := []string{"socket-before", "endpoint-before-start", "endpoint-after-start", "socket-after-start", "endpoint-options-map", "socket-again-with-its-present-value"}[kit.ChooseFree(6)]
	lift := kit.ChooseFree(2) == 1
	// other options passed in the map the endpoint is created with (they have nothing to do with the limit)
	extra := kit.ChooseFree(2) == 1
	s, err := pull.NewSocket()
	if err != nil {
		kit.Failf("setup", "NewSocket: %v", err)
	}
	attached := 0
	s.SetPipeEventHook(func(ev mangos.PipeEvent, p mangos.Pipe) {
		if ev == mangos.PipeEventAttached {
			attached++
		}
	})
	addr := "127.0.0.1:4500"
	ep := net.VGet(addr)
	limit := 64
	first := limit
	if lift {
		// a limit first, lifted afterwards by an accepted zero
		first = 32
		limit = 0
	}
	set := func(o interface{ SetOption(string, interface{}) error }, v int, what string) {
		if err := o.SetOption(mangos.OptionMaxRecvSize, v); err != nil {
			kit.Failf("maxrecvsize-set:"+what, "%s: SetOption(MaxRecvSize,%d) via %s: %s", scheme, v, what, kit.ErrName(err))
		}
	}
	if when == "socket-again-with-its-present-value" {
		// the socket holds the limit from the start; the endpoint is then given a value of its own;
		// finally the socket is set to the value it already has: accepted, and - like every
		// socket-level setting - passed on to its endpoints
		if lift {
			limit = 0
		}
		set(s, limit, "socket")
	} else if lift || when == "socket-before" || when == "endpoint-options-map" {
		// (with the map: the socket has another value, the one in the map is the endpoint's)
		set(s, first, "socket")
	}
	if when == "endpoint-options-map" && !lift {
		set(s, 32, "socket")
	}
	emap := map[string]interface{}{}
	if when == "endpoint-options-map" {
		emap[mangos.OptionMaxRecvSize] = limit
	}
	var obj interface {
		SetOption(string, interface{}) error
		GetOption(string) (interface{}, error)
	}
	start := func() {}
	if role == "listener" {
		if extra && scheme == "tcp" {
			emap[mangos.OptionNoDelay] = true
			kit.Count("unrelated-options-in-the-map")
		}
		l, err := s.NewListener(scheme+"://"+addr, emap)
		if err != nil {
			kit.Failf("setup", "NewListener: %s", kit.ErrName(err))
		}
		obj = l
		start = func() {
			if err := l.Listen(); err != nil {
				kit.Failf("setup", "Listen: %s", kit.ErrName(err))
			}
		}
	} else {
		ep.HarnessListen(true)
		emap[mangos.OptionDialAsynch] = true
		emap[mangos.OptionReconnectTime] = 10 * time.Millisecond
		if extra {
			emap[mangos.OptionMaxReconnectTime] = 10 * time.Millisecond
			kit.Count("unrelated-options-in-the-map")
		}
		d, err := s.NewDialer(scheme+"://"+addr, emap)
		if err != nil {
			kit.Failf("setup", "NewDialer: %s", kit.ErrName(err))
		}
		obj = d
		start = func() {
			if err := d.Dial(); err != nil {
				kit.Failf("setup", "Dial: %s", kit.ErrName(err))
			}
		}
	}
	switch when {
	case "socket-before":
		if lift {
			set(s, limit, "socket")
		}
		start()
	case "endpoint-before-start":
		set(obj, limit, role)
		start()
	case "endpoint-options-map":
		start()
	case "endpoint-after-start":
		start()
		kit.Quiesce()
		set(obj, limit, role)
	case "socket-after-start":
		start()
		kit.Quiesce()
		set(s, limit, "socket")
	case "socket-again-with-its-present-value":
		start()
		kit.Quiesce()
		set(obj, 24, role)
		set(s, limit, "socket")
		kit.Count("socket-set-to-its-present-value")
	}
	if when == "socket-before" && !lift {
		// inherited from the socket
	}
	if v, err := obj.GetOption(mangos.OptionMaxRecvSize); err != nil || v.(int) != limit {
		kit.Failf("maxrecvsize-get:"+role, "%s %s: the %s reports MaxRecvSize %v (%s) after %d was accepted via %s", scheme, role, role, v, kit.ErrName(err), limit, when)
	}
	hdr := []byte{0, 'S', 'P', 0, byte(s.Info().Peer >> 8), byte(s.Info().Peer), 0, 0}
	// a connection made from now on obeys the limit
	connect := func() *net.VConn {
		var h *net.VConn
		if role == "listener" {
			h = ep.Connect()
		} else {
			// the dialer's first connection may already exist (made before the option changed): drop
			// it and take the next one, which is made with the current value
			kit.Quiesce()
			for _, c := range ep.Dialed {
				if !c.ClosedByMangos() {
					c.Reset()
				}
			}
			n := len(ep.Dialed)
			kit.Sleep(100 * time.Millisecond)
			kit.Quiesce()
			if len(ep.Dialed) <= n {
				kit.Failf("setup", "the dialer did not reconnect")
			}
			h = ep.Dialed[len(ep.Dialed)-1]
		}
		before := attached
		h.Feed(hdr)
		kit.Quiesce()
		kit.Sleep(2 * time.Second)
		kit.Quiesce()
		if attached != before+1 {
			kit.Failf("setup", "connection did not attach")
		}
		return h
	}
	recv := func() *kit.Call {
		c := kit.Start("Recv", func() (interface{}, error) { b, err := s.Recv(); return len(b), err })
		kit.Quiesce()
		return c
	}
	if limit > 0 {
		h := connect()
		h.Feed(frame(scheme, limit+1))
		kit.Quiesce()
		c := recv()
		if c.Done() {
			kit.Failf("maxrecvsize-not-enforced:"+role+":"+when, "%s: MaxRecvSize %d was accepted via %s, yet a %d byte message was delivered on a connection made afterwards (Recv: %v %s)", scheme, limit, when, limit+1, c.Val, kit.ErrName(c.Err))
		}
		if !h.ClosedByMangos() {
			kit.Failf("maxrecvsize-not-enforced:"+role+":"+when, "%s: MaxRecvSize %d accepted via %s: the connection that announced %d bytes was not dropped", scheme, limit, when, limit+1)
		}
		kit.Count("limit-enforced")
		h2 := connect()
		h2.Feed(frame(scheme, limit))
		kit.Quiesce()
		if !c.Done() || c.Err != nil || c.Val.(int) != limit {
			kit.Failf("maxrecvsize-in-limit-dropped:"+role+":"+when, "%s: a message of exactly the limit (%d) was not delivered: done=%v %s", scheme, limit, c.Done(), kit.ErrName(c.Err))
		}
		kit.Count("in-limit-delivered")
	} else {
		h := connect()
		h.Feed(frame(scheme, first+1000))
		kit.Quiesce()
		c := recv()
		if !c.Done() || c.Err != nil || c.Val.(int) != first+1000 {
			kit.Failf("maxrecvsize-zero-not-unlimited:"+role+":"+when, "%s: MaxRecvSize 0 was accepted via %s after a limit of %d, but a %d byte message was not delivered on a connection made afterwards: done=%v %s", scheme, when, first, first+1000, c.Done(), kit.ErrName(c.Err))
		}
		kit.Count("limit-lifted")
	}
	kit.Observe("%s %s %s lift=%v", scheme, role, when, lift)
	kit.Must("Close", func() { _ = s.Close() })
}

var _ = fmt.Sprint


// subQLen: the receive queue length accepted by a SUB socket / context stays the length of the
// queue in use whatever happens to the subscriptions afterwards.  The length is set to q (below and
// above the default of 128), topics "a" and "b" are subscribed, 0 or q matching messages arrive,
// one reconfiguration follows (nothing, Unsubscribe "b", Subscribe "c", the same length again,
// Unsubscribe + Subscribe "b"), then q+3 further messages arrive and nobody receives meanwhile:
// every call returns, GetOption still answers q, and exactly the newest q messages are there.
// qlenParked: the receive queue (one message long) is full and further messages from the same
// connection are waiting for room when ReadQLen is set again (same value, 2 or 4): the call
// returns, the connection is still there - changing a queue length never disconnects a peer - and
// once the application has taken what was queued, a message the peer sends next is received.
func qlenParked() { QlenParked(true) }

// QlenParked with detach=false is run under C17 with the ownership ledger on (what waited for room
// while the queue was replaced is delivered once and owned by the application alone); the
// disconnect clause is C19's.
func QlenParked(detach bool) {
	var ks []*kinds.Kind
	for _, k := range kinds.All {
		if k.CanRecv {
			ks = append(ks, k)
		}
	}
	k := ks[kit.ChooseFree(len(ks))]
	nl := []int{4, 1, 2}[kit.ChooseFree(3)]
	x := k.Open("c19p", false, false)
	x.Quiet()
	if err := x.S.SetOption(mangos.OptionReadQLen, 1); err != nil {
		if err == mangos.ErrBadOption {
			return
		}
		kit.Failf("qlen-refused", "%s: SetOption(ReadQLen,1): %s", k.Name, kit.ErrName(err))
	}
	detached := 0
	x.S.SetPipeEventHook(func(ev mangos.PipeEvent, _ mangos.Pipe) {
		if ev == mangos.PipeEventDetached {
			detached++
		}
	})
	x.P = x.EP.Connect()
	kit.Quiesce()
	x.PrepRecv()
	for i := 0; i < 3; i++ {
		x.Feed(fmt.Sprintf("queued-%d", i))
		kit.Quiesce()
	}
	c := kit.Start("SetOption", func() (interface{}, error) { return nil, x.S.SetOption(mangos.OptionReadQLen, nl) })
	kit.Quiesce()
	if !c.Done() || c.Err != nil {
		kit.Failf("qlen-reconf-hang:"+k.Name+":READQ-LEN", "%s: ReadQLen 1, three messages arrived (none received), SetOption(ReadQLen,%d): done=%v %s", k.Name, nl, c.Done(), kit.ErrName(c.Err))
	}
	if detach && (detached > 0 || x.P.ClosedByMangos()) {
		kit.Failf("qlen-detach:"+k.Name+":READQ-LEN", "%s: ReadQLen 1, three messages arrived on one connection (none received yet), then SetOption(ReadQLen,%d): the connection was closed (Detached fired %d time(s))", k.Name, nl, detached)
	}
	kit.Count("resized-with-a-message-waiting-for-room")
	if k.Name != "req" && k.Name != "surveyor" && !x.P.ClosedByMangos() {
		seenQ := map[string]bool{}
		for i := 0; i < 5; i++ {
			d := kit.Start("drain", func() (interface{}, error) { return x.Recv() })
			kit.Quiesce()
			if d.Done() && d.Err == nil {
				// what is delivered is something the peer sent, each message at most once (the order
				// across a resize and losses at a resize are nobody's promise)
				v := d.Val.(string)
				if (v != "queued-0" && v != "queued-1" && v != "queued-2") || seenQ[v] {
					kit.Failf("qlen-wrong-messages:"+k.Name, "%s: ReadQLen 1, messages queued-0..2 arrived, SetOption(ReadQLen,%d), then Recv returned %q (delivered before: %v)", k.Name, nl, clipS(v), seenQ)
				}
				seenQ[v] = true
			}
			if !d.Done() {
				// nothing more queued: this Recv takes the next message
				x.Feed("after-the-resize")
				kit.Quiesce()
				if !d.Done() || d.Err != nil || d.Val.(string) != "after-the-resize" {
					kit.Failf("qlen-stuck:"+k.Name+":READQ-LEN", "%s: after SetOption(ReadQLen,%d) with messages waiting and the queue drained, the peer sent one more message: Recv done=%v %s %q", k.Name, nl, d.Done(), kit.ErrName(d.Err), d.Val)
				}
				kit.Count("received-after-resize")
				break
			}
		}
	}
	kit.Observe("%s %d", k.Name, nl)
	kit.Must("Close", func() { _ = x.S.Close() })
}

// OtherOptionsParked: the receive queue (length 1) is full and the connection's receiver waits for
// room with another message in hand when an option that has nothing to do with the queue is set -
// a deadline, the send queue length, the hop limit, a mode (every value the socket accepts).  No
// peer is disconnected, nothing that waited is lost or duplicated, traffic continues.
func OtherOptionsParked() {
	var ks []*kinds.Kind
	for _, k := range kinds.All {
		if k.CanRecv {
			ks = append(ks, k)
		}
	}
	k := ks[kit.ChooseFree(len(ks))]
	type ov struct {
		name string
		val  interface{}
	}
	opts := []ov{{mangos.OptionRecvDeadline, time.Hour}, {mangos.OptionSendDeadline, time.Hour}, {mangos.OptionWriteQLen, 5}, {mangos.OptionTTL, 5},
		{mangos.OptionBestEffort, false}, {mangos.OptionRetryTime, time.Minute}, {mangos.OptionSurveyTime, time.Hour}, {mangos.OptionMaxRecvSize, 1 << 20}, {mangos.OptionFailNoPeers, false}}
	o := opts[kit.ChooseFree(len(opts))]
	x := k.Open("c19o", false, false)
	x.Quiet()
	if err := x.S.SetOption(mangos.OptionReadQLen, 1); err != nil {
		return
	}
	detached := 0
	x.S.SetPipeEventHook(func(ev mangos.PipeEvent, _ mangos.Pipe) {
		if ev == mangos.PipeEventDetached {
			detached++
		}
	})
	x.P = x.EP.Connect()
	kit.Quiesce()
	x.PrepRecv()
	for i := 0; i < 3; i++ {
		x.Feed(fmt.Sprintf("queued-%d", i))
		kit.Quiesce()
	}
	// reference: the same history without the option call decides how many of the three come out
	// (patterns that drop on overflow keep fewer); here only safety is judged
	c := kit.Start("SetOption", func() (interface{}, error) { return nil, x.S.SetOption(o.name, o.val) })
	kit.Quiesce()
	if !c.Done() {
		kit.Failf("option-call-blocked:"+k.Name+":"+o.name, "%s: ReadQLen 1, three messages arrived (none received), SetOption(%s,%v) did not return", k.Name, o.name, o.val)
	}
	if c.Err != nil {
		return // not an option of this pattern (or not this value)
	}
	if detached > 0 || x.P.ClosedByMangos() {
		kit.Failf("option-detach:"+k.Name+":"+o.name, "%s: ReadQLen 1, three messages arrived on one connection (none received yet), then SetOption(%s,%v): the connection was closed (Detached fired %d time(s)) - setting an option never disconnects a peer", k.Name, o.name, o.val, detached)
	}
	kit.Count("option-set-with-a-message-waiting-for-room")
	if k.Name != "req" && k.Name != "surveyor" {
		last := -1
		for i := 0; i < 5; i++ {
			d := kit.Start("drain", func() (interface{}, error) { return x.Recv() })
			kit.Quiesce()
			if d.Done() && d.Err == nil {
				v := d.Val.(string)
				n := -1
				_, _ = fmt.Sscanf(v, "queued-%d", &n)
				if n <= last || n > 2 {
					kit.Failf("option-wrong-messages:"+k.Name+":"+o.name, "%s: messages queued-0..2 arrived (queue of one), SetOption(%s), then Recv returned %q after queued-%d", k.Name, o.name, clipS(v), last)
				}
				last = n
			}
			if !d.Done() {
				x.Feed("after-the-option")
				kit.Quiesce()
				if !d.Done() || d.Err != nil || d.Val.(string) != "after-the-option" {
					kit.Failf("option-stuck:"+k.Name+":"+o.name, "%s: after SetOption(%s) with messages waiting and the queue drained, the peer sent one more message: Recv done=%v %s %q", k.Name, o.name, d.Done(), kit.ErrName(d.Err), d.Val)
				}
				break
			}
		}
		if detached > 0 || x.P.ClosedByMangos() {
			kit.Failf("option-detach:"+k.Name+":"+o.name, "%s: the connection was closed after SetOption(%s,%v) while draining", k.Name, o.name, o.val)
		}
	}
	kit.Observe("%s %s", k.Name, o.name)
	kit.Must("Close", func() { _ = x.S.Close() })
}

// unsupportedBesideSocketOption: one thread asks a dialer or listener for (or sets) an option
// nobody supports while another sets a socket option that is passed down to every dialer and
// listener.  Under every interleaving the first call returns ErrBadOption, the second succeeds and
// GetOption then answers the value set - on the socket and on the endpoint.
func unsupportedBesideSocketOption() {
	onDialer := kit.ChooseFree(2) == 0
	set := kit.ChooseFree(2) == 1
	type so struct {
		name string
		val  interface{}
	}
	o := []so{{mangos.OptionReconnectTime, 70 * time.Millisecond}, {mangos.OptionMaxReconnectTime, 3 * time.Second},
		{mangos.OptionDialAsynch, true}, {mangos.OptionMaxRecvSize, 4096}}[kit.ChooseFree(4)]
	s, err := pull.NewSocket()
	if err != nil {
		kit.Failf("setup", "NewSocket: %v", err)
	}
	vt.Get("c19u-d").Script(vt.DialOK)
	d, err := s.NewDialer("vt://c19u-d", nil)
	if err != nil {
		kit.Failf("setup", "NewDialer: %s", kit.ErrName(err))
	}
	l, err := s.NewListener("vt://c19u-l", nil)
	if err != nil {
		kit.Failf("setup", "NewListener: %s", kit.ErrName(err))
	}
	var ep interface {
		SetOption(string, interface{}) error
		GetOption(string) (interface{}, error)
	} = l
	who := "listener"
	if onDialer {
		ep, who = d, "dialer"
	}
	a := kit.Start("endpoint-call", func() (interface{}, error) {
		if set {
			return nil, ep.SetOption("NO-SUCH-OPTION", 1)
		}
		_, err := ep.GetOption("NO-SUCH-OPTION")
		return nil, err
	})
	b := kit.Start("socket-call", func() (interface{}, error) { return nil, s.SetOption(o.name, o.val) })
	kit.Quiesce()
	if !a.Done() || !b.Done() {
		kit.Failf("option-hang:"+who, "%s option call with an unsupported name (set=%v) beside Socket.SetOption(%s): endpoint call done=%v, socket call done=%v", who, set, o.name, a.Done(), b.Done())
	}
	if a.Err != mangos.ErrBadOption {
		kit.Failf("unsupported-not-badoption:"+who, "%s: unsupported option name: %s, want ErrBadOption", who, kit.ErrName(a.Err))
	}
	if b.Err != nil {
		kit.Failf("option-refused:"+o.name, "Socket.SetOption(%s,%v): %s", o.name, o.val, kit.ErrName(b.Err))
	}
	if v, err := s.GetOption(o.name); err != nil || v != o.val {
		kit.Failf("get-after-set:socket:"+o.name, "socket: %s set to %v, GetOption answers %v (%s)", o.name, o.val, v, kit.ErrName(err))
	}
	if onDialer || o.name == mangos.OptionMaxRecvSize {
		if v, err := ep.GetOption(o.name); err != nil || v != o.val {
			kit.Failf("get-after-set:"+who+":"+o.name, "%s: the socket's %s was set to %v, the existing %s answers %v (%s)", who, o.name, o.val, who, v, kit.ErrName(err))
		}
	}
	kit.Observe("%s %v %s", who, set, o.name)
	kit.Must("Close", func() { _ = s.Close() })
}

func clipS(v string) string {
	if len(v) > 24 {
		return v[:24] + "..."
	}
	return v
}

func SubQLen() { subQLen() }

func subQLen() {
	q := []int{1, 2, 4, 200}[kit.ChooseFree(4)]
	mode := kit.ChooseFree(3) // socket; context inheriting the socket's length; context with a length of its own
	onCtx := mode > 0
	pre := []int{0, q}[kit.ChooseFree(2)]
	op := kit.ChooseFree(5)
	s, err := sub.NewSocket()
	if err != nil {
		kit.Failf("setup", "NewSocket: %v", err)
	}
	ep := vt.Get("c19q")
	if err := s.Listen("vt://c19q"); err != nil {
		kit.Failf("setup", "Listen: %s", kit.ErrName(err))
	}
	p := ep.Connect()
	kit.Quiesce()
	set := s.SetOption
	get := s.GetOption
	recv := func() ([]byte, error) { return kit.Recv(s) }
	who := "sub"
	if onCtx {
		// the length is set on the socket first: the context inherits it - or (mode 2) the socket
		// has another length and the context is given its own
		sq := q
		if mode == 2 {
			sq = q + 2
		}
		if err := s.SetOption(mangos.OptionReadQLen, sq); err != nil {
			kit.Failf("qlen-refused", "SetOption(ReadQLen,%d): %s", sq, kit.ErrName(err))
		}
		c, err := s.OpenContext()
		if err != nil {
			kit.Failf("setup", "OpenContext: %s", kit.ErrName(err))
		}
		if mode == 2 {
			if err := c.SetOption(mangos.OptionReadQLen, q); err != nil {
				kit.Failf("qlen-refused", "context SetOption(ReadQLen,%d): %s", q, kit.ErrName(err))
			}
			kit.Count("context-length-differs-from-the-socket's")
		}
		set, get = c.SetOption, c.GetOption
		recv = func() ([]byte, error) { return kit.Recv(c) }
		who = "sub.ctx"
	} else if err := set(mangos.OptionReadQLen, q); err != nil {
		kit.Failf("qlen-refused", "SetOption(ReadQLen,%d): %s", q, kit.ErrName(err))
	}
	call := func(what string, f func() error) {
		c := kit.Start(what, func() (interface{}, error) { return nil, f() })
		kit.Quiesce()
		if !c.Done() {
			kit.Failf("qlen-reconf-hang:"+who+":"+what, "%s with ReadQLen %d and %d message(s) queued: %s did not return", who, q, pre, what)
		}
		if c.Err != nil {
			kit.Failf("qlen-reconf-error:"+who+":"+what, "%s: %s returned %s", who, what, kit.ErrName(c.Err))
		}
	}
	call("Subscribe(a)", func() error { return set(mangos.OptionSubscribe, "a") })
	call("Subscribe(b)", func() error { return set(mangos.OptionSubscribe, "b") })
	n := 0
	feed := func(k int) {
		for i := 0; i < k; i++ {
			n++
			p.Deliver([]byte(fmt.Sprintf("a%04d", n)))
			kit.Quiesce()
		}
	}
	feed(pre)
	if pre > 0 {
		kit.Count("reconfigured-with-a-full-queue")
	}
	opName := []string{"nothing", "Unsubscribe(b)", "Subscribe(c)", "SetOption(ReadQLen) again", "Unsubscribe(b)+Subscribe(b)"}[op]
	switch op {
	case 1:
		call("Unsubscribe(b)", func() error { return set(mangos.OptionUnsubscribe, "b") })
	case 2:
		call("Subscribe(c)", func() error { return set(mangos.OptionSubscribe, "c") })
	case 3:
		call("SetOption(ReadQLen)", func() error { return set(mangos.OptionReadQLen, q) })
	case 4:
		call("Unsubscribe(b)", func() error { return set(mangos.OptionUnsubscribe, "b") })
		call("Subscribe(b)", func() error { return set(mangos.OptionSubscribe, "b") })
	}
	if v, err := get(mangos.OptionReadQLen); err != nil || v != q {
		kit.Failf("get-after-set:"+who+":READQ-LEN", "%s: ReadQLen was set to %d, after %s GetOption answers %v (%s)", who, q, opName, v, kit.ErrName(err))
	}
	feed(q + 3)
	var got []string
	for {
		c := kit.Start("Recv", func() (interface{}, error) { b, err := recv(); return string(b), err })
		kit.Quiesce()
		if !c.Done() {
			break
		}
		if c.Err != nil {
			kit.Failf("qlen-recv", "Recv: %s", kit.ErrName(c.Err))
		}
		got = append(got, c.Val.(string))
		if len(got) > n+1 {
			break
		}
	}
	if len(got) != q {
		kit.Failf("qlen-not-in-effect:"+who+":"+opName, "%s: ReadQLen %d (GetOption agrees), %d message(s) queued, then %s, then %d more arrived with nobody receiving: %d message(s) were kept (first %q)", who, q, pre, opName, q+3, len(got), first(got))
	}
	for i, g := range got {
		if want := fmt.Sprintf("a%04d", n-q+1+i); g != want {
			kit.Failf("qlen-wrong-messages:"+who+":"+opName, "%s: message %d of the %d kept is %q, the newest %d are wanted (%q)", who, i, len(got), g, q, want)
		}
	}
	kit.Count("overflowed-to-exactly-qlen")
	kit.Observe("%s q=%d pre=%d %s", who, q, pre, opName)
	kit.Must("Close", func() { _ = s.Close() })
}

func first(l []string) string {
	if len(l) == 0 {
		return ""
	}
	return l[0]
}


// sockOptsExisting: the dialing options set on a socket (DialAsynch, ReconnectTime,
// MaxReconnectTime) are passed on to the dialers the socket already has, not only inherited by
// later ones: the dialer reports the new value and behaves accordingly (an asynchronous Dial to a
// refusing address returns without error and keeps trying; attempts are at least the new
// ReconnectTime apart).
// unsupportedNoSideEffect: sending on a receive-only pattern (SUB, PULL and their raw forms) through
// SendMsg or Send, receiving on a send-only one (PUB, PUSH), opening a context where there are
// none: the designated error at once and nothing else - the message handed to the refused SendMsg
// is still the caller's (one owner, not released, bytes intact; the caller frees it afterwards
// without that being a second release), nothing is transmitted, and the socket works as before.
func unsupportedNoSideEffect() {
	k := kinds.All[kit.ChooseFree(len(kinds.All))]
	if k.CanSend && k.CanRecv && k.Ctx {
		return
	}
	ledger.Install()
	x := k.Open("c19un", true, false)
	x.Quiet()
	if !k.CanSend {
		body := "not-for-sending-" + k.Name
		m := mangos.NewMessage(len(body))
		m.Body = append(m.Body, body...)
		m.Header = append(m.Header, 0x80, 0, 0, 1)
		c := kit.Start("SendMsg", func() (interface{}, error) { return nil, x.S.SendMsg(m) })
		kit.Quiesce()
		if !c.Done() || c.Err != mangos.ErrProtoOp {
			kit.Failf("unsupported-op-result:"+k.Name+".SendMsg", "%s: SendMsg done=%v %s, want ErrProtoOp at once", k.Name, c.Done(), kit.ErrName(c.Err))
		}
		if ledger.Released(m) || ledger.Owned(m) != 1 {
			kit.Failf("unsupported-op-side-effect:"+k.Name+".SendMsg", "%s: SendMsg was refused with ErrProtoOp, yet the caller's message has been released by the library (owners %d)", k.Name, ledger.Owned(m))
		}
		if string(m.Body) != body {
			kit.Failf("unsupported-op-side-effect:"+k.Name+".SendMsg", "%s: SendMsg was refused with ErrProtoOp, the caller's message body changed to %q", k.Name, m.Body)
		}
		// other messages of the class come and go; the caller's is still intact, then released once
		for i := 0; i < 3; i++ {
			o := mangos.NewMessage(len(body))
			o.Body = append(o.Body, "################################"[:len(body)%32]...)
			o.Free()
		}
		if string(m.Body) != body {
			kit.Failf("unsupported-op-side-effect:"+k.Name+".SendMsg", "%s: after a refused SendMsg the caller's message was overwritten by later allocations: %q", k.Name, m.Body)
		}
		m.Free()
		c2 := kit.Start("Send", func() (interface{}, error) { return nil, x.S.Send([]byte(body)) })
		kit.Quiesce()
		if !c2.Done() || c2.Err != mangos.ErrProtoOp {
			kit.Failf("unsupported-op-result:"+k.Name+".Send", "%s: Send done=%v %s, want ErrProtoOp at once", k.Name, c2.Done(), kit.ErrName(c2.Err))
		}
		if n := x.P.NumSent(); n != 0 {
			kit.Failf("unsupported-op-side-effect:"+k.Name+".Send", "%s: refused sends put %d message(s) on the wire", k.Name, n)
		}
		kit.Count("refused-send-left-the-message-with-the-caller")
	}
	if !k.CanRecv {
		c := kit.Start("RecvMsg", func() (interface{}, error) { return x.S.RecvMsg() })
		kit.Quiesce()
		if !c.Done() || c.Err != mangos.ErrProtoOp {
			kit.Failf("unsupported-op-result:"+k.Name+".RecvMsg", "%s: RecvMsg done=%v %s, want ErrProtoOp at once", k.Name, c.Done(), kit.ErrName(c.Err))
		}
		kit.Count("refused-recv-returned-at-once")
	}
	if !k.Ctx {
		if cx, err := x.S.OpenContext(); err != mangos.ErrProtoOp || cx != nil {
			kit.Failf("unsupported-op-result:"+k.Name+".OpenContext", "%s: OpenContext returned %v / %s, want nil / ErrProtoOp", k.Name, cx, kit.ErrName(err))
		}
	}
	// the socket still does what it can
	if k.CanRecv {
		x.PrepRecv()
		if x.Feed("after-refusal") {
			c := kit.Start("Recv", func() (interface{}, error) { return x.Recv() })
			kit.Quiesce()
			if !c.Done() || c.Err != nil || c.Val.(string) != "after-refusal" {
				kit.Failf("unsupported-op-side-effect:"+k.Name, "%s: after the refused operations Recv: done=%v %s %q", k.Name, c.Done(), kit.ErrName(c.Err), c.Val)
			}
		}
	}
	if k.CanSend {
		x.PrepSend()
		c := kit.Start("Send", func() (interface{}, error) { return nil, x.Send("after-refusal") })
		kit.Quiesce()
		if !c.Done() || c.Err != nil {
			kit.Failf("unsupported-op-side-effect:"+k.Name, "%s: after the refused operations Send: done=%v %s", k.Name, c.Done(), kit.ErrName(c.Err))
		}
	}
	kit.Observe("%s", k.Name)
	kit.Must("Close", func() { _ = x.S.Close() })
	kit.Quiesce()
}

func sockOptsExisting() {
	opt := []string{mangos.OptionDialAsynch, mangos.OptionReconnectTime, mangos.OptionMaxReconnectTime}[kit.ChooseFree(3)]
	k := kinds.ByName([]string{"pair", "xpub", "req"}[kit.ChooseFree(3)])
	s, err := k.New()
	if err != nil {
		kit.Failf("setup", "NewSocket: %v", err)
	}
	ep := vt.Get("c19d")
	ep.Script(vt.DialRefused)
	d, err := s.NewDialer("vt://c19d", nil)
	if err != nil {
		kit.Failf("setup", "NewDialer: %s", kit.ErrName(err))
	}
	var val interface{}
	switch opt {
	case mangos.OptionDialAsynch:
		val = true
	case mangos.OptionReconnectTime:
		val = 300 * time.Millisecond
	default:
		val = 7 * time.Second
	}
	if err := s.SetOption(opt, val); err != nil {
		kit.Failf("option-refused", "Socket.SetOption(%s,%v): %s", opt, val, kit.ErrName(err))
	}
	if g, err := d.GetOption(opt); err != nil || g != val {
		kit.Failf("socket-option-not-passed-to-dialer:"+opt, "%s: the socket has a dialer; Socket.SetOption(%s,%v) was accepted, the dialer's GetOption answers %v (%s)", k.Name, opt, val, g, kit.ErrName(err))
	}
	kit.Count("passed-on-to-existing-dialer")
	if opt != mangos.OptionDialAsynch {
		_ = d.SetOption(mangos.OptionDialAsynch, true)
	}
	dc := kit.Start("Dial", func() (interface{}, error) { return nil, d.Dial() })
	kit.Quiesce()
	if !dc.Done() || dc.Err != nil {
		kit.Failf("dial-not-asynchronous:"+opt, "%s: the dialer is asynchronous (option %s set via the socket: %v), nobody listens: Dial done=%v %s, want nil at once", k.Name, opt, opt == mangos.OptionDialAsynch, dc.Done(), kit.ErrName(dc.Err))
	}
	kit.Sleep(2 * time.Second)
	kit.Quiesce()
	if ep.NumDials() < 2 {
		kit.Failf("dialer-gave-up", "%s: asynchronous dialer, refusing address: %d attempt(s) in 2s", k.Name, ep.NumDials())
	}
	if opt == mangos.OptionReconnectTime {
		for i := 1; i < len(ep.Dials); i++ {
			if gap := ep.Dials[i].At - ep.Dials[i-1].At; gap < 300*time.Millisecond {
				kit.Failf("reconnect-time-not-in-effect", "%s: ReconnectTime 300ms set via the socket after the dialer existed: attempts %d and %d are %v apart", k.Name, i-1, i, gap)
			}
		}
	}
	kit.Observe("%s %s dials=%d", k.Name, opt, ep.NumDials())
	kit.Must("Close", func() { _ = s.Close() })
}


// surveyorQLen: the receive queue length of a SURVEYOR socket and of an opened context are set to
// different values (either may be the smaller one); each then runs a survey that is answered by
// more responses than its queue holds while nobody receives.  GetOption answers what was set, and
// each of them keeps exactly as many responses as its own length says - not the other's.
func surveyorQLen() {
	qs := [][2]int{{2, 5}, {5, 2}, {1, 3}}[kit.ChooseFree(3)] // {socket, context}
	onCtx := kit.ChooseFree(2) == 1
	k := kinds.ByName("surveyor")
	x := k.Open("c19sq", true, false)
	x.Quiet()
	if err := x.S.SetOption(mangos.OptionReadQLen, qs[0]); err != nil {
		kit.Failf("qlen-refused", "Socket.SetOption(ReadQLen,%d): %s", qs[0], kit.ErrName(err))
	}
	c, err := x.S.OpenContext()
	if err != nil {
		kit.Failf("setup", "OpenContext: %s", kit.ErrName(err))
	}
	if err := c.SetOption(mangos.OptionReadQLen, qs[1]); err != nil {
		kit.Failf("qlen-refused", "Context.SetOption(ReadQLen,%d): %s", qs[1], kit.ErrName(err))
	}
	if v, err := x.S.GetOption(mangos.OptionReadQLen); err != nil || v != qs[0] {
		kit.Failf("get-after-set:surveyor:READQ-LEN", "socket ReadQLen set to %d, GetOption answers %v (%s) after the context's was set to %d", qs[0], v, kit.ErrName(err), qs[1])
	}
	if v, err := c.GetOption(mangos.OptionReadQLen); err != nil || v != qs[1] {
		kit.Failf("get-after-set:surveyor.ctx:READQ-LEN", "context ReadQLen set to %d, GetOption answers %v (%s)", qs[1], v, kit.ErrName(err))
	}
	q, who := qs[0], "surveyor"
	recv := func() (string, error) { return x.Recv() }
	if onCtx {
		x.Ctx = c
		q, who = qs[1], "surveyor.ctx"
		recv = func() (string, error) { b, err := kit.Recv(c); return string(b), err }
	}
	x.PrepRecv() // starts the survey
	n := 7
	for i := 0; i < n; i++ {
		if !x.Feed(fmt.Sprintf("response-%d", i)) {
			kit.Failf("setup", "cannot build a response")
		}
		kit.Quiesce()
	}
	var got []string
	for {
		rc := kit.Start("Recv", func() (interface{}, error) { return recv() })
		kit.Quiesce()
		if !rc.Done() {
			break
		}
		if rc.Err != nil {
			kit.Failf("qlen-recv", "%s: Recv: %s", who, kit.ErrName(rc.Err))
		}
		got = append(got, rc.Val.(string))
		if len(got) > n {
			break
		}
	}
	if len(got) != q {
		kit.Failf("qlen-not-in-effect:"+who, "%s: ReadQLen %d (socket %d, context %d; GetOption agrees), %d responses arrived with nobody receiving: %d were kept (%q)", who, q, qs[0], qs[1], n, len(got), got)
	}
	kit.Count("responses-kept-up-to-qlen")
	kit.Observe("%v %s", qs, who)
	kit.Must("Close", func() { _ = x.S.Close() })
}
