// Command vh is the model-checking harness binary (engine S).
package main

import (
	_ "go.nanomsg.org/mangos/v3/vh/c02"
	_ "go.nanomsg.org/mangos/v3/vh/cblk"
	_ "go.nanomsg.org/mangos/v3/vh/c03"
	_ "go.nanomsg.org/mangos/v3/vh/c04"
	_ "go.nanomsg.org/mangos/v3/vh/c05"
	_ "go.nanomsg.org/mangos/v3/vh/c06"
	_ "go.nanomsg.org/mangos/v3/vh/c07"
	_ "go.nanomsg.org/mangos/v3/vh/c08"
	_ "go.nanomsg.org/mangos/v3/vh/c09"
	_ "go.nanomsg.org/mangos/v3/vh/c10"
	_ "go.nanomsg.org/mangos/v3/vh/c11"
	_ "go.nanomsg.org/mangos/v3/vh/c12"
	_ "go.nanomsg.org/mangos/v3/vh/c13"
	_ "go.nanomsg.org/mangos/v3/vh/c14"
	_ "go.nanomsg.org/mangos/v3/vh/c16"
	_ "go.nanomsg.org/mangos/v3/vh/c17"
	_ "go.nanomsg.org/mangos/v3/vh/c18"
	_ "go.nanomsg.org/mangos/v3/vh/c19"
	"go.nanomsg.org/mangos/v3/vz/vexplore"
)

func main() { vexplore.Main() }
