// Package c04 checks property C04: REQ re-sends an unanswered request until a peer answers.
package c04

import (
	"encoding/binary"
	"fmt"
	"sort"
	"time"

	"go.nanomsg.org/mangos/v3"
	"go.nanomsg.org/mangos/v3/protocol/req"
	"go.nanomsg.org/mangos/v3/vh/c16"
	"go.nanomsg.org/mangos/v3/vh/kit"
	"go.nanomsg.org/mangos/v3/vh/vt"
	"go.nanomsg.org/mangos/v3/vz/vexplore"
	"go.nanomsg.org/mangos/v3/vz/vsched"
)

func init() {
	// C03: with peers that are slow to take what they are given (a request handed to a connection
	// is not yet written when its context sends again), every frame on the wire still belongs to
	// one request - its id and bytes never change after the fact - and Recv returns the reply to
	// the current request or nothing
	vexplore.Register("C03", func(tier string) []*vexplore.Scenario {
		d := map[string]int{"quick": 5, "thorough": 6}[tier]
		return []*vexplore.Scenario{
			{Name: fmt.Sprintf("req-slow-peer-hist-D%d", d), Mode: "hist", Reset: kit.ResetGlobals, Body: func() { SlowPeerHist(d) }},
		}
	})
}

func init() {
	// C19: an accepted RetryTime takes effect as documented (zero: no retries) whenever it is set
	vexplore.Register("C19", func(tier string) []*vexplore.Scenario {
		return []*vexplore.Scenario{{Name: "retry-time-set-with-a-request-outstanding-hist-D4", Mode: "hist", Reset: kit.ResetGlobals, Body: func() { histRetune(4, 10*time.Second) },
			NeedCounters: []string{"retry-time-changed-with-a-request-outstanding"}}}
	})
}

func init() {
	vexplore.Register("C04", func(tier string) []*vexplore.Scenario {
		d := 5
		if tier == "thorough" {
			d = 6
		}
		return []*vexplore.Scenario{
			{Name: fmt.Sprintf("req-retry-hist-R10s-D%d", d), Mode: "hist", Reset: kit.ResetGlobals, Body: func() { hist(d, 10*time.Second) },
				NeedCounters: []string{"retx-timer", "retx-carrier-lost", "retx-deferred", "no-retx-after-reply", "no-retx-after-cancel"}},
			{Name: fmt.Sprintf("req-retry-hist-R0-D%d", d), Mode: "hist", Reset: kit.ResetGlobals, Body: func() { hist(d, 0) },
				NeedCounters: []string{"cancel-on-loss"}},
			{Name: fmt.Sprintf("req-retry-context-opened-later-hist-D%d", d-1), Mode: "hist", Reset: kit.ResetGlobals, Body: func() { histOpt(d-1, 10*time.Second, true) },
				NeedCounters: []string{"context-opened-while-a-request-is-outstanding", "retx-carrier-lost", "retx-timer"}},
			{Name: fmt.Sprintf("req-retry-with-a-receive-deadline-hist-D%d", d), Mode: "hist", Reset: kit.ResetGlobals, Body: func() { histRecvDeadline(d, 10*time.Second) },
				NeedCounters: []string{"request-given-up-at-the-receive-deadline", "retx-carrier-lost", "no-retx-after-reply"}},
			{Name: fmt.Sprintf("req-retry-time-changed-hist-D%d", d), Mode: "hist", Reset: kit.ResetGlobals, Body: func() { histRetune(d, 10*time.Second) },
				NeedCounters: []string{"retry-time-changed-with-a-request-outstanding", "retx-timer", "retx-carrier-lost", "cancel-on-loss"}},
			{Name: fmt.Sprintf("req-slow-peer-hist-D%d", d), Mode: "hist", Reset: kit.ResetGlobals, Body: func() { SlowPeerHist(d) }},
			{Name: "req-newcomer-while-every-peer-is-busy", Mode: "enum", Reset: kit.ResetGlobals, Body: newcomerWhileBusy, NeedCounters: []string{"waiting-request-went-to-the-newcomer"}},
			{Name: "stream-write-fails-then-retransmission", Mode: "enum", Reset: kit.ResetGlobals, Body: c16.WriteFailsThenRetransmit, NeedCounters: []string{"retransmitted-intact"}},
			{Name: "req-retry-sched-timer-vs-reply", Mode: "sched", Bound: map[string]int{"quick": 1, "thorough": 2}[tier], Reset: kit.ResetGlobals,
				Cfg: cfgEarly(), Body: schedTimerVsReply},
		}
	})
}

type tx struct {
	at   time.Duration
	pipe int
}

type request struct {
	id      uint32
	payload string
	txs     []tx
	used    map[time.Duration]bool // timer slots already consumed
	owed    bool                   // a (re)transmission is waiting for a pipe
	drops   int                    // carrier losses not yet answered by a retransmission
	vals    []time.Duration        // retry intervals in force on the context since the latest transmission (nil: the world's)
	done    bool                   // answered, cancelled or closed: must never be transmitted again
	why     string
	sentAt  time.Duration
}

type mctx struct {
	R      time.Duration // the context's own retry interval (retry-time-changed histories)
	name   string
	c      mangos.Context
	s      mangos.Socket
	cur    *request
	old    []*request
	recv   *kit.Call
	recvAt time.Duration
	answer string
	hasAns bool
	closed bool
}

func (m *mctx) send(b []byte) error {
	if m.c != nil {
		return kit.SendBytes(m.c, b)
	}
	return kit.SendBytes(m.s, b)
}

func (m *mctx) recvCall() ([]byte, error) {
	if m.c != nil {
		return kit.Recv(m.c)
	}
	return kit.Recv(m.s)
}

type world struct {
	retune int  // >0: that many more RetryTime changes may be made by events of the history
	retuned bool
	late  bool // a further context may be opened by an event of the history
	R     time.Duration
	sock  mangos.Socket
	ep    *vt.Endpoint
	pipes []*vt.Pipe
	seen  []int
	ctxs  []*mctx
	nreq  int
}

var sendDeadline time.Duration
var failNoPeers bool
var recvDL time.Duration // receive deadline on socket and context (0: none)

func setup(R time.Duration, npipes int) *world {
	w := &world{R: R}
	s, err := req.NewSocket()
	if err != nil {
		kit.Failf("setup", "NewSocket: %v", err)
	}
	w.sock = s
	if err := s.SetOption(mangos.OptionRetryTime, R); err != nil {
		kit.Failf("setup", "SetOption(RetryTime): %v", err)
	}
	if sendDeadline > 0 {
		if err := s.SetOption(mangos.OptionSendDeadline, sendDeadline); err != nil {
			kit.Failf("setup", "SetOption(SendDeadline): %v", err)
		}
	}
	w.ep = vt.Get("req")
	if err := s.Listen("vt://req"); err != nil {
		kit.Failf("setup", "Listen: %v", err)
	}
	for i := 0; i < npipes; i++ {
		w.connect()
	}
	kit.Quiesce()
	w.ctxs = append(w.ctxs, &mctx{name: "sock", s: s})
	c, err := s.OpenContext()
	if err != nil {
		kit.Failf("setup", "OpenContext: %v", err)
	}
	if v, err := c.GetOption(mangos.OptionRetryTime); err != nil || v.(time.Duration) != R {
		kit.Failf("ctx-inherit-retrytime", "new context reports RetryTime %v (%v), socket has %v", v, err, R)
	}
	if sendDeadline > 0 {
		if err := c.SetOption(mangos.OptionSendDeadline, sendDeadline); err != nil {
			kit.Failf("setup", "ctx.SetOption(SendDeadline): %v", err)
		}
	}
	if recvDL > 0 {
		if err := s.SetOption(mangos.OptionRecvDeadline, recvDL); err != nil {
			kit.Failf("setup", "SetOption(RecvDeadline): %v", err)
		}
		if err := c.SetOption(mangos.OptionRecvDeadline, recvDL); err != nil {
			kit.Failf("setup", "ctx.SetOption(RecvDeadline): %v", err)
		}
	}
	if failNoPeers {
		if err := s.SetOption(mangos.OptionFailNoPeers, true); err != nil {
			kit.Failf("setup", "SetOption(FailNoPeers): %v", err)
		}
		if err := c.SetOption(mangos.OptionFailNoPeers, true); err != nil {
			kit.Failf("setup", "ctx.SetOption(FailNoPeers): %v", err)
		}
		kit.Count("fail-no-peers-set")
	}
	w.ctxs = append(w.ctxs, &mctx{name: "ctx1", c: c, s: s})
	return w
}

func (w *world) connect() {
	w.pipes = append(w.pipes, w.ep.Connect())
	w.seen = append(w.seen, 0)
}

func (w *world) alive() int {
	n := 0
	for _, p := range w.pipes {
		if p.Alive() {
			n++
		}
	}
	return n
}

type wireMsg struct {
	vt.Sent
	pipe int
}

func (w *world) newWire() []wireMsg {
	var out []wireMsg
	for i, p := range w.pipes {
		l := p.SentLog()
		for _, s := range l[w.seen[i]:] {
			out = append(out, wireMsg{s, i})
		}
		w.seen[i] = len(l)
	}
	sort.SliceStable(out, func(i, j int) bool { return out[i].At < out[j].At })
	return out
}

func (w *world) findReq(id uint32) (*mctx, *request) {
	for _, m := range w.ctxs {
		if m.cur != nil && m.cur.id == id {
			return m, m.cur
		}
		for _, r := range m.old {
			if r.id == id {
				return m, r
			}
		}
	}
	return nil, nil
}

// window: the retry intervals that were in force on the request's context at some time since the
// request's latest transmission.  A timer-driven retransmission is never due before the smallest
// positive one has elapsed and is certainly due once the largest has (if retries were on throughout).
func (w *world) window(r *request) (min, max time.Duration, off bool) {
	vals := r.vals
	if vals == nil {
		vals = []time.Duration{w.R}
	}
	for _, v := range vals {
		if v == 0 {
			off = true
			continue
		}
		if min == 0 || v < min {
			min = v
		}
		if v > max {
			max = v
		}
	}
	return
}

func (w *world) ctxR(m *mctx) time.Duration {
	if w.retuned {
		return m.R
	}
	return w.R
}

// account validates every transmission that appeared since the last call.
func (w *world) account() {
	for _, sm := range w.newWire() {
		if len(sm.Data) < 4 {
			kit.Failf("tx-short", "transmitted message shorter than a request id: %x", sm.Data)
		}
		id := binary.BigEndian.Uint32(sm.Data)
		m, r := w.findReq(id)
		if r == nil {
			// must be the first transmission of a request whose Send is being settled: handled by doSend
			kit.Failf("tx-unknown-id", "transmission with unknown request id %08x: %x", id, sm.Data)
		}
		if string(sm.Data[4:]) != r.payload {
			kit.Failf("tx-bytes-differ", "%s: retransmission of %08x carries %q, the original request was %q", m.name, id, sm.Data[4:], r.payload)
		}
		if recvDL > 0 && m.recv != nil && m.cur == r && !m.hasAns && sm.At > m.recvAt+recvDL {
			kit.Failf("tx-after-timed-out", "%s: request %08x was transmitted at %v on pipe %d although its Recv (started %v, deadline %v) had given it up by then", m.name, id, sm.At, sm.pipe, m.recvAt, recvDL)
		}
		if r.done {
			kit.Failf("tx-after-"+r.why, "%s: request %08x was transmitted again at %v on pipe %d after it was %s", m.name, id, sm.At, sm.pipe, r.why)
		}
		// justification
		switch {
		case len(r.txs) == 0 && sm.At == r.sentAt:
			// first transmission
		case r.owed:
			r.owed = false
			kit.Count("retx-deferred")
		case r.drops > 0:
			r.drops--
			kit.Count("retx-carrier-lost")
		default:
			ok := false
			if minR, _, _ := w.window(r); minR > 0 && len(r.txs) > 0 {
				last := r.txs[len(r.txs)-1].at
				ok = sm.At >= last+minR
			}
			if !ok {
				kit.Failf("tx-too-soon", "%s: request %08x re-sent at %v on pipe %d although less than the retry interval (%v) has elapsed since its previous transmission %v and its connection was not lost", m.name, id, sm.At, sm.pipe, w.R, r.txs)
			}
			kit.Count("retx-timer")
		}
		r.txs = append(r.txs, tx{sm.At, sm.pipe})
		if w.retuned {
			r.vals = []time.Duration{m.R}
		}
	}
}

func (w *world) retire(m *mctx, why string) {
	if m.cur != nil {
		m.cur.done = true
		m.cur.why = why
		m.old = append(m.old, m.cur)
		m.cur = nil
	}
}

func (w *world) events() []kit.Event {
	var evs []kit.Event
	for _, m := range w.ctxs {
		m := m
		if !m.closed {
			if w.alive() > 0 {
				evs = append(evs, kit.Event{Name: "send:" + m.name, Run: func() { w.doSend(m) }})
			}
			if m.recv == nil {
				evs = append(evs, kit.Event{Name: "recv:" + m.name, Run: func() { w.doRecv(m) }})
			}
		}
		if m.cur != nil && len(m.cur.txs) > 0 {
			// a second copy of the answer to this context's previous, answered request turns up
			// (that request had been transmitted twice): it concerns nobody any more
			for i := len(m.old) - 1; i >= 0; i-- {
				o := m.old[i]
				if o.why == "answered" && len(o.txs) > 0 && w.pipes[m.cur.txs[len(m.cur.txs)-1].pipe].Alive() {
					pi := m.cur.txs[len(m.cur.txs)-1].pipe
					evs = append(evs, kit.Event{Name: "late-duplicate-answer:" + m.name, Run: func() {
						b := make([]byte, 4)
						binary.BigEndian.PutUint32(b, o.id)
						w.pipes[pi].Deliver(append(b, "late-duplicate"...))
						kit.Count("late-duplicate-answer-ignored")
					}})
					break
				}
			}
			last := m.cur.txs[len(m.cur.txs)-1]
			if w.pipes[last.pipe].Alive() {
				evs = append(evs, kit.Event{Name: "reply:" + m.name, Run: func() { w.doReply(m, last.pipe) }})
				if !(failNoPeers && w.alive() == 1) {
					evs = append(evs, kit.Event{Name: "drop-carrier:" + m.name, Run: func() { w.doDrop(last.pipe) }})
				}
			}
		}
	}
	// drop a pipe that carries nothing
	for i, p := range w.pipes {
		i := i
		if !p.Alive() {
			continue
		}
		carries := false
		for _, m := range w.ctxs {
			if m.cur != nil && len(m.cur.txs) > 0 && m.cur.txs[len(m.cur.txs)-1].pipe == i {
				carries = true
			}
		}
		if !carries && !(failNoPeers && w.alive() == 1) {
			evs = append(evs, kit.Event{Name: "drop-idle", Run: func() { w.doDrop(i) }})
			break
		}
	}
	if len(w.pipes) < 4 {
		evs = append(evs, kit.Event{Name: "connect", Run: func() { w.connect() }})
	}
	if w.R > 0 {
		evs = append(evs, kit.Event{Name: "advance:R", Run: func() { kit.Sleep(w.R) }})
		evs = append(evs, kit.Event{Name: "advance:R/2", Run: func() { kit.Sleep(w.R / 2) }})
	}
	for _, c := range w.ctxs[1:] {
		c := c
		if c.closed {
			continue
		}
		evs = append(evs, kit.Event{Name: "close:" + c.name, Run: func() {
			kit.Must("Context.Close", func() { _ = c.c.Close() })
			c.closed = true
			w.retire(c, "closed")
		}})
	}
	if w.retune > 0 {
		for _, m := range w.ctxs {
			m := m
			if m.closed {
				continue
			}
			for _, v := range []time.Duration{0, w.R / 2, w.R} {
				v := v
				if v == m.R {
					continue
				}
				evs = append(evs, kit.Event{Name: fmt.Sprintf("retry-time:%s:%v", m.name, v), Run: func() {
					w.retune--
					var err error
					kit.Must("SetOption(RetryTime)", func() {
						if m.c != nil {
							err = m.c.SetOption(mangos.OptionRetryTime, v)
						} else {
							err = m.s.SetOption(mangos.OptionRetryTime, v)
						}
					})
					if err != nil {
						kit.Failf("retry-time-refused", "%s: SetOption(RetryTime, %v): %s", m.name, v, kit.ErrName(err))
					}
					m.R = v
					if m.cur != nil {
						if m.cur.vals == nil {
							m.cur.vals = []time.Duration{}
						}
						m.cur.vals = append(m.cur.vals, v)
						kit.Count("retry-time-changed-with-a-request-outstanding")
					}
					var got interface{}
					if m.c != nil {
						got, err = m.c.GetOption(mangos.OptionRetryTime)
					} else {
						got, err = m.s.GetOption(mangos.OptionRetryTime)
					}
					if err != nil || got.(time.Duration) != v {
						kit.Failf("retry-time-get", "%s: RetryTime reads %v (%s) after %v was set", m.name, got, kit.ErrName(err), v)
					}
				}})
			}
		}
	}
	if w.late && len(w.ctxs) < 3 {
		evs = append(evs, kit.Event{Name: "open-context", Run: func() {
			cx, err := w.sock.OpenContext()
			if err != nil {
				kit.Failf("open-context", "OpenContext: %s", kit.ErrName(err))
			}
			for _, m := range w.ctxs {
				if m.cur != nil {
					kit.Count("context-opened-while-a-request-is-outstanding")
				}
			}
			w.ctxs = append(w.ctxs, &mctx{name: "late", c: cx, s: w.sock})
		}})
	}
	return evs
}

func (w *world) doSend(m *mctx) {
	w.nreq++
	payload := fmt.Sprintf("q%d:%s", w.nreq, m.name)
	if m.cur != nil {
		kit.Count("send-cancels-outstanding")
	}
	w.retire(m, "cancelled")
	m.hasAns = false
	// the id is only known once it is on the wire; learn it from the first transmission or keep waiting
	r := &request{payload: payload, used: map[time.Duration]bool{}, sentAt: kit.Now()}
	before := w.alive()
	c := kit.Start("Send:"+m.name, func() (interface{}, error) { return nil, m.send([]byte(payload)) })
	kit.Quiesce()
	if m.recv != nil {
		if !m.recv.Done() || m.recv.Err != mangos.ErrCanceled {
			kit.Failf("recv-not-canceled", "%s: Recv of the abandoned request: done=%v %s, want ErrCanceled", m.name, m.recv.Done(), kit.ErrName(m.recv.Err))
		}
		m.recv = nil
	}
	if before == 0 {
		// nobody to send to: Send legitimately blocks (no deadline).  The context is busy; treat as closed for the rest of the history.
		if c.Done() {
			kit.Failf("send-returned-without-peer", "%s: Send returned %s although no peer is connected", m.name, kit.ErrName(c.Err))
		}
		m.closed = true
		kit.Count("send-blocked-no-peer")
		return
	}
	if !c.Done() || c.Err != nil {
		kit.Failf("send-blocked", "%s: Send done=%v err=%s although %d peer(s) are connected and idle", m.name, c.Done(), kit.ErrName(c.Err), before)
	}
	// find the first transmission
	var mine []wireMsg
	var rest []wireMsg
	for _, sm := range w.peekWire() {
		if len(sm.Data) >= 4 && string(sm.Data[4:]) == payload {
			mine = append(mine, sm)
		} else {
			rest = append(rest, sm)
		}
	}
	if len(mine) != 1 {
		kit.Failf("send-wire-count", "%s: Send produced %d transmissions of the request, want exactly one (one connection per transmission)", m.name, len(mine))
	}
	r.id = binary.BigEndian.Uint32(mine[0].Data)
	if r.id&0x80000000 == 0 {
		kit.Failf("send-id-bit", "request id %08x lacks the request bit", r.id)
	}
	m.cur = r
	w.account()
}

// peekWire looks at unseen wire messages without consuming them.
func (w *world) peekWire() []wireMsg {
	var out []wireMsg
	for i, p := range w.pipes {
		l := p.SentLog()
		for _, s := range l[w.seen[i]:] {
			out = append(out, wireMsg{s, i})
		}
	}
	return out
}

func (w *world) doRecv(m *mctx) {
	m.recvAt = kit.Now()
	m.recv = kit.Start("Recv:"+m.name, func() (interface{}, error) {
		b, err := m.recvCall()
		return string(b), err
	})
}

func (w *world) doReply(m *mctx, pipe int) {
	body := fmt.Sprintf("reply-to-%08x", m.cur.id)
	b := make([]byte, 4)
	binary.BigEndian.PutUint32(b, m.cur.id)
	w.pipes[pipe].Deliver(append(b, body...))
	m.answer, m.hasAns = body, true
	w.retire(m, "answered")
	kit.Count("no-retx-after-reply")
}

func (w *world) doDrop(i int) {
	w.pipes[i].Drop()
	for _, m := range w.ctxs {
		if m.cur != nil && len(m.cur.txs) > 0 && m.cur.txs[len(m.cur.txs)-1].pipe == i {
			if w.ctxR(m) == 0 {
				// retries disabled: losing the connection cancels the request
				w.retire(m, "cancelled-by-loss")
				m.hasAns = false
				kit.Count("cancel-on-loss")
				if m.recv != nil {
					m.recv.Name = "expect-canceled"
				}
			} else {
				m.cur.drops++
			}
		}
	}
}

func (w *world) settle() {
	w.account()
	now := kit.Now()
	alive := w.alive()
	for _, m := range w.ctxs {
		if c := m.recv; c != nil && recvDL > 0 && m.cur != nil && !m.hasAns && !(m.closed && m.c != nil) && now >= m.recvAt+recvDL {
			// the receive deadline has passed without an answer: Recv fails with the timeout error and
			// the request is given up - it is never transmitted again, whatever happens to connections
			if !c.Done() || c.Err != mangos.ErrRecvTimeout {
				kit.Failf("recv-deadline", "%s: Recv started at %v with a %v deadline, no answer: done=%v %s at %v", m.name, m.recvAt, recvDL, c.Done(), kit.ErrName(c.Err), now)
			}
			// (what fell due before the deadline was still owed: only later transmissions are wrong)
			m.cur.done = true
			m.cur.why = "timed-out"
			m.old = append(m.old, m.cur)
			m.cur = nil
			kit.Count("request-given-up-at-the-receive-deadline")
			m.recv = nil
		}
		if r := m.cur; r != nil {
			if alive > 0 {
				if r.drops > 0 {
					kit.Failf("no-retx-after-carrier-loss", "%s: the connection carrying request %08x closed and %d other peer(s) are ready, but it was not re-sent", m.name, r.id, alive)
				}
				if r.owed {
					kit.Failf("no-retx-when-peer-arrives", "%s: request %08x was waiting for a peer, one is connected now, but it was not sent", m.name, r.id)
				}
				if _, maxR, off := w.window(r); len(r.txs) > 0 && maxR > 0 && !off {
					last := r.txs[len(r.txs)-1].at
					if now >= last+maxR {
						kit.Failf("no-retx-after-interval", "%s: request %08x last sent at %v, retry interval %v elapsed (now %v), not re-sent", m.name, r.id, last, maxR, now)
					}
				}
			} else {
				// no peer: whatever became due is owed
				if r.drops > 0 {
					r.drops = 0
					r.owed = true
				}
				if len(r.txs) > 0 && w.R > 0 && now >= r.txs[len(r.txs)-1].at+w.R {
					r.owed = true
					// the slots that fell due while no peer was there are consumed by the owed transmission
					for _, t := range r.txs {
						if t.at+w.R <= now {
							r.used[t.at+w.R] = true
						}
					}
				}
			}
		}
		if m.recv == nil {
			continue
		}
		c := m.recv
		switch {
		case m.closed && m.c != nil:
			if !c.Done() || c.Err != mangos.ErrClosed {
				kit.Failf("recv-closed", "%s: Recv on closed context: done=%v %s", m.name, c.Done(), kit.ErrName(c.Err))
			}
			m.recv = nil
		case m.hasAns:
			if !c.Done() || c.Err != nil || c.Val.(string) != m.answer {
				kit.Failf("recv-reply", "%s: reply arrived but Recv: done=%v %s %q want %q", m.name, c.Done(), kit.ErrName(c.Err), c.Val, m.answer)
			}
			m.hasAns = false
			m.recv = nil
		case m.cur == nil:
			// nothing outstanding: ErrProtoState, or ErrCanceled when the request was cancelled under a waiting Recv
			if !c.Done() {
				kit.Failf("recv-blocked-idle", "%s: Recv blocks with no request outstanding", m.name)
			}
			if c.Name == "expect-canceled" {
				if c.Err != mangos.ErrCanceled {
					kit.Failf("recv-loss-result", "%s: retries disabled and the connection was lost: pending Recv returned %s, want ErrCanceled", m.name, kit.ErrName(c.Err))
				}
			} else if c.Err != mangos.ErrProtoState {
				kit.Failf("recv-idle-result", "%s: Recv with no request outstanding returned %s / %q", m.name, kit.ErrName(c.Err), c.Val)
			}
			m.recv = nil
		default:
			if c.Done() {
				kit.Failf("recv-early", "%s: Recv returned %s / %q while request %08x is unanswered", m.name, kit.ErrName(c.Err), c.Val, m.cur.id)
			}
		}
	}
}

func hist(depth int, R time.Duration) { histOpt(depth, R, false) }

// histOpt: with late set, a third context may be opened by an event of the history - while requests
// of the socket or of the first context are outstanding: it owns none of them (closing or using it
// changes nothing for them, a carrier loss re-sends each request once).
func histOpt(depth int, R time.Duration, late bool) {
	// A send deadline shorter than the retry interval must not matter once Send has returned:
	// the request stays outstanding and keeps being re-sent.
	sendDeadline = 0
	if R > 0 && kit.ChooseFree(2) == 1 {
		sendDeadline = R / 4
		kit.Count("send-deadline-set")
	}
	// With fail-no-peers set nothing changes as long as one peer is left (these histories never
	// drop the last one: what happens then is C18's business).
	failNoPeers = R > 0 && kit.ChooseFree(2) == 1
	// the history starts with two connected peers, or (in the plain configuration) with one, so
	// that both contexts' requests travel over the same connection and wait in the same queue
	np := 2
	if sendDeadline == 0 && !failNoPeers && kit.ChooseFree(2) == 1 {
		np = 1
	}
	w := setup(R, np)
	w.late = late
	kit.Hist(depth, w.events, w.settle)
	// run every remaining timer out: nothing that is done may be transmitted again
	for _, m := range w.ctxs {
		if m.cur == nil && len(m.old) > 0 {
			kit.Count("no-retx-after-cancel")
		}
	}
	if R > 0 {
		kit.Sleep(3*R + time.Millisecond) // (not a multiple of R: a retry timer that is due is not due "just now")
		kit.Quiesce()
		w.settle() // whatever is still unanswered has been re-sent meanwhile, nothing else was
	}
	kit.Must("Socket.Close", func() { _ = w.sock.Close() })
	kit.Quiesce()
	for _, m := range w.ctxs {
		w.retire(m, "closed")
	}
	kit.Sleep(3 * time.Minute)
	kit.Quiesce()
	w.account()
}

// histRecvDeadline: the retry histories with a receive deadline of R/4 on socket and context.  A
// Recv that runs into the deadline fails with the timeout error and gives the request up: from
// then on it is never transmitted again - not when the retry interval elapses, not when the
// connection that carried it is lost, not when a new peer arrives.
func histRecvDeadline(depth int, R time.Duration) {
	sendDeadline = 0
	failNoPeers = false
	recvDL = R / 4
	defer func() { recvDL = 0 }()
	w := setup(R, 2)
	kit.Hist(depth, w.events, w.settle)
	kit.Sleep(3*R + time.Millisecond)
	kit.Quiesce()
	w.settle()
	kit.Must("Socket.Close", func() { _ = w.sock.Close() })
	kit.Quiesce()
	for _, m := range w.ctxs {
		w.retire(m, "closed")
	}
	kit.Sleep(3 * time.Minute)
	kit.Quiesce()
	w.account()
}

// histRetune: the retry interval of a context (or of the socket, for its own requests) is changed by
// events of the history - also while a request is outstanding: to half the interval, back, or to
// zero (retries off).  A retransmission is never made before the smallest interval in force since
// the previous transmission has elapsed, is made once the largest has (unless retries were off in
// between), and what a lost connection does to a request follows the value in force at the loss.
// The last peer is never dropped here.
func histRetune(depth int, R time.Duration) {
	sendDeadline = 0
	failNoPeers = false
	w := setup(R, 2)
	w.retuned = true
	w.retune = 2
	for _, m := range w.ctxs {
		m.R = R
	}
	keep := failNoPeers
	failNoPeers = true // (only read by events(): never drop the last peer)
	kit.Hist(depth, w.events, w.settle)
	failNoPeers = keep
	kit.Sleep(3*R + time.Millisecond)
	kit.Quiesce()
	w.settle()
	kit.Must("Socket.Close", func() { _ = w.sock.Close() })
	kit.Quiesce()
	for _, m := range w.ctxs {
		w.retire(m, "closed")
	}
	kit.Sleep(3 * time.Minute)
	kit.Quiesce()
	w.account()
}

func cfgEarly() (c vsched.Config) {
	c.EarlyTimers = true
	return c
}

// schedTimerVsReply: the reply arrives just when the retry interval elapses; the
// timer may land before, during or after the processing of the reply.
func SchedTimerVsReply() { schedTimerVsReply() }

func schedTimerVsReply() {
	R := 10 * time.Second
	sendDeadline = 0
	failNoPeers = false
	w := setup(R, 2)
	m := w.ctxs[0]
	sc := kit.Start("Send", func() (interface{}, error) { return nil, m.send([]byte("the-request")) })
	kit.Quiesce()
	if !sc.Done() || sc.Err != nil {
		kit.Failf("sched-send", "Send: done=%v %s", sc.Done(), kit.ErrName(sc.Err))
	}
	first := w.newWire()
	if len(first) == 0 {
		kit.Failf("sched-send-wire", "Send returned but nothing was transmitted")
	}
	id := binary.BigEndian.Uint32(first[0].Data)
	all := first
	// the application is already waiting in Recv when the two meet, or calls it afterwards
	lateRecv := kit.ChooseFree(2) == 1
	var rc *kit.Call
	if !lateRecv {
		rc = kit.Start("Recv", func() (interface{}, error) { b, err := m.recvCall(); return string(b), err })
	}
	kit.Sleep(R - time.Nanosecond)
	b := make([]byte, 4)
	binary.BigEndian.PutUint32(b, id)
	w.pipes[first[0].pipe].Deliver(append(b, "the-reply"...))
	kit.Quiesce()
	kit.Sleep(time.Nanosecond)
	kit.Quiesce()
	if lateRecv {
		rc = kit.Start("Recv", func() (interface{}, error) { b, err := m.recvCall(); return string(b), err })
		kit.Quiesce()
	}
	if !rc.Done() || rc.Err != nil || rc.Val.(string) != "the-reply" {
		kit.Failf("sched-recv", "Recv: done=%v %s %q", rc.Done(), kit.ErrName(rc.Err), rc.Val)
	}
	all = append(all, w.newWire()...)
	for i, sm := range all {
		if string(sm.Data) != string(first[0].Data) {
			kit.Failf("tx-bytes-differ", "transmission %d differs from the first: %x vs %x", i, sm.Data, first[0].Data)
		}
		// (no timing assertion here: with early-timer deviations a thread may be arbitrarily slow
		// relative to the clock, so wire timestamps say nothing about the interval the code waited;
		// the interval is checked exactly in the hist scenarios, where time only advances at quiescence)
	}
	kit.Sleep(3 * R)
	kit.Quiesce()
	if extra := w.newWire(); len(extra) != 0 {
		kit.Failf("tx-after-answered", "request re-sent at %v after its reply had been delivered to the application", extra[0].At)
	}
	kit.Observe("late=%v tx=%d", lateRecv, len(all))
}

// ---------------------------------------------------------------------------
// slow peers: connections that take a message only when the harness says so.  The safety clauses
// only: whatever is on the wire belongs to a request, byte-identical, never after the request was
// answered / cancelled; Recv returns the reply to the current request or nothing; no crash, no wedge.

// newcomerWhileBusy: one or two peers are connected and every one of them is busy (a request was
// handed to it and the write has not completed: the peer reads nothing).  A request is waiting for a
// ready peer - the retransmission of the first request, due because the retry interval has elapsed,
// or a request another context has sent meanwhile.  Then a new peer connects and reads everything:
// the waiting request is transmitted to it, byte-identical where it is a retransmission.
func newcomerWhileBusy() {
	R := 10 * time.Second
	busy := 1 + kit.ChooseFree(2)
	how := kit.ChooseFree(2) // 0: retransmission due, 1: another context's request
	s, err := req.NewSocket()
	if err != nil {
		kit.Failf("setup", "NewSocket: %v", err)
	}
	_ = s.SetOption(mangos.OptionRetryTime, R)
	ep := vt.Get("busy")
	ep.HoldNew = true
	if err := s.Listen("vt://busy"); err != nil {
		kit.Failf("setup", "Listen: %s", kit.ErrName(err))
	}
	var pipes []*vt.Pipe
	var ctxs []mangos.Context
	for i := 0; i < busy; i++ {
		pipes = append(pipes, ep.Connect())
		kit.Quiesce()
		c, err := s.OpenContext()
		if err != nil {
			kit.Failf("setup", "OpenContext: %v", err)
		}
		ctxs = append(ctxs, c)
		body := fmt.Sprintf("occupies-%d", i)
		sc := kit.Start("Send", func() (interface{}, error) { return nil, kit.SendBytes(c, []byte(body)) })
		kit.Quiesce()
		if !sc.Done() || sc.Err != nil {
			kit.Failf("setup", "Send %d: done=%v %s", i, sc.Done(), kit.ErrName(sc.Err))
		}
	}
	for i, p := range pipes {
		if p.SendersWaiting() != 1 {
			kit.Failf("setup", "peer %d is not busy (%d writes in progress)", i, p.SendersWaiting())
		}
	}
	want := "occupies-0"
	if how == 0 {
		kit.Sleep(R + time.Millisecond)
		kit.Quiesce()
	} else {
		c, err := s.OpenContext()
		if err != nil {
			kit.Failf("setup", "OpenContext: %v", err)
		}
		want = "from-another-context"
		sc := kit.Start("Send", func() (interface{}, error) { return nil, kit.SendBytes(c, []byte(want)) })
		kit.Quiesce()
		_ = sc
	}
	nb := ep.Connect()
	nb.Hold(false)
	kit.Quiesce()
	var got []string
	for _, sm := range nb.SentLog() {
		if len(sm.Data) < 4 || sm.Data[0]&0x80 == 0 {
			kit.Failf("tx-bytes-differ", "the newcomer was sent %x: no request id", sm.Data)
		}
		got = append(got, string(sm.Data[4:]))
	}
	found := false
	for _, g := range got {
		if g == want {
			found = true
		}
	}
	if !found {
		kit.Failf("waiting-request-not-sent-to-newcomer", "%d peer(s) connected, all busy (their writes have not completed); %s; a new peer connected and reads everything: it was sent %q, want %q among it", busy,
			[]string{"the retry interval of the first request elapsed", "another context sent a request"}[how], got, want)
	}
	kit.Count("waiting-request-went-to-the-newcomer")
	kit.Observe("%d %d %q", busy, how, got)
	kit.Must("Close", func() { _ = s.Close() })
}

// SlowPeerHist is also registered under C11 (robustness of the request state machine).
func SlowPeerHist(depth int) {
	R := 10 * time.Second
	s, err := req.NewSocket()
	if err != nil {
		kit.Failf("setup", "NewSocket: %v", err)
	}
	_ = s.SetOption(mangos.OptionRetryTime, R)
	ep := vt.Get("slow")
	ep.HoldNew = true
	if err := s.Listen("vt://slow"); err != nil {
		kit.Failf("setup", "Listen: %s", kit.ErrName(err))
	}
	pipes := []*vt.Pipe{ep.Connect()}
	seen := []int{0}
	kit.Quiesce()
	type rq struct {
		id      uint32
		payload string
		dead    string
		deadSeq int // logical time at which the application received the reply
	}
	var reqs []*rq
	var cur *rq
	var answer string
	hasAns := false
	var recv *kit.Call
	var sends []*kit.Call
	n := 0
	account := func() {
		for i, p := range pipes {
			l := p.SentLog()
			for _, sm := range l[seen[i]:] {
				var r *rq
				for _, x := range reqs {
					if len(sm.Data) >= 4 && string(sm.Data[4:]) == x.payload {
						r = x
					}
				}
				if r == nil {
					kit.Failf("tx-unknown", "transmission %x belongs to no request", sm.Data)
				}
				id := binary.BigEndian.Uint32(sm.Data)
				if r.id == 0 {
					r.id = id
				} else if r.id != id {
					kit.Failf("tx-bytes-differ", "request %q re-sent with id %08x, first transmission had %08x", r.payload, id, r.id)
				}
				// (a transmission handed to a slow connection before the answer may complete after it)
				if r.dead == "answered-and-received" && sm.EnterSeq > r.deadSeq {
					kit.Failf("tx-after-answered", "request %q was handed to a connection again (at %v) after its reply had been delivered to the application", r.payload, sm.At)
				}
			}
			seen[i] = len(l)
		}
	}
	events := func() []kit.Event {
		evs := []kit.Event{
			{Name: "send", Run: func() {
				n++
				r := &rq{payload: fmt.Sprintf("slow-q%d", n)}
				reqs = append(reqs, r)
				if cur != nil && cur.dead == "" {
					cur.dead = "cancelled"
				}
				cur = r
				hasAns = false
				if recv != nil {
					recv.Name = "cancelled"
				}
				sends = append(sends, kit.Start("Send", func() (interface{}, error) { return nil, kit.SendBytes(s, []byte(r.payload)) }))
			}},
			{Name: "advance:R", Run: func() { kit.Sleep(R) }},
		}
		for i, p := range pipes {
			i, p := i, p
			if !p.Alive() {
				continue
			}
			evs = append(evs, kit.Event{Name: fmt.Sprintf("take:p%d", i), Run: func() { p.Take(1) }})
			if cur != nil && cur.id != 0 && cur.dead == "" {
				evs = append(evs, kit.Event{Name: fmt.Sprintf("reply:p%d", i), Run: func() {
					b := make([]byte, 4)
					binary.BigEndian.PutUint32(b, cur.id)
					answer = "ans-" + cur.payload
					hasAns = true
					cur.dead = "answered"
					p.Deliver(append(b, answer...))
				}})
			}
		}
		if len(pipes) < 2 {
			evs = append(evs, kit.Event{Name: "connect", Run: func() { pipes = append(pipes, ep.Connect()); seen = append(seen, 0) }})
		}
		if recv == nil {
			evs = append(evs, kit.Event{Name: "recv", Run: func() {
				recv = kit.Start("Recv", func() (interface{}, error) { b, err := kit.Recv(s); return string(b), err })
			}})
		}
		return evs
	}
	settle := func() {
		account()
		if recv != nil && recv.Done() {
			switch {
			case recv.Err == nil:
				if !hasAns || recv.Val.(string) != answer {
					kit.Failf("recv-wrong-reply", "Recv returned %q; the reply to the current request is %q (arrived: %v)", recv.Val, answer, hasAns)
				}
				hasAns = false
				if cur != nil {
					cur.dead = "answered-and-received"
					cur.deadSeq = vt.Tick()
				}
			case recv.Err == mangos.ErrCanceled || recv.Err == mangos.ErrProtoState:
			default:
				kit.Failf("recv-error", "Recv returned %s", kit.ErrName(recv.Err))
			}
			recv = nil
		} else if recv != nil && hasAns && recv.Name != "cancelled" {
			kit.Failf("recv-blocked-answered", "the reply to the current request arrived but Recv still blocks")
		}
	}
	kit.Hist(depth, events, settle)
	// everybody takes everything now: nothing may crash or wedge
	for _, p := range pipes {
		p.Hold(false)
	}
	kit.Quiesce()
	kit.Sleep(R)
	kit.Quiesce()
	account()
	c := kit.Start("GetOption", func() (interface{}, error) { _, err := s.GetOption(mangos.OptionRetryTime); return nil, err })
	kit.Quiesce()
	if !c.Done() {
		kit.Failf("socket-wedged", "GetOption blocks at the end of the history")
	}
	kit.Must("Close", func() { _ = s.Close() })
}
