// Package conform is the entry point of the conformance build: the harness scenarios run on the
// UNREWRITTEN code under testing/synctest (see vz/vsched in its conformance flavour).
package conform

import (
	"os"
	"strings"
	"testing"

	_ "go.nanomsg.org/mangos/v3/vh/c03"
	_ "go.nanomsg.org/mangos/v3/vh/c04"
	_ "go.nanomsg.org/mangos/v3/vh/c05"
	_ "go.nanomsg.org/mangos/v3/vh/c06"
	_ "go.nanomsg.org/mangos/v3/vh/c07"
	_ "go.nanomsg.org/mangos/v3/vh/c09"
	_ "go.nanomsg.org/mangos/v3/vh/c12"
	_ "go.nanomsg.org/mangos/v3/vh/c13"
	_ "go.nanomsg.org/mangos/v3/vh/c17"
	_ "go.nanomsg.org/mangos/v3/vh/c18"
	"go.nanomsg.org/mangos/v3/vz/vexplore"
	"go.nanomsg.org/mangos/v3/vz/vsched"
)

func TestConform(t *testing.T) {
	args := os.Getenv("VH_ARGS")
	if args == "" {
		t.Skip("VH_ARGS not set")
	}
	vsched.T = t
	vexplore.MainArgs(strings.Split(args, "\x1f"))
}
