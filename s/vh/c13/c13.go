// Package c13 checks property C13: every pipe gets a consistent lifecycle and a unique id.
package c13

import (
	"fmt"
	"time"

	"go.nanomsg.org/mangos/v3"
	"go.nanomsg.org/mangos/v3/internal/core"
	"go.nanomsg.org/mangos/v3/protocol"
	"go.nanomsg.org/mangos/v3/protocol/xpair"
	"go.nanomsg.org/mangos/v3/protocol/xpub"
	"go.nanomsg.org/mangos/v3/protocol/xsub"
	_ "go.nanomsg.org/mangos/v3/transport/inproc"
	_ "go.nanomsg.org/mangos/v3/transport/tcp"
	"go.nanomsg.org/mangos/v3/vh/kit"
	"go.nanomsg.org/mangos/v3/vh/vnet"
	"go.nanomsg.org/mangos/v3/vh/vt"
	"go.nanomsg.org/mangos/v3/vz/vexplore"
	"go.nanomsg.org/mangos/v3/vz/vsched"
)

func init() {
	// C16: a peer that presents a well-formed header of the wrong protocol (or ends its handshake
	// in any other way) costs nothing but that connection: the listener serves the next peer, the
	// dialer goes on redialling and attaches to a proper peer
	vexplore.Register("C16", func(tier string) []*vexplore.Scenario {
		return []*vexplore.Scenario{{Name: "tcp-aborted-or-mismatched-handshakes-then-peer", Mode: "enum", Reset: kit.ResetGlobals, Body: tcpAborted, NeedCounters: []string{"attached-after-aborted-handshake"}}}
	})
	// C02: connections that fail at any stage never keep a later peer out
	vexplore.Register("C02", func(tier string) []*vexplore.Scenario {
		return []*vexplore.Scenario{{Name: "tcp-aborted-or-mismatched-handshakes-then-peer", Mode: "enum", Reset: kit.ResetGlobals, Body: tcpAborted, NeedCounters: []string{"attached-after-aborted-handshake"}}}
	})
}

func init() {
	// C12 / C10: a Close issued from within an event callback returns (no call blocks forever)
	for _, prop := range []string{"C12", "C10"} {
		vexplore.Register(prop, func(tier string) []*vexplore.Scenario {
			return []*vexplore.Scenario{{Name: "callback-closes-its-listener-dialer-or-socket", Mode: "enum", Reset: kit.ResetGlobals, Body: HookClosesEndpoint, NeedCounters: []string{"endpoint-closed-from-within-a-callback"}}}
		})
	}
}

func init() {
	vexplore.Register("C13", func(tier string) []*vexplore.Scenario {
		d, b := 6, 2
		if tier == "thorough" {
			d, b = 8, 3
		}
		wrap := vsched.Config{CrandSeed: 0x7ffffffe}
		return []*vexplore.Scenario{
			{Name: fmt.Sprintf("listener-xpub-hist-D%d", d), Mode: "hist", Reset: kit.ResetGlobals, Cfg: wrap, Body: func() { listenerHist(xpub.NewProtocol, d) },
				NeedCounters: []string{"attached", "detached", "closed-during-attaching", "hook-closed-at-attached", "id-wrap-crossed"}},
			{Name: fmt.Sprintf("listener-xpair-hist-D%d", d), Mode: "hist", Reset: kit.ResetGlobals, Body: func() { listenerHist(xpair.NewProtocol, d) },
				NeedCounters: []string{"attached", "refused-by-protocol"}},
			{Name: fmt.Sprintf("listener-hook-replaced-hist-D%d", d-1), Mode: "hist", Reset: kit.ResetGlobals, Body: func() { hookSwapHist(d - 1) },
				NeedCounters: []string{"attached", "detached", "hook-replaced-with-live-pipes", "event-after-hook-replacement"}},
			{Name: "callback-closes-its-listener-dialer-or-socket", Mode: "enum", Reset: kit.ResetGlobals, Body: HookClosesEndpoint, NeedCounters: []string{"endpoint-closed-from-within-a-callback"}},
			{Name: fmt.Sprintf("dialer-xpub-hist-D%d", d), Mode: "hist", Reset: kit.ResetGlobals, Body: func() { dialerHist(d) },
				NeedCounters: []string{"attached", "detached", "redialled", "redial-refused"}},
			{Name: fmt.Sprintf("two-dialers-xpair-hist-D%d", d-1), Mode: "hist", Reset: kit.ResetGlobals, Body: func() { twoDialersHist(d - 1) },
				NeedCounters: []string{"attached", "refused-by-protocol", "redialled-after-refusal", "took-over"}},
			{Name: "tcp-aborted-handshakes-then-peer", Mode: "enum", Reset: kit.ResetGlobals, Body: tcpAborted, NeedCounters: []string{"attached-after-aborted-handshake"}},
			{Name: "listener-sched-attach-vs-drop", Mode: "sched", Bound: b, Reset: kit.ResetGlobals, Body: schedAttachDrop},
			{Name: "inproc-dials-waiting-for-several-busy-listeners", Mode: "enum", Reset: kit.ResetGlobals, Body: InprocBusyListeners, NeedCounters: []string{"waiting-dial-connected-when-its-listener-became-free"}},
			{Name: "inproc-sched-dials-waiting-for-two-busy-listeners", Mode: "sched", Bound: b - 1, Reset: kit.ResetGlobals, Body: func() { inprocBusyListeners(0, 1) }},
		}
	})
}

// recorder decorates a real protocol and logs AddPipe / RemovePipe.
type recorder struct {
	protocol.Protocol
	w *world
}

func (r *recorder) AddPipe(p protocol.Pipe) error {
	st := r.w.state(p.(mangos.Pipe))
	st.addCalls++
	if st.attaching != 1 {
		kit.Failf("addpipe-before-attaching", "protocol told of pipe %08x before the Attaching event", p.ID())
	}
	err := r.Protocol.AddPipe(p)
	st.addErr = err
	st.added = err == nil
	if st.attached > 0 {
		kit.Failf("attached-before-addpipe", "Attached reported for pipe %08x before the protocol accepted it", p.ID())
	}
	return err
}

func (r *recorder) RemovePipe(p protocol.Pipe) {
	st := r.w.state(p.(mangos.Pipe))
	st.remCalls++
	if !st.added {
		kit.Failf("removepipe-without-addpipe", "protocol told of the departure of pipe %08x which it never accepted", p.ID())
	}
	if st.detached > 0 {
		kit.Failf("detached-before-removepipe", "Detached reported for pipe %08x before the protocol was told", p.ID())
	}
	r.Protocol.RemovePipe(p)
}

type pstate struct {
	p          mangos.Pipe
	id         uint32
	attaching  int
	attached   int
	detached   int
	detachDone bool
	addCalls   int
	remCalls   int
	added      bool
	addErr     error
	policy     string
	order      int
}

type world struct {
	gen     int // generation of the installed event hook (hook-replacement histories)
	sock    mangos.Socket
	ep      *vt.Endpoint
	pipes   map[mangos.Pipe]*pstate
	list    []*pstate
	policy  []string // policy for the n-th pipe created
	dialer  bool
	addr    string
}

func (w *world) state(p mangos.Pipe) *pstate {
	st := w.pipes[p]
	if st == nil {
		st = &pstate{p: p, id: p.ID(), order: len(w.list)}
		if st.order < len(w.policy) {
			st.policy = w.policy[st.order]
		}
		w.pipes[p] = st
		w.list = append(w.list, st)
	}
	return st
}

func (w *world) hook(ev mangos.PipeEvent, p mangos.Pipe) {
	st := w.state(p)
	switch ev {
	case mangos.PipeEventAttaching:
		st.attaching++
		if st.attaching > 1 || st.attached > 0 || st.detached > 0 {
			kit.Failf("attaching-not-first", "pipe %08x: Attaching reported %d times (attached %d, detached %d)", st.id, st.attaching, st.attached, st.detached)
		}
		if st.id == 0 || st.id >= 1<<31 {
			kit.Failf("id-range", "pipe id %08x is not a non-zero 31-bit value", st.id)
		}
		if st.id < 0x100 && w.list[0].id > 0x7fffff00 {
			kit.Count("id-wrap-crossed")
		}
		for _, o := range w.list {
			if o != st && o.id == st.id && o.attaching > 0 && !(o.detachDone || (o.attached == 0 && !core.VerifPipeIDUsed(o.id))) {
				kit.Failf("id-reused-while-live", "pipe id %08x handed to a new pipe while the earlier pipe's Detached callback has not returned", st.id)
			}
		}
		w.describe(st)
		if st.policy == "close-at-attaching" {
			_ = p.Close()
			kit.Count("closed-during-attaching")
		}
	case mangos.PipeEventAttached:
		st.attached++
		if st.attaching != 1 || st.attached > 1 {
			kit.Failf("attached-order", "pipe %08x: Attached #%d after %d Attaching", st.id, st.attached, st.attaching)
		}
		if st.policy == "close-at-attaching" {
			kit.Failf("attached-after-close-in-attaching", "pipe %08x was closed by the hook during Attaching but was attached anyway", st.id)
		}
		if !st.added {
			kit.Failf("attached-without-addpipe", "pipe %08x: Attached although the protocol did not accept it (%v)", st.id, st.addErr)
		}
		kit.Count("attached")
		if st.policy == "close-at-attached" {
			_ = p.Close()
			kit.Count("hook-closed-at-attached")
		}
	case mangos.PipeEventDetached:
		st.detached++
		if st.attached != 1 || st.detached > 1 {
			kit.Failf("detached-order", "pipe %08x: Detached #%d with %d Attached", st.id, st.detached, st.attached)
		}
		if !core.VerifPipeIDUsed(st.id) {
			kit.Failf("id-freed-before-detached-returned", "pipe id %08x was released before the Detached callback returned", st.id)
		}
		kit.Count("detached")
		_ = p.Close() // legal: Close is idempotent, also from within the Detached callback
		// the callback "returns" only after this point: another thread may not get the id before
		kit.Yield()
		st.detachDone = true
	}
}

// describe checks Address / Dialer / Listener / read-only options against the creating endpoint.
func (w *world) describe(st *pstate) {
	p := st.p
	if p.Address() != w.addr {
		kit.Failf("pipe-address", "pipe %08x: Address() = %q, created by %q", st.id, p.Address(), w.addr)
	}
	if w.dialer {
		if p.Dialer() == nil || p.Listener() != nil {
			kit.Failf("pipe-endpoint", "dialed pipe %08x: Dialer()=%v Listener()=%v", st.id, p.Dialer(), p.Listener())
		}
		if p.Dialer().Address() != w.addr {
			kit.Failf("pipe-endpoint-address", "dialed pipe: Dialer().Address() = %q", p.Dialer().Address())
		}
	} else {
		if p.Listener() == nil || p.Dialer() != nil {
			kit.Failf("pipe-endpoint", "accepted pipe %08x: Dialer()=%v Listener()=%v", st.id, p.Dialer(), p.Listener())
		}
		if p.Listener().Address() != w.addr {
			kit.Failf("pipe-endpoint-address", "accepted pipe: Listener().Address() = %q", p.Listener().Address())
		}
	}
	if w.ep == nil {
		// real TCP wrapper over the in-memory network: the addresses are those of the connection
		host := w.addr[len("tcp://"):]
		for opt, want := range map[string]string{mangos.OptionRemoteAddr: "remote:" + host, mangos.OptionLocalAddr: "local:" + host} {
			v, err := p.GetOption(opt)
			a, ok := v.(interface{ String() string })
			if err != nil || !ok || a.String() != want {
				kit.Failf("pipe-tcp-addr", "pipe %08x: option %s = %v (%s), the connection's is %q", st.id, opt, v, kit.ErrName(err), want)
			}
		}
		return
	}
	want := fmt.Sprintf("vt-remote:%s:%d", w.ep.Name, st.order)
	if v, err := p.GetOption(mangos.OptionRemoteAddr); err != nil || v.(string) != want {
		kit.Failf("pipe-remote-addr", "pipe %08x (connection %d): RemoteAddr option = %v (%s), want %q", st.id, st.order, v, kit.ErrName(err), want)
	}
	if _, err := p.GetOption("NO-SUCH-PROPERTY"); err == nil {
		kit.Failf("pipe-unknown-option", "pipe GetOption of an unknown name succeeded")
	}
}

// settle: per-pipe grammar at quiescence.
func (w *world) settle() {
	for i, st := range w.list {
		vp := w.ep.PipeAt(i)
		gone := vp != nil && (!vp.Alive())
		if st.attaching != 1 {
			kit.Failf("attaching-count", "connection %d: Attaching reported %d times", i, st.attaching)
		}
		if st.addCalls > 1 || st.remCalls > 1 {
			kit.Failf("addremove-count", "connection %d: AddPipe called %d times, RemovePipe %d times", i, st.addCalls, st.remCalls)
		}
		switch {
		case st.policy == "close-at-attaching":
			if st.attached != 0 || st.detached != 0 || st.added {
				kit.Failf("closed-in-attaching-grammar", "connection %d closed during Attaching: attached=%d detached=%d protocol-accepted=%v", i, st.attached, st.detached, st.added)
			}
		case st.addCalls == 1 && !st.added:
			kit.Count("refused-by-protocol")
			if st.attached != 0 || st.detached != 0 || st.remCalls != 0 {
				kit.Failf("refused-grammar", "connection %d refused by the protocol: attached=%d detached=%d removepipe=%d", i, st.attached, st.detached, st.remCalls)
			}
			if vp != nil && !vp.ClosedByMangos() {
				kit.Failf("refused-not-closed", "connection %d was refused by the protocol but not closed", i)
			}
		default:
			if st.attached != 1 {
				kit.Failf("not-attached", "connection %d (policy %q) was accepted by the protocol (%v) but Attached was reported %d times", i, st.policy, st.added, st.attached)
			}
			if gone {
				if st.detached != 1 || st.remCalls != 1 || !st.detachDone {
					kit.Failf("detached-missing", "connection %d has gone: Detached reported %d times, RemovePipe %d times", i, st.detached, st.remCalls)
				}
			} else if st.detached != 0 || st.remCalls != 0 {
				kit.Failf("detached-early", "connection %d is alive: Detached %d RemovePipe %d", i, st.detached, st.remCalls)
			}
		}
	}
	if n := w.ep.NumPipes(); n != len(w.list) {
		kit.Failf("connection-ignored", "%d connection(s) were made but only %d reached the Attaching event (accept loop or dialer stuck)", n, len(w.list))
	}
}

func newWorld(mk func() protocol.Protocol, addr string) *world {
	w := &world{pipes: map[mangos.Pipe]*pstate{}, addr: addr}
	rec := &recorder{Protocol: mk(), w: w}
	w.sock = protocol.MakeSocket(rec)
	w.sock.SetPipeEventHook(w.hook)
	return w
}

func (w *world) finish() {
	kit.Must("Socket.Close", func() { _ = w.sock.Close() })
	kit.Quiesce()
	for i, st := range w.list {
		if st.attached == 1 && (st.detached != 1 || st.remCalls != 1) {
			kit.Failf("detached-missing-after-close", "connection %d: after socket Close Detached=%d RemovePipe=%d", i, st.detached, st.remCalls)
		}
	}
}

func listenerHist(mk func() protocol.Protocol, depth int) {
	w := newWorld(mk, "vt://lst")
	w.ep = vt.Get("lst")
	if err := w.sock.Listen("vt://lst"); err != nil {
		kit.Failf("setup", "Listen: %s", kit.ErrName(err))
	}
	events := func() []kit.Event {
		var evs []kit.Event
		for _, pol := range []string{"", "close-at-attaching", "close-at-attached"} {
			pol := pol
			evs = append(evs, kit.Event{Name: "connect:" + pol, Run: func() {
				w.policy = append(w.policy, pol)
				w.ep.Connect()
			}})
		}
		n := 0
		for i := range w.list {
			i := i
			vp := w.ep.PipeAt(i)
			if vp == nil || !vp.Alive() || n >= 2 {
				continue
			}
			n++
			evs = append(evs, kit.Event{Name: fmt.Sprintf("peer-drop:%d", i), Run: func() { vp.DropNow() }})
			evs = append(evs, kit.Event{Name: fmt.Sprintf("app-close:%d", i), Run: func() {
				kit.Must("Pipe.Close", func() { _ = w.list[i].p.Close() })
			}})
		}
		return evs
	}
	kit.Hist(depth, events, w.settle)
	w.finish()
}

// hookSwapHist: listener histories in which the application replaces the socket's event hook while
// connections exist.  SetPipeEventHook returns the hook it replaces; once it has returned, every
// event - also those of pipes that were attached under an earlier hook - goes to the new hook and
// none to a replaced one, so the per-pipe grammar holds over the hooks taken together.
func hookSwapHist(depth int) {
	w := newWorld(xpub.NewProtocol, "vt://lst")
	w.ep = vt.Get("lst")
	var install func() mangos.PipeEventHook
	lastSeen := -1
	install = func() mangos.PipeEventHook {
		w.gen++
		g := w.gen
		return func(ev mangos.PipeEvent, p mangos.Pipe) {
			if ev == probeEvent { // the harness asks a hook value which generation it is
				lastSeen = g
				return
			}
			if g != w.gen {
				kit.Failf("event-to-replaced-hook", "event %d of pipe %08x went to hook #%d after SetPipeEventHook had installed hook #%d", ev, p.ID(), g, w.gen)
			}
			if g > 1 {
				kit.Count("event-after-hook-replacement")
			}
			lastSeen = g
			w.hook(ev, p)
		}
	}
	cur := install()
	w.sock.SetPipeEventHook(cur)
	if err := w.sock.Listen("vt://lst"); err != nil {
		kit.Failf("setup", "Listen: %s", kit.ErrName(err))
	}
	swaps := 0
	events := func() []kit.Event {
		var evs []kit.Event
		for _, pol := range []string{"", "close-at-attached"} {
			pol := pol
			evs = append(evs, kit.Event{Name: "connect:" + pol, Run: func() {
				w.policy = append(w.policy, pol)
				w.ep.Connect()
			}})
		}
		n := 0
		for i := range w.list {
			i := i
			vp := w.ep.PipeAt(i)
			if vp == nil || !vp.Alive() || n >= 2 {
				continue
			}
			n++
			evs = append(evs, kit.Event{Name: fmt.Sprintf("peer-drop:%d", i), Run: func() { vp.DropNow() }})
			evs = append(evs, kit.Event{Name: fmt.Sprintf("app-close:%d", i), Run: func() {
				kit.Must("Pipe.Close", func() { _ = w.list[i].p.Close() })
			}})
		}
		if swaps < 2 {
			evs = append(evs, kit.Event{Name: "replace-hook", Run: func() {
				swaps++
				if n > 0 {
					kit.Count("hook-replaced-with-live-pipes")
				}
				next := install()
				var old mangos.PipeEventHook
				kit.Must("SetPipeEventHook", func() { old = w.sock.SetPipeEventHook(next) })
				lastSeen = -1
				if old != nil {
					old(probeEvent, nil)
				}
				if lastSeen != w.gen-1 {
					kit.Failf("previous-hook-not-returned", "SetPipeEventHook returned hook #%d (-1: none), the hook it replaced is #%d", lastSeen, w.gen-1)
				}
				cur = next
			}})
		}
		return evs
	}
	kit.Hist(depth, events, w.settle)
	w.finish()
	_ = cur
}

const probeEvent = mangos.PipeEvent(-77)

// HookClosesEndpoint: the application's event callback closes, from within the callback, the
// listener or dialer that produced the pipe - or the whole socket - in Attaching or in Attached, for
// the first or the second connection.  Callbacks run on the library's accept / dial threads, so a
// Close that waits for those threads would wait for itself: the call returns, the pipe's events stay
// consistent, nothing is accepted or dialled afterwards, and the socket closes.
func HookClosesEndpoint() {
	side := []string{"listener", "dialer"}[kit.ChooseFree(2)]
	what := []string{"endpoint", "socket"}[kit.ChooseFree(2)]
	when := []mangos.PipeEvent{mangos.PipeEventAttaching, mangos.PipeEventAttached}[kit.ChooseFree(2)]
	nth := kit.ChooseFree(2)
	w := newWorld(xpub.NewProtocol, "vt://hce")
	w.dialer = side == "dialer"
	w.ep = vt.Get("hce")
	returned, called, seen := false, false, 0
	w.sock.SetPipeEventHook(func(ev mangos.PipeEvent, p mangos.Pipe) {
		w.hook(ev, p)
		if ev != when {
			return
		}
		seen++
		if seen-1 != nth || called {
			return
		}
		called = true
		switch {
		case what == "socket":
			_ = w.sock.Close()
		case side == "listener":
			_ = p.Listener().Close()
		default:
			_ = p.Dialer().Close()
		}
		returned = true
	})
	if side == "listener" {
		if err := w.sock.Listen("vt://hce"); err != nil {
			kit.Failf("setup", "Listen: %s", kit.ErrName(err))
		}
		for i := 0; i <= nth; i++ {
			w.policy = append(w.policy, "")
			w.ep.Connect()
			kit.Quiesce()
		}
	} else {
		w.ep.Script(vt.DialOK)
		_ = w.sock.SetOption(mangos.OptionReconnectTime, 100*time.Millisecond)
		_ = w.sock.SetOption(mangos.OptionMaxReconnectTime, 100*time.Millisecond)
		dc := kit.Start("Dial", func() (interface{}, error) { return nil, w.sock.Dial("vt://hce") })
		kit.Quiesce()
		if !dc.Done() {
			kit.Failf("hang:dial:hook-closes-"+what, "Dial does not return (the callback closes the %s in event %d)", what, when)
		}
		if nth == 1 {
			// the first connection is lost, the dialer makes the second
			if vp := w.ep.PipeAt(0); vp != nil && vp.Alive() {
				vp.DropNow()
			}
			kit.Sleep(150 * time.Millisecond)
			kit.Quiesce()
		}
	}
	kit.Sleep(time.Second)
	kit.Quiesce()
	if !called {
		kit.Failf("setup", "the callback never saw event %d of connection %d", when, nth)
	}
	if !returned {
		kit.Failf("hang:close-from-callback:"+side+":"+what, "Close of the %s (%s side) called from within the event callback (event %d) never returned", what, side, when)
	}
	// nothing is accepted / dialled any more; every pipe seen has a consistent history
	n := len(w.list)
	if side == "listener" && what == "endpoint" {
		// (vt: a connection attempt to a closed listener is not taken)
	}
	kit.Sleep(time.Second)
	kit.Quiesce()
	if side == "dialer" && len(w.list) != n {
		kit.Failf("dial-after-close", "the %s was closed from the callback, yet a further connection was made afterwards", what)
	}
	for i, st := range w.list {
		if st.attaching != 1 || st.attached > 1 || st.detached > st.attached {
			kit.Failf("grammar-after-close-from-callback", "connection %d: Attaching %d Attached %d Detached %d", i, st.attaching, st.attached, st.detached)
		}
	}
	kit.Count("endpoint-closed-from-within-a-callback")
	kit.Observe("%s %s %d %d", side, what, when, nth)
	if what != "socket" {
		kit.Must("Socket.Close", func() { _ = w.sock.Close() })
	}
	kit.Quiesce()
}

func dialerHist(depth int) {
	w := newWorld(xpub.NewProtocol, "vt://dl")
	w.dialer = true
	w.ep = vt.Get("dl")
	w.ep.Script(vt.DialOK)
	_ = w.sock.SetOption(mangos.OptionReconnectTime, 100*time.Millisecond)
	w.policy = nil
	pol := []string{"", "close-at-attaching", "close-at-attached"}[kit.ChooseFree(3)]
	w.policy = append(w.policy, pol)
	if err := w.sock.Dial("vt://dl"); err != nil {
		kit.Failf("setup", "Dial: %s", kit.ErrName(err))
	}
	kit.Quiesce()
	w.settle()
	events := func() []kit.Event {
		var evs []kit.Event
		last := len(w.list) - 1
		if last >= 0 {
			vp := w.ep.PipeAt(last)
			if vp != nil && vp.Alive() {
				evs = append(evs, kit.Event{Name: "peer-drop", Run: func() { vp.DropNow() }})
				evs = append(evs, kit.Event{Name: "app-close", Run: func() { kit.Must("Pipe.Close", func() { _ = w.list[last].p.Close() }) }})
			}
		}
		// time passes while nobody listens at the address: a redial attempt made now fails, and the
		// dialer (a synchronous one here: the first Dial has returned long ago) tries again later
		evs = append(evs, kit.Event{Name: "advance:nobody-listening", Run: func() {
			w.ep.Script(vt.DialRefused)
			before := len(w.ep.Dials)
			kit.Sleep(150 * time.Millisecond)
			kit.Quiesce()
			if len(w.ep.Dials) > before {
				kit.Count("redial-refused")
			}
			w.ep.Script(vt.DialOK)
		}})
		for _, pol := range []string{"", "close-at-attaching", "close-at-attached"} {
			pol := pol
			evs = append(evs, kit.Event{Name: "advance:" + pol, Run: func() {
				// the policy applies to the next connection the dialer makes (if it redials now)
				if len(w.policy) == len(w.list) {
					w.policy = append(w.policy, pol)
				}
				before := w.ep.NumPipes()
				lastp := w.ep.PipeAt(before - 1)
				owed := lastp != nil && !lastp.Alive()
				kit.Sleep(150 * time.Millisecond)
				if w.ep.NumPipes() > before {
					kit.Count("redialled")
				} else if owed {
					// (no maximum reconnect time is set: the delay does not grow, whatever became of
					// the earlier connections - closed in a callback, dropped, refused)
					kit.Failf("dialer-slow-to-redial", "the dialer's last connection has gone, the peer has been listening for 150 ms (reconnect time 100 ms, no maximum set), and no new connection was made; connections so far: %d", before)
				}
			}})
		}
		return evs
	}
	kit.Hist(depth, events, func() {
		w.settle()
		// the dialer keeps redialling: after any loss a further connection is made within the back-off
		last := w.ep.PipeAt(w.ep.NumPipes() - 1)
		if last != nil && !last.Alive() && vsched.PendingTimers() == 0 {
			kit.Failf("dialer-gave-up", "the last connection has gone and no redial is scheduled")
		}
	})
	w.finish()
}

// twoDialersHist: a one-peer pattern (xpair) with two dialers to the same address: one connection
// is attached, every connection the other dialer makes is refused by the protocol - no Attached, no
// Detached, no RemovePipe, the connection closed - and that dialer carries on redialling, so that
// when the attached connection goes one of the two takes over.
func twoDialersHist(depth int) {
	w := newWorld(xpair.NewProtocol, "vt://dl2")
	w.dialer = true
	w.ep = vt.Get("dl2")
	w.ep.Script(vt.DialOK)
	_ = w.sock.SetOption(mangos.OptionReconnectTime, 100*time.Millisecond)
	_ = w.sock.SetOption(mangos.OptionMaxReconnectTime, 100*time.Millisecond)
	for i := 0; i < 2; i++ {
		if err := w.sock.DialOptions("vt://dl2", map[string]interface{}{mangos.OptionDialAsynch: true}); err != nil {
			kit.Failf("setup", "Dial: %s", kit.ErrName(err))
		}
		kit.Quiesce()
	}
	w.settle()
	attached := func() int {
		n := 0
		for i, st := range w.list {
			if vp := w.ep.PipeAt(i); st.attached == 1 && vp != nil && vp.Alive() {
				n++
			}
		}
		return n
	}
	events := func() []kit.Event {
		var evs []kit.Event
		for i, st := range w.list {
			i, st := i, st
			vp := w.ep.PipeAt(i)
			if st.attached == 1 && vp != nil && vp.Alive() {
				evs = append(evs, kit.Event{Name: "peer-drop", Run: func() { vp.DropNow() }})
				evs = append(evs, kit.Event{Name: "app-close", Run: func() { kit.Must("Pipe.Close", func() { _ = st.p.Close() }) }})
			}
		}
		evs = append(evs, kit.Event{Name: "advance", Run: func() {
			before, had := w.ep.NumPipes(), attached()
			kit.Sleep(250 * time.Millisecond)
			kit.Quiesce()
			if w.ep.NumPipes() == before {
				kit.Failf("dialer-gave-up-after-refusal", "two dialers, one slot (%d attached): in 250ms (ReconnectTime 100ms) no further connection was made - the dialer whose connection was refused by the protocol stopped redialling", had)
			}
			kit.Count("redialled-after-refusal")
			if had == 0 {
				if attached() != 1 {
					kit.Failf("no-takeover", "nothing was attached, both dialers can connect, 250ms later %d connection(s) are attached", attached())
				}
				kit.Count("took-over")
			}
		}})
		return evs
	}
	kit.Hist(depth, events, func() {
		w.settle()
		if n := attached(); n > 1 {
			kit.Failf("two-attached", "%d connections attached to a one-peer pattern", n)
		}
	})
	w.finish()
}

// schedAttachDrop: the peer drops the connection while it is being attached.
func schedAttachDrop() {
	w := newWorld(xpub.NewProtocol, "vt://sch")
	w.ep = vt.Get("sch")
	if err := w.sock.Listen("vt://sch"); err != nil {
		kit.Failf("setup", "Listen: %s", kit.ErrName(err))
	}
	w.policy = []string{"", ""}
	a := w.ep.Connect()
	a.DropNow()
	b := w.ep.Connect()
	kit.Quiesce()
	w.settle()
	_ = b
	if len(w.list) != 2 || w.list[1].attached != 1 {
		kit.Failf("second-not-attached", "the second connection did not attach after the first was dropped during attach")
	}
	kit.Observe("%d/%d", w.list[0].attached, w.list[0].detached)
	w.finish()
}

// tcpAborted: on the real transport/tcp + conn.go (over the in-memory network) connections that
// end during the handshake - after n header bytes, by EOF or reset, or with a bad header - produce
// no event at all, and the listener (dialer) carries on: the next good connection gets
// Attaching and Attached.
func tcpAborted() {
	side := kit.ChooseFree(2)
	n := kit.ChooseFree(9)
	how := []string{"eof", "reset", "bad-header", "wrong-protocol"}[kit.ChooseFree(4)]
	if (how == "bad-header" || how == "wrong-protocol") && n != 8 {
		return
	}
	if n == 8 && how != "bad-header" && how != "wrong-protocol" {
		return
	}
	addr := "127.0.0.1:4300"
	w := newWorld(xpub.NewProtocol, "tcp://"+addr)
	ep := net.VGet(addr)
	hdr := []byte{0, 'S', 'P', 0, byte(w.sock.Info().Peer >> 8), byte(w.sock.Info().Peer), 0, 0}
	abort := func(h *net.VConn) {
		b := append([]byte{}, hdr[:n]...)
		if how == "bad-header" {
			b[7] = 1
		}
		if how == "wrong-protocol" {
			b[5] ^= 0x10 // a well-formed header of another protocol
		}
		h.Feed(b)
		switch how {
		case "eof":
			h.EOF()
		case "reset":
			h.Reset()
		}
	}
	events := func() (int, int) {
		a, d := 0, 0
		for _, st := range w.list {
			a += st.attaching
			d += st.attached
		}
		return a, d
	}
	if side == 0 {
		if err := w.sock.Listen("tcp://" + addr); err != nil {
			kit.Failf("setup", "Listen: %s", kit.ErrName(err))
		}
		abort(ep.Connect())
		kit.Quiesce()
		kit.Sleep(2 * time.Second)
		kit.Quiesce()
		if a, _ := events(); a != 0 {
			kit.Failf("event-for-aborted-handshake", "a connection that ended during the handshake (%d bytes, %s) produced %d Attaching event(s)", n, how, a)
		}
		g := ep.Connect()
		g.Feed(hdr)
		kit.Quiesce()
		kit.Sleep(2 * time.Second)
		kit.Quiesce()
	} else {
		w.dialer = true
		ep.HarnessListen(true)
		d, err := w.sock.NewDialer("tcp://"+addr, map[string]interface{}{mangos.OptionDialAsynch: true, mangos.OptionReconnectTime: 10 * time.Millisecond})
		if err != nil {
			kit.Failf("setup", "NewDialer: %s", kit.ErrName(err))
		}
		if err := d.Dial(); err != nil {
			kit.Failf("setup", "Dial: %s", kit.ErrName(err))
		}
		kit.Quiesce()
		if len(ep.Dialed) != 1 {
			kit.Failf("setup", "dialer made %d connections", len(ep.Dialed))
		}
		abort(ep.Dialed[0])
		kit.Quiesce()
		kit.Sleep(200 * time.Millisecond)
		kit.Quiesce()
		if a, _ := events(); a != 0 {
			kit.Failf("event-for-aborted-handshake", "a dialed connection that ended during the handshake (%d bytes, %s) produced %d Attaching event(s)", n, how, a)
		}
		if len(ep.Dialed) < 2 {
			kit.Failf("dialer-gave-up", "the server ended the handshake (%d bytes, %s) and the dialer never tried again", n, how)
		}
		ep.Dialed[len(ep.Dialed)-1].Feed(hdr)
		kit.Quiesce()
	}
	a, d := events()
	if a != 1 || d != 1 {
		kit.Failf("connection-ignored-after-aborted-handshake", "after a handshake aborted with %d bytes / %s the next well-behaved connection got Attaching x%d, Attached x%d (want 1, 1)", n, how, a, d)
	}
	kit.Count("attached-after-aborted-handshake")
	kit.Observe("side=%d n=%d %s", side, n, how)
	kit.Must("Socket.Close", func() { _ = w.sock.Close() })
}

// Bodies re-run by C11 under the race-instrumented build.
var RaceBodies = map[string]func(){
	"c13-attach-vs-drop": schedAttachDrop,
	"c13-inproc-dials-waiting-for-two-busy-listeners": func() { inprocBusyListeners(0, 1) },
}

// InprocBusyListeners: two or three sockets listen on different inproc addresses; the accept loop
// of each is busy (held in the Attaching callback of a first connection), and one further Dial per
// address is waiting for it.  The waiting Dials were issued in any order, the accept loops become
// free in any order: each time one does, the Dial waiting for *that* address - and no other -
// completes and its connection attaches; in the end everybody is connected and publications
// reach every subscriber.  (inproc keeps one process-wide wait queue for all addresses.)
func InprocBusyListeners() {
	n := 2 + kit.ChooseFree(2)
	np := 2
	if n == 3 {
		np = 6
	}
	inprocBusyListenersN(n, kit.ChooseFree(np), kit.ChooseFree(np))
}

func inprocBusyListeners(dialOrder, freeOrder int) { inprocBusyListenersN(2, dialOrder, freeOrder) }

var perms3 = [][]int{{0, 1, 2}, {0, 2, 1}, {1, 0, 2}, {1, 2, 0}, {2, 0, 1}, {2, 1, 0}}

func inprocBusyListenersN(n, dialOrder, freeOrder int) {
	perm := func(i int) []int {
		if n == 2 {
			return [][]int{{0, 1}, {1, 0}}[i]
		}
		return perms3[i]
	}
	type lst struct {
		s        mangos.Socket
		addr     string
		release  chan struct{}
		held     bool
		attached int
	}
	var ls []*lst
	var subs []mangos.Socket
	for i := 0; i < n; i++ {
		l := &lst{addr: fmt.Sprintf("inproc://c13-busy-%d", i), release: make(chan struct{})}
		l.s = core.MakeSocket(xpub.NewProtocol())
		first := true
		l.s.SetPipeEventHook(func(ev mangos.PipeEvent, p mangos.Pipe) {
			switch ev {
			case mangos.PipeEventAttaching:
				if first {
					first = false
					l.held = true
					<-l.release // the accept loop is held here: no Accept is outstanding meanwhile
					l.held = false
				}
			case mangos.PipeEventAttached:
				l.attached++
			}
		})
		if err := l.s.Listen(l.addr); err != nil {
			kit.Failf("setup", "Listen %s: %s", l.addr, kit.ErrName(err))
		}
		ls = append(ls, l)
	}
	dial := func(name, addr string) *kit.Call {
		c := core.MakeSocket(xsub.NewProtocol())
		subs = append(subs, c)
		call := kit.Start(name, func() (interface{}, error) { return nil, c.Dial(addr) })
		kit.Quiesce()
		return call
	}
	for i, l := range ls {
		c := dial(fmt.Sprintf("Dial-first:%d", i), l.addr)
		if !c.Done() || c.Err != nil || !l.held {
			kit.Failf("setup", "first Dial to %s: done=%v %s, accept loop held=%v", l.addr, c.Done(), kit.ErrName(c.Err), l.held)
		}
	}
	waiting := make([]*kit.Call, n)
	for _, i := range perm(dialOrder) {
		waiting[i] = dial(fmt.Sprintf("Dial-waiting:%d", i), ls[i].addr)
		if waiting[i].Done() {
			kit.Failf("setup", "the second Dial to %s returned (%s) although the accept loop is busy", ls[i].addr, kit.ErrName(waiting[i].Err))
		}
	}
	freed := map[int]bool{}
	for _, i := range perm(freeOrder) {
		close(ls[i].release)
		freed[i] = true
		kit.Quiesce()
		for j, w := range waiting {
			if freed[j] && (!w.Done() || w.Err != nil) {
				kit.Failf("dial-left-waiting:inproc", "the accept loop of %s is free again but the Dial that was waiting for it has not completed (done=%v %s); dials were issued in order %v, listeners freed so far %v",
					ls[j].addr, w.Done(), kit.ErrName(w.Err), perm(dialOrder), freed)
			}
			if !freed[j] && w.Done() {
				kit.Failf("dial-returned-early:inproc", "the Dial to %s returned %s while that listener's accept loop is still busy", ls[j].addr, kit.ErrName(w.Err))
			}
		}
		if ls[i].attached != 2 {
			kit.Failf("listener-stopped-accepting:inproc", "%s has %d attached connections after its accept loop became free, want 2", ls[i].addr, ls[i].attached)
		}
		kit.Count("waiting-dial-connected-when-its-listener-became-free")
	}
	kit.Observe("n=%d dial=%v free=%v", n, perm(dialOrder), perm(freeOrder))
	kit.Must("Close", func() {
		for _, l := range ls {
			_ = l.s.Close()
		}
		for _, c := range subs {
			_ = c.Close()
		}
	})
}


// TCPAborted is also run under C14: a dialer whose server hangs up during the handshake (at any
// byte, cleanly or by reset, or with a bad header) keeps redialling and attaches to the next peer.
func TCPAborted() { tcpAborted() }
