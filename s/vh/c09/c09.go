// Package c09 checks property C09: devices forward transparently and the hop limit is exact.
package c09

import (
	"fmt"
	"time"

	"go.nanomsg.org/mangos/v3"
	"go.nanomsg.org/mangos/v3/protocol/pair1"
	"go.nanomsg.org/mangos/v3/protocol/rep"
	"go.nanomsg.org/mangos/v3/protocol/req"
	"go.nanomsg.org/mangos/v3/protocol/respondent"
	"go.nanomsg.org/mangos/v3/protocol/star"
	"go.nanomsg.org/mangos/v3/protocol/surveyor"
	"go.nanomsg.org/mangos/v3/protocol/xpair1"
	"go.nanomsg.org/mangos/v3/protocol/xrep"
	"go.nanomsg.org/mangos/v3/protocol/xreq"
	"go.nanomsg.org/mangos/v3/protocol/xrespondent"
	"go.nanomsg.org/mangos/v3/protocol/xstar"
	"go.nanomsg.org/mangos/v3/protocol/xsurveyor"
	_ "go.nanomsg.org/mangos/v3/transport/inproc"
	"go.nanomsg.org/mangos/v3/vh/kit"
	"go.nanomsg.org/mangos/v3/vh/vt"
	"go.nanomsg.org/mangos/v3/vz/vexplore"
)

type ctor func() (mangos.Socket, error)

type receiver struct {
	name string
	c    ctor
	kind string // "words" (REQ/REP and SURVEY backtrace), "pair1", "star"
}

var receivers = []receiver{
	{"rep", rep.NewSocket, "words"},
	{"xrep", xrep.NewSocket, "words"},
	{"respondent", respondent.NewSocket, "words"},
	{"xrespondent", xrespondent.NewSocket, "words"},
	{"pair1", pair1.NewSocket, "pair1"},
	{"xpair1", xpair1.NewSocket, "pair1"},
	{"star", star.NewSocket, "star"},
	{"xstar", xstar.NewSocket, "star"},
}

func init() {
	vexplore.Register("C09", func(tier string) []*vexplore.Scenario {
		ttls := []int{0, 1, 2, 3, 254, 255} // 0 = leave the default (8)
		b := 1
		if tier == "thorough" {
			ttls = []int{0}
			for t := 1; t <= 255; t++ {
				ttls = append(ttls, t)
			}
			b = 2
		}
		var out []*vexplore.Scenario
		for _, r := range receivers {
			r := r
			out = append(out, &vexplore.Scenario{Name: "ttl-grid-" + r.name, Mode: "enum", Reset: kit.ResetGlobals, Body: func() { ttlGrid(r, ttls) },
				NeedCounters: []string{"delivered-at-limit", "dropped-over-limit"}})
		}
		out = append(out, &vexplore.Scenario{Name: "ttl-option-range", Mode: "enum", Reset: kit.ResetGlobals, Body: ttlRange})
		for n := 0; n <= 2; n++ {
			n := n
			bb := b
			if n == 2 && tier != "thorough" {
				bb = 0
			}
			out = append(out, &vexplore.Scenario{Name: fmt.Sprintf("reqrep-device-chain-%d", n), Mode: "sched", Bound: bb, Reset: kit.ResetGlobals, Body: func() { reqrepChain(n) }})
		}
		out = append(out,
			&vexplore.Scenario{Name: "survey-device-chain-1", Mode: "sched", Bound: b, Reset: kit.ResetGlobals, Body: surveyChain},
			&vexplore.Scenario{Name: "survey-device-chain-2-two-surveyors", Mode: "sched", Bound: b, Reset: kit.ResetGlobals, Body: surveyChain2},
			&vexplore.Scenario{Name: "pair1-device-chain-1", Mode: "sched", Bound: b, Reset: kit.ResetGlobals, Body: pair1Chain},
			&vexplore.Scenario{Name: "xreq-back-end-server-leaves-while-idle", Mode: "sched", Bound: b, Reset: kit.ResetGlobals, Body: xreqServerLeaves},
			&vexplore.Scenario{Name: "pair1-device-chain-ttl-is-each-receivers-own", Mode: "enum", Reset: kit.ResetGlobals, Body: pair1ChainTTL, NeedCounters: []string{"pair1-delivered-through-devices-with-a-lower-ttl", "pair1-dropped-by-a-device"}},
			&vexplore.Scenario{Name: "star-device-forwarder-ttl-is-the-receivers", Mode: "enum", Reset: kit.ResetGlobals, Body: starDeviceTTL, NeedCounters: []string{"star-forwarded-by-device"}},
			&vexplore.Scenario{Name: "reqrep-device-ttl-exact", Mode: "enum", Reset: kit.ResetGlobals, Body: deviceTTL},
		)
		return out
	})
}

func must(err error, what string) {
	if err != nil {
		kit.Failf("setup:"+what, "%s: %s", what, kit.ErrName(err))
	}
}

// crossed builds a transport message that has crossed h connections.
func crossed(kind string, h int, body string) []byte {
	var b []byte
	switch kind {
	case "words":
		for i := 0; i < h-1; i++ {
			b = append(b, 0, 0, byte(i>>8), byte(i)|1)
		}
		b = append(b, 0x80, 0, 0, 1)
	default:
		b = append(b, 0, 0, 0, byte(h-1))
	}
	return append(b, body...)
}

func ttlGrid(r receiver, ttls []int) {
	hi := kit.ChooseFree((len(ttls) + 15) / 16)
	lo := kit.ChooseFree(16)
	if hi*16+lo >= len(ttls) {
		return
	}
	ttl := ttls[hi*16+lo]
	s, err := r.c()
	must(err, "NewSocket")
	eff := 8
	// the TTL is set before anybody is connected or (free choice) on the connected socket: either
	// way it is the limit for every message that arrives afterwards, the very first one included
	late := ttl != 0 && kit.ChooseFree(2) == 1
	if ttl != 0 && !late {
		must(s.SetOption(mangos.OptionTTL, ttl), "SetOption(TTL)")
		eff = ttl
	}
	ep := vt.Get("ttl")
	must(s.Listen("vt://ttl"), "Listen")
	p := ep.Connect()
	kit.Quiesce()
	if late {
		must(s.SetOption(mangos.OptionTTL, ttl), "SetOption(TTL)")
		eff = ttl
		kit.Quiesce()
		kit.Count("ttl-changed-while-connected")
	}
	if v, err := s.GetOption(mangos.OptionTTL); err != nil || v.(int) != eff {
		kit.Failf("ttl-get:"+r.name, "%s: GetOption(TTL) = %v, %s; want %d", r.name, v, kit.ErrName(err), eff)
	}
	var lastHdr []byte
	recv := func() *kit.Call {
		c := kit.Start("Recv", func() (interface{}, error) {
			m, err := s.RecvMsg()
			if err != nil {
				return nil, err
			}
			lastHdr = append([]byte{}, m.Header...)
			return string(m.Body), nil
		})
		kit.Quiesce()
		return c
	}
	raw := false
	if v, err := s.GetOption(mangos.OptionRaw); err == nil {
		raw, _ = v.(bool)
	}
	// answer: a request / survey that was delivered can be answered, and the answer travels back
	// with exactly the routing words the request arrived with (request-reply kinds only)
	answer := func(h int) {
		if r.kind != "words" {
			return
		}
		bt := crossed(r.kind, h, "")
		body := fmt.Sprintf("answer-h%d", h)
		before := p.NumSent()
		c := kit.Start("Send", func() (interface{}, error) {
			if !raw {
				return nil, kit.SendBytes(s, []byte(body))
			}
			if len(lastHdr) != 4+len(bt) || lastHdr[0]&0x80 != 0 || string(lastHdr[4:]) != string(bt) || string(lastHdr[:4]) == "\x00\x00\x00\x00" {
				kit.Failf("raw-header-after-hops:"+r.name, "%s: a request that crossed %d connection(s) was delivered with header %x, want a non-zero pipe id followed by the %d routing bytes %x", r.name, h, lastHdr, len(bt), bt)
			}
			m := mangos.NewMessage(len(body))
			m.Header = append(m.Header, lastHdr...)
			m.Body = append(m.Body, body...)
			return nil, s.SendMsg(m)
		})
		kit.Quiesce()
		if !c.Done() || c.Err != nil {
			kit.Failf("answer-send:"+r.name, "%s: answering a request that crossed %d connection(s): done=%v %s", r.name, h, c.Done(), kit.ErrName(c.Err))
		}
		l := p.SentLog()
		if len(l) != before+1 || string(l[len(l)-1].Data) != string(bt)+body {
			kit.Failf("answer-lost-after-hops:"+r.name, "%s with TTL %d: a request that crossed %d connection(s) was delivered and answered, but the answer did not go back with its %d routing bytes (peer got %d message(s))", r.name, eff, h, len(bt), len(l)-before)
		}
		kit.Count("answered-at-hops")
	}
	maxh := eff + 2
	if r.kind != "words" && maxh > 256 {
		maxh = 256 // hop byte 255 is the last value that exists
	}
	var order []int
	for h := 1; h <= maxh; h++ {
		order = append(order, h)
	}
	if late {
		// the first message after the change lies between the old limit (8) and the new one
		first := 1
		over := 0
		if r.kind == "pair1" {
			over = 1
		}
		switch {
		case eff < 8:
			first = eff + 1 + over
		case eff > 8:
			first = 9 + over
		}
		order = append([]int{first}, order...)
	}
	for _, h := range order {
		want := h <= eff
		if r.kind == "pair1" {
			want = h-1 <= eff // PAIR1 counts forwarders
		}
		if r.kind != "words" && h-1 == 255 {
			// a hop byte of 255 cannot be counted up any more: it has to be dropped whatever the TTL,
			// or a forwarding loop would wrap round to 0 and never die out
			want = false
		}
		probe := fmt.Sprintf("probe-h%d", h)
		if h%3 == 1 {
			probe = "" // a message without payload is a message like any other
			kit.Count("empty-payload-probe")
		}
		p.Deliver(crossed(r.kind, h, probe))
		p.Deliver(crossed(r.kind, 1, "sentinel"))
		kit.Quiesce()
		c := recv()
		if !c.Done() || c.Err != nil {
			kit.Failf("ttl-recv-stuck:"+r.name, "%s ttl=%d: Recv done=%v %s although an in-limit sentinel was sent", r.name, eff, c.Done(), kit.ErrName(c.Err))
		}
		got := c.Val.(string)
		if want {
			if got != probe {
				kit.Failf(fmt.Sprintf("ttl-dropped-in-limit:%s", r.name), "%s with TTL %d dropped a message that crossed %d connection(s) (got %q next)", r.name, eff, h, got)
			}
			if h == eff || (r.kind == "pair1" && h-1 == eff) {
				kit.Count("delivered-at-limit")
			}
			answer(h)
			c = recv()
			if !c.Done() || c.Err != nil || c.Val.(string) != "sentinel" {
				kit.Failf("ttl-sentinel:"+r.name, "%s ttl=%d h=%d: sentinel: done=%v %s %q", r.name, eff, h, c.Done(), kit.ErrName(c.Err), c.Val)
			}
		} else {
			if got != "sentinel" {
				kit.Failf(fmt.Sprintf("ttl-delivered-over-limit:%s", r.name), "%s with TTL %d delivered a message that crossed %d connection(s)", r.name, eff, h)
			}
			kit.Count("dropped-over-limit")
		}
	}
	kit.Observe("%s ttl=%d late=%v", r.name, eff, late)
	kit.Must("Close", func() { _ = s.Close() })
}

func ttlRange() {
	r := receivers[kit.ChooseFree(len(receivers))]
	s, err := r.c()
	must(err, "NewSocket")
	for _, v := range []interface{}{0, -1, 256, 1 << 20, int64(3), "3", nil, true} {
		if err := s.SetOption(mangos.OptionTTL, v); err != mangos.ErrBadValue {
			kit.Failf("ttl-range:"+r.name, "%s: SetOption(TTL, %v) returned %s, want ErrBadValue", r.name, v, kit.ErrName(err))
		}
	}
	for _, v := range []int{1, 2, 8, 254, 255} {
		if err := s.SetOption(mangos.OptionTTL, v); err != nil {
			kit.Failf("ttl-range:"+r.name, "%s: SetOption(TTL, %d) returned %s", r.name, v, kit.ErrName(err))
		}
		if g, err := s.GetOption(mangos.OptionTTL); err != nil || g.(int) != v {
			kit.Failf("ttl-range-get:"+r.name, "%s: TTL set to %d reads back %v (%s)", r.name, v, g, kit.ErrName(err))
		}
	}
	kit.Observe("%s", r.name)
	_ = s.Close()
}

// device builds one forwarder: front (raw, listens on inAddr) <-> back (raw, dials outAddr)
func device(fc, bc ctor, inAddr, outAddr string) []mangos.Socket {
	f, err := fc()
	must(err, "NewSocket")
	b, err := bc()
	must(err, "NewSocket")
	must(f.Listen(inAddr), "Listen")
	must(b.Dial(outAddr), "Dial")
	must(mangos.Device(f, b), "Device")
	return []mangos.Socket{f, b}
}

// reqrepChain: two REQ clients, n devices, one REP server; both requests in flight.
func reqrepChain(n int) {
	srv, err := rep.NewSocket()
	must(err, "NewSocket")
	must(srv.Listen("inproc://c09-hop0"), "Listen")
	var all []mangos.Socket
	for i := 0; i < n; i++ {
		all = append(all, device(xrep.NewSocket, xreq.NewSocket, fmt.Sprintf("inproc://c09-hop%d", i+1), fmt.Sprintf("inproc://c09-hop%d", i))...)
	}
	front := fmt.Sprintf("inproc://c09-hop%d", n)
	var clients []mangos.Socket
	for i := 0; i < 2; i++ {
		c, err := req.NewSocket()
		must(err, "NewSocket")
		must(c.Dial(front), "Dial")
		clients = append(clients, c)
	}
	kit.Quiesce()
	var calls []*kit.Call
	for i, c := range clients {
		i, c := i, c
		calls = append(calls, kit.Start(fmt.Sprintf("client%d", i), func() (interface{}, error) {
			q := fmt.Sprintf("question-%d", i)
			if err := kit.SendBytes(c, []byte(q)); err != nil {
				return nil, err
			}
			b, err := kit.Recv(c)
			return string(b), err
		}))
	}
	sc := kit.Start("server", func() (interface{}, error) {
		for i := 0; i < 2; i++ {
			b, err := kit.Recv(srv)
			if err != nil {
				return nil, err
			}
			if err := kit.SendBytes(srv, []byte("answer-to-"+string(b))); err != nil {
				return nil, err
			}
		}
		return nil, nil
	})
	kit.Quiesce()
	if !sc.Done() || sc.Err != nil {
		kit.Failf("chain-server", "chain of %d devices: server done=%v %s", n, sc.Done(), kit.ErrName(sc.Err))
	}
	for i, c := range calls {
		want := fmt.Sprintf("answer-to-question-%d", i)
		if !c.Done() || c.Err != nil {
			kit.Failf("chain-client-stuck", "chain of %d devices: client %d done=%v %s", n, i, c.Done(), kit.ErrName(c.Err))
		}
		if c.Val.(string) != want {
			kit.Failf("chain-reply-swapped", "chain of %d devices: client %d received %q, want %q", n, i, c.Val, want)
		}
	}
	kit.Must("Close", func() {
		for _, s := range append(append(clients, all...), srv) {
			_ = s.Close()
		}
	})
}

func surveyChain() {
	sv, err := surveyor.NewSocket()
	must(err, "NewSocket")
	must(sv.Listen("inproc://c09-sv"), "Listen")
	// device: xrespondent side dials the surveyor, xsurveyor side listens for respondents
	xr, err := xrespondent.NewSocket()
	must(err, "NewSocket")
	xs, err := xsurveyor.NewSocket()
	must(err, "NewSocket")
	must(xs.Listen("inproc://c09-dev"), "Listen")
	must(xr.Dial("inproc://c09-sv"), "Dial")
	must(mangos.Device(xr, xs), "Device")
	var rs []mangos.Socket
	for i := 0; i < 2; i++ {
		r, err := respondent.NewSocket()
		must(err, "NewSocket")
		must(r.Dial("inproc://c09-dev"), "Dial")
		rs = append(rs, r)
	}
	kit.Quiesce()
	var calls []*kit.Call
	for i, r := range rs {
		i, r := i, r
		calls = append(calls, kit.Start(fmt.Sprintf("respondent%d", i), func() (interface{}, error) {
			b, err := kit.Recv(r)
			if err != nil {
				return nil, err
			}
			return string(b), kit.SendBytes(r, []byte(fmt.Sprintf("vote-%d", i)))
		}))
	}
	must(kit.SendBytes(sv, []byte("the-survey")), "Send survey")
	var got []string
	rc := kit.Start("surveyor", func() (interface{}, error) {
		for i := 0; i < 2; i++ {
			b, err := kit.Recv(sv)
			if err != nil {
				return nil, err
			}
			got = append(got, string(b))
		}
		return nil, nil
	})
	kit.Quiesce()
	for i, c := range calls {
		if !c.Done() || c.Err != nil || c.Val.(string) != "the-survey" {
			kit.Failf("survey-chain-respondent", "respondent %d: done=%v %s %q", i, c.Done(), kit.ErrName(c.Err), c.Val)
		}
	}
	if !rc.Done() || rc.Err != nil {
		kit.Failf("survey-chain-surveyor", "surveyor: done=%v %s got %q", rc.Done(), kit.ErrName(rc.Err), got)
	}
	if !(len(got) == 2 && got[0] != got[1] && (got[0] == "vote-0" || got[0] == "vote-1") && (got[1] == "vote-0" || got[1] == "vote-1")) {
		kit.Failf("survey-chain-responses", "surveyor received %q, want vote-0 and vote-1 once each", got)
	}
	kit.Must("Close", func() {
		for _, s := range append(rs, sv, xr, xs) {
			_ = s.Close()
		}
	})
}

// surveyChain2: two surveyors reach one respondent through two devices in a row, so that both
// surveys travel over the same connection between the devices and wait behind each other; the
// respondent answers them one after the other.  Each surveyor receives the answer to its own
// survey and nothing else.
func surveyChain2() {
	var svs []mangos.Socket
	for i := 0; i < 2; i++ {
		sv, err := surveyor.NewSocket()
		must(err, "NewSocket")
		must(sv.SetOption(mangos.OptionSurveyTime, time.Hour), "SurveyTime")
		must(sv.Listen(fmt.Sprintf("inproc://c09-sv2-%d", i)), "Listen")
		svs = append(svs, sv)
	}
	mk := func(up []string, down string) (mangos.Socket, mangos.Socket) {
		xr, err := xrespondent.NewSocket()
		must(err, "NewSocket")
		xs, err := xsurveyor.NewSocket()
		must(err, "NewSocket")
		must(xs.Listen(down), "Listen")
		for _, u := range up {
			must(xr.Dial(u), "Dial")
		}
		must(mangos.Device(xr, xs), "Device")
		return xr, xs
	}
	xr1, xs1 := mk([]string{"inproc://c09-sv2-0", "inproc://c09-sv2-1"}, "inproc://c09-dev2a")
	xr2, xs2 := mk([]string{"inproc://c09-dev2a"}, "inproc://c09-dev2b")
	r, err := respondent.NewSocket()
	must(err, "NewSocket")
	must(r.Dial("inproc://c09-dev2b"), "Dial")
	kit.Quiesce()
	rc := kit.Start("respondent", func() (interface{}, error) {
		for i := 0; i < 2; i++ {
			b, err := kit.Recv(r)
			if err != nil {
				return nil, err
			}
			if err := kit.SendBytes(r, []byte("answer-to-"+string(b))); err != nil {
				return nil, err
			}
		}
		return nil, nil
	})
	var calls []*kit.Call
	for i, sv := range svs {
		i, sv := i, sv
		calls = append(calls, kit.Start(fmt.Sprintf("surveyor%d", i), func() (interface{}, error) {
			if err := kit.SendBytes(sv, []byte(fmt.Sprintf("survey-%d", i))); err != nil {
				return nil, err
			}
			b, err := kit.Recv(sv)
			return string(b), err
		}))
	}
	kit.Quiesce()
	if !rc.Done() || rc.Err != nil {
		kit.Failf("survey-chain-respondent", "respondent behind two devices: done=%v %s", rc.Done(), kit.ErrName(rc.Err))
	}
	for i, c := range calls {
		want := fmt.Sprintf("answer-to-survey-%d", i)
		if !c.Done() || c.Err != nil {
			kit.Failf("survey-chain-surveyor-stuck", "two surveyors through two devices: surveyor %d done=%v %s (its answer went elsewhere or nowhere)", i, c.Done(), kit.ErrName(c.Err))
		}
		if c.Val.(string) != want {
			kit.Failf("survey-chain-answer-swapped", "two surveyors through two devices: surveyor %d received %q, want %q", i, c.Val, want)
		}
	}
	kit.Must("Close", func() {
		for _, s := range append(svs, xr1, xs1, xr2, xs2, r) {
			_ = s.Close()
		}
	})
}

func pair1Chain() {
	a, err := pair1.NewSocket()
	must(err, "NewSocket")
	b, err := pair1.NewSocket()
	must(err, "NewSocket")
	must(b.Listen("inproc://c09-p1b"), "Listen")
	d := device(xpair1.NewSocket, xpair1.NewSocket, "inproc://c09-p1a", "inproc://c09-p1b")
	must(a.Dial("inproc://c09-p1a"), "Dial")
	kit.Quiesce()
	ca := kit.Start("A", func() (interface{}, error) {
		if err := kit.SendBytes(a, []byte("ping")); err != nil {
			return nil, err
		}
		x, err := kit.Recv(a)
		return string(x), err
	})
	cb := kit.Start("B", func() (interface{}, error) {
		x, err := kit.Recv(b)
		if err != nil {
			return nil, err
		}
		return string(x), kit.SendBytes(b, []byte("pong"))
	})
	kit.Quiesce()
	if !ca.Done() || ca.Err != nil || ca.Val.(string) != "pong" {
		kit.Failf("pair1-chain-a", "A: done=%v %s %q", ca.Done(), kit.ErrName(ca.Err), ca.Val)
	}
	if !cb.Done() || cb.Err != nil || cb.Val.(string) != "ping" {
		kit.Failf("pair1-chain-b", "B: done=%v %s %q", cb.Done(), kit.ErrName(cb.Err), cb.Val)
	}
	kit.Must("Close", func() {
		for _, s := range append(d, a, b) {
			_ = s.Close()
		}
	})
}

// xreqServerLeaves: the back end of a REQ/REP device is a raw REQ socket with 2-3 servers.  One or
// two of them leave while nothing is in flight; the clients' traffic goes on.  Every request the
// device forwards afterwards is handed, exactly once and unchanged, to a server that is still
// there - a connection that has gone takes nothing with it.
func xreqServerLeaves() {
	np := 2 + kit.ChooseFree(2)
	leave := 1 + kit.ChooseFree(np-1)
	first := kit.ChooseFree(np)
	s, err := xreq.NewSocket()
	must(err, "NewSocket")
	ep := vt.Get("c09xr")
	must(s.Listen("vt://c09xr"), "Listen")
	var pipes []*vt.Pipe
	for i := 0; i < np; i++ {
		pipes = append(pipes, ep.Connect())
		kit.Quiesce()
	}
	send := func(i int) {
		m := mangos.NewMessage(16)
		m.Header = append(m.Header, 0, 0, 0, 7, 0x80, 0, 0, byte(i))
		m.Body = append(m.Body, fmt.Sprintf("req-%d", i)...)
		c := kit.Start("SendMsg", func() (interface{}, error) { return nil, s.SendMsg(m) })
		kit.Quiesce()
		if !c.Done() || c.Err != nil {
			kit.Failf("send-stuck", "raw REQ SendMsg %d with %d live server(s): done=%v %s", i, np-leave, c.Done(), kit.ErrName(c.Err))
		}
	}
	send(0)
	for k := 0; k < leave; k++ {
		pipes[(first+k)%np].DropNow()
	}
	kit.Quiesce()
	n := 4
	for i := 1; i <= n; i++ {
		send(i)
	}
	seen := map[string]int{}
	for pi, p := range pipes {
		for _, sm := range p.SentLog() {
			b := string(sm.Data[8:])
			seen[b]++
			if !p.Alive() && b != "req-0" {
				kit.Failf("request-given-to-a-departed-server", "request %q was handed to connection %d, which had gone before the request was made", b, pi)
			}
		}
	}
	for i := 0; i <= n; i++ {
		if c := seen[fmt.Sprintf("req-%d", i)]; c != 1 {
			kit.Failf("request-lost-after-a-server-left", "raw REQ with %d servers of which %d left while idle: request %d was transmitted %d times (want once, to a server that is still there); transmitted: %v", np, leave, i, c, seen)
		}
	}
	kit.Observe("np=%d leave=%d", np, leave)
	kit.Must("Close", func() { _ = s.Close() })
}

// pair1ChainTTL: two cooked PAIR1 sockets joined by n = 1..4 devices whose raw sockets have a hop
// limit of their own (1, 2, 3 or the default), the end points another (2, default).  A message is
// dropped only by a socket that RECEIVES it with more forwarders behind it than that socket's own
// limit permits (PAIR1 counts forwarders: the k-th device receives it with k-1 behind it, the far
// end with n) - a sender's limit plays no part.  So it arrives iff n-1 <= device limit and n <= the
// receiving end's limit, in both directions; what does arrive is unchanged.
func pair1ChainTTL() {
	n := 1 + kit.ChooseFree(4)
	td := []int{1, 2, 3, 8}[kit.ChooseFree(4)]
	te := []int{2, 8}[kit.ChooseFree(2)]
	a, err := pair1.NewSocket()
	must(err, "NewSocket")
	b, err := pair1.NewSocket()
	must(err, "NewSocket")
	must(a.SetOption(mangos.OptionTTL, te), "TTL")
	must(b.SetOption(mangos.OptionTTL, te), "TTL")
	all := []mangos.Socket{a, b}
	must(b.Listen("inproc://c09-pt-0"), "Listen")
	for i := 0; i < n; i++ {
		f, err := xpair1.NewSocket()
		must(err, "NewSocket")
		g, err := xpair1.NewSocket()
		must(err, "NewSocket")
		must(f.SetOption(mangos.OptionTTL, td), "TTL")
		must(g.SetOption(mangos.OptionTTL, td), "TTL")
		must(f.Listen(fmt.Sprintf("inproc://c09-pt-%d", i+1)), "Listen")
		must(g.Dial(fmt.Sprintf("inproc://c09-pt-%d", i)), "Dial")
		must(mangos.Device(f, g), "Device")
		all = append(all, f, g)
	}
	must(a.Dial(fmt.Sprintf("inproc://c09-pt-%d", n)), "Dial")
	kit.Quiesce()
	want := n-1 <= td && n <= te
	for dir, pr := range [][2]mangos.Socket{{a, b}, {b, a}} {
		body := fmt.Sprintf("through-%d-devices-dir%d", n, dir)
		sc := kit.Start("Send", func() (interface{}, error) { return nil, kit.SendBytes(pr[0], []byte(body)) })
		kit.Quiesce()
		if !sc.Done() || sc.Err != nil {
			kit.Failf("send-stuck", "pair1 chain: Send done=%v %s", sc.Done(), kit.ErrName(sc.Err))
		}
		rc := kit.Start("Recv", func() (interface{}, error) { x, err := kit.Recv(pr[1]); return string(x), err })
		kit.Quiesce()
		switch {
		case want && (!rc.Done() || rc.Err != nil || rc.Val.(string) != body):
			kit.Failf("pair1-chain-dropped", "PAIR1 through %d device(s) with hop limit %d, end points %d (direction %d): no receiver saw more forwarders than its own limit, yet the message did not arrive (Recv done=%v %s %q)", n, td, te, dir, rc.Done(), kit.ErrName(rc.Err), rc.Val)
		case !want && rc.Done() && rc.Err == nil:
			kit.Failf("pair1-chain-delivered-beyond-limit", "PAIR1 through %d device(s) with hop limit %d, end points %d: delivered %q although a receiver's limit was exceeded", n, td, te, rc.Val)
		}
		if !rc.Done() {
			// leave no Recv pending on the socket for the other direction: a sentinel cannot cross either; close at the end
		}
	}
	if want && td < 8 && n > 1 {
		kit.Count("pair1-delivered-through-devices-with-a-lower-ttl")
	}
	if !want {
		kit.Count("pair1-dropped-by-a-device")
	}
	kit.Observe("n=%d td=%d te=%d %v", n, td, te, want)
	kit.Must("Close", func() {
		for _, s := range all {
			_ = s.Close()
		}
	})
}

// deviceTTL: through n real devices a request crosses n+1 connections; with the server's TTL
// set to t it is served iff n+1 <= t (the client is given a receive deadline in virtual time).
// starDeviceTTL: two STAR members joined by a forwarder (a device between two raw STAR sockets).
// Whether a message is delivered depends on the connections it crossed (2) and on the TTL of the
// socket that receives it - the TTL of the socket the forwarder sends from plays no part: with the
// receiving member at TTL t it is delivered iff 2 <= t, whatever TTL (1, 2, default) the forwarder's
// outgoing socket has.
func starDeviceTTL() {
	outTTL := []int{0, 1, 2, 3}[kit.ChooseFree(4)] // 0 = leave the default
	recvTTL := []int{0, 1, 2, 3}[kit.ChooseFree(4)]
	dir := kit.ChooseFree(2)
	f, err := xstar.NewSocket()
	must(err, "NewSocket")
	b, err := xstar.NewSocket()
	must(err, "NewSocket")
	must(f.Listen("inproc://c09-sd-f"), "Listen")
	must(b.Listen("inproc://c09-sd-b"), "Listen")
	out := b
	if dir == 1 {
		out = f
	}
	if outTTL > 0 {
		must(out.SetOption(mangos.OptionTTL, outTTL), "TTL")
	}
	must(mangos.Device(f, b), "Device")
	x, err := star.NewSocket()
	must(err, "NewSocket")
	y, err := star.NewSocket()
	must(err, "NewSocket")
	must(x.Dial("inproc://c09-sd-f"), "Dial")
	must(y.Dial("inproc://c09-sd-b"), "Dial")
	snd, rcv := x, y
	if dir == 1 {
		snd, rcv = y, x
	}
	if recvTTL > 0 {
		must(rcv.SetOption(mangos.OptionTTL, recvTTL), "TTL")
	}
	kit.Quiesce()
	must(kit.SendBytes(snd, []byte("through-the-forwarder")), "Send")
	rc := kit.Start("Recv", func() (interface{}, error) { v, err := kit.Recv(rcv); return string(v), err })
	kit.Quiesce()
	limit := recvTTL
	if limit == 0 {
		limit = 8
	}
	want := 2 <= limit
	if want != rc.Done() {
		kit.Failf("star-forwarder-ttl", "STAR member -> forwarder (outgoing socket TTL %d, 0 = default) -> STAR member with TTL %d (0 = default): 2 connections crossed, delivered=%v, want %v", outTTL, recvTTL, rc.Done(), want)
	}
	if rc.Done() && (rc.Err != nil || rc.Val.(string) != "through-the-forwarder") {
		kit.Failf("star-forwarder-payload", "received %q / %s", rc.Val, kit.ErrName(rc.Err))
	}
	if want {
		kit.Count("star-forwarded-by-device")
	}
	kit.Observe("%d %d %d", outTTL, recvTTL, dir)
	kit.Must("Close", func() {
		for _, s := range []mangos.Socket{x, y, f, b} {
			_ = s.Close()
		}
	})
}

func deviceTTL() {
	n := kit.ChooseFree(3)     // devices 0..2
	t := 1 + kit.ChooseFree(3) // ttl 1..3
	srv, err := rep.NewSocket()
	must(err, "NewSocket")
	must(srv.SetOption(mangos.OptionTTL, t), "TTL")
	must(srv.Listen("inproc://c09-t0"), "Listen")
	var all []mangos.Socket
	for i := 0; i < n; i++ {
		all = append(all, device(xrep.NewSocket, xreq.NewSocket, fmt.Sprintf("inproc://c09-t%d", i+1), fmt.Sprintf("inproc://c09-t%d", i))...)
	}
	c, err := req.NewSocket()
	must(err, "NewSocket")
	must(c.Dial(fmt.Sprintf("inproc://c09-t%d", n)), "Dial")
	kit.Quiesce()
	sc := kit.Start("server", func() (interface{}, error) {
		b, err := kit.Recv(srv)
		if err != nil {
			return nil, err
		}
		return string(b), kit.SendBytes(srv, []byte("served"))
	})
	must(kit.SendBytes(c, []byte("q")), "Send")
	rc := kit.Start("client", func() (interface{}, error) { b, err := kit.Recv(c); return string(b), err })
	kit.Quiesce()
	want := n+1 <= t
	if want {
		if !rc.Done() || rc.Err != nil || rc.Val.(string) != "served" {
			kit.Failf("device-ttl-dropped", "%d device(s), server TTL %d: request crossed %d connections but was not served (client done=%v %s)", n, t, n+1, rc.Done(), kit.ErrName(rc.Err))
		}
	} else if sc.Done() {
		kit.Failf("device-ttl-delivered", "%d device(s), server TTL %d: request crossed %d connections and was still delivered", n, t, n+1)
	}
	kit.Observe("n=%d t=%d served=%v", n, t, want)
	kit.Must("Close", func() {
		for _, s := range append(all, c, srv) {
			_ = s.Close()
		}
	})
}

// Bodies re-run by C11 under the race-instrumented build.
var RaceBodies = map[string]func(){
	"c09-reqrep-device-chain-1": func() { reqrepChain(1) },
	"c09-survey-device-chain":   surveyChain,
	"c09-pair1-device-chain":    pair1Chain,
}
