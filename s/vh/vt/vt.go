// Package vt is a virtual mangos transport ("vt://name") whose far end is the
// harness: the harness sees every transport message mangos writes (header and
// body, with the virtual time), fabricates the messages mangos reads, and
// decides dial / accept / loss outcomes.  It is registered through the public
// transport registry and passed through vrewrite like mangos itself.
package vt

import (
	"errors"
	"fmt"
	"sync"
	"time"

	"go.nanomsg.org/mangos/v3"
	"go.nanomsg.org/mangos/v3/transport"
	"go.nanomsg.org/mangos/v3/vz/vsched"
)

// ErrDropped is returned by pipe operations after the harness dropped the connection.
var ErrDropped = errors.New("vt: connection dropped by peer")

// ErrHandshake is a dial outcome that stands for a failed SP handshake.
var ErrHandshake = errors.New("vt: handshake failed")

// Sent is one transport message written by mangos.
type Sent struct {
	Data []byte // header followed by body
	HLen int    // length of the header part
	At   time.Duration
	// EnterSeq is the value of the global logical clock when mangos called Send for this message
	// (a Send may complete much later than it was issued when the peer is slow).
	EnterSeq int
}

var tick int

// Tick advances and returns the global logical clock of the virtual transport.
func Tick() int { tick++; return tick }

// Pipe is one connection; mangos holds it as a transport.Pipe, the harness as *Pipe.
type Pipe struct {
	lateOK bool
	lost   int
	ep       *Endpoint
	Index    int
	mu       sync.Mutex
	cv       *sync.Cond
	inq      [][]byte
	sent     []Sent
	hold     bool // sends block until Take
	credits  int
	dropped  bool
	closed   bool // closed by mangos
	sendWait int
	recvWait int
	nsend    int
	opts     map[string]interface{}
}

// Endpoint is the harness handle for the address vt://name.
type Endpoint struct {
	Name      string
	mu        sync.Mutex
	cv        *sync.Cond
	selfProto uint16
	peerProto uint16
	// dialer side
	script    []DialOutcome
	deflt     DialOutcome
	Dials     []DialRecord
	holdq     int // number of Dial calls blocked in Hold
	release   []DialOutcome
	// listener side
	listening bool
	lclosed   bool
	listenErr error
	pending   []*Pipe
	accepting int
	Pipes     []*Pipe
	HoldNew   bool // pipes are created with hold set
	Wrap      bool // received messages wrap the transport's own buffer (NewMessage(0) + Body = frame), as the WebSocket transport's do
}

// DialOutcome is the scripted answer to one Dial call.
type DialOutcome int

const (
	DialOK DialOutcome = iota
	DialRefused
	DialHandshake
	DialBadProto
	DialHold // block until ReleaseDial
)

// DialRecord logs one Dial call.
type DialRecord struct {
	At      time.Duration
	Outcome DialOutcome
}

var (
	regMu     sync.Mutex
	endpoints = map[string]*Endpoint{}
)

// Reset forgets all endpoints (between executions; runs outside the scheduler).
func Reset() { endpoints = map[string]*Endpoint{}; tick = 0 }

// Get returns (creating if needed) the endpoint handle for a name.
func Get(name string) *Endpoint {
	regMu.Lock()
	defer regMu.Unlock()
	ep := endpoints[name]
	if ep == nil {
		ep = &Endpoint{Name: name}
		ep.cv = sync.NewCond(&ep.mu)
		endpoints[name] = ep
	}
	return ep
}

type tran struct{}

func (tran) Scheme() string { return "vt" }

func (t tran) NewDialer(addr string, sock mangos.Socket) (transport.Dialer, error) {
	name, err := transport.StripScheme(t, addr)
	if err != nil {
		return nil, err
	}
	ep := Get(name)
	ep.selfProto, ep.peerProto = sock.Info().Self, sock.Info().Peer
	return &dialer{ep: ep, addr: addr, opts: map[string]interface{}{}}, nil
}

func (t tran) NewListener(addr string, sock mangos.Socket) (transport.Listener, error) {
	name, err := transport.StripScheme(t, addr)
	if err != nil {
		return nil, err
	}
	ep := Get(name)
	ep.selfProto, ep.peerProto = sock.Info().Self, sock.Info().Peer
	return &listener{ep: ep, addr: addr, opts: map[string]interface{}{}}, nil
}

func init() { transport.RegisterTransport(tran{}) }

// ---------------------------------------------------------------------------
// dialer

type dialer struct {
	ep   *Endpoint
	addr string
	opts map[string]interface{}
}

// Script sets the outcomes of the next Dial calls; afterwards deflt applies.
func (ep *Endpoint) Script(deflt DialOutcome, outcomes ...DialOutcome) {
	ep.mu.Lock()
	ep.script = append([]DialOutcome{}, outcomes...)
	ep.deflt = deflt
	ep.mu.Unlock()
}

// ReleaseDial lets one Dial blocked in DialHold finish with outcome o.
func (ep *Endpoint) ReleaseDial(o DialOutcome) {
	ep.mu.Lock()
	ep.release = append(ep.release, o)
	ep.cv.Broadcast()
	ep.mu.Unlock()
}

// HeldDials is the number of Dial calls currently blocked in DialHold.
func (ep *Endpoint) HeldDials() int {
	ep.mu.Lock()
	defer ep.mu.Unlock()
	return ep.holdq
}

// NumDials is the number of Dial calls made so far.
func (ep *Endpoint) NumDials() int {
	ep.mu.Lock()
	defer ep.mu.Unlock()
	return len(ep.Dials)
}

func (d *dialer) Dial() (transport.Pipe, error) {
	ep := d.ep
	ep.mu.Lock()
	defer ep.mu.Unlock()
	o := ep.deflt
	if len(ep.script) > 0 {
		o = ep.script[0]
		ep.script = ep.script[1:]
	}
	ep.Dials = append(ep.Dials, DialRecord{At: vsched.Now(), Outcome: o})
	if o == DialHold {
		ep.holdq++
		for len(ep.release) == 0 {
			ep.cv.Wait()
		}
		ep.holdq--
		o = ep.release[0]
		ep.release = ep.release[1:]
	}
	switch o {
	case DialRefused:
		return nil, mangos.ErrConnRefused
	case DialHandshake:
		return nil, ErrHandshake
	case DialBadProto:
		return nil, mangos.ErrBadProto
	}
	p := ep.newPipeLocked()
	return p, nil
}

func (d *dialer) SetOption(n string, v interface{}) error {
	switch n {
	case mangos.OptionMaxRecvSize:
		if _, ok := v.(int); !ok {
			return mangos.ErrBadValue
		}
		d.opts[n] = v
		return nil
	}
	return mangos.ErrBadOption
}

func (d *dialer) GetOption(n string) (interface{}, error) {
	if v, ok := d.opts[n]; ok {
		return v, nil
	}
	return nil, mangos.ErrBadOption
}

// ---------------------------------------------------------------------------
// listener

type listener struct {
	ep     *Endpoint
	addr   string
	opts   map[string]interface{}
	closed bool
}

// FailListen makes the next Listen calls fail with err (nil = succeed).
func (ep *Endpoint) FailListen(err error) {
	ep.mu.Lock()
	ep.listenErr = err
	ep.mu.Unlock()
}

func (l *listener) Listen() error {
	ep := l.ep
	ep.mu.Lock()
	defer ep.mu.Unlock()
	if l.closed {
		return mangos.ErrClosed
	}
	if ep.listenErr != nil {
		return ep.listenErr
	}
	if ep.listening {
		return mangos.ErrAddrInUse
	}
	ep.listening = true
	return nil
}

func (l *listener) Accept() (transport.Pipe, error) {
	ep := l.ep
	ep.mu.Lock()
	defer ep.mu.Unlock()
	ep.accepting++
	defer func() { ep.accepting-- }()
	for {
		if l.closed || !ep.listening {
			return nil, mangos.ErrClosed
		}
		if len(ep.pending) > 0 {
			p := ep.pending[0]
			ep.pending = ep.pending[1:]
			return p, nil
		}
		ep.cv.Wait()
	}
}

func (l *listener) Close() error {
	ep := l.ep
	ep.mu.Lock()
	if !l.closed {
		l.closed = true
		if ep.listening {
			ep.listening = false
		}
		ep.lclosed = true
		ep.cv.Broadcast()
	}
	ep.mu.Unlock()
	return nil
}

func (l *listener) Address() string { return l.addr }

func (l *listener) SetOption(n string, v interface{}) error {
	switch n {
	case mangos.OptionMaxRecvSize:
		if _, ok := v.(int); !ok {
			return mangos.ErrBadValue
		}
		l.opts[n] = v
		return nil
	}
	return mangos.ErrBadOption
}

func (l *listener) GetOption(n string) (interface{}, error) {
	if v, ok := l.opts[n]; ok {
		return v, nil
	}
	return nil, mangos.ErrBadOption
}

// Listening reports whether a listener is active on the endpoint.
func (ep *Endpoint) Listening() bool {
	ep.mu.Lock()
	defer ep.mu.Unlock()
	return ep.listening
}

// Connect injects an inbound connection (the listener's Accept returns it).
func (ep *Endpoint) Connect() *Pipe {
	ep.mu.Lock()
	defer ep.mu.Unlock()
	p := ep.newPipeLocked()
	ep.pending = append(ep.pending, p)
	ep.cv.Broadcast()
	return p
}

func (ep *Endpoint) newPipeLocked() *Pipe {
	p := &Pipe{ep: ep, Index: len(ep.Pipes), hold: ep.HoldNew, opts: map[string]interface{}{}}
	p.opts[mangos.OptionRemoteAddr] = fmt.Sprintf("vt-remote:%s:%d", ep.Name, p.Index)
	p.opts[mangos.OptionLocalAddr] = fmt.Sprintf("vt-local:%s:%d", ep.Name, p.Index)
	p.cv = sync.NewCond(&p.mu)
	ep.Pipes = append(ep.Pipes, p)
	return p
}

// NumPipes is the number of connections created on this endpoint so far.
func (ep *Endpoint) NumPipes() int {
	ep.mu.Lock()
	defer ep.mu.Unlock()
	return len(ep.Pipes)
}

// PipeAt returns the i-th connection created on this endpoint.
func (ep *Endpoint) PipeAt(i int) *Pipe {
	ep.mu.Lock()
	defer ep.mu.Unlock()
	if i < len(ep.Pipes) {
		return ep.Pipes[i]
	}
	return nil
}

// ---------------------------------------------------------------------------
// pipe: mangos side (transport.Pipe)

func (p *Pipe) Send(m *mangos.Message) error {
	p.mu.Lock()
	defer p.mu.Unlock()
	enter := Tick()
	p.sendWait++
	for p.hold && p.credits == 0 && !p.dropped && !p.closed {
		p.cv.Wait()
	}
	p.sendWait--
	if p.lateOK && (p.closed || p.dropped) {
		// the bytes had been accepted by the network before the connection went down: the write
		// reports success although nobody will ever read them
		vsched.Tracef("vt pipe %d: write completed while the connection went down", p.Index)
		p.lost++
		m.Free()
		return nil
	}
	if p.closed {
		return mangos.ErrClosed
	}
	if p.dropped {
		return ErrDropped
	}
	if p.hold {
		p.credits--
	}
	d := make([]byte, 0, len(m.Header)+len(m.Body))
	d = append(d, m.Header...)
	d = append(d, m.Body...)
	vsched.Tracef("vt pipe %d: mangos sent %q", p.Index, d)
	p.sent = append(p.sent, Sent{Data: d, HLen: len(m.Header), At: vsched.Now(), EnterSeq: enter})
	p.nsend++
	m.Free()
	return nil
}

func (p *Pipe) Recv() (*mangos.Message, error) {
	p.mu.Lock()
	defer p.mu.Unlock()
	p.recvWait++
	for len(p.inq) == 0 && !p.dropped && !p.closed {
		p.cv.Wait()
	}
	p.recvWait--
	if p.closed {
		return nil, mangos.ErrClosed
	}
	if len(p.inq) == 0 {
		return nil, ErrDropped
	}
	b := p.inq[0]
	p.inq = p.inq[1:]
	if p.ep.Wrap {
		// what transport/ws does with the frame gorilla hands it: an empty pooled message whose
		// Body is the frame buffer (its capacity has nothing to do with the message's size class)
		m := mangos.NewMessage(0)
		m.Body = b
		return m, nil
	}
	m := mangos.NewMessage(len(b))
	m.Body = append(m.Body, b...)
	return m, nil
}

func (p *Pipe) Close() error {
	p.mu.Lock()
	p.closed = true
	p.cv.Broadcast()
	p.mu.Unlock()
	return nil
}

func (p *Pipe) GetOption(n string) (interface{}, error) {
	if v, ok := p.opts[n]; ok {
		return v, nil
	}
	return nil, mangos.ErrBadProperty
}

// ---------------------------------------------------------------------------
// pipe: harness side

// Deliver queues one transport message (protocol header + body) for mangos to read.
func (p *Pipe) Deliver(b []byte) {
	p.mu.Lock()
	p.inq = append(p.inq, append([]byte{}, b...))
	p.cv.Broadcast()
	p.mu.Unlock()
}

// Drop simulates loss of the connection by the peer: queued input is still
// delivered first, then Recv and Send fail.
func (p *Pipe) Drop() {
	p.mu.Lock()
	p.dropped = true
	p.cv.Broadcast()
	p.mu.Unlock()
}

// DropNow is Drop that also discards undelivered input.
func (p *Pipe) DropNow() {
	p.mu.Lock()
	p.dropped = true
	p.inq = nil
	p.cv.Broadcast()
	p.mu.Unlock()
}

// Hold switches manual back-pressure on or off (on: each Send waits for a Take).
func (p *Pipe) Hold(on bool) {
	p.mu.Lock()
	p.hold = on
	p.cv.Broadcast()
	p.mu.Unlock()
}

// Take lets n held Sends complete.
func (p *Pipe) Take(n int) {
	p.mu.Lock()
	p.credits += n
	p.cv.Broadcast()
	p.mu.Unlock()
}

// SentLog returns everything mangos wrote so far.
func (p *Pipe) SentLog() []Sent {
	p.mu.Lock()
	defer p.mu.Unlock()
	return append([]Sent{}, p.sent...)
}

// NumSent is len(SentLog()).
func (p *Pipe) NumSent() int {
	p.mu.Lock()
	defer p.mu.Unlock()
	return len(p.sent)
}

// Unread is the number of delivered messages mangos has not read yet.
func (p *Pipe) Unread() int {
	p.mu.Lock()
	defer p.mu.Unlock()
	return len(p.inq)
}

// SendersWaiting is the number of mangos Send calls blocked on this pipe.
// LateSuccess makes a write that is in progress when the connection goes down report success
// (as a kernel that had already buffered the bytes would).
func (p *Pipe) LateSuccess(on bool) {
	p.mu.Lock()
	p.lateOK = on
	p.mu.Unlock()
}

func (p *Pipe) SendersWaiting() int {
	p.mu.Lock()
	defer p.mu.Unlock()
	return p.sendWait
}

// ClosedByMangos reports whether mangos closed its side.
func (p *Pipe) ClosedByMangos() bool {
	p.mu.Lock()
	defer p.mu.Unlock()
	return p.closed
}

// Dropped reports whether the harness dropped the pipe.
func (p *Pipe) Dropped() bool {
	p.mu.Lock()
	defer p.mu.Unlock()
	return p.dropped
}

// Alive is !dropped && !closed.
func (p *Pipe) Alive() bool {
	p.mu.Lock()
	defer p.mu.Unlock()
	return !p.dropped && !p.closed
}

// TotalSent is the number of transport messages mangos wrote on all connections of all endpoints.
func TotalSent() int {
	regMu.Lock()
	eps := make([]*Endpoint, 0, len(endpoints))
	for _, ep := range endpoints {
		eps = append(eps, ep)
	}
	regMu.Unlock()
	n := 0
	for _, ep := range eps {
		for i := 0; i < ep.NumPipes(); i++ {
			n += ep.PipeAt(i).NumSent()
		}
	}
	return n
}

// DropAll drops every live connection of every endpoint (peer side).
func DropAll() {
	regMu.Lock()
	eps := make([]*Endpoint, 0, len(endpoints))
	for _, ep := range endpoints {
		eps = append(eps, ep)
	}
	regMu.Unlock()
	for _, ep := range eps {
		for i := 0; i < ep.NumPipes(); i++ {
			if p := ep.PipeAt(i); p.Alive() {
				p.DropNow()
			}
		}
	}
}
