// Package c03 checks property C03: REQ returns only the reply to its current request.
package c03

import (
	"encoding/binary"
	"fmt"
	"time"

	"go.nanomsg.org/mangos/v3"
	"go.nanomsg.org/mangos/v3/protocol/req"
	"go.nanomsg.org/mangos/v3/vh/kit"
	"go.nanomsg.org/mangos/v3/vh/vt"
	"go.nanomsg.org/mangos/v3/vz/vexplore"
	"go.nanomsg.org/mangos/v3/vz/vsched"
)

func init() {
	vexplore.Register("C03", func(tier string) []*vexplore.Scenario {
		d := 5
		b := 2
		if tier == "thorough" {
			d = 6
			b = 3
		}
		return []*vexplore.Scenario{
			{Name: fmt.Sprintf("req-hist-D%d", d), Mode: "hist", Bound: 0, Reset: kit.ResetGlobals,
				Body: func() { hist(d) }, NeedCounters: []string{"stale-ignored", "reply-delivered", "canceled-by-send", "protostate", "dup-ignored", "foreign-ignored", "recv-timed-out", "late-reply-after-timeout-ignored", "retry-disabled"}},
			{Name: fmt.Sprintf("req-connection-loss-hist-D%d", d+1), Mode: "hist", Bound: 0, Reset: kit.ResetGlobals,
				Body: func() { histFaults(d + 1) }, NeedCounters: []string{"stale-ignored", "reply-delivered", "retransmitted", "send-waited-for-a-peer", "abandoned-while-queued", "stale-after-queued-abandon-ignored", "given-up-after-loss-without-retry"}},
			{Name: fmt.Sprintf("req-idwrap-hist-D%d", d), Mode: "hist", Bound: 0, Reset: kit.ResetNearIDWrap,
				Body: func() { histWrap(d) }, NeedCounters: []string{"stale-ignored", "reply-delivered", "request-ids-wrapped"}},
			{Name: fmt.Sprintf("req-context-opened-later-hist-D%d", d), Mode: "hist", Bound: 0, Reset: kit.ResetGlobals,
				Body: func() { histLate(d) }, NeedCounters: []string{"context-opened-while-a-request-is-in-progress", "reply-delivered", "protostate"}},
			{Name: "req-sched-send-recv-reply", Mode: "sched", Bound: b, Reset: kit.ResetGlobals, Body: schedSendRecvReply},
			{Name: "req-sched-abandoned-recv-vs-fast-reply", Mode: "sched", Bound: b, Reset: kit.ResetGlobals, Body: schedFastReply},
			{Name: "req-reply-before-transmission", Mode: "enum", Reset: kit.ResetGlobals, Body: replyBeforeTransmission, NeedCounters: []string{"guessed-reply-ignored"}},
			{Name: "req-ids-after-a-failed-send", Mode: "enum", Reset: kit.ResetGlobals, Body: idsAfterFailedSend, NeedCounters: []string{"ids-distinct-after-failed-send"}},
			{Name: "req-shared-message-two-contexts", Mode: "sched", Bound: b, Reset: kit.ResetGlobals, Body: schedSharedMessage},
			{Name: "req-sched-send-waiting-for-a-peer-recv-waiting-then-new-send", Mode: "sched", Bound: b, Reset: kit.ResetGlobals, Body: schedWaitingSendRecvNewSend},
			{Name: "req-sched-two-ctx", Mode: "sched", Bound: b, Reset: kit.ResetGlobals, Body: schedTwoCtx},
		}
	})
}

type phase int

const (
	idle phase = iota
	outstanding
	answered
)

type mctx struct {
	name   string
	c      mangos.Context // nil = socket itself
	s      mangos.Socket
	ph     phase
	cur    uint32
	prev   uint32
	hasPrev bool
	answer string
	recv   *kit.Call
	recvAt time.Duration
	timedOut bool // the current id belongs to a request whose Recv timed out
	closed bool
	nsent  int
	// connection-loss histories
	payload   string
	pending   *kit.Call // Send waiting for a peer
	queuedAbandon bool  // prev was abandoned while it was waiting for a connection to be re-sent on
	lastPipe  int       // connection that carried the latest transmission of cur
}

func (m *mctx) send(b []byte) error {
	if m.c != nil {
		return kit.SendBytes(m.c, b)
	}
	return kit.SendBytes(m.s, b)
}

func (m *mctx) recvCall() ([]byte, error) {
	if m.c != nil {
		return kit.Recv(m.c)
	}
	return kit.Recv(m.s)
}

type world struct {
	lateCtx  int // contexts that may still be opened by an event of the history
	faults   bool
	retry    time.Duration
	wirePipe []int // connection of each message returned by the last newWire
	deadline time.Duration
	sock  mangos.Socket
	ep    *vt.Endpoint
	pipes []*vt.Pipe
	seen  []int
	ctxs  []*mctx
	nreq  int
	nrep  int
}

func setup(nctx int) *world { return setupCfg(nctx, -1, 0) }

func setupCfg(nctx int, retry, deadline time.Duration) *world {
	w := &world{deadline: deadline}
	s, err := req.NewSocket()
	if err != nil {
		kit.Failf("setup", "NewSocket: %v", err)
	}
	if retry >= 0 {
		if err := s.SetOption(mangos.OptionRetryTime, retry); err != nil {
			kit.Failf("setup", "RetryTime: %s", kit.ErrName(err))
		}
		kit.Count("retry-disabled")
	}
	if deadline > 0 {
		if err := s.SetOption(mangos.OptionRecvDeadline, deadline); err != nil {
			kit.Failf("setup", "RecvDeadline: %s", kit.ErrName(err))
		}
	}
	w.sock = s
	w.ep = vt.Get("req")
	if err := s.Listen("vt://req"); err != nil {
		kit.Failf("setup", "Listen: %v", err)
	}
	w.pipes = []*vt.Pipe{w.ep.Connect(), w.ep.Connect()}
	w.seen = []int{0, 0}
	kit.Quiesce()
	w.ctxs = append(w.ctxs, &mctx{name: "sock", s: s})
	for i := 1; i < nctx; i++ {
		c, err := s.OpenContext()
		if err != nil {
			kit.Failf("setup", "OpenContext: %v", err)
		}
		w.ctxs = append(w.ctxs, &mctx{name: fmt.Sprintf("ctx%d", i), c: c, s: s})
	}
	return w
}

// newWire returns the transport messages written since the last call.
func (w *world) newWire() []vt.Sent {
	var out []vt.Sent
	w.wirePipe = w.wirePipe[:0]
	for i, p := range w.pipes {
		l := p.SentLog()
		out = append(out, l[w.seen[i]:]...)
		for range l[w.seen[i]:] {
			w.wirePipe = append(w.wirePipe, i)
		}
		w.seen[i] = len(l)
	}
	return out
}

func reply(id uint32, body string) []byte {
	b := make([]byte, 4, 4+len(body))
	binary.BigEndian.PutUint32(b, id)
	return append(b, body...)
}

type event struct {
	name string
	run  func()
}

// histWrap: the same histories with the socket's id counter (seeded from the clock) starting three
// ids before it wraps: the ids of the third and later requests are past the wrap.  Every history
// begins with two requests so that the rest of it plays on both sides of the wrap.
func histWrap(depth int) {
	w := setupCfg(2, -1, 0)
	step := func(e event) {
		kit.Tracef("event %s", e.name)
		kit.Observe("%s", e.name)
		e.run()
		kit.Quiesce()
		w.settle()
		for _, m := range w.ctxs {
			if m.cur != 0 && m.cur < 0x80000010 {
				kit.Count("request-ids-wrapped")
			}
		}
	}
	for _, m := range w.ctxs {
		m := m
		step(event{"send:" + m.name, func() { w.doSend(m) }})
	}
	for d := 0; d < depth-1; d++ {
		evs := w.events()
		step(evs[kit.ChooseFree(len(evs))])
	}
	for _, m := range w.ctxs {
		if m.recv == nil && !m.closed {
			w.doRecv(m)
		}
	}
	kit.Quiesce()
	w.settle()
	kit.Must("Socket.Close", func() { _ = w.sock.Close() })
}

// histLate: the history starts with the socket alone (its own Send / Recv); up to two contexts are
// opened by events of the history, possibly while a request of the socket (or of the first
// context) is outstanding or answered-but-unread.  A new context starts with nothing: its Recv
// fails with the protocol-state error, it never gets another context's reply, and its requests
// and Close leave the others alone.
func histLate(depth int) {
	w := setupCfg(1, -1, 0)
	w.lateCtx = 2
	for d := 0; d < depth; d++ {
		evs := w.events()
		e := evs[kit.ChooseFree(len(evs))]
		kit.Tracef("event %s", e.name)
		kit.Observe("%s", e.name)
		e.run()
		kit.Quiesce()
		w.settle()
	}
	for _, m := range w.ctxs {
		if m.recv == nil && !m.closed {
			w.doRecv(m)
		}
	}
	kit.Quiesce()
	w.settle()
	kit.Must("Socket.Close", func() { _ = w.sock.Close() })
}

func hist(depth int) {
	cfg := kit.ChooseFree(4)
	retry := time.Duration(-1)
	if cfg&1 != 0 {
		retry = 0
	}
	deadline := time.Duration(0)
	if cfg&2 != 0 {
		deadline = 50 * time.Millisecond
	}
	w := setupCfg(2, retry, deadline)
	for d := 0; d < depth; d++ {
		evs := w.events()
		e := evs[kit.ChooseFree(len(evs))]
		kit.Tracef("event %s", e.name)
		kit.Observe("%s", e.name)
		e.run()
		kit.Quiesce()
		w.settle()
	}
	// final drain: every context receives once more, so that a reply that was wrongly kept for it
	// (or wrongly withheld from it) shows even when the history itself ended before a Recv
	for _, m := range w.ctxs {
		if m.recv == nil && !m.closed {
			w.doRecv(m)
		}
	}
	kit.Quiesce()
	w.settle()
	// closing the socket fails every pending Recv with ErrClosed
	kit.Must("Socket.Close", func() { _ = w.sock.Close() })
	kit.Quiesce()
	for _, m := range w.ctxs {
		if m.recv != nil {
			if !m.recv.Done() {
				kit.Failf("recv-not-unblocked-by-close", "%s: Recv still blocked after socket Close", m.name)
			}
			if m.recv.Err != mangos.ErrClosed {
				kit.Failf("recv-after-close-result", "%s: pending Recv returned %v / %q after socket Close, want ErrClosed", m.name, kit.ErrName(m.recv.Err), m.recv.Val)
			}
		}
	}
}

func (w *world) events() []event {
	var evs []event
	for _, m := range w.ctxs {
		m := m
		evs = append(evs, event{"send:" + m.name, func() { w.doSend(m) }})
		if m.recv == nil {
			evs = append(evs, event{"recv:" + m.name, func() { w.doRecv(m) }})
		}
		if m.c != nil && !m.closed {
			evs = append(evs, event{"close:" + m.name, func() { w.doClose(m) }})
		}
	}
	for ci, m := range w.ctxs {
		m := m
		if m.cur != 0 {
			for pi := range w.pipes {
				pi := pi
				evs = append(evs, event{fmt.Sprintf("reply-cur:%s:p%d", m.name, pi), func() { w.deliver(pi, m.cur, "cur:"+m.name) }})
			}
		}
		if m.hasPrev {
			evs = append(evs, event{"reply-prev:" + m.name, func() { w.deliver(ci%2, m.prev, "prev:"+m.name) }})
		}
	}
	if w.deadline > 0 {
		evs = append(evs, event{"advance:deadline", func() { kit.Sleep(w.deadline) }})
	}
	if w.lateCtx > 0 {
		evs = append(evs, event{"open-context", func() {
			cx, err := w.sock.OpenContext()
			if err != nil {
				kit.Failf("open-context", "OpenContext: %s", kit.ErrName(err))
			}
			w.lateCtx--
			for _, m := range w.ctxs {
				if m.ph != idle {
					kit.Count("context-opened-while-a-request-is-in-progress")
				}
			}
			w.ctxs = append(w.ctxs, &mctx{name: fmt.Sprintf("late%d", len(w.ctxs)), c: cx, s: w.sock})
		}})
	}
	m0 := w.ctxs[0]
	if m0.cur != 0 {
		evs = append(evs, event{"reply-nobit", func() { w.deliver(1, m0.cur&0x7fffffff, "nobit") }})
		evs = append(evs, event{"reply-unknown", func() { w.deliver(0, (m0.cur+1000)|0x80000000, "unknown") }})
		evs = append(evs, event{"reply-short", func() {
			w.pipes[1].Deliver([]byte{byte(m0.cur >> 24), byte(m0.cur >> 16), byte(m0.cur >> 8)})
			kit.Count("short-ignored")
		}})
	}
	return evs
}

func (w *world) doSend(m *mctx) {
	w.nreq++
	payload := fmt.Sprintf("q%d:%s", w.nreq, m.name)
	c := kit.Start("Send:"+m.name, func() (interface{}, error) { return nil, m.send([]byte(payload)) })
	kit.Quiesce()
	if !c.Done() {
		kit.Failf("send-blocked", "%s: Send did not complete although two peers are connected and idle", m.name)
	}
	wire := w.newWire()
	if m.closed {
		if c.Err != mangos.ErrClosed {
			kit.Failf("send-on-closed", "%s: Send on closed context returned %s", m.name, kit.ErrName(c.Err))
		}
		if len(wire) != 0 {
			kit.Failf("send-on-closed-wire", "%s: Send on closed context transmitted %d message(s)", m.name, len(wire))
		}
		return
	}
	if c.Err != nil {
		kit.Failf("send-error", "%s: Send returned %s", m.name, kit.ErrName(c.Err))
	}
	if len(wire) != 1 {
		kit.Failf("send-wire-count", "%s: one Send produced %d transport messages", m.name, len(wire))
	}
	sm := wire[0]
	if len(sm.Data) != 4+len(payload) || string(sm.Data[4:]) != payload {
		kit.Failf("send-wire-bytes", "%s: wire message %x does not carry payload %q after a 4 byte id", m.name, sm.Data, payload)
	}
	id := binary.BigEndian.Uint32(sm.Data)
	if id&0x80000000 == 0 {
		kit.Failf("send-id-bit", "%s: request id %08x lacks the request bit", m.name, id)
	}
	for _, o := range w.ctxs {
		if o != m && (o.cur == id) {
			kit.Failf("send-id-unique", "request id %08x used by %s and %s", id, m.name, o.name)
		}
	}
	// model
	if m.recv != nil {
		// the pending Recv of the abandoned request must fail with ErrCanceled
		if !m.recv.Done() {
			kit.Failf("recv-not-canceled", "%s: Recv of the abandoned request still blocked after a new Send", m.name)
		}
		if m.recv.Err != mangos.ErrCanceled {
			kit.Failf("recv-cancel-result", "%s: Recv of the abandoned request returned %s / %q, want ErrCanceled", m.name, kit.ErrName(m.recv.Err), m.recv.Val)
		}
		kit.Count("canceled-by-send")
		m.recv = nil
	}
	if m.cur != 0 {
		m.prev, m.hasPrev = m.cur, true
	}
	m.cur = id
	m.ph = outstanding
	m.timedOut = false
	m.answer = ""
}

func (w *world) doRecv(m *mctx) {
	m.recvAt = kit.Now()
	m.recv = kit.Start("Recv:"+m.name, func() (interface{}, error) {
		b, err := m.recvCall()
		return string(b), err
	})
}

func (w *world) doClose(m *mctx) {
	kit.Must("Context.Close", func() {
		if err := m.c.Close(); err != nil {
			kit.Failf("ctx-close-error", "%s: Close returned %s", m.name, kit.ErrName(err))
		}
	})
	m.closed = true
}

func (w *world) deliver(pi int, id uint32, tag string) {
	w.nrep++
	body := fmt.Sprintf("r%d:%s", w.nrep, tag)
	// model first
	matched := false
	for _, m := range w.ctxs {
		if m.ph == outstanding && m.cur == id && !m.closed {
			m.ph = answered
			m.answer = body
			matched = true
		} else if m.cur == id && m.ph != outstanding {
			kit.Count("dup-ignored")
			if m.timedOut {
				kit.Count("late-reply-after-timeout-ignored")
			}
		} else if m.hasPrev && m.prev == id {
			kit.Count("stale-ignored")
		}
	}
	if !matched {
		kit.Count("foreign-ignored")
	}
	w.pipes[pi].Deliver(reply(id, body))
}

// settle compares every context with the model after quiescence.
func (w *world) settle() {
	if w.faults {
		w.absorb()
	} else if wire := w.newWire(); len(wire) != 0 {
		kit.Failf("unexpected-transmission", "%d transport message(s) written without a Send (first %x)", len(wire), wire[0].Data)
	}
	for _, p := range w.pipes {
		if p.Unread() != 0 {
			kit.Failf("pipe-not-drained", "pipe %d has %d unread replies at quiescence (receiver stuck)", p.Index, p.Unread())
		}
	}
	for _, m := range w.ctxs {
		if m.recv == nil {
			continue
		}
		c := m.recv
		switch {
		case m.closed:
			if !c.Done() {
				kit.Failf("recv-blocked-closed", "%s: Recv on closed context blocks", m.name)
			}
			if c.Err != mangos.ErrClosed {
				kit.Failf("recv-closed-result", "%s: Recv on closed context returned %s / %q", m.name, kit.ErrName(c.Err), c.Val)
			}
			m.recv = nil
		case m.ph == idle:
			if !c.Done() {
				kit.Failf("recv-blocked-idle", "%s: Recv with no request outstanding blocks instead of failing", m.name)
			}
			if c.Err != mangos.ErrProtoState {
				kit.Failf("recv-idle-result", "%s: Recv with no request outstanding returned %s / %q, want ErrProtoState", m.name, kit.ErrName(c.Err), c.Val)
			}
			kit.Count("protostate")
			m.recv = nil
		case m.ph == answered:
			if !c.Done() {
				kit.Failf("recv-blocked-answered", "%s: the reply to the current request arrived but Recv still blocks", m.name)
			}
			if c.Err != nil || c.Val.(string) != m.answer {
				kit.Failf("recv-wrong-reply", "%s: Recv returned %s / %q, want the reply %q to the current request %08x", m.name, kit.ErrName(c.Err), c.Val, m.answer, m.cur)
			}
			kit.Count("reply-delivered")
			m.ph = idle
			m.recv = nil
		case m.ph == outstanding && w.deadline > 0 && kit.Now() >= m.recvAt+w.deadline:
			if !c.Done() || c.Err != mangos.ErrRecvTimeout || c.T1 != m.recvAt+w.deadline {
				kit.Failf("recv-deadline", "%s: Recv with deadline %v started at %v: done=%v %s at %v", m.name, w.deadline, m.recvAt, c.Done(), kit.ErrName(c.Err), c.T1)
			}
			// the request is abandoned; its reply, should it still come, must not be delivered
			m.ph = idle
			m.timedOut = true
			m.recv = nil
			kit.Count("recv-timed-out")
		case m.ph == outstanding:
			if c.Done() {
				kit.Failf("recv-early", "%s: Recv returned %s / %q although no reply to the current request %08x has arrived", m.name, kit.ErrName(c.Err), c.Val, m.cur)
			}
		}
	}
}

// ---------------------------------------------------------------------------
// histories with connection loss: a request can be waiting for a connection (first transmission
// or re-transmission) when it is abandoned, answered late, or its context sends again.

func (w *world) alive() []int {
	var l []int
	for i, p := range w.pipes {
		if p.Alive() {
			l = append(l, i)
		}
	}
	return l
}

// absorb accounts for everything written since the last look: first transmissions of waiting
// Sends and re-transmissions of outstanding requests (when and whether those happen is C04's
// business; here only that nothing else is ever written).
func (w *world) absorb() {
	for i, sm := range w.newWire() {
		if len(sm.Data) < 4 {
			kit.Failf("send-wire-bytes", "wire message %x is shorter than a request id", sm.Data)
		}
		id := binary.BigEndian.Uint32(sm.Data)
		pl := string(sm.Data[4:])
		var m *mctx
		for _, o := range w.ctxs {
			if o.payload == pl {
				m = o
			}
		}
		switch {
		case m == nil || m.ph != outstanding:
			kit.Failf("unexpected-transmission", "transport message %x written: not the current unanswered request of any context", sm.Data)
		case m.cur == 0:
			if id&0x80000000 == 0 {
				kit.Failf("send-id-bit", "%s: request id %08x lacks the request bit", m.name, id)
			}
			for _, o := range w.ctxs {
				if o != m && (o.cur == id || (o.hasPrev && o.prev == id)) {
					kit.Failf("send-id-unique", "request id %08x used by %s and %s", id, m.name, o.name)
				}
			}
			if m.hasPrev && m.prev == id {
				kit.Failf("send-id-unique", "%s: request id %08x reused for the next request", m.name, id)
			}
			m.cur = id
			m.lastPipe = w.wirePipe[i]
		case m.cur == id:
			kit.Count("retransmitted")
			m.lastPipe = w.wirePipe[i]
		default:
			kit.Failf("retransmission-id", "%s: request %q went out as %08x first and as %08x later", m.name, pl, m.cur, id)
		}
	}
	for _, m := range w.ctxs {
		if m.pending == nil {
			continue
		}
		if m.pending.Done() {
			if m.pending.Err != nil {
				kit.Failf("send-error", "%s: Send returned %s", m.name, kit.ErrName(m.pending.Err))
			}
			if m.cur == 0 {
				kit.Failf("send-returned-untransmitted", "%s: Send returned although the request was never handed to a connection", m.name)
			}
			m.pending = nil
		} else if len(w.alive()) > 0 {
			kit.Failf("send-blocked", "%s: Send still blocked although an idle peer is connected", m.name)
		}
	}
}

func (w *world) doSendF(m *mctx) {
	w.nreq++
	payload := fmt.Sprintf("q%d:%s", w.nreq, m.name)
	waitingForPipe := m.ph == outstanding && m.cur != 0 && len(w.alive()) == 0
	c := kit.Start("Send:"+m.name, func() (interface{}, error) { return nil, m.send([]byte(payload)) })
	kit.Quiesce()
	if m.recv != nil {
		if !m.recv.Done() {
			kit.Failf("recv-not-canceled", "%s: Recv of the abandoned request still blocked after a new Send", m.name)
		}
		if m.recv.Err != mangos.ErrCanceled {
			kit.Failf("recv-cancel-result", "%s: Recv of the abandoned request returned %s / %q, want ErrCanceled", m.name, kit.ErrName(m.recv.Err), m.recv.Val)
		}
		kit.Count("canceled-by-send")
		m.recv = nil
	}
	if m.cur != 0 {
		m.prev, m.hasPrev = m.cur, true
		m.queuedAbandon = waitingForPipe
		if waitingForPipe {
			kit.Count("abandoned-while-queued")
		}
	}
	m.cur, m.ph, m.answer, m.payload, m.pending = 0, outstanding, "", payload, c
	if len(w.alive()) == 0 {
		kit.Count("send-waited-for-a-peer")
	}
	w.absorb()
}

// doDrop: the connection fails.  With retries disabled (RetryTime 0) a request whose latest
// transmission went over it is given up (req.go: "not necessarily idempotent"): its Recv is
// cancelled and a late reply is ignored; otherwise it is re-sent, which absorb accounts for.
func (w *world) doDrop(pi int) {
	w.pipes[pi].DropNow()
	kit.Quiesce()
	if w.retry != 0 {
		return
	}
	for _, m := range w.ctxs {
		if m.ph != outstanding || m.cur == 0 || m.lastPipe != pi {
			continue
		}
		if m.recv != nil {
			if !m.recv.Done() || m.recv.Err != mangos.ErrCanceled {
				kit.Failf("recv-after-loss-no-retry", "%s: RetryTime 0 and the connection carrying the request failed: Recv done=%v %s / %q, want ErrCanceled", m.name, m.recv.Done(), kit.ErrName(m.recv.Err), m.recv.Val)
			}
			m.recv = nil
		}
		m.ph = idle
		kit.Count("given-up-after-loss-without-retry")
	}
}

func (w *world) eventsF() []event {
	var evs []event
	al := w.alive()
	for _, m := range w.ctxs {
		m := m
		if m.pending == nil {
			evs = append(evs, event{"send:" + m.name, func() { w.doSendF(m) }})
		}
		if m.recv == nil {
			evs = append(evs, event{"recv:" + m.name, func() { w.doRecv(m) }})
		}
		if m.cur != 0 {
			for _, pi := range al {
				pi := pi
				evs = append(evs, event{fmt.Sprintf("reply-cur:%s:p%d", m.name, pi), func() { w.deliver(pi, m.cur, "cur:"+m.name) }})
			}
		}
		if m.hasPrev && len(al) > 0 {
			evs = append(evs, event{"reply-prev:" + m.name, func() {
				if m.queuedAbandon {
					kit.Count("stale-after-queued-abandon-ignored")
				}
				w.deliver(al[len(al)-1], m.prev, "prev:"+m.name)
			}})
		}
	}
	for _, pi := range al {
		pi := pi
		evs = append(evs, event{fmt.Sprintf("drop:p%d", pi), func() { w.doDrop(pi) }})
	}
	if len(al) < 2 && len(w.pipes) < 4 {
		evs = append(evs, event{"connect", func() {
			w.pipes = append(w.pipes, w.ep.Connect())
			w.seen = append(w.seen, 0)
		}})
	}
	return evs
}

func histFaults(depth int) {
	retry := time.Duration(-1)
	if kit.ChooseFree(2) == 1 {
		retry = 0
	}
	nctx := 1 + kit.ChooseFree(2)
	if nctx == 2 {
		depth--
	}
	w := setupCfg(nctx, retry, 0)
	w.faults = true
	w.retry = retry
	for d := 0; d < depth; d++ {
		evs := w.eventsF()
		e := evs[kit.ChooseFree(len(evs))]
		kit.Tracef("event %s", e.name)
		kit.Observe("%s", e.name)
		e.run()
		kit.Quiesce()
		w.settle()
	}
	// final: a peer is there again, whatever was waiting goes out, and every context receives once more
	if len(w.alive()) == 0 {
		w.pipes = append(w.pipes, w.ep.Connect())
		w.seen = append(w.seen, 0)
		kit.Quiesce()
		w.settle()
	}
	for _, m := range w.ctxs {
		if m.recv == nil {
			w.doRecv(m)
		}
	}
	kit.Quiesce()
	w.settle()
	kit.Must("Socket.Close", func() { _ = w.sock.Close() })
}

// ---------------------------------------------------------------------------
// schedule exploration

// schedSendRecvReply: one context; a Recv is pending for request 1 while, concurrently,
// a new Send is issued and replies to the old and the new request arrive.
func schedSendRecvReply() {
	w := setup(1)
	m := w.ctxs[0]
	w.doSend(m)
	old := m.cur
	r1 := kit.Start("Recv1", func() (interface{}, error) { b, err := m.recvCall(); return string(b), err })
	kit.Quiesce()
	// concurrently: stale reply arrives, new request is sent
	w.pipes[0].Deliver(reply(old, "old-reply"))
	s2 := kit.Start("Send2", func() (interface{}, error) { return nil, m.send([]byte("q2")) })
	kit.Quiesce()
	if !s2.Done() || s2.Err != nil {
		kit.Failf("sched-send2", "second Send: done=%v err=%s", s2.Done(), kit.ErrName(s2.Err))
	}
	if !r1.Done() {
		kit.Failf("sched-recv1-blocked", "Recv of the first request still blocked after its reply arrived and a new request was sent")
	}
	// r1 may legitimately have received old-reply (arrived first) or been canceled
	if !(r1.Err == nil && r1.Val.(string) == "old-reply") && r1.Err != mangos.ErrCanceled {
		kit.Failf("sched-recv1-result", "first Recv returned %s / %q", kit.ErrName(r1.Err), r1.Val)
	}
	wire := w.newWire()
	if len(wire) != 1 {
		kit.Failf("sched-wire", "second Send produced %d messages", len(wire))
	}
	id2 := binary.BigEndian.Uint32(wire[0].Data)
	// now the reply to the old request again (duplicate/stale) then the real one
	w.pipes[1].Deliver(reply(old, "old-dup"))
	w.pipes[0].Deliver(reply(id2, "new-reply"))
	r2 := kit.Start("Recv2", func() (interface{}, error) { b, err := m.recvCall(); return string(b), err })
	kit.Quiesce()
	if !r2.Done() {
		kit.Failf("sched-recv2-blocked", "Recv of the second request blocks although its reply arrived")
	}
	if r2.Err != nil || r2.Val.(string) != "new-reply" {
		kit.Failf("sched-recv2-result", "Recv for the current request returned %s / %q, want \"new-reply\"", kit.ErrName(r2.Err), r2.Val)
	}
	kit.Observe("r1=%s/%v", kit.ErrName(r1.Err), r1.Val)
	vsched.Count("sched-complete")
}

// schedTwoCtx: two contexts with requests in flight; replies arrive crosswise and concurrently.
func schedTwoCtx() {
	w := setup(2)
	a, b := w.ctxs[0], w.ctxs[1]
	w.doSend(a)
	w.doSend(b)
	ra := kit.Start("RecvA", func() (interface{}, error) { x, err := a.recvCall(); return string(x), err })
	rb := kit.Start("RecvB", func() (interface{}, error) { x, err := b.recvCall(); return string(x), err })
	w.pipes[0].Deliver(reply(b.cur, "for-b"))
	w.pipes[1].Deliver(reply(a.cur, "for-a"))
	w.pipes[1].Deliver(reply(a.cur, "for-a-dup"))
	kit.Quiesce()
	if !ra.Done() || !rb.Done() {
		kit.Failf("sched2-blocked", "Recv blocked: a=%v b=%v", ra.Done(), rb.Done())
	}
	if ra.Err != nil || ra.Val.(string) != "for-a" {
		kit.Failf("sched2-a", "context a received %s / %q", kit.ErrName(ra.Err), ra.Val)
	}
	if rb.Err != nil || rb.Val.(string) != "for-b" {
		kit.Failf("sched2-b", "context b received %s / %q", kit.ErrName(rb.Err), rb.Val)
	}
	// each request yields at most one reply
	r3 := kit.Start("RecvA2", func() (interface{}, error) { x, err := a.recvCall(); return string(x), err })
	kit.Quiesce()
	if !r3.Done() || r3.Err != mangos.ErrProtoState {
		kit.Failf("sched2-second-recv", "second Recv on a: done=%v %s / %v", r3.Done(), kit.ErrName(r3.Err), r3.Val)
	}
}

// schedFastReply: a Recv is pending for request 1; the application sends request 2 and the peer
// answers it at once - the reply to request 2 can be there before the abandoned Recv has noticed
// that it was abandoned.  That Recv fails with the cancellation error (it never returns the reply
// to a request it was not called for) and the next Recv returns the reply to request 2.
func schedFastReply() {
	w := setup(1)
	m := w.ctxs[0]
	w.doSend(m)
	r1 := kit.Start("Recv1", func() (interface{}, error) { b, err := m.recvCall(); return string(b), err })
	kit.Quiesce()
	// Send2 and the peer's answer run on this thread, back to back
	if err := m.send([]byte("q2")); err != nil {
		kit.Failf("sched-send2", "second Send: %s", kit.ErrName(err))
	}
	var id2 uint32
	for id2 == 0 {
		for _, sm := range w.newWire() {
			if string(sm.Data[4:]) == "q2" {
				id2 = binary.BigEndian.Uint32(sm.Data)
			}
		}
		if id2 == 0 {
			kit.Yield()
		}
	}
	w.pipes[1].Deliver(reply(id2, "reply-2"))
	kit.Quiesce()
	if !r1.Done() {
		kit.Failf("sched-recv1-blocked", "Recv of the first request still blocked after a new request was sent")
	}
	if r1.Err != mangos.ErrCanceled {
		kit.Failf("abandoned-recv-result", "the Recv that was waiting for request 1 returned %s / %q after request 2 was sent and answered; it must fail with ErrCanceled", kit.ErrName(r1.Err), r1.Val)
	}
	r2 := kit.Start("Recv2", func() (interface{}, error) { b, err := m.recvCall(); return string(b), err })
	kit.Quiesce()
	if !r2.Done() || r2.Err != nil || r2.Val.(string) != "reply-2" {
		kit.Failf("sched-recv2-result", "Recv for request 2 (answered): done=%v %s / %q, want \"reply-2\"", r2.Done(), kit.ErrName(r2.Err), r2.Val)
	}
	kit.Observe("ok")
}

// schedWaitingSendRecvNewSend: nobody is connected.  A Send waits for a peer, a Recv for the same
// request has been posted by another goroutine and waits as well; then a new Send is made on the same
// socket / context.  The new Send abandons the previous request: its waiting Send and its pending
// Recv both return (the Recv with the cancellation error), whichever of the two sleepers the
// wake-up reaches first.  Then a peer connects, takes the new request and answers it.
func schedWaitingSendRecvNewSend() {
	w := setup(2)
	for _, p := range w.pipes {
		p.DropNow()
	}
	kit.Quiesce()
	m := w.ctxs[kit.ChooseFree(2)]
	s1 := kit.Start("Send1", func() (interface{}, error) { return nil, m.send([]byte("w1")) })
	kit.Quiesce()
	if s1.Done() {
		kit.Failf("send-returned-without-peer", "%s: Send returned %s although nobody is connected", m.name, kit.ErrName(s1.Err))
	}
	r1 := kit.Start("Recv1", func() (interface{}, error) { b, err := m.recvCall(); return string(b), err })
	kit.Quiesce()
	s2 := kit.Start("Send2", func() (interface{}, error) { return nil, m.send([]byte("w2")) })
	kit.Quiesce()
	if !s1.Done() {
		// (what the replaced Send returns is not the property's business - the new request takes its place)
		kit.Failf("abandoned-send-stuck", "%s: the Send that was waiting for a peer is still blocked after a new Send took its place", m.name)
	}
	if r1.Done() && r1.Err == mangos.ErrProtoState {
		// Recv did not wait at all (no request had been transmitted): nothing to cancel
		kit.Observe("recv-protostate")
	} else if !r1.Done() || r1.Err != mangos.ErrCanceled {
		kit.Failf("recv-not-canceled", "%s: a Recv was pending for the request that a new Send abandoned: done=%v %s %q; it must fail with ErrCanceled", m.name, r1.Done(), kit.ErrName(r1.Err), r1.Val)
	}
	if s2.Done() {
		kit.Failf("send-returned-without-peer", "%s: second Send returned %s although nobody is connected", m.name, kit.ErrName(s2.Err))
	}
	p := w.ep.Connect()
	kit.Quiesce()
	if !s2.Done() || s2.Err != nil {
		kit.Failf("send-blocked", "%s: a peer has connected, the waiting Send: done=%v %s", m.name, s2.Done(), kit.ErrName(s2.Err))
	}
	l := p.SentLog()
	if len(l) != 1 || string(l[0].Data[4:]) != "w2" {
		kit.Failf("send-wire-count", "%s: the newcomer was given %d message(s), want exactly the new request", m.name, len(l))
	}
	p.Deliver(reply(binary.BigEndian.Uint32(l[0].Data), "answer-2"))
	r2 := kit.Start("Recv2", func() (interface{}, error) { b, err := m.recvCall(); return string(b), err })
	kit.Quiesce()
	if !r2.Done() || r2.Err != nil || r2.Val.(string) != "answer-2" {
		kit.Failf("recv-wrong-reply", "%s: Recv for the new request (answered): done=%v %s %q", m.name, r2.Done(), kit.ErrName(r2.Err), r2.Val)
	}
	kit.Observe("ok")
}

// replyBeforeTransmission: the only connection is busy (its peer is slow to take what it was
// given), so a further request waits to be transmitted - its Send blocks, or with best effort has
// already returned.  A frame carrying the id that request is going to have (ids are consecutive)
// arrives meanwhile.  Nobody can have answered a request that was never sent: the frame is dropped,
// Recv keeps waiting, and after the request did go out the genuine reply is delivered.
func replyBeforeTransmission() {
	bestEffort := kit.ChooseFree(2) == 1
	who := kit.ChooseFree(2)  // which context's request waits
	early := kit.ChooseFree(2) // the frame arrives before (0) / after (1) Recv was called
	w := setup(2)
	w.pipes[1].DropNow()
	kit.Quiesce()
	a, b := w.ctxs[1-who], w.ctxs[who]
	// one complete exchange tells us where the id sequence stands
	w.doSend(a)
	id0 := a.cur
	w.deliver(0, id0, "first")
	w.doRecv(a)
	kit.Quiesce()
	w.settle()
	w.pipes[0].Hold(true)
	if bestEffort {
		for _, m := range w.ctxs {
			var err error
			if m.c != nil {
				err = m.c.SetOption(mangos.OptionBestEffort, true)
			} else {
				err = m.s.SetOption(mangos.OptionBestEffort, true)
			}
			if err != nil {
				kit.Failf("setup", "BestEffort: %s", kit.ErrName(err))
			}
		}
	}
	sa := kit.Start("Send:"+a.name, func() (interface{}, error) { return nil, a.send([]byte("second")) })
	kit.Quiesce()
	sb := kit.Start("Send:"+b.name, func() (interface{}, error) { return nil, b.send([]byte("third")) })
	kit.Quiesce()
	if !sa.Done() || sa.Err != nil {
		kit.Failf("setup", "second Send: done=%v %s", sa.Done(), kit.ErrName(sa.Err))
	}
	if sb.Done() != bestEffort {
		kit.Failf("send-while-peer-busy", "the only peer is busy: Send done=%v (best effort %v)", sb.Done(), bestEffort)
	}
	guess := id0 + 2
	var rb *kit.Call
	if early == 1 {
		rb = kit.Start("Recv:"+b.name, func() (interface{}, error) { x, err := b.recvCall(); return string(x), err })
		kit.Quiesce()
	}
	w.pipes[0].Deliver(reply(guess, "never-sent-in-answer"))
	kit.Quiesce()
	if early == 0 {
		rb = kit.Start("Recv:"+b.name, func() (interface{}, error) { x, err := b.recvCall(); return string(x), err })
		kit.Quiesce()
	}
	if rb.Done() {
		kit.Failf("reply-before-transmission", "%s: its request has not been handed to any connection yet, a frame with id %08x arrived, and Recv returned %s / %q", b.name, guess, kit.ErrName(rb.Err), rb.Val)
	}
	kit.Count("guessed-reply-ignored")
	w.pipes[0].Hold(false)
	w.pipes[0].Take(10)
	kit.Quiesce()
	if !sb.Done() || sb.Err != nil {
		kit.Failf("send-blocked", "the peer takes again: Send done=%v %s", sb.Done(), kit.ErrName(sb.Err))
	}
	var idb uint32
	for _, sm := range w.newWire() {
		if string(sm.Data[4:]) == "third" {
			idb = binary.BigEndian.Uint32(sm.Data)
		}
	}
	if idb == 0 {
		kit.Failf("request-never-sent", "%s: the peer takes again but the waiting request was never transmitted", b.name)
	}
	w.pipes[0].Deliver(reply(idb, "genuine"))
	kit.Quiesce()
	if !rb.Done() || rb.Err != nil || rb.Val.(string) != "genuine" {
		kit.Failf("recv-wrong-reply", "%s: Recv done=%v %s / %q, want the genuine reply", b.name, rb.Done(), kit.ErrName(rb.Err), rb.Val)
	}
	kit.Observe("be=%v who=%d early=%d guess-ok=%v", bestEffort, who, early, idb == guess)
	kit.Must("Socket.Close", func() { _ = w.sock.Close() })
}

// idsAfterFailedSend: nobody is connected.  Context A's Send (with a send deadline) waits, context
// B's Send waits, A's times out, A (or, free choice, a third context) sends again, and only then a
// peer connects and everything that waits goes out.  The requests on the wire carry different ids,
// and a reply goes to the context whose request carried its id.
func idsAfterFailedSend() {
	third := kit.ChooseFree(2) == 1
	s, err := req.NewSocket()
	if err != nil {
		kit.Failf("setup", "NewSocket: %v", err)
	}
	ep := vt.Get("reqids")
	if err := s.Listen("vt://reqids"); err != nil {
		kit.Failf("setup", "Listen: %v", err)
	}
	open := func() mangos.Context {
		c, err := s.OpenContext()
		if err != nil {
			kit.Failf("setup", "OpenContext: %v", err)
		}
		return c
	}
	a, b := open(), open()
	if err := a.SetOption(mangos.OptionSendDeadline, 50*time.Millisecond); err != nil {
		kit.Failf("setup", "SendDeadline: %s", kit.ErrName(err))
	}
	sa := kit.Start("Send:a", func() (interface{}, error) { return nil, a.Send([]byte("from-a-1")) })
	kit.Quiesce()
	sb := kit.Start("Send:b", func() (interface{}, error) { return nil, b.Send([]byte("from-b")) })
	kit.Quiesce()
	kit.Sleep(50 * time.Millisecond)
	kit.Quiesce()
	if !sa.Done() || sa.Err != mangos.ErrSendTimeout || sb.Done() {
		kit.Failf("setup", "nobody connected: a.Send done=%v %s (deadline 50ms), b.Send done=%v", sa.Done(), kit.ErrName(sa.Err), sb.Done())
	}
	c := a
	cname := "a"
	if third {
		c, cname = open(), "c"
	}
	sc := kit.Start("Send:"+cname, func() (interface{}, error) { return nil, c.Send([]byte("from-" + cname + "-2")) })
	kit.Quiesce()
	if third && sc.Done() {
		kit.Failf("setup", "c.Send returned %s with nobody connected", kit.ErrName(sc.Err))
	}
	p := ep.Connect()
	kit.Quiesce()
	if !sb.Done() || sb.Err != nil {
		kit.Failf("send-blocked", "a peer is connected: b.Send done=%v %s", sb.Done(), kit.ErrName(sb.Err))
	}
	ids := map[uint32]string{}
	for _, sm := range p.SentLog() {
		id := binary.BigEndian.Uint32(sm.Data)
		body := string(sm.Data[4:])
		if other, dup := ids[id]; dup && other != body {
			kit.Failf("send-id-unique", "the requests %q and %q are outstanding under the same id %08x (a Send had failed with a timeout in between)", other, body, id)
		}
		ids[id] = body
	}
	// answer b's request: only b may get it
	for id, body := range ids {
		if body == "from-b" {
			p.Deliver(reply(id, "answer-for-b"))
		}
	}
	rb := kit.Start("Recv:b", func() (interface{}, error) { x, err := b.Recv(); return string(x), err })
	rc := kit.Start("Recv:"+cname, func() (interface{}, error) { x, err := c.Recv(); return string(x), err })
	kit.Quiesce()
	if !rb.Done() || rb.Err != nil || rb.Val.(string) != "answer-for-b" {
		kit.Failf("recv-wrong-reply", "b's request was answered: b.Recv done=%v %s %q", rb.Done(), kit.ErrName(rb.Err), rb.Val)
	}
	if rc.Done() && rc.Err == nil {
		kit.Failf("recv-wrong-reply", "%s.Recv returned %q although only b's request was answered", cname, rc.Val)
	}
	kit.Count("ids-distinct-after-failed-send")
	kit.Observe("third=%v wire=%d", third, len(ids))
	kit.Must("Socket.Close", func() { _ = s.Close() })
}

// schedSharedMessage: the application sends one message, cloned, as a request on two contexts
// (connection 0 may be slow to take what it is given).  Two requests with two different ids and
// the same body go out, and each context receives the reply carrying its own id.
func schedSharedMessage() {
	w := setup(2)
	hold := kit.ChooseFree(2) == 1
	if hold {
		w.pipes[0].Hold(true)
	}
	m1 := mangos.NewMessage(16)
	m1.Body = append(m1.Body, "shared-request"...)
	m1.Clone() // a second reference to the same message
	a, b := w.ctxs[0], w.ctxs[1]
	s1 := kit.Start("SendMsg:sock", func() (interface{}, error) { return nil, a.s.SendMsg(m1) })
	s2 := kit.Start("SendMsg:ctx1", func() (interface{}, error) { return nil, b.c.SendMsg(m1) })
	kit.Quiesce()
	if hold {
		w.pipes[0].Hold(false)
		w.pipes[0].Take(10)
		kit.Quiesce()
	}
	if !s1.Done() || s1.Err != nil || !s2.Done() || s2.Err != nil {
		kit.Failf("shared-send", "SendMsg of a cloned message on two contexts: sock done=%v %s, ctx1 done=%v %s", s1.Done(), kit.ErrName(s1.Err), s2.Done(), kit.ErrName(s2.Err))
	}
	wire := w.newWire()
	if len(wire) != 2 {
		kit.Failf("shared-wire-count", "two requests produced %d transport messages", len(wire))
	}
	x, y := binary.BigEndian.Uint32(wire[0].Data), binary.BigEndian.Uint32(wire[1].Data)
	if x == y {
		kit.Failf("shared-request-id", "both requests went out under the id %08x (one message, cloned, sent on two contexts)", x)
	}
	for _, sm := range wire {
		if string(sm.Data[4:]) != "shared-request" {
			kit.Failf("shared-request-body", "request body %q", sm.Data[4:])
		}
	}
	for i, id := range []uint32{x, y} {
		w.pipes[i%2].Deliver(reply(id, fmt.Sprintf("answer-to-%08x", id)))
	}
	kit.Quiesce()
	got := map[string]string{}
	for _, m := range []*mctx{a, b} {
		m := m
		c := kit.Start("Recv:"+m.name, func() (interface{}, error) { v, err := m.recvCall(); return string(v), err })
		kit.Quiesce()
		if !c.Done() || c.Err != nil {
			kit.Failf("shared-no-answer", "%s: its request was answered, Recv: done=%v %s", m.name, c.Done(), kit.ErrName(c.Err))
		}
		got[m.name] = c.Val.(string)
	}
	if got["sock"] == got["ctx1"] {
		kit.Failf("shared-answer-misrouted", "both contexts received %q", got["sock"])
	}
	kit.Observe("hold=%v", hold)
}

// Bodies re-run by C11 under the race-instrumented build.
// SchedSharedMessage is also run under C17.
func SchedSharedMessage() { schedSharedMessage() }

var RaceBodies = map[string]func(){
	"c03-send-recv-reply": schedSendRecvReply,
	"c03-two-ctx":         schedTwoCtx,
}
