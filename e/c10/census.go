package c10

import (
	"os"
	"runtime"
	"sort"
	"strconv"
	"strings"
)

const (
	modPrefix  = "go.nanomsg.org/mangos/v3/"
	selfPrefix = modPrefix + "ve/"
)

// gor is one goroutine of a runtime.Stack(all) dump.
type gor struct {
	id      int64
	state   string   // "select", "IO wait", "running", ...
	frames  []string // function names, innermost first
	created string   // function named by the "created by" line
	raw     string
}

func stackDump(all bool) string {
	n := 1 << 18
	for {
		buf := make([]byte, n)
		m := runtime.Stack(buf, all)
		if m < n {
			return string(buf[:m])
		}
		n *= 4
	}
}

func curGID() int64 {
	s := stackDump(false)
	s = strings.TrimPrefix(s, "goroutine ")
	if i := strings.IndexByte(s, ' '); i > 0 {
		id, _ := strconv.ParseInt(s[:i], 10, 64)
		return id
	}
	return -1
}

func funcName(line string) string {
	if i := strings.LastIndexByte(line, '('); i > 0 {
		return line[:i]
	}
	return line
}

// goroutines parses a dump of all goroutines; the calling goroutine is left out.
func goroutines() []gor {
	me := curGID()
	var out []gor
	for _, blk := range strings.Split(stackDump(true), "\n\n") {
		blk = strings.TrimSpace(blk)
		if !strings.HasPrefix(blk, "goroutine ") {
			continue
		}
		lines := strings.Split(blk, "\n")
		h := strings.TrimPrefix(lines[0], "goroutine ")
		g := gor{raw: blk}
		if i := strings.IndexByte(h, ' '); i > 0 {
			g.id, _ = strconv.ParseInt(h[:i], 10, 64)
			st := h[i+1:]
			st = strings.TrimPrefix(st, "[")
			if j := strings.IndexAny(st, ",]"); j >= 0 {
				st = st[:j]
			}
			g.state = st
		}
		if g.id == me {
			continue
		}
		for _, ln := range lines[1:] {
			if strings.HasPrefix(ln, "\t") || ln == "" {
				continue
			}
			if strings.HasPrefix(ln, "created by ") {
				c := strings.TrimPrefix(ln, "created by ")
				if j := strings.Index(c, " in goroutine"); j > 0 {
					c = c[:j]
				}
				g.created = c
				continue
			}
			g.frames = append(g.frames, funcName(ln))
		}
		out = append(out, g)
	}
	return out
}

func isHarnessFrame(f string) bool { return strings.HasPrefix(f, selfPrefix) }

func isMangosFrame(f string) bool {
	return strings.HasPrefix(f, modPrefix) && !strings.HasPrefix(f, selfPrefix)
}

func isForeignOwnedFrame(f string) bool {
	return strings.HasPrefix(f, "github.com/gorilla/websocket.") ||
		strings.HasPrefix(f, "net/http.(*Server).Serve") ||
		strings.HasPrefix(f, "net/http.(*conn")
}

// harness reports whether the goroutine runs harness code (a frame of this tree).
func (g gor) harness() bool {
	for _, f := range g.frames {
		if isHarnessFrame(f) {
			return true
		}
	}
	return false
}

// owned reports whether the goroutine belongs to mangos (or to the websocket / http
// machinery mangos started) and names its innermost such function.
func (g gor) owned() (bool, string) {
	if g.harness() {
		return false, ""
	}
	for _, f := range g.frames {
		if isMangosFrame(f) {
			return true, strings.TrimPrefix(f, modPrefix)
		}
	}
	// websocket / http machinery: name the outermost such function (the goroutine's role,
	// e.g. net/http.(*conn).serve), which does not depend on where inside it is parked
	for i := len(g.frames) - 1; i >= 0; i-- {
		if isForeignOwnedFrame(g.frames[i]) {
			return true, g.frames[i]
		}
	}
	if isMangosFrame(g.created) {
		top := "?"
		if len(g.frames) > 0 {
			top = g.frames[0]
		}
		return true, "created-by:" + strings.TrimPrefix(g.created, modPrefix) + ":" + top
	}
	return false, ""
}

func (g gor) hasFrame(sub string) bool {
	for _, f := range g.frames {
		if strings.Contains(f, sub) {
			return true
		}
	}
	return false
}

func (g gor) waiting() bool {
	switch g.state {
	case "select", "chan receive", "chan send", "sync.Cond.Wait", "semacquire", "IO wait", "select (no cases)",
		"chan receive (nil chan)", "chan send (nil chan)", "sync.WaitGroup.Wait":
		return true
	}
	return false
}

// leak is one goroutine that survives.
type leak struct {
	fn    string
	state string
	raw   string
}

// ownedGoroutines lists the goroutines that belong to mangos right now.
func ownedGoroutines() []leak {
	var out []leak
	for _, g := range goroutines() {
		if ok, fn := g.owned(); ok {
			out = append(out, leak{fn: fn, state: g.state, raw: g.raw})
		}
	}
	sort.Slice(out, func(i, j int) bool { return out[i].fn < out[j].fn })
	return out
}

// anyGoroutine reports whether some non-harness goroutine has a frame containing one of subs.
func anyGoroutine(subs ...string) bool {
	for _, g := range goroutines() {
		if g.harness() {
			continue
		}
		for _, s := range subs {
			if g.hasFrame(s) {
				return true
			}
		}
	}
	return false
}

// countGoroutines counts the goroutines (outside the harness) that have a frame containing sub.
func countGoroutines(sub string) int {
	n := 0
	for _, g := range goroutines() {
		if !g.harness() && g.hasFrame(sub) {
			n++
		}
	}
	return n
}

// goroutineByID finds one goroutine.
func goroutineByID(id int64) (gor, bool) {
	for _, g := range goroutines() {
		if g.id == id {
			return g, true
		}
	}
	return gor{}, false
}

// socketFDs counts the open socket descriptors of the process (-1 if /proc is unusable).
func socketFDs() int {
	ents, err := os.ReadDir("/proc/self/fd")
	if err != nil {
		return -1
	}
	n := 0
	for _, e := range ents {
		t, err := os.Readlink("/proc/self/fd/" + e.Name())
		if err == nil && strings.HasPrefix(t, "socket:") {
			n++
		}
	}
	return n
}

// trimStack shortens a goroutine dump for a message.
func trimStack(raw string) string {
	lines := strings.Split(raw, "\n")
	var keep []string
	for _, ln := range lines {
		if strings.HasPrefix(ln, "\t") {
			continue
		}
		keep = append(keep, funcName(ln))
		if len(keep) >= 9 {
			break
		}
	}
	return strings.Join(keep, " < ")
}
