// Package c10 is the engine E harness of property C10 on the REAL transports:
//
//	"Close unblocks everything, fails later calls and releases all resources."
//
// The protocol-level part of the property (every interleaving of Close with blocked calls on
// the 24 patterns) is decided under the controlled scheduler of engine S.  This package
// decides what S cannot see: real goroutines parked in the OS, real sockets, real listening
// addresses, the gorilla/websocket and net/http machinery under ws/wss, TLS handshakes.
//
// A case is
//
//	transport (inproc, ipc, tcp, tls+tcp, ws, wss)
//	x subject socket kind (all 24 constructors under protocol/, each with its natural peer)
//	x what is in progress when Close is called (a..h below)
//	x who listens (subject listens / subject dials) where that is a free choice
//	x variant (where the situation has several forms)
//
// and every case runs in its own WORKER SUBPROCESS of this binary (runner.go), so that the
// goroutine census starts from a clean baseline and a leak cannot pollute the next case.
//
// Situations:
//
//	a-idle       connected pair, nothing in flight
//	b-recv       a Recv blocked on the socket (req / surveyor send first, sub subscribes "")
//	c-ctxrecv    a Recv blocked on a context (req, rep, sub, surveyor, respondent)
//	d-send       a Send blocked because the peer does not read (kinds whose Send can block)
//	e-redial     asynchronous Dial, ReconnectTime 10 ms, against an address where nobody
//	             listens ("refused"), or where a raw listener drops every connection at once
//	             ("reset": the redial activity is observable) - Close while the timer is armed
//	f-stall      a raw client connected to the mangos listener that stays silent: before
//	             anything ("pre": no SP header / no TLS hello / no HTTP request) or after the
//	             TLS handshake ("posttls")
//	g-peerfail   the peer socket is closed first (a Recv is blocked on the subject where the
//	             kind can receive), then the subject
//	h-dialstall  the mirror image of f: the subject dials a raw listener that accepts and
//	             stays silent ("pre") or completes TLS and then stays silent ("posttls")
//	i-pending    peers that completed the transport level handshake wait to be accepted
//	j-handler    ws / wss listener whose handler is mounted on the application's HTTP server
//	             (idle / recv: a mangos peer connected after Listen; upgraded-then-listen /
//	             upgraded-no-listen: raw peers were upgraded by the application's server before
//	             Listen() was called, resp. Listen() is never called)
//	k-txblock    the pipe's sender is blocked inside the transport write: a raw peer completed
//	             the handshake / upgrade, reads nothing and stays connected; messages are sent
//	             until the kernel buffers are full (inproc: a peer socket that does not Recv
//	             and is closed only after the subject)
//
// Oracle, evaluated after Close() on ALL sockets of the case (worker.go); wall clock is used
// only as a generous watchdog (20 s per blocking call) and as a polling bound (10 s census):
//
//  1. every blocked call returned, with ErrClosed (a Recv may return a queued message; any
//     error is accepted when the peer failed first);
//  2. Close returned; a second Close returns ErrClosed; later Send/Recv/Dial/Listen/
//     OpenContext (and calls on a context opened before) return ErrClosed or ErrProtoOp;
//  3. goroutine census: no goroutine with a frame in go.nanomsg.org/mangos/v3/ (outside ve/),
//     github.com/gorilla/websocket, net/http.(*Server).Serve or net/http.(*conn) remains;
//  4. no pipe id is allocated and no socket lists a pipe;
//  5. every address a mangos listener was bound to can be bound again at once (each worker
//     uses a loopback address of its own, 127.x.y.z derived from its pid, with OS-assigned
//     ports, so that no other process can be handed the port in between);
//  6. for 300 ms after the census every address a mangos dialer was dialling is watched by a
//     probe listener: no connection attempt arrives (a redial timer left armed would dial);
//     then the census is taken again and the number of open socket descriptors of the
//     process is back at its baseline; raw connections held by the harness saw EOF.
//
// Every failing case is replayed three times in fresh worker processes and is reported only
// if the same signature fails 3/3; otherwise it is counted as "unconfirmed-failure".
package c10

import (
	"fmt"
	"strings"

	"go.nanomsg.org/mangos/v3"
	"go.nanomsg.org/mangos/v3/protocol/bus"
	"go.nanomsg.org/mangos/v3/protocol/pair"
	"go.nanomsg.org/mangos/v3/protocol/pair1"
	"go.nanomsg.org/mangos/v3/protocol/pub"
	"go.nanomsg.org/mangos/v3/protocol/pull"
	"go.nanomsg.org/mangos/v3/protocol/push"
	"go.nanomsg.org/mangos/v3/protocol/rep"
	"go.nanomsg.org/mangos/v3/protocol/req"
	"go.nanomsg.org/mangos/v3/protocol/respondent"
	"go.nanomsg.org/mangos/v3/protocol/star"
	"go.nanomsg.org/mangos/v3/protocol/sub"
	"go.nanomsg.org/mangos/v3/protocol/surveyor"
	"go.nanomsg.org/mangos/v3/protocol/xbus"
	"go.nanomsg.org/mangos/v3/protocol/xpair"
	"go.nanomsg.org/mangos/v3/protocol/xpair1"
	"go.nanomsg.org/mangos/v3/protocol/xpub"
	"go.nanomsg.org/mangos/v3/protocol/xpull"
	"go.nanomsg.org/mangos/v3/protocol/xpush"
	"go.nanomsg.org/mangos/v3/protocol/xrep"
	"go.nanomsg.org/mangos/v3/protocol/xreq"
	"go.nanomsg.org/mangos/v3/protocol/xrespondent"
	"go.nanomsg.org/mangos/v3/protocol/xstar"
	"go.nanomsg.org/mangos/v3/protocol/xsub"
	"go.nanomsg.org/mangos/v3/protocol/xsurveyor"
	_ "go.nanomsg.org/mangos/v3/transport/all"
	"go.nanomsg.org/mangos/v3/ve/ekit"
)

// ---------------------------------------------------------------------------------------
// socket kinds

// hdr describes the protocol header a well-formed raw-mode Send needs.
type hdr int

const (
	hdrNone  hdr = iota // cooked sockets and raw sockets without a header
	hdrHops             // 4 bytes, hop count 1            (xpair1, xstar)
	hdrReqID            // 4 bytes, request id, high bit   (xreq, xsurveyor)
	hdrPipe             // pipe id + request id            (xrep, xrespondent)
)

type kind struct {
	name    string
	mk      func() (mangos.Socket, error)
	peer    string // natural peer (cooked)
	dpeer   string // peer used in d-send when the natural peer exerts no back-pressure
	canRecv bool
	canSend bool
	needOut bool // cooked req / surveyor: Recv needs an outstanding request
	hasCtx  bool
	blocks  bool // Send can block on a connected socket whose peer does not read
	hdr     hdr
	quick   bool
}

var kinds = []*kind{
	{name: "pair", mk: pair.NewSocket, peer: "pair", canRecv: true, canSend: true, blocks: true, quick: true},
	{name: "xpair", mk: xpair.NewSocket, peer: "pair", canRecv: true, canSend: true, blocks: true},
	{name: "pair1", mk: pair1.NewSocket, peer: "pair1", canRecv: true, canSend: true, blocks: true},
	{name: "xpair1", mk: xpair1.NewSocket, peer: "pair1", canRecv: true, canSend: true, blocks: true, hdr: hdrHops},
	{name: "req", mk: req.NewSocket, peer: "rep", canRecv: true, canSend: true, needOut: true, hasCtx: true, blocks: true, quick: true},
	{name: "xreq", mk: xreq.NewSocket, peer: "rep", canRecv: true, canSend: true, blocks: true, hdr: hdrReqID, quick: true},
	{name: "rep", mk: rep.NewSocket, peer: "req", canRecv: true, canSend: true, hasCtx: true, quick: true},
	{name: "xrep", mk: xrep.NewSocket, peer: "req", dpeer: "xreq", canRecv: true, canSend: true, blocks: true, hdr: hdrPipe},
	{name: "pub", mk: pub.NewSocket, peer: "sub", canSend: true, quick: true},
	{name: "xpub", mk: xpub.NewSocket, peer: "sub", canSend: true},
	{name: "sub", mk: sub.NewSocket, peer: "pub", canRecv: true, hasCtx: true, quick: true},
	{name: "xsub", mk: xsub.NewSocket, peer: "pub", canRecv: true},
	{name: "push", mk: push.NewSocket, peer: "pull", canSend: true, blocks: true, quick: true},
	{name: "xpush", mk: xpush.NewSocket, peer: "pull", canSend: true, blocks: true},
	{name: "pull", mk: pull.NewSocket, peer: "push", canRecv: true, quick: true},
	{name: "xpull", mk: xpull.NewSocket, peer: "push", canRecv: true},
	{name: "surveyor", mk: surveyor.NewSocket, peer: "respondent", canRecv: true, canSend: true, needOut: true, hasCtx: true, quick: true},
	{name: "xsurveyor", mk: xsurveyor.NewSocket, peer: "respondent", canRecv: true, canSend: true, hdr: hdrReqID},
	{name: "respondent", mk: respondent.NewSocket, peer: "surveyor", canRecv: true, canSend: true, hasCtx: true, quick: true},
	{name: "xrespondent", mk: xrespondent.NewSocket, peer: "surveyor", dpeer: "xsurveyor", canRecv: true, canSend: true, blocks: true, hdr: hdrPipe, quick: true},
	{name: "bus", mk: bus.NewSocket, peer: "bus", canRecv: true, canSend: true, quick: true},
	{name: "xbus", mk: xbus.NewSocket, peer: "bus", canRecv: true, canSend: true},
	{name: "star", mk: star.NewSocket, peer: "star", canRecv: true, canSend: true, quick: true},
	{name: "xstar", mk: xstar.NewSocket, peer: "star", canRecv: true, canSend: true, hdr: hdrHops},
}

func kindByName(n string) *kind {
	for _, k := range kinds {
		if k.name == n {
			return k
		}
	}
	return nil
}

// ---------------------------------------------------------------------------------------
// transports

type tran struct {
	name   string
	scheme string
	family string // "inproc", "unix", "tcp"
	tls    bool
	http   bool
}

var trans = []*tran{
	{name: "inproc", scheme: "inproc", family: "inproc"},
	{name: "ipc", scheme: "ipc", family: "unix"},
	{name: "tcp", scheme: "tcp", family: "tcp"},
	{name: "tls", scheme: "tls+tcp", family: "tcp", tls: true},
	{name: "ws", scheme: "ws", family: "tcp", http: true},
	{name: "wss", scheme: "wss", family: "tcp", tls: true, http: true},
}

func tranByName(n string) *tran {
	for _, t := range trans {
		if t.name == n {
			return t
		}
	}
	return nil
}

// ---------------------------------------------------------------------------------------
// situations and cases

type situation struct {
	id       string
	scenario string
	roles    []string
	applies  func(t *tran, k *kind) bool
	variants func(t *tran) []string
}

var bothRoles = []string{"L", "D"}

func noVariant(*tran) []string { return []string{"-"} }

func stallVariants(t *tran) []string {
	if t.family == "inproc" {
		return nil
	}
	if t.tls {
		return []string{"pre", "posttls"}
	}
	return []string{"pre"}
}

var situations = []*situation{
	{id: "a-idle", scenario: "close-idle", roles: bothRoles, variants: noVariant,
		applies: func(*tran, *kind) bool { return true }},
	{id: "b-recv", scenario: "close-blocked-recv", roles: bothRoles, variants: noVariant,
		applies: func(_ *tran, k *kind) bool { return k.canRecv }},
	{id: "c-ctxrecv", scenario: "close-blocked-ctx-recv", roles: bothRoles, variants: noVariant,
		applies: func(_ *tran, k *kind) bool { return k.hasCtx }},
	{id: "d-send", scenario: "close-blocked-send", roles: bothRoles, variants: noVariant,
		applies: func(_ *tran, k *kind) bool { return k.blocks }},
	{id: "e-redial", scenario: "close-redial", roles: []string{"D"},
		variants: func(t *tran) []string {
			if t.family == "inproc" {
				return []string{"refused"}
			}
			return []string{"refused", "reset"}
		},
		applies: func(*tran, *kind) bool { return true }},
	{id: "f-stall", scenario: "close-stalled-accept", roles: []string{"L"}, variants: stallVariants,
		applies: func(t *tran, _ *kind) bool { return t.family != "inproc" }},
	{id: "g-peerfail", scenario: "close-peer-failed", roles: bothRoles, variants: noVariant,
		applies: func(*tran, *kind) bool { return true }},
	{id: "h-dialstall", scenario: "close-stalled-dial", roles: []string{"D"}, variants: stallVariants,
		applies: func(t *tran, _ *kind) bool { return t.family != "inproc" }},
	// the accept loop is busy (parked in the Attaching hook of one pipe) while a second peer has
	// completed the transport level handshake and waits to be accepted
	// the WebSocket listener's handler is mounted on the application's own HTTP server
	// (GetOption(OptionWebSocketHandler)): the listener runs no server of its own
	{id: "j-handler", scenario: "close-handler-mode", roles: []string{"L"}, variants: func(*tran) []string { return []string{"idle", "recv", "upgraded-then-listen", "upgraded-no-listen"} },
		applies: func(t *tran, _ *kind) bool { return t.http }},
	// the pipe's sender is blocked INSIDE THE TRANSPORT WRITE: the peer is a raw endpoint of the
	// harness that completed the handshake (TLS, SP header / WebSocket upgrade) and then reads
	// nothing and stays connected until the census is over; 64 KiB messages are sent until the
	// kernel buffers are full.  Nothing but the subject's own Close can release the connection
	// (in d-send the peer is a mangos socket that is closed right after the subject, which
	// releases whatever the subject's Close left behind).  inproc has no kernel buffer: the peer
	// is a mangos socket that does not Recv and is closed only after the subject's Close has
	// released the blocked Send and the peer has seen the pipe go away.
	{id: "k-txblock", scenario: "close-blocked-transport-write", roles: bothRoles, variants: noVariant,
		applies: func(t *tran, k *kind) bool {
			if k.hdr == hdrPipe || k.name == "rep" || k.name == "respondent" {
				return false // these send only in reply to a request
			}
			if t.family == "inproc" {
				return k.blocks
			}
			return k.canSend
		}},
	{id: "i-pending", scenario: "close-pending-accept", roles: []string{"L"}, variants: func(*tran) []string { return []string{"1", "3"} }, // peers waiting to be accepted
		applies: func(_ *tran, k *kind) bool { return k.name != "pair" && k.name != "xpair" && k.name != "pair1" && k.name != "xpair1" }},
}

func situationByID(id string) *situation {
	for _, s := range situations {
		if s.id == id {
			return s
		}
	}
	return nil
}

// caseSpec is one case; its String form is the exact, replayable input.
type caseSpec struct {
	Tran, Kind, Sit, Role, Var string
}

func (c caseSpec) String() string {
	return strings.Join([]string{c.Tran, c.Kind, c.Sit, c.Role, c.Var}, "/")
}

func parseCase(s string) (caseSpec, error) {
	f := strings.Split(s, "/")
	if len(f) != 5 {
		return caseSpec{}, fmt.Errorf("bad case %q (want tran/kind/situation/role/variant)", s)
	}
	c := caseSpec{f[0], f[1], f[2], f[3], f[4]}
	if tranByName(c.Tran) == nil || kindByName(c.Kind) == nil || situationByID(c.Sit) == nil {
		return c, fmt.Errorf("bad case %q", s)
	}
	return c, nil
}

// selected is the stated kind set of a (situation, transport) cell for a tier: the
// representative kinds in the quick tier, all 24 in the thorough tier.  The cells in which the
// socket kind only determines the protocol number of the SP / websocket handshake and in which
// every case has to sit out the full census bound if something is left over (a stalled dial
// on every transport, a stalled accept under the http server of ws / wss) use one kind in the
// quick tier and the representative kinds in the thorough tier.
func narrowCell(sitID string, t *tran) bool {
	return sitID == "h-dialstall" || (sitID == "f-stall" && t.http)
}

func selected(sit *situation, t *tran, k *kind, tier string) bool {
	narrow := narrowCell(sit.id, t)
	switch {
	case narrow && tier != "thorough":
		return k.name == "pair"
	case narrow:
		return k.quick
	case tier != "thorough":
		return k.quick
	}
	return true
}

// casesOf enumerates the complete case set of one situation for a tier.
func casesOf(sit *situation, tier string) []caseSpec {
	var out []caseSpec
	for _, t := range trans {
		for _, k := range kinds {
			if !selected(sit, t, k, tier) || !sit.applies(t, k) {
				continue
			}
			for _, role := range sit.roles {
				for _, v := range sit.variants(t) {
					out = append(out, caseSpec{t.name, k.name, sit.id, role, v})
				}
			}
		}
	}
	return out
}

func registerAll() {
	for _, sit := range situations {
		sit := sit
		ekit.Register("C10", ekit.Scenario{Name: sit.scenario, Run: func(st *ekit.Stats, tier string) {
			runScenario(st, sit, tier)
		}})
	}
}
