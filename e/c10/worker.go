package c10

import (
	"crypto/tls"
	"encoding/json"
	"errors"
	"fmt"
	"net"
	"net/http"
	"net/url"
	"os"
	"strings"
	"sync"
	"sync/atomic"
	"time"

	"go.nanomsg.org/mangos/v3"
	"go.nanomsg.org/mangos/v3/internal/core"
	itest "go.nanomsg.org/mangos/v3/internal/test"
	"go.nanomsg.org/mangos/v3/transport/ws"
)

// ---------------------------------------------------------------------------------------
// tunables: watchdogs and polling bounds only, never part of a verdict on their own

const (
	callWatchdog      = 20 * time.Second // a blocking call that does not return within this is "hung"
	setupWatchdog     = 20 * time.Second
	censusBound       = 10 * time.Second // goroutines / pipe ids must be gone within this
	censusStep        = 20 * time.Millisecond
	watchWindow       = 300 * time.Millisecond // probe listeners watch for late dial attempts
	lateBound         = 2 * time.Second
	eofBound          = 5 * time.Second
	handlerAttachWait = 3 * time.Second // j-handler upgraded-then-listen: bounded wait for the attach after Listen (stimulus, not an oracle)
	reconnectTime     = 10 * time.Millisecond
	bigBody           = 64 << 10
	workerWatchdog    = 300 * time.Second
	laterRepeat       = 8
)

// ---------------------------------------------------------------------------------------
// result of one case

type failure struct {
	Class  string `json:"class"`  // "goroutine-leak", "call-not-unblocked", ...
	Detail string `json:"detail"` // leaked function / call / error; no line numbers
	Kind   string `json:"kind"`   // "fail", "hang", "panic"
	Msg    string `json:"msg"`
}

type result struct {
	Case       string         `json:"case"`
	Ops        int            `json:"ops"`
	InProgress bool           `json:"in_progress"` // the activity under test was verifiably in progress at Close
	Counts     map[string]int `json:"counts,omitempty"`
	Fails      []failure      `json:"fails,omitempty"`
	SetupErr   string         `json:"setup_err,omitempty"`
	CensusMs   int64          `json:"census_ms"`
}

func (r *result) fail(class, detail, kind, format string, a ...interface{}) {
	for _, f := range r.Fails {
		if f.Class == class && f.Detail == detail {
			return
		}
	}
	r.Fails = append(r.Fails, failure{Class: class, Detail: detail, Kind: kind, Msg: fmt.Sprintf(format, a...)})
}

func (r *result) count(n string) {
	if r.Counts == nil {
		r.Counts = map[string]int{}
	}
	r.Counts[n]++
}

// ---------------------------------------------------------------------------------------
// worker entry

const (
	envCase = "VE_C10_CASE"
	envTmp  = "VE_C10_TMP"
)

var tmpDir = os.TempDir()

func workerMain(id string) {
	if t := os.Getenv(envTmp); t != "" {
		tmpDir = t
	}
	go func() {
		time.Sleep(workerWatchdog)
		fmt.Fprintf(os.Stderr, "c10 worker: case %s exceeded %v\n%s\n", id, workerWatchdog, stackDump(true))
		os.Exit(4)
	}()
	spec, err := parseCase(id)
	res := &result{Case: id}
	if err != nil {
		res.SetupErr = err.Error()
	} else {
		w := &wcase{spec: spec, t: tranByName(spec.Tran), k: kindByName(spec.Kind), res: res}
		w.run()
	}
	b, _ := json.Marshal(res)
	fmt.Printf("R %s\n", b)
}

// ---------------------------------------------------------------------------------------
// calls with a watchdog

type call struct {
	name    string
	gid     int64
	started chan struct{}
	done    chan struct{}
	err     error
	msg     bool // a message was returned
}

var opCount int64

//go:noinline
func callBody(c *call, fn func() (bool, error)) {
	c.gid = curGID()
	close(c.started)
	c.msg, c.err = fn()
	close(c.done)
}

func startCall(name string, fn func() (bool, error)) *call {
	atomic.AddInt64(&opCount, 1)
	c := &call{name: name, started: make(chan struct{}), done: make(chan struct{})}
	go callBody(c, fn)
	<-c.started
	return c
}

func (c *call) wait(d time.Duration) bool {
	t := time.NewTimer(d)
	defer t.Stop()
	select {
	case <-c.done:
		return true
	case <-t.C:
		return false
	}
}

func (c *call) finished() bool {
	select {
	case <-c.done:
		return true
	default:
		return false
	}
}

// parked reports whether the call's goroutine is waiting inside mangos.
func (c *call) parked() bool {
	g, ok := goroutineByID(c.gid)
	if !ok || !g.waiting() {
		return false
	}
	for _, f := range g.frames {
		if isMangosFrame(f) {
			return true
		}
	}
	return false
}

func poll(bound, step time.Duration, cond func() bool) bool {
	end := time.Now().Add(bound)
	for {
		if cond() {
			return true
		}
		if time.Now().After(end) {
			return false
		}
		time.Sleep(step)
	}
}

func errName(err error) string {
	switch err {
	case nil:
		return "nil"
	case mangos.ErrClosed:
		return "ErrClosed"
	case mangos.ErrProtoOp:
		return "ErrProtoOp"
	case mangos.ErrProtoState:
		return "ErrProtoState"
	case mangos.ErrRecvTimeout:
		return "ErrRecvTimeout"
	case mangos.ErrSendTimeout:
		return "ErrSendTimeout"
	case mangos.ErrCanceled:
		return "ErrCanceled"
	case mangos.ErrNoPeers:
		return "ErrNoPeers"
	case mangos.ErrAddrInUse:
		return "ErrAddrInUse"
	case mangos.ErrConnRefused:
		return "ErrConnRefused"
	case mangos.ErrBadTran:
		return "ErrBadTran"
	case mangos.ErrBadOption:
		return "ErrBadOption"
	}
	// a foreign error: keep it free of addresses and numbers
	s := err.Error()
	var b strings.Builder
	for _, r := range s {
		if r >= '0' && r <= '9' {
			continue
		}
		b.WriteRune(r)
	}
	s = b.String()
	if len(s) > 60 {
		s = s[:60]
	}
	return "error(" + s + ")"
}

// ---------------------------------------------------------------------------------------
// sockets

type sock struct {
	s    mangos.Socket
	k    *kind
	name string // "subject", "peer", "probe"
	mu   sync.Mutex
	att  int
	det  int
}

func (x *sock) hook(ev mangos.PipeEvent, _ mangos.Pipe) {
	x.mu.Lock()
	switch ev {
	case mangos.PipeEventAttached:
		x.att++
	case mangos.PipeEventDetached:
		x.det++
	}
	x.mu.Unlock()
}

func (x *sock) live() int {
	x.mu.Lock()
	defer x.mu.Unlock()
	return x.att - x.det
}

func (x *sock) attached() int {
	x.mu.Lock()
	defer x.mu.Unlock()
	return x.att
}

func (x *sock) detached() int {
	x.mu.Lock()
	defer x.mu.Unlock()
	return x.det
}

type wcase struct {
	spec caseSpec
	t    *tran
	k    *kind
	res  *result

	fdBase int
	srvTLS *tls.Config
	cliTLS *tls.Config
	seq    int

	subj, peer *sock
	socks      []*sock // every mangos socket of the case, in Close order
	ctx        mangos.Context
	pipeHdr    []byte // xrep / xrespondent: header of the request received in d-send

	blocked    []*call // calls expected to be unblocked by Close
	sender     *call
	sendCount  int64
	closedFlag int32

	listenAddrs []string // addresses mangos listeners were bound to (oracle 5)
	dialAddrs   []string // addresses mangos dialers were dialling (oracle 6)
	peerFailed  bool

	rawLn       net.Listener // e-reset / h-dialstall raw listener
	rawMu       sync.Mutex
	rawConns    []net.Conn // raw connections held open by the harness
	rawAccepted int64
	rawTLSDone  int64

	hung map[string]bool // later calls that did not return

	release      func() // i-pending: lets the parked Attaching hook return
	afterSubject func() // k-txblock on inproc: evaluated after the subject's Close, before the peer is closed
	after        func() // j-handler: the application shuts its own HTTP server down once the sockets are closed
}

// sitHandlerMode: the subject's ws / wss listener runs no server of its own: its handler is mounted
// on an HTTP server of the application.  A peer connects through that server (variant recv: and a
// Recv is blocked on the subject).  After the sockets are closed the application closes its server.
func (w *wcase) sitHandlerMode() {
	w.subj = w.newSock(w.k, "subject")
	w.peer = w.newSock(kindByName(w.k.peer), "peer")
	w.socks = []*sock{w.subj, w.peer}
	ln, err := net.Listen("tcp", "127.0.0.1:0")
	if err != nil {
		w.setupFail("application listener: %v", err)
	}
	if w.t.tls {
		ln = tls.NewListener(ln, w.srvTLS)
	}
	addr := fmt.Sprintf("%s://%s/handler", w.t.scheme, ln.Addr().String())
	atomic.AddInt64(&opCount, 3)
	l, err := w.subj.s.NewListener(addr, w.opts(true))
	if err != nil {
		w.setupFail("NewListener(%s): %v", addr, err)
	}
	h, err := l.GetOption(ws.OptionWebSocketHandler)
	if err != nil {
		w.setupFail("GetOption(OptionWebSocketHandler): %v", err)
	}
	mux := http.NewServeMux()
	mux.Handle("/handler", h.(http.Handler))
	srv := &http.Server{Handler: mux}
	go func() { _ = srv.Serve(ln) }()
	w.after = func() { _ = srv.Close() }
	if strings.HasPrefix(w.spec.Var, "upgraded-") {
		w.sitHandlerUpgradedFirst(l, addr, ln.Addr().String())
		return
	}
	if err = l.Listen(); err != nil {
		w.setupFail("Listen (handler mode): %v", err)
	}
	w.dial(w.peer, addr, false)
	if !poll(setupWatchdog, 2*time.Millisecond, func() bool { return w.subj.live() >= 1 && w.peer.live() >= 1 }) {
		w.setupFail("the pair did not attach through the application's server (subject %d, peer %d)", w.subj.live(), w.peer.live())
	}
	if w.spec.Var == "recv" && w.k.canRecv {
		w.blockRecv(false)
	} else {
		w.res.InProgress = true
	}
}

// sitHandlerUpgradedFirst: handler mode, and the application's HTTP server has upgraded peers BEFORE
// the application calls Listen() on the mangos listener (the handler is live from the moment it is
// mounted).  Two raw peers of the harness complete the (TLS and) WebSocket upgrade - each has read the
// 101 response, so the server side of the upgrade is done - and stay connected without sending.
//
//	upgraded-then-listen  Listen() is called afterwards; the peers are given to the socket (a PAIR
//	                      socket keeps one and closes the other); then everything is closed
//	upgraded-no-listen    Listen() is never called (start-up aborted); everything is closed
//
// Oracle: the usual census (no goroutine in mangos / gorilla / net/http, no pipe id, descriptors at
// baseline) and every raw peer sees the end of its connection.  The wait for the attach after Listen()
// is bounded (handlerAttachWait) and is a stimulus only: Close is judged whether or not the peers were
// attached by then.
func (w *wcase) sitHandlerUpgradedFirst(l mangos.Listener, addr, hostport string) {
	info := w.subj.s.Info()
	w.socks = []*sock{w.subj}
	_ = w.peer.s.Close()
	const nPeers = 2
	for i := 0; i < nPeers; i++ {
		c, err := net.DialTimeout("tcp", hostport, setupWatchdog)
		if err != nil {
			w.setupFail("raw dial %s: %v", hostport, err)
		}
		w.rawMu.Lock()
		w.rawConns = append(w.rawConns, c)
		w.rawMu.Unlock()
		if err := w.rawHandshake(c, true, addr, info); err != nil {
			w.setupFail("raw peer %d: %v", i, err)
		}
		atomic.AddInt64(&opCount, 1)
	}
	// every peer has its 101 response: the server ran the upgrade; its handler goroutines are (or are
	// about to be) parked in the listener's handler
	if !poll(setupWatchdog, 2*time.Millisecond, func() bool { return countGoroutines("transport/ws.(*listener).handler") >= nPeers }) {
		w.setupFail("%d peers were upgraded but fewer goroutines are inside the listener's handler", nPeers)
	}
	if w.spec.Var == "upgraded-then-listen" {
		atomic.AddInt64(&opCount, 1)
		if err := l.Listen(); err != nil {
			w.setupFail("Listen (handler mode, after the upgrades): %v", err)
		}
		if poll(handlerAttachWait, 2*time.Millisecond, func() bool { return w.subj.attached() >= 1 }) {
			w.res.count("upgraded-peer-attached-after-listen")
		} else {
			w.res.count("upgraded-peer-not-attached-after-listen")
		}
	}
	w.res.InProgress = true
}

type setupError struct{ msg string }

func (w *wcase) setupFail(format string, a ...interface{}) {
	panic(setupError{fmt.Sprintf(format, a...)})
}

func (w *wcase) run() {
	defer func() {
		w.res.Ops = int(atomic.LoadInt64(&opCount))
		if r := recover(); r != nil {
			if se, ok := r.(setupError); ok {
				w.res.SetupErr = se.msg
				return
			}
			w.res.fail("harness-panic", "worker", "panic", "harness panic: %v", r)
		}
	}()
	if w.t.tls {
		var err error
		if w.srvTLS, w.cliTLS, _, err = itest.NewTLSConfig(); err != nil {
			w.setupFail("tls config: %v", err)
		}
	}
	w.fdBase = socketFDs()
	if l := ownedGoroutines(); len(l) > 0 {
		w.setupFail("baseline is not clean: %s", l[0].fn)
	}
	if n := core.VerifPipeIDsInUse(); n != 0 {
		w.setupFail("baseline: %d pipe ids in use", n)
	}

	switch w.spec.Sit {
	case "a-idle":
		w.connectPair(w.k.peer)
		w.res.InProgress = true
	case "b-recv":
		w.connectPair(w.k.peer)
		w.blockRecv(false)
	case "c-ctxrecv":
		w.connectPair(w.k.peer)
		w.blockRecv(true)
	case "d-send":
		w.sitSend()
	case "e-redial":
		w.sitRedial()
	case "f-stall":
		w.sitStallAccept()
	case "g-peerfail":
		w.sitPeerFail()
	case "h-dialstall":
		w.sitStallDial()
	case "i-pending":
		w.sitPendingAccept()
	case "j-handler":
		w.sitHandlerMode()
	case "k-txblock":
		w.sitTxBlock()
	default:
		w.setupFail("unknown situation %s", w.spec.Sit)
	}
	w.closeAndJudge()
}

// ---------------------------------------------------------------------------------------
// addresses

func (w *wcase) newAddr(tag string) string {
	w.seq++
	switch w.t.family {
	case "inproc":
		return fmt.Sprintf("inproc://c10-%d-%s-%d", os.Getpid(), tag, w.seq)
	case "unix":
		dir := tmpDir
		if len(dir) > 70 {
			dir = os.TempDir()
		}
		return fmt.Sprintf("ipc://%s/c10-%d-%s%d.sock", dir, os.Getpid(), tag, w.seq)
	}
	return w.tcpAddr(loopIP() + ":0")
}

func (w *wcase) tcpAddr(hostport string) string {
	if w.t.http {
		return w.t.scheme + "://" + hostport + "/c10"
	}
	return w.t.scheme + "://" + hostport
}

// hostport extracts what net.Listen needs from a mangos address of this transport.
func (w *wcase) hostport(addr string) string {
	switch w.t.family {
	case "unix":
		return strings.TrimPrefix(addr, "ipc://")
	case "inproc":
		return addr
	}
	u, err := url.Parse(addr)
	if err != nil {
		w.setupFail("cannot parse %q: %v", addr, err)
	}
	return u.Host
}

// loopIP is the loopback address of this worker process.  All of 127.0.0.0/8 is local; every
// worker uses an address of its own (derived from its pid), so that a port the kernel hands
// to another process - another worker, another test run on the machine - can never be the
// port a case of this process has just closed, is still dialling, or binds again: without
// this, listeners of concurrent workers were observed to be given the port a case had closed
// milliseconds before (rebind "address already in use", foreign connection attempts).  The
// ports themselves are still assigned by the OS (":0").
func loopIP() string {
	pid := os.Getpid()
	return fmt.Sprintf("127.%d.%d.%d", 1+(pid>>16)&0x3f, (pid>>8)&0xff, pid&0xff)
}

// deadAddr returns an address of the transport where nobody listens.
func (w *wcase) deadAddr() string {
	switch w.t.family {
	case "inproc", "unix":
		return w.newAddr("dead")
	}
	l, err := net.Listen("tcp", loopIP()+":0")
	if err != nil {
		w.setupFail("no free port for a dead address: %v", err)
	}
	hp := l.Addr().String()
	_ = l.Close()
	return w.tcpAddr(hp)
}

func (w *wcase) opts(server bool) map[string]interface{} {
	if !w.t.tls {
		return nil
	}
	if server {
		return map[string]interface{}{mangos.OptionTLSConfig: w.srvTLS}
	}
	return map[string]interface{}{mangos.OptionTLSConfig: w.cliTLS}
}

// ---------------------------------------------------------------------------------------
// building blocks

func setOpt(s mangos.Socket, name string, v interface{}) {
	atomic.AddInt64(&opCount, 1)
	_ = s.SetOption(name, v) // options a pattern does not have are simply not set
}

func (w *wcase) newSock(k *kind, name string) *sock {
	s, err := k.mk()
	if err != nil {
		w.setupFail("%s.NewSocket: %v", k.name, err)
	}
	atomic.AddInt64(&opCount, 1)
	x := &sock{s: s, k: k, name: name}
	s.SetPipeEventHook(x.hook)
	setOpt(s, mangos.OptionReconnectTime, reconnectTime)
	setOpt(s, mangos.OptionMaxReconnectTime, time.Duration(0))
	if k.name == "surveyor" {
		setOpt(s, mangos.OptionSurveyTime, 10*time.Minute)
	}
	return x
}

func (w *wcase) listen(x *sock, addr string) string {
	atomic.AddInt64(&opCount, 2)
	l, err := x.s.NewListener(addr, w.opts(true))
	if err != nil {
		w.setupFail("%s NewListener(%s): %v", x.k.name, addr, err)
	}
	if err = l.Listen(); err != nil {
		w.setupFail("%s Listen(%s): %v", x.k.name, addr, err)
	}
	actual := l.Address()
	w.listenAddrs = append(w.listenAddrs, actual)
	return actual
}

func (w *wcase) dial(x *sock, addr string, asynch bool) {
	atomic.AddInt64(&opCount, 2)
	o := w.opts(false)
	if asynch {
		if o == nil {
			o = map[string]interface{}{}
		}
		o[mangos.OptionDialAsynch] = true
	}
	d, err := x.s.NewDialer(addr, o)
	if err != nil {
		w.setupFail("%s NewDialer(%s): %v", x.k.name, addr, err)
	}
	w.dialAddrs = append(w.dialAddrs, addr)
	c := startCall("Dial", func() (bool, error) { return false, d.Dial() })
	if !c.wait(setupWatchdog) {
		w.setupFail("%s Dial(%s) did not return", x.k.name, addr)
	}
	if c.err != nil {
		w.setupFail("%s Dial(%s): %v", x.k.name, addr, c.err)
	}
}

// connectPair creates the subject and a peer of the given kind and connects them according
// to the role of the case; the subject is closed first.
func (w *wcase) connectPair(peerKind string) {
	w.subj = w.newSock(w.k, "subject")
	w.peer = w.newSock(kindByName(peerKind), "peer")
	w.socks = []*sock{w.subj, w.peer}
	if w.spec.Sit == "d-send" || w.spec.Sit == "k-txblock" {
		setOpt(w.subj.s, mangos.OptionWriteQLen, 1)
		setOpt(w.peer.s, mangos.OptionReadQLen, 1)
	}
	ls, ds := w.subj, w.peer
	if w.spec.Role == "D" {
		ls, ds = w.peer, w.subj
	}
	addr := w.listen(ls, w.newAddr("l"))
	w.dial(ds, addr, false)
	if !poll(setupWatchdog, 2*time.Millisecond, func() bool { return w.subj.live() >= 1 && w.peer.live() >= 1 }) {
		w.setupFail("the pair did not attach (subject %d, peer %d)", w.subj.live(), w.peer.live())
	}
}

// message builds a well-formed message for the kind.
func message(k *kind, body []byte, pipeHdr []byte) *mangos.Message {
	m := mangos.NewMessage(len(body))
	m.Body = append(m.Body, body...)
	switch k.hdr {
	case hdrHops:
		m.Header = append(m.Header, 0, 0, 0, 1)
	case hdrReqID:
		m.Header = append(m.Header, 0x80, 0, 0, 1)
	case hdrPipe:
		if pipeHdr != nil {
			m.Header = append(m.Header, pipeHdr...)
		} else {
			m.Header = append(m.Header, 0, 0, 0, 1, 0x80, 0, 0, 1)
		}
	}
	return m
}

// blockRecv gets a Recv blocked on the subject (or on a fresh context of it).
func (w *wcase) blockRecv(onCtx bool) {
	var sendMsg func(*mangos.Message) error
	var recvMsg func() (*mangos.Message, error)
	var setOption func(string, interface{}) error
	what := "Recv"
	if onCtx {
		atomic.AddInt64(&opCount, 1)
		c, err := w.subj.s.OpenContext()
		if err != nil {
			w.setupFail("%s OpenContext: %v", w.k.name, err)
		}
		w.ctx = c
		sendMsg, recvMsg, setOption = c.SendMsg, c.RecvMsg, c.SetOption
		what = "ctx.Recv"
	} else {
		sendMsg, recvMsg, setOption = w.subj.s.SendMsg, w.subj.s.RecvMsg, w.subj.s.SetOption
	}
	if w.k.name == "sub" {
		atomic.AddInt64(&opCount, 1)
		if err := setOption(mangos.OptionSubscribe, ""); err != nil {
			w.setupFail("subscribe: %v", err)
		}
	}
	if w.k.needOut {
		c := startCall("Send", func() (bool, error) { return false, sendMsg(message(w.k, []byte("q"), nil)) })
		if !c.wait(setupWatchdog) || c.err != nil {
			w.setupFail("%s: the request could not be sent: %v", w.k.name, c.err)
		}
	}
	c := startCall(what, func() (bool, error) {
		m, err := recvMsg()
		return m != nil, err
	})
	w.blocked = append(w.blocked, c)
	if poll(3*time.Second, 2*time.Millisecond, func() bool { return c.finished() || c.parked() }) && !c.finished() {
		w.res.InProgress = true
	}
}

// sitSend gets a Send blocked: the peer has a receive queue of one and nobody receives,
// the subject has a send queue of one and sends 64 KiB messages until Send stops returning.
func (w *wcase) sitSend() {
	pk := w.k.peer
	if w.k.dpeer != "" {
		pk = w.k.dpeer
	}
	w.connectPair(pk)
	if w.k.hdr == hdrPipe {
		// a raw replier needs the header of a request to address its reply
		pkind := kindByName(pk)
		c := startCall("peer.Send", func() (bool, error) {
			return false, w.peer.s.SendMsg(message(pkind, []byte("q"), nil))
		})
		if !c.wait(setupWatchdog) || c.err != nil {
			w.setupFail("peer request: %v", c.err)
		}
		var hdr []byte
		r := startCall("Recv", func() (bool, error) {
			m, err := w.subj.s.RecvMsg()
			if m != nil {
				hdr = append([]byte{}, m.Header...)
			}
			return m != nil, err
		})
		if !r.wait(setupWatchdog) || r.err != nil || len(hdr) < 8 {
			w.setupFail("%s: no request received (err %v, header %d bytes)", w.k.name, r.err, len(hdr))
		}
		w.pipeHdr = hdr
	}
	body := make([]byte, bigBody)
	w.sender = startCall("Send", func() (bool, error) {
		after := 0
		for {
			err := w.subj.s.SendMsg(message(w.k, body, w.pipeHdr))
			if err != nil {
				return false, err
			}
			atomic.AddInt64(&w.sendCount, 1)
			if atomic.LoadInt32(&w.closedFlag) != 0 {
				if after++; after > 1000 {
					return false, errors.New("Send keeps succeeding after Close returned")
				}
			}
		}
	})
	// blocked = parked inside mangos and the count of completed Sends does not move
	stable := 0
	last := int64(-1)
	ok := poll(15*time.Second, 10*time.Millisecond, func() bool {
		if w.sender.finished() {
			return true
		}
		n := atomic.LoadInt64(&w.sendCount)
		if n == last && w.sender.parked() {
			stable++
		} else {
			stable = 0
		}
		last = n
		return stable >= 20
	})
	if ok && !w.sender.finished() {
		w.res.InProgress = true
	} else {
		w.res.count("send-never-blocked")
	}
}

// sitRedial: asynchronous dial against an address that never yields a connection.
func (w *wcase) sitRedial() {
	w.subj = w.newSock(w.k, "subject")
	w.socks = []*sock{w.subj}
	var addr string
	if w.spec.Var == "reset" {
		addr = w.rawListen("reset")
	} else {
		addr = w.deadAddr()
	}
	w.dial(w.subj, addr, true)
	if w.spec.Var == "reset" {
		// the redial cycle is observable: wait for a few attempts
		if poll(5*time.Second, time.Millisecond, func() bool { return atomic.LoadInt64(&w.rawAccepted) >= 3 }) {
			w.res.InProgress = true
		}
	} else {
		// nothing to observe on a refused connection: three reconnect intervals
		time.Sleep(3*reconnectTime + 5*time.Millisecond)
		w.res.InProgress = true
	}
}

// rawListen starts a raw listener of the transport's family: "reset" closes every
// connection at once, "pre" keeps it and stays silent, "posttls" completes the TLS handshake
// and then stays silent.  It returns the mangos address to dial.
func (w *wcase) rawListen(mode string) string {
	var ln net.Listener
	var err error
	var addr string
	if w.t.family == "unix" {
		addr = w.newAddr("raw")
		ln, err = net.Listen("unix", w.hostport(addr))
	} else {
		ln, err = net.Listen("tcp", loopIP()+":0")
		if err == nil {
			addr = w.tcpAddr(ln.Addr().String())
		}
	}
	if err != nil {
		w.setupFail("raw listen: %v", err)
	}
	w.rawLn = ln
	go func() {
		for {
			c, err := ln.Accept()
			if err != nil {
				return
			}
			switch mode {
			case "reset":
				_ = c.Close()
			case "pre":
				w.rawMu.Lock()
				w.rawConns = append(w.rawConns, c)
				w.rawMu.Unlock()
			case "posttls":
				w.rawMu.Lock()
				w.rawConns = append(w.rawConns, c)
				w.rawMu.Unlock()
				go func() {
					tc := tls.Server(c, w.srvTLS)
					_ = tc.SetDeadline(time.Now().Add(setupWatchdog))
					if tc.Handshake() == nil {
						_ = tc.SetDeadline(time.Time{})
						atomic.AddInt64(&w.rawTLSDone, 1)
					}
				}()
			}
			atomic.AddInt64(&w.rawAccepted, 1)
		}
	}()
	return addr
}

// sitStallAccept: the subject listens; a raw client connects and never speaks SP.
func (w *wcase) sitStallAccept() {
	w.subj = w.newSock(w.k, "subject")
	w.socks = []*sock{w.subj}
	addr := w.listen(w.subj, w.newAddr("l"))
	network := "tcp"
	if w.t.family == "unix" {
		network = "unix"
	}
	c, err := net.DialTimeout(network, w.hostport(addr), setupWatchdog)
	if err != nil {
		w.setupFail("raw dial %s: %v", addr, err)
	}
	w.rawConns = append(w.rawConns, c)
	marker := []string{"transport.(*conn).handshake", "transport.(*connipc).handshake"}
	if w.t.http {
		marker = []string{"net/http.(*conn).serve"}
	}
	if w.spec.Var == "posttls" {
		tc := tls.Client(c, w.cliTLS)
		_ = tc.SetDeadline(time.Now().Add(setupWatchdog))
		if err := tc.Handshake(); err != nil {
			w.setupFail("raw tls handshake: %v", err)
		}
		_ = tc.SetDeadline(time.Time{})
	}
	// in progress = the mangos side is parked on this connection
	if poll(5*time.Second, 2*time.Millisecond, func() bool { return anyGoroutine(marker...) }) {
		w.res.InProgress = true
	}
}

// sitStallDial: the subject dials a raw listener that never speaks SP.
func (w *wcase) sitStallDial() {
	w.subj = w.newSock(w.k, "subject")
	w.socks = []*sock{w.subj}
	addr := w.rawListen(w.spec.Var)
	w.dial(w.subj, addr, true)
	if poll(5*time.Second, 2*time.Millisecond, func() bool {
		if w.spec.Var == "posttls" && atomic.LoadInt64(&w.rawTLSDone) < 1 {
			return false
		}
		return atomic.LoadInt64(&w.rawAccepted) >= 1 && anyGoroutine(".(*dialer).Dial")
	}) {
		time.Sleep(20 * time.Millisecond)
		if anyGoroutine(".(*dialer).Dial") {
			w.res.InProgress = true
		}
	}
}

// sitPendingAccept: the subject listens; the Attaching hook of the first pipe parks the accept
// loop; a second peer dials and completes the transport level handshake, so its connection sits
// in the transport listener waiting to be accepted when the subject is closed.  The hook is
// released a moment after Close was called.
func (w *wcase) sitPendingAccept() {
	w.subj = w.newSock(w.k, "subject")
	park := make(chan struct{})
	var parked int32
	subj := w.subj
	subj.s.SetPipeEventHook(func(ev mangos.PipeEvent, p mangos.Pipe) {
		if ev == mangos.PipeEventAttaching && atomic.CompareAndSwapInt32(&parked, 0, 1) {
			<-park
		}
		subj.hook(ev, p)
	})
	var once sync.Once
	w.release = func() { once.Do(func() { close(park) }) }
	p1 := w.newSock(kindByName(w.k.peer), "peer1")
	w.socks = []*sock{w.subj, p1}
	addr := w.listen(w.subj, w.newAddr("l"))
	w.dial(p1, addr, true)
	if !poll(setupWatchdog, 2*time.Millisecond, func() bool { return atomic.LoadInt32(&parked) == 1 }) {
		w.release()
		w.setupFail("the accept loop never reached the Attaching hook")
	}
	waiting := 1
	if w.spec.Var == "3" {
		waiting = 3
	}
	var late []*sock
	for i := 0; i < waiting; i++ {
		p := w.newSock(kindByName(w.k.peer), fmt.Sprintf("peer%d", i+2))
		w.socks = append(w.socks, p)
		late = append(late, p)
		w.dial(p, addr, true)
	}
	// the dialling side attaches as soon as the transport level handshake is through
	if poll(5*time.Second, 2*time.Millisecond, func() bool {
		if w.t.family == "inproc" {
			return true
		}
		for _, p := range late {
			if p.live() < 1 {
				return false
			}
		}
		return true
	}) {
		time.Sleep(30 * time.Millisecond)
		w.res.InProgress = true
	}
}

// sitPeerFail: the peer is closed first.
func (w *wcase) sitPeerFail() {
	w.connectPair(w.k.peer)
	if w.k.canRecv {
		w.blockRecv(false)
	} else {
		w.res.InProgress = true
	}
	w.closeSock(w.peer)
	w.peerFailed = true
	if poll(5*time.Second, 2*time.Millisecond, func() bool { return w.subj.detached() >= 1 }) {
		w.res.count("peer-failure-seen-by-subject")
	}
	if w.spec.Role == "D" {
		// the subject's dialer is now redialling a dead address
		time.Sleep(2 * reconnectTime)
	}
	w.socks = []*sock{w.subj}
}

// ---------------------------------------------------------------------------------------
// Close and the oracle

func (w *wcase) closeSock(x *sock) {
	c := startCall("Close", func() (bool, error) { return false, x.s.Close() })
	if !c.wait(callWatchdog) {
		w.res.fail("close-hang", x.name, "hang", "%s (%s) Close did not return within %v", x.name, x.k.name, callWatchdog)
		return
	}
	if c.err != nil {
		w.res.fail("close-error", x.name+"="+errName(c.err), "fail", "%s (%s) first Close returned %v", x.name, x.k.name, c.err)
	}
}

func closedOrProtoOp(err error) bool { return err == mangos.ErrClosed || err == mangos.ErrProtoOp }

func (w *wcase) later(op string, accept func(bool, error) bool, fn func() (bool, error)) {
	if w.hung[op] {
		return // this operation hangs on the closed socket: one verdict is enough
	}
	c := startCall(op, fn)
	if !c.wait(callWatchdog) {
		if w.hung == nil {
			w.hung = map[string]bool{}
		}
		w.hung[op] = true
		w.res.fail("later-call-blocks", op, "hang", "%s after Close did not return within %v", op, callWatchdog)
		return
	}
	if !accept(c.msg, c.err) {
		w.res.fail("later-call-error", op+"="+errName(c.err), "fail", "%s after Close returned %v, want ErrClosed (or ErrProtoOp)", op, c.err)
	}
}

func (w *wcase) closeAndJudge() {
	res := w.res
	all := append([]*sock{}, w.socks...)
	if w.peerFailed {
		all = append(all, w.peer)
	}

	// --- Close every socket of the case
	if w.release != nil {
		go func() {
			time.Sleep(100 * time.Millisecond)
			w.release()
		}()
	}
	for i, x := range w.socks {
		w.closeSock(x)
		if i == 0 && w.afterSubject != nil {
			w.afterSubject()
		}
	}
	atomic.StoreInt32(&w.closedFlag, 1)
	if w.after != nil {
		w.after()
	}

	// --- 5. the listening addresses can be bound again at once
	for _, a := range w.listenAddrs {
		w.rebind(a)
	}

	// --- 1. blocked calls returned with the closed error
	for _, c := range append(append([]*call{}, w.blocked...), w.senderCalls()...) {
		if !c.wait(callWatchdog) {
			res.fail("call-not-unblocked", c.name, "hang", "%s blocked on the %s socket did not return within %v of Close", c.name, w.k.name, callWatchdog)
			continue
		}
		switch {
		case c.err == mangos.ErrClosed:
		case c.err == nil && c.msg: // a queued message
		case w.peerFailed && c.err != nil:
		default:
			res.fail("blocked-call-error", c.name+"="+errName(c.err), "fail", "%s blocked on the %s socket returned %v after Close, want ErrClosed", c.name, w.k.name, c.err)
		}
	}

	// --- 2. later calls fail with the closed error
	s := w.subj.s
	recvOK := func(msg bool, err error) bool { return closedOrProtoOp(err) || (err == nil && msg) }
	errOnly := func(_ bool, err error) bool { return closedOrProtoOp(err) }
	for i := 0; i < laterRepeat; i++ {
		w.later("Send", errOnly, func() (bool, error) { return false, s.SendMsg(message(w.k, []byte("late"), w.pipeHdr)) })
		w.later("Recv", recvOK, func() (bool, error) { m, err := s.RecvMsg(); return m != nil, err })
	}
	w.later("Close", func(_ bool, err error) bool { return err == mangos.ErrClosed }, func() (bool, error) { return false, s.Close() })
	dialTo := w.newAddr("late")
	if len(w.dialAddrs) > 0 {
		dialTo = w.dialAddrs[0]
	} else if len(w.listenAddrs) > 0 {
		dialTo = w.listenAddrs[0]
	}
	w.later("Dial", errOnly, func() (bool, error) { return false, s.DialOptions(dialTo, w.opts(false)) })
	w.later("Listen", errOnly, func() (bool, error) { return false, s.ListenOptions(w.newAddr("late"), w.opts(true)) })
	w.later("OpenContext", errOnly, func() (bool, error) { _, err := s.OpenContext(); return false, err })
	if w.ctx != nil {
		cx := w.ctx
		w.later("ctx.Send", errOnly, func() (bool, error) { return false, cx.SendMsg(message(w.k, []byte("late"), nil)) })
		w.later("ctx.Recv", recvOK, func() (bool, error) { m, err := cx.RecvMsg(); return m != nil, err })
		w.later("ctx.Close", func(_ bool, err error) bool { return err == mangos.ErrClosed }, func() (bool, error) { return false, cx.Close() })
	}

	// --- 3. + 4. census
	t0 := time.Now()
	var leaks []leak
	ids, listed := 0, 0
	clean := func() bool {
		leaks = ownedGoroutines()
		ids = core.VerifPipeIDsInUse()
		listed = 0
		for _, x := range all {
			if n := core.VerifSocketPipes(x.s); n > 0 {
				listed += n
			}
		}
		return len(leaks) == 0 && ids == 0 && listed == 0
	}
	ok := poll(censusBound, censusStep, clean)
	res.CensusMs = time.Since(t0).Milliseconds()
	leaked := !ok // something is left over: the late checks below would only repeat it
	if !ok {
		fdNow := socketFDs()
		seen := map[string]bool{}
		for _, l := range leaks {
			if seen[l.fn] {
				continue
			}
			seen[l.fn] = true
			res.fail("goroutine-leak", l.fn, "fail", "%v after every socket was closed a goroutine is still in %s [%s] (socket descriptors: %d at start, %d now): %s",
				censusBound, l.fn, l.state, w.fdBase, fdNow, trimStack(l.raw))
		}
		if ids != 0 {
			res.fail("pipe-ids-in-use", fmt.Sprint(ids), "fail", "%d pipe id(s) still allocated %v after every socket was closed", ids, censusBound)
		}
		if listed != 0 {
			res.fail("pipes-still-listed", fmt.Sprint(listed), "fail", "%d pipe(s) still listed by closed sockets", listed)
		}
	}

	// --- raw connections held by the harness must have been released by mangos
	w.rawMu.Lock()
	raws := append([]net.Conn{}, w.rawConns...)
	w.rawMu.Unlock()
	if (w.spec.Sit == "f-stall" || w.spec.Sit == "h-dialstall" || w.spec.Sit == "k-txblock" || w.spec.Sit == "j-handler") && !leaked {
		// (a goroutine that is still parked on the connection has been reported already;
		// k-txblock: the raw peer first drains what the subject had written)
		for _, c := range raws {
			if !sawEOF(c, eofBound) {
				res.fail("connection-left-open", w.spec.Var, "fail", "the stalled connection is still open %v after the socket was closed although no goroutine is left", eofBound)
				break
			}
		}
	}
	for _, c := range raws {
		_ = c.Close()
	}

	// --- 6. nobody dials any more
	n1 := atomic.LoadInt64(&w.rawAccepted)
	late := w.watch()
	if w.rawLn != nil {
		late += int(atomic.LoadInt64(&w.rawAccepted) - n1)
		_ = w.rawLn.Close()
		if w.t.family == "unix" {
			_ = os.Remove(w.hostport(w.dialAddrs[0]))
		}
	}
	if late > 0 {
		res.fail("dial-after-close", "connection-attempt", "fail", "%d connection attempt(s) arrived at the dialled address after every socket was closed and the census was clean (a redial is still scheduled)", late)
	}
	if !leaked {
		var l2 []leak
		if !poll(lateBound, censusStep, func() bool {
			l2 = ownedGoroutines()
			return len(l2) == 0 && core.VerifPipeIDsInUse() == 0
		}) {
			seen := map[string]bool{}
			for _, l := range l2 {
				if !seen[l.fn] {
					seen[l.fn] = true
					res.fail("goroutine-leak-late", l.fn, "fail", "a goroutine in %s [%s] appeared after the census was clean: %s", l.fn, l.state, trimStack(l.raw))
				}
			}
			if n := core.VerifPipeIDsInUse(); n != 0 {
				res.fail("pipe-ids-in-use-late", fmt.Sprint(n), "fail", "%d pipe id(s) allocated after the census was clean", n)
			}
			leaked = true
		}
	}
	if !leaked && w.fdBase >= 0 {
		now := 0
		if !poll(lateBound, censusStep, func() bool { now = socketFDs(); return now <= w.fdBase }) {
			res.fail("fd-leak", fmt.Sprintf("+%d", now-w.fdBase), "fail", "%d socket descriptor(s) more than at the start of the case although no goroutine is left", now-w.fdBase)
		}
	}
}

func (w *wcase) senderCalls() []*call {
	if w.sender == nil {
		return nil
	}
	return []*call{w.sender}
}

// sawEOF reads from a raw connection until it fails; a timeout means the other side still
// holds the connection open.
func sawEOF(c net.Conn, bound time.Duration) bool {
	_ = c.SetReadDeadline(time.Now().Add(bound))
	buf := make([]byte, 4096)
	for {
		_, err := c.Read(buf)
		if err == nil {
			continue
		}
		var ne net.Error
		if errors.As(err, &ne) && ne.Timeout() {
			return false
		}
		return true
	}
}

// rebind checks oracle 5 for one address.
func (w *wcase) rebind(addr string) {
	switch w.t.family {
	case "tcp":
		l, err := net.Listen("tcp", w.hostport(addr))
		if err != nil {
			w.res.fail("address-still-bound", "rebind", "fail", "net.Listen(tcp, %s) right after Close: %v%s", w.hostport(addr), err, portHolders(w.hostport(addr)))
			return
		}
		_ = l.Close()
	default:
		// ipc, inproc: a new mangos listener on the same address
		p := w.newSock(kindByName("pair"), "probe")
		atomic.AddInt64(&opCount, 1)
		err := p.s.Listen(addr)
		if err != nil {
			w.res.fail("address-still-bound", "rebind", "fail", "a new Listen(%s) right after Close: %v", addr, err)
		}
		_ = p.s.Close()
	}
}

// watch holds a probe listener on every dialled address for watchWindow and counts the
// connection attempts that arrive.
func (w *wcase) watch() int {
	var count int64
	var closers []func()
	seen := map[string]bool{}
	for _, a := range w.dialAddrs {
		if seen[a] {
			continue
		}
		seen[a] = true
		if w.rawLn != nil {
			continue // the raw listener of the case is still counting
		}
		switch w.t.family {
		case "tcp", "unix":
			network := "tcp"
			if w.t.family == "unix" {
				network = "unix"
			}
			l, err := net.Listen(network, w.hostport(a))
			if err != nil {
				w.res.count("watch-skipped")
				continue
			}
			go func() {
				for {
					c, err := l.Accept()
					if err != nil {
						return
					}
					atomic.AddInt64(&count, 1)
					_ = c.Close()
				}
			}()
			closers = append(closers, func() { _ = l.Close() })
		case "inproc":
			// a listener the leaked dialer can connect to: the kind its peer had
			pk := kindByName(w.k.peer)
			if w.spec.Sit == "d-send" && w.k.dpeer != "" {
				pk = kindByName(w.k.dpeer)
			}
			var lk []*kind
			lk = append(lk, pk)
			if w.spec.Role == "L" && w.spec.Sit != "e-redial" {
				lk = []*kind{w.k} // the peer was the dialer
			}
			p := w.newSock(lk[0], "probe")
			p.s.SetPipeEventHook(func(ev mangos.PipeEvent, _ mangos.Pipe) {
				if ev == mangos.PipeEventAttaching {
					atomic.AddInt64(&count, 1)
				}
			})
			if err := p.s.Listen(a); err != nil {
				w.res.count("watch-skipped")
				_ = p.s.Close()
				continue
			}
			closers = append(closers, func() { _ = p.s.Close() })
		}
	}
	time.Sleep(watchWindow)
	for _, f := range closers {
		f()
	}
	return int(atomic.LoadInt64(&count))
}

// portHolders describes, from /proc/net/tcp, the sockets that have the port of hostport as
// their local port, and whether they belong to this process (diagnostics only).
func portHolders(hostport string) string {
	_, ps, err := net.SplitHostPort(hostport)
	if err != nil {
		return ""
	}
	var port int
	fmt.Sscanf(ps, "%d", &port)
	mine := map[string]bool{}
	if ents, err := os.ReadDir("/proc/self/fd"); err == nil {
		for _, e := range ents {
			if t, err := os.Readlink("/proc/self/fd/" + e.Name()); err == nil && strings.HasPrefix(t, "socket:[") {
				mine[strings.TrimSuffix(strings.TrimPrefix(t, "socket:["), "]")] = true
			}
		}
	}
	b, err := os.ReadFile("/proc/net/tcp")
	if err != nil {
		return ""
	}
	states := map[string]string{"01": "ESTABLISHED", "02": "SYN_SENT", "03": "SYN_RECV", "04": "FIN_WAIT1", "05": "FIN_WAIT2", "06": "TIME_WAIT", "07": "CLOSE", "08": "CLOSE_WAIT", "09": "LAST_ACK", "0A": "LISTEN", "0B": "CLOSING"}
	var out []string
	for _, ln := range strings.Split(string(b), "\n")[1:] {
		f := strings.Fields(ln)
		if len(f) < 10 {
			continue
		}
		var lp int
		if i := strings.IndexByte(f[1], ':'); i < 0 {
			continue
		} else if _, err := fmt.Sscanf(f[1][i+1:], "%X", &lp); err != nil || lp != port {
			continue
		}
		owner := "another process"
		if mine[f[9]] {
			owner = "this process"
		} else if f[9] == "0" {
			owner = "no process"
		}
		out = append(out, fmt.Sprintf("%s->%s %s (%s)", f[1], f[2], states[f[3]], owner))
	}
	if len(out) == 0 {
		return ""
	}
	return "; sockets with that local port: " + strings.Join(out, ", ")
}
