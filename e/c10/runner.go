package c10

import (
	"bufio"
	"bytes"
	"encoding/json"
	"fmt"
	"os"
	"os/exec"
	"runtime"
	"sort"
	"strconv"
	"strings"
	"sync"
	"time"

	"go.nanomsg.org/mangos/v3/ve/ekit"
)

// Parent side.  Every case is evaluated by a fresh worker process: this binary re-executed
// with VE_C10_CASE=<tran/kind/situation/role/variant>.  The worker prints one line
// "R <json result>" and exits.  A case can be replayed by hand with
//
//	VE_C10_CASE=tcp/req/b-recv/L/- VE_C10_TMP=/tmp ./ve.bin

func init() {
	registerAll()
	if id := os.Getenv(envCase); id != "" {
		workerMain(id)
		os.Exit(0)
	}
}

const processBound = 330 * time.Second // the worker's own watchdog fires first

type capBuf struct {
	mu sync.Mutex
	b  bytes.Buffer
}

func (c *capBuf) Write(p []byte) (int, error) {
	c.mu.Lock()
	if c.b.Len() < 512<<10 {
		c.b.Write(p)
	}
	c.mu.Unlock()
	return len(p), nil
}

func (c *capBuf) String() string {
	c.mu.Lock()
	defer c.mu.Unlock()
	return c.b.String()
}

// excerpt keeps the informative part of a crash dump: the panic / fatal line and the first
// mangos frames (function names only).
func excerpt(s string) string {
	var keep []string
	frames := 0
	for _, ln := range strings.Split(s, "\n") {
		if strings.HasPrefix(ln, "\t") {
			continue // file:line
		}
		t := strings.TrimSpace(ln)
		switch {
		case strings.HasPrefix(t, "panic:"), strings.HasPrefix(t, "fatal error:"), strings.HasPrefix(t, "c10 worker:"):
			if len(keep) < 2 {
				keep = append(keep, t)
			}
		case isMangosFrame(t) && frames < 3:
			keep = append(keep, "at "+strings.TrimPrefix(funcName(t), modPrefix))
			frames++
		}
	}
	if len(keep) == 0 {
		if len(s) > 300 {
			s = s[:300]
		}
		return strings.TrimSpace(s)
	}
	return strings.Join(keep, "; ")
}

// runWorker evaluates one case in a fresh process.
func runWorker(c caseSpec) *result {
	id := c.String()
	cmd := exec.Command(os.Args[0])
	cmd.Env = append(os.Environ(), envCase+"="+id, envTmp+"="+ekit.Tmp)
	errb := &capBuf{}
	cmd.Stderr = errb
	out, err := cmd.StdoutPipe()
	if err != nil {
		return &result{Case: id, SetupErr: "pipe: " + err.Error()}
	}
	if err := cmd.Start(); err != nil {
		return &result{Case: id, SetupErr: "cannot start worker: " + err.Error()}
	}
	var res *result
	rd := make(chan struct{})
	go func() {
		defer close(rd)
		s := bufio.NewScanner(out)
		s.Buffer(make([]byte, 1<<16), 16<<20)
		for s.Scan() {
			ln := s.Text()
			if strings.HasPrefix(ln, "R ") {
				var r result
				if json.Unmarshal([]byte(ln[2:]), &r) == nil {
					res = &r
				}
			}
		}
	}()
	killed := false
	t := time.AfterFunc(processBound, func() { killed = true; _ = cmd.Process.Kill() })
	<-rd
	werr := cmd.Wait()
	t.Stop()
	if res != nil {
		return res
	}
	r := &result{Case: id}
	switch {
	case killed:
		r.fail("worker-hang", "killed", "hang", "the worker made no result within %v", processBound)
	case werr != nil && strings.Contains(errb.String(), "c10 worker: case"):
		r.fail("worker-hang", "watchdog", "hang", "the case did not finish within %v: %s", workerWatchdog, excerpt(errb.String()))
	default:
		ex := excerpt(errb.String())
		r.fail("worker-crash", stripDigits(ex), "panic", "the worker process died (%v): %s", werr, ex)
	}
	return r
}

func stripDigits(s string) string {
	var b strings.Builder
	for _, r := range s {
		if r >= '0' && r <= '9' {
			continue
		}
		b.WriteRune(r)
	}
	s = b.String()
	if len(s) > 120 {
		s = s[:120]
	}
	return s
}

func parallelism() int {
	if v, err := strconv.Atoi(os.Getenv("VE_C10_PAR")); err == nil && v > 0 {
		return v
	}
	n := runtime.NumCPU()
	if n > 16 {
		n = 16
	}
	if n < 2 {
		n = 2
	}
	return n
}

// runMany evaluates the cases with at most par worker processes at a time; stop() is asked
// before each case.
func runMany(cases []caseSpec, par int, stop func() bool) []*result {
	out := make([]*result, len(cases))
	var mu sync.Mutex
	next := 0
	var wg sync.WaitGroup
	for i := 0; i < par && i < len(cases); i++ {
		wg.Add(1)
		go func() {
			defer wg.Done()
			for {
				mu.Lock()
				k := next
				next++
				mu.Unlock()
				if k >= len(cases) || (stop != nil && stop()) {
					return
				}
				out[k] = runWorker(cases[k])
			}
		}()
	}
	wg.Wait()
	return out
}

func sitLabel(c caseSpec) string {
	l := c.Sit + "/" + c.Role
	if c.Var != "-" {
		l += "/" + c.Var
	}
	return l
}

func sigOf(c caseSpec, kind string, f failure) string {
	return f.Class + ":" + c.Tran + ":" + kind + ":" + sitLabel(c) + ":" + f.Detail
}

func replayHint(c caseSpec) string {
	return fmt.Sprintf("%s  (replay: VE_C10_CASE=%s VE_C10_TMP=/tmp ve.bin)", c, c)
}

func runScenario(st *ekit.Stats, sit *situation, tier string) {
	cases := casesOf(sit, tier)
	par := parallelism()
	results := runMany(cases, par, st.OutOfTime)

	done := 0
	setupErrs := 0
	setupMsg := ""
	var suspects []int
	for i, r := range results {
		if r == nil {
			continue
		}
		done++
		st.Case(r.Ops)
		if r.SetupErr != "" {
			setupErrs++
			setupMsg = cases[i].String() + ": " + r.SetupErr
			st.Count("setup-error")
			continue
		}
		if r.InProgress {
			st.Nontrivial(cases[i].String())
			st.Count("in-progress-at-close")
		} else {
			st.Count("not-in-progress-at-close")
		}
		for k, n := range r.Counts {
			for j := 0; j < n; j++ {
				st.Count(k)
			}
		}
		if len(r.Fails) > 0 {
			suspects = append(suspects, i)
		} else {
			st.Count("clean")
			if r.CensusMs > 1000 {
				st.Count("census-took-over-1s")
			}
		}
		st.Sample(map[string]interface{}{"case": r.Case, "in_progress": r.InProgress, "census_ms": r.CensusMs, "fails": len(r.Fails)})
	}
	if done < len(cases) {
		st.Cap(fmt.Sprintf("out of time after %d of %d cases", done, len(cases)))
	}
	if setupErrs > 0 {
		st.Cap(fmt.Sprintf("%d case(s) could not be set up (e.g. %s)", setupErrs, setupMsg))
	}

	// Every suspected failure is replayed three times in fresh worker processes; only
	// signatures that fail in all three replays are reported.
	var replays []caseSpec
	for _, i := range suspects {
		replays = append(replays, cases[i], cases[i], cases[i])
	}
	rr := runMany(replays, par, nil)
	type conf struct {
		c caseSpec
		f failure
	}
	var confirmed []conf
	for n, i := range suspects {
		hits := map[string]int{}
		for _, r := range rr[3*n : 3*n+3] {
			if r == nil {
				continue
			}
			seen := map[string]bool{}
			for _, f := range r.Fails {
				k := f.Class + "\x00" + f.Detail
				if !seen[k] {
					seen[k] = true
					hits[k]++
				}
			}
		}
		for _, f := range results[i].Fails {
			h := hits[f.Class+"\x00"+f.Detail]
			if h == 3 {
				confirmed = append(confirmed, conf{cases[i], f})
				continue
			}
			st.Count("unconfirmed-failure")
			if len(st.Note) < 4000 {
				st.Note += fmt.Sprintf("[not reported, failed in only %d of 3 replays: %s | %s] ", h, sigOf(cases[i], cases[i].Kind, f), f.Msg)
			}
		}
	}

	// A failure that is confirmed for every kind of a (transport, situation) cell does not
	// depend on the pattern: it is reported once, with kind "*".
	kindsOfCell := map[string]map[string]bool{}
	for _, c := range cases {
		k := c.Tran + "\x00" + sitLabel(c)
		if kindsOfCell[k] == nil {
			kindsOfCell[k] = map[string]bool{}
		}
		kindsOfCell[k][c.Kind] = true
	}
	group := map[string][]conf{}
	var order []string
	for _, cf := range confirmed {
		k := sigOf(cf.c, "*", cf.f)
		if group[k] == nil {
			order = append(order, k)
		}
		group[k] = append(group[k], cf)
	}
	sort.Strings(order)
	for _, k := range order {
		g := group[k]
		cell := kindsOfCell[g[0].c.Tran+"\x00"+sitLabel(g[0].c)]
		need := 3
		if narrowCell(g[0].c.Sit, tranByName(g[0].c.Tran)) {
			need = 1 // the kind only supplies the protocol number of the handshake
		}
		if len(g) == len(cell) && len(g) >= need {
			var ks []string
			for _, cf := range g {
				ks = append(ks, cf.c.Kind)
			}
			st.Fail(k, g[0].f.Kind, replayHint(g[0].c), "%s (every kind enumerated for this cell: %s; each reproduced in 3/3 fresh replays)", g[0].f.Msg, strings.Join(ks, ","))
			continue
		}
		for _, cf := range g {
			st.Fail(sigOf(cf.c, cf.c.Kind, cf.f), cf.f.Kind, replayHint(cf.c), "%s (reproduced in 3/3 fresh replays)", cf.f.Msg)
		}
	}
}
