package c10

import (
	"crypto/sha1"
	"crypto/tls"
	"encoding/base64"
	"encoding/binary"
	"errors"
	"fmt"
	"io"
	"net"
	"net/url"
	"strings"
	"sync/atomic"
	"time"

	"go.nanomsg.org/mangos/v3"
	"go.nanomsg.org/mangos/v3/internal/core"
)

// Situation k-txblock: the sender of the subject's only pipe is blocked inside the transport
// write (writev / tls.Conn.Write / gorilla WriteMessage parked in the network poller) because
// the peer has completed the handshake and then reads nothing while the subject keeps sending.
// The peer is a raw endpoint of the harness and stays connected until the census is over, so
// only what the subject's own Close does can release the connection, the goroutines parked on
// it and the pipe id.
//
// In progress = a goroutine of mangos with a transport Send frame is parked in "IO wait" (the
// same goroutine in 20 consecutive observations) and, for the kinds whose Send can block, the
// Send call of the application has stopped returning as well.

const wsGUID = "258EAFA5-E914-47DA-95CA-C5AB0DC85B11"

var txSendFrames = []string{"transport.(*conn).Send", "transport.(*connipc).Send", "transport/ws.(*wsPipe).Send"}

// txBlockedGoroutine returns the id of a mangos goroutine parked in the network poller inside a
// transport Send (0 if there is none).
func txBlockedGoroutine() int64 {
	for _, g := range goroutines() {
		if g.harness() || g.state != "IO wait" {
			continue
		}
		for _, s := range txSendFrames {
			if g.hasFrame(s) {
				return g.id
			}
		}
	}
	return 0
}

// spHeader is the 8 byte SP connection header announcing protocol number proto.
func spHeader(proto uint16) []byte {
	h := []byte{0, 'S', 'P', 0, 0, 0, 0, 0}
	binary.BigEndian.PutUint16(h[4:], proto)
	return h
}

// readHTTPHead reads up to and including the empty line that ends an HTTP header, one byte at a
// time (nothing behind the header is consumed).
func readHTTPHead(c net.Conn) (string, error) {
	var b []byte
	one := make([]byte, 1)
	for len(b) < 16<<10 {
		if _, err := io.ReadFull(c, one); err != nil {
			return string(b), err
		}
		b = append(b, one[0])
		if len(b) >= 4 && string(b[len(b)-4:]) == "\r\n\r\n" {
			return string(b), nil
		}
	}
	return string(b), errors.New("HTTP header too long")
}

func headerValue(head, name string) string {
	for _, ln := range strings.Split(head, "\r\n") {
		if i := strings.IndexByte(ln, ':'); i > 0 && strings.EqualFold(strings.TrimSpace(ln[:i]), name) {
			return strings.TrimSpace(ln[i+1:])
		}
	}
	return ""
}

// rawHandshake completes the transport level handshake on a raw connection as a conformant peer
// of the subject would: TLS (where the transport has it), then the SP header exchange or the
// WebSocket upgrade.  client: the harness connected to a mangos listener.
func (w *wcase) rawHandshake(c net.Conn, client bool, addr string, info mangos.ProtocolInfo) error {
	_ = c.SetDeadline(time.Now().Add(setupWatchdog))
	var s net.Conn = c
	if w.t.tls {
		var tc *tls.Conn
		if client {
			tc = tls.Client(c, w.cliTLS)
		} else {
			tc = tls.Server(c, w.srvTLS)
		}
		if err := tc.Handshake(); err != nil {
			return fmt.Errorf("tls handshake: %v", err)
		}
		s = tc
	}
	switch {
	case !w.t.http:
		if _, err := s.Write(spHeader(info.Peer)); err != nil {
			return fmt.Errorf("SP header write: %v", err)
		}
		h := make([]byte, 8)
		if _, err := io.ReadFull(s, h); err != nil {
			return fmt.Errorf("SP header read: %v", err)
		}
		if string(h) != string(spHeader(info.Self)) {
			return fmt.Errorf("SP header of the subject: % x", h)
		}
	case client:
		u, err := url.Parse(addr)
		if err != nil {
			return err
		}
		// a mangos listener serves the sub-protocol named after its own protocol
		req := "GET " + u.Path + " HTTP/1.1\r\nHost: " + u.Host + "\r\nUpgrade: websocket\r\nConnection: Upgrade\r\n" +
			"Sec-WebSocket-Key: dGhlIHNhbXBsZSBub25jZQ==\r\nSec-WebSocket-Version: 13\r\n" +
			"Sec-WebSocket-Protocol: " + info.SelfName + ".sp.nanomsg.org\r\n\r\n"
		if _, err := s.Write([]byte(req)); err != nil {
			return fmt.Errorf("upgrade request: %v", err)
		}
		head, err := readHTTPHead(s)
		if err != nil {
			return fmt.Errorf("upgrade response: %v", err)
		}
		if !strings.HasPrefix(head, "HTTP/1.1 101") {
			return fmt.Errorf("upgrade refused: %q", strings.SplitN(head, "\r\n", 2)[0])
		}
	default:
		head, err := readHTTPHead(s)
		if err != nil {
			return fmt.Errorf("upgrade request: %v", err)
		}
		key := headerValue(head, "Sec-WebSocket-Key")
		sub := headerValue(head, "Sec-WebSocket-Protocol")
		if key == "" || sub != info.PeerName+".sp.nanomsg.org" {
			return fmt.Errorf("unexpected upgrade request (key %q, sub-protocol %q)", key, sub)
		}
		sum := sha1.Sum([]byte(key + wsGUID))
		resp := "HTTP/1.1 101 Switching Protocols\r\nUpgrade: websocket\r\nConnection: Upgrade\r\n" +
			"Sec-WebSocket-Accept: " + base64.StdEncoding.EncodeToString(sum[:]) + "\r\n" +
			"Sec-WebSocket-Protocol: " + sub + "\r\n\r\n"
		if _, err := s.Write([]byte(resp)); err != nil {
			return fmt.Errorf("upgrade response: %v", err)
		}
	}
	_ = c.SetDeadline(time.Time{})
	return nil
}

// rawListenHandshake starts a raw listener whose connections complete the handshake and are
// then left alone (never read, never closed before the census is over).
func (w *wcase) rawListenHandshake(info mangos.ProtocolInfo, hsErr *atomic.Value) string {
	var ln net.Listener
	var err error
	var addr string
	if w.t.family == "unix" {
		addr = w.newAddr("raw")
		ln, err = net.Listen("unix", w.hostport(addr))
	} else {
		ln, err = net.Listen("tcp", loopIP()+":0")
		if err == nil {
			addr = w.tcpAddr(ln.Addr().String())
		}
	}
	if err != nil {
		w.setupFail("raw listen: %v", err)
	}
	w.rawLn = ln
	go func() {
		for {
			c, err := ln.Accept()
			if err != nil {
				return
			}
			w.rawMu.Lock()
			w.rawConns = append(w.rawConns, c)
			w.rawMu.Unlock()
			atomic.AddInt64(&w.rawAccepted, 1)
			go func() {
				if err := w.rawHandshake(c, false, addr, info); err != nil {
					hsErr.Store(err.Error())
				}
			}()
		}
	}()
	return addr
}

func (w *wcase) sitTxBlock() {
	if w.t.family == "inproc" {
		w.sitTxBlockInproc()
		return
	}
	w.subj = w.newSock(w.k, "subject")
	w.socks = []*sock{w.subj}
	setOpt(w.subj.s, mangos.OptionWriteQLen, 1)
	info := w.subj.s.Info()
	var hsErr atomic.Value
	if w.spec.Role == "L" {
		addr := w.listen(w.subj, w.newAddr("l"))
		network := "tcp"
		if w.t.family == "unix" {
			network = "unix"
		}
		c, err := net.DialTimeout(network, w.hostport(addr), setupWatchdog)
		if err != nil {
			w.setupFail("raw dial %s: %v", addr, err)
		}
		w.rawConns = append(w.rawConns, c)
		if err := w.rawHandshake(c, true, addr, info); err != nil {
			w.setupFail("raw peer: %v", err)
		}
	} else {
		addr := w.rawListenHandshake(info, &hsErr)
		w.dial(w.subj, addr, false)
	}
	if !poll(setupWatchdog, 2*time.Millisecond, func() bool { return w.subj.live() >= 1 || hsErr.Load() != nil }) || w.subj.live() < 1 {
		w.setupFail("the subject did not attach to the raw peer (handshake error: %v)", hsErr.Load())
	}

	body := make([]byte, bigBody)
	var stop int32
	w.sender = startCall("Send", func() (bool, error) {
		after := 0
		for {
			if atomic.LoadInt32(&stop) != 0 {
				return false, nil
			}
			err := w.subj.s.SendMsg(message(w.k, body, nil))
			if err != nil {
				return false, err
			}
			atomic.AddInt64(&w.sendCount, 1)
			if !w.k.blocks {
				time.Sleep(200 * time.Microsecond) // a Send that never blocks: do not spin
			}
			if atomic.LoadInt32(&w.closedFlag) != 0 {
				if after++; after > 1000 {
					return false, errors.New("Send keeps succeeding after Close returned")
				}
			}
		}
	})
	// the transport write is blocked: the same goroutine is parked in the poller, inside a
	// transport Send, in 20 consecutive observations
	stable := 0
	var lastG int64
	inWrite := poll(30*time.Second, 10*time.Millisecond, func() bool {
		g := txBlockedGoroutine()
		if g != 0 && g == lastG {
			stable++
		} else {
			stable = 0
		}
		lastG = g
		return stable >= 20 || (w.sender.finished() && g == 0)
	}) && stable >= 20
	if !w.k.blocks {
		// Send of this kind never blocks (messages for a busy pipe are dropped): stop sending
		atomic.StoreInt32(&stop, 1)
		if !w.sender.wait(callWatchdog) {
			w.setupFail("%s: Send did not return although it never blocks", w.k.name)
		}
		if w.sender.err != nil {
			w.setupFail("%s: Send before Close: %v", w.k.name, w.sender.err)
		}
		w.sender = nil
		if inWrite {
			w.res.InProgress = true
		} else {
			w.res.count("transport-write-never-blocked")
		}
		return
	}
	// and the application's Send has stopped returning
	stable = 0
	last := int64(-1)
	sendBlocked := poll(15*time.Second, 10*time.Millisecond, func() bool {
		if w.sender.finished() {
			return true
		}
		n := atomic.LoadInt64(&w.sendCount)
		if n == last && w.sender.parked() {
			stable++
		} else {
			stable = 0
		}
		last = n
		return stable >= 20
	}) && !w.sender.finished()
	switch {
	case inWrite && sendBlocked && txBlockedGoroutine() != 0:
		w.res.InProgress = true
	case !inWrite:
		w.res.count("transport-write-never-blocked")
	default:
		w.res.count("send-never-blocked")
	}
}

// sitTxBlockInproc: no kernel buffer; the peer is a mangos socket with a receive queue of one
// that does not Recv (and therefore does not notice that a pipe went away).  The subject is
// closed first; its Close alone must release the blocked Send, the pipe's sender parked in the
// inproc transport and the subject's pipe; only then is the peer closed.
func (w *wcase) sitTxBlockInproc() {
	w.sitSend()
	if w.res.InProgress && !anyGoroutine("transport/inproc.(*inproc).Send") {
		w.res.InProgress = false
		w.res.count("transport-write-never-blocked")
	}
	w.afterSubject = func() {
		if w.sender != nil && !w.sender.wait(callWatchdog) {
			w.res.fail("call-not-unblocked", "Send(peer-still-open)", "hang", "Send blocked on the %s socket did not return within %v of Close while the peer (which does not Recv) was still open", w.k.name, callWatchdog)
		}
		n := 0
		parked := false
		if !poll(censusBound, censusStep, func() bool {
			n = core.VerifSocketPipes(w.subj.s)
			parked = anyGoroutine("transport/inproc.(*inproc).Send")
			return n <= 0 && !parked
		}) {
			w.res.fail("pipe-not-closed", "peer-still-open", "fail", "%v after the %s socket was closed, with its peer (which does not Recv) still open: %d pipe(s) listed by the closed socket, a sender still parked in the inproc transport: %v", censusBound, w.k.name, n, parked)
		}
	}
}
