// Package ekit is the small framework of engine E: bounded-exhaustive enumeration of
// inputs / configurations / operation lists on the UNREWRITTEN mangos code (real
// goroutines, real OS transports, or the built macat binary).  A property package
// registers scenarios; each scenario enumerates a finite, stated set of cases
// completely and reports every case whose oracle fails.
package ekit

import (
	"bytes"
	"encoding/json"
	"flag"
	"fmt"
	"io"
	"os"
	"os/exec"
	"regexp"
	"sort"
	"strings"
	"sync"
	"time"
)

// Violation is one failing case.
type Violation struct {
	Sig     string `json:"sig"`     // short, stable, line-number free signature (known-findings matching)
	Kind    string `json:"kind"`    // "fail", "panic", "hang"
	Message string `json:"message"` // what was expected and what happened
	Input   string `json:"input"`   // the exact case, so it can be replayed by hand
	Count   int    `json:"count"`
}

// Stats is the result of one scenario (same JSON shape as engine S).
type Stats struct {
	Scenario    string         `json:"scenario"`
	Mode        string         `json:"mode"`
	Executions  int            `json:"executions"`        // cases evaluated
	Transitions int            `json:"transitions"`       // API operations / messages performed
	DistinctObs int            `json:"distinct_outcomes"` // distinct non-trivial cases (counted)
	Counters    map[string]int `json:"counters"`
	Violations  []*Violation   `json:"violations,omitempty"`
	Exhaustive  bool           `json:"exhaustive"`
	CapHit      string         `json:"cap_hit,omitempty"`
	Samples     []interface{}  `json:"samples,omitempty"`
	WallS       float64        `json:"wall_s"`
	Note        string         `json:"note,omitempty"`

	mu       sync.Mutex
	distinct map[string]bool
	deadline time.Time
}

// Scenario enumerates one finite case set.
type Scenario struct {
	Name string
	Run  func(st *Stats, tier string)
}

var registry = map[string][]Scenario{}

// Register adds a scenario for a property.
func Register(prop string, sc Scenario) { registry[prop] = append(registry[prop], sc) }

// Case records that one case was evaluated with ops operations.
func (st *Stats) Case(ops int) {
	st.mu.Lock()
	st.Executions++
	st.Transitions += ops
	st.mu.Unlock()
}

// Nontrivial records a distinct case that exercised the clause under test.
func (st *Stats) Nontrivial(key string) {
	st.mu.Lock()
	if !st.distinct[key] {
		st.distinct[key] = true
		st.DistinctObs = len(st.distinct)
	}
	st.mu.Unlock()
}

// Count bumps a vacuity counter.
func (st *Stats) Count(name string) {
	st.mu.Lock()
	st.Counters[name]++
	st.mu.Unlock()
}

// Sample stores up to three example cases.
func (st *Stats) Sample(x interface{}) {
	st.mu.Lock()
	if len(st.Samples) < 3 {
		st.Samples = append(st.Samples, x)
	}
	st.mu.Unlock()
}

// Fail records a violation (deduplicated by signature).
func (st *Stats) Fail(sig, kind, input, format string, a ...interface{}) {
	st.mu.Lock()
	defer st.mu.Unlock()
	for _, v := range st.Violations {
		if v.Sig == sig {
			v.Count++
			return
		}
	}
	st.Violations = append(st.Violations, &Violation{Sig: sig, Kind: kind, Input: input, Message: fmt.Sprintf(format, a...), Count: 1})
}

// OutOfTime reports whether the wall clock budget is used up; a scenario that stops
// early must call st.Cap.
func (st *Stats) OutOfTime() bool { return time.Now().After(st.deadline) }

// Cap marks the enumeration as incomplete.
func (st *Stats) Cap(why string) {
	st.mu.Lock()
	st.Exhaustive = false
	st.CapHit = why
	st.mu.Unlock()
}

// Part is the file handed to tools/aggregate.py.
type Part struct {
	Engine      string   `json:"engine"`
	Property    string   `json:"property"`
	Tier        string   `json:"tier"`
	Scenarios   []*Stats `json:"scenarios"`
	WallS       float64  `json:"wall_s"`
	Internal    string   `json:"internal_error,omitempty"`
	Assumptions []string `json:"assumptions,omitempty"`
}

// Tmp is a scratch directory that exists for the duration of the run.
var Tmp string

// Main is the entry point of the engine E binary.
func Main() {
	prop := flag.String("prop", "", "")
	tier := flag.String("tier", "quick", "")
	partOut := flag.String("part", "", "")
	tmp := flag.String("tmp", os.TempDir(), "")
	budget := flag.Duration("budget", 10*time.Minute, "")
	only := flag.String("only", "", "")
	list := flag.Bool("list", false, "")
	child := flag.Bool("child", false, "run the scenarios in this process (the parent isolates each scenario in a child so that a crash of the library is a verdict, not a tool failure)")
	exact := flag.String("scenario", "", "exact scenario name (child mode)")
	flag.Parse()
	if *list {
		var ps []string
		for p := range registry {
			ps = append(ps, p)
		}
		sort.Strings(ps)
		for _, p := range ps {
			for _, sc := range registry[p] {
				fmt.Println(p, sc.Name)
			}
		}
		return
	}
	Tmp = *tmp
	start := time.Now()
	part := &Part{Engine: "E", Property: *prop, Tier: *tier,
		Assumptions: []string{"engine E runs the unmodified code under the real Go scheduler: inputs/configurations are enumerated exhaustively, schedules are not controlled; hang verdicts use a generous watchdog"}}
	scs := registry[*prop]
	if len(scs) == 0 {
		fmt.Fprintf(os.Stderr, "no engine E scenarios for %s\n", *prop)
		os.Exit(2)
	}
	for _, sc := range scs {
		if *only != "" && !strings.Contains(sc.Name, *only) {
			continue
		}
		if *exact != "" && sc.Name != *exact {
			continue
		}
		if !*child {
			// every scenario has the tier's budget to itself (as in engine S): a scenario that is
			// slowed down by a defect must not starve the ones after it
			left := *budget
			st := runIsolated(sc.Name, *prop, *tier, *tmp, left, part)
			part.Scenarios = append(part.Scenarios, st...)
			continue
		}
		st := &Stats{Scenario: sc.Name, Mode: "enum", Counters: map[string]int{}, Exhaustive: true, distinct: map[string]bool{}, deadline: start.Add(*budget)}
		t0 := time.Now()
		func() {
			defer func() {
				if r := recover(); r != nil {
					part.Internal += fmt.Sprintf("scenario %s: harness panic: %v\n", sc.Name, r)
				}
			}()
			sc.Run(st, *tier)
		}()
		st.WallS = time.Since(t0).Seconds()
		part.Scenarios = append(part.Scenarios, st)
		fmt.Printf("  %-34s enum  cases=%d ops=%d nontrivial=%d viol=%d exhaustive=%v %.1fs\n", st.Scenario, st.Executions, st.Transitions, st.DistinctObs, len(st.Violations), st.Exhaustive, st.WallS)
	}
	part.WallS = time.Since(start).Seconds()
	b, _ := json.MarshalIndent(part, "", " ")
	if err := os.WriteFile(*partOut, b, 0o644); err != nil {
		fmt.Fprintln(os.Stderr, err)
		os.Exit(2)
	}
	if part.Internal != "" {
		fmt.Fprintln(os.Stderr, "INTERNAL:", part.Internal)
		os.Exit(2)
	}
}


// ---------------------------------------------------------------------------
// scenario isolation

var frameRe = regexp.MustCompile(`(?m)^(go\.nanomsg\.org/mangos/v3[^\s(]*(?:\([^)]*\))?[^\s(]*)\(`)

// runChild runs one scenario in a child process; ok is false when the child died.
func runChild(name, prop, tier, tmp string, budget time.Duration) (st []*Stats, internal string, stderr string, ok bool) {
	pf, err := os.CreateTemp(tmp, "ve-part-*.json")
	if err != nil {
		return nil, err.Error(), "", false
	}
	pf.Close()
	defer os.Remove(pf.Name())
	cmd := exec.Command(os.Args[0], "-child", "-prop", prop, "-tier", tier, "-tmp", tmp, "-budget", budget.String(), "-scenario", name, "-part", pf.Name())
	var eb bytes.Buffer
	cmd.Stdout = os.Stdout
	cmd.Stderr = io.MultiWriter(&eb, os.Stderr)
	err = cmd.Run()
	stderr = eb.String()
	if len(stderr) > 1<<16 {
		stderr = stderr[:1<<15] + "\n...\n" + stderr[len(stderr)-(1<<15):]
	}
	b, rerr := os.ReadFile(pf.Name())
	var p Part
	if rerr == nil && len(b) > 0 && json.Unmarshal(b, &p) == nil {
		return p.Scenarios, p.Internal, stderr, true
	}
	_ = err
	return nil, "", stderr, false
}

// runIsolated runs the scenario in a child.  If the child is killed by a Go panic or fatal error
// raised on a goroutine of the library (first frame of the dying goroutine inside mangos, outside
// this harness), and that recurs in two further runs, the crash is the verdict: no input may bring
// the process down.  Anything else that kills the child is a tool failure.
func runIsolated(name, prop, tier, tmp string, budget time.Duration, part *Part) []*Stats {
	t0 := time.Now()
	st, internal, stderr, ok := runChild(name, prop, tier, tmp, budget)
	if ok {
		part.Internal += internal
		return st
	}
	sig, msg := crashSig(stderr)
	if sig == "" {
		part.Internal += fmt.Sprintf("scenario %s: child process died without a result:\n%s\n", name, tail(stderr, 2000))
		return nil
	}
	sigs := map[string]string{sig: msg}
	cnt := map[string]int{sig: 1}
	for i := 0; i < 2; i++ {
		_, _, e2, ok2 := runChild(name, prop, tier, tmp, budget)
		s2, m2 := crashSig(e2)
		if ok2 || s2 == "" {
			part.Internal += fmt.Sprintf("scenario %s: child process crashed (%s) but run %d did not crash in the library again (%q)\n", name, sig, i+2, s2)
			return nil
		}
		sigs[s2] = m2
		cnt[s2]++
	}
	r := &Stats{Scenario: name, Mode: "enum", Counters: map[string]int{}, Exhaustive: false, CapHit: "the process running the enumeration was brought down by the library (3 of 3 runs)", WallS: time.Since(t0).Seconds()}
	var keys []string
	for k := range sigs {
		keys = append(keys, k)
	}
	sort.Strings(keys)
	for _, k := range keys {
		r.Violations = append(r.Violations, &Violation{Sig: k, Kind: "panic", Count: cnt[k], Input: "scenario " + name + " (" + tier + "): re-run `ve.bin -child -prop " + prop + " -tier " + tier + " -scenario " + name + "`",
			Message: "the process was killed by the library while the cases of this scenario ran (3 of 3 runs): " + sigs[k]})
	}
	fmt.Printf("  %-34s enum  CRASHED (3/3): %s\n", name, strings.Join(keys, " | "))
	return []*Stats{r}
}

func tail(s string, n int) string {
	if len(s) > n {
		return s[len(s)-n:]
	}
	return s
}

var numRe = regexp.MustCompile(`[0-9]+`)

// crashSig extracts "crash:<panic message without numbers>@<first mangos frame>" from a Go crash dump.
func crashSig(stderr string) (string, string) {
	i := strings.Index(stderr, "\npanic: ")
	k := 8
	if i < 0 && strings.HasPrefix(stderr, "panic: ") {
		i, k = -1, 7
	}
	if i < 0 && k == 8 {
		i = strings.Index(stderr, "\nfatal error: ")
		k = 14
		if i < 0 {
			return "", ""
		}
	}
	rest := stderr[i+1:]
	line := rest
	if j := strings.IndexByte(rest, '\n'); j >= 0 {
		line = rest[:j]
	}
	g := strings.Index(rest, "\ngoroutine ")
	if g < 0 {
		return "", ""
	}
	dump := rest[g:]
	if e := strings.Index(dump[1:], "\n\n"); e >= 0 {
		dump = dump[:e+1] // the dying goroutine only
	}
	m := frameRe.FindStringSubmatch(dump)
	if m == nil {
		return "", ""
	}
	fn := strings.TrimPrefix(m[1], "go.nanomsg.org/mangos/v3/")
	if strings.HasPrefix(fn, "ve/") {
		return "", "" // the harness itself: a tool failure
	}
	return "crash:" + numRe.ReplaceAllString(line, "N") + "@" + fn, line + " in " + fn + "\n" + tail(dump, 1500)
}
