// Package ekit is the small framework of engine E: bounded-exhaustive enumeration of
// inputs / configurations / operation lists on the UNREWRITTEN mangos code (real
// goroutines, real OS transports, or the built macat binary).  A property package
// registers scenarios; each scenario enumerates a finite, stated set of cases
// completely and reports every case whose oracle fails.
package ekit

import (
	"encoding/json"
	"flag"
	"fmt"
	"os"
	"sort"
	"strings"
	"sync"
	"time"
)

// Violation is one failing case.
type Violation struct {
	Sig     string `json:"sig"`     // short, stable, line-number free signature (known-findings matching)
	Kind    string `json:"kind"`    // "fail", "panic", "hang"
	Message string `json:"message"` // what was expected and what happened
	Input   string `json:"input"`   // the exact case, so it can be replayed by hand
	Count   int    `json:"count"`
}

// Stats is the result of one scenario (same JSON shape as engine S).
type Stats struct {
	Scenario    string         `json:"scenario"`
	Mode        string         `json:"mode"`
	Executions  int            `json:"executions"`        // cases evaluated
	Transitions int            `json:"transitions"`       // API operations / messages performed
	DistinctObs int            `json:"distinct_outcomes"` // distinct non-trivial cases (counted)
	Counters    map[string]int `json:"counters"`
	Violations  []*Violation   `json:"violations,omitempty"`
	Exhaustive  bool           `json:"exhaustive"`
	CapHit      string         `json:"cap_hit,omitempty"`
	Samples     []interface{}  `json:"samples,omitempty"`
	WallS       float64        `json:"wall_s"`
	Note        string         `json:"note,omitempty"`

	mu       sync.Mutex
	distinct map[string]bool
	deadline time.Time
}

// Scenario enumerates one finite case set.
type Scenario struct {
	Name string
	Run  func(st *Stats, tier string)
}

var registry = map[string][]Scenario{}

// Register adds a scenario for a property.
func Register(prop string, sc Scenario) { registry[prop] = append(registry[prop], sc) }

// Case records that one case was evaluated with ops operations.
func (st *Stats) Case(ops int) {
	st.mu.Lock()
	st.Executions++
	st.Transitions += ops
	st.mu.Unlock()
}

// Nontrivial records a distinct case that exercised the clause under test.
func (st *Stats) Nontrivial(key string) {
	st.mu.Lock()
	if !st.distinct[key] {
		st.distinct[key] = true
		st.DistinctObs = len(st.distinct)
	}
	st.mu.Unlock()
}

// Count bumps a vacuity counter.
func (st *Stats) Count(name string) {
	st.mu.Lock()
	st.Counters[name]++
	st.mu.Unlock()
}

// Sample stores up to three example cases.
func (st *Stats) Sample(x interface{}) {
	st.mu.Lock()
	if len(st.Samples) < 3 {
		st.Samples = append(st.Samples, x)
	}
	st.mu.Unlock()
}

// Fail records a violation (deduplicated by signature).
func (st *Stats) Fail(sig, kind, input, format string, a ...interface{}) {
	st.mu.Lock()
	defer st.mu.Unlock()
	for _, v := range st.Violations {
		if v.Sig == sig {
			v.Count++
			return
		}
	}
	st.Violations = append(st.Violations, &Violation{Sig: sig, Kind: kind, Input: input, Message: fmt.Sprintf(format, a...), Count: 1})
}

// OutOfTime reports whether the wall clock budget is used up; a scenario that stops
// early must call st.Cap.
func (st *Stats) OutOfTime() bool { return time.Now().After(st.deadline) }

// Cap marks the enumeration as incomplete.
func (st *Stats) Cap(why string) {
	st.mu.Lock()
	st.Exhaustive = false
	st.CapHit = why
	st.mu.Unlock()
}

// Part is the file handed to tools/aggregate.py.
type Part struct {
	Engine      string   `json:"engine"`
	Property    string   `json:"property"`
	Tier        string   `json:"tier"`
	Scenarios   []*Stats `json:"scenarios"`
	WallS       float64  `json:"wall_s"`
	Internal    string   `json:"internal_error,omitempty"`
	Assumptions []string `json:"assumptions,omitempty"`
}

// Tmp is a scratch directory that exists for the duration of the run.
var Tmp string

// Main is the entry point of the engine E binary.
func Main() {
	prop := flag.String("prop", "", "")
	tier := flag.String("tier", "quick", "")
	partOut := flag.String("part", "", "")
	tmp := flag.String("tmp", os.TempDir(), "")
	budget := flag.Duration("budget", 10*time.Minute, "")
	only := flag.String("only", "", "")
	list := flag.Bool("list", false, "")
	flag.Parse()
	if *list {
		var ps []string
		for p := range registry {
			ps = append(ps, p)
		}
		sort.Strings(ps)
		for _, p := range ps {
			for _, sc := range registry[p] {
				fmt.Println(p, sc.Name)
			}
		}
		return
	}
	Tmp = *tmp
	start := time.Now()
	part := &Part{Engine: "E", Property: *prop, Tier: *tier,
		Assumptions: []string{"engine E runs the unmodified code under the real Go scheduler: inputs/configurations are enumerated exhaustively, schedules are not controlled; hang verdicts use a generous watchdog"}}
	scs := registry[*prop]
	if len(scs) == 0 {
		fmt.Fprintf(os.Stderr, "no engine E scenarios for %s\n", *prop)
		os.Exit(2)
	}
	for _, sc := range scs {
		if *only != "" && !strings.Contains(sc.Name, *only) {
			continue
		}
		st := &Stats{Scenario: sc.Name, Mode: "enum", Counters: map[string]int{}, Exhaustive: true, distinct: map[string]bool{}, deadline: start.Add(*budget)}
		t0 := time.Now()
		func() {
			defer func() {
				if r := recover(); r != nil {
					part.Internal += fmt.Sprintf("scenario %s: harness panic: %v\n", sc.Name, r)
				}
			}()
			sc.Run(st, *tier)
		}()
		st.WallS = time.Since(t0).Seconds()
		part.Scenarios = append(part.Scenarios, st)
		fmt.Printf("  %-34s enum  cases=%d ops=%d nontrivial=%d viol=%d exhaustive=%v %.1fs\n", st.Scenario, st.Executions, st.Transitions, st.DistinctObs, len(st.Violations), st.Exhaustive, st.WallS)
	}
	part.WallS = time.Since(start).Seconds()
	b, _ := json.MarshalIndent(part, "", " ")
	if err := os.WriteFile(*partOut, b, 0o644); err != nil {
		fmt.Fprintln(os.Stderr, err)
		os.Exit(2)
	}
	if part.Internal != "" {
		fmt.Fprintln(os.Stderr, "INTERNAL:", part.Internal)
		os.Exit(2)
	}
}
