package c01

// Scenario "late-reader-large-burst" (C01, C02, C17): back-to-back large messages to a
// reader that starts late.
//
// For every transport and for PAIR and PUSH->PULL the sender sends burstCount messages of
// burstSize bytes as fast as Send accepts them (blocking sends, default queue lengths)
// while the receiving application calls Recv for the first time burstDelay later, so that
// the queues and the transport's buffers are full and the sender's writes block half way
// through a message while the application is already preparing the next ones.  Every
// message carries its sequence number and position dependent content derived from it.
//
// Oracle (data only): message i received == message i sent (length, sequence number,
// every byte), for all i.  The only wall-clock components are the 15 s Send/Recv
// deadlines (hang detectors); the late start is a stimulus, not an oracle.  A failing
// cell is re-run three times on fresh sockets.
//
// The whole scenario runs with GOMAXPROCS(1) (each scenario has its own child process):
// a buffer that the library handed back to the message pool too early is then taken by
// the very next NewMessage of the application instead of resting in another P's cache,
// which makes early releases visible every time instead of occasionally.

import (
	"encoding/binary"
	"fmt"
	"runtime"
	"sync"
	"sync/atomic"
	"time"

	"go.nanomsg.org/mangos/v3/ve/ekit"
)

const (
	burstSize  = 60000
	burstDelay = 1200 * time.Millisecond
)

var burstCounts = map[string]int{"pair": 300, "pushpull": 260}

type burstCell struct {
	t     *tran
	k     *kind
	id    uint64
	count int
	input string
}

func (bc *burstCell) spec(i int) mspec {
	return mspec{n: burstSize - 8, seed: mix(bc.id<<32 ^ uint64(i)), fill: -1}
}

func (bc *burstCell) fail(kind string, timeout bool, format string, a ...interface{}) *failure {
	return &failure{kind: kind, timeout: timeout, input: bc.input, msg: fmt.Sprintf(format, a...)}
}

func (bc *burstCell) run(verified *int64) *failure {
	l, err := openLink(bc.t, bc.k, 0)
	if err != nil {
		return bc.fail("setup", false, "%v", err)
	}
	defer l.close()
	tx, rx := l.ep[0].s, l.ep[1].s
	sendErr := make(chan error, 1)
	stop := make(chan struct{})
	var wg sync.WaitGroup
	wg.Add(1)
	go func() {
		defer wg.Done()
		buf := make([]byte, 0, burstSize)
		for i := 0; i < bc.count; i++ {
			select {
			case <-stop:
				return
			default:
			}
			buf = buf[:8]
			binary.BigEndian.PutUint64(buf, uint64(i))
			buf = bc.spec(i).appendTo(buf)
			if e := tx.Send(buf); e != nil {
				sendErr <- fmt.Errorf("Send of message %d: %v", i, e)
				return
			}
		}
	}()
	defer wg.Wait()
	defer close(stop)
	time.Sleep(burstDelay)
	for i := 0; i < bc.count; i++ {
		m, e := rx.RecvMsg()
		if e != nil {
			select {
			case se := <-sendErr:
				return bc.fail("send", true, "%v (and Recv of message %d: %v)", se, i, e)
			default:
			}
			return bc.fail("lost", true, "message %d of %d never arrived: Recv: %v", i, bc.count, e)
		}
		if len(m.Body) != burstSize {
			f := bc.fail("mismatch", false, "message %d of %d: received %d bytes, sent %d", i, bc.count, len(m.Body), burstSize)
			m.Free()
			return f
		}
		if seq := binary.BigEndian.Uint64(m.Body); seq != uint64(i) {
			f := bc.fail("order", false, "message %d of %d carries sequence number %d", i, bc.count, seq)
			m.Free()
			return f
		}
		if d := bc.spec(i).diff(m.Body[8:]); d != "" {
			f := bc.fail("mismatch", false, "message %d of %d (sequence number intact) arrived altered after the 8-byte sequence number: %s", i, bc.count, d)
			m.Free()
			return f
		}
		m.Free()
		atomic.AddInt64(verified, 1)
	}
	select {
	case se := <-sendErr:
		return bc.fail("send", true, "%v", se)
	default:
	}
	return nil
}

var burstSeq uint64

func scenBurstLate(st *ekit.Stats, tier string) {
	defer runtime.GOMAXPROCS(runtime.GOMAXPROCS(1))
	st.Note = fmt.Sprintf("6 transports x {pair, pushpull}: %v messages of %d bytes sent back to back, the receiver's first Recv %v after the sender started; every message byte-identical and in order", burstCounts, burstSize, burstDelay)
	var cells []*burstCell
	for _, t := range trans {
		for _, kn := range []string{"pair", "pushpull"} {
			id := atomic.AddUint64(&burstSeq, 1)
			cells = append(cells, &burstCell{t: t, k: kindByName(kn), id: id, count: burstCounts[kn],
				input: fmt.Sprintf("transport=%s pattern=%s: sender (dialer) sends %d messages of %d bytes back to back (8-byte sequence number + pat(mix(%d<<32^i))), receiver (listener) starts receiving %v later", t.name, kn, burstCounts[kn], burstSize, id, burstDelay)})
		}
	}
	var verified int64
	var wg sync.WaitGroup
	for _, bc := range cells {
		wg.Add(1)
		go func(bc *burstCell) {
			defer wg.Done()
			executeBurst(st, bc, &verified)
		}(bc)
	}
	wg.Wait()
	for i := int64(0); i < verified; i += 100 {
		st.Count("hundreds-of-messages-verified")
	}
	st.Sample(map[string]string{"case": cells[0].input})
}

func executeBurst(st *ekit.Stats, bc *burstCell, verified *int64) {
	var f *failure
	for try := 0; try < 3; try++ {
		if f = bc.run(verified); f == nil || f.kind != "setup" {
			break
		}
	}
	st.Case(2 * bc.count)
	if f == nil {
		st.Nontrivial(bc.t.name + "/" + bc.k.name)
		return
	}
	if f.kind == "setup" {
		st.Count("setup-failed")
		st.Cap(fmt.Sprintf("cell %s/%s: %s", bc.t.name, bc.k.name, f.msg))
		return
	}
	repro := 0
	for i := 0; i < 3; i++ {
		var dummy int64
		if g := bc.run(&dummy); g != nil && g.kind == f.kind {
			repro++
		}
	}
	sig := fmt.Sprintf("late-reader-burst-%s:%s:%s", f.kind, bc.t.name, bc.k.name)
	vk := "fail"
	if f.timeout {
		vk = "hang"
	}
	switch {
	case repro > 0:
		st.Fail(sig, vk, f.input, "%s [reproduced %d/3 on fresh sockets]", f.msg, repro)
	case !f.timeout:
		st.Fail(sig+":unreproduced", vk, f.input, "%s [seen once, reproduced 0/3 on fresh sockets]", f.msg)
	default:
		st.Count("timeout-not-reproduced")
		st.Sample(map[string]string{"unreproduced": f.msg, "input": f.input})
	}
}

func init() {
	for _, prop := range []string{"C01", "C02", "C17"} {
		ekit.Register(prop, ekit.Scenario{Name: "late-reader-large-burst", Run: scenBurstLate})
	}
}
